(* ---- E3 BEGIN (controlled interleavings: trace validation and exhaustive exploration of the
   extracted pipeline LTS, Conc/Pipeline.v) ---- *)
let e3_kv (s : string) : (string * string) list =
  List.filter_map (fun kv -> match String.index_opt kv '=' with
      | Some i -> Some (String.sub kv 0 i, String.sub kv (i + 1) (String.length kv - i - 1))
      | None -> None) (String.split_on_char ',' s)
let e3_int kvs k d = match List.assoc_opt k kvs with Some v -> int_of_string v | None -> d
let e3_cfg kvs = { c_slots = nat_of_int (e3_int kvs "slots" 8); c_permits = nat_of_int (e3_int kvs "permits" 7);
                   c_memlimit = nat_of_int (e3_int kvs "mem" 2); c_l0limit = nat_of_int (e3_int kvs "l0" 1000) }

let e3_actor_of (a : string) : actor =
  match a.[0] with
  | 'c' -> ACommit (nat_of_int (int_of_string (String.sub a 1 (String.length a - 1))))
  | 'r' -> AReader (nat_of_int (int_of_string (String.sub a 1 (String.length a - 1))))
  | 'F' -> AFlush | 'L' -> ALevel | 'X' -> ACloser | _ -> AMain
let e3_actor_str = function
  | ACommit i -> "c" ^ string_of_int (int_of_nat i) | AReader i -> "r" ^ string_of_int (int_of_nat i)
  | AFlush -> "F" | ALevel -> "L" | ACloser -> "X" | AMain -> "M"

let e3_label_of (name : string) (a : int) (b : int) : label option =
  let n = nat_of_int in
  match name with
  | "txn.loaded" -> Some (LTxnLoaded (n a)) | "txn.registered" -> Some (LTxnRegistered (n a))
  | "commit.enter" -> Some (LEnter (n b))
  | "stall.registered" -> Some LStallRegistered | "stall.counted" -> Some (LStallCounted (n a, n b))
  | "stall.wait" -> Some LStallWait | "commit.stall_ok" -> Some LStallOk
  | "commit.sem_acquired" -> Some LSemAcquired | "commit.want_lock" -> Some LWantLock
  | "commit.locked" -> Some LLocked | "commit.checked" -> Some LChecked
  | "commit.seq_allocated" -> Some (LSeqAllocated (n a, n b)) | "commit.oracle_published" -> Some LOraclePublished
  | "enq.loaded" -> Some (LEnqLoaded (n a, n b)) | "enq.full" -> Some LEnqFull | "enq.spin" -> Some LEnqSpin
  | "enq.stored" -> Some LEnqStored | "enq.done" -> Some LEnqDone | "commit.enqueued" -> Some LEnqueued
  | "commit.wal_failed" -> Some LWalFailed | "commit.fail_completed" -> Some LFailCompleted
  | "commit.marked" -> Some LMarked | "commit.unlocked" -> Some LUnlocked
  | "mem.insert" -> Some (LMemInsert (n a)) | "apply.arena_full" -> Some LArenaFull | "apply.rotated" -> Some LRotated
  | "task.wake_mem" -> Some LWakeMem | "apply.woke" -> Some LApplyWoke
  | "commit.after_apply" -> Some (LAfterApply (b = 1))
  | "deq.loaded" -> Some (LDeqLoaded (n a, n b)) | "deq.slot" -> Some (LDeqSlot (n a, b = 1))
  | "deq.checked" -> Some (LDeqChecked (n a, b = 1)) | "deq.cas_ok" -> Some LDeqCasOk | "deq.cas_fail" -> Some LDeqCasFail
  | "deq.cleared" -> Some LDeqCleared | "pub.deq" -> Some (LPubDeq (n a, n b))
  | "vis.loaded" -> Some (LVisLoaded (n a, n b)) | "vis.skip" -> Some LVisSkip | "vis.cas_ok" -> Some LVisCasOk
  | "vis.cas_fail" -> Some LVisCasFail | "pub.completed" -> Some LPubCompleted | "pub.exit" -> Some LPubExit
  | "commit.published" -> Some LPublished
  | "ret" -> Some (LRet (match a with 0 -> ResOk | 1 -> ResErr | _ -> ResPanic))
  | "obs" -> Some (LObs (n a, (match b with 0 -> OFull | 1 -> ONone | _ -> OPartial)))
  | "stall.signal" -> Some (LSignal (a = 1))
  | "task.mem.wait" -> Some LMemWait | "task.mem.woken" -> Some LMemWoken | "task.mem.running" -> Some LMemRunning
  | "task.mem.flushed" -> Some LMemFlushed | "task.mem.nopending" -> Some LMemNoPending | "task.mem.error" -> Some LMemError
  | "task.mem.notified_level" -> Some LMemNotifiedLevel | "task.mem.idle" -> Some LMemIdle | "task.mem.recheck" -> Some LMemRecheck | "task.mem.exit" -> Some LMemExit
  | "task.level.wait" -> Some LLevelWait | "task.level.woken" -> Some LLevelWoken | "task.level.running" -> Some LLevelRunning
  | "task.level.done" -> Some (LLevelDone (n a)) | "task.level.error" -> Some LLevelError
  | "task.level.idle" -> Some LLevelIdle | "task.level.exit" -> Some LLevelExit
  | "task.wake_level" -> Some LWakeLevel
  | "close.start" -> Some LCloseStart | "close.pipe_shutdown" -> Some LClosePipeDown
  | "task.stop.flag" -> Some LStopFlag | "task.stop.notified" -> Some LStopNotified | "task.stop.poll" -> Some LStopPoll
  | "task.stop.join" -> Some LStopJoin | "close.tasks_stopped" -> Some LCloseTasksStopped
  | "close.synced" -> Some LCloseSynced | "close.end" -> Some LCloseEnd
  | _ -> None

let e3_label_str (l : label) : string =
  let i = int_of_nat in
  let p name a b = Printf.sprintf "%s,%d,%d" name a b in
  match l with
  | LTxnLoaded h -> p "txn.loaded" (i h) 0 | LTxnRegistered h -> p "txn.registered" (i h) 0
  | LEnter c -> p "commit.enter" 0 (i c)
  | LStallRegistered -> p "stall.registered" 0 0 | LStallCounted (a, b) -> p "stall.counted" (i a) (i b)
  | LStallWait -> p "stall.wait" 0 0 | LStallOk -> p "commit.stall_ok" 0 0 | LSemAcquired -> p "commit.sem_acquired" 0 0
  | LWantLock -> p "commit.want_lock" 0 0 | LLocked -> p "commit.locked" 0 0 | LChecked -> p "commit.checked" 0 0
  | LSeqAllocated (a, b) -> p "commit.seq_allocated" (i a) (i b) | LOraclePublished -> p "commit.oracle_published" 0 0
  | LEnqLoaded (a, b) -> p "enq.loaded" (i a) (i b) | LEnqFull -> p "enq.full" 0 0 | LEnqSpin -> p "enq.spin" 0 0
  | LEnqStored -> p "enq.stored" 0 0 | LEnqDone -> p "enq.done" 0 0 | LEnqueued -> p "commit.enqueued" 0 0
  | LWalFailed -> p "commit.wal_failed" 0 0 | LFailCompleted -> p "commit.fail_completed" 0 0
  | LMarked -> p "commit.marked" 0 0 | LUnlocked -> p "commit.unlocked" 0 0
  | LMemInsert a -> p "mem.insert" (i a) 0 | LArenaFull -> p "apply.arena_full" 0 0 | LRotated -> p "apply.rotated" 0 0
  | LWakeMem -> p "task.wake_mem" 0 0 | LApplyWoke -> p "apply.woke" 0 0
  | LAfterApply e -> p "commit.after_apply" 0 (if e then 1 else 0)
  | LDeqLoaded (a, b) -> p "deq.loaded" (i a) (i b) | LDeqSlot (a, b) -> p "deq.slot" (i a) (if b then 1 else 0)
  | LDeqChecked (a, b) -> p "deq.checked" (i a) (if b then 1 else 0) | LDeqCasOk -> p "deq.cas_ok" 0 0
  | LDeqCasFail -> p "deq.cas_fail" 0 0 | LDeqCleared -> p "deq.cleared" 0 0 | LPubDeq (a, b) -> p "pub.deq" (i a) (i b)
  | LVisLoaded (a, b) -> p "vis.loaded" (i a) (i b) | LVisSkip -> p "vis.skip" 0 0 | LVisCasOk -> p "vis.cas_ok" 0 0
  | LVisCasFail -> p "vis.cas_fail" 0 0 | LPubCompleted -> p "pub.completed" 0 0 | LPubExit -> p "pub.exit" 0 0
  | LPublished -> p "commit.published" 0 0
  | LRet r -> p "ret" (match r with ResOk -> 0 | ResErr -> 1 | ResPanic -> 2) 0
  | LObs (c, k) -> p "obs" (i c) (match k with OFull -> 0 | ONone -> 1 | OPartial -> 2)
  | LSignal b -> p "stall.signal" (if b then 1 else 0) 0
  | LMemWait -> p "task.mem.wait" 0 0 | LMemWoken -> p "task.mem.woken" 0 0 | LMemRunning -> p "task.mem.running" 0 0
  | LMemFlushed -> p "task.mem.flushed" 0 0 | LMemNoPending -> p "task.mem.nopending" 0 0 | LMemError -> p "task.mem.error" 0 0
  | LMemNotifiedLevel -> p "task.mem.notified_level" 0 0 | LMemIdle -> p "task.mem.idle" 0 0 | LMemRecheck -> p "task.mem.recheck" 0 1 | LMemExit -> p "task.mem.exit" 0 0
  | LLevelWait -> p "task.level.wait" 0 0 | LLevelWoken -> p "task.level.woken" 0 0 | LLevelRunning -> p "task.level.running" 0 0
  | LLevelDone a -> p "task.level.done" (i a) 0 | LLevelError -> p "task.level.error" 0 0 | LLevelIdle -> p "task.level.idle" 0 0
  | LLevelExit -> p "task.level.exit" 0 0 | LWakeLevel -> p "task.wake_level" 0 0
  | LCloseStart -> p "close.start" 0 0 | LClosePipeDown -> p "close.pipe_shutdown" 0 0 | LStopFlag -> p "task.stop.flag" 0 0
  | LStopNotified -> p "task.stop.notified" 0 0 | LStopPoll -> p "task.stop.poll" 0 0 | LStopJoin -> p "task.stop.join" 0 0
  | LCloseTasksStopped -> p "close.tasks_stopped" 0 0 | LCloseSynced -> p "close.synced" 0 0 | LCloseEnd -> p "close.end" 0 0

let e3_trace_str (tr : (actor * label) list) : string =
  String.concat ";" (List.map (fun (a, l) -> e3_actor_str a ^ "," ^ e3_label_str l) tr)

let e3_pc_str (s : plstate) (a : actor) : string =
  match a with
  | ACommit i -> (match List.nth_opt s.thrs (int_of_nat i) with
      | Some t -> (match t.t_pc with
          | CIdle -> "Idle" | CEntered -> "Entered" | CStallReg _ -> "StallReg" | CStallCounted (_, b) -> if b then "StallCounted(stalled)" else "StallCounted(free)"
          | CStallBlocked _ -> "StallBlocked" | CStallOk -> "StallOk" | CHasPermit -> "HasPermit" | CWantLock -> "WantLock"
          | CLocked -> "Locked" | CChecked -> "Checked" | CAlloc -> "Alloc" | COrPub -> "OrPub" | CEnqLoaded -> "EnqLoaded"
          | CEnqFullSeen -> "EnqFullSeen" | CEnqPanic -> "EnqPanic" | CEnqStored -> "EnqStored" | CEnqDone -> "EnqDone"
          | CEnqueued -> "Enqueued" | CWalFailed -> "WalFailed" | CFailDoneLocked -> "FailDoneLocked" | CMarkedLocked -> "MarkedLocked"
          | CApplying _ -> "Applying" | CArenaFull -> "ArenaFull" | CRotated -> "Rotated" | CWokeMem -> "WokeMem" | CApplied -> "Applied"
          | CApplyFailed -> "ApplyFailed" | CFailDone -> "FailDone" | CPubTop -> "PubTop" | CPubHold _ -> "PubHold"
          | CDeqLoaded _ -> "DeqLoaded" | CDeqSlot _ -> "DeqSlot" | CDeqChecked _ -> "DeqChecked" | CDeqNone -> "DeqNone"
          | CDeqWon _ -> "DeqWon" | CDeqOwned _ -> "DeqOwned" | CVisTop _ -> "VisTop" | CVisLoaded _ -> "VisLoaded"
          | CVisDone _ -> "VisDone" | CPubExit -> "PubExit" | CWaitDone -> "WaitDone" | CReturned _ -> "Returned")
      | None -> "no-such-thread")
  | _ -> "-"

(* e3 validate <params> <trace>: every event must be an enabled transition of the LTS from the
   current model state; the recorded horizon must equal the model's after every event; the safety
   invariants must hold in every state along the trace *)
let e3_validate (params : string) (trace : string) : string =
  let kvs = e3_kv params in
  let c = e3_cfg kvs in
  let v0 = e3_int kvs "v0" 0 in
  let s0 = pinit c (nat_of_int (e3_int kvs "nthr" 1)) (nat_of_int (e3_int kvs "nrdr" 0)) (nat_of_int v0) in
  let evs = List.filter (fun x -> x <> "") (String.split_on_char ';' trace) in
  let s = ref s0 and k = ref 0 and bad = ref "" and maxfl = ref 0 and nuaf = ref 0 and skipped = ref 0 and skipped_failed_obs = ref 0 and obs_mismatch = ref 0 and first_mismatch = ref "" in
  let vis_prev = ref v0 in
  (try
     List.iter (fun ev ->
         (match String.split_on_char ',' ev with
          | a :: name :: x :: y :: rest ->
            (match e3_label_of name (int_of_string x) (int_of_string y) with
             | None -> incr skipped
             | Some (LObs (cth, _)) when
                 (* theorem read_all_or_nothing speaks about commits that did not fail: the observation of a
                    failed commit's batch (possibly partially applied, C15) is not compared *)
                 (match List.nth_opt !s.thrs (int_of_nat cth) with
                  | Some t -> (match t.t_my with
                      | Some p -> (match List.nth_opt !s.qlog (int_of_nat p) with Some b -> b.b_fail | None -> false)
                      | None -> false)
                  | None -> false) -> incr skipped_failed_obs
             | Some l ->
               let act = e3_actor_of a in
               (match pstep c !s act l with
                | None when (match l with LObs _ -> true | _ -> false) ->
                  (* a probe observation that differs from the memtable model: recorded, the replay goes on
                     (observations do not change the state) *)
                  incr obs_mismatch;
                  if !first_mismatch = "" then first_mismatch := Printf.sprintf "%d:%s" !k ev
                | None ->
                  bad := Printf.sprintf "reject at=%d event=%s pc=%s" !k ev (e3_pc_str !s act); raise Exit
                | Some s' ->
                  s := s';
                  let mv = int_of_nat s'.visible in
                  if mv < !vis_prev then (bad := Printf.sprintf "invariant at=%d event=%s which=visible-decreased" !k ev; raise Exit);
                  vis_prev := mv;
                  (match rest with
                   | v :: _ when v <> "" && int_of_string v <> mv ->
                     bad := Printf.sprintf "reject at=%d event=%s which=visible impl=%s model=%d" !k ev v mv; raise Exit
                   | _ -> ());
                  if not (safe_ok (nat_of_int v0) s') then
                    (bad := Printf.sprintf "invariant at=%d event=%s which=safe_ok" !k ev; raise Exit);
                  let fl = int_of_nat (in_flight s') in
                  if fl > !maxfl then maxfl := fl))
          | _ -> bad := Printf.sprintf "reject at=%d event=%s which=syntax" !k ev; raise Exit);
         incr k) evs
   with Exit -> ());
  if !s.uaf then nuaf := 1;
  if !bad <> "" then !bad
  else
    let e_all = { e_cnts = []; e_walfail = true; e_applyfail = true; e_rotate = true; e_l0s = [O]; e_close = false;
                  e_conflict = true; e_bgfail = true } in
    Printf.sprintf "ok events=%d skipped=%d failed_obs=%d obs_mismatch=%d first_mismatch=%s dead=%d visible=%d head=%d tail=%d max_in_flight=%d uaf=%d panics=%d returned=%d"
      !k !skipped !skipped_failed_obs !obs_mismatch (if !first_mismatch = "" then "-" else !first_mismatch) (if deadlocked c e_all !s then 1 else 0) (int_of_nat !s.visible) (int_of_nat !s.qhead) (int_of_nat !s.qtail) !maxfl !nuaf
      (List.length (List.filter (fun t -> t.t_pc = CReturned ResPanic) !s.thrs))
      (List.length (List.filter (fun t -> match t.t_pc with CReturned _ -> true | _ -> false) !s.thrs))

(* e3 explore <params>: exhaustive exploration of a small instance with a visited set.  Reports the
   number of states and, for each statement, a shortest-found counterexample trace or "-". *)
let e3_explore (params : string) : string =
  let kvs = e3_kv params in
  let c = e3_cfg kvs in
  let cnts = match List.assoc_opt "cnts" kvs with
    | Some v -> List.map int_of_string (String.split_on_char '/' v) | None -> [1] in
  let flag k = e3_int kvs k 0 = 1 in
  let e = { e_cnts = List.map nat_of_int cnts; e_walfail = flag "walfail"; e_applyfail = flag "applyfail";
            e_rotate = flag "rotate";
            e_l0s = (match List.assoc_opt "l0s" kvs with Some v -> List.map (fun x -> nat_of_int (int_of_string x)) (String.split_on_char '/' v) | None -> [O]);
            e_close = flag "close"; e_conflict = flag "conflict"; e_bgfail = flag "bgfail" } in
  let maxst = e3_int kvs "maxstates" 2000000 in
  let v0 = nat_of_int 0 in
  let s0 = pinit c (nat_of_int (List.length cnts)) (nat_of_int (e3_int kvs "rdrs" 0)) v0 in
  let key (s : plstate) = Marshal.to_string s [Marshal.No_sharing] in
  (* id -> (state, parent id, event) *)
  let tbl : (string, int) Hashtbl.t = Hashtbl.create 100000 in
  let states = ref (Array.make 1024 (s0, -1, (AMain, LWakeLevel))) in
  let n = ref 0 in
  let add s par ev =
    let k = key s in
    match Hashtbl.find_opt tbl k with
    | Some id -> (id, false)
    | None ->
      if !n >= Array.length !states then begin
        let a = Array.make (2 * !n) !states.(0) in Array.blit !states 0 a 0 !n; states := a end;
      !states.(!n) <- (s, par, ev); Hashtbl.add tbl k !n; incr n; (!n - 1, true) in
  let path id =
    let rec go id acc = if id <= 0 then acc else let (_, par, ev) = !states.(id) in go par (ev :: acc) in
    e3_trace_str (go id []) in
  ignore (add s0 (-1) (AMain, LWakeLevel));
  let first = Hashtbl.create 8 in
  let note k id = if not (Hashtbl.mem first k) then Hashtbl.add first k id in
  let progress_edges : (int, int list) Hashtbl.t = Hashtbl.create 100000 in
  let edges = ref 0 and truncated = ref false in
  let i = ref 0 in
  while !i < !n && not !truncated do
    let (s, _, _) = !states.(!i) in
    if not (safe_ok v0 s) then note "safe" !i;
    if not (no_overflow_ok c s) then note "overflow" !i;
    if s.uaf then note "uaf" !i;
    if deadlocked c e s then note "deadlock" !i;
    (* an overflowed or use-after-free state is not expanded further: what follows is not of interest *)
    let sc = succs c e s in
    let pe = ref [] in
    List.iter (fun ((a, l), s') ->
        incr edges;
        let (id, _) = add s' !i (a, l) in
        if not (env_label a l) && not (stutter l) then pe := id :: !pe) sc;
    Hashtbl.replace progress_edges !i !pe;
    if !n > maxst then truncated := true;
    incr i
  done;
  (* cycle among progress steps (test of `terminates`): iterative DFS with colours *)
  let colour = Array.make !n 0 in
  let cyc = ref (-1) in
  let rec_stack = Stack.create () in
  for r = 0 to !n - 1 do
    if colour.(r) = 0 && !cyc < 0 then begin
      Stack.push (r, ref (try Hashtbl.find progress_edges r with Not_found -> [])) rec_stack;
      colour.(r) <- 1;
      while not (Stack.is_empty rec_stack) && !cyc < 0 do
        let (u, rest) = Stack.top rec_stack in
        match !rest with
        | [] -> colour.(u) <- 2; ignore (Stack.pop rec_stack)
        | v :: tl ->
          rest := tl;
          if colour.(v) = 1 then cyc := v
          else if colour.(v) = 0 then begin
            colour.(v) <- 1;
            Stack.push (v, ref (try Hashtbl.find progress_edges v with Not_found -> [])) rec_stack
          end
      done;
      Stack.clear rec_stack
    end
  done;
  let show k = match Hashtbl.find_opt first k with Some id -> path id | None -> "-" in
  Printf.sprintf "states=%d edges=%d truncated=%d safe=%s overflow=%s uaf=%s deadlock=%s cycle=%s"
    !n !edges (if !truncated then 1 else 0) (show "safe") (show "overflow") (show "uaf") (show "deadlock")
    (if !cyc >= 0 then path !cyc else "-")

let e3_cmd (toks : string list) : string =
  match toks with
  | ["validate"; params; trace] -> e3_validate params trace
  | ["validate"; params] -> e3_validate params ""
  | ["explore"; params] -> e3_explore params
  | _ -> "bad-command"
(* ---- E3 END ---- *)
