(* Extraction of the executable models to OCaml.  ExtrOcamlBasic only: bool, option, list,
   prod, unit, sumbool are mapped to OCaml's; N, positive, nat, Z stay the extracted datatypes. *)
Require Import ExtrOcamlBasic.
From SKV Require Import Params Base.Crc32 Codec.Wal Codec.WalInst Base.Lex Txn.WriteSet Spec.Store Spec.Cursor Spec.Machine Lsm.CompactKey Misc.Lock Misc.LockInst Txn.RangeIter Conc.Oracle Conc.CommitSeq Misc.OMap Misc.BptKey Misc.Pages Misc.BptInst Codec.IKey Codec.Separator Codec.Bloom Codec.Table Codec.Regions Codec.RegionsInst Crash.Fail Crash.FailParams Crash.FailInst Conc.Pipeline Conc.PipelineExplore Crash.Proto Codec.VlogParams Codec.VlogPtr Lsm.Vlog Lsm.VlogInst Lsm.VlogOpen Lsm.ArenaParams Lsm.Arena Lsm.LevelsParams Lsm.Levels Lsm.Checkpoint Lsm.CheckpointParams Lsm.CheckpointInst.
Extraction Language OCaml.
Extraction "skv_model.ml"
  WalInst.wal_sessions WalInst.wal_read_all WalInst.wal_repair WalInst.wal_known_unparsed_tail WalInst.wal_params_ok WalInst.WB
  Params.WAL_BLOCK_SIZE Params.WAL_HEADER_SIZE
  Machine.step Machine.m0
  CompactKey.compact_key CompactKey.insert_desc CompactKey.dedup_seq
  Lock.do_open Lock.do_close Lock.do_drop Lock.do_drop_detached Lock.do_runtime_gone Lock.do_commit Lock.do_kill Lock.do_checkpoint Lock.do_restore Lock.lock_identity Lock.lock_owner Lock.s0 Lock.pc_of LockInst.current
  RangeIter.ri_init RangeIter.ri_step RangeIter.ri_get RangeIter.restrict RangeIter.ri_run_bounded
  Oracle.o_new Oracle.check Oracle.publish Oracle.rollback Oracle.reset_for_restore Oracle.observe_key
  CommitSeq.c0 CommitSeq.cs_step Params.ORACLE_GC_INTERVAL
  Lex.lex_cmp BptKey.ts_cmp BptKey.bpt_range BptKey.bpt_range_known
  OMap.om_get OMap.om_insert OMap.om_delete OMap.om_range_spec OMap.om_cursor_fwd OMap.om_cursor_bwd OMap.om_sortedb
  Pages.t_page Pages.t_stack Pages.p_total Pages.p_count Pages.p_chain Pages.p_head
  BptInst.bpt_init BptInst.bpt_alloc BptInst.bpt_free BptInst.bpt_leaf_ovf_pages BptInst.bpt_params_ok
  Params.BPT_PAGE_SIZE Params.BPT_TRUNK_MAX_ENTRIES Params.BPT_OVERFLOW_CAP Params.BPT_LEAF_MIN_LOCAL Params.BPT_LEAF_MAX_LOCAL
  Params.BPT_INT_MIN_LOCAL Params.BPT_INT_MAX_LOCAL
  Separator.bw_separator Separator.bw_successor Separator.ik_separator_enc Separator.ik_successor_enc
  IKey.ik_encode IKey.ik_decode IKey.ik_cmp
  Bloom.bloom_create Bloom.bloom_may_contain Bloom.hash32 Bloom.bloom_hash32
  Table.build_table Table.table_get Table.t_new Table.t_seek_first Table.t_seek_last Table.t_seek Table.t_next Table.t_prev
  Table.t_valid Table.t_entry Table.is_key_in_key_range Table.is_before_range Table.is_after_range Table.overlaps_with_range
  Params.IK_SEQ_NUM_MAX Params.IK_TIMESTAMP_MAX Params.IK_KIND_DELETE Params.IK_KIND_SOFTDELETE Params.IK_KIND_SET Params.IK_KIND_MERGE
  Params.IK_KIND_LOGDATA Params.IK_KIND_RANGEDELETE Params.IK_KIND_REPLACE Params.IK_KIND_SEPARATOR Params.IK_KIND_MAX Params.IK_KIND_INVALID
  Fail.walx0 Fail.segments Fail.cur_buf Fail.plan_wenv Fail.plan_senv Fail.xacked Fail.xack_after
  Fail.xknown_fsync_failed FailInst.fi_xstep FailInst.fail_params_ok FailInst.FC
  Params.TBL_BLOCK_CKSUM_LEN Params.TBL_BLOCK_COMPRESS_LEN Params.BLOOM_BITS_PER_KEY Params.BLOOM_K
  Regions.table_regions Regions.table_len Regions.wal_regions Regions.wal_descr Regions.wal_rec_ends Regions.vlog_regions Regions.footer_zero Regions.alter Regions.footer_check
  RegionsInst.tbl_read_block RegionsInst.vlog_get_full RegionsInst.c16_params_ok
  Params.TBL_FULL_FOOTER_LENGTH Params.VLOG_HEADER_SIZE Params.VLOG_VALUE_POINTER_SIZE
  Pipeline.pstep Pipeline.pinit Pipeline.prun_pos Pipeline.stutter Pipeline.env_label PipelineExplore.succs PipelineExplore.progress_succs
  PipelineExplore.safe_ok PipelineExplore.no_overflow_ok PipelineExplore.deadlocked PipelineExplore.in_flight PipelineExplore.panicking
  Proto.proto_okb Proto.proto_err Proto.prun Proto.run_from Proto.papply Proto.okb Proto.viol Proto.recover Proto.do_crash Proto.st0 Proto.crash_safe_b Proto.recovery_plain Proto.recovery_full Proto.split_pieces Proto.okb_from Proto.dp Proto.dpr Proto.alive Proto.prefix_bound
  VlogPtr.vpointer_encode VlogPtr.vpointer_decode VlogPtr.vpointer_in_range VlogPtr.vloc_encode VlogPtr.vloc_decode VlogPtr.vloc_is_pointer VlogPtr.vloc_with_pointer
  VlogPtr.vloc_inline VlogPtr.vloc_pointer_of VlogPtr.maybe_separate VlogPtr.vlog_params_ok VlogPtr.vheader_bytes VlogPtr.nlen
  Vlog.vs0 Vlog.vs_cleanup Vlog.venc_classify Vlog.set_tables Vlog.min_oldest Vlog.table_oldest Vlog.find_file Vlog.find_table
  VlogInst.vlogi_step VlogInst.vlogz_step VlogInst.vlogi_resolve VlogInst.vlogz_resolve VlogInst.vlogi_append VlogInst.vlogi_read VlogInst.vlogi_entry
  VlogInst.vlogi_vs_append VlogInst.vlogi_vs_get VlogInst.vlogi_vs_get_rule VlogInst.vlogi_ds_step VlogInst.vlogi_run VlogInst.vlogz_run
  Vlog.cut_file Vlog.update_file VlogParams.VLOG_CACHE_HIT_CHECKED
  Arena.ar_bound Arena.ar_mem_add Arena.ar_empty_n Arena.ar_max_unused ArenaParams.ARENA_BOUND_HAS_UNUSED_TOWER ArenaParams.ARENA_MAX_HEIGHT
  VlogOpen.vopen_file VlogOpen.vwriter_open VlogParams.VLOG_OPEN_EMPTIES_TORN_HEADER
  VlogParams.VP_SIZE VlogParams.VL_BIT_VALUE_POINTER VlogParams.VL_VERSION VlogParams.VP_VERSION VlogParams.VLOG_FORMAT_VERSION
  Levels.Lv.get Levels.Lv.get_hit Levels.Lv.view_of_all Levels.Lv.current Levels.Lv.current_sel Levels.Lv.rules_okb Levels.Lv.srules_okb Levels.Lv.step Levels.Lv.st0
  Levels.Lv.inv_b Levels.Lv.age_ordered_b Levels.Lv.sel_ok_b Levels.Lv.select_tables Levels.Lv.desc_log_b Levels.Lv.above_b Levels.Lv.lv_ordered_b Levels.Lv.uniq_b
  Levels.Lv.table_wf_b Levels.Lv.key_disjoint_b Levels.Lv.ranges_sorted_b Levels.Lv.mem_log Levels.Lv.tab_versions Levels.Lv.all_versions Levels.Lv.lvers
  Levels.Lv.op_ok_b Levels.Lv.op_keeps_b LevelsParams.LEVELS_ANCHORS_OK
  CheckpointInst.cki_step CheckpointInst.cki_fill_all CheckpointInst.cki_open_ckpt CheckpointInst.cki_init CheckpointInst.ckpt_params_ok
  Checkpoint.kread Checkpoint.store_vers Checkpoint.tables_vers Checkpoint.aget CheckpointParams.CKPT_RESTORE_STEPS.
