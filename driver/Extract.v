(* Extraction of the executable models to OCaml.  ExtrOcamlBasic only: bool, option, list,
   prod, unit, sumbool are mapped to OCaml's; N, positive, nat, Z stay the extracted datatypes. *)
Require Import ExtrOcamlBasic.
From SKV Require Import Params Base.Crc32 Codec.Wal Codec.WalInst Base.Lex Txn.WriteSet Spec.Store Spec.Cursor Spec.Machine Lsm.CompactKey.
Extraction Language OCaml.
Extraction "skv_model.ml"
  WalInst.wal_sessions WalInst.wal_read_all WalInst.wal_repair WalInst.wal_known_unparsed_tail WalInst.wal_params_ok WalInst.WB
  Params.WAL_BLOCK_SIZE Params.WAL_HEADER_SIZE
  Machine.step Machine.m0
  CompactKey.compact_key CompactKey.insert_desc CompactKey.dedup_seq.
