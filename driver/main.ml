(* Model-side interpreter of verification scripts.  Reads one command per line on stdin,
   evaluates the extracted Coq model, prints one canonical result line per command.
   The Rust harness interprets the same scripts against the implementation; tools/check
   diffs the two outputs line by line. *)
open Skv_model

(* ---------- conversions between OCaml ints / strings and the extracted datatypes ---------- *)
let rec pos_of_int (i : int) : positive =
  if i = 1 then XH else if i land 1 = 0 then XO (pos_of_int (i lsr 1)) else XI (pos_of_int (i lsr 1))
let n_of_int (i : int) : n = if i = 0 then N0 else Npos (pos_of_int i)
let rec int_of_pos = function XH -> 1 | XO p -> 2 * int_of_pos p | XI p -> 2 * int_of_pos p + 1
let int_of_n = function N0 -> 0 | Npos p -> int_of_pos p
let rec nat_of_int (i : int) : nat = if i <= 0 then O else S (nat_of_int (i - 1))
let int_of_nat (x : nat) : int = let rec go acc = function O -> acc | S m -> go (acc + 1) m in go 0 x

let byte_tab = Array.init 256 n_of_int
let bytes_of_hex (s : string) : n list =
  if s = "-" then [] else begin
    let l = String.length s / 2 in
    let rec go i acc = if i < 0 then acc else go (i - 1) (byte_tab.(int_of_string ("0x" ^ String.sub s (2 * i) 2)) :: acc) in
    go (l - 1) []
  end
let hex_of_bytes (l : n list) : string =
  if l = [] then "-" else begin
    let b = Buffer.create 64 in
    List.iter (fun x -> Buffer.add_string b (Printf.sprintf "%02x" (int_of_n x))) l;
    Buffer.contents b
  end
let bytes_of_string (s : string) : n list = List.init (String.length s) (fun i -> byte_tab.(Char.code s.[i]))

(* FNV-1a 64 over a byte list, printed as 16 hex digits (same function in the harness) *)
let fnv (l : n list) : string =
  let h = ref 0xcbf29ce484222325L in
  List.iter (fun x -> h := Int64.mul (Int64.logxor !h (Int64.of_int (int_of_n x))) 0x100000001b3L) l;
  Printf.sprintf "%016Lx" !h
(* byte-string tokens shared by all engines: hex | rep:<len>:<seed> | parts joined by '+' ; "-" = empty
   (same generator as harness/src/util.rs `rep`) *)
let rep_byte seed i = (seed * 31 + i * 7 + (i / 251)) land 255
let tok_string (t : string) : string =
  if t = "-" then "" else
    String.concat "" (List.map (fun p ->
        match String.split_on_char ':' p with
        | ["rep"; len; seed] ->
          let len = int_of_string len and seed = int_of_string seed in
          String.init len (fun i -> Char.chr (rep_byte seed i))
        | _ -> String.init (String.length p / 2) (fun i -> Char.chr (int_of_string ("0x" ^ String.sub p (2 * i) 2))))
        (String.split_on_char '+' t))
let fnv_str (s : string) : string =
  let h = ref 0xcbf29ce484222325L in
  String.iter (fun c -> h := Int64.mul (Int64.logxor !h (Int64.of_int (Char.code c))) 0x100000001b3L) s;
  Printf.sprintf "%016Lx" !h


let split_on c s = if s = "" then [] else String.split_on_char c s

let bytes_of_tok (tok : string) : n list =
  match String.split_on_char ':' tok with
  | ["rep"; len; seed] ->
    let len = int_of_string len and seed = int_of_string seed in
    List.init len (fun i -> byte_tab.((seed * 31 + i * 7 + (i / 251)) land 255))
  | _ -> bytes_of_hex tok
(* values longer than 16 bytes are printed as #len/fnv *)
let show_val (v : n list) : string =
  if List.length v > 16 then Printf.sprintf "#%d/%s" (List.length v) (fnv v) else hex_of_bytes v

(* ---------- WAL engine ---------- *)
let files : (string, n list) Hashtbl.t = Hashtbl.create 16
let no_compress (l : n list) : n list = l
let no_decompress (_ : n list) : n list option = None

let rec take n l = if n <= 0 then [] else match l with [] -> [] | x :: r -> x :: take (n - 1) r
let mutate (f : n list) (m : string list) : n list =
  match m with
  | ["full"] -> f
  | ["trunc"; k] -> take (int_of_string k) f
  | ["set"; p; b] -> let p = int_of_string p and b = int_of_string b in List.mapi (fun i x -> if i = p then byte_tab.(b) else x) f
  | ["xor"; p; b] -> let p = int_of_string p and b = int_of_string b in List.mapi (fun i x -> if i = p then byte_tab.((int_of_n x) lxor b) else x) f
  | _ -> failwith "bad mutation"

let show_tail = function
  | Eof -> "eof"
  | Corrupt (w, p) -> Printf.sprintf "corrupt:%d:%d" (int_of_n w) (int_of_nat p)

let show_read (res : (n list * nat) list * tail) : string =
  let (recs, t) = res in
  let parts = List.map (fun (r, e) -> Printf.sprintf "%d/%s@%d" (List.length r) (fnv r) (int_of_nat e)) recs in
  Printf.sprintf "n=%d [%s] %s" (List.length recs) (String.concat "," parts) (show_tail t)

let parse_sessions (s : string) : n list list list =
  (* sessions separated by ';', records by ',', each record hex or rep:<len>:<seed> *)
  let rec_of tok =
    match String.split_on_char ':' tok with
    | ["rep"; len; seed] ->
      let len = int_of_string len and seed = int_of_string seed in
      List.init len (fun i -> byte_tab.((seed * 31 + i * 7 + (i / 251)) land 255))
    | _ -> bytes_of_hex tok in
  List.map (fun sess -> List.map rec_of (split_on ',' sess)) (String.split_on_char ';' s)

let wal_cmd (args : string list) : string =
  match args with
  | "write" :: id :: comp :: sess :: [] ->
    if comp <> "0" then "skip" else begin
      match wal_sessions no_compress no_decompress false [] (parse_sessions sess) with
      | None -> "openfail"
      | Some f -> Hashtbl.replace files id f; Printf.sprintf "len=%d fnv=%s" (List.length f) (fnv f)
    end
  | "read" :: id :: m ->
    let f = mutate (Hashtbl.find files id) m in
    show_read (wal_read_all no_decompress f)
  | "repair" :: id :: newid :: m ->
    let f = mutate (Hashtbl.find files id) m in
    (match wal_repair no_compress no_decompress f with
     | None -> Hashtbl.replace files newid []; "deleted"
     | Some g -> Hashtbl.replace files newid g; Printf.sprintf "len=%d fnv=%s" (List.length g) (fnv g))
  | "append" :: id :: newid :: sess :: m ->
    let f = mutate (Hashtbl.find files id) m in
    (match wal_sessions no_compress no_decompress false f (parse_sessions sess) with
     | None -> "openfail"
     | Some g -> Hashtbl.replace files newid g; Printf.sprintf "len=%d fnv=%s" (List.length g) (fnv g))
  | "reopen" :: id :: newid :: sess :: m ->
    (* recovery flow: replay; repair when the replay reports corruption; then append *)
    let f = mutate (Hashtbl.find files id) m in
    let (_, t) = wal_read_all no_decompress f in
    let f1 = match t with
      | Eof -> f
      | Corrupt _ -> (match wal_repair no_compress no_decompress f with None -> [] | Some g -> g) in
    (match wal_sessions no_compress no_decompress false f1 (parse_sessions sess) with
     | None -> "openfail"
     | Some g -> Hashtbl.replace files newid g; Printf.sprintf "len=%d fnv=%s" (List.length g) (fnv g))
  | "class" :: id :: m ->
    let f = mutate (Hashtbl.find files id) m in
    Printf.sprintf "class unparsed_tail=%b" (wal_known_unparsed_tail no_decompress f)
  | ["params"] ->
    Printf.sprintf "BLOCK_SIZE=%d HEADER_SIZE=%d ok=%b" (int_of_n wAL_BLOCK_SIZE) (int_of_n wAL_HEADER_SIZE) wal_params_ok
  | _ -> "bad-command"

(* ---------- E2: specification machine ---------- *)
let e2_state = ref m0
let bopt tok = if tok = "~" then None else Some (bytes_of_hex tok)
let show_err = function
  | EClosed -> "Closed" | EReadOnly -> "ReadOnly" | EWriteOnly -> "WriteOnly" | EEmptyKey -> "EmptyKey"
  | EConflict -> "Conflict" | ENoSavepoint -> "NoSavepoint" | ENoTxn -> "NoTxn" | EUnsupported -> "Unsupported"
  | ENoVersioning -> "NoVersioning"
let show_resp = function
  | ROk -> "ok"
  | RErr e -> "err:" ^ show_err e
  | RVal None -> "val:none"
  | RVal (Some v) -> "val:" ^ show_val v
  | RCur None -> "cur:invalid"
  | RCur (Some (k, v)) -> Printf.sprintf "cur:%s=%s" (hex_of_bytes k) (show_val v)
  | RList l -> "list:" ^ String.concat "," (List.map (fun (k, v) -> hex_of_bytes k ^ "=" ^ show_val v) l)
  | RHist l -> "hist:" ^ String.concat "," (List.map (fun (k, v) ->
      let tomb = (match v.v_kind with KDel | KSoftDel -> true | _ -> false) in
      Printf.sprintf "%s@%d%s=%s" (hex_of_bytes k) (int_of_n v.v_ts) (if tomb then "!" else "") (if tomb then "-" else show_val v.v_val)) l)
let ni s = nat_of_int (int_of_string s)
let e2_cmd (args : string list) : string =
  let run c = let (s, r) = step !e2_state c in e2_state := s; show_resp r in
  match args with
  | ["new"] -> e2_state := m0; "ok"
  | ["open"; o] ->
    let ver = List.mem "ver=1" (String.split_on_char ',' o) in
    run (SetVersioning ver)
  | ["clock"; t] -> run (SetClock (n_of_int (int_of_string t)))
  | ["delat"; id; k; ts] -> run (Write (ni id, KDel, bytes_of_hex k, None, n_of_int (int_of_string ts)))
  | ["sdelat"; id; k; ts] -> run (Write (ni id, KSoftDel, bytes_of_hex k, None, n_of_int (int_of_string ts)))
  | ["getat"; id; k; ts] -> run (GetAt (ni id, bytes_of_hex k, n_of_int (int_of_string ts)))
  | ["history"; id; lo; hi; tomb; tsr; limit; dir] ->
    let r = if tsr = "~" then None else (match String.split_on_char '-' tsr with
        | [a; b] -> Some (n_of_int (int_of_string a), n_of_int (int_of_string b)) | _ -> failwith "tsr") in
    let lim = if limit = "~" then None else Some (ni limit) in
    run (History (ni id, Some (bytes_of_hex lo), Some (bytes_of_hex hi), tomb = "1", r, lim, dir = "b"))
  | ["history_tsfirst"; id; lo; hi; tomb; tsr; limit; dir] ->
    let r = if tsr = "~" then None else (match String.split_on_char '-' tsr with
        | [a; b] -> Some (n_of_int (int_of_string a), n_of_int (int_of_string b)) | _ -> failwith "tsr") in
    let lim = if limit = "~" then None else Some (ni limit) in
    run (HistoryTsFirst (ni id, Some (bytes_of_hex lo), Some (bytes_of_hex hi), tomb = "1", r, lim, dir = "b"))
  | ["close"] -> run Reopen
  | ["reopen"] -> run Reopen
  | ["begin"; id; m] -> run (Begin (ni id, (match m with "ro" -> RO | "wo" -> WO | _ -> RW)))
  | ["set"; id; k; v] -> run (Write (ni id, KSet, bytes_of_hex k, Some (bytes_of_tok v), N0))
  | ["setat"; id; k; v; ts] -> run (Write (ni id, KSet, bytes_of_hex k, Some (bytes_of_tok v), n_of_int (int_of_string ts)))
  | ["del"; id; k] -> run (Write (ni id, KDel, bytes_of_hex k, None, N0))
  | ["sdel"; id; k] -> run (Write (ni id, KSoftDel, bytes_of_hex k, None, N0))
  | ["repl"; id; k; v] -> run (Write (ni id, KReplace, bytes_of_hex k, Some (bytes_of_tok v), N0))
  | ["get"; id; k] -> run (Get (ni id, bytes_of_hex k))
  | ["sp"; id] -> run (Savepoint (ni id))
  | ["rbsp"; id] -> run (RollbackTo (ni id))
  | ["commit"; id] -> run (Commit (ni id))
  | ["rollback"; id] -> run (Rollback (ni id))
  | ["drop"; id] -> run (Rollback (ni id))
  | ["range"; id; cid; lo; hi] -> run (Range (ni id, ni cid, bopt lo, bopt hi))
  | ["cur"; cid; "first"] -> run (Cur (ni cid, CFirst))
  | ["cur"; cid; "last"] -> run (Cur (ni cid, CLast))
  | ["cur"; cid; "next"] -> run (Cur (ni cid, CNext))
  | ["cur"; cid; "prev"] -> run (Cur (ni cid, CPrev))
  | ["cur"; cid; "seek"; k] -> run (Cur (ni cid, CSeek (bytes_of_hex k)))
  | ["curclose"; cid] -> run (CurClose (ni cid))
  | ["scan"; id; lo; hi; dir] -> run (Scan (ni id, bopt lo, bopt hi, dir = "b"))
  | ["checkpoint"; c] -> run (Checkpoint (ni c))
  | ["restore"; c] -> run (Restore (ni c))
  | ["ckptscan"; c] -> run (CkptScan (ni c))
  | ["rotate"] | ["flush"] | ["flush1"] | ["compact"; _] | ["compactauto"] -> run Physical
  | ["levels"] | ["snapshots"] | ["lvdump"] -> "info"
  | _ -> "bad-command"

(* ---------- CK: compaction of the versions of each key ---------- *)
let ck_cmd (args : string list) : string =
  match args with
  | ["run"; bottom; versioning; ret; now; snaps; runs] ->
    let snaps = List.map (fun x -> n_of_int (int_of_string x)) (split_on ',' (if snaps = "-" then "" else snaps)) in
    let vers = List.concat_map (fun run -> List.map (fun tok ->
        match String.split_on_char ':' tok with
        | [k; seq; kind; ts] ->
          let kd = (match int_of_string kind with 0 -> CDel | 1 -> CSoft | 6 -> CRep | _ -> CSet) in
          (k, { vseq = n_of_int (int_of_string seq); vkind = kd; vts = n_of_int (int_of_string ts) })
        | _ -> failwith "bad version") (split_on ',' run)) (String.split_on_char '|' runs) in
    let keys = List.sort_uniq compare (List.map fst vers) in
    let kind_no = function CDel -> 0 | CSoft -> 1 | CSet -> 2 | CRep -> 6 in
    let out = List.concat_map (fun k ->
        let vs = List.filter_map (fun (k', v) -> if k' = k then Some v else None) vers in
        let sorted = dedup_seq (List.fold_left (fun acc v -> insert_desc v acc) [] vs) in
        let kept = compact_key (bottom = "1") (versioning = "1") (n_of_int (int_of_string ret)) (n_of_int (int_of_string now)) snaps sorted in
        List.map (fun v -> Printf.sprintf "%s:%d:%d:%d" k (int_of_n v.vseq) (kind_no v.vkind) (int_of_n v.vts)) kept) keys in
    "out:" ^ String.concat "," out
  | _ -> "bad-command"

(* ---------- LK: openers of one database directory (Misc/Lock.v, variant LockInst.current) ---------- *)
let lk_state = ref s0
(* in-process opener ids whose Tree was dropped outside its runtime and whose runtime still exists
   (the harness keeps that runtime under the same id, whether or not the store had been closed before).
   With the repaired Tree::drop (F28, LOCK_DETACHED_DROP_CLOSES = true) `dropout` runs the whole
   drop_detached_ops: the model's lock is free and the opener gone when it answers, `rtgone` changes no
   model state (do_runtime_gone answers noop; only the harness-side id is given back here). *)
let lk_zombies : int list ref = ref []
(* does the script's side directory hold a checkpoint?  (create_checkpoint of a live store; a restore without one
   fails at read_checkpoint_metadata, before anything is cleared: no model operation) *)
let lk_ckpt = ref false
let lk_opts (s : string) : oopts =
  List.fold_left (fun o kv -> match kv with
      | "" | "-" | "plain" | "nofoc" -> o
      | "vlog" -> { o with op_vlog = true }
      | "ver" -> { o with op_vlog = true; op_ver = true }
      | "bad" -> { o with op_valid = false }
      | _ -> failwith "unknown option") { op_valid = true; op_vlog = false; op_ver = false } (String.split_on_char ',' s)
let lk_answer = function AOk -> "ok" | ARefused -> "refused" | AInvalid -> "invalid" | ABusy -> "busy" | ANoop -> "noop" | AErr -> "err"
let lk_kid p = nat_of_int (100 + int_of_string p)
let lk_cmd (args : string list) : string =
  let st (s, a) = lk_state := s; lk_answer a in
  let exists o = match pc_of !lk_state o with Some _ -> true | None -> false in
  match args with
  | ["new"] -> lk_state := s0; lk_zombies := []; lk_ckpt := false; "ok"
  | ["open"; i] | ["open"; i; _] when List.mem (int_of_string i) !lk_zombies -> "busy"
  | ["open"; i] -> st (do_open current !lk_state (ni i) O (lk_opts "-"))
  | ["open"; i; o] -> st (do_open current !lk_state (ni i) O (lk_opts o))
  | ["spawn"; p] -> st (do_open current !lk_state (lk_kid p) (ni p) (lk_opts "-"))
  | ["spawn"; p; o] -> st (do_open current !lk_state (lk_kid p) (ni p) (lk_opts o))
  | ["close"; i] -> st (do_close current !lk_state (ni i))
  | ["drop"; i] -> st (do_drop current !lk_state (ni i))
  | ["dropout"; i] ->
    let r = st (do_drop_detached current !lk_state (ni i)) in
    if r = "ok" then lk_zombies := int_of_string i :: !lk_zombies; r
  | ["rtgone"; i] ->
    let r = st (do_runtime_gone current !lk_state (ni i)) in
    if List.mem (int_of_string i) !lk_zombies then begin
      lk_zombies := List.filter (fun x -> x <> int_of_string i) !lk_zombies; "ok" end else r
  | ["ckpt"; i] -> let r = st (do_checkpoint current !lk_state (ni i)) in if r = "ok" then lk_ckpt := true; r
  | ["pckpt"; p] -> let r = st (do_checkpoint current !lk_state (lk_kid p)) in if r = "ok" then lk_ckpt := true; r
  | ["restore"; i] -> if not (exists (ni i)) then "noop" else if not !lk_ckpt then "nockpt" else st (do_restore current !lk_state (ni i))
  | ["prestore"; p] -> if not (exists (lk_kid p)) then "noop" else if not !lk_ckpt then "nockpt" else st (do_restore current !lk_state (lk_kid p))
  | ["lockid"; i] | ["plockid"; i] ->
    (match lock_identity !lk_state (if List.hd args = "lockid" then ni i else lk_kid i) with
     | IdSame -> "same" | IdChanged -> "changed" | IdAbsent -> "absent" | IdNoOpener -> "noop")
  | ["commit"; i; _; _] -> st (do_commit current !lk_state (ni i))
  | ["pcommit"; p; _; _] -> st (do_commit current !lk_state (lk_kid p))
  | ["pclose"; p] ->
    if exists (lk_kid p) then begin
      let r = st (do_close current !lk_state (lk_kid p)) in
      lk_state := do_kill current !lk_state (ni p); r end else "noop"
  | ["pdrop"; p] ->
    if exists (lk_kid p) then begin
      let r = st (do_drop current !lk_state (lk_kid p)) in
      lk_state := do_kill current !lk_state (ni p); r end else "noop"
  | ["pexit"; p] | ["pkill"; p] ->
    if exists (lk_kid p) then begin lk_state := do_kill current !lk_state (ni p); "ok" end else "noop"
  (* holder: the kernel's lock table now; dropprobe: the same, asked right after a `dropout` (the harness took its
     probe the instant drop() returned; no model operation lies between the two) *)
  | ["holder"] | ["dropprobe"] ->
    (* the probe opens the file that the NAME LOCK denotes and tries that inode's lock *)
    (match (!lk_state).st_fs.f_lock, lock_owner !lk_state with
     | LAbsent, _ -> "absent" | _, Some _ -> "held" | _, None -> "free")
  | ["snapshot"] ->
    let f = (!lk_state).st_fs in
    let lock = (match f.f_lock with LAbsent -> "absent" | LEmpty -> "empty" | LPid p -> "P" ^ string_of_int (int_of_nat p)) in
    let dirs = List.concat [ (if f.f_std then ["manifest"; "sstables"] else []); (if f.f_ver then ["versioned_index"] else []);
                             (if f.f_vlog then ["vlog"] else []); (if f.f_std then ["wal"] else []) ] in
    Printf.sprintf "snap lock=%s dirs=%s data=%d base=%b" lock (if dirs = [] then "-" else String.concat "+" dirs) (int_of_nat f.f_data) f.f_base
  | ["get"; _; _] | ["pget"; _; _] | ["ls"] | ["clonedrop"; _] -> "skip"
  | _ -> "bad-command"

(* ---------- RI: the range-cursor overlay (Txn/RangeIter.v) ---------- *)
let ri_pairs (s : string) : (string * string) list =
  (* hexkey=hexval,... sorted by key (two-digit lowercase hex: string order = byte order) *)
  let l = List.map (fun tok -> match String.index_opt tok '=' with
      | Some i -> (String.sub tok 0 i, String.sub tok (i + 1) (String.length tok - i - 1))
      | None -> failwith "bad pair") (split_on ',' (if s = "-" then "" else s)) in
  List.sort (fun (a, _) (b, _) -> compare a b) l
let ri_ops (s : string) : cop list =
  List.map (fun t -> match t with
      | "first" -> CFirst | "last" -> CLast | "next" -> CNext | "prev" -> CPrev
      | _ -> if String.length t > 5 && String.sub t 0 5 = "seek:" then CSeek (bytes_of_hex (String.sub t 5 (String.length t - 5)))
        else failwith "bad cursor op") (split_on ',' (if s = "-" then "" else s))
let ri_show = function
  | None -> "invalid"
  | Some (k, v) -> Printf.sprintf "valid %s=%s" (hex_of_bytes k) (hex_of_bytes v)
let ri_data committed writeset lo hi =
  let sn = List.map (fun (k, v) -> (bytes_of_hex k, bytes_of_hex v)) (ri_pairs committed) in
  let ws = List.map (fun (k, v) -> (bytes_of_hex k, if v = "!" then None else Some (bytes_of_hex v))) (ri_pairs writeset) in
  (restrict (bopt lo) (bopt hi) sn, restrict (bopt lo) (bopt hi) ws)
let ri_cmd (args : string list) : string =
  match args with
  | ["run"; committed; writeset; lo; hi; prog] ->
    let sn = List.map (fun (k, v) -> (bytes_of_hex k, bytes_of_hex v)) (ri_pairs committed) in
    let ws = List.map (fun (k, v) -> (bytes_of_hex k, if v = "!" then None else Some (bytes_of_hex v))) (ri_pairs writeset) in
    String.concat ";" (List.map ri_show (ri_run_bounded (bopt lo) (bopt hi) sn ws (ri_ops prog)))
  | ["sweep"; committed; writeset; lo; hi; alphabet; depth] ->
    let (sn, ws) = ri_data committed writeset lo hi in
    let alphabet = ri_ops alphabet in
    let h = ref 0L and count = ref 0 in
    let rec walk st dead depth =
      List.iter (fun op ->
          let seek = (match op with CFirst | CLast | CSeek _ -> true | _ -> false) in
          if dead && not seek then () else begin
            let st' = ri_step sn ws st op in
            let out = ri_get sn ws st' in
            let hv = ref 0xcbf29ce484222325L in
            String.iter (fun c -> hv := Int64.mul (Int64.logxor !hv (Int64.of_int (Char.code c))) 0x100000001b3L) (ri_show out);
            h := Int64.add (Int64.mul !h 0x100000001b3L) !hv;
            incr count;
            if depth > 1 then walk st' (out = None) (depth - 1)
          end) alphabet in
    walk ri_init false (int_of_string depth);
    Printf.sprintf "swept n=%d digest=%016Lx" !count !h
  | _ -> "bad-command"

(* ---------- C04: commit oracle (Conc/Oracle.v) and sequential commit machine (Conc/CommitSeq.v) ----------
   The fingerprint function of the model is a table: the i-th distinct key string seen gets
   fingerprint i (injective by construction; the crate uses xxh3_64, so agreement holds unless
   xxh3_64 collides on the keys of a script). *)
let fp_tab : (string, int) Hashtbl.t = Hashtbl.create 4096
let fp_of (k : n list) : n =
  let h = hex_of_bytes k in
  match Hashtbl.find_opt fp_tab h with
  | Some i -> n_of_int i
  | None -> let i = Hashtbl.length fp_tab + 1 in Hashtbl.replace fp_tab h i; n_of_int i
let keys_of (tok : string) : n list list = if tok = "-" || tok = "" then [] else List.map bytes_of_hex (String.split_on_char ',' tok)
let show_keys (ks : n list list) : string = if ks = [] then "-" else String.concat "," (List.map hex_of_bytes ks)
let ns s = n_of_int (int_of_string s)
let orc_state = ref o_new
let orc_cmd (args : string list) : string =
  match args with
  | ["new"] -> orc_state := o_new; "ok"
  | ["params"] -> Printf.sprintf "GC_INTERVAL=%d" (int_of_n oRACLE_GC_INTERVAL)
  | ["check"; start; keys] ->
    (match check fp_of !orc_state (keys_of keys) (ns start) with VOk -> "ok" | VConflict -> "conflict" | VRetry -> "retry")
  | ["publish"; seq; count; oldest; keys] ->
    orc_state := publish fp_of oRACLE_GC_INTERVAL !orc_state (keys_of keys) (ns seq) (ns count) (ns oldest); "ok"
  | ["rollback"; stamp; keys] -> orc_state := rollback fp_of !orc_state (keys_of keys) (ns stamp); "ok"
  | ["reset"; max] -> orc_state := reset_for_restore !orc_state (ns max); "ok"
  | ["dump"; keys] ->
    let ks = keys_of keys in
    let parts = List.map (fun k -> Printf.sprintf "%s:%d" (hex_of_bytes k) (int_of_n (observe_key fp_of !orc_state k))) ks in
    Printf.sprintf "kept=%d obs=%s" (int_of_n !orc_state.kept_since) (if parts = [] then "-" else String.concat "," parts)
  | ["hidden"] -> (* model only: the parts of the state the crate does not let a caller see *)
    Printf.sprintf "kept=%d since_gc=%d entries=%d" (int_of_n !orc_state.kept_since) (int_of_n !orc_state.commits_since_gc) (List.length !orc_state.recent)
  | _ -> "bad-command"

let cs_state = ref c0
let cs_ckpt : n option ref = ref None
let cs_calls : ocall list ref = ref []
let show_call = function
  | CCheck (ks, st) -> Printf.sprintf "check:%d:%s" (int_of_n st) (show_keys ks)
  | CPublish (ks, seq, cnt, old) -> Printf.sprintf "publish:%d:%d:%d:%s" (int_of_n seq) (int_of_n cnt) (int_of_n old) (show_keys ks)
  | CRollback (ks, st) -> Printf.sprintf "rollback:%d:%s" (int_of_n st) (show_keys ks)
  | CReset m -> Printf.sprintf "reset:%d" (int_of_n m)
let show_outcome = function
  | OOk -> "ok" | OConflict -> "conflict" | ORetry -> "retry" | OFailed -> "failed" | ONoTx -> "notx" | OClosed -> "closed" | OBad -> "bad"
let cs_cmd (args : string list) : string =
  let run c =
    let ((s, o), calls) = cs_step fp_of oRACLE_GC_INTERVAL !cs_state c in
    cs_state := s; cs_calls := calls; show_outcome o in
  match args with
  | ["new"] -> cs_state := c0; cs_ckpt := None; cs_calls := []; "ok"
  | ["begin"; id; m] ->
    (match m with
     | "rw" -> run (SBegin (ns id, BRW)) | "wo" -> run (SBegin (ns id, BWO)) | "un" -> run (SBegin (ns id, BUnreg))
     | _ -> "unsupported")
  | ["end"; id] -> run (SEnd (ns id))
  | ["commit"; id; keys; fail] -> run (SCommit (ns id, keys_of keys, fail = "1"))
  | ["checkpoint"] ->
    (* create_checkpoint records the manifest's last sequence number after flushing: the stamp of the newest commit the
       store CONTAINS (= visible, except after the restore of an empty checkpoint, which empties the store and leaves the
       counters where they were: set_seq_num does nothing for 0) *)
    cs_ckpt := Some (List.fold_left (fun a (m, _) -> if int_of_n m > int_of_n a then m else a) (n_of_int 0) !cs_state.c_done);
    cs_calls := []; "ok"
  | ["restore"] -> (match !cs_ckpt with None -> "nockpt" | Some m -> run (SRestore m))
  | ["restoreto"; m] -> run (SRestore (ns m))       (* model only *)
  | ["calls"] -> if !cs_calls = [] then "-" else String.concat "|" (List.map show_call !cs_calls)   (* model only *)
  | ["state"] ->                                    (* model only *)
    let s = !cs_state in
    Printf.sprintf "visible=%d next=%d kept=%d since_gc=%d entries=%d done=%d" (int_of_n s.c_visible) (int_of_n s.c_next)
      (int_of_n s.c_orc.kept_since) (int_of_n s.c_orc.commits_since_gc) (List.length s.c_orc.recent) (List.length s.c_done)
  | _ -> "bad-command"


(* ---------- C18: the B+tree as an ordered map (Misc/OMap.v), and its page allocator (Misc/Pages.v) ---------- *)
let bpt_map : (n list, string) omap ref = ref []
let bpt_cmpf : (n list -> n list -> comparison) ref = ref lex_cmp
let bpt_show_key (k : n list) : string =
  if List.length k <= 24 then hex_of_bytes k else Printf.sprintf "#%d/%s" (List.length k) (fnv k)
let bpt_show_val (v : string) : string = Printf.sprintf "%d/%s" (String.length v) (fnv_str v)
let bpt_show_pairs (l : (n list * string) list) : string =
  "list:" ^ String.concat "," (List.map (fun (k, v) -> bpt_show_key k ^ "=" ^ bpt_show_val v) l)
let bpt_bound (t : string) : n list bound =
  if t = "u" then Unb
  else let k = bytes_of_string (tok_string (String.sub t 2 (String.length t - 2))) in
    if t.[0] = 'i' then Incl k else Excl k
let bpt_cmd (args : string list) : string =
  let cmp = !bpt_cmpf in
  match args with
  | ["params"] ->
    Printf.sprintf "PAGE_SIZE=%d TRUNK_MAX=%d OVF_CAP=%d LEAF_LOCAL=%d,%d INT_LOCAL=%d,%d ok=%b"
      (int_of_n bPT_PAGE_SIZE) (int_of_n bPT_TRUNK_MAX_ENTRIES) (int_of_n bPT_OVERFLOW_CAP)
      (int_of_n bPT_LEAF_MIN_LOCAL) (int_of_n bPT_LEAF_MAX_LOCAL) (int_of_n bPT_INT_MIN_LOCAL) (int_of_n bPT_INT_MAX_LOCAL) bpt_params_ok
  | ["new"; c] -> bpt_map := []; bpt_cmpf := (if c = "ts" then ts_cmp else lex_cmp); "ok"
  | ["reopen"] -> "ok"
  | ["ins"; k; v] -> bpt_map := om_insert cmp (bytes_of_string (tok_string k)) (tok_string v) !bpt_map; "ok"
  | ["del"; k] ->
    let k = bytes_of_string (tok_string k) in
    let old = om_get cmp k !bpt_map in
    bpt_map := om_delete cmp k !bpt_map;
    (match old with None -> "val:none" | Some v -> "val:" ^ bpt_show_val v)
  | ["get"; k] ->
    (match om_get cmp (bytes_of_string (tok_string k)) !bpt_map with None -> "val:none" | Some v -> "val:" ^ bpt_show_val v)
  | ["range"; lo; hi] ->
    let lo = bpt_bound lo and hi = bpt_bound hi in
    let got = bpt_range cmp lo hi !bpt_map in
    let spec = om_range_spec cmp lo hi !bpt_map in
    bpt_show_pairs got ^
    (if got = spec then "" else " !spec=" ^ bpt_show_pairs spec ^ (if bpt_range_known lo !bpt_map then " known=bpt_range_excluded_empty_start" else ""))
  | ["scan"; d] -> bpt_show_pairs (if d = "f" then !bpt_map else List.rev !bpt_map)
  | ["seek"; k; cnt; d] ->
    let k = bytes_of_string (tok_string k) and cnt = nat_of_int (int_of_string cnt) in
    (match (if d = "f" then om_cursor_fwd cmp k cnt !bpt_map else om_cursor_bwd cmp k cnt !bpt_map) with
     | None -> "invalid" | Some l -> bpt_show_pairs l)
  | ["stats"] ->
    let lovf = List.fold_left (fun acc (k, v) -> acc + int_of_n (bpt_leaf_ovf_pages (n_of_int (List.length k + String.length v)))) 0 !bpt_map in
    Printf.sprintf "n=%d lovf=%d%s" (List.length !bpt_map) lovf (if om_sortedb cmp !bpt_map then "" else " MODEL-NOT-SORTED")
  | _ -> "bad-command"

let pg_state = ref bpt_init
let pg_show (st : pstate) : string =
  let parts = List.map (fun t ->
      let e = List.rev_map (fun x -> string_of_int (int_of_n x)) t.t_stack in
      Printf.sprintf "%d:%d:%s" (int_of_n t.t_page) (List.length e) (fnv_str (String.concat "." e))) st.p_chain in
  Printf.sprintf "st=%d,%d,%d,[%s]" (int_of_n st.p_total) (int_of_n (p_head st)) (int_of_n st.p_count) (String.concat ";" parts)
let pg_cmd (args : string list) : string =
  match args with
  | ["new"] -> pg_state := bpt_init; "tr=- " ^ pg_show !pg_state
  | ["run"; ops] ->
    let out = ref [] and stop = ref false in
    List.iter (fun o ->
        if not !stop then begin
          if o.[0] = 'a' then
            (match bpt_alloc !pg_state with
             | None -> out := "a!" :: !out; stop := true
             | Some (p, st) -> pg_state := st; out := ("a" ^ string_of_int (int_of_n p)) :: !out)
          else if o.[0] = 'f' then
            (match bpt_free (n_of_int (int_of_string (String.sub o 1 (String.length o - 1)))) !pg_state with
             | None -> out := (o ^ "!") :: !out; stop := true
             | Some st -> pg_state := st; out := o :: !out)
          else (out := ("?" ^ o) :: !out; stop := true)
        end) (split_on ',' (if ops = "-" then "" else ops));
    Printf.sprintf "tr=%s %s" (if !out = [] then "-" else String.concat "," (List.rev !out)) (pg_show !pg_state)
  | _ -> "bad-command"


(* ---------- TBL: sorted tables (C13) ---------- *)
let tbl_tables : (string, table * (n list -> bool) * n list option) Hashtbl.t = Hashtbl.create 16
let tbl_cursors : (string * string, bound0 * bound0 * titer ref) Hashtbl.t = Hashtbl.create 16
let big_of_string (s : string) : n =
  (* decimal string -> N, beyond OCaml's int range *)
  let acc = ref N0 in
  let ten = n_of_int 10 in
  String.iter (fun c -> acc := N.add (N.mul !acc ten) (n_of_int (Char.code c - 48))) s; !acc
let rec string_of_pos_dec (x : n) : string =
  (* N -> decimal string *)
  let ten = n_of_int 10 in
  match x with
  | N0 -> ""
  | _ -> let (q, r) = N.div_eucl x ten in string_of_pos_dec q ^ string_of_int (int_of_n r)
let dec_of_n (x : n) : string = match x with N0 -> "0" | _ -> string_of_pos_dec x
let norm_key (k : ikey) : ikey = match ik_decode (ik_encode k) with Some k' -> k' | None -> k
let mk_key u seq kind ts = norm_key { ik_uk = u; ik_seq = seq; ik_kind = kind; ik_ts = ts }
let tbl_val tok rest =
  match tok :: rest with
  | ["rep"; len; seed] ->
    let len = int_of_string len and seed = int_of_string seed in
    List.init len (fun i -> byte_tab.((seed * 31 + i * 7 + (i / 251)) land 255))
  | [h] -> bytes_of_hex h
  | _ -> failwith "bad value"
let tbl_entries (s : string) : (ikey * n list) list =
  if s = "-" then [] else
  List.map (fun tok ->
      match String.split_on_char ':' tok with
      | k :: seq :: kind :: ts :: v :: rest ->
        (mk_key (bytes_of_hex k) (big_of_string seq) (big_of_string kind) (big_of_string ts), tbl_val v rest)
      | _ -> failwith "bad entry") (String.split_on_char ',' s)
let tbl_opts (s : string) : (string * int) list =
  List.map (fun kv -> match String.split_on_char '=' kv with [k; v] -> (k, int_of_string v) | _ -> failwith "bad option") (String.split_on_char ',' s)
let show_val (v : n list) : string =
  if List.length v <= 32 then hex_of_bytes v else Printf.sprintf "#%d/%s" (List.length v) (fnv v)
let show_ikey (k : ikey) : string =
  Printf.sprintf "%s:%s:%s:%s" (hex_of_bytes k.ik_uk) (dec_of_n k.ik_seq) (dec_of_n k.ik_kind) (dec_of_n k.ik_ts)
let fnv_keys (ks : ikey list) : string =
  fnv (List.concat_map (fun k ->
      let e = ik_encode k in
      let l = List.length e in
      [byte_tab.((l lsr 24) land 255); byte_tab.((l lsr 16) land 255); byte_tab.((l lsr 8) land 255); byte_tab.(l land 255)] @ e) ks)
let tbl_bound (s : string) : bound0 =
  if s = "~" then BUnb
  else if s.[0] = 'i' then BInc (bytes_of_hex (String.sub s 1 (String.length s - 1)))
  else if s.[0] = 'x' then BExc (bytes_of_hex (String.sub s 1 (String.length s - 1)))
  else failwith "bad bound"
let bloom_k (bpk : int) : int = max 1 (min 30 (int_of_float (float_of_int bpk *. 0.7)))
let first_of l = match l with (k, _) :: _ -> k | [] -> failwith "empty"
let rec last_of l = match l with [(k, _)] -> k | _ :: r -> last_of r | [] -> failwith "empty"
let dots s = if s = "" then [] else List.map (fun x -> nat_of_int (int_of_string x)) (String.split_on_char '.' s)
let tbl_cmd (args : string list) : string =
  match args with
  | ["params"] ->
    Printf.sprintf "kinds=%s seqmax=%s tsmax=%s cksum=%d ctype=%d"
      (String.concat "." (List.map dec_of_n [iK_KIND_DELETE; iK_KIND_SOFTDELETE; iK_KIND_SET; iK_KIND_MERGE; iK_KIND_LOGDATA;
                                             iK_KIND_RANGEDELETE; iK_KIND_REPLACE; iK_KIND_SEPARATOR; iK_KIND_MAX; iK_KIND_INVALID]))
      (dec_of_n iK_SEQ_NUM_MAX) (dec_of_n iK_TIMESTAMP_MAX) (int_of_n tBL_BLOCK_CKSUM_LEN) (int_of_n tBL_BLOCK_COMPRESS_LEN)
  | "build" :: id :: opts :: entries :: rest ->
    let o = tbl_opts opts in
    let es = tbl_entries entries in
    Hashtbl.remove tbl_tables id;
    if es = [] then "err:empty" else begin
      let sorted = let rec ok = function a :: (b :: _ as r) -> ik_cmp (fst a) (fst b) = Lt && ok r | _ -> true in ok es in
      if not sorted then "err:entries-not-strictly-sorted" else
      match rest with
      | [bc; pc] ->
        (match build_table (nat_of_int (List.assoc "ri" o)) es (dots bc) (dots pc) with
         | None -> "error:bad-chunking"
         | Some t ->
           let fb = List.assoc "f" o in
           let filt = if fb = 0 then None else
               Some (bloom_create bloom_hash32 (n_of_int fb) (nat_of_int (bloom_k fb)) (List.map (fun (k, _) -> k.ik_uk) es)) in
           let mc = match filt with None -> (fun _ -> true) | Some f -> bloom_may_contain bloom_hash32 f in
           Hashtbl.replace tbl_tables id (t, mc, filt);
           let idx = List.concat t.t_parts in
           Printf.sprintf "ok n=%d blocks=%s parts=%s idx=%s top=%s firsts=%s lasts=%s range=%s..%s filter=%d"
             (List.length es) bc pc (fnv_keys (List.map fst idx)) (fnv_keys (List.map fst t.t_top))
             (fnv_keys (List.map first_of t.t_blocks)) (fnv_keys (List.map last_of t.t_blocks))
             (match t.t_smallest with Some k -> show_ikey k | None -> "none")
             (match t.t_largest with Some k -> show_ikey k | None -> "none")
             (if filt = None then 0 else 1))
      | _ -> "error:chunking-missing"
    end
  | ["index"; id] ->
    let (t, _, _) = Hashtbl.find tbl_tables id in
    String.concat ";" (List.map2 (fun (tk, _) p ->
        hex_of_bytes (ik_encode tk) ^ ">" ^ String.concat "," (List.map (fun (k, _) -> hex_of_bytes (ik_encode k)) p)) t.t_top t.t_parts)
  | ["get"; id; key; snap] ->
    let (t, mc, _) = Hashtbl.find tbl_tables id in
    let probe = mk_key (bytes_of_hex key) (big_of_string snap) iK_KIND_SET N0 in
    (match table_get t mc probe.ik_uk probe.ik_seq with
     | None -> "none"
     | Some (k, v) -> Printf.sprintf "some:%s=%s" (show_ikey k) (show_val v))
  | ["filt"; id; key] ->
    let (_, mc, filt) = Hashtbl.find tbl_tables id in
    if filt = None then "nofilter" else if mc (bytes_of_hex key) then "1" else "0"
  | ["cur"; id; cid; "open"; lo; hi] ->
    let _ = Hashtbl.find tbl_tables id in
    Hashtbl.replace tbl_cursors (id, cid) (tbl_bound lo, tbl_bound hi, ref t_new); "ok"
  | "cur" :: id :: cid :: op :: rest ->
    let (t, _, _) = Hashtbl.find tbl_tables id in
    let (lo, hi, st) = Hashtbl.find tbl_cursors (id, cid) in
    (match op, rest with
     | "first", [] -> st := t_seek_first t lo hi !st
     | "last", [] -> st := t_seek_last t lo hi !st
     | "next", [] -> st := t_next t lo hi !st
     | "prev", [] -> st := t_prev t lo hi !st
     | "seek", [k; seq] -> st := t_seek t hi (mk_key (bytes_of_hex k) (big_of_string seq) iK_KIND_SET N0) !st
     | _ -> failwith "bad cursor op");
    let v = t_valid !st in
    (match (if v then t_entry t !st else None) with
     | Some (k, vl) -> Printf.sprintf "r=%d %s=%s" (if v then 1 else 0) (show_ikey k) (show_val vl)
     | None -> Printf.sprintf "r=%d invalid" (if v then 1 else 0))
  | ["pred"; id; "inrange"; key] ->
    let (t, _, _) = Hashtbl.find tbl_tables id in
    if is_key_in_key_range t (bytes_of_hex key) then "1" else "0"
  | ["pred"; id; which; lo; hi] ->
    let (t, _, _) = Hashtbl.find tbl_tables id in
    let (lo, hi) = (tbl_bound lo, tbl_bound hi) in
    let b = (match which with
        | "before" -> is_before_range t lo
        | "after" -> is_after_range t hi
        | "overlaps" -> overlaps_with_range t lo hi
        | _ -> failwith "bad predicate") in
    if b then "1" else "0"
  | ["sep"; "bytewise"; x; y] -> hex_of_bytes (bw_separator (bytes_of_hex x) (bytes_of_hex y))
  | ["succ"; "bytewise"; x] -> hex_of_bytes (bw_successor (bytes_of_hex x))
  | ["sep"; "internal"; x; y] -> (match ik_separator_enc (bytes_of_hex x) (bytes_of_hex y) with Some r -> hex_of_bytes r | None -> "PANIC:short")
  | ["succ"; "internal"; x] -> (match ik_successor_enc (bytes_of_hex x) with Some r -> hex_of_bytes r | None -> "PANIC:short")
  | ["cmp"; x; y] ->
    (match ik_decode (bytes_of_hex x), ik_decode (bytes_of_hex y) with
     | Some a, Some b -> (match ik_cmp a b with Lt -> "-1" | Eq -> "0" | Gt -> "1")
     | _ -> "PANIC:short")
  | ["enc"; k; seq; kind; ts] ->
    hex_of_bytes (ik_encode { ik_uk = bytes_of_hex k; ik_seq = big_of_string seq; ik_kind = big_of_string kind; ik_ts = big_of_string ts })
  | ["dec"; x] -> (match ik_decode (bytes_of_hex x) with None -> "short" | Some k -> show_ikey k)
  | ["hash"; x; seed] -> dec_of_n (hash32 (bytes_of_hex x) (big_of_string seed))
  | ["bloom"; bpk; keys; probes] ->
    let bpk = int_of_string bpk in
    let keys = if keys = "~" then [] else List.map bytes_of_hex (String.split_on_char ',' keys) in
    let f = bloom_create bloom_hash32 (n_of_int bpk) (nat_of_int (bloom_k bpk)) keys in
    let ans = String.concat "" (List.map (fun p -> if bloom_may_contain bloom_hash32 f (bytes_of_hex p) then "1" else "0") (String.split_on_char ',' probes)) in
    Printf.sprintf "filter=%d/%s probes=%s" (List.length f) (fnv f) ans
  | _ -> "bad-command"

(* ---------- C16: region maps (Codec/Regions.v) ---------- *)
let rclass_name = function
  | DataPayload -> "data_payload" | DataType -> "data_type" | DataCrc -> "data_crc"
  | FilterPayload -> "filter_payload" | FilterType -> "filter_type" | FilterCrc -> "filter_crc"
  | PartPayload -> "part_payload" | PartType -> "part_type" | PartCrc -> "part_crc"
  | TopPayload -> "top_payload" | TopType -> "top_type" | TopCrc -> "top_crc"
  | MetaPayload -> "meta_payload" | MetaType -> "meta_type" | MetaCrc -> "meta_crc"
  | FooterFormat -> "footer_format" | FooterCksum -> "footer_cksum" | FooterHandles -> "footer_handles"
  | FooterPadding -> "footer_padding" | FooterMagic -> "footer_magic"
  | RecCrc -> "rec_crc" | RecLen -> "rec_len" | RecType -> "rec_type" | RecPayload -> "rec_payload"
  | WalPadding -> "padding" | WalTail -> "tail"
  | HdrMagic -> "hdr_magic" | HdrVersion -> "hdr_version" | HdrFileId -> "hdr_fileid" | HdrCreated -> "hdr_created"
  | HdrMaxSize -> "hdr_maxsize" | HdrCompression -> "hdr_compression" | HdrReserved -> "hdr_reserved"
  | EntKlen -> "ent_klen" | EntVlen -> "ent_vlen" | EntKey -> "ent_key" | EntValue -> "ent_value" | EntCrc -> "ent_crc"
  | VlogTail -> "tail"
let show_regions (rs : region list) : string =
  let total = List.fold_left (fun a r -> max a (int_of_nat r.r_off + int_of_nat r.r_len)) 0 rs in
  Printf.sprintf "total=%d regions=%s" total
    (if rs = [] then "-" else String.concat "," (List.map (fun r -> Printf.sprintf "%d:%d:%s" (int_of_nat r.r_off) (int_of_nat r.r_len) (rclass_name r.r_cls)) rs))
let rg_cmd (args : string list) : string =
  let nats s = if s = "-" then [] else List.map (fun x -> nat_of_int (int_of_string x)) (String.split_on_char ',' s) in
  let kv s = match String.index_opt s '=' with Some i -> String.sub s (i + 1) (String.length s - i - 1) | None -> failwith "bad field" in
  match args with
  | ["params"] ->
    Printf.sprintf "BLOCK_COMPRESS_LEN=%d BLOCK_CKSUM_LEN=%d TABLE_FULL_FOOTER_LENGTH=%d footer0=%s VLOG_HEADER_SIZE=%d VALUE_POINTER_SIZE=%d"
      (int_of_n tBL_BLOCK_COMPRESS_LEN) (int_of_n tBL_BLOCK_CKSUM_LEN) (int_of_n tBL_FULL_FOOTER_LENGTH) (hex_of_bytes footer_zero)
      (int_of_n vLOG_HEADER_SIZE) (int_of_n vLOG_VALUE_POINTER_SIZE)
  | ["table"; data; filter; parts; top; meta] ->
    let d = { td_data = nats (kv data); td_filter = (match kv filter with "-" -> None | x -> Some (nat_of_int (int_of_string x)));
              td_parts = nats (kv parts); td_top = nat_of_int (int_of_string (kv top)); td_meta = nat_of_int (int_of_string (kv meta)) } in
    let rs = table_regions d in
    let s = show_regions rs in
    if int_of_nat (table_len d) <> (List.fold_left (fun a r -> max a (int_of_nat r.r_off + int_of_nat r.r_len)) 0 rs) then "error:table_len" else s
  | ["wal"; hex] -> show_regions (wal_regions wB (bytes_of_hex hex))
  | ["walends"; hex] ->
    let e = wal_rec_ends O (wal_descr wB (bytes_of_hex hex)) in
    if e = [] then "-" else String.concat "," (List.map (fun x -> string_of_int (int_of_nat x)) e)
  | ["vlog"; hex] -> show_regions (vlog_regions (bytes_of_hex hex))
  | ["file"; id; hex] -> Hashtbl.replace files ("rg:" ^ id) (bytes_of_hex hex); "ok"
  (* read_table_block of the model (real CRC-32, mask, little endian) on the stored file, optionally with one byte altered;
     snappy payloads are not decompressed (identity): the answer says whether the block verifies *)
  | "readblock" :: id :: o :: n :: alt ->
    let f = Hashtbl.find files ("rg:" ^ id) in
    let f = (match alt with [x; v] -> alter f (nat_of_int (int_of_string x)) (n_of_int (int_of_string v)) | _ -> f) in
    (match tbl_read_block (fun p -> Some p) f (nat_of_int (int_of_string o)) (nat_of_int (int_of_string n)) with
     | Some b -> Printf.sprintf "some:%d:%s" (List.length b) (fnv b)
     | None -> "none")
  | "footer" :: id :: alt ->
    let f = Hashtbl.find files ("rg:" ^ id) in
    let f = (match alt with [x; v] -> alter f (nat_of_int (int_of_string x)) (n_of_int (int_of_string v)) | _ -> f) in
    (match footer_check f with Some h -> "some:" ^ hex_of_bytes h | None -> "none")
  | "vlogget" :: id :: o :: k :: v :: crc :: alt ->
    let f = Hashtbl.find files ("rg:" ^ id) in
    let f = (match alt with [x; w] -> alter f (nat_of_int (int_of_string x)) (n_of_int (int_of_string w)) | _ -> f) in
    let c = int_of_string crc in
    let p = { vp_off = nat_of_int (int_of_string o); vp_k = nat_of_int (int_of_string k); vp_v = nat_of_int (int_of_string v);
              vp_crc = List.map n_of_int [(c lsr 24) land 255; (c lsr 16) land 255; (c lsr 8) land 255; c land 255] } in
    (match vlog_get_full f p with
     | Some b -> Printf.sprintf "some:%d:%s" (List.length b) (fnv b)
     | None -> "none")
  | ["paramsok"] -> if c16_params_ok then "true" else "false"
  | _ -> "bad-command"

(* ---------- C15 writer-level engine: Crash/Fail.v under a fault plan ---------- *)
let wf_state = ref walx0
let wf_plan : (int * fkind * bool) ref = ref (0, KErr, false)
let wf_cmds : xcmd list ref = ref []
let wf_res : xres list ref = ref []
let wf_kind (s : string) : fkind =
  let num pre = int_of_string (String.sub s (String.length pre) (String.length s - String.length pre)) in
  if s = "eio" || s = "enospc" then KErr
  else if s = "fsync" then KFsync
  else if String.length s > 8 && String.sub s 0 8 = "shorterr" then KShortErr (nat_of_int (num "shorterr"))
  else if String.length s > 5 && String.sub s 0 5 = "short" then KShort (nat_of_int (num "short"))
  else failwith "bad fault kind"
let wf_do (c : xcmd) : string =
  let (n, k, st) = !wf_plan in
  let (a, r) = fi_xstep (plan_wenv (nat_of_int n) k st) (plan_senv (nat_of_int n) k st) !wf_state c in
  wf_state := a; wf_cmds := !wf_cmds @ [c]; wf_res := !wf_res @ [r];
  match r with XOk -> "ok" | XRejected -> "rejected" | _ -> "err"
let wf_cmd (args : string list) : string =
  match args with
  | ["open"; _] -> wf_state := walx0; wf_cmds := []; wf_res := []; "ok"
  | ["fault"; n; kind; sticky] -> wf_plan := (int_of_string n, wf_kind kind, sticky = "1"); "ok"
  | ["append"; tok] -> wf_do (XC (CAppend (bytes_of_tok tok)))
  | ["flush"] -> wf_do (XC CFlush)
  | ["sync"] -> wf_do (XC CSync)
  | ["rotate"] -> wf_do (XC CRotate)
  | ["close"] -> wf_do XClose
  | ["files"] ->
    let segs = segments !wf_state.x_wal in
    Printf.sprintf "segs=%d %s" (List.length segs) (String.concat "," (List.map (fun f -> Printf.sprintf "%d/%s" (List.length f) (fnv f)) segs))
  | ["read"] ->
    String.concat " | " (List.map (fun f -> show_read (wal_read_all no_decompress f)) (segments !wf_state.x_wal))
  | ["class"] ->
    let sh l = String.concat "," (List.map (fun r -> Printf.sprintf "%d/%s" (List.length r) (fnv r)) l) in
    Printf.sprintf "class fsync=%b failed=%b shut=%b ack_after_failure=%b buffered=%d acked=[%s]"
      (xknown_fsync_failed !wf_res) !wf_state.x_failed !wf_state.x_shut (xack_after false !wf_cmds !wf_res)
      (List.length (cur_buf !wf_state.x_wal)) (sh (xacked !wf_cmds !wf_res))
  | ["params"] -> Printf.sprintf "cap=%d ok=%b" (int_of_nat fC) fail_params_ok
  | ["end"] -> "ok"
  | _ -> "bad-command"

(* ---- E3 BEGIN (controlled interleavings: trace validation and exhaustive exploration of the
   extracted pipeline LTS, Conc/Pipeline.v) ---- *)
let e3_kv (s : string) : (string * string) list =
  List.filter_map (fun kv -> match String.index_opt kv '=' with
      | Some i -> Some (String.sub kv 0 i, String.sub kv (i + 1) (String.length kv - i - 1))
      | None -> None) (String.split_on_char ',' s)
let e3_int kvs k d = match List.assoc_opt k kvs with Some v -> int_of_string v | None -> d
let e3_cfg kvs = { c_slots = nat_of_int (e3_int kvs "slots" 8); c_permits = nat_of_int (e3_int kvs "permits" 7);
                   c_memlimit = nat_of_int (e3_int kvs "mem" 2); c_l0limit = nat_of_int (e3_int kvs "l0" 1000) }

let e3_actor_of (a : string) : actor =
  match a.[0] with
  | 'c' -> ACommit (nat_of_int (int_of_string (String.sub a 1 (String.length a - 1))))
  | 'r' -> AReader (nat_of_int (int_of_string (String.sub a 1 (String.length a - 1))))
  | 'F' -> AFlush | 'L' -> ALevel | 'X' -> ACloser | _ -> AMain
let e3_actor_str = function
  | ACommit i -> "c" ^ string_of_int (int_of_nat i) | AReader i -> "r" ^ string_of_int (int_of_nat i)
  | AFlush -> "F" | ALevel -> "L" | ACloser -> "X" | AMain -> "M"

let e3_label_of (name : string) (a : int) (b : int) : label option =
  let n = nat_of_int in
  match name with
  | "txn.loaded" -> Some (LTxnLoaded (n a)) | "txn.registered" -> Some (LTxnRegistered (n a))
  | "commit.enter" -> Some (LEnter (n b))
  | "stall.registered" -> Some LStallRegistered | "stall.counted" -> Some (LStallCounted (n a, n b))
  | "stall.wait" -> Some LStallWait | "commit.stall_ok" -> Some LStallOk
  | "commit.sem_acquired" -> Some LSemAcquired | "commit.want_lock" -> Some LWantLock
  | "commit.locked" -> Some LLocked | "commit.checked" -> Some LChecked
  | "commit.seq_allocated" -> Some (LSeqAllocated (n a, n b)) | "commit.oracle_published" -> Some LOraclePublished
  | "enq.loaded" -> Some (LEnqLoaded (n a, n b)) | "enq.full" -> Some LEnqFull | "enq.spin" -> Some LEnqSpin
  | "enq.stored" -> Some LEnqStored | "enq.done" -> Some LEnqDone | "commit.enqueued" -> Some LEnqueued
  | "commit.wal_failed" -> Some LWalFailed | "commit.fail_completed" -> Some LFailCompleted
  | "commit.marked" -> Some LMarked | "commit.unlocked" -> Some LUnlocked
  | "mem.insert" -> Some (LMemInsert (n a)) | "apply.arena_full" -> Some LArenaFull | "apply.rotated" -> Some LRotated
  | "task.wake_mem" -> Some LWakeMem | "apply.woke" -> Some LApplyWoke
  | "commit.after_apply" -> Some (LAfterApply (b = 1))
  | "deq.loaded" -> Some (LDeqLoaded (n a, n b)) | "deq.slot" -> Some (LDeqSlot (n a, b = 1))
  | "deq.checked" -> Some (LDeqChecked (n a, b = 1)) | "deq.cas_ok" -> Some LDeqCasOk | "deq.cas_fail" -> Some LDeqCasFail
  | "deq.cleared" -> Some LDeqCleared | "pub.deq" -> Some (LPubDeq (n a, n b))
  | "vis.loaded" -> Some (LVisLoaded (n a, n b)) | "vis.skip" -> Some LVisSkip | "vis.cas_ok" -> Some LVisCasOk
  | "vis.cas_fail" -> Some LVisCasFail | "pub.completed" -> Some LPubCompleted | "pub.exit" -> Some LPubExit
  | "commit.published" -> Some LPublished
  | "ret" -> Some (LRet (match a with 0 -> ResOk | 1 -> ResErr | _ -> ResPanic))
  | "obs" -> Some (LObs (n a, (match b with 0 -> OFull | 1 -> ONone | _ -> OPartial)))
  | "stall.signal" -> Some (LSignal (a = 1))
  | "task.mem.wait" -> Some LMemWait | "task.mem.woken" -> Some LMemWoken | "task.mem.running" -> Some LMemRunning
  | "task.mem.flushed" -> Some LMemFlushed | "task.mem.nopending" -> Some LMemNoPending | "task.mem.error" -> Some LMemError
  | "task.mem.notified_level" -> Some LMemNotifiedLevel | "task.mem.idle" -> Some LMemIdle | "task.mem.recheck" -> Some LMemRecheck | "task.mem.exit" -> Some LMemExit
  | "task.level.wait" -> Some LLevelWait | "task.level.woken" -> Some LLevelWoken | "task.level.running" -> Some LLevelRunning
  | "task.level.done" -> Some (LLevelDone (n a)) | "task.level.error" -> Some LLevelError
  | "task.level.idle" -> Some LLevelIdle | "task.level.exit" -> Some LLevelExit
  | "task.wake_level" -> Some LWakeLevel
  | "close.start" -> Some LCloseStart | "close.pipe_shutdown" -> Some LClosePipeDown
  | "task.stop.flag" -> Some LStopFlag | "task.stop.notified" -> Some LStopNotified | "task.stop.poll" -> Some LStopPoll
  | "task.stop.join" -> Some LStopJoin | "close.tasks_stopped" -> Some LCloseTasksStopped
  | "close.synced" -> Some LCloseSynced | "close.end" -> Some LCloseEnd
  | _ -> None

let e3_label_str (l : label) : string =
  let i = int_of_nat in
  let p name a b = Printf.sprintf "%s,%d,%d" name a b in
  match l with
  | LTxnLoaded h -> p "txn.loaded" (i h) 0 | LTxnRegistered h -> p "txn.registered" (i h) 0
  | LEnter c -> p "commit.enter" 0 (i c)
  | LStallRegistered -> p "stall.registered" 0 0 | LStallCounted (a, b) -> p "stall.counted" (i a) (i b)
  | LStallWait -> p "stall.wait" 0 0 | LStallOk -> p "commit.stall_ok" 0 0 | LSemAcquired -> p "commit.sem_acquired" 0 0
  | LWantLock -> p "commit.want_lock" 0 0 | LLocked -> p "commit.locked" 0 0 | LChecked -> p "commit.checked" 0 0
  | LSeqAllocated (a, b) -> p "commit.seq_allocated" (i a) (i b) | LOraclePublished -> p "commit.oracle_published" 0 0
  | LEnqLoaded (a, b) -> p "enq.loaded" (i a) (i b) | LEnqFull -> p "enq.full" 0 0 | LEnqSpin -> p "enq.spin" 0 0
  | LEnqStored -> p "enq.stored" 0 0 | LEnqDone -> p "enq.done" 0 0 | LEnqueued -> p "commit.enqueued" 0 0
  | LWalFailed -> p "commit.wal_failed" 0 0 | LFailCompleted -> p "commit.fail_completed" 0 0
  | LMarked -> p "commit.marked" 0 0 | LUnlocked -> p "commit.unlocked" 0 0
  | LMemInsert a -> p "mem.insert" (i a) 0 | LArenaFull -> p "apply.arena_full" 0 0 | LRotated -> p "apply.rotated" 0 0
  | LWakeMem -> p "task.wake_mem" 0 0 | LApplyWoke -> p "apply.woke" 0 0
  | LAfterApply e -> p "commit.after_apply" 0 (if e then 1 else 0)
  | LDeqLoaded (a, b) -> p "deq.loaded" (i a) (i b) | LDeqSlot (a, b) -> p "deq.slot" (i a) (if b then 1 else 0)
  | LDeqChecked (a, b) -> p "deq.checked" (i a) (if b then 1 else 0) | LDeqCasOk -> p "deq.cas_ok" 0 0
  | LDeqCasFail -> p "deq.cas_fail" 0 0 | LDeqCleared -> p "deq.cleared" 0 0 | LPubDeq (a, b) -> p "pub.deq" (i a) (i b)
  | LVisLoaded (a, b) -> p "vis.loaded" (i a) (i b) | LVisSkip -> p "vis.skip" 0 0 | LVisCasOk -> p "vis.cas_ok" 0 0
  | LVisCasFail -> p "vis.cas_fail" 0 0 | LPubCompleted -> p "pub.completed" 0 0 | LPubExit -> p "pub.exit" 0 0
  | LPublished -> p "commit.published" 0 0
  | LRet r -> p "ret" (match r with ResOk -> 0 | ResErr -> 1 | ResPanic -> 2) 0
  | LObs (c, k) -> p "obs" (i c) (match k with OFull -> 0 | ONone -> 1 | OPartial -> 2)
  | LSignal b -> p "stall.signal" (if b then 1 else 0) 0
  | LMemWait -> p "task.mem.wait" 0 0 | LMemWoken -> p "task.mem.woken" 0 0 | LMemRunning -> p "task.mem.running" 0 0
  | LMemFlushed -> p "task.mem.flushed" 0 0 | LMemNoPending -> p "task.mem.nopending" 0 0 | LMemError -> p "task.mem.error" 0 0
  | LMemNotifiedLevel -> p "task.mem.notified_level" 0 0 | LMemIdle -> p "task.mem.idle" 0 0 | LMemRecheck -> p "task.mem.recheck" 0 1 | LMemExit -> p "task.mem.exit" 0 0
  | LLevelWait -> p "task.level.wait" 0 0 | LLevelWoken -> p "task.level.woken" 0 0 | LLevelRunning -> p "task.level.running" 0 0
  | LLevelDone a -> p "task.level.done" (i a) 0 | LLevelError -> p "task.level.error" 0 0 | LLevelIdle -> p "task.level.idle" 0 0
  | LLevelExit -> p "task.level.exit" 0 0 | LWakeLevel -> p "task.wake_level" 0 0
  | LCloseStart -> p "close.start" 0 0 | LClosePipeDown -> p "close.pipe_shutdown" 0 0 | LStopFlag -> p "task.stop.flag" 0 0
  | LStopNotified -> p "task.stop.notified" 0 0 | LStopPoll -> p "task.stop.poll" 0 0 | LStopJoin -> p "task.stop.join" 0 0
  | LCloseTasksStopped -> p "close.tasks_stopped" 0 0 | LCloseSynced -> p "close.synced" 0 0 | LCloseEnd -> p "close.end" 0 0

let e3_trace_str (tr : (actor * label) list) : string =
  String.concat ";" (List.map (fun (a, l) -> e3_actor_str a ^ "," ^ e3_label_str l) tr)

let e3_pc_str (s : plstate) (a : actor) : string =
  match a with
  | ACommit i -> (match List.nth_opt s.thrs (int_of_nat i) with
      | Some t -> (match t.t_pc with
          | CIdle -> "Idle" | CEntered -> "Entered" | CStallReg _ -> "StallReg" | CStallCounted (_, b) -> if b then "StallCounted(stalled)" else "StallCounted(free)"
          | CStallBlocked _ -> "StallBlocked" | CStallOk -> "StallOk" | CHasPermit -> "HasPermit" | CWantLock -> "WantLock"
          | CLocked -> "Locked" | CChecked -> "Checked" | CAlloc -> "Alloc" | COrPub -> "OrPub" | CEnqLoaded -> "EnqLoaded"
          | CEnqFullSeen -> "EnqFullSeen" | CEnqPanic -> "EnqPanic" | CEnqStored -> "EnqStored" | CEnqDone -> "EnqDone"
          | CEnqueued -> "Enqueued" | CWalFailed -> "WalFailed" | CFailDoneLocked -> "FailDoneLocked" | CMarkedLocked -> "MarkedLocked"
          | CApplying _ -> "Applying" | CArenaFull -> "ArenaFull" | CRotated -> "Rotated" | CWokeMem -> "WokeMem" | CApplied -> "Applied"
          | CApplyFailed -> "ApplyFailed" | CFailDone -> "FailDone" | CPubTop -> "PubTop" | CPubHold _ -> "PubHold"
          | CDeqLoaded _ -> "DeqLoaded" | CDeqSlot _ -> "DeqSlot" | CDeqChecked _ -> "DeqChecked" | CDeqNone -> "DeqNone"
          | CDeqWon _ -> "DeqWon" | CDeqOwned _ -> "DeqOwned" | CVisTop _ -> "VisTop" | CVisLoaded _ -> "VisLoaded"
          | CVisDone _ -> "VisDone" | CPubExit -> "PubExit" | CWaitDone -> "WaitDone" | CReturned _ -> "Returned")
      | None -> "no-such-thread")
  | _ -> "-"

(* e3 validate <params> <trace>: every event must be an enabled transition of the LTS from the
   current model state; the recorded horizon must equal the model's after every event; the safety
   invariants must hold in every state along the trace *)
let e3_validate (params : string) (trace : string) : string =
  let kvs = e3_kv params in
  let c = e3_cfg kvs in
  let v0 = e3_int kvs "v0" 0 in
  let s0 = pinit c (nat_of_int (e3_int kvs "nthr" 1)) (nat_of_int (e3_int kvs "nrdr" 0)) (nat_of_int v0) in
  let evs = List.filter (fun x -> x <> "") (String.split_on_char ';' trace) in
  let s = ref s0 and k = ref 0 and bad = ref "" and maxfl = ref 0 and nuaf = ref 0 and skipped = ref 0 and skipped_failed_obs = ref 0 and obs_mismatch = ref 0 and first_mismatch = ref "" in
  let vis_prev = ref v0 in
  (try
     List.iter (fun ev ->
         (match String.split_on_char ',' ev with
          | a :: name :: x :: y :: rest ->
            (match e3_label_of name (int_of_string x) (int_of_string y) with
             | None -> incr skipped
             | Some (LObs (cth, _)) when
                 (* theorem read_all_or_nothing speaks about commits that did not fail: the observation of a
                    failed commit's batch (possibly partially applied, C15) is not compared *)
                 (match List.nth_opt !s.thrs (int_of_nat cth) with
                  | Some t -> (match t.t_my with
                      | Some p -> (match List.nth_opt !s.qlog (int_of_nat p) with Some b -> b.b_fail | None -> false)
                      | None -> false)
                  | None -> false) -> incr skipped_failed_obs
             | Some l ->
               let act = e3_actor_of a in
               (match pstep c !s act l with
                | None when (match l with LObs _ -> true | _ -> false) ->
                  (* a probe observation that differs from the memtable model: recorded, the replay goes on
                     (observations do not change the state) *)
                  incr obs_mismatch;
                  if !first_mismatch = "" then first_mismatch := Printf.sprintf "%d:%s" !k ev
                | None ->
                  bad := Printf.sprintf "reject at=%d event=%s pc=%s" !k ev (e3_pc_str !s act); raise Exit
                | Some s' ->
                  s := s';
                  let mv = int_of_nat s'.visible in
                  if mv < !vis_prev then (bad := Printf.sprintf "invariant at=%d event=%s which=visible-decreased" !k ev; raise Exit);
                  vis_prev := mv;
                  (match rest with
                   | v :: _ when v <> "" && int_of_string v <> mv ->
                     bad := Printf.sprintf "reject at=%d event=%s which=visible impl=%s model=%d" !k ev v mv; raise Exit
                   | _ -> ());
                  if not (safe_ok (nat_of_int v0) s') then
                    (bad := Printf.sprintf "invariant at=%d event=%s which=safe_ok" !k ev; raise Exit);
                  let fl = int_of_nat (in_flight s') in
                  if fl > !maxfl then maxfl := fl))
          | _ -> bad := Printf.sprintf "reject at=%d event=%s which=syntax" !k ev; raise Exit);
         incr k) evs
   with Exit -> ());
  if !s.uaf then nuaf := 1;
  if !bad <> "" then !bad
  else
    let e_all = { e_cnts = []; e_walfail = true; e_applyfail = true; e_rotate = true; e_l0s = [O]; e_close = false;
                  e_conflict = true; e_bgfail = true } in
    Printf.sprintf "ok events=%d skipped=%d failed_obs=%d obs_mismatch=%d first_mismatch=%s dead=%d visible=%d head=%d tail=%d max_in_flight=%d uaf=%d panics=%d returned=%d"
      !k !skipped !skipped_failed_obs !obs_mismatch (if !first_mismatch = "" then "-" else !first_mismatch) (if deadlocked c e_all !s then 1 else 0) (int_of_nat !s.visible) (int_of_nat !s.qhead) (int_of_nat !s.qtail) !maxfl !nuaf
      (List.length (List.filter (fun t -> t.t_pc = CReturned ResPanic) !s.thrs))
      (List.length (List.filter (fun t -> match t.t_pc with CReturned _ -> true | _ -> false) !s.thrs))

(* e3 explore <params>: exhaustive exploration of a small instance with a visited set.  Reports the
   number of states and, for each statement, a shortest-found counterexample trace or "-". *)
let e3_explore (params : string) : string =
  let kvs = e3_kv params in
  let c = e3_cfg kvs in
  let cnts = match List.assoc_opt "cnts" kvs with
    | Some v -> List.map int_of_string (String.split_on_char '/' v) | None -> [1] in
  let flag k = e3_int kvs k 0 = 1 in
  let e = { e_cnts = List.map nat_of_int cnts; e_walfail = flag "walfail"; e_applyfail = flag "applyfail";
            e_rotate = flag "rotate";
            e_l0s = (match List.assoc_opt "l0s" kvs with Some v -> List.map (fun x -> nat_of_int (int_of_string x)) (String.split_on_char '/' v) | None -> [O]);
            e_close = flag "close"; e_conflict = flag "conflict"; e_bgfail = flag "bgfail" } in
  let maxst = e3_int kvs "maxstates" 2000000 in
  let v0 = nat_of_int 0 in
  let s0 = pinit c (nat_of_int (List.length cnts)) (nat_of_int (e3_int kvs "rdrs" 0)) v0 in
  let key (s : plstate) = Marshal.to_string s [Marshal.No_sharing] in
  (* id -> (state, parent id, event) *)
  let tbl : (string, int) Hashtbl.t = Hashtbl.create 100000 in
  let states = ref (Array.make 1024 (s0, -1, (AMain, LWakeLevel))) in
  let n = ref 0 in
  let add s par ev =
    let k = key s in
    match Hashtbl.find_opt tbl k with
    | Some id -> (id, false)
    | None ->
      if !n >= Array.length !states then begin
        let a = Array.make (2 * !n) !states.(0) in Array.blit !states 0 a 0 !n; states := a end;
      !states.(!n) <- (s, par, ev); Hashtbl.add tbl k !n; incr n; (!n - 1, true) in
  let path id =
    let rec go id acc = if id <= 0 then acc else let (_, par, ev) = !states.(id) in go par (ev :: acc) in
    e3_trace_str (go id []) in
  ignore (add s0 (-1) (AMain, LWakeLevel));
  let first = Hashtbl.create 8 in
  let note k id = if not (Hashtbl.mem first k) then Hashtbl.add first k id in
  let progress_edges : (int, int list) Hashtbl.t = Hashtbl.create 100000 in
  let edges = ref 0 and truncated = ref false in
  let i = ref 0 in
  while !i < !n && not !truncated do
    let (s, _, _) = !states.(!i) in
    if not (safe_ok v0 s) then note "safe" !i;
    if not (no_overflow_ok c s) then note "overflow" !i;
    if s.uaf then note "uaf" !i;
    if deadlocked c e s then note "deadlock" !i;
    (* an overflowed or use-after-free state is not expanded further: what follows is not of interest *)
    let sc = succs c e s in
    let pe = ref [] in
    List.iter (fun ((a, l), s') ->
        incr edges;
        let (id, _) = add s' !i (a, l) in
        if not (env_label a l) && not (stutter l) then pe := id :: !pe) sc;
    Hashtbl.replace progress_edges !i !pe;
    if !n > maxst then truncated := true;
    incr i
  done;
  (* cycle among progress steps (test of `terminates`): iterative DFS with colours *)
  let colour = Array.make !n 0 in
  let cyc = ref (-1) in
  let rec_stack = Stack.create () in
  for r = 0 to !n - 1 do
    if colour.(r) = 0 && !cyc < 0 then begin
      Stack.push (r, ref (try Hashtbl.find progress_edges r with Not_found -> [])) rec_stack;
      colour.(r) <- 1;
      while not (Stack.is_empty rec_stack) && !cyc < 0 do
        let (u, rest) = Stack.top rec_stack in
        match !rest with
        | [] -> colour.(u) <- 2; ignore (Stack.pop rec_stack)
        | v :: tl ->
          rest := tl;
          if colour.(v) = 1 then cyc := v
          else if colour.(v) = 0 then begin
            colour.(v) <- 1;
            Stack.push (v, ref (try Hashtbl.find progress_edges v with Not_found -> [])) rec_stack
          end
      done;
      Stack.clear rec_stack
    end
  done;
  let show k = match Hashtbl.find_opt first k with Some id -> path id | None -> "-" in
  Printf.sprintf "states=%d edges=%d truncated=%d safe=%s overflow=%s uaf=%s deadlock=%s cycle=%s"
    !n !edges (if !truncated then 1 else 0) (show "safe") (show "overflow") (show "uaf") (show "deadlock")
    (if !cyc >= 0 then path !cyc else "-")

let e3_cmd (toks : string list) : string =
  match toks with
  | ["validate"; params; trace] -> e3_validate params trace
  | ["validate"; params] -> e3_validate params ""
  | ["explore"; params] -> e3_explore params
  | _ -> "bad-command"
(* ---- E3 END ---- *)

(* ---------- crash protocol engine (Crash/Proto.v) ---------- *)
let cp_ints s = if s = "" then [] else List.map (fun x -> nat_of_int (int_of_string x)) (String.split_on_char ',' s)
let cp_cov s =
  if s = "" then [] else
    List.map (fun x -> let l = String.length x in
               (nat_of_int (int_of_string (String.sub x 0 (l - 1))), x.[l - 1] = '+')) (String.split_on_char ',' s)
let cp_crash (tok : string) : pcrash =
  match String.split_on_char ':' tok with
  | ["cp"] -> CProc
  | ["cw"; keep; garb; tkeep] ->
    let kp = if keep = "" then [] else
        List.map (fun x -> match String.split_on_char '=' x with
            | [a; b] -> (nat_of_int (int_of_string a), nat_of_int (int_of_string b))
            | _ -> failwith "bad keep") (String.split_on_char ',' keep) in
    CPow (kp, cp_ints garb, cp_ints tkeep)
  | _ -> failwith ("bad crash token " ^ tok)
let cp_event (tok : string) : pevent =
  let n x = nat_of_int (int_of_string x) in
  match String.split_on_char ':' tok with
  | ["rot"; s] -> WalRotate (n s)
  | ["par"; s] -> WalPartial (n s)
  | ["app"; s; b] -> WalAppend (n s, n b)
  | ["rel"; s; b] -> Relog (n s, n b)
  | ["syn"; s] -> WalSync (n s)
  | ["ack"; b; d] -> Ack (n b, d = "1")
  | ["acks"] -> AckSync
  | ["tw"; id; c] -> TableWrite (n id, cp_cov c)
  | ["ts"; id] -> TableSync (n id)
  | ["mi"; l; ts] -> ManifestInstall (n l, cp_ints ts)
  | ["wu"; s] -> WalUnlink (n s)
  | ["tu"; id] -> TableUnlink (n id)
  | ["ttd"; s] -> TornTailDrop (n s)
  | "cp" :: _ | "cw" :: _ -> Crash (cp_crash tok)
  | _ -> failwith ("bad event token " ^ tok)
let cp_show_event (e : pevent) : string =
  let i = int_of_nat in
  let ints l = String.concat "," (List.map (fun x -> string_of_int (i x)) l) in
  match e with
  | WalRotate s -> Printf.sprintf "rot:%d" (i s)
  | WalPartial s -> Printf.sprintf "par:%d" (i s)
  | WalAppend (s, b) -> Printf.sprintf "app:%d:%d" (i s) (i b)
  | Relog (s, b) -> Printf.sprintf "rel:%d:%d" (i s) (i b)
  | WalSync s -> Printf.sprintf "syn:%d" (i s)
  | Ack (b, d) -> Printf.sprintf "ack:%d:%d" (i b) (if d then 1 else 0)
  | AckSync -> "acks"
  | TableWrite (id, c) -> Printf.sprintf "tw:%d:%s" (i id) (String.concat "," (List.map (fun (b, f) -> Printf.sprintf "%d%s" (i b) (if f then "+" else "-")) c))
  | TableSync id -> Printf.sprintf "ts:%d" (i id)
  | ManifestInstall (l, ts) -> Printf.sprintf "mi:%d:%s" (i l) (ints ts)
  | WalUnlink s -> Printf.sprintf "wu:%d" (i s)
  | TableUnlink id -> Printf.sprintf "tu:%d" (i id)
  | TornTailDrop s -> Printf.sprintf "ttd:%d" (i s)
  | Crash CProc -> "cp"
  | Crash (CPow (k, g, t)) -> Printf.sprintf "cw:%s:%s:%s" (String.concat "," (List.map (fun (a, b) -> Printf.sprintf "%d=%d" (i a) (i b)) k)) (ints g) (ints t)
let cp_show_rec (r : (nat * bool) list option) : string =
  match r with
  | None -> "fail"
  | Some l ->
    let full = List.sort_uniq compare (List.filter_map (fun (b, f) -> if f then Some (int_of_nat b) else None) l) in
    let part = List.sort_uniq compare (List.filter_map (fun (b, f) -> if f then None else Some (int_of_nat b)) l) in
    let part = List.filter (fun b -> not (List.mem b full)) part in
    Printf.sprintf "full=%s;part=%s" (String.concat "," (List.map string_of_int full)) (String.concat "," (List.map string_of_int part))
let rec cp_take n l = if n <= 0 then [] else match l with [] -> [] | x :: r -> x :: cp_take (n - 1) r

(* random walk over ACCEPTED events; at every state both theorems are evaluated for the process
   crash and for random power-loss choices *)
let cp_fuzz seed steps walks =
  Random.init seed;
  let ri n = if n <= 0 then 0 else Random.int n in
  let bad = ref None and accepted = ref 0 and checks = ref 0 and crashes = ref 0 and kinds = Hashtbl.create 16 in
  let rand_crash st =
    let hi = int_of_nat st.seg_hi in
    let keep = List.filter_map (fun s -> if Random.bool () then Some (nat_of_int s, nat_of_int (ri 6)) else None) (List.init hi (fun x -> x)) in
    let garb = List.filter_map (fun s -> if ri 3 = 0 then Some (nat_of_int s) else None) (List.init hi (fun x -> x)) in
    let tk = List.filter_map (fun s -> if Random.bool () then Some (nat_of_int s) else None) (List.init 12 (fun x -> x)) in
    CPow (keep, garb, tk) in
  for _w = 1 to walks do
    if !bad = None then begin
      let st = ref st0 and trace = ref [] and tid = ref 1 in
      let step e =
        if okb !st e then begin
          st := papply !st e; trace := e :: !trace; incr accepted;
          let k = List.hd (String.split_on_char ':' (cp_show_event e)) in
          Hashtbl.replace kinds k (1 + (try Hashtbl.find kinds k with Not_found -> 0));
          (match e with Crash _ -> incr crashes | _ -> ());
          let cs = [CProc; rand_crash !st; rand_crash !st; CPow ([], [], [])] in
          List.iter (fun c ->
              incr checks;
              if !bad = None && not (crash_safe_b !st c) then
                bad := Some (String.concat " " (List.rev_map cp_show_event !trace) ^ " ?? " ^ cp_show_event (Crash c))) cs;
          true
        end else false in
      let i = ref 0 in
      while !i < steps && !bad = None do
        incr i;
        let hi = int_of_nat !st.seg_hi and nx = int_of_nat !st.next in
        let seg () = nat_of_int (max 0 (hi - 1 - (if ri 4 = 0 then ri 3 else 0))) in
        let batch () = nat_of_int (if ri 3 = 0 then ri (nx + 1) else max 0 (nx - 1 - ri 2)) in
        let cov () =
          (* mostly a contiguous range of recent batches, sometimes partial last, sometimes arbitrary *)
          if ri 5 = 0 then List.init (ri 4) (fun _ -> (nat_of_int (ri (nx + 1)), Random.bool ()))
          else begin
            let lo = if ri 3 = 0 then ri (nx + 1) else 0 in
            let hi' = lo + ri (nx - lo + 1) in
            List.init (max 0 (hi' - lo)) (fun k -> (nat_of_int (lo + k), not (k = hi' - lo - 1 && ri 3 = 0)))
          end in
        let tabs_now () = List.filter (fun id -> !st.tabs (nat_of_int id) <> None) (List.init (!tid + 1) (fun x -> x)) in
        let e =
          match ri 22 with
          | 0 -> WalRotate (nat_of_int (if ri 5 = 0 then hi + ri 2 else max hi (int_of_nat !st.mlog)))
          | 1 -> WalPartial (seg ())
          | 2 | 3 | 4 | 5 -> WalAppend (seg (), nat_of_int nx)
          | 6 -> Relog (seg (), batch ())
          | 7 | 8 -> WalSync (seg ())
          | 9 | 10 -> Ack (batch (), Random.bool ())
          | 11 -> AckSync
          | 12 | 13 -> incr tid; TableWrite (nat_of_int !tid, cov ())
          | 14 | 15 -> TableSync (nat_of_int (max 1 (!tid - ri 2)))
          | 16 | 17 ->
            (* a flush-like or compaction-like install: current tables, minus some, plus some *)
            let cur = List.map int_of_nat !st.mtabs in
            let cur = List.filter (fun _ -> ri 6 <> 0) cur in
            let add = List.filter (fun id -> not (List.mem id cur) && ri 2 = 0) (tabs_now ()) in
            let l = int_of_nat !st.mlog in
            ManifestInstall (nat_of_int (if ri 3 = 0 then l else min (hi + 1) (l + 1 + ri 2)), List.map nat_of_int (cur @ add))
          | 18 -> WalUnlink (nat_of_int (ri (hi + 1)))
          | 19 -> TableUnlink (nat_of_int (ri (!tid + 1)))
          | 20 -> TornTailDrop (seg ())
          | _ -> if ri 3 = 0 then Crash (if Random.bool () then CProc else rand_crash !st) else WalAppend (seg (), nat_of_int nx) in
        let took = step e in
        (* after a crash the recovery procedure's own events must be accepted *)
        (match e with
         | Crash _ when took ->
           (* the repaired recovery with a random split of the replayed segments into pieces (cuts also in the
              middle of a batch) and fresh table ids; sometimes interrupted by a second crash *)
           let cuts_tab = Hashtbl.create 8 in
           let cuts (s : nat) : (nat * bool) list =
             let k = int_of_nat s in
             (match Hashtbl.find_opt cuts_tab k with
              | Some c -> c
              | None ->
                let c = List.init (ri 3) (fun _ -> (nat_of_int (ri 4), Random.bool ())) in
                Hashtbl.add cuts_tab k c; c) in
           let ids = List.init 12 (fun k -> nat_of_int (!tid + 1 + k)) in
           tid := !tid + 12;
           let evs = recovery_full !st cuts ids in
           let stop = if ri 3 = 0 then ri (List.length evs + 1) else max_int in
           List.iteri (fun k e' ->
               if k < stop && not (step e') && !bad = None then
                 bad := Some (String.concat " " (List.rev_map cp_show_event !trace) ^ " ?? recovery event rejected: " ^ cp_show_event e')) evs
         | _ -> ())
      done
    end
  done;
  match !bad with
  | Some t -> "counterexample: " ^ t
  | None ->
    Printf.sprintf "ok accepted=%d checks=%d crashes=%d kinds=%s" !accepted !checks !crashes
      (String.concat "," (List.sort compare (Hashtbl.fold (fun k v acc -> Printf.sprintf "%s=%d" k v :: acc) kinds [])))

let cp_cmd (toks : string list) : string =
  match toks with
  | "check" :: evs ->
    (match proto_err (List.map cp_event (List.filter (fun x -> x <> "") evs)) with
     | None -> "ok"
     | Some (i, c) -> Printf.sprintf "rej:%d:%d" (int_of_nat i) (int_of_nat c))
  | "predict" :: rest ->
    (* cp predict <ev> ... ? <cut>/<crash> ...   -> verdict of the trace, then one prediction per query *)
    let rec split acc = function [] -> (List.rev acc, []) | "?" :: r -> (List.rev acc, r) | x :: r -> split (x :: acc) r in
    let evs, qs = split [] (List.filter (fun x -> x <> "") rest) in
    let evs = List.map cp_event evs in
    let verdict = match proto_err evs with None -> "ok" | Some (i, c) -> Printf.sprintf "rej:%d:%d" (int_of_nat i) (int_of_nat c) in
    (* states of all prefixes, computed once *)
    let n = List.length evs in
    let states = Array.make (n + 1) st0 in
    List.iteri (fun i e -> states.(i + 1) <- papply states.(i) e) evs;
    let answers = List.map (fun q ->
        match String.split_on_char '/' q with
        | [cut; c] ->
          let st = states.(min n (int_of_string cut)) in
          let st' = do_crash st (cp_crash c) in
          Printf.sprintf "%s;next=%d;dead=%s" (cp_show_rec (recover st')) (int_of_nat st.next)
            (String.concat "," (List.map (fun b -> string_of_int (int_of_nat b)) st'.dead))
        | _ -> "bad-query") qs in
    String.concat " | " (verdict :: answers)
  | ["fuzz"; seed; steps; walks] -> cp_fuzz (int_of_string seed) (int_of_string steps) (int_of_string walks)
  | _ -> "bad-command"

(* ---------- value log (C11): codecs / value log / mini flush (`vp`), state-machine conformance (`vl`) ---------- *)
let vv_show_val (v : n list) : string =
  if List.length v > 16 then Printf.sprintf "#%d/%s" (List.length v) (fnv v) else hex_of_bytes v
let vv_ptr (a : string list) : vpointer =
  match List.map big_of_string a with
  | [ver; f; o; k; v; c] -> { vpt_version = ver; vpt_file = f; vpt_offset = o; vpt_ksize = k; vpt_vsize = v; vpt_crc = c }
  | _ -> failwith "bad pointer"
let vv_show_ptr (p : vpointer) : string =
  String.concat "." (List.map dec_of_n [p.vpt_version; p.vpt_file; p.vpt_offset; p.vpt_ksize; p.vpt_vsize; p.vpt_crc])
let vv_show_stored (sizes_only : bool) (s : n list) : string =
  if s = [] then "t" else
    match venc_classify s with
    | EPtr p -> "p:" ^ vv_show_ptr p
    | EInline v -> if sizes_only then Printf.sprintf "i:%d" (List.length v) else "i:" ^ vv_show_val v
    | EBad -> "x:" ^ hex_of_bytes s
let vv_files (st : vstate) : string =
  String.concat "," (List.map (fun f -> Printf.sprintf "%s:%d" (dec_of_n f.vf_id) (List.length f.vf_bytes))
                       (List.sort (fun a b -> compare (int_of_n a.vf_id) (int_of_n b.vf_id)) st.vs_files))
let vv_entries (sizes_only : bool) (es : tentry list) : string =
  String.concat "," (List.map (fun e -> hex_of_bytes e.te_key ^ "=" ^ vv_show_stored sizes_only e.te_enc) es)
let vp_cfg = ref { cf_threshold = N0; cf_max = N0; cf_level = N0; cf_index = false }
let vp_state = ref vs0
(* memtable arena accounting (Lsm/Arena.v): entries are klen:vlen,...; the heights are the model's to choose *)
let ar_entries (h : n) (t : string) : ((n * n) * n) list =
  if t = "-" then [] else
  List.map (fun x -> match String.split_on_char ':' x with
                     | [k; v] -> ((h, big_of_string k), big_of_string v)
                     | _ -> failwith "bad entry") (String.split_on_char ',' t)
let ar_cmd (args : string list) : string =
  let one = n_of_int 1 in
  let show = function Some x -> dec_of_n x | None -> "full" in
  match args with
  | ["consts"] -> Printf.sprintf "empty:%s" (dec_of_n ar_empty_n)
  | ["bound"; t] -> Printf.sprintf "bound:%s" (dec_of_n (ar_bound aRENA_BOUND_HAS_UNUSED_TOWER (ar_entries one t)))
  | ["add"; cap; _; t] ->
    let c = big_of_string cap in
    let b = ar_bound aRENA_BOUND_HAS_UNUSED_TOWER (ar_entries one t) in
    let admitted = N.leb b c in
    Printf.sprintf "admit:%d lo:%s hi:%s" (if admitted then 1 else 0)
      (show (ar_mem_add c ar_empty_n (ar_entries one t))) (show (ar_mem_add c ar_empty_n (ar_entries aRENA_MAX_HEIGHT t)))
  | ["at"; cap; n; t] ->
    let c = big_of_string cap in
    let n0 = big_of_string n in
    Printf.sprintf "lo:%s hi:%s mu:%s"
      (show (ar_mem_add c n0 (ar_entries one t))) (show (ar_mem_add c n0 (ar_entries aRENA_MAX_HEIGHT t))) (dec_of_n ar_max_unused)
  | _ -> "bad-command"

let vp_show_state () =
  Printf.sprintf "files=%s active=%s next=%s" (vv_files !vp_state) (dec_of_n !vp_state.vs_active) (dec_of_n !vp_state.vs_next)
let vp_cmd (args : string list) : string =
  match args with
  | ["consts"] ->
    Printf.sprintf "consts:%s,%s,%s,%s,%s,%d" (dec_of_n vP_SIZE) (dec_of_n vL_BIT_VALUE_POINTER) (dec_of_n vL_VERSION) (dec_of_n vP_VERSION)
      (dec_of_n vLOG_FORMAT_VERSION) (List.length (vheader_bytes (n_of_int 1) (n_of_int 1) (n_of_int 1)))
  | "penc" :: rest -> hex_of_bytes (vpointer_encode (vv_ptr rest))
  | ["pdec"; h] -> (match vpointer_decode (bytes_of_hex h) with Some p -> "ptr:" ^ vv_show_ptr p | None -> "err")
  | ["lenc"; m; v; value] ->
    hex_of_bytes (vloc_encode { vlc_meta = big_of_string m; vlc_version = big_of_string v; vlc_value = bytes_of_tok value })
  | ["ldec"; h] ->
    (match vloc_decode (bytes_of_hex h) with
     | Some l -> Printf.sprintf "loc:%s,%s,%d,%s" (dec_of_n l.vlc_meta) (dec_of_n l.vlc_version) (if vloc_is_pointer l then 1 else 0) (vv_show_val l.vlc_value)
     | None -> "err")
  | "lptr" :: rest -> hex_of_bytes (vloc_encode (vloc_with_pointer (vv_ptr rest)))
  | ["linl"; value] -> let e = vloc_encode (vloc_inline (bytes_of_tok value)) in Printf.sprintf "#%d/%s" (List.length e) (fnv e)
  | ["ptrof"; h] -> (match vloc_pointer_of (bytes_of_hex h) with Some p -> "ptr:" ^ vv_show_ptr p | None -> "none")
  | ["lognew"; max; full] ->
    vp_cfg := { cf_threshold = N0; cf_max = big_of_string max; cf_level = (if full = "1" then n_of_int 1 else N0); cf_index = false };
    vp_state := vs0; "ok"
  | ["append"; k; v] ->
    (match vlogi_vs_append !vp_cfg N0 !vp_state (bytes_of_tok k) (bytes_of_tok v) with
     | Some (st, p) -> vp_state := st; "ptr:" ^ vv_show_ptr p
     | None -> "err")
  | "get" :: rest ->
    let (r, c) = vlogi_vs_get !vp_cfg !vp_state (vv_ptr rest) in
    vp_state := { !vp_state with vs_cache = c };
    (match r with Some v -> "val:" ^ vv_show_val v | None -> "err")
  (* VLog::get under an explicit block-cache rule (1 = a hit is served only when checksum and length equal the pointer's,
     0 = any hit is served: the code before the repair of F41); the state is not changed *)
  | "getrule" :: rule :: rest ->
    let (r, _) = vlogi_vs_get_rule !vp_cfg (rule = "1") !vp_state (vv_ptr rest) in
    (match r with Some v -> "val:" ^ vv_show_val v | None -> "err")
  | ["cacherule"] -> if vLOG_CACHE_HIT_CHECKED then "checked" else "unchecked"
  (* damage: the log is closed, file `id` keeps its first `off` bytes, the directory is opened again.  What the open does
     with the cut file is Lsm/VlogOpen.v (a file shorter than its header is emptied / refused), the writer completes the
     file of the highest id; then the machine's reopen (writer ids from the directory, empty cache) *)
  | ["cut"; id; off] ->
    let idn = big_of_string id and off = int_of_string off in
    let st = !vp_state in
    (match find_file idn st.vs_files with
     | None -> "none"
     | Some f when off > List.length f.vf_bytes -> "bad-cut"
     | Some _ ->
       let fs = cut_file idn (nat_of_int off) st.vs_files in
       let highest = List.fold_left (fun m g -> max m (int_of_n g.vf_id)) 0 fs in
       let opened = List.map (fun g -> (g, vopen_file vLOG_OPEN_EMPTIES_TORN_HEADER g.vf_id g.vf_bytes)) fs in
       if List.exists (fun (_, o) -> o = None) opened then "refuse" else begin
         let fs' = List.map (fun (g, o) ->
             let b = (match o with Some b -> b | None -> []) in
             let b = if int_of_n g.vf_id = highest then vwriter_open g.vf_id N0 !vp_cfg.cf_max b else b in
             { g with vf_bytes = b }) opened in
         (match vlogi_ds_step !vp_cfg st (DFiles (fs', st.vs_active, st.vs_next)) with
          | None -> "err"
          | Some st1 ->
            (match vlogi_ds_step !vp_cfg st1 (DOp (VReopen false)) with
             | Some st2 -> vp_state := st2; vp_show_state ()
             | None -> "err"))
       end)
  | ["state"] -> vp_show_state ()
  (* the directory holds the one file `id` with the given bytes: what the open does with it, then the writer *)
  | ["hopen"; id; h] ->
    let idn = big_of_string id in
    (match vopen_file vLOG_OPEN_EMPTIES_TORN_HEADER idn (if h = "-" then [] else bytes_of_hex h) with
     | None -> "refuse"
     | Some b ->
       let f = vwriter_open idn N0 (n_of_int 4096) b in
       let rec take k l = if k = 0 then [] else (match l with [] -> [] | x :: r -> x :: take (k - 1) r) in
       Printf.sprintf "ok:%d:%s" (List.length f) (hex_of_bytes (take 10 f)))
  | ["file"; id] ->
    (match find_file (big_of_string id) !vp_state.vs_files with
     | Some f -> Printf.sprintf "#%d/%s" (List.length f.vf_bytes) (fnv f.vf_bytes)
     | None -> "none")
  | ["cleanup"; m] ->
    let st = vs_cleanup (set_tables !vp_state [{ tb_id = N0; tb_entries = []; tb_oldest = big_of_string m }]) in
    vp_state := set_tables st []; vp_show_state ()
  | ["reopen"] ->
    (match vlogi_step !vp_cfg !vp_state (VReopen false) with Some st -> vp_state := st; vp_show_state () | None -> "err")
  | ["flush"; th; max; tid; ents] ->
    let cfg = { cf_threshold = big_of_string th; cf_max = big_of_string max; cf_level = n_of_int 1; cf_index = false } in
    let mem = if ents = "-" then [] else
        List.map (fun t ->
            match String.split_on_char '/' t with
            | [k; seq; "s"; v] -> (ik_encode { ik_uk = bytes_of_hex k; ik_seq = big_of_string seq; ik_kind = iK_KIND_SET; ik_ts = N0 }, Some (bytes_of_tok v))
            | [k; seq; "d"; _] -> (ik_encode { ik_uk = bytes_of_hex k; ik_seq = big_of_string seq; ik_kind = iK_KIND_DELETE; ik_ts = N0 }, None)
            | _ -> failwith "bad flush entry") (String.split_on_char ',' ents) in
    let tid = big_of_string tid in
    (match vlogi_step cfg vs0 (VFlush (N0, tid, mem)) with
     | None -> "err"
     | Some st ->
       (match find_table tid st.vs_tables with
        | None -> "err:no-table"
        | Some t -> Printf.sprintf "flush:%s;files=%s;active=%s;next=%s;entries=%s" (dec_of_n t.tb_oldest) (vv_files st)
                      (dec_of_n st.vs_active) (dec_of_n st.vs_next) (vv_entries false t.tb_entries)))
  | ["sep"; th; raw] ->
    (match maybe_separate true (big_of_string th) (bytes_of_hex raw) with
     | VSepPass -> "pass"
     | VSepAppend v -> Printf.sprintf "append:%d" (List.length v)
     | VSepErr -> "err")
  | _ -> "bad-command"

let vl_cfg = ref { cf_threshold = N0; cf_max = N0; cf_level = N0; cf_index = false }
let vl_state = ref vs0
let vl_zeros (n : int) : n list = List.init n (fun _ -> N0)
let vl_show () : string =
  let st = !vl_state in
  let tables = List.sort (fun a b -> compare (int_of_n a.tb_id) (int_of_n b.tb_id)) st.vs_tables in
  Printf.sprintf "vlog:files=%s;active=%s;next=%s;min=%s;tables=%s;index=%s" (vv_files st) (dec_of_n st.vs_active) (dec_of_n st.vs_next)
    (dec_of_n (min_oldest st.vs_tables))
    (String.concat "|" (List.map (fun t -> Printf.sprintf "%s/%s[%s]" (dec_of_n t.tb_id) (dec_of_n t.tb_oldest) (vv_entries true t.tb_entries)) tables))
    (if !vl_cfg.cf_index then "[" ^ vv_entries true st.vs_index ^ "]" else "off")
let vl_split_entry (t : string) : string * string =
  match String.index_opt t '=' with
  | Some i -> (String.sub t 0 i, String.sub t (i + 1) (String.length t - i - 1))
  | None -> failwith "bad entry"
let vl_cmd (args : string list) : string =
  match args with
  | ["new"; th; max; level; idx] ->
    vl_cfg := { cf_threshold = big_of_string th; cf_max = big_of_string max; cf_level = big_of_string level; cf_index = (idx = "1") };
    vl_state := vs0; "ok"
  | ["flush"; tid; ents] ->
    let mem = if ents = "-" then [] else
        List.map (fun t ->
            let (k, v) = vl_split_entry t in
            match String.split_on_char ':' v with
            | ["s"; len] -> (bytes_of_hex k, Some (vl_zeros (int_of_string len)))
            | ["t"] -> (bytes_of_hex k, None)
            | _ -> failwith "bad flush entry") (String.split_on_char ',' ents) in
    (match vlogz_step !vl_cfg !vl_state (VFlush (N0, big_of_string tid, mem)) with
     | Some st -> vl_state := st; vl_show ()
     | None -> "refused")
  | ["compact"; ins; tid; outs] ->
    let ins = if ins = "-" then [] else List.map big_of_string (String.split_on_char ',' ins) in
    let out = if outs = "-" then [] else
        List.map (fun t ->
            let (k, v) = vl_split_entry t in
            match String.split_on_char ':' v with
            | ["p"; p] -> (bytes_of_hex k, vloc_encode (vloc_with_pointer (vv_ptr (String.split_on_char '.' p))))
            | ["i"; len] -> (bytes_of_hex k, vloc_encode (vloc_inline (vl_zeros (int_of_string len))))
            | ["t"] -> (bytes_of_hex k, [])
            | _ -> failwith "bad compact entry") (String.split_on_char ',' outs) in
    (match vlogz_step !vl_cfg !vl_state (VCompact (ins, big_of_string tid, out)) with
     | Some st -> vl_state := st; vl_show ()
     | None -> "refused")
  | ["reopen"] ->
    (match vlogz_step !vl_cfg !vl_state (VReopen true) with Some st -> vl_state := st; vl_show () | None -> "refused")
  | ["readers"; k] ->
    (* the set of registered readers at the next physical command: every reader present is closed, k readers are opened
       (each takes the current table set) *)
    let step st o = match vlogz_step !vl_cfg st o with Some s -> s | None -> failwith "reader op refused" in
    let st = List.fold_left (fun st (rid, _) -> step st (VReaderClose rid)) !vl_state !vl_state.vs_readers in
    let st = List.fold_left (fun st i -> step st (VReaderOpen (n_of_int i))) st (List.init (int_of_string k) (fun i -> i + 1)) in
    vl_state := st; Printf.sprintf "readers:%d" (List.length st.vs_readers)
  | ["state"] -> vl_show ()
  | _ -> "bad-command"

(* ---------- LV: the level structure (Lsm/Levels.v): invariant, point reads and steps on dumped states ---------- *)
let lv_kind_of = function 0 -> CDel | 1 -> CSoft | 6 -> CRep | _ -> CSet
let lv_kind_no = function CDel -> 0 | CSoft -> 1 | CSet -> 2 | CRep -> 6
let lv_ver (tok : string) : Lv.version =
  match String.split_on_char '.' tok with
  | [k; seq; kind; ts] ->
    { Lv.xkey = bytes_of_hex k; xver = { vseq = big_of_string seq; vkind = lv_kind_of (int_of_string kind); vts = big_of_string ts }; xval = [] }
  | _ -> failwith "bad version"
let lv_vers (s : string) : Lv.version list = if s = "-" then [] else List.map lv_ver (String.split_on_char ',' s)
let lv_table (tok : string) : Lv.table =
  match String.split_on_char ':' tok with
  | [id; lo; hi; vs] -> { Lv.tid = big_of_string id; tlo = bytes_of_hex lo; thi = bytes_of_hex hi; tvers = lv_vers vs }
  | _ -> failwith "bad table"
let lv_level (s : string) : Lv.table list = if s = "-" then [] else List.map lv_table (String.split_on_char '+' s)
let lv_nums (s : string) : n list = if s = "-" then [] else List.map big_of_string (String.split_on_char ',' s)
let lv_show_ver (x : Lv.version) : string =
  Printf.sprintf "%s.%s.%d.%s" (hex_of_bytes x.Lv.xkey) (dec_of_n x.Lv.xver.vseq) (lv_kind_no x.Lv.xver.vkind) (dec_of_n x.Lv.xver.vts)
let lv_show_vers (l : Lv.version list) : string = if l = [] then "-" else String.concat "," (List.map lv_show_ver l)
let lv_dash s = if s = "" then "-" else s
let lv_show_state (st : Lv.store) : string =
  Printf.sprintf "lv:act=%s;imm=%s;lev=%s" (lv_show_vers st.Lv.active)
    (* the order in which get searches them: newest first *)
    (lv_dash (String.concat "+" (List.map (fun m -> "0:" ^ lv_show_vers m) (List.rev st.Lv.imms))))
    (String.concat "/" (List.map (fun l -> lv_dash (String.concat "+" (List.map (fun t ->
         Printf.sprintf "%s:%s:%s:%s" (dec_of_n t.Lv.tid) (hex_of_bytes t.Lv.tlo) (hex_of_bytes t.Lv.thi) (lv_show_vers t.Lv.tvers)) l))) st.Lv.levels))
let lv_fields (line : string) : (string * string) list =
  let body = if String.length line > 3 && String.sub line 0 3 = "lv:" then String.sub line 3 (String.length line - 3) else failwith "not a level dump" in
  List.map (fun kv -> match String.index_opt kv '=' with
      | Some i -> (String.sub kv 0 i, String.sub kv (i + 1) (String.length kv - i - 1))
      | None -> failwith "bad field") (String.split_on_char ';' body)
let lv_parse (line : string) : Lv.store =
  let f = lv_fields line in
  let imm = List.assoc "imm" f in
  let imms_search = if imm = "-" then [] else List.map (fun tok ->
      match String.index_opt tok ':' with
      | Some i -> lv_vers (String.sub tok (i + 1) (String.length tok - i - 1))
      | None -> failwith "bad immutable") (String.split_on_char '+' imm) in
  { Lv.active = lv_vers (List.assoc "act" f);
    imms = List.rev imms_search;   (* the Vec: oldest first *)
    levels = List.map lv_level (String.split_on_char '/' (List.assoc "lev" f)) }
let lv_empty : Lv.store = { Lv.active = []; imms = []; levels = [] }
let lv_cur = ref lv_empty
let lv_model = ref lv_empty
let lv_b b = if b then 1 else 0
let lv_cmd (args : string list) : string =
  match args with
  | ["rules"] ->
    Printf.sprintf "rules_ok=%d select_ok=%d anchors=%d l0_rule=%d" (lv_b (Lv.rules_okb Lv.current)) (lv_b (Lv.srules_okb Lv.current_sel))
      (lv_b lEVELS_ANCHORS_OK) (int_of_n Lv.current.Lv.r_l0)
  | ["load"; line] ->
    let st = lv_parse line in
    lv_cur := st; lv_model := st;
    let log = Lv.mem_log st and tabs = Lv.tab_versions st in
    let why = List.filter_map (fun (name, ok) -> if ok then None else Some name)
        [ ("memtables-newest-first", Lv.desc_log_b log);
          ("memtables-above-tables", Lv.above_b log tabs);
          ("levels-newest-first", Lv.lv_ordered_b st.Lv.levels);
          ("one-version-per-key-and-seq", List.for_all (fun l -> Lv.uniq_b (Lv.lvers l)) st.Lv.levels);
          ("table-range-covers-versions", List.for_all (List.for_all Lv.table_wf_b) st.Lv.levels);
          ("deeper-level-key-disjoint", List.for_all Lv.key_disjoint_b (match st.Lv.levels with [] -> [] | _ :: r -> r));
          ("positive-seq", List.for_all (fun x -> x.Lv.xver.vseq <> N0) (Lv.all_versions st));
          ("deeper-level-ranges-sorted", List.for_all Lv.ranges_sorted_b (match st.Lv.levels with [] -> [] | _ :: r -> r)) ] in
    let ids = List.concat_map (List.map (fun t -> t.Lv.tid)) st.Lv.levels in
    Printf.sprintf "ok inv=%d age=%d nodup=%d why=%s" (lv_b (Lv.inv_b st)) (lv_b (Lv.age_ordered_b st))
      (lv_b (List.length (List.sort_uniq compare ids) = List.length ids)) (lv_dash (String.concat "," why))
  | ["reads"; hs] ->
    let st = !lv_cur in
    let keys = List.sort_uniq compare (List.map (fun x -> hex_of_bytes x.Lv.xkey) (Lv.all_versions st)) in
    let show f = lv_dash (String.concat "," (List.concat_map (fun h -> List.map (fun k ->
        Printf.sprintf "%s.%s.%s" k (dec_of_n h) (match f (bytes_of_hex k) h with Some (_, seq) -> dec_of_n seq | None -> "n")) keys) (lv_nums hs))) in
    Printf.sprintf "reads:%s;views:%s" (show (fun k h -> Lv.get Lv.current st k h)) (show (fun k h -> Lv.view_of_all st h k))
  | ["apply"; "rotate"] -> lv_model := Lv.step Lv.current !lv_model Lv.ORotate; "ok"
  | ["apply"; "flush"; id] -> lv_model := Lv.step Lv.current !lv_model (Lv.OFlush (big_of_string id)); "ok"
  | ["apply"; "compact"; src; seed; ids; newid; ver; ret; now; snaps] ->
    let st = !lv_model in
    let src = nat_of_int (int_of_string src) and ids = lv_nums ids in
    let c = { Lv.c_versioning = (ver = "1"); c_retention = big_of_string ret; c_now = big_of_string now } in
    let chosen = Lv.select_tables Lv.current_sel src (big_of_string seed) st.Lv.levels in
    lv_model := Lv.step Lv.current st (Lv.OCompact (src, ids, big_of_string newid, c, lv_nums snaps));
    Printf.sprintf "ok selok=%d select=%s" (lv_b (Lv.sel_ok_b st src ids))
      (lv_dash (String.concat "," (List.map dec_of_n (List.sort compare chosen))))
  | ["show"] -> lv_show_state !lv_model
  | _ -> "bad-command"

(* ---------- CR: checkpoint / restore machine (Lsm/Checkpoint.v with the restore step list GENERATED from
   Tree::restore_from_checkpoint); keys and values are interned: the machine only compares them ---------- *)
let cr_state = ref cki_init
let cr_bsz = ref (nat_of_int 2)
let cr_keys : (string, int) Hashtbl.t = Hashtbl.create 64
let cr_vals : (string, int) Hashtbl.t = Hashtbl.create 64
let cr_val_names : (int, string) Hashtbl.t = Hashtbl.create 64
let cr_key (hex : string) : n =
  match Hashtbl.find_opt cr_keys hex with
  | Some i -> n_of_int i
  | None -> let i = Hashtbl.length cr_keys + 1 in Hashtbl.replace cr_keys hex i; n_of_int i
let cr_show_tok (tok : string) : string =
  let v = bytes_of_tok tok in
  if List.length v > 16 then Printf.sprintf "#%d/%s" (List.length v) (fnv v) else hex_of_bytes v
let cr_val (shown : string) : n =
  match Hashtbl.find_opt cr_vals shown with
  | Some i -> n_of_int i
  | None -> let i = Hashtbl.length cr_vals + 1 in Hashtbl.replace cr_vals shown i; Hashtbl.replace cr_val_names i shown; n_of_int i
let cr_val_name (v : n) : string = match Hashtbl.find_opt cr_val_names (int_of_n v) with Some s -> s | None -> "?"
let cr_do (o : kop) : kout = let (s, r) = cki_step !cr_bsz !cr_state o in cr_state := s; r
let cr_show_out = function
  | XDone -> "ok" | XBad -> "bad" | XSeq q -> "seq:" ^ dec_of_n q | XConflict -> "conflict" | XRetry -> "retry"
  | XTable t -> "table:" ^ dec_of_n t | XNone -> "none"
  | XVal None -> "val:none" | XVal (Some v) -> "val:" ^ cr_val_name v
let cr_sorted_keys () : (string * int) list =
  List.sort compare (Hashtbl.fold (fun k i acc -> (k, i) :: acc) cr_keys [])
let cr_scan (s : kstate) (snap : n) : string =
  "list:" ^ String.concat "," (List.filter_map (fun (hex, i) ->
      match kread s snap (n_of_int i) with Some v -> Some (hex ^ "=" ^ cr_val_name v) | None -> None) (cr_sorted_keys ()))
let cr_key_name (k : n) : string =
  let i = int_of_n k in
  match Hashtbl.fold (fun hex j acc -> if j = i then Some hex else acc) cr_keys None with Some h -> h | None -> "?"
let cr_flush_loop () : string list =
  let rec go acc = match cr_do OpFlushOldest with XTable t -> go (dec_of_n t :: acc) | _ -> List.rev acc in go []
let cr_txs : (string, n) Hashtbl.t = Hashtbl.create 16     (* transaction id -> its snapshot (visible seq at begin) *)
let cr_batch (batch : string) : (n * n option) list =
  List.map (fun e ->
      match String.index_opt e '=' with
      | Some i ->
        let k = String.sub e 0 i and v = String.sub e (i + 1) (String.length e - i - 1) in
        (cr_key k, if v = "!" then None else Some (cr_val (cr_show_tok v)))
      | None -> failwith "bad batch entry") (String.split_on_char ',' batch)
let cr_cmd (args : string list) : string =
  match args with
  | ["new"; bsz] ->
    cr_state := cki_init; cr_bsz := nat_of_int (int_of_string bsz);
    Hashtbl.reset cr_keys; Hashtbl.reset cr_vals; Hashtbl.reset cr_val_names; Hashtbl.reset cr_txs; "ok"
  | ["begin"; id] -> Hashtbl.replace cr_txs id !cr_state.s_sq.q_visible; "ok"
  | ["end"; id] -> Hashtbl.remove cr_txs id; "ok"
  | ["commitx"; id; batch] ->
    (match Hashtbl.find_opt cr_txs id with
     | None -> "notx"
     | Some start -> cr_show_out (cr_do (OpCommit (start, cr_batch batch))))
  | ["readx"; id; k] ->
    (match Hashtbl.find_opt cr_txs id with
     | None -> "notx"
     | Some snap -> cr_show_out (cr_do (OpRead (snap, cr_key k))))
  | ["scanx"; id] ->
    (match Hashtbl.find_opt cr_txs id with None -> "notx" | Some snap -> cr_scan !cr_state snap)
  | ["params"] -> if ckpt_params_ok then "ok" else "params-mismatch"
  | ["vis"] -> "vis:" ^ dec_of_n !cr_state.s_sq.q_visible
  | ["commit"; start; batch] -> cr_show_out (cr_do (OpCommit (big_of_string start, cr_batch batch)))
  | ["rotate"] -> cr_show_out (cr_do OpRotate)
  | ["flush1"] -> cr_show_out (cr_do OpFlushOldest)
  | ["flush"] -> ignore (cr_do OpRotate); "tables:" ^ String.concat "," (cr_flush_loop ())
  | ["compact"; ins; keep] ->
    let ins = if ins = "-" then [] else List.map big_of_string (String.split_on_char ',' ins) in
    let keep = if keep = "-" then [] else List.map (fun e ->
        match String.split_on_char '@' e with
        | [k; q] -> (cr_key k, big_of_string q) | _ -> failwith "bad keep entry") (String.split_on_char ',' keep) in
    cr_show_out (cr_do (OpCompact (ins, keep)))
  | ["fillall"] -> cr_state := cki_fill_all !cr_bsz !cr_state; "ok"
  | ["read"; snap; k] -> cr_show_out (cr_do (OpRead (big_of_string snap, cr_key k)))
  | ["scan"; snap] -> cr_scan !cr_state (big_of_string snap)
  | ["reopen"; keep] -> Hashtbl.reset cr_txs; cr_show_out (cr_do (OpReopen (keep = "1")))
  | ["checkpoint"; c] ->
    (* create_checkpoint = flush everything, then copy: the flushes are made visible step by step (their table ids) *)
    ignore (cr_do OpRotate);
    let ids = cr_flush_loop () in
    ignore (cr_do (OpCheckpoint (big_of_string c))); "tables:" ^ String.concat "," ids
  | ["restore"; c] -> Hashtbl.reset cr_txs; cr_show_out (cr_do (OpRestore (big_of_string c)))
  | ["ckptscan"; c] ->
    (match aget (big_of_string c) !cr_state.s_ckpts with
     | None -> "bad"
     | Some ck -> let o = cki_open_ckpt !cr_bsz ck !cr_state.s_ckpts in cr_scan o o.s_sq.q_visible)
  | ["tables"] ->
    let s = !cr_state in
    let show_ver (x : cver) = Printf.sprintf "%s@%s=%s" (cr_key_name x.cv_key) (dec_of_n x.cv_seq)
        (match x.cv_val with None -> "!" | Some v -> cr_val_name v) in
    let tabs = List.sort (fun (a, _) (b, _) -> compare (int_of_n a) (int_of_n b)) s.s_mem.m_man.mf_tables in
    Printf.sprintf "tabs:vis=%s;next=%s;tables=%s" (dec_of_n s.s_sq.q_visible) (dec_of_n s.s_mem.m_man.mf_next)
      (String.concat "|" (List.map (fun h ->
           Printf.sprintf "%s[%s]" (dec_of_n (fst h))
             (String.concat "," (List.sort compare (List.map show_ver (tables_vers [] s.s_disk.d_tables [h]))))) tabs))
  | _ -> "bad-command"

let () =
  try
    while true do
      let line = input_line stdin in
      if line <> "" && line.[0] <> '#' then begin
        let out =
          try
            match String.split_on_char ' ' line with
            | "wal" :: rest -> wal_cmd rest
            | "wf" :: rest -> wf_cmd rest
            | "e2" :: rest -> e2_cmd rest
            | "ck" :: rest -> ck_cmd rest
            | "tbl" :: rest -> tbl_cmd rest
            | "bpt" :: rest -> bpt_cmd rest
            | "pg" :: rest -> pg_cmd rest
            | "orc" :: rest -> orc_cmd rest
            | "cs" :: rest -> cs_cmd rest
            | "ri" :: rest -> ri_cmd rest
            | "lk" :: rest -> lk_cmd rest
            | "e3" :: rest -> e3_cmd rest
            | "rg" :: rest -> rg_cmd rest
            | "cp" :: rest -> cp_cmd rest
            | "vp" :: rest -> vp_cmd rest
            | "ar" :: rest -> ar_cmd rest
            | "vl" :: rest -> vl_cmd rest
            | "lv" :: rest -> lv_cmd rest
            | "cr" :: rest -> cr_cmd rest
            | _ -> "bad-command"
          with
          | Not_found -> "error:not-found"
          | Failure m -> "error:" ^ m
          | Stack_overflow -> "error:stack-overflow" in
        print_string out; print_newline ()
      end
    done
  with End_of_file -> ()
