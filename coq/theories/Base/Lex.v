(* Base/Lex.v — byte strings (list N), their lexicographic order, and sorted association lists. *)
From Coq Require Import List NArith Bool.
Import ListNotations.

Definition bytes := list N.

Fixpoint bytes_eqb (a b : bytes) : bool :=
  match a, b with
  | [], [] => true
  | x :: r, y :: q => N.eqb x y && bytes_eqb r q
  | _, _ => false
  end.

(* Ordering of Vec<u8> / &[u8] in Rust: lexicographic, a proper prefix is smaller *)
Fixpoint lex_cmp (a b : bytes) : comparison :=
  match a, b with
  | [], [] => Eq
  | [], _ :: _ => Lt
  | _ :: _, [] => Gt
  | x :: r, y :: q => match N.compare x y with Eq => lex_cmp r q | c => c end
  end.
Definition lex_ltb (a b : bytes) : bool := match lex_cmp a b with Lt => true | _ => false end.
Definition lex_leb (a b : bytes) : bool := match lex_cmp a b with Gt => false | _ => true end.

(* sorted association list keyed by byte strings *)
Section AMap.
Variable V : Type.
Definition amap := list (bytes * V).
Fixpoint amap_get (k : bytes) (m : amap) : option V :=
  match m with
  | [] => None
  | (k', v) :: r => match lex_cmp k k' with Eq => Some v | Lt => None | Gt => amap_get k r end
  end.
Fixpoint amap_set (k : bytes) (v : V) (m : amap) : amap :=
  match m with
  | [] => [(k, v)]
  | (k', v') :: r => match lex_cmp k k' with
                     | Eq => (k, v) :: r
                     | Lt => (k, v) :: m
                     | Gt => (k', v') :: amap_set k v r
                     end
  end.
Fixpoint amap_del (k : bytes) (m : amap) : amap :=
  match m with
  | [] => []
  | (k', v') :: r => match lex_cmp k k' with
                     | Eq => r
                     | Lt => m
                     | Gt => (k', v') :: amap_del k r
                     end
  end.
End AMap.
Arguments amap_get {V}. Arguments amap_set {V}. Arguments amap_del {V}.
