(* Base/Crc32.v — CRC-32 (IEEE 802.3, reflected, poly 0xEDB88320) as crc32fast computes it.
   Used only to run the models against the implementation; theorems take the checksum
   as a parameter. *)
From Coq Require Import List NArith.
Import ListNotations.

Definition crc_bit (c : N) : N :=
  if N.odd c then N.lxor (N.shiftr c 1) 3988292384 else N.shiftr c 1.
Definition crc_byte (c b : N) : N :=
  crc_bit (crc_bit (crc_bit (crc_bit (crc_bit (crc_bit (crc_bit (crc_bit (N.lxor c b)))))))).
Definition crc32_update (c : N) (l : list N) : N := fold_left crc_byte l c.
Definition crc32 (l : list N) : N := N.lxor (crc32_update 4294967295 l) 4294967295.

Definition be32 (c : N) : list N :=
  [N.shiftr c 24 mod 256; N.shiftr c 16 mod 256; N.shiftr c 8 mod 256; c mod 256]%N.
Definition le32 (c : N) : list N :=
  [c mod 256; N.shiftr c 8 mod 256; N.shiftr c 16 mod 256; N.shiftr c 24 mod 256]%N.

(* the WAL checksum: CRC32(type byte || data), big endian *)
Definition wal_crc (ty : N) (d : list N) : list N := be32 (crc32 (ty :: d)).

(* "123456789" -> 0xCBF43926 *)
Example crc32_check : crc32 [49;50;51;52;53;54;55;56;57]%N = 3421780262%N.
Proof. vm_compute. reflexivity. Qed.
