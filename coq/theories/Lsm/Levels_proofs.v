(* Lsm/Levels_proofs.v — proofs of the statements in LevelsSpec.v. *)
From Coq Require Import List NArith Bool Arith Lia ZifyBool Sorted.
From SKV Require Import Base.Lex Lsm.CompactKey Lsm.CompactKeySpec Lsm.CompactKey_proofs Lsm.LevelsParams Lsm.Levels Lsm.LevelsSpec.
Import ListNotations.
Local Open Scope N_scope.
Arguments N.add : simpl never. Arguments N.sub : simpl never. Arguments N.eqb : simpl never.
Arguments N.ltb : simpl never. Arguments N.leb : simpl never. Arguments N.max : simpl never.

(* ====================================================================================== *)
(* 0. keys                                                                                *)
(* ====================================================================================== *)
Lemma beq_eq : forall a b, bytes_eqb a b = true <-> a = b.
Proof.
  induction a as [|x r IH]; destruct b as [|y q]; cbn [bytes_eqb]; split; intros H; try discriminate; auto.
  - apply andb_prop in H. destruct H as [H1 H2]. apply N.eqb_eq in H1. apply IH in H2. subst. reflexivity.
  - inversion H; subst. rewrite N.eqb_refl. cbn [andb]. apply IH. reflexivity.
Qed.
Lemma beq_refl : forall a, bytes_eqb a a = true.
Proof. intros a. apply beq_eq. reflexivity. Qed.
Lemma beq_neq : forall a b, bytes_eqb a b = false <-> a <> b.
Proof.
  intros a b. split; intros H.
  - intros E. apply beq_eq in E. congruence.
  - destruct (bytes_eqb a b) eqn:E; [apply beq_eq in E; contradiction | reflexivity].
Qed.
Lemma beq_sym : forall a b, bytes_eqb a b = bytes_eqb b a.
Proof.
  intros a b. destruct (bytes_eqb a b) eqn:E.
  - apply beq_eq in E. subst. symmetry. apply beq_refl.
  - symmetry. apply beq_neq. apply beq_neq in E. congruence.
Qed.

Lemma lexc_refl : forall a, lex_cmp a a = Eq.
Proof. induction a as [|x r IH]; cbn [lex_cmp]; auto. rewrite N.compare_refl. exact IH. Qed.
Lemma lexc_antisym : forall a b, lex_cmp b a = CompOpp (lex_cmp a b).
Proof.
  induction a as [|x r IH]; destruct b as [|y q]; cbn [lex_cmp CompOpp]; auto.
  rewrite (N.compare_antisym x y). destruct (N.compare x y); cbn [CompOpp]; auto.
Qed.
Lemma lexc_lt_trans : forall a b c, lex_cmp a b = Lt -> lex_cmp b c = Lt -> lex_cmp a c = Lt.
Proof.
  induction a as [|x r IH]; destruct b as [|y q]; destruct c as [|z s]; cbn [lex_cmp]; intros H1 H2; try discriminate; auto.
  destruct (N.compare x y) eqn:E1; try discriminate; destruct (N.compare y z) eqn:E2; try discriminate.
  - apply N.compare_eq in E1. apply N.compare_eq in E2. subst. rewrite N.compare_refl. eauto.
  - apply N.compare_eq in E1. subst. rewrite E2. auto.
  - apply N.compare_eq in E2. subst. rewrite E1. auto.
  - rewrite N.compare_lt_iff in *. assert (Hxz : x < z) by lia. rewrite <- N.compare_lt_iff in Hxz. rewrite Hxz. auto.
Qed.
Lemma lexc_eq : forall a b, lex_cmp a b = Eq -> a = b.
Proof.
  induction a as [|x r IH]; destruct b as [|y q]; cbn [lex_cmp]; intros H; try discriminate; auto.
  destruct (N.compare x y) eqn:E; try discriminate. apply N.compare_eq in E. subst. f_equal. auto.
Qed.
Lemma leb_refl : forall a, lex_leb a a = true.
Proof. intros a. unfold lex_leb. rewrite lexc_refl. reflexivity. Qed.
Lemma ltb_false_leb : forall a b, lex_ltb a b = false -> lex_leb b a = true.
Proof.
  intros a b H. unfold lex_ltb, lex_leb in *. rewrite (lexc_antisym a b).
  destruct (lex_cmp a b); cbn [CompOpp]; congruence.
Qed.
Lemma ltb_true_leb : forall a b, lex_ltb a b = true -> lex_leb a b = true.
Proof. intros a b H. unfold lex_ltb, lex_leb in *. destruct (lex_cmp a b); congruence. Qed.
Lemma leb_trans : forall a b c, lex_leb a b = true -> lex_leb b c = true -> lex_leb a c = true.
Proof.
  intros a b c H1 H2. unfold lex_leb in *.
  destruct (lex_cmp a b) eqn:E1; try discriminate; destruct (lex_cmp b c) eqn:E2; try discriminate.
  - apply lexc_eq in E1. apply lexc_eq in E2. subst. rewrite lexc_refl. reflexivity.
  - apply lexc_eq in E1. subst. rewrite E2. reflexivity.
  - apply lexc_eq in E2. subst. rewrite E1. reflexivity.
  - rewrite (lexc_lt_trans _ _ _ E1 E2). reflexivity.
Qed.
Lemma ltb_leb_false : forall a b, lex_ltb a b = true -> lex_leb b a = false.
Proof.
  intros a b H. unfold lex_ltb, lex_leb in *. rewrite (lexc_antisym a b).
  destruct (lex_cmp a b); cbn [CompOpp]; congruence.
Qed.

(* the smallest / largest key of a list bound every member *)
Lemma fold_min_le : forall r m, lex_leb (fold_left (fun m x => if lex_ltb x m then x else m) r m) m = true /\
  forall x, In x r -> lex_leb (fold_left (fun m x => if lex_ltb x m then x else m) r m) x = true.
Proof.
  induction r as [|y r IH]; intros m; cbn [fold_left].
  - split; [apply leb_refl | intros x []].
  - destruct (lex_ltb y m) eqn:E.
    + destruct (IH y) as [H1 H2]. split.
      * eapply leb_trans; [exact H1 | apply ltb_true_leb; exact E].
      * intros x [Hx | Hx]; [subst; exact H1 | apply H2; exact Hx].
    + destruct (IH m) as [H1 H2]. split; [exact H1 |].
      intros x [Hx | Hx]; [subst | apply H2; exact Hx].
      eapply leb_trans; [exact H1 | apply ltb_false_leb; exact E].
Qed.
Lemma key_min_le : forall l x, In x l -> lex_leb (key_min l) x = true.
Proof.
  intros [|k r] x Hx; [destruct Hx |]. unfold key_min. destruct (fold_min_le r k) as [H1 H2].
  destruct Hx as [Hx | Hx]; [subst; exact H1 | apply H2; exact Hx].
Qed.
Lemma fold_max_ge : forall r m, lex_leb m (fold_left (fun m x => if lex_ltb m x then x else m) r m) = true /\
  forall x, In x r -> lex_leb x (fold_left (fun m x => if lex_ltb m x then x else m) r m) = true.
Proof.
  induction r as [|y r IH]; intros m; cbn [fold_left].
  - split; [apply leb_refl | intros x []].
  - destruct (lex_ltb m y) eqn:E.
    + destruct (IH y) as [H1 H2]. split.
      * eapply leb_trans; [apply ltb_true_leb; exact E | exact H1].
      * intros x [Hx | Hx]; [subst; exact H1 | apply H2; exact Hx].
    + destruct (IH m) as [H1 H2]. split; [exact H1 |].
      intros x [Hx | Hx]; [subst | apply H2; exact Hx].
      eapply leb_trans; [apply ltb_false_leb; exact E | exact H1].
Qed.
Lemma key_max_ge : forall l x, In x l -> lex_leb x (key_max l) = true.
Proof.
  intros [|k r] x Hx; [destruct Hx |]. unfold key_max. destruct (fold_max_ge r k) as [H1 H2].
  destruct Hx as [Hx | Hx]; [subst; exact H1 | apply H2; exact Hx].
Qed.
Lemma mk_table_wf : forall id vs, table_wf (mk_table id vs).
Proof.
  intros id vs x Hx. unfold in_range, mk_table. cbn [tlo thi tvers] in *.
  rewrite key_min_le by (apply in_map; exact Hx). rewrite key_max_ge by (apply in_map; exact Hx). reflexivity.
Qed.

(* ====================================================================================== *)
(* 1. above / desc_log / uniq: set-level facts                                            *)
(* ====================================================================================== *)
Lemma above_nil_l : forall B, above [] B.
Proof. intros B x y []. Qed.
Lemma above_nil_r : forall A, above A [].
Proof. intros A x y _ []. Qed.
Lemma above_incl : forall A B A' B', above A B -> incl A' A -> incl B' B -> above A' B'.
Proof. intros A B A' B' H HA HB x y Hx Hy. apply H; [apply HA | apply HB]; assumption. Qed.
Lemma above_app_l : forall A1 A2 B, above (A1 ++ A2) B <-> above A1 B /\ above A2 B.
Proof.
  intros A1 A2 B. split.
  - intros H. split; intros x y Hx Hy; apply H; auto; apply in_or_app; auto.
  - intros [H1 H2] x y Hx Hy. apply in_app_or in Hx. destruct Hx; [apply H1 | apply H2]; assumption.
Qed.
Lemma above_app_r : forall A B1 B2, above A (B1 ++ B2) <-> above A B1 /\ above A B2.
Proof.
  intros A B1 B2. split.
  - intros H. split; intros x y Hx Hy; apply H; auto; apply in_or_app; auto.
  - intros [H1 H2] x y Hx Hy. apply in_app_or in Hy. destruct Hy; [apply H1 | apply H2]; assumption.
Qed.
Lemma above_concat_r : forall A Bs, above A (concat Bs) <-> forall B, In B Bs -> above A B.
Proof.
  intros A Bs. induction Bs as [|B r IH]; cbn [concat].
  - split; [intros _ B [] | intros _; apply above_nil_r].
  - rewrite above_app_r, IH. split.
    + intros [H1 H2] B' [E | HB]; [subst; exact H1 | apply H2; exact HB].
    + intros H. split; [apply H; left; reflexivity | intros B' HB; apply H; right; exact HB].
Qed.

Lemma desc_log_app : forall l1 l2, desc_log (l1 ++ l2) <-> desc_log l1 /\ desc_log l2 /\ above l1 l2.
Proof.
  induction l1 as [|x r IH]; intros l2; cbn [app desc_log].
  - split; [intros H; repeat split; [exact H | apply above_nil_l] | intros [_ [H _]]; exact H].
  - rewrite IH. split.
    + intros [Hx [H1 [H2 H3]]]. repeat split; auto.
      * intros y Hy. apply Hx. apply in_or_app. left. exact Hy.
      * intros a b [Ea | Ha] Hb Hk; [subst a; apply Hx; [apply in_or_app; right; exact Hb | exact Hk] | apply H3; assumption].
    + intros [[Hx H1] [H2 H3]]. repeat split; auto.
      * intros y Hy Hk. apply in_app_or in Hy. destruct Hy as [Hy | Hy]; [apply Hx; assumption | apply H3; [left; reflexivity | exact Hy | exact Hk]].
      * intros a b Ha Hb. apply H3; [right; exact Ha | exact Hb].
Qed.
Lemma desc_log_uniq : forall l, desc_log l -> uniq l.
Proof.
  induction l as [|a r IH]; intros H x y Hx Hy Hk Hs; [destruct Hx |].
  destruct H as [Ha Hr]. destruct Hx as [Ex | Hx], Hy as [Ey | Hy]; subst.
  - reflexivity.
  - specialize (Ha y Hy Hk). lia.
  - specialize (Ha x Hx (eq_sym Hk)). lia.
  - apply IH; assumption.
Qed.
Lemma uniq_incl : forall l l', uniq l -> incl l' l -> uniq l'.
Proof. intros l l' H Hi x y Hx Hy. apply H; apply Hi; assumption. Qed.
Lemma uniq_app : forall A B, uniq A -> uniq B -> above A B -> uniq (A ++ B).
Proof.
  intros A B HA HB Hab x y Hx Hy Hk Hs. apply in_app_or in Hx. apply in_app_or in Hy.
  destruct Hx as [Hx | Hx], Hy as [Hy | Hy].
  - apply HA; assumption.
  - specialize (Hab x y Hx Hy Hk). lia.
  - specialize (Hab y x Hy Hx (eq_sym Hk)). lia.
  - apply HB; assumption.
Qed.

(* ====================================================================================== *)
(* 2. best / visible / what a hit is                                                      *)
(* ====================================================================================== *)
Definition is_best (b : version) (l : list version) : Prop := In b l /\ forall x, In x l -> xseq x <= xseq b.
Definition hit_spec (l : list version) (k : key) (s : N) (r : option version) : Prop :=
  match r with Some b => is_best b (visible k s l) | None => visible k s l = [] end.

Lemma best_spec : forall l, match best l with Some b => is_best b l | None => l = [] end.
Proof.
  induction l as [|x r IH]; cbn [best]; [reflexivity |].
  destruct (best r) as [y|].
  - destruct IH as [Hy Hm]. destruct (xseq x <? xseq y) eqn:E.
    + split; [right; exact Hy |]. intros z [Ez | Hz]; [subst; lia | apply Hm; exact Hz].
    + split; [left; reflexivity |]. intros z [Ez | Hz]; [subst; lia | specialize (Hm z Hz); lia].
  - subst r. split; [left; reflexivity |]. intros z [Ez | []]. subst. lia.
Qed.
Lemma visible_in : forall k s l x, In x (visible k s l) <-> In x l /\ xkey x = k /\ xseq x <= s.
Proof.
  intros k s l x. unfold visible. rewrite filter_In. split.
  - intros [H1 H2]. apply andb_prop in H2. destruct H2 as [H2 H3]. apply beq_eq in H2. split; [exact H1 | split; [exact H2 | lia]].
  - intros [H1 [H2 H3]]. split; [exact H1 |]. apply andb_true_intro. split; [apply beq_eq; exact H2 | lia].
Qed.
Lemma visible_app : forall k s a b, visible k s (a ++ b) = visible k s a ++ visible k s b.
Proof. intros. unfold visible. apply filter_app. Qed.
Lemma visible_nil_iff : forall k s l, visible k s l = [] <-> forall x, In x l -> xkey x = k -> s < xseq x.
Proof.
  intros k s l. split.
  - intros H x Hx Hk. destruct (xseq x <=? s) eqn:E; [| lia].
    assert (Hin : In x (visible k s l)) by (apply visible_in; repeat split; [assumption .. | lia]).
    rewrite H in Hin. destruct Hin.
  - intros H. destruct (visible k s l) as [|x r] eqn:E; [reflexivity |].
    assert (Hin : In x (visible k s l)) by (rewrite E; left; reflexivity).
    apply visible_in in Hin. destruct Hin as [H1 [H2 H3]]. specialize (H x H1 H2). lia.
Qed.
Lemma src_get_spec : forall l k s, hit_spec l k s (src_get l k s).
Proof. intros l k s. unfold hit_spec, src_get. exact (best_spec (visible k s l)). Qed.

(* an earlier source that is newer key by key answers first *)
Lemma hit_seq : forall A B k s r1 r2, hit_spec A k s r1 -> hit_spec B k s r2 -> above A B ->
  hit_spec (A ++ B) k s (match r1 with Some x => Some x | None => r2 end).
Proof.
  intros A B k s r1 r2 H1 H2 Hab. unfold hit_spec in *. rewrite visible_app. destruct r1 as [b|].
  - destruct H1 as [Hb Hm]. split; [apply in_or_app; left; exact Hb |].
    intros x Hx. apply in_app_or in Hx. destruct Hx as [Hx | Hx]; [apply Hm; exact Hx |].
    apply visible_in in Hb. apply visible_in in Hx. destruct Hb as [Hb [Hbk _]]. destruct Hx as [Hx [Hxk _]].
    assert (Hlt : xseq x < xseq b) by (apply Hab; [assumption .. | congruence]). lia.
  - rewrite H1. cbn [app]. exact H2.
Qed.
(* the level-0 loop: the larger of two hits, whatever the order of the sources *)
Lemma hit_pick : forall A B k s acc hit, hit_spec A k s acc -> hit_spec B k s hit ->
  hit_spec (A ++ B) k s (l0_pick 1 acc hit).
Proof.
  intros A B k s acc hit H1 H2. unfold hit_spec in *. rewrite visible_app. unfold l0_pick.
  destruct hit as [x|].
  - destruct acc as [n|].
    + destruct H1 as [Hn Hnm]. destruct H2 as [Hx Hxm]. cbn [l0_replace]. destruct (xseq n <? xseq x) eqn:E.
      * split; [apply in_or_app; right; exact Hx |]. intros z Hz. apply in_app_or in Hz.
        destruct Hz as [Hz | Hz]; [specialize (Hnm z Hz); lia | apply Hxm; exact Hz].
      * split; [apply in_or_app; left; exact Hn |]. intros z Hz. apply in_app_or in Hz.
        destruct Hz as [Hz | Hz]; [apply Hnm; exact Hz | specialize (Hxm z Hz); lia].
    + rewrite H1. cbn [app]. exact H2.
  - rewrite H2. rewrite app_nil_r. exact H1.
Qed.
Lemma is_best_unique : forall l b b', uniq l -> is_best b l -> is_best b' l -> xkey b = xkey b' -> b = b'.
Proof.
  intros l b b' Hu [Hb Hm] [Hb' Hm'] Hk. apply Hu; try assumption.
  specialize (Hm b' Hb'). specialize (Hm' b Hb). lia.
Qed.
Lemma hit_unique : forall l k s r1 r2, uniq l -> hit_spec l k s r1 -> hit_spec l k s r2 -> r1 = r2.
Proof.
  intros l k s r1 r2 Hu H1 H2. unfold hit_spec in *.
  assert (Huv : uniq (visible k s l)).
  { eapply uniq_incl; [exact Hu |]. intros x Hx. apply visible_in in Hx. tauto. }
  destruct r1 as [b|], r2 as [b'|].
  - f_equal. eapply is_best_unique; [exact Huv | exact H1 | exact H2 |].
    destruct H1 as [H1 _], H2 as [H2 _]. apply visible_in in H1. apply visible_in in H2. destruct H1 as [_ [H1 _]], H2 as [_ [H2 _]]. congruence.
  - destruct H1 as [H1 _]. rewrite H2 in H1. destruct H1.
  - destruct H2 as [H2 _]. rewrite H1 in H2. destruct H2.
  - reflexivity.
Qed.
(* the hit depends on the SET of versions only *)
Lemma hit_spec_equiv : forall l l' k s r, (forall x, In x l <-> In x l') -> hit_spec l k s r -> hit_spec l' k s r.
Proof.
  intros l l' k s r He H. unfold hit_spec in *.
  assert (Hv : forall x, In x (visible k s l) <-> In x (visible k s l')).
  { intros x. rewrite !visible_in. rewrite He. tauto. }
  destruct r as [b|].
  - destruct H as [Hb Hm]. split; [apply Hv; exact Hb | intros x Hx; apply Hm; apply Hv; exact Hx].
  - destruct (visible k s l') as [|x r'] eqn:E; [reflexivity |].
    assert (Hin : In x (visible k s l)) by (apply Hv; left; reflexivity). rewrite H in Hin. destruct Hin.
Qed.
Lemma best_equiv : forall l l' k s, uniq l -> (forall x, In x l <-> In x l') ->
  best (visible k s l) = best (visible k s l').
Proof.
  intros l l' k s Hu He. apply (hit_unique l k s); [exact Hu | apply src_get_spec |].
  apply (hit_spec_equiv l' l); [intros x; symmetry; apply He | apply src_get_spec].
Qed.

(* ====================================================================================== *)
(* 3. (a) get = the merging iterator                                                      *)
(* ====================================================================================== *)
Lemma wf_out_of_range : forall t k s, table_wf t -> in_range t k = false -> visible k s (tvers t) = [].
Proof.
  intros t k s Hwf Hr. apply visible_nil_iff. intros x Hx Hk. subst k. rewrite (Hwf x Hx) in Hr. discriminate.
Qed.
Lemma lvers_cons : forall t r, lvers (t :: r) = tvers t ++ lvers r.
Proof. reflexivity. Qed.
Lemma lvers_app : forall a b, lvers (a ++ b) = lvers a ++ lvers b.
Proof. intros. unfold lvers. rewrite map_app, concat_app. reflexivity. Qed.
Lemma in_lvers : forall x l, In x (lvers l) <-> exists t, In t l /\ In x (tvers t).
Proof.
  intros x l. unfold lvers. rewrite in_concat. split.
  - intros [vs [H1 H2]]. apply in_map_iff in H1. destruct H1 as [t [E Ht]]. subst. exists t. tauto.
  - intros [t [Ht Hx]]. exists (tvers t). split; [apply in_map; exact Ht | exact Hx].
Qed.

Lemma l0_get_acc : forall ts A k s acc, Forall table_wf ts -> hit_spec A k s acc ->
  hit_spec (A ++ lvers ts) k s
    (fold_left (fun acc t => if in_range t k then l0_pick 1 acc (src_get (tvers t) k s) else acc) ts acc).
Proof.
  induction ts as [|t r IH]; intros A k s acc Hwf Hacc; cbn [fold_left].
  - unfold lvers. cbn [map concat]. rewrite app_nil_r. exact Hacc.
  - inversion Hwf as [|? ? Ht Hr]; subst. rewrite lvers_cons, app_assoc. apply IH; [exact Hr |].
    destruct (in_range t k) eqn:E.
    + apply hit_pick; [exact Hacc | apply src_get_spec].
    + unfold hit_spec in *. rewrite visible_app. rewrite (wf_out_of_range t k s Ht E), app_nil_r. exact Hacc.
Qed.
Lemma l0_get_spec : forall ts k s, Forall table_wf ts -> hit_spec (lvers ts) k s (l0_get 1 ts k s).
Proof.
  intros ts k s Hwf. unfold l0_get. change (lvers ts) with ([] ++ lvers ts). apply l0_get_acc; [exact Hwf | reflexivity].
Qed.
Lemma first_hit_spec : forall ts k s, Forall table_wf ts -> key_disjoint ts -> hit_spec (lvers ts) k s (first_hit ts k s).
Proof.
  induction ts as [|t r IH]; intros k s Hwf Hd; cbn [first_hit]; [reflexivity |].
  inversion Hwf as [|? ? Ht Hr]; subst. destruct Hd as [Hd1 Hd2]. rewrite lvers_cons.
  specialize (IH k s Hr Hd2).
  destruct (in_range t k) eqn:E.
  - pose proof (src_get_spec (tvers t) k s) as Hs. destruct (src_get (tvers t) k s) as [x|] eqn:Eg.
    + unfold hit_spec in *. rewrite visible_app. destruct Hs as [Hx Hm].
      assert (Hnil : visible k s (lvers r) = []).
      { apply visible_nil_iff. intros y Hy Hk. exfalso. apply in_lvers in Hy. destruct Hy as [t' [Ht' Hy]].
        apply (Hd1 t' Ht'). apply visible_in in Hx. exists x, y. repeat split; [tauto | exact Hy | destruct Hx as [_ [Hx _]]; congruence]. }
      rewrite Hnil, app_nil_r. split; assumption.
    + unfold hit_spec in Hs. unfold hit_spec. rewrite visible_app, Hs. cbn [app]. exact IH.
  - unfold hit_spec. rewrite visible_app, (wf_out_of_range t k s Ht E). cbn [app]. exact IH.
Qed.
Lemma levels_get_spec : forall lv (first : bool) k s,
  Forall (Forall table_wf) lv -> Forall key_disjoint (if first then tl lv else lv) -> lv_ordered lv ->
  hit_spec (concat (map lvers lv)) k s (levels_get 1 first lv k s).
Proof.
  induction lv as [|l r IH]; intros first k s Hwf Hd Ho; cbn [levels_get map concat]; [reflexivity |].
  inversion Hwf as [|? ? Hl Hr]; subst. destruct Ho as [Ho1 Ho2].
  assert (Hd' : Forall key_disjoint r) by (destruct first; [exact Hd | inversion Hd; assumption]).
  apply hit_seq; [| apply (IH false); assumption | exact Ho1].
  destruct first; [apply l0_get_spec; exact Hl | apply first_hit_spec; [exact Hl | inversion Hd; assumption]].
Qed.
Lemma mem_get_spec : forall ms k s, desc_log (concat ms) ->
  hit_spec (concat ms) k s (first_some (map (fun m => src_get m k s) ms)).
Proof.
  induction ms as [|m r IH]; intros k s Hd; cbn [map first_some concat]; [reflexivity |].
  cbn [concat] in Hd. apply desc_log_app in Hd. destruct Hd as [_ [Hr Hab]].
  pose proof (hit_seq m (concat r) k s (src_get m k s) _ (src_get_spec m k s) (IH k s Hr) Hab) as H.
  destruct (src_get m k s); exact H.
Qed.

Lemma lv_ordered_uniq : forall lv, lv_ordered lv -> Forall (fun l => uniq (lvers l)) lv -> uniq (concat (map lvers lv)).
Proof.
  induction lv as [|l r IH]; intros Ho Hu; cbn [map concat]; [intros x y [] |].
  destruct Ho as [Ho1 Ho2]. inversion Hu; subst. apply uniq_app; auto.
Qed.
Lemma inv_uniq : forall st, inv st -> uniq (all_versions st).
Proof.
  intros st [H1 [H2 [H3 [H4 _]]]]. unfold all_versions. apply uniq_app; [apply desc_log_uniq; exact H1 | | exact H2].
  apply lv_ordered_uniq; assumption.
Qed.
Lemma mem_search_log : forall r st, r_imm_rev r = true -> concat (mem_search r st) = mem_log st.
Proof. intros r st H. unfold mem_search, mem_log. rewrite H. reflexivity. Qed.

Lemma rules_ok_fields : forall r, rules_okb r = true -> r_imm_rev r = true /\ r_l0 r = 1 /\ r_flush_oldest r = true.
Proof.
  intros r H. unfold rules_okb in H. apply andb_prop in H. destruct H as [H H3]. apply andb_prop in H. destruct H as [H1 H2].
  apply N.eqb_eq in H2. auto.
Qed.

Lemma get_rules_ext : forall r, rules_okb r = true -> forall st k s, get r st k s = get std_rules st k s.
Proof.
  intros [a b c] H st k s. apply rules_ok_fields in H. cbn [r_imm_rev r_l0 r_flush_oldest] in H. destruct H as [Ha [Hb Hc]]. subst. reflexivity.
Qed.
Lemma get_hit_is_view : forall r, rules_okb r = true -> forall st k s, inv st -> get_hit r st k s = hit_of_all st s k.
Proof.
  intros r Hr st k s Hinv. destruct (rules_ok_fields r Hr) as [Hrev [Hl0 _]].
  apply (hit_unique (all_versions st) k s); [apply inv_uniq; exact Hinv | | apply src_get_spec].
  destruct Hinv as [H1 [H2 [H3 [H4 [H5 [H6 _]]]]]].
  unfold get_hit, all_versions, tab_versions. rewrite Hl0.
  pose proof (mem_get_spec (mem_search r st) k s) as Hm. rewrite (mem_search_log r st Hrev) in Hm. specialize (Hm H1).
  pose proof (hit_seq _ _ k s _ _ Hm (levels_get_spec (levels st) true k s H5 H6 H3) H2) as H.
  destruct (first_some (map (fun m => src_get m k s) (mem_search r st))); exact H.
Qed.
Theorem get_is_view : forall r, rules_okb r = true -> get_is_view_stmt r.
Proof. intros r Hr st k s Hinv. unfold get, view_of_all. rewrite (get_hit_is_view r Hr st k s Hinv). reflexivity. Qed.
Theorem scan_is_view : forall r, rules_okb r = true -> scan_is_view_stmt r.
Proof.
  intros r Hr st s ks Hinv. unfold scan_by_get, scan_of_all. induction ks as [|k ks IH]; cbn [flat_map]; [reflexivity |].
  rewrite (get_is_view r Hr st k s Hinv), IH. reflexivity.
Qed.

(* ====================================================================================== *)
(* 4. tables in levels                                                                    *)
(* ====================================================================================== *)
Lemma in_l0_insert : forall t l t', In t' (l0_insert t l) <-> t' = t \/ In t' l.
Proof.
  intros t l t'. induction l as [|x r IH]; cbn [l0_insert].
  - cbn [In]. intuition congruence.
  - destruct (tmax t <? tmax x); cbn [In]; [rewrite IH |]; intuition congruence.
Qed.
Lemma in_ln_insert : forall t l t', In t' (ln_insert t l) <-> t' = t \/ In t' l.
Proof.
  intros t l t'. induction l as [|x r IH]; cbn [ln_insert].
  - cbn [In]. intuition congruence.
  - destruct (lex_ltb (tlo x) (tlo t)); cbn [In]; [rewrite IH |]; intuition congruence.
Qed.
Lemma in_lvers_ins : forall (ins : table -> list table -> list table),
  (forall t l t', In t' (ins t l) <-> t' = t \/ In t' l) ->
  forall t l x, In x (lvers (ins t l)) <-> In x (tvers t) \/ In x (lvers l).
Proof.
  intros ins Hins t l x. rewrite !in_lvers. split.
  - intros [t' [Ht' Hx]]. apply Hins in Ht'. destruct Ht' as [E | Ht']; [subst; left; exact Hx | right; exists t'; tauto].
  - intros [Hx | [t' [Ht' Hx]]]; [exists t; split; [apply Hins; left; reflexivity | exact Hx] | exists t'; split; [apply Hins; right; exact Ht' | exact Hx]].
Qed.
Lemma in_add_l0 : forall id vs l x, In x (lvers (add_l0 id vs l)) <-> In x vs \/ In x (lvers l).
Proof.
  intros id vs l x. unfold add_l0. destruct vs as [|v r].
  - cbn [In]. tauto.
  - rewrite (in_lvers_ins l0_insert in_l0_insert). reflexivity.
Qed.
Lemma wf_add_l0 : forall id vs l, Forall table_wf l -> Forall table_wf (add_l0 id vs l).
Proof.
  intros id vs l H. unfold add_l0. destruct vs as [|v r]; [exact H |].
  apply Forall_forall. intros t Ht. apply in_l0_insert in Ht. destruct Ht as [E | Ht]; [subst; apply mk_table_wf | rewrite Forall_forall in H; apply H; exact Ht].
Qed.
Lemma in_add_out : forall b id vs l x, In x (lvers (add_out b id vs l)) <-> In x vs \/ In x (lvers l).
Proof.
  intros b id vs l x. unfold add_out. destruct vs as [|v r].
  - cbn [In]. tauto.
  - destruct b; [rewrite (in_lvers_ins l0_insert in_l0_insert) | rewrite (in_lvers_ins ln_insert in_ln_insert)]; reflexivity.
Qed.
Lemma in_add_out_tab : forall b id vs l t, In t (add_out b id vs l) -> t = mk_table id vs \/ In t l.
Proof.
  intros b id vs l t H. unfold add_out in H. destruct vs as [|v r]; [right; exact H |].
  destruct b; [apply in_l0_insert in H | apply in_ln_insert in H]; exact H.
Qed.
Lemma wf_add_out : forall b id vs l, Forall table_wf l -> Forall table_wf (add_out b id vs l).
Proof.
  intros b id vs l H. apply Forall_forall. intros t Ht. apply in_add_out_tab in Ht.
  destruct Ht as [E | Ht]; [subst; apply mk_table_wf | rewrite Forall_forall in H; apply H; exact Ht].
Qed.

Lemma share_key_sym : forall a b, share_key a b -> share_key b a.
Proof. intros a b [x [y [Hx [Hy Hk]]]]. exists y, x. auto. Qed.
Lemma key_disjoint_in : forall l a b, key_disjoint l -> In a l -> In b l -> a <> b -> ~ share_key (tvers a) (tvers b).
Proof.
  induction l as [|t r IH]; intros a b Hd Ha Hb Hne; [destruct Ha |].
  destruct Hd as [Hd1 Hd2]. destruct Ha as [Ea | Ha], Hb as [Eb | Hb]; subst.
  - congruence.
  - apply Hd1. exact Hb.
  - intros Hs. apply (Hd1 a Ha). apply share_key_sym. exact Hs.
  - apply IH; assumption.
Qed.
Lemma key_disjoint_filter : forall p l, key_disjoint l -> key_disjoint (filter p l).
Proof.
  intros p. induction l as [|t r IH]; intros Hd; cbn [filter]; [exact I |].
  destruct Hd as [Hd1 Hd2]. destruct (p t); [| apply IH; exact Hd2].
  split; [| apply IH; exact Hd2]. intros t' Ht'. apply filter_In in Ht'. apply Hd1. tauto.
Qed.
Lemma key_disjoint_ins : forall (ins : table -> list table -> list table),
  (forall t l, ins t l = t :: l \/ exists x r, l = x :: r /\ ins t l = x :: ins t r) ->
  forall t l, key_disjoint l -> (forall t', In t' l -> ~ share_key (tvers t) (tvers t')) -> key_disjoint (ins t l).
Proof.
  intros ins Hins t. induction l as [|x r IH]; intros Hd Hn.
  - destruct (Hins t []) as [E | [x [r [E _]]]]; [rewrite E; split; [intros t' [] | exact I] | discriminate].
  - destruct (Hins t (x :: r)) as [E | [x' [r' [E1 E2]]]].
    + rewrite E. split; [exact Hn | exact Hd].
    + inversion E1; subst x' r'. rewrite E2. destruct Hd as [Hd1 Hd2]. split.
      * intros t' Ht'.
        assert (Hin : t' = t \/ In t' r).
        { clear - Hins Ht'. revert Ht'. induction r as [|y q IHq]; intros Ht'.
          - destruct (Hins t []) as [E | [? [? [E _]]]]; [rewrite E in Ht'; destruct Ht' as [E' | []]; left; congruence | discriminate].
          - destruct (Hins t (y :: q)) as [E | [y' [q' [E1 E2]]]].
            + rewrite E in Ht'. destruct Ht' as [E' | Ht']; [left; congruence | right; exact Ht'].
            + inversion E1; subst y' q'. rewrite E2 in Ht'. destruct Ht' as [E' | Ht']; [right; left; exact E' |].
              destruct (IHq Ht') as [E' | Hq]; [left; exact E' | right; right; exact Hq]. }
        destruct Hin as [E' | Hin]; [subst t'; intros Hs; apply (Hn x (or_introl eq_refl)); apply share_key_sym; exact Hs | apply Hd1; exact Hin].
      * apply IH; [exact Hd2 | intros t' Ht'; apply Hn; right; exact Ht'].
Qed.
Lemma l0_insert_shape : forall t l, l0_insert t l = t :: l \/ exists x r, l = x :: r /\ l0_insert t l = x :: l0_insert t r.
Proof. intros t [|x r]; cbn [l0_insert]; [left; reflexivity |]. destruct (tmax t <? tmax x); [right; exists x, r; auto | left; reflexivity]. Qed.
Lemma ln_insert_shape : forall t l, ln_insert t l = t :: l \/ exists x r, l = x :: r /\ ln_insert t l = x :: ln_insert t r.
Proof. intros t [|x r]; cbn [ln_insert]; [left; reflexivity |]. destruct (lex_ltb (tlo x) (tlo t)); [right; exists x, r; auto | left; reflexivity]. Qed.
Lemma key_disjoint_add_out : forall b id vs l, key_disjoint l ->
  (forall t', In t' l -> ~ share_key vs (tvers t')) -> key_disjoint (add_out b id vs l).
Proof.
  intros b id vs l Hd Hn. unfold add_out. destruct vs as [|v r] eqn:E; [exact Hd |]. rewrite <- E in *.
  destruct b; [apply (key_disjoint_ins l0_insert l0_insert_shape) | apply (key_disjoint_ins ln_insert ln_insert_shape)]; assumption.
Qed.

(* ====================================================================================== *)
(* 5. the level part of the invariant                                                     *)
(* ====================================================================================== *)
Definition allv (lv : list (list table)) : list version := concat (map lvers lv).
(* first = the head of lv is level 0 (exempt from key-disjointness) *)
Definition lv_inv (first : bool) (M : list version) (lv : list (list table)) : Prop :=
  above M (allv lv) /\ lv_ordered lv /\ Forall (fun l => uniq (lvers l)) lv /\ Forall (Forall table_wf) lv /\
  Forall key_disjoint (if first then tl lv else lv).
Lemma inv_lv_inv : forall st, inv st <->
  desc_log (mem_log st) /\ lv_inv true (mem_log st) (levels st) /\ (forall x, In x (all_versions st) -> 0 < xseq x).
Proof. intros st. unfold inv, lv_inv, allv, tab_versions. tauto. Qed.
Lemma lv_inv_cons : forall first M l r, lv_inv first M (l :: r) <->
  (above M (lvers l) /\ above (lvers l) (allv r) /\ uniq (lvers l) /\ Forall table_wf l /\ (first = false -> key_disjoint l)) /\
  lv_inv false M r.
Proof.
  intros first M l r. unfold lv_inv, allv. cbn [map concat lv_ordered tl]. rewrite above_app_r. split.
  - intros [[H1 H1'] [[H2 H2'] [H3 [H4 H5]]]]. inversion H3; subst. inversion H4; subst.
    destruct first; [repeat split; auto; discriminate | inversion H5; subst; repeat split; auto].
  - intros [[H1 [H2 [H3 [H4 H5]]]] [H6 [H7 [H8 [H9 H10]]]]]. repeat split; auto.
    destruct first; [exact H10 | constructor; auto].
Qed.
Lemma allv_app : forall a b, allv (a ++ b) = allv a ++ allv b.
Proof. intros. unfold allv. rewrite map_app, concat_app. reflexivity. Qed.
Lemma allv_cons : forall l r, allv (l :: r) = lvers l ++ allv r.
Proof. reflexivity. Qed.
Lemma lv_inv_weaken : forall first M M' lv, lv_inv first M lv -> incl M' M -> lv_inv first M' lv.
Proof. intros first M M' lv [H1 H2] Hi. split; [| exact H2]. eapply above_incl; [exact H1 | exact Hi | apply incl_refl]. Qed.
Lemma lv_inv_first : forall M lv, lv_inv false M lv -> lv_inv true M lv.
Proof. intros M lv [H1 [H2 [H3 [H4 H5]]]]. repeat split; auto. destruct lv; [constructor | inversion H5; assumption]. Qed.

(* a suffix of the levels is replaced by one that holds a subset of its versions *)
Lemma lv_inv_suffix : forall pre first M suf suf',
  lv_inv first M (pre ++ suf) -> incl (allv suf') (allv suf) ->
  lv_inv (match pre with [] => first | _ => false end) [] suf' ->
  lv_inv first M (pre ++ suf').
Proof.
  induction pre as [|p pre IH]; intros first M suf suf' H Hi Hs; cbn [app] in *.
  - destruct Hs as [_ Hs]. split; [| exact Hs]. destruct H as [H _]. eapply above_incl; [exact H | apply incl_refl | exact Hi].
  - apply lv_inv_cons in H. destruct H as [[H1 [H2 [H3 [H4 H5]]]] H6]. apply lv_inv_cons. split.
    + repeat split; auto. rewrite allv_app in *. apply above_app_r in H2. apply above_app_r. split; [tauto |].
      eapply above_incl; [apply H2 | apply incl_refl | exact Hi].
    + apply (IH false M suf suf' H6 Hi). destruct pre; exact Hs.
Qed.
Lemma allv_suffix_incl : forall pre suf suf', incl (allv suf') (allv suf) -> incl (allv (pre ++ suf')) (allv (pre ++ suf)).
Proof. intros pre suf suf' H. rewrite !allv_app. apply incl_app; [apply incl_appl, incl_refl | apply incl_appr; exact H]. Qed.

Lemma focus_spec : forall src lv pre l post, focus src lv = Some (pre, l, post) -> lv = pre ++ l :: post.
Proof.
  induction src as [|n IH]; intros lv pre l post H; destruct lv as [|x r]; cbn [focus] in H; try discriminate.
  - inversion H; subst. reflexivity.
  - destruct (focus n r) as [[[pre' x'] post']|] eqn:E; [| discriminate]. inversion H; subst.
    cbn [app]. f_equal. apply IH. exact E.
Qed.

Lemma lvers_filter_incl : forall p l, incl (lvers (filter p l)) (lvers l).
Proof. intros p l x Hx. apply in_lvers in Hx. destruct Hx as [t [Ht Hx]]. apply filter_In in Ht. apply in_lvers. exists t. tauto. Qed.
Lemma lvers_split : forall ids l x, In x (lvers l) <-> In x (lvers (filter (picked ids) l)) \/ In x (lvers (filter (unpicked ids) l)).
Proof.
  intros ids l x. rewrite !in_lvers. split.
  - intros [t [Ht Hx]]. destruct (picked ids t) eqn:E; [left | right]; exists t; (split; [apply filter_In; split; [exact Ht |] | exact Hx]); [exact E | unfold unpicked; rewrite E; reflexivity].
  - intros [[t [Ht Hx]] | [t [Ht Hx]]]; apply filter_In in Ht; exists t; tauto.
Qed.
Lemma forall_wf_filter : forall p l, Forall table_wf l -> Forall table_wf (filter p l).
Proof. intros p l H. rewrite Forall_forall in *. intros t Ht. apply filter_In in Ht. apply H. tauto. Qed.

(* what a compaction keeps is among what it read *)
Lemma kept_of_incl : forall kv kept x, In x (kept_of kv kept) -> In x kv.
Proof.
  intros kv kept x H. unfold kept_of in H. apply in_flat_map in H. destruct H as [v [_ H]].
  destruct (find (fun y => xseq y =? vseq v) kv) as [y|] eqn:E; [| destruct H].
  destruct H as [H | []]. subst. apply find_some in E. tauto.
Qed.
Lemma compact_versions_incl : forall bottom c snaps merged, incl (compact_versions bottom c snaps merged) merged.
Proof.
  intros bottom c snaps merged x H. unfold compact_versions in H. apply in_flat_map in H. destruct H as [k [_ H]].
  apply kept_of_incl in H. unfold key_versions in H. apply filter_In in H. tauto.
Qed.

(* ====================================================================================== *)
(* 6. (b) every step preserves the invariant                                              *)
(* ====================================================================================== *)
Lemma picked_unpicked_ne : forall ids a b, picked ids a = true -> unpicked ids b = true -> a <> b.
Proof. intros ids a b Ha Hb E. subst. unfold unpicked in Hb. rewrite Ha in Hb. discriminate. Qed.

Lemma compact_two_incl : forall ids newid out ls lt post,
  incl out (lvers (filter (picked ids) ls ++ filter (picked ids) lt)) ->
  incl (allv (filter (unpicked ids) ls :: add_out false newid out (filter (unpicked ids) lt) :: post)) (allv (ls :: lt :: post)).
Proof.
  intros ids newid out ls lt post Ho x Hx. rewrite !allv_cons in *.
  apply in_app_or in Hx. destruct Hx as [Hx | Hx]; [apply in_or_app; left; eapply lvers_filter_incl; exact Hx |].
  apply in_app_or in Hx. destruct Hx as [Hx | Hx]; [| apply in_or_app; right; apply in_or_app; right; exact Hx].
  apply in_add_out in Hx. destruct Hx as [Hx | Hx].
  - apply Ho in Hx. rewrite lvers_app in Hx. apply in_app_or in Hx.
    destruct Hx as [Hx | Hx]; apply lvers_filter_incl in Hx; [apply in_or_app; left; exact Hx | apply in_or_app; right; apply in_or_app; left; exact Hx].
  - apply lvers_filter_incl in Hx. apply in_or_app; right; apply in_or_app; left; exact Hx.
Qed.

Lemma compact_two_inv : forall first ids newid out ls lt post,
  lv_inv first [] (ls :: lt :: post) ->
  above (lvers (filter (unpicked ids) ls)) (lvers (filter (picked ids) ls)) ->
  (forall t' t, In t' (filter (unpicked ids) lt) -> In t (filter (picked ids) ls) -> ~ share_key (tvers t') (tvers t)) ->
  incl out (lvers (filter (picked ids) ls ++ filter (picked ids) lt)) ->
  lv_inv first [] (filter (unpicked ids) ls :: add_out false newid out (filter (unpicked ids) lt) :: post).
Proof.
  intros first ids newid out ls lt post H S1 S2 Ho.
  apply lv_inv_cons in H. destruct H as [[_ [G1 [U1 [W1 D1]]]] H]. apply lv_inv_cons in H. destruct H as [[_ [G2 [U2 [W2 D2]]]] H].
  rewrite allv_cons in G1. apply above_app_r in G1. destruct G1 as [G1a G1b].
  assert (Hout : incl out (lvers ls ++ lvers lt)).
  { intros x Hx. apply Ho in Hx. rewrite lvers_app in Hx. apply in_app_or in Hx.
    destruct Hx as [Hx | Hx]; apply lvers_filter_incl in Hx; apply in_or_app; tauto. }
  assert (Hlt' : incl (lvers (add_out false newid out (filter (unpicked ids) lt))) (lvers ls ++ lvers lt)).
  { intros x Hx. apply in_add_out in Hx. destruct Hx as [Hx | Hx]; [apply Hout; exact Hx | apply in_or_app; right; eapply lvers_filter_incl; exact Hx]. }
  apply lv_inv_cons. split; [| apply lv_inv_cons; split; [| exact H]].
  - split; [apply above_nil_l |]. split; [| split; [| split]].
    + rewrite allv_cons. apply above_app_r. split.
      * intros x y Hx Hy Hk. apply in_add_out in Hy. destruct Hy as [Hy | Hy].
        { apply Ho in Hy. rewrite lvers_app in Hy. apply in_app_or in Hy. destruct Hy as [Hy | Hy].
          - apply S1; assumption.
          - apply G1a; [eapply lvers_filter_incl; exact Hx | eapply lvers_filter_incl; exact Hy | exact Hk]. }
        { apply G1a; [eapply lvers_filter_incl; exact Hx | eapply lvers_filter_incl; exact Hy | exact Hk]. }
      * eapply above_incl; [exact G1b | apply lvers_filter_incl | apply incl_refl].
    + eapply uniq_incl; [exact U1 | apply lvers_filter_incl].
    + apply forall_wf_filter. exact W1.
    + intros Hf. apply key_disjoint_filter. apply D1. exact Hf.
  - split; [apply above_nil_l |]. split; [| split; [| split]].
    + intros x y Hx Hy Hk. apply Hlt' in Hx. apply in_app_or in Hx. destruct Hx as [Hx | Hx]; [apply G1b | apply G2]; assumption.
    + eapply uniq_incl; [apply (uniq_app _ _ U1 U2 G1a) | exact Hlt'].
    + apply wf_add_out. apply forall_wf_filter. exact W2.
    + intros _. apply key_disjoint_add_out; [apply key_disjoint_filter; apply D2; reflexivity |].
      intros t' Ht' [x [y [Hx [Hy Hk]]]]. apply Ho in Hx. rewrite lvers_app in Hx. apply in_app_or in Hx.
      destruct Hx as [Hx | Hx]; apply in_lvers in Hx; destruct Hx as [t [Ht Hx]].
      * apply (S2 t' t Ht' Ht). exists y, x. auto.
      * apply filter_In in Ht. apply filter_In in Ht'.
        apply (key_disjoint_in lt t t' (D2 eq_refl)); [tauto | tauto | apply (picked_unpicked_ne ids); tauto |].
        exists x, y. auto.
Qed.

Lemma compact_one_inv : forall first b ids newid out ls,
  lv_inv first [] [ls] -> incl out (lvers (filter (picked ids) ls)) ->
  lv_inv first [] [add_out b newid out (filter (unpicked ids) ls)] /\
  incl (allv [add_out b newid out (filter (unpicked ids) ls)]) (allv [ls]).
Proof.
  intros first b ids newid out ls H Ho.
  assert (Hi : incl (lvers (add_out b newid out (filter (unpicked ids) ls))) (lvers ls)).
  { intros x Hx. apply in_add_out in Hx. destruct Hx as [Hx | Hx]; [apply Ho in Hx |]; eapply lvers_filter_incl; exact Hx. }
  split.
  - apply lv_inv_cons in H. destruct H as [[_ [_ [U1 [W1 D1]]]] H]. apply lv_inv_cons. split; [| exact H].
    split; [apply above_nil_l |]. split; [apply above_nil_r |]. split; [eapply uniq_incl; [exact U1 | exact Hi] |].
    split; [apply wf_add_out; apply forall_wf_filter; exact W1 |].
    intros Hf. apply key_disjoint_add_out; [apply key_disjoint_filter; apply D1; exact Hf |].
    intros t' Ht' [x [y [Hx [Hy Hk]]]]. apply Ho in Hx. apply in_lvers in Hx. destruct Hx as [t [Ht Hx]].
    apply filter_In in Ht. apply filter_In in Ht'.
    apply (key_disjoint_in ls t t' (D1 Hf)); [tauto | tauto | apply (picked_unpicked_ne ids); tauto |]. exists x, y. auto.
  - unfold allv. cbn [map concat]. rewrite !app_nil_r. exact Hi.
Qed.

Lemma lv_inv_drop_prefix : forall pre first M suf, lv_inv first M (pre ++ suf) ->
  lv_inv (match pre with [] => first | _ => false end) [] suf.
Proof.
  induction pre as [|p pre IH]; intros first M suf H; cbn [app] in *.
  - eapply lv_inv_weaken; [exact H | intros x []].
  - apply lv_inv_cons in H. destruct H as [_ H]. specialize (IH false M suf H). destruct pre; exact IH.
Qed.

Lemma compact_levels_inv : forall src ids newid c snaps first M lv,
  lv_inv first M lv ->
  match focus src lv with
  | None => True
  | Some (pre, ls, post) =>
      above (lvers (filter (unpicked ids) ls)) (lvers (filter (picked ids) ls)) /\
      match post with
      | [] => True
      | lt :: _ => forall t' t, In t' (filter (unpicked ids) lt) -> In t (filter (picked ids) ls) -> ~ share_key (tvers t') (tvers t)
      end
  end ->
  lv_inv first M (compact_levels src ids newid c snaps lv) /\
  incl (allv (compact_levels src ids newid c snaps lv)) (allv lv).
Proof.
  intros src ids newid c snaps first M lv H Hs. unfold compact_levels.
  destruct (focus src lv) as [[[pre ls] post]|] eqn:E; [| split; [exact H | apply incl_refl]].
  apply focus_spec in E. subst lv. destruct Hs as [S1 S2].
  pose proof (lv_inv_drop_prefix pre first M _ H) as Hsuf.
  destruct post as [|lt post].
  - destruct (compact_one_inv _ (is_nil pre) ids newid (compact_versions true c snaps (lvers (filter (picked ids) ls))) ls Hsuf
                (compact_versions_incl _ _ _ _)) as [H1 H2].
    split; [eapply lv_inv_suffix; [exact H | exact H2 | exact H1] | apply allv_suffix_incl; exact H2].
  - pose proof (compact_versions_incl (is_nil post) c snaps (lvers (filter (picked ids) ls ++ filter (picked ids) lt))) as Ho.
    pose proof (compact_two_inv _ ids newid _ ls lt post Hsuf S1 S2 Ho) as H1.
    pose proof (compact_two_incl ids newid _ ls lt post Ho) as H2.
    split; [eapply lv_inv_suffix; [exact H | exact H2 | exact H1] | apply allv_suffix_incl; exact H2].
Qed.

Lemma compact_inv : forall src ids newid c snaps st, inv st -> sel_ok st src ids -> inv (compact src ids newid c snaps st).
Proof.
  intros src ids newid c snaps st Hinv Hs. apply inv_lv_inv in Hinv. destruct Hinv as [H1 [H2 H3]]. apply inv_lv_inv.
  unfold sel_ok in Hs.
  destruct (compact_levels_inv src ids newid c snaps true (mem_log st) (levels st) H2) as [H4 H5].
  { destruct (focus src (levels st)) as [[[pre ls] post]|]; [exact Hs | exact I]. }
  unfold compact, mem_log, all_versions, tab_versions in *. cbn [active imms levels].
  split; [exact H1 | split; [exact H4 |]].
  intros x Hx. apply H3. apply in_app_or in Hx. apply in_or_app. destruct Hx as [Hx | Hx]; [left; exact Hx | right; apply H5; exact Hx].
Qed.

(* commit *)
Lemma commit_inv : forall b st, inv st -> commit_ok st b -> inv (commit b st).
Proof.
  intros b st Hinv [C1 [C2 C3]]. apply inv_lv_inv in Hinv. destruct Hinv as [H1 [H2 H3]]. apply inv_lv_inv.
  assert (Hlog : mem_log (commit b st) = rev b ++ mem_log st).
  { unfold mem_log, commit. cbn [active imms]. rewrite app_assoc. reflexivity. }
  assert (Hall : all_versions (commit b st) = rev b ++ all_versions st).
  { unfold all_versions. rewrite Hlog. unfold tab_versions, commit. cbn [levels]. rewrite app_assoc. reflexivity. }
  assert (Hrev : incl (rev b) b) by (intros x Hx; apply in_rev; exact Hx).
  unfold all_versions in C2. apply above_app_r in C2. destruct C2 as [C2a C2b].
  split; [| split].
  - rewrite Hlog. apply desc_log_app. split; [exact C1 | split; [exact H1 |]].
    eapply above_incl; [exact C2a | exact Hrev | apply incl_refl].
  - rewrite Hlog. unfold commit. cbn [levels]. destruct H2 as [H2 H2']. split; [| exact H2'].
    apply above_app_l. split; [| exact H2]. eapply above_incl; [exact C2b | exact Hrev | apply incl_refl].
  - rewrite Hall. intros x Hx. apply in_app_or in Hx. destruct Hx as [Hx | Hx]; [apply C3; apply in_rev; exact Hx | apply H3; exact Hx].
Qed.

(* rotate: the log is the same *)
Lemma rotate_log : forall st, mem_log (rotate st) = mem_log st /\ levels (rotate st) = levels st.
Proof.
  intros st. unfold rotate. destruct (active st) as [|a r] eqn:E; [split; reflexivity |].
  unfold mem_log. cbn [active imms levels]. rewrite E. rewrite rev_app_distr. cbn [rev app concat]. split; reflexivity.
Qed.
Lemma rotate_all : forall st, all_versions (rotate st) = all_versions st.
Proof. intros st. unfold all_versions, tab_versions. destruct (rotate_log st) as [H1 H2]. rewrite H1, H2. reflexivity. Qed.
Lemma rotate_inv : forall st, inv st -> inv (rotate st).
Proof.
  intros st H. apply inv_lv_inv in H. apply inv_lv_inv. rewrite rotate_all. destruct (rotate_log st) as [H1 H2]. rewrite H1, H2. exact H.
Qed.

(* flush and reopen: the old end of the log moves into level 0 *)
Lemma upd_l0_norm : forall f lv, upd_l0 f lv = f (hd [] lv) :: tl lv.
Proof. intros f [|l r]; reflexivity. Qed.
Lemma lv_inv_norm : forall M lv, lv_inv true M lv -> lv_inv true M (hd [] lv :: tl lv).
Proof.
  intros M [|l r] H; [| exact H]. cbn [hd tl]. apply lv_inv_cons.
  split; [| exact H]. unfold lvers, allv. cbn [map concat]. repeat split; try apply above_nil_r; try constructor; try discriminate.
  intros x y [].
Qed.
Lemma absorb_lv : forall pre m l l' r,
  desc_log (pre ++ m) -> lv_inv true (pre ++ m) (l :: r) ->
  (forall x, In x (lvers l') <-> In x m \/ In x (lvers l)) -> Forall table_wf l' ->
  lv_inv true pre (l' :: r).
Proof.
  intros pre m l l' r Hd H He Hw. apply desc_log_app in Hd. destruct Hd as [Hd1 [Hd2 Hd3]].
  apply lv_inv_cons in H. destruct H as [[G0 [G1 [U1 [W1 _]]]] H]. apply above_app_l in G0. destruct G0 as [G0a G0b].
  destruct H as [Hm H]. apply above_app_l in Hm. destruct Hm as [Hma Hmb].
  apply lv_inv_cons. split; [| split; [exact Hma | exact H]].
  split; [| split; [| split; [| split; [exact Hw | discriminate]]]].
  - intros x y Hx Hy Hk. apply He in Hy. destruct Hy as [Hy | Hy]; [apply Hd3 | apply G0a]; assumption.
  - intros x y Hx Hy Hk. apply He in Hx. destruct Hx as [Hx | Hx]; [apply Hmb | apply G1]; assumption.
  - eapply uniq_incl; [apply (uniq_app m (lvers l) (desc_log_uniq m Hd2) U1 G0b) |].
    intros x Hx. apply He in Hx. apply in_or_app. exact Hx.
Qed.
Lemma absorb_inv : forall st st' pre m f,
  inv st -> mem_log st = pre ++ m -> mem_log st' = pre -> levels st' = upd_l0 f (levels st) ->
  (forall l x, In x (lvers (f l)) <-> In x m \/ In x (lvers l)) -> (forall l, Forall table_wf l -> Forall table_wf (f l)) ->
  inv st' /\ (forall x, In x (all_versions st') <-> In x (all_versions st)).
Proof.
  intros st st' pre m f Hinv Hlog Hlog' Hlv He Hw. apply inv_lv_inv in Hinv. destruct Hinv as [H1 [H2 H3]].
  assert (Hall : forall x, In x (all_versions st') <-> In x (all_versions st)).
  { intros x. unfold all_versions, tab_versions. rewrite Hlog, Hlog', Hlv, upd_l0_norm. cbn [map concat].
    rewrite !in_app_iff. rewrite He. destruct (levels st) as [|l r]; cbn [hd tl map concat]; rewrite ?in_app_iff; unfold lvers; cbn [map concat In]; tauto. }
  split; [| exact Hall]. apply inv_lv_inv. rewrite Hlog', Hlv, upd_l0_norm. rewrite Hlog in H1, H2.
  split; [apply desc_log_app in H1; tauto |]. split.
  - apply lv_inv_norm in H2. eapply absorb_lv; [exact H1 | exact H2 | apply He |].
    apply Hw. destruct H2 as [_ [_ [_ [H2 _]]]]. inversion H2; assumption.
  - intros x Hx. apply H3. apply Hall. exact Hx.
Qed.

Lemma flush_absorbs : forall r id st, r_flush_oldest r = true -> inv st ->
  inv (flush r id st) /\ (forall x, In x (all_versions (flush r id st)) <-> In x (all_versions st)).
Proof.
  intros r id st Hr Hinv. unfold flush. rewrite Hr. destruct (imms st) as [|m rest] eqn:E; [split; [exact Hinv | tauto] |].
  apply (absorb_inv st _ (active st ++ concat (rev rest)) m (add_l0 id m)); auto.
  - unfold mem_log. rewrite E. cbn [rev]. rewrite concat_app. cbn [concat]. rewrite app_nil_r, app_assoc. reflexivity.
  - intros l x. apply in_add_l0.
  - intros l. apply wf_add_l0.
Qed.

Lemma split_cuts_concat : forall (A : Type) cuts (l : list A), concat (split_cuts cuts l) = l.
Proof.
  intros A. induction cuts as [|c r IH]; intros l; cbn [split_cuts concat]; [apply app_nil_r |].
  rewrite IH. apply firstn_skipn.
Qed.
Lemma in_flush_pieces : forall ps ids l0 x, In x (lvers (flush_pieces ps ids l0)) <-> In x (concat ps) \/ In x (lvers l0).
Proof.
  induction ps as [|p r IH]; intros ids l0 x; cbn [flush_pieces concat]; [cbn [In]; tauto |].
  rewrite in_add_l0, IH, in_app_iff. tauto.
Qed.
Lemma wf_flush_pieces : forall ps ids l0, Forall table_wf l0 -> Forall table_wf (flush_pieces ps ids l0).
Proof. induction ps as [|p r IH]; intros ids l0 H; cbn [flush_pieces]; [exact H |]. apply wf_add_l0. apply IH. exact H. Qed.
Lemma reopen_absorbs : forall cuts ids st, inv st ->
  inv (reopen cuts ids st) /\ (forall x, In x (all_versions (reopen cuts ids st)) <-> In x (all_versions st)).
Proof.
  intros cuts ids st Hinv. unfold reopen. pose proof (split_cuts_concat version cuts (mem_log st)) as Hc.
  destruct (split_cuts cuts (mem_log st)) as [|p0 ps] eqn:E; [split; [exact Hinv | tauto] |].
  cbn [concat] in Hc. apply (absorb_inv st _ p0 (concat ps) (flush_pieces ps ids)); auto.
  - unfold mem_log. cbn [active imms rev concat]. apply app_nil_r.
  - intros l x. apply in_flush_pieces.
  - intros l. apply wf_flush_pieces.
Qed.

Theorem step_inv : forall r, rules_okb r = true -> step_inv_stmt r.
Proof.
  intros r Hr st o Hinv Hok. destruct (rules_ok_fields r Hr) as [_ [_ Hf]].
  destruct o as [b | | id | src ids newid c snaps | cuts ids]; cbn [step op_ok] in *.
  - apply commit_inv; assumption.
  - apply rotate_inv; assumption.
  - apply flush_absorbs; assumption.
  - apply compact_inv; assumption.
  - apply reopen_absorbs; assumption.
Qed.
Theorem run_inv : forall r, rules_okb r = true -> run_inv_stmt r.
Proof.
  intros r Hr ops. unfold run. induction ops as [|o rest IH]; intros st Hinv Hok; cbn [fold_left]; [exact Hinv |].
  destruct Hok as [H1 H2]. apply IH; [apply step_inv; assumption | exact H2].
Qed.

(* ====================================================================================== *)
(* 7. the versions of one key as the compaction iterator sees them                        *)
(* ====================================================================================== *)
Definition wdesc (l : list ver) : Prop := StronglySorted (fun a b => vseq b <= vseq a) l.
Lemma in_insert_desc : forall v l w, In w (insert_desc v l) <-> w = v \/ In w l.
Proof.
  intros v l w. induction l as [|x r IH]; cbn [insert_desc].
  - cbn [In]. intuition congruence.
  - destruct (vseq x <? vseq v); cbn [In]; [| rewrite IH]; intuition congruence.
Qed.
Lemma insert_desc_wdesc : forall v l, wdesc l -> wdesc (insert_desc v l).
Proof.
  intros v. induction l as [|x r IH]; intros H; cbn [insert_desc].
  - constructor; [constructor | constructor].
  - inversion H as [|? ? Hr Hall]; subst. destruct (vseq x <? vseq v) eqn:E.
    + constructor; [exact H |]. constructor; [lia |]. rewrite Forall_forall in *. intros w Hw. specialize (Hall w Hw). lia.
    + constructor; [apply IH; exact Hr |]. rewrite Forall_forall in *. intros w Hw. apply in_insert_desc in Hw.
      destruct Hw as [Ew | Hw]; [subst; lia | apply Hall; exact Hw].
Qed.
Lemma fold_insert_desc : forall vs acc, wdesc acc ->
  wdesc (fold_left (fun acc v => insert_desc v acc) vs acc) /\
  forall w, In w (fold_left (fun acc v => insert_desc v acc) vs acc) <-> In w vs \/ In w acc.
Proof.
  induction vs as [|v r IH]; intros acc H; cbn [fold_left].
  - split; [exact H | intros w; cbn [In]; tauto].
  - destruct (IH (insert_desc v acc) (insert_desc_wdesc v acc H)) as [H1 H2]. split; [exact H1 |].
    intros w. rewrite H2, in_insert_desc. cbn [In]. intuition congruence.
Qed.
Lemma dedup_seq_in : forall l w, In w (dedup_seq l) -> In w l.
Proof.
  induction l as [|x r IH]; intros w H; [destruct H |]. cbn [dedup_seq] in H. destruct r as [|y q].
  - exact H.
  - destruct (vseq x =? vseq y); [right; apply IH; exact H |]. destruct H as [E | H]; [left; exact E | right; apply IH; exact H].
Qed.
Lemma dedup_seq_has : forall l w, In w l -> exists w', In w' (dedup_seq l) /\ vseq w' = vseq w.
Proof.
  induction l as [|x r IH]; intros w H; [destruct H |]. cbn [dedup_seq]. destruct r as [|y q].
  - destruct H as [E | []]. subst. exists w. split; [left; reflexivity | reflexivity].
  - destruct (vseq x =? vseq y) eqn:E.
    + destruct H as [Ew | H]; [subst w | apply IH; exact H].
      destruct (IH y (or_introl eq_refl)) as [w' [H1 H2]]. exists w'. split; [exact H1 | lia].
    + destruct H as [Ew | H]; [subst w; exists x; split; [left; reflexivity | reflexivity] |].
      destruct (IH w H) as [w' [H1 H2]]. exists w'. split; [right; exact H1 | exact H2].
Qed.
Lemma dedup_seq_desc : forall l, wdesc l -> desc (dedup_seq l).
Proof.
  induction l as [|x r IH]; intros H; [constructor |]. inversion H as [|? ? Hr Hall]; subst. cbn [dedup_seq]. destruct r as [|y q].
  - constructor; [constructor | constructor].
  - destruct (vseq x =? vseq y) eqn:E; [apply IH; exact Hr |].
    constructor; [apply IH; exact Hr |]. rewrite Forall_forall in *. intros w Hw. apply dedup_seq_in in Hw.
    assert (Hy : vseq y <= vseq x) by (apply Hall; left; reflexivity).
    inversion Hr as [|? ? _ Hall']; subst. rewrite Forall_forall in Hall'.
    destruct Hw as [Ew | Hw]; [subst; lia | specialize (Hall' w Hw); lia].
Qed.
Lemma sorted_vers_desc : forall l, desc (sorted_vers l).
Proof. intros l. unfold sorted_vers. apply dedup_seq_desc. apply fold_insert_desc. constructor. Qed.
Lemma sorted_vers_in : forall l v, In v (sorted_vers l) -> exists x, In x l /\ xver x = v.
Proof.
  intros l v H. unfold sorted_vers in H. apply dedup_seq_in in H.
  apply (proj2 (fold_insert_desc (map xver l) [] (SSorted_nil _))) in H. destruct H as [H | []].
  apply in_map_iff in H. destruct H as [x [E Hx]]. exists x. auto.
Qed.
Lemma sorted_vers_has : forall l x, In x l -> exists v, In v (sorted_vers l) /\ vseq v = xseq x.
Proof.
  intros l x Hx. unfold sorted_vers. apply dedup_seq_has.
  apply (proj2 (fold_insert_desc (map xver l) [] (SSorted_nil _))). left. apply in_map. exact Hx.
Qed.

Lemma sublist_in : forall a b v, sublist a b -> In v a -> In v b.
Proof.
  induction a as [|x r IH]; intros b v Hs Hv; [destruct Hv |].
  induction b as [|y q IHb]; cbn [sublist] in Hs; [destruct Hs |].
  destruct Hs as [[E Hs] | Hs].
  - subst y. destruct Hv as [Ev | Hv]; [left; exact Ev | right; apply (IH q v Hs Hv)].
  - right. apply IHb. exact Hs.
Qed.
Lemma sublist_desc : forall a b, sublist a b -> desc b -> desc a.
Proof.
  induction a as [|x r IH]; intros b Hs Hd; [constructor |].
  induction b as [|y q IHb]; cbn [sublist] in Hs; [destruct Hs |].
  inversion Hd as [|? ? Hq Hall]; subst. destruct Hs as [[E Hs] | Hs].
  - subst y. constructor; [apply (IH q Hs Hq) |]. rewrite Forall_forall in *. intros w Hw. apply Hall. eapply sublist_in; [exact Hs | exact Hw].
  - apply IHb; assumption.
Qed.
(* in a strictly descending list the newest visible version is the visible one with the largest seq *)
Lemma visible_at_max : forall vs v s, desc vs -> In v vs -> vseq v <= s ->
  (forall w, In w vs -> vseq w <= s -> vseq w <= vseq v) -> visible_at vs s = Some v.
Proof.
  induction vs as [|x r IH]; intros v s Hd Hv Hs Hm; [destruct Hv |].
  inversion Hd as [|? ? Hr Hall]; subst. rewrite Forall_forall in Hall. unfold visible_at. cbn [find].
  destruct (vseq x <=? s) eqn:E.
  - destruct Hv as [Ev | Hv]; [subst; reflexivity |]. specialize (Hall v Hv). specialize (Hm x (or_introl eq_refl)). lia.
  - destruct Hv as [Ev | Hv]; [subst; lia |]. apply IH; auto. intros w Hw. apply Hm. right. exact Hw.
Qed.
Lemma visible_at_some : forall vs s v, visible_at vs s = Some v -> In v vs /\ vseq v <= s.
Proof. intros vs s v H. unfold visible_at in H. apply find_some in H. destruct H as [H1 H2]. split; [exact H1 | lia]. Qed.

Lemma in_key_versions : forall k l x, In x (key_versions k l) <-> In x l /\ xkey x = k.
Proof. intros k l x. unfold key_versions. rewrite filter_In. rewrite beq_eq. reflexivity. Qed.
(* the kept versions of a key, as versions *)
Lemma in_kept_of : forall kv kept x, uniq kv -> (forall a b, In a kv -> In b kv -> xkey a = xkey b) ->
  (forall v, In v kept -> exists y, In y kv /\ xver y = v) ->
  (In x (kept_of kv kept) <-> In x kv /\ In (xver x) kept).
Proof.
  intros kv kept x Hu Hk Hsub. unfold kept_of. rewrite in_flat_map. split.
  - intros [v [Hv H]]. destruct (find (fun y => xseq y =? vseq v) kv) as [y|] eqn:E; [| destruct H].
    destruct H as [H | []]. subst y. apply find_some in E. destruct E as [E1 E2].
    split; [exact E1 |]. destruct (Hsub v Hv) as [y [Hy Ey]].
    assert (x = y) by (apply Hu; [exact E1 | exact Hy | apply Hk; assumption | subst v; unfold xseq in *; lia]). subst y. rewrite Ey. exact Hv.
  - intros [Hx Hv]. exists (xver x). split; [exact Hv |].
    destruct (find (fun y => xseq y =? vseq (xver x)) kv) as [y|] eqn:E.
    + apply find_some in E. destruct E as [E1 E2]. left. apply Hu; [exact E1 | exact Hx | apply Hk; assumption | unfold xseq in *; lia].
    + exfalso. apply (find_none _ _ E) in Hx. unfold xseq in Hx. lia.
Qed.
Lemma in_dedup_keys : forall l k, In k (dedup_keys l) <-> In k l.
Proof.
  induction l as [|a r IH]; intros k; cbn [dedup_keys]; [tauto |].
  destruct (existsb (bytes_eqb a) r) eqn:E.
  - rewrite IH. cbn [In]. split; [tauto |]. intros [Ea | H]; [| exact H]. subst.
    apply existsb_exists in E. destruct E as [y [Hy Ey]]. apply beq_eq in Ey. subst. exact Hy.
  - cbn [In]. rewrite IH. tauto.
Qed.
(* the output, key by key *)
Lemma in_compact_versions : forall bottom c snaps merged x, uniq merged ->
  (In x (compact_versions bottom c snaps merged) <->
   In x merged /\ In (xver x) (compact_key bottom (c_versioning c) (c_retention c) (c_now c) snaps
                                           (sorted_vers (key_versions (xkey x) merged)))).
Proof.
  intros bottom c snaps merged x Hu. unfold compact_versions. rewrite in_flat_map.
  assert (Hkept : forall k, let kv := key_versions k merged in
            forall y, In y (kept_of kv (compact_key bottom (c_versioning c) (c_retention c) (c_now c) snaps (sorted_vers kv))) <->
                      In y kv /\ In (xver y) (compact_key bottom (c_versioning c) (c_retention c) (c_now c) snaps (sorted_vers kv))).
  { intros k kv y. apply in_kept_of.
    - eapply uniq_incl; [exact Hu |]. intros z Hz. apply in_key_versions in Hz. tauto.
    - intros a b Ha Hb. apply in_key_versions in Ha. apply in_key_versions in Hb. destruct Ha, Hb. congruence.
    - intros v Hv. apply sorted_vers_in. eapply sublist_in; [apply compact_key_sublist | exact Hv]. }
  split.
  - intros [k [_ H]]. apply Hkept in H. destruct H as [H1 H2]. apply in_key_versions in H1. destruct H1 as [H1 H1']. subst k. tauto.
  - intros [H1 H2]. exists (xkey x). split; [apply in_dedup_keys; apply in_map; exact H1 |].
    apply Hkept. split; [apply in_key_versions; tauto | exact H2].
Qed.

(* ====================================================================================== *)
(* 8. replacing the inputs of a compaction by its output changes no relevant reader's view *)
(* ====================================================================================== *)
Lemma view_replace : forall R I bottom c snaps s k,
  uniq (R ++ I) -> (forall x, In x I -> 0 < xseq x) -> asc snaps ->
  (In s snaps \/ forall x, In x I -> xseq x <= s) ->
  (bottom = true -> forall b b', In b I -> In b' R -> xkey b = xkey b' -> xseq b < xseq b') ->
  answer (best (visible k s (R ++ compact_versions bottom c snaps I))) = answer (best (visible k s (R ++ I))).
Proof.
  intros R I bottom c snaps s k Hu Hpos Hasc Hs Hbot.
  set (O := compact_versions bottom c snaps I).
  assert (HuI : uniq I) by (eapply uniq_incl; [exact Hu | apply incl_appr, incl_refl]).
  assert (HOI : incl O I) by apply compact_versions_incl.
  assert (Hsub : incl (R ++ O) (R ++ I)) by (apply incl_app; [apply incl_appl, incl_refl | apply incl_appr; exact HOI]).
  assert (HuO : uniq (R ++ O)) by (eapply uniq_incl; [exact Hu | exact Hsub]).
  pose proof (src_get_spec (R ++ I) k s) as HV. pose proof (src_get_spec (R ++ O) k s) as HV'. unfold src_get in HV, HV'.
  destruct (best (visible k s (R ++ I))) as [b|] eqn:Eb.
  2:{ (* nothing visible before: nothing after *)
      unfold hit_spec in HV. destruct (best (visible k s (R ++ O))) as [b'|] eqn:Eb'; [| reflexivity].
      destruct HV' as [Hb' _]. apply visible_in in Hb'. destruct Hb' as [Hb' [Hk Hle]].
      assert (Hin : In b' (visible k s (R ++ I))) by (apply visible_in; split; [apply Hsub; exact Hb' | tauto]).
      rewrite HV in Hin. destruct Hin. }
  destruct HV as [Hb Hbm]. pose proof Hb as Hb0. apply visible_in in Hb. destruct Hb as [HbRI [Hbk Hbs]].
  (* the case where b survives *)
  assert (Hsurv : In b (R ++ O) -> best (visible k s (R ++ O)) = Some b).
  { intros Hin. apply (hit_unique (R ++ O) k s); [exact HuO | apply src_get_spec |].
    split; [apply visible_in; tauto |]. intros x Hx. apply Hbm. apply visible_in in Hx. apply visible_in. split; [apply Hsub; tauto | tauto]. }
  destruct (in_app_or _ _ _ HbRI) as [HbR | HbI]; [rewrite (Hsurv (in_or_app _ _ _ (or_introl HbR))); reflexivity |].
  (* b is an input: what the compaction iterator sees of its key *)
  set (kv := key_versions k I). set (vs := sorted_vers kv).
  set (kept := compact_key bottom (c_versioning c) (c_retention c) (c_now c) snaps vs).
  assert (Hbkv : In b kv) by (apply in_key_versions; tauto).
  assert (Hdesc : desc vs) by apply sorted_vers_desc.
  assert (Hvs_of : forall v, In v vs -> exists x, In x kv /\ xver x = v) by (intros v Hv; apply sorted_vers_in; exact Hv).
  assert (Hkv_uniq : forall x y, In x kv -> In y kv -> xseq x = xseq y -> x = y).
  { intros x y Hx Hy Hq. apply in_key_versions in Hx. apply in_key_versions in Hy. apply HuI; try tauto. destruct Hx, Hy. congruence. }
  assert (Hvs_b : In (xver b) vs).
  { destruct (sorted_vers_has kv b Hbkv) as [v [Hv Hq]]. destruct (Hvs_of v Hv) as [x [Hx Ex]].
    assert (x = b) by (apply Hkv_uniq; [exact Hx | exact Hbkv | subst v; unfold xseq in *; lia]). subst x. rewrite Ex. exact Hv. }
  assert (Hvis : visible_at vs s = Some (xver b)).
  { apply visible_at_max; [exact Hdesc | exact Hvs_b | exact Hbs |].
    intros w Hw Hws. destruct (Hvs_of w Hw) as [x [Hx Ex]]. subst w. apply in_key_versions in Hx.
    apply (Hbm x). apply visible_in. split; [apply in_or_app; right; tauto | split; [tauto | exact Hws]]. }
  assert (Hrel : In s snaps \/ top vs <= s).
  { destruct Hs as [Hs | Hs]; [left; exact Hs | right]. destruct vs as [|v r] eqn:Ev; cbn [top]; [lia |].
    destruct (Hvs_of v (or_introl eq_refl)) as [x [Hx Ex]]. subst v. apply in_key_versions in Hx. apply Hs. tauto. }
  assert (Hposvs : forall v, In v vs -> 0 < vseq v).
  { intros v Hv. destruct (Hvs_of v Hv) as [x [Hx Ex]]. subst v. apply in_key_versions in Hx. apply Hpos. tauto. }
  destruct (compact_key_view bottom (c_versioning c) (c_retention c) (c_now c) snaps vs s Hdesc Hasc Hposvs Hrel) as [Hget Hmask].
  fold kept in Hget, Hmask.
  assert (Hkept_in : forall v, In v kept -> In v vs) by (intros v Hv; eapply sublist_in; [apply compact_key_sublist | exact Hv]).
  assert (HinO : forall x, In x O <-> In x I /\ In (xver x) (compact_key bottom (c_versioning c) (c_retention c) (c_now c) snaps (sorted_vers (key_versions (xkey x) I))))
    by (intros x; apply in_compact_versions; exact HuI).
  (* if the iterator's newest visible kept version has b's seq, b is in the output *)
  assert (Hback : forall v', visible_at kept s = Some v' -> vseq v' = xseq b -> In b O).
  { intros v' Hv' Hq. apply visible_at_some in Hv'. destruct Hv' as [Hv' _].
    destruct (Hvs_of v' (Hkept_in v' Hv')) as [x [Hx Ex]].
    assert (x = b) by (apply Hkv_uniq; [exact Hx | exact Hbkv | subst v'; unfold xseq in *; lia]). subst x.
    apply HinO. split; [exact HbI |]. rewrite Hbk. fold kv. fold vs. fold kept. rewrite Ex. exact Hv'. }
  destruct bottom.
  2:{ (* above the bottom level the entry found first is the same one *)
      specialize (Hmask eq_refl). unfold obs_mask in Hmask. rewrite Hvis in Hmask.
      destruct (visible_at kept s) as [v'|] eqn:Ev; [| discriminate]. inversion Hmask as [[Hq Ht]].
      rewrite (Hsurv (in_or_app _ _ _ (or_intror (Hback v' eq_refl Hq)))). reflexivity. }
  unfold obs_get in Hget. rewrite Hvis in Hget.
  destruct (is_tomb (vkind (xver b))) eqn:Etomb.
  2:{ destruct (visible_at kept s) as [v'|] eqn:Ev; [| discriminate].
      destruct (is_tomb (vkind v')); [discriminate |]. inversion Hget as [Hq].
      rewrite (Hsurv (in_or_app _ _ _ (or_intror (Hback v' eq_refl Hq)))). reflexivity. }
  (* bottom level, b a tombstone: the answer is None before; nothing older can surface after *)
  cbn [answer]. unfold xtomb. rewrite Etomb.
  destruct (best (visible k s (R ++ O))) as [b'|] eqn:Eb'; [| reflexivity].
  destruct HV' as [Hb' Hbm']. pose proof Hb' as Hb'0. apply visible_in in Hb'. destruct Hb' as [Hb'RO [Hb'k Hb's]].
  destruct (in_app_or _ _ _ Hb'RO) as [Hb'R | Hb'O].
  - (* a remaining source cannot hold an older version of an input's key *)
    exfalso. assert (Hlt : xseq b < xseq b') by (apply (Hbot eq_refl b b' HbI Hb'R); congruence).
    assert (Hle : xseq b' <= xseq b) by (apply Hbm; apply visible_in; split; [apply Hsub; exact Hb'RO | tauto]). lia.
  - cbn [answer]. unfold xtomb.
    apply HinO in Hb'O. destruct Hb'O as [Hb'I Hb'kept]. rewrite Hb'k in Hb'kept. fold kv in Hb'kept. fold vs in Hb'kept. fold kept in Hb'kept.
    assert (Hvis' : visible_at kept s = Some (xver b')).
    { apply visible_at_max; [eapply sublist_desc; [apply compact_key_sublist | exact Hdesc] | exact Hb'kept | exact Hb's |].
      intros w Hw Hws. destruct (Hvs_of w (Hkept_in w Hw)) as [x [Hx Ex]]. subst w.
      apply (Hbm' x). apply visible_in. apply in_key_versions in Hx. split; [| tauto].
      apply in_or_app. right. apply HinO. split; [tauto |]. destruct Hx as [_ Hx]. rewrite Hx. exact Hw. }
    rewrite Hvis' in Hget. destruct (is_tomb (vkind (xver b'))); [reflexivity | discriminate].
Qed.

(* ====================================================================================== *)
(* 9. (c) a reader's view is stable under every step                                      *)
(* ====================================================================================== *)
Lemma lv_inv_prefix_above : forall pre first M suf, lv_inv first M (pre ++ suf) ->
  above M (allv suf) /\ above (allv pre) (allv suf).
Proof.
  induction pre as [|p pre IH]; intros first M suf H; cbn [app] in *.
  - split; [destruct H as [H _]; exact H | apply above_nil_l].
  - apply lv_inv_cons in H. destruct H as [[_ [H2 _]] H6]. destruct (IH false M suf H6) as [I1 I2].
    split; [exact I1 |]. rewrite allv_cons. apply above_app_l. split; [| exact I2].
    rewrite allv_app in H2. apply above_app_r in H2. tauto.
Qed.

Lemma view_equiv : forall l l' k s, uniq l -> (forall x, In x l <-> In x l') ->
  answer (best (visible k s l)) = answer (best (visible k s l')).
Proof. intros l l' k s Hu He. rewrite (best_equiv l l' k s Hu He). reflexivity. Qed.

Lemma compact_view : forall src ids newid c snaps st s k,
  inv st -> sel_ok st src ids -> asc snaps ->
  (In s snaps \/ forall x, In x (all_versions st) -> xseq x <= s) ->
  view_of_all (compact src ids newid c snaps st) s k = view_of_all st s k.
Proof.
  intros src ids newid c snaps st s k Hinv Hsel Hasc Hs.
  pose proof (compact_inv src ids newid c snaps st Hinv Hsel) as Hinv'.
  pose proof (inv_uniq _ Hinv) as Hu. pose proof (inv_uniq _ Hinv') as Hu'.
  apply inv_lv_inv in Hinv. destruct Hinv as [H1 [H2 H3]].
  unfold view_of_all, hit_of_all. unfold sel_ok in Hsel.
  unfold compact, all_versions, tab_versions, mem_log in *. cbn [active imms levels] in *.
  unfold compact_levels in *. fold (allv (levels st)) in *.
  destruct (focus src (levels st)) as [[[pre ls] post]|] eqn:E; [| reflexivity].
  apply focus_spec in E. destruct Hsel as [S1 S2].
  set (M := active st ++ concat (rev (imms st))) in *. rewrite E in *. clear E.
  destruct (lv_inv_prefix_above pre true M _ H2) as [A1 A2].
  pose proof (lv_inv_drop_prefix pre true M _ H2) as Hsuf.
  destruct post as [|lt post].
  - (* the last level, in place *)
    set (I := lvers (filter (picked ids) ls)) in *.
    set (R := M ++ allv pre ++ lvers (filter (unpicked ids) ls)).
    assert (EI : forall x, In x (M ++ allv (pre ++ [ls])) <-> In x (R ++ I)).
    { intros x. unfold R, I. rewrite allv_app, !in_app_iff. unfold allv at 2. cbn [map concat]. rewrite app_nil_r.
      rewrite (lvers_split ids ls x). tauto. }
    assert (EO : forall O b, (forall x, In x (M ++ concat (map lvers (pre ++ [add_out b newid O (filter (unpicked ids) ls)]))) <-> In x (R ++ O))).
    { intros O b x. unfold R. fold (allv (pre ++ [add_out b newid O (filter (unpicked ids) ls)])). rewrite allv_app, !in_app_iff.
      unfold allv at 2. cbn [map concat]. rewrite app_nil_r, in_add_out. tauto. }
    rewrite (view_equiv _ _ k s Hu' (EO _ _)). fold (allv (pre ++ [ls])). rewrite (view_equiv _ _ k s Hu EI).
    apply view_replace; auto.
    + eapply uniq_incl; [exact Hu | intros x Hx; apply EI; exact Hx].
    + intros x Hx. apply H3. apply EI. apply in_or_app. right. exact Hx.
    + destruct Hs as [Hs | Hs]; [left; exact Hs | right; intros x Hx; apply Hs; apply EI; apply in_or_app; right; exact Hx].
    + intros _ b b' Hb Hb' Hk. unfold R in Hb'. rewrite !in_app_iff in Hb'.
      assert (Hbls : In b (lvers ls)) by (eapply lvers_filter_incl; exact Hb).
      assert (Hbsuf : In b (allv [ls])) by (unfold allv; cbn [map concat]; rewrite app_nil_r; exact Hbls).
      destruct Hb' as [Hb' | [Hb' | Hb']]; [apply A1 | apply A2 | apply S1]; auto.
  - (* source level into the next one *)
    set (I := lvers (filter (picked ids) ls ++ filter (picked ids) lt)) in *.
    set (R := M ++ allv pre ++ lvers (filter (unpicked ids) ls) ++ lvers (filter (unpicked ids) lt) ++ allv post).
    assert (EI : forall x, In x (M ++ allv (pre ++ ls :: lt :: post)) <-> In x (R ++ I)).
    { intros x. unfold R, I. rewrite allv_app, !allv_cons, lvers_app, !in_app_iff.
      rewrite (lvers_split ids ls x), (lvers_split ids lt x). tauto. }
    assert (EO : forall O, (forall x, In x (M ++ concat (map lvers (pre ++ filter (unpicked ids) ls :: add_out false newid O (filter (unpicked ids) lt) :: post))) <-> In x (R ++ O))).
    { intros O x. unfold R. fold (allv (pre ++ filter (unpicked ids) ls :: add_out false newid O (filter (unpicked ids) lt) :: post)).
      rewrite allv_app, !allv_cons, !in_app_iff, in_add_out. tauto. }
    rewrite (view_equiv _ _ k s Hu' (EO _)). fold (allv (pre ++ ls :: lt :: post)). rewrite (view_equiv _ _ k s Hu EI).
    apply view_replace; auto.
    + eapply uniq_incl; [exact Hu | intros x Hx; apply EI; exact Hx].
    + intros x Hx. apply H3. apply EI. apply in_or_app. right. exact Hx.
    + destruct Hs as [Hs | Hs]; [left; exact Hs | right; intros x Hx; apply Hs; apply EI; apply in_or_app; right; exact Hx].
    + intros Hbot b b' Hb Hb' Hk. destruct post as [|p post]; [| discriminate].
      apply lv_inv_cons in Hsuf. destruct Hsuf as [[_ [G1 _]] Hsuf]. apply lv_inv_cons in Hsuf. destruct Hsuf as [[_ [_ [_ [_ D2]]]] _].
      rewrite allv_cons in G1. apply above_app_r in G1. destruct G1 as [G1a _].
      unfold I in Hb. rewrite lvers_app in Hb. unfold R in Hb'. rewrite !in_app_iff in Hb'.
      assert (Hbsuf : In b (allv (ls :: lt :: []))).
      { rewrite !allv_cons. rewrite !in_app_iff. apply in_app_or in Hb. destruct Hb as [Hb | Hb]; apply lvers_filter_incl in Hb; tauto. }
      destruct Hb' as [Hb' | [Hb' | [Hb' | [Hb' | Hb']]]].
      * apply A1; auto.
      * apply A2; auto.
      * apply in_app_or in Hb. destruct Hb as [Hb | Hb]; [apply S1; auto |].
        apply G1a; [eapply lvers_filter_incl; exact Hb' | eapply lvers_filter_incl; exact Hb | auto].
      * exfalso. apply in_lvers in Hb'. destruct Hb' as [t' [Ht' Hb']]. apply in_app_or in Hb. destruct Hb as [Hb | Hb];
          apply in_lvers in Hb; destruct Hb as [t [Ht Hb]].
        { apply (S2 t' t Ht' Ht). exists b', b. auto. }
        { apply filter_In in Ht. apply filter_In in Ht'.
          apply (key_disjoint_in lt t t' (D2 eq_refl)); [tauto | tauto | apply (picked_unpicked_ne ids); tauto |]. exists b, b'. auto. }
      * unfold allv in Hb'. destruct Hb'.
Qed.

Lemma commit_view : forall b st s k, (forall x, In x b -> s < xseq x) ->
  view_of_all (commit b st) s k = view_of_all st s k.
Proof.
  intros b st s k Hb. unfold view_of_all, hit_of_all, all_versions, mem_log, tab_versions, commit. cbn [active imms levels].
  rewrite <- !app_assoc. rewrite (visible_app k s (rev b)).
  assert (Hnil : visible k s (rev b) = []).
  { apply visible_nil_iff. intros x Hx _. apply Hb. apply in_rev. exact Hx. }
  rewrite Hnil. reflexivity.
Qed.

Lemma step_view : forall r, rules_okb r = true -> forall st o s k,
  inv st -> op_ok st o -> op_keeps s st o -> view_of_all (step r st o) s k = view_of_all st s k.
Proof.
  intros r Hr st o s k Hinv Hok Hkeep. destruct (rules_ok_fields r Hr) as [_ [_ Hf]].
  destruct o as [b | | id | src ids newid c snaps | cuts ids]; cbn [step op_ok op_keeps] in *.
  - apply commit_view. exact Hkeep.
  - unfold view_of_all, hit_of_all. rewrite rotate_all. reflexivity.
  - destruct (flush_absorbs r id st Hf Hinv) as [Hi He]. unfold view_of_all, hit_of_all.
    apply view_equiv; [apply inv_uniq; exact Hi | exact He].
  - destruct Hkeep as [Hasc Hs]. apply compact_view; assumption.
  - destruct (reopen_absorbs cuts ids st Hinv) as [Hi He]. unfold view_of_all, hit_of_all.
    apply view_equiv; [apply inv_uniq; exact Hi | exact He].
Qed.

Lemma run_ok_split : forall (P Q : store -> op -> Prop) r ops st,
  run_ok (fun st o => P st o /\ Q st o) r st ops <-> run_ok P r st ops /\ run_ok Q r st ops.
Proof.
  intros P Q r. induction ops as [|o rest IH]; intros st; cbn [run_ok]; [tauto |]. rewrite IH. tauto.
Qed.

Theorem run_view_stable : forall r, rules_okb r = true -> run_view_stable_stmt r.
Proof.
  intros r Hr ops. induction ops as [|o rest IH]; intros st s Hinv Hok k.
  - unfold run. cbn [fold_left]. split; reflexivity.
  - destruct Hok as [[H1 H2] H3]. unfold run in *. cbn [fold_left].
    pose proof (step_inv r Hr st o Hinv H1) as Hinv'.
    destruct (IH (step r st o) s Hinv' H3 k) as [I1 I2].
    pose proof (step_view r Hr st o s k Hinv H1 H2) as Hv.
    split; [rewrite I1; exact Hv |].
    rewrite I2. rewrite (get_is_view r Hr _ k s Hinv'), (get_is_view r Hr _ k s Hinv). exact Hv.
Qed.

Theorem placement_independence : forall r, rules_okb r = true -> placement_independence_stmt r.
Proof.
  intros r Hr ops st Hinv _ Hok s Hkeep k.
  destruct (run_view_stable r Hr ops st s Hinv (proj2 (run_ok_split _ _ r ops st) (conj Hok Hkeep)) k) as [H1 H2]. tauto.
Qed.

(* ====================================================================================== *)
(* 10. the decidable forms                                                                *)
(* ====================================================================================== *)
Lemma same_key_iff : forall x y, same_key x y = true <-> xkey x = xkey y.
Proof. intros. unfold same_key. apply beq_eq. Qed.
Lemma pair_b_iff : forall x y, (negb (same_key x y) || (xseq y <? xseq x)) = true <-> (xkey x = xkey y -> xseq y < xseq x).
Proof.
  intros x y. destruct (same_key x y) eqn:E; cbn [negb orb].
  - apply same_key_iff in E. split; [intros H _; lia | intros H; specialize (H E); lia].
  - split; [intros _ Hk; apply same_key_iff in Hk; congruence | reflexivity].
Qed.
Lemma above_b_iff : forall A B, above_b A B = true <-> above A B.
Proof.
  intros A B. unfold above_b, above. rewrite forallb_forall. split.
  - intros H x y Hx Hy. specialize (H x Hx). rewrite forallb_forall in H. apply pair_b_iff. apply H. exact Hy.
  - intros H x Hx. apply forallb_forall. intros y Hy. apply pair_b_iff. apply H; assumption.
Qed.
Lemma desc_log_b_iff : forall l, desc_log_b l = true <-> desc_log l.
Proof.
  induction l as [|x r IH]; cbn [desc_log_b desc_log]; [tauto |].
  rewrite andb_true_iff, IH, forallb_forall. split; intros [H1 H2]; (split; [| exact H2]).
  - intros y Hy. apply pair_b_iff. apply H1. exact Hy.
  - intros y Hy. apply pair_b_iff. apply H1. exact Hy.
Qed.
Lemma kind_eqb_eq : forall a b, kind_eqb a b = true <-> a = b.
Proof. intros [] []; cbn [kind_eqb]; split; intros H; try discriminate; reflexivity. Qed.
Lemma version_eqb_eq : forall x y, version_eqb x y = true <-> x = y.
Proof.
  intros [k1 [s1 kd1 t1] v1] [k2 [s2 kd2 t2] v2]. unfold version_eqb, xseq. cbn [xkey xver xval vseq vkind vts].
  rewrite !andb_true_iff, !beq_eq, kind_eqb_eq, !N.eqb_eq. split.
  - intros [[[[H1 H2] H3] H4] H5]. subst. reflexivity.
  - intros H. inversion H. subst. tauto.
Qed.
Lemma uniq_b_iff : forall l, uniq_b l = true <-> uniq l.
Proof.
  intros l. unfold uniq_b, uniq. rewrite forallb_forall. split.
  - intros H x y Hx Hy Hk Hs. specialize (H x Hx). rewrite forallb_forall in H. specialize (H y Hy).
    apply same_key_iff in Hk. rewrite Hk in H. apply N.eqb_eq in Hs. rewrite Hs in H. cbn [andb negb orb] in H. apply version_eqb_eq. exact H.
  - intros H x Hx. apply forallb_forall. intros y Hy.
    destruct (same_key x y) eqn:Ek; [| reflexivity]. destruct (xseq x =? xseq y) eqn:Es; [| reflexivity].
    cbn [andb negb orb]. apply version_eqb_eq. apply H; auto; [apply same_key_iff; exact Ek | apply N.eqb_eq; exact Es].
Qed.
Lemma share_key_b_iff : forall a b, share_key_b a b = true <-> share_key a b.
Proof.
  intros a b. unfold share_key_b, share_key. rewrite existsb_exists. split.
  - intros [x [Hx H]]. apply existsb_exists in H. destruct H as [y [Hy H]]. exists x, y. repeat split; auto. apply same_key_iff. exact H.
  - intros [x [y [Hx [Hy Hk]]]]. exists x. split; [exact Hx |]. apply existsb_exists. exists y. split; [exact Hy | apply same_key_iff; exact Hk].
Qed.
Lemma not_share_key_b_iff : forall a b, negb (share_key_b a b) = true <-> ~ share_key a b.
Proof.
  intros a b. rewrite <- share_key_b_iff. destruct (share_key_b a b); cbn [negb]; split; intros H.
  - discriminate.
  - exfalso. apply H. reflexivity.
  - intros H'. discriminate.
  - reflexivity.
Qed.
Lemma key_disjoint_b_iff : forall ts, key_disjoint_b ts = true <-> key_disjoint ts.
Proof.
  induction ts as [|t r IH]; cbn [key_disjoint_b key_disjoint]; [tauto |].
  rewrite andb_true_iff, IH, forallb_forall. split; intros [H1 H2]; (split; [| exact H2]); intros t' Ht'; apply not_share_key_b_iff; apply H1; exact Ht'.
Qed.
Lemma table_wf_b_iff : forall t, table_wf_b t = true <-> table_wf t.
Proof. intros t. unfold table_wf_b, table_wf. apply forallb_forall. Qed.
Lemma lv_ordered_b_iff : forall lv, lv_ordered_b lv = true <-> lv_ordered lv.
Proof. induction lv as [|l r IH]; cbn [lv_ordered_b lv_ordered]; [tauto |]. rewrite andb_true_iff, IH, above_b_iff. reflexivity. Qed.
Lemma forallb_Forall : forall (A : Type) (p : A -> bool) (P : A -> Prop) l,
  (forall x, p x = true <-> P x) -> (forallb p l = true <-> Forall P l).
Proof.
  intros A p P l H. rewrite forallb_forall, Forall_forall. split; intros H' x Hx; apply H; apply H'; exact Hx.
Qed.
Theorem inv_b_iff : forall st, inv_b st = true <-> inv st.
Proof.
  intros st. unfold inv_b, inv. rewrite !andb_true_iff, desc_log_b_iff, above_b_iff, lv_ordered_b_iff.
  rewrite (forallb_Forall _ _ (fun l => uniq (lvers l))) by (intros l; apply uniq_b_iff).
  rewrite (forallb_Forall _ _ (Forall table_wf)) by (intros l; apply forallb_Forall; apply table_wf_b_iff).
  rewrite (forallb_Forall _ _ key_disjoint) by apply key_disjoint_b_iff.
  rewrite forallb_forall.
  assert (Hp : (forall x, In x (all_versions st) -> (0 <? xseq x) = true) <-> (forall x, In x (all_versions st) -> 0 < xseq x)).
  { split; intros H x Hx; specialize (H x Hx); lia. }
  rewrite Hp. tauto.
Qed.
Theorem inv_b_sound : inv_b_sound_stmt.
Proof. intros st H. apply inv_b_iff. exact H. Qed.

Lemma commit_ok_b_iff : forall st b, commit_ok_b st b = true <-> commit_ok st b.
Proof.
  intros st b. unfold commit_ok_b, commit_ok. rewrite !andb_true_iff, desc_log_b_iff, above_b_iff, forallb_forall.
  assert (Hp : (forall x, In x b -> (0 <? xseq x) = true) <-> (forall x, In x b -> 0 < xseq x)).
  { split; intros H x Hx; specialize (H x Hx); lia. }
  rewrite Hp. tauto.
Qed.
Lemma sel_ok_b_iff : forall st src ids, sel_ok_b st src ids = true <-> sel_ok st src ids.
Proof.
  intros st src ids. unfold sel_ok_b, sel_ok. destruct (focus src (levels st)) as [[[pre ls] post]|]; [| tauto].
  rewrite andb_true_iff, above_b_iff. destruct post as [|lt post]; [tauto |].
  rewrite forallb_forall. split; intros [H1 H2]; (split; [exact H1 |]).
  - intros t' t Ht' Ht. specialize (H2 t' Ht'). rewrite forallb_forall in H2. apply not_share_key_b_iff. apply H2. exact Ht.
  - intros t' Ht'. apply forallb_forall. intros t Ht. apply not_share_key_b_iff. apply H2; assumption.
Qed.
Theorem op_ok_b_iff : forall st o, op_ok_b st o = true <-> op_ok st o.
Proof.
  intros st o. destruct o; cbn [op_ok_b op_ok]; try tauto; [apply commit_ok_b_iff | apply sel_ok_b_iff].
Qed.
Theorem op_ok_b_sound : op_ok_b_sound_stmt.
Proof. intros st o H. apply op_ok_b_iff. exact H. Qed.

Lemma asc_b_sound : forall l, asc_b l = true -> asc l.
Proof.
  induction l as [|a r IH]; intros H; [constructor |]. cbn [asc_b] in H. apply andb_prop in H. destruct H as [H1 H2].
  specialize (IH H2). constructor; [exact IH |]. destruct r as [|b q]; [constructor |].
  inversion IH as [|? ? Hq Hall]; subst. constructor; [lia |]. rewrite Forall_forall in *. intros x Hx. specialize (Hall x Hx). lia.
Qed.
Theorem op_keeps_b_sound : op_keeps_b_sound_stmt.
Proof.
  intros s st o H. destruct o as [b | | id | src ids newid c snaps | cuts ids]; cbn [op_keeps_b op_keeps] in *; auto.
  - rewrite forallb_forall in H. intros x Hx. specialize (H x Hx). lia.
  - apply andb_prop in H. destruct H as [H1 H2]. split; [apply asc_b_sound; exact H1 |].
    apply orb_prop in H2. destruct H2 as [H2 | H2].
    + left. apply existsb_exists in H2. destruct H2 as [y [Hy E]]. apply N.eqb_eq in E. subst. exact Hy.
    + right. rewrite forallb_forall in H2. intros x Hx. specialize (H2 x Hx). lia.
Qed.
Lemma run_ok_b_sound : forall (Pb : store -> op -> bool) (P : store -> op -> Prop) r,
  (forall st o, Pb st o = true -> P st o) -> forall ops st, run_ok_b Pb r st ops = true -> run_ok P r st ops.
Proof.
  intros Pb P r HP. induction ops as [|o rest IH]; intros st H; cbn [run_ok_b run_ok] in *; [exact I |].
  apply andb_prop in H. destruct H as [H1 H2]. split; [apply HP; exact H1 | apply IH; exact H2].
Qed.

(* ====================================================================================== *)
(* 11. the crate's selection satisfies the selection condition                            *)
(* ====================================================================================== *)
Lemma sel_s1_disjoint : forall ids ls, key_disjoint ls ->
  above (lvers (filter (unpicked ids) ls)) (lvers (filter (picked ids) ls)).
Proof.
  intros ids ls Hd x y Hx Hy Hk. exfalso. apply in_lvers in Hx. apply in_lvers in Hy.
  destruct Hx as [t' [Ht' Hx]]. destruct Hy as [t [Ht Hy]]. apply filter_In in Ht. apply filter_In in Ht'.
  apply (key_disjoint_in ls t t' Hd); [tauto | tauto | apply (picked_unpicked_ne ids); tauto |]. exists y, x. auto.
Qed.
Lemma picked_app : forall a b t, picked (a ++ b) t = picked a t || picked b t.
Proof. intros a b t. unfold picked. apply existsb_app. Qed.
Lemma picked_map_tid : forall l t, In t l -> picked (map tid l) t = true.
Proof. intros l t H. unfold picked. apply existsb_exists. exists (tid t). split; [apply in_map; exact H | apply N.eqb_refl]. Qed.
Lemma picked_in : forall ids t, picked ids t = true <-> In (tid t) ids.
Proof.
  intros ids t. unfold picked. rewrite existsb_exists. split.
  - intros [i [Hi E]]. apply N.eqb_eq in E. subst. exact Hi.
  - intros H. exists (tid t). split; [exact H | apply N.eqb_refl].
Qed.
(* a key held by a table of F lies in the combined range of F; a well-formed table holding it overlaps *)
Lemma shared_key_overlaps : forall F rg t t' x y, combined_range F = Some rg -> In t F -> table_wf t -> table_wf t' ->
  In x (tvers t') -> In y (tvers t) -> xkey x = xkey y -> overlaps t' rg = true.
Proof.
  intros F rg t t' x y Hrg Ht Hwf Hwf' Hx Hy Hk.
  assert (Erg : rg = (key_min (map tlo F), key_max (map thi F))).
  { unfold combined_range in Hrg. destruct F as [|f F']; [destruct Ht | inversion Hrg; reflexivity]. }
  subst rg. clear Hrg. unfold overlaps. cbn [fst snd].
  specialize (Hwf y Hy). specialize (Hwf' x Hx). unfold in_range in *. rewrite Hk in Hwf'.
  apply andb_prop in Hwf. apply andb_prop in Hwf'. destruct Hwf as [W1 W2], Hwf' as [W1' W2'].
  assert (L1 : lex_leb (key_min (map tlo F)) (tlo t) = true) by (apply key_min_le; apply in_map; exact Ht).
  assert (L2 : lex_leb (thi t) (key_max (map thi F)) = true) by (apply key_max_ge; apply in_map; exact Ht).
  apply andb_true_intro. split; apply negb_true_iff.
  - destruct (lex_ltb (thi t') (key_min (map tlo F))) eqn:E; [| reflexivity].
    apply ltb_leb_false in E. rewrite (leb_trans _ _ _ L1 (leb_trans _ _ _ W1 W2')) in E. discriminate.
  - destruct (lex_ltb (key_max (map thi F)) (tlo t')) eqn:E; [| reflexivity].
    apply ltb_leb_false in E. rewrite (leb_trans _ _ _ W1' (leb_trans _ _ _ W2 L2)) in E. discriminate.
Qed.
Lemma nodup_app_disj : forall (A : Type) (a b : list A) x, NoDup (a ++ b) -> In x a -> In x b -> False.
Proof.
  intros A. induction a as [|h a IH]; intros b x Hn Ha Hb; [destruct Ha |]. cbn [app] in Hn. inversion Hn as [|? ? Hnot Hnd]; subst.
  destruct Ha as [E | Ha]; [subst; apply Hnot; apply in_or_app; right; exact Hb | apply (IH b x Hnd Ha Hb)].
Qed.
Lemma nodup_app_r : forall (A : Type) (a b : list A), NoDup (a ++ b) -> NoDup b.
Proof. intros A. induction a as [|h a IH]; intros b Hn; [exact Hn |]. cbn [app] in Hn. inversion Hn; subst. apply IH. assumption. Qed.
Lemma nodup_levels_split : forall pre ls lt post t t', NoDup (map tid (concat (pre ++ ls :: lt :: post))) ->
  In t ls -> In t' lt -> tid t <> tid t'.
Proof.
  intros pre ls lt post t t' Hn Ht Ht' E. rewrite concat_app, map_app in Hn. apply nodup_app_r in Hn.
  cbn [concat] in Hn. rewrite !map_app in Hn.
  apply (nodup_app_disj _ _ _ (tid t) Hn); [apply in_map; exact Ht |].
  apply in_or_app. left. rewrite E. apply in_map. exact Ht'.
Qed.
Lemma filter_unpicked_nil : forall ids ls, (forall t, In t ls -> picked ids t = true) -> filter (unpicked ids) ls = [].
Proof.
  intros ids. induction ls as [|t r IH]; intros H; cbn [filter]; [reflexivity |].
  unfold unpicked at 1. rewrite (H t (or_introl eq_refl)). cbn [negb]. apply IH. intros t' Ht'. apply H. right. exact Ht'.
Qed.
Theorem select_tables_sel_ok : forall sr, srules_okb sr = true -> select_tables_sel_ok_stmt sr.
Proof.
  intros sr Hsr st src seed Hinv Hnd. unfold srules_okb in Hsr. apply andb_prop in Hsr. destruct Hsr as [Hs1 Hs2].
  unfold sel_ok, select_tables. rewrite Hs1, Hs2. cbn [andb].
  destruct (focus src (levels st)) as [[[pre ls] post]|] eqn:E; [| exact I]. apply focus_spec in E.
  apply inv_lv_inv in Hinv. destruct Hinv as [_ [H2 _]]. rewrite E in H2, Hnd.
  pose proof (lv_inv_drop_prefix pre true _ _ H2) as Hsuf. clear H2.
  set (srcids := if is_nil pre then map tid ls else if existsb (fun t => tid t =? seed) ls then grow (length ls) ls [seed] else []).
  set (next := match post with [] => ls | lt :: _ => lt end).
  set (ids := match combined_range (filter (picked srcids) ls) with
              | None => srcids
              | Some rg => srcids ++ map tid (filter (fun t => unpicked srcids t && overlaps t rg) next)
              end).
  assert (Hsup : forall t, picked srcids t = true -> picked ids t = true).
  { intros t Ht. unfold ids. destruct (combined_range (filter (picked srcids) ls)); [rewrite picked_app, Ht; reflexivity | exact Ht]. }
  apply lv_inv_cons in Hsuf. destruct Hsuf as [[_ [_ [_ [W1 D1]]]] Hsuf]. split.
  - destruct pre as [|p pre].
    + rewrite filter_unpicked_nil; [apply above_nil_l |]. intros t Ht. apply Hsup. unfold srcids. cbn [is_nil]. apply picked_map_tid. exact Ht.
    + apply sel_s1_disjoint. apply D1. reflexivity.
  - destruct post as [|lt post]; [exact I |]. intros t' t Ht' Ht [x [y [Hx [Hy Hk]]]].
    apply lv_inv_cons in Hsuf. destruct Hsuf as [[_ [_ [_ [W2 _]]]] _].
    apply filter_In in Ht. apply filter_In in Ht'. destruct Ht as [Ht Hp], Ht' as [Ht' Hu].
    rewrite Forall_forall in W1, W2. unfold ids, next in *.
    destruct (combined_range (filter (picked srcids) ls)) as [rg|] eqn:Erg.
    + rewrite picked_app in Hp. unfold unpicked in Hu. rewrite picked_app in Hu. apply negb_true_iff in Hu. apply orb_false_elim in Hu. destruct Hu as [Hu1 Hu2].
      assert (Hsrc : picked srcids t = true).
      { apply orb_prop in Hp. destruct Hp as [Hp | Hp]; [exact Hp | exfalso]. apply picked_in in Hp. apply in_map_iff in Hp.
        destruct Hp as [t'' [Eid Ht'']]. apply filter_In in Ht''. apply (nodup_levels_split pre ls lt post t t'' Hnd Ht (proj1 Ht'')). congruence. }
      assert (Hov : overlaps t' rg = true).
      { apply (shared_key_overlaps (filter (picked srcids) ls) rg t t' x y Erg); auto. apply filter_In. auto. }
      assert (Hin : picked (map tid (filter (fun t0 => unpicked srcids t0 && overlaps t0 rg) lt)) t' = true).
      { apply picked_map_tid. apply filter_In. split; [exact Ht' |]. unfold unpicked. rewrite Hu1, Hov. reflexivity. }
      cbv beta iota in Hu2. unfold unpicked in Hin. rewrite Hin in Hu2. discriminate.
    + unfold combined_range in Erg. destruct (filter (picked srcids) ls) as [|f F] eqn:EF; [| discriminate].
      assert (Hin : In t (filter (picked srcids) ls)) by (apply filter_In; auto). rewrite EF in Hin. destruct Hin.
Qed.

(* ====================================================================================== *)
(* 12. closed witnesses                                                                   *)
(* ====================================================================================== *)
(* (d) key 97 written at seq 1, another key at seq 10 into the same memtable, rotation, key 97 again at
   seq 2 (its batch is applied after the seq-10 batch of the OTHER key: allowed, the commit hypothesis is per
   key), rotation, both flushed: level 0 = [ {98@10, 97@1} ; {97@2} ] in Level::insert order (largest seq
   first).  First hit wins answers 97@1. *)
Definition d_ops : list op :=
  [OCommit [wv 97 1 CSet 1]; OCommit [wv 98 10 CSet 2]; ORotate; OCommit [wv 97 2 CSet 3]; ORotate; OFlush 1; OFlush 2].
Definition d_state : store := Eval vm_compute in run old_l0_rules d_ops (st0 2).
Lemma d_run_ok : run_ok_b op_ok_b old_l0_rules (st0 2) d_ops = true.
Proof. vm_compute. reflexivity. Qed.
Lemma d_inv : inv_b d_state = true.
Proof. vm_compute. reflexivity. Qed.
Theorem old_l0_rule_stale : old_l0_rule_stale_stmt.
Proof.
  exists d_ops, [97], 10. cbv zeta. change (run old_l0_rules d_ops (st0 2)) with d_state.
  split; [apply (run_ok_b_sound op_ok_b op_ok old_l0_rules op_ok_b_sound); exact d_run_ok |].
  split; [apply inv_b_sound; exact d_inv |].
  split; [vm_compute; discriminate |].
  intros r Hr. assert (Hrun : run r d_ops (st0 2) = d_state).
  { destruct (rules_ok_fields r Hr) as [_ [_ Hf]]. unfold run, d_ops. cbn [fold_left step]. unfold flush. rewrite Hf. vm_compute. reflexivity. }
  split; [exact Hrun |]. apply (get_is_view r Hr). apply inv_b_sound. exact d_inv.
Qed.

(* (e) level 0 = [ {97@2} (id 2) ; {97@1} (id 1) ], level 1 empty; the compaction picks table 2 only *)
Definition e_state : store :=
  {| active := []; imms := []; levels := [[mk_table 2 [wv 97 2 CSet 2]; mk_table 1 [wv 97 1 CSet 1]]; []] |}.
Theorem bad_selection_breaks : bad_selection_breaks_stmt.
Proof.
  exists e_state, 0%nat, [2], 3, wcfg, [97], 5.
  split; [apply inv_b_sound; vm_compute; reflexivity |].
  split; [intros H; apply sel_ok_b_iff in H; vm_compute in H; discriminate |].
  cbv zeta. split; [intros H; apply inv_b_iff in H; vm_compute in H; discriminate |].
  split; [vm_compute; reflexivity |]. intros r Hr. rewrite !(get_rules_ext r Hr). vm_compute. discriminate.
Qed.
(* level 0 = [ {98@3} (id 2) ], level 1 = [ {97@1, 98@1} (id 1) ]; the compaction omits table 1 *)
Definition e2_state : store :=
  {| active := []; imms := [];
     levels := [[mk_table 2 [wv 98 3 CSet 3]]; [mk_table 1 [wv 97 1 CSet 1; wv 98 1 CSet 2]]] |}.
Theorem missing_target_breaks : missing_target_breaks_stmt.
Proof.
  exists e2_state, 0%nat, [2], 3, wcfg, [98], 5.
  split; [apply inv_b_sound; vm_compute; reflexivity |].
  split; [intros H; apply sel_ok_b_iff in H; vm_compute in H; discriminate |].
  cbv zeta. split; [intros H; apply inv_b_iff in H; vm_compute in H; discriminate |].
  split; [vm_compute; reflexivity |]. intros r Hr. rewrite !(get_rules_ext r Hr). vm_compute. discriminate.
Qed.

Definition f_start_v : store := Eval vm_compute in f_start.
Lemma f_start_eq : f_start = f_start_v.
Proof. vm_compute. reflexivity. Qed.
Theorem run_hypotheses_satisfiable : run_hypotheses_satisfiable_stmt.
Proof.
  unfold run_hypotheses_satisfiable_stmt. rewrite f_start_eq.
  assert (Hr : rules_okb std_rules = true) by reflexivity.
  assert (H0 : inv f_start_v) by (apply inv_b_sound; vm_compute; reflexivity).
  assert (Hok : run_ok (fun st o => op_ok st o /\ op_keeps 2 st o) std_rules f_start_v f_ops).
  { apply (run_ok_b_sound (fun st o => op_ok_b st o && op_keeps_b 2 st o)).
    - intros st o H. apply andb_prop in H. destruct H as [H1 H2]. split; [apply op_ok_b_sound; exact H1 | apply op_keeps_b_sound; exact H2].
    - vm_compute. reflexivity. }
  split; [exact H0 |]. split; [exact Hok |].
  split; [apply (run_inv std_rules Hr); [exact H0 | apply (run_ok_split op_ok (op_keeps 2)) in Hok; tauto] |].
  split; [intros k; apply (run_view_stable std_rules Hr f_ops f_start_v 2 H0 Hok k) |].
  repeat split; vm_compute; reflexivity.
Qed.
Theorem selection_example : selection_example_stmt.
Proof. split; vm_compute; reflexivity. Qed.
Theorem sel_s1_by_disjointness : sel_s1_disjoint_stmt.
Proof. exact sel_s1_disjoint. Qed.
