(* Lsm/Arena.v — arena accounting of the memtable (properties C07 / C02 / C15): what one skiplist node costs, when an
   allocation fails, what `MemTable::add` reserves before it inserts a batch, and the pre-WAL size ar_bound of a batch.
   Definitions only; statements in ArenaSpec.v, proofs in Arena_proofs.v.

   Transcribed from /repo (constants and formula shapes GENERATED into Lsm/ArenaParams.v):
     Arena::new / alloc (src/memtable/arena.rs)   the counter starts at ARENA_START; alloc(size, align, overflow) adds
                                                  size + align - 1 to the counter and FAILS iff the new counter + overflow
                                                  exceeds the capacity (the counter stays advanced: not modelled, the
                                                  memtable is rotated away after a failure)
     new_raw_node (src/memtable/skiplist.rs)      a node of height h takes MAX_NODE_SIZE - (MAX_HEIGHT - h) * LINKS_SIZE bytes
                                                  plus key and value, alignment ARENA_ALIGN, overflow = the ar_unused tower
     Skiplist::new                                head and tail: two nodes of full height without key and value
     Skiplist::ar_alloc_size, max_unused_tower, max_entry_overhead
     MemTable::add (src/memtable/mod.rs)          ar_need = sum of ar_alloc_size over the drawn heights + max_unused_tower;
                                                  refused (ArenaFull) iff size + reserved + ar_need > capacity
     MemTable::arena_upper_bound                  1 + 2 * ar_per_entry + sum (ar_per_entry + key + value)
                                                  (+ max_unused_tower when ARENA_BOUND_HAS_UNUSED_TOWER: repair 99893dd)
   An ar_entry is (height, key length, value length); heights are between 1 and ARENA_MAX_HEIGHT. *)
From Coq Require Import List NArith Bool.
From SKV Require Import Lsm.ArenaParams.
Import ListNotations.
Local Open Scope N_scope.

Definition ar_entry := (N * N * N)%type.      (* height, key length, value length *)
Definition ar_e_h (e : ar_entry) : N := fst (fst e).
Definition ar_e_k (e : ar_entry) : N := snd (fst e).
Definition ar_e_v (e : ar_entry) : N := snd e.

Definition ar_max_node : N := ARENA_NODE_SIZE + (ARENA_MAX_HEIGHT - 1) * ARENA_LINKS_SIZE.
Definition ar_unused (h : N) : N := (ARENA_MAX_HEIGHT - h) * ARENA_LINKS_SIZE.
Definition ar_node_size (h : N) : N := ar_max_node - ar_unused h.
Definition ar_alloc_size (h k v : N) : N := ar_node_size h + k + v + (ARENA_ALIGN - 1).
Definition ar_max_unused : N := (ARENA_MAX_HEIGHT - 1) * ARENA_LINKS_SIZE.
Definition ar_per_entry : N := ar_max_node + ARENA_ENTRY_SLACK.

(* Arena::alloc: the counter after the allocation, None = arena full *)
Definition arena_alloc (cap n size overflow : N) : option N :=
  let n' := n + size + (ARENA_ALIGN - 1) in
  if cap <? n' + overflow then None else Some n'.

Definition ar_insert (cap n : N) (e : ar_entry) : option N :=
  arena_alloc cap n (ar_node_size (ar_e_h e) + ar_e_k e + ar_e_v e) (ar_unused (ar_e_h e)).

Fixpoint ar_insert_all (cap n : N) (es : list ar_entry) : option N :=
  match es with
  | [] => Some n
  | e :: r => match ar_insert cap n e with Some n' => ar_insert_all cap n' r | None => None end
  end.

(* the counter of an empty skiplist: head and tail *)
Definition ar_empty_n : N := ARENA_START + 2 * (ar_max_node + (ARENA_ALIGN - 1)).

Definition ar_heights_ok (es : list ar_entry) : bool :=
  forallb (fun e => (1 <=? ar_e_h e) && (ar_e_h e <=? ARENA_MAX_HEIGHT)) es.

Definition ar_sum_alloc (es : list ar_entry) : N := fold_right (fun e a => ar_alloc_size (ar_e_h e) (ar_e_k e) (ar_e_v e) + a) 0 es.
Definition ar_need (es : list ar_entry) : N := ar_sum_alloc es + ar_max_unused.
(* MemTable::add's test on a memtable whose counter is n (no concurrent reservation) *)
Definition ar_reserve_ok (cap n : N) (es : list ar_entry) : bool := n + ar_need es <=? cap.

(* MemTable::arena_upper_bound (heights play no part) *)
Definition ar_bound (with_unused : bool) (es : list ar_entry) : N :=
  1 + 2 * ar_per_entry + fold_right (fun e a => ar_per_entry + ar_e_k e + ar_e_v e + a) 0 es + (if with_unused then ar_max_unused else 0).

(* MemTable::add on a memtable with counter n: None = ArenaFull before anything is inserted *)
Definition ar_mem_add (cap n : N) (es : list ar_entry) : option N :=
  if ar_reserve_ok cap n es then ar_insert_all cap n es else None.

(* any sequence of MemTable::add calls on one memtable: an accepted batch advances the counter, a refused one (ArenaFull,
   decided before anything is inserted) leaves it where it was *)
Definition ar_step (cap n : N) (es : list ar_entry) : N :=
  match ar_mem_add cap n es with Some n' => n' | None => n end.
Definition ar_run (cap : N) (bs : list (list ar_entry)) (n : N) : N := fold_left (ar_step cap) bs n.
(* what the accepted batches of the sequence cost *)
Fixpoint ar_accepted_cost (cap n : N) (bs : list (list ar_entry)) : N :=
  match bs with
  | [] => 0
  | es :: r => if ar_reserve_ok cap n es then ar_sum_alloc es + ar_accepted_cost cap (n + ar_sum_alloc es) r
               else ar_accepted_cost cap n r
  end.

Definition arena_params_ok : bool :=
  (1 <=? ARENA_MAX_HEIGHT) && (1 <=? ARENA_ALIGN) && (ARENA_ALIGN - 1 <? ARENA_ENTRY_SLACK) && (ARENA_START <=? 1).
