(* Lsm/Arena_proofs.v — proofs of the statements of ArenaSpec.v. *)
From Coq Require Import List NArith Bool Lia.
From SKV Require Import Lsm.ArenaParams Lsm.Arena Lsm.ArenaSpec.
Import ListNotations.
Local Open Scope N_scope.

Arguments N.add : simpl never.
Arguments N.sub : simpl never.
Arguments N.mul : simpl never.
Arguments N.leb : simpl never.
Arguments N.ltb : simpl never.

Lemma params_facts : arena_params_ok = true ->
  1 <= ARENA_MAX_HEIGHT /\ 1 <= ARENA_ALIGN /\ ARENA_ALIGN - 1 < ARENA_ENTRY_SLACK /\ ARENA_START <= 1.
Proof.
  unfold arena_params_ok. intros H.
  apply andb_true_iff in H. destruct H as [H H4].
  apply andb_true_iff in H. destruct H as [H H3].
  apply andb_true_iff in H. destruct H as [H1 H2].
  apply N.leb_le in H1. apply N.leb_le in H2. apply N.ltb_lt in H3. apply N.leb_le in H4. auto.
Qed.

Lemma height_facts : forall e es, ar_heights_ok (e :: es) = true ->
  1 <= ar_e_h e /\ ar_e_h e <= ARENA_MAX_HEIGHT /\ ar_heights_ok es = true.
Proof.
  intros e es H. unfold ar_heights_ok in H. cbn [forallb] in H.
  apply andb_true_iff in H. destruct H as [H Hr]. apply andb_true_iff in H. destruct H as [H1 H2].
  apply N.leb_le in H1. apply N.leb_le in H2. auto.
Qed.

Lemma unused_le_max : forall h, 1 <= h -> ar_unused h <= ar_max_unused.
Proof.
  intros h Hh. unfold ar_unused, ar_max_unused. apply N.mul_le_mono_r. lia.
Qed.

Lemma unused_le_node : forall h, h <= ARENA_MAX_HEIGHT -> 1 <= h -> ar_unused h <= ar_max_node.
Proof.
  intros h Hh H1. unfold ar_max_node. pose proof (unused_le_max h H1) as Hu. unfold ar_max_unused in Hu. lia.
Qed.

Lemma sum_alloc_cons : forall e es, ar_sum_alloc (e :: es) = ar_alloc_size (ar_e_h e) (ar_e_k e) (ar_e_v e) + ar_sum_alloc es.
Proof. reflexivity. Qed.

Lemma reservation_sufficient : reservation_sufficient_stmt.
Proof.
  intros Hp cap n es. revert n.
  induction es as [|e es IH]; intros n Hh Hr.
  - cbn [ar_insert_all ar_sum_alloc fold_right]. unfold ar_reserve_ok, ar_need in Hr. cbn [ar_sum_alloc fold_right] in Hr.
    apply N.leb_le in Hr. split; [f_equal; lia | lia].
  - destruct (height_facts e es Hh) as [H1 [H2 Hes]].
    unfold ar_reserve_ok, ar_need in Hr. apply N.leb_le in Hr.
    rewrite sum_alloc_cons in Hr. unfold ar_alloc_size in Hr.
    cbn [ar_insert_all]. unfold ar_insert, arena_alloc.
    pose proof (unused_le_max (ar_e_h e) H1) as Hu.
    set (sz := ar_node_size (ar_e_h e) + ar_e_k e + ar_e_v e) in *.
    set (pad := ARENA_ALIGN - 1) in *.
    destruct (N.ltb_spec cap (n + sz + pad + ar_unused (ar_e_h e))) as [Hlt|_]; [lia|].
    assert (Hr' : ar_reserve_ok cap (n + sz + pad) es = true).
    { unfold ar_reserve_ok, ar_need. apply N.leb_le. lia. }
    destruct (IH _ Hes Hr') as [Hi Hc]. rewrite Hi.
    rewrite sum_alloc_cons. unfold ar_alloc_size. fold sz. fold pad.
    split; [f_equal; lia | lia].
Qed.

Lemma sum_alloc_le_bound : arena_params_ok = true -> forall es, ar_heights_ok es = true ->
  ar_sum_alloc es <= fold_right (fun e a => ar_per_entry + ar_e_k e + ar_e_v e + a) 0 es.
Proof.
  intros Hp es. destruct (params_facts Hp) as [_ [_ [Hs _]]].
  induction es as [|e es IH]; intros Hh; [cbn [ar_sum_alloc fold_right]; lia|].
  destruct (height_facts e es Hh) as [H1 [H2 Hes]]. specialize (IH Hes).
  rewrite sum_alloc_cons. cbn [fold_right].
  set (rest := fold_right (fun e0 a => ar_per_entry + ar_e_k e0 + ar_e_v e0 + a) 0 es) in *.
  unfold ar_alloc_size, ar_node_size, ar_per_entry.
  pose proof (unused_le_node (ar_e_h e) H2 H1) as Hu.
  set (pad := ARENA_ALIGN - 1) in *. lia.
Qed.

Lemma empty_le : arena_params_ok = true -> ar_empty_n <= 1 + 2 * ar_per_entry.
Proof.
  intros Hp. destruct (params_facts Hp) as [_ [_ [Hs H1]]]. unfold ar_empty_n, ar_per_entry. lia.
Qed.

Lemma admitted_fits_empty : forall w, w = true -> admitted_fits_empty_stmt w.
Proof.
  intros w -> Hp cap es Hh Hb.
  pose proof (sum_alloc_le_bound Hp es Hh) as Hs. pose proof (empty_le Hp) as He.
  assert (Hr : ar_reserve_ok cap ar_empty_n es = true).
  { unfold ar_reserve_ok, ar_need. apply N.leb_le. unfold ar_bound in Hb. lia. }
  destruct (reservation_sufficient Hp cap ar_empty_n es Hh Hr) as [Hi Hc].
  exists (ar_empty_n + ar_sum_alloc es). unfold ar_mem_add. rewrite Hr. split; [exact Hi | lia].
Qed.

Lemma bound_height_free : bound_height_free_stmt.
Proof.
  intros w es. induction es as [|e es IH]; intros es' Hm.
  - destruct es'; [reflexivity | discriminate].
  - destruct es' as [|e' es']; [discriminate|].
    cbn [map] in Hm. injection Hm as Hk Hv Hr. specialize (IH es' Hr).
    unfold ar_bound in *. cbn [fold_right]. rewrite Hk, Hv. lia.
Qed.

Lemma old_bound_refuted : old_bound_refuted_stmt.
Proof.
  (* one ar_entry, height 2, key 4 bytes: capacity = the old ar_bound of the batch *)
  exists (ar_bound false [(2, 4, 7000)]), [(2, 4, 7000)].
  split; [vm_compute; reflexivity|]. split; [apply N.le_refl|]. vm_compute. reflexivity.
Qed.

(* ---- any sequence of adds ---- *)
Lemma step_cases : arena_params_ok = true -> forall cap n es, ar_heights_ok es = true ->
  (ar_reserve_ok cap n es = true /\ ar_step cap n es = n + ar_sum_alloc es /\ n + ar_sum_alloc es + ar_max_unused <= cap) \/
  (ar_reserve_ok cap n es = false /\ ar_step cap n es = n).
Proof.
  intros Hp cap n es Hh. unfold ar_step, ar_mem_add.
  destruct (ar_reserve_ok cap n es) eqn:Hr.
  - left. destruct (reservation_sufficient Hp cap n es Hh Hr) as [Hi Hc]. rewrite Hi. auto.
  - right. auto.
Qed.

Lemma reachable_counter : reachable_counter_stmt.
Proof.
  intros Hp cap bs. induction bs as [|es bs IH]; intros n0 Hh Hn.
  - cbn [ar_run fold_left ar_accepted_cost]. repeat split; lia.
  - cbn [forallb] in Hh. apply andb_true_iff in Hh. destruct Hh as [He Hbs].
    unfold ar_run in *. cbn [fold_left ar_accepted_cost].
    destruct (step_cases Hp cap n0 es He) as [[Hr [Hs Hc]] | [Hr Hs]]; rewrite Hr, Hs.
    + destruct (IH (n0 + ar_sum_alloc es) Hbs Hc) as [H1 [H2 H3]]. rewrite H1. repeat split; lia.
    + destruct (IH n0 Hbs Hn) as [H1 [H2 H3]]. rewrite H1. repeat split; lia.
Qed.

Lemma refused_stays_refused : refused_stays_refused_stmt.
Proof.
  intros Hp cap bs n0 es Hh Hn Hr.
  destruct (reachable_counter Hp cap bs n0 Hh Hn) as [_ [Hge _]].
  unfold ar_mem_add in *.
  destruct (ar_reserve_ok cap n0 es) eqn:Hr0.
  - (* granted reservations do not fail: heights are irrelevant to the contradiction only when es is well-formed;
       without that the inserts themselves may have failed, and they fail again on a higher counter *)
    destruct (ar_reserve_ok cap (ar_run cap bs n0) es) eqn:Hr1; [|reflexivity].
    clear Hr0 Hr1 Hn. revert Hr. revert Hge. generalize (ar_run cap bs n0) as n1. intros n1. revert n0 n1.
    induction es as [|e es IHes]; intros n0 n1 Hge Hr; [discriminate|].
    cbn [ar_insert_all] in *. unfold ar_insert, arena_alloc in *.
    set (sz := ar_node_size (ar_e_h e) + ar_e_k e + ar_e_v e) in *.
    set (pad := ARENA_ALIGN - 1) in *. set (ov := ar_unused (ar_e_h e)) in *.
    destruct (cap <? n0 + sz + pad + ov) eqn:H0.
    + apply N.ltb_lt in H0. assert (H1 : (cap <? n1 + sz + pad + ov) = true) by (apply N.ltb_lt; lia). rewrite H1. reflexivity.
    + destruct (cap <? n1 + sz + pad + ov) eqn:H1; [reflexivity|].
      apply N.ltb_ge in H0. apply (IHes (n0 + sz + pad) (n1 + sz + pad)); [lia | exact Hr].
  - destruct (ar_reserve_ok cap (ar_run cap bs n0) es) eqn:Hr1; [|reflexivity].
    unfold ar_reserve_ok in *. apply N.leb_le in Hr1. apply N.leb_gt in Hr0. lia.
Qed.

Lemma reachable_counter_example : reachable_counter_example_stmt.
Proof. split; vm_compute; [discriminate | reflexivity]. Qed.
