(* Lsm/CompactKeySpec.v — what readers observe of one key before and after a compaction, and the
   theorem statements about compact_key. *)
From Coq Require Import List NArith Bool Sorted.
From SKV Require Import Lsm.CompactKey Lsm.CompactKeyOld Lsm.CompactKeyMid.
Import ListNotations.
Local Open Scope N_scope.

(* newest version visible at horizon s in a newest-first version list *)
Definition visible_at (vs : list ver) (s : N) : option ver := find (fun v => vseq v <=? s) vs.
(* what get returns at horizon s: the seq of a live version, or None *)
Definition obs_get (vs : list ver) (s : N) : option N :=
  match visible_at vs s with
  | Some v => if is_tomb (vkind v) then None else Some (vseq v)
  | None => None
  end.
(* what the newest-first search finds first (a tombstone found here masks deeper levels) *)
Definition obs_mask (vs : list ver) (s : N) : option (N * bool) :=
  match visible_at vs s with
  | Some v => Some (vseq v, is_tomb (vkind v))
  | None => None
  end.

Definition desc (vs : list ver) : Prop := StronglySorted (fun a b => vseq b < vseq a) vs.
Definition asc (l : list N) : Prop := StronglySorted N.lt l.
Definition top (vs : list ver) : N := match vs with v :: _ => vseq v | [] => 0 end.

(* C01/C06 core: a compaction of the versions of a key changes no answer of any reader that can
   exist: every registered snapshot horizon and every horizon at or above the newest version.
   At the bottom level "tombstone" and "absent" are the same observation (nothing lies deeper);
   above it the entry found first — value or tombstone — must be the same one. *)
Definition compact_key_view_stmt : Prop :=
  forall (bottom versioning : bool) (retention now : N) (snaps : list N) (vs : list ver) (s : N),
    desc vs -> asc snaps -> (forall v, In v vs -> 0 < vseq v) ->
    (In s snaps \/ top vs <= s) ->
    let out := compact_key bottom versioning retention now snaps vs in
    obs_get out s = obs_get vs s /\ (bottom = false -> obs_mask out s = obs_mask vs s).

(* the output is a sub-list of the input (never invents or reorders versions) *)
Fixpoint sublist (a b : list ver) : Prop :=
  match a, b with
  | [], _ => True
  | _ :: _, [] => False
  | x :: r, y :: q => (x = y /\ sublist r q) \/ sublist a q
  end.
Definition compact_key_sublist_stmt : Prop :=
  forall bottom versioning retention now snaps vs,
    sublist (compact_key bottom versioning retention now snaps vs) vs.

(* without versioning and without snapshots exactly the newest version survives (or nothing, when it
   is a hard delete at the bottom level) *)
Definition compact_key_plain_stmt : Prop :=
  forall bottom retention now v vs, desc (v :: vs) ->
    compact_key bottom false retention now [] (v :: vs) =
    if bottom && is_hard (vkind v) then [] else [v].

(* ---- version history (C10) ------------------------------------------------------------- *)
(* what survives the barriers in a NEWEST-first version list: everything newer than the newest
   barrier, plus the barrier itself when it is a replace *)
Fixpoint hist_of (vs : list ver) : list ver :=
  match vs with
  | [] => []
  | v :: r => if is_hard (vkind v) then [] else if is_rep (vkind v) then [v] else v :: hist_of r
  end.
(* the history a reader at horizon s sees *)
Definition history_at (vs : list ver) (s : N) : list ver := hist_of (filter (fun v => vseq v <=? s) vs).

(* C10 core (unlimited retention): with versioning enabled a compaction changes the history of no
   reader that can exist — registered snapshots and horizons at or above the newest version —
   for ALL version lists, snapshot sets and levels.  Versions a hard delete or replace erased never
   come back; no retained version is lost. *)
Definition compact_key_history_stmt : Prop :=
  forall (bottom : bool) (now : N) (snaps : list N) (vs : list ver) (s : N),
    desc vs -> asc snaps -> (forall v, In v vs -> 0 < vseq v) ->
    (In s snaps \/ top vs <= s) ->
    history_at (compact_key bottom true 0 now snaps vs) s = history_at vs s.

(* finite retention: nothing erased comes back, and every version lost is outside the window *)
Definition compact_key_history_retention_stmt : Prop :=
  forall (bottom : bool) (retention now : N) (snaps : list N) (vs : list ver) (s : N),
    desc vs -> asc snaps -> (forall v, In v vs -> 0 < vseq v) ->
    (In s snaps \/ top vs <= s) ->
    let out := history_at (compact_key bottom true retention now snaps vs) s in
    (forall v, In v out -> In v (history_at vs s)) /\
    (forall v, In v (history_at vs s) -> ~ In v out -> 0 < retention /\ retention < now - vts v).

(* ---- barriers and the levels below the compaction (C10) -------------------------------- *)
(* A compaction above the bottom level sees only the versions [vs] of the key that sit in its
   input tables; older versions of the same key may sit in DEEPER tables that take no part in it.
   [deep] stands for those: an arbitrary version list lying entirely below [vs]. *)
Definition is_barrier (v : ver) : bool := is_hard (vkind v) || is_rep (vkind v).

(* what the versions of the compaction do to every older version that is not in the list: a
   reader at horizon s has them erased iff some version it sees is a hard delete or a replace *)
Definition erases_deeper (vs : list ver) (s : N) : bool :=
  existsb (fun v => (vseq v <=? s) && is_barrier v) vs.
(* the barrier that does it: the newest one the reader sees *)
Definition newest_barrier (vs : list ver) (s : N) : option ver :=
  find (fun v => (vseq v <=? s) && is_barrier v) vs.

(* [deep] lies below [vs]: together they are one strictly descending version list of positive
   sequence numbers *)
Definition lies_below (vs deep : list ver) : Prop :=
  desc (vs ++ deep) /\ (forall v, In v (vs ++ deep) -> 0 < vseq v).
(* the history a reader sees over this level and everything deeper *)
Definition history_deeper (vs deep : list ver) (s : N) : list ver := history_at (vs ++ deep) s.

(* erases_deeper means what it says: when it holds nothing of [deep] is in the history, when it
   does not the history of [deep] is appended unchanged *)
Definition erases_deeper_history_stmt : Prop :=
  forall (vs deep : list ver) (s : N),
    history_deeper vs deep s =
    if erases_deeper vs s then history_at vs s else history_at vs s ++ history_at deep s.

(* (a) above the bottom level (versioning, unlimited retention) a compaction never loses the
   barrier of a reader that can exist *)
Definition compact_key_barrier_kept_stmt : Prop :=
  forall (now : N) (snaps : list N) (vs : list ver) (s : N),
    desc vs -> asc snaps -> (forall v, In v vs -> 0 < vseq v) ->
    (In s snaps \/ top vs <= s) ->
    erases_deeper (compact_key false true 0 now snaps vs) s = erases_deeper vs s.

(* (b) ... and the history such a reader sees over this level AND everything deeper is unchanged:
   no retained version is lost, and no version in a deeper table that a hard delete or replace of
   this level erased comes back *)
Definition compact_key_history_deeper_stmt : Prop :=
  forall (now : N) (snaps : list N) (vs deep : list ver) (s : N),
    lies_below vs deep -> asc snaps ->
    (In s snaps \/ top vs <= s) ->
    history_deeper (compact_key false true 0 now snaps vs) deep s = history_deeper vs deep s.

(* the same for ANY list appended below (the proof never looks at [deep]); implies (b) *)
Definition compact_key_history_deeper_any_stmt : Prop :=
  forall (now : N) (snaps : list N) (vs deep : list ver) (s : N),
    desc vs -> asc snaps ->
    (In s snaps \/ top vs <= s) ->
    history_at (compact_key false true 0 now snaps vs ++ deep) s = history_at (vs ++ deep) s.

(* finite retention: nothing erased comes back over this level and everything deeper, PROVIDED the
   newest barrier the reader sees is still inside the retention window.  For a hard delete that is
   the newest barrier of the list the proviso is not needed (compact_key_history_deeper_hard_stmt);
   in general it cannot be dropped: an older REPLACE outside the window is `superseded` and
   dropped, and the deeper versions it erased reappear (compact_key_retention_barrier_lost_stmt,
   compact_key_retention_replace_lost_stmt). *)
Definition compact_key_history_deeper_retention_stmt : Prop :=
  forall (retention now : N) (snaps : list N) (vs deep : list ver) (s : N),
    lies_below vs deep -> asc snaps ->
    (In s snaps \/ top vs <= s) ->
    (forall b, newest_barrier vs s = Some b -> ~ (0 < retention /\ retention < now - vts b)) ->
    forall v, In v (history_deeper (compact_key false true retention now snaps vs) deep s) ->
              In v (history_deeper vs deep s).

(* witness that the proviso is needed (finite retention, barrier outside the window) *)
Definition compact_key_retention_barrier_lost_stmt : Prop :=
  exists (retention now : N) (snaps : list N) (vs deep : list ver) (s : N) (v : ver),
    lies_below vs deep /\ asc snaps /\ (In s snaps \/ top vs <= s) /\
    In v (history_deeper (compact_key false true retention now snaps vs) deep s) /\
    ~ In v (history_deeper vs deep s).

(* (c) regression record: the decision before the repair (CompactKeyOld.v: an older hard delete is
   always stale) violates (a) and (b) *)
Definition compact_key_old_history_deeper_fails_stmt : Prop :=
  exists (now : N) (snaps : list N) (vs deep : list ver) (s : N),
    lies_below vs deep /\ asc snaps /\ (In s snaps \/ top vs <= s) /\
    erases_deeper (compact_key_old false true 0 now snaps vs) s <> erases_deeper vs s /\
    history_deeper (compact_key_old false true 0 now snaps vs) deep s <> history_deeper vs deep s.

(* finite retention, HARD-DELETE barriers, no window proviso (the decision with the `newer barrier`
   accumulator, reset at every change of visibility boundary): for ANY retention and clock, when
   the newest barrier a reader that can exist sees is a hard delete, nothing it erased comes back
   over this level and everything deeper. *)
Definition compact_key_history_deeper_hard_stmt : Prop :=
  forall (retention now : N) (snaps : list N) (vs deep : list ver) (s : N) (b : ver),
    lies_below vs deep -> asc snaps ->
    (In s snaps \/ top vs <= s) ->
    newest_barrier vs s = Some b -> is_hard (vkind b) = true ->
    forall v, In v (history_deeper (compact_key false true retention now snaps vs) deep s) ->
              In v (history_deeper vs deep s).

(* the honest complement: REPLACE is not protected (the crate's pinned unit tests require an older
   REPLACE outside the window to be dropped above the bottom level): same hypotheses with a replace
   as the barrier — the newest barrier of the whole list, reader above everything — and a deeper
   version comes back *)
Definition compact_key_retention_replace_lost_stmt : Prop :=
  exists (retention now : N) (snaps : list N) (vs deep : list ver) (s : N) (b v : ver),
    lies_below vs deep /\ asc snaps /\ top vs <= s /\
    newest_barrier vs s = Some b /\ is_rep (vkind b) = true /\ find is_barrier vs = Some b /\
    In v (history_deeper (compact_key false true retention now snaps vs) deep s) /\
    ~ In v (history_deeper vs deep s).

(* regression record for the decision between the two repairs (CompactKeyMid.v): it violates
   compact_key_history_deeper_hard_stmt (already for a reader above everything) *)
Definition compact_key_mid_history_deeper_hard_fails_stmt : Prop :=
  exists (retention now : N) (snaps : list N) (vs deep : list ver) (s : N) (b v : ver),
    lies_below vs deep /\ asc snaps /\ top vs <= s /\
    newest_barrier vs s = Some b /\ is_hard (vkind b) = true /\
    In v (history_deeper (compact_key_mid false true retention now snaps vs) deep s) /\
    ~ In v (history_deeper vs deep s).
