(* Lsm/CompactKeySpec.v — what readers observe of one key before and after a compaction, and the
   theorem statements about compact_key. *)
From Coq Require Import List NArith Bool Sorted.
From SKV Require Import Lsm.CompactKey.
Import ListNotations.
Local Open Scope N_scope.

(* newest version visible at horizon s in a newest-first version list *)
Definition visible_at (vs : list ver) (s : N) : option ver := find (fun v => vseq v <=? s) vs.
(* what get returns at horizon s: the seq of a live version, or None *)
Definition obs_get (vs : list ver) (s : N) : option N :=
  match visible_at vs s with
  | Some v => if is_tomb (vkind v) then None else Some (vseq v)
  | None => None
  end.
(* what the newest-first search finds first (a tombstone found here masks deeper levels) *)
Definition obs_mask (vs : list ver) (s : N) : option (N * bool) :=
  match visible_at vs s with
  | Some v => Some (vseq v, is_tomb (vkind v))
  | None => None
  end.

Definition desc (vs : list ver) : Prop := StronglySorted (fun a b => vseq b < vseq a) vs.
Definition asc (l : list N) : Prop := StronglySorted N.lt l.
Definition top (vs : list ver) : N := match vs with v :: _ => vseq v | [] => 0 end.

(* C01/C06 core: a compaction of the versions of a key changes no answer of any reader that can
   exist: every registered snapshot horizon and every horizon at or above the newest version.
   At the bottom level "tombstone" and "absent" are the same observation (nothing lies deeper);
   above it the entry found first — value or tombstone — must be the same one. *)
Definition compact_key_view_stmt : Prop :=
  forall (bottom versioning : bool) (retention now : N) (snaps : list N) (vs : list ver) (s : N),
    desc vs -> asc snaps -> (forall v, In v vs -> 0 < vseq v) ->
    (In s snaps \/ top vs <= s) ->
    let out := compact_key bottom versioning retention now snaps vs in
    obs_get out s = obs_get vs s /\ (bottom = false -> obs_mask out s = obs_mask vs s).

(* the output is a sub-list of the input (never invents or reorders versions) *)
Fixpoint sublist (a b : list ver) : Prop :=
  match a, b with
  | [], _ => True
  | _ :: _, [] => False
  | x :: r, y :: q => (x = y /\ sublist r q) \/ sublist a q
  end.
Definition compact_key_sublist_stmt : Prop :=
  forall bottom versioning retention now snaps vs,
    sublist (compact_key bottom versioning retention now snaps vs) vs.

(* without versioning and without snapshots exactly the newest version survives (or nothing, when it
   is a hard delete at the bottom level) *)
Definition compact_key_plain_stmt : Prop :=
  forall bottom retention now v vs, desc (v :: vs) ->
    compact_key bottom false retention now [] (v :: vs) =
    if bottom && is_hard (vkind v) then [] else [v].

(* ---- version history (C10) ------------------------------------------------------------- *)
(* what survives the barriers in a NEWEST-first version list: everything newer than the newest
   barrier, plus the barrier itself when it is a replace *)
Fixpoint hist_of (vs : list ver) : list ver :=
  match vs with
  | [] => []
  | v :: r => if is_hard (vkind v) then [] else if is_rep (vkind v) then [v] else v :: hist_of r
  end.
(* the history a reader at horizon s sees *)
Definition history_at (vs : list ver) (s : N) : list ver := hist_of (filter (fun v => vseq v <=? s) vs).

(* C10 core (unlimited retention): with versioning enabled a compaction changes the history of no
   reader that can exist — registered snapshots and horizons at or above the newest version —
   for ALL version lists, snapshot sets and levels.  Versions a hard delete or replace erased never
   come back; no retained version is lost. *)
Definition compact_key_history_stmt : Prop :=
  forall (bottom : bool) (now : N) (snaps : list N) (vs : list ver) (s : N),
    desc vs -> asc snaps -> (forall v, In v vs -> 0 < vseq v) ->
    (In s snaps \/ top vs <= s) ->
    history_at (compact_key bottom true 0 now snaps vs) s = history_at vs s.

(* finite retention: nothing erased comes back, and every version lost is outside the window *)
Definition compact_key_history_retention_stmt : Prop :=
  forall (bottom : bool) (retention now : N) (snaps : list N) (vs : list ver) (s : N),
    desc vs -> asc snaps -> (forall v, In v vs -> 0 < vseq v) ->
    (In s snaps \/ top vs <= s) ->
    let out := history_at (compact_key bottom true retention now snaps vs) s in
    (forall v, In v out -> In v (history_at vs s)) /\
    (forall v, In v (history_at vs s) -> ~ In v out -> 0 < retention /\ retention < now - vts v).
