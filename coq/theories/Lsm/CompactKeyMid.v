(* Lsm/CompactKeyMid.v — second regression record: the compaction decision BETWEEN the repair of
   the older-hard-delete branch and the finite-retention repair (no `newer barrier` accumulator: an
   older hard delete outside the retention window is dropped as superseded, also above the bottom
   level).  Same text as CompactKey.v had at that point.  Definitions only; used by
   compact_key_mid_retention_barrier_lost_stmt (CompactKeySpec.v). *)
From Coq Require Import List NArith Bool.
From SKV Require Import Lsm.CompactKey.
Import ListNotations.
Local Open Scope N_scope.

Section CKMid.
Variables (bottom versioning : bool) (retention now : N) (snaps : list N).

(* one pass newest -> oldest: the keep/drop decision of every version.
   barrier = a newer REPLACE has been passed *)
Fixpoint ck_decide_mid (latest_del_bottom : bool) (i : nat) (newer : option vis) (barrier : bool) (l : list ver)
  : list (ver * bool) :=
  match l with
  | [] => []
  | v :: r =>
    let is_latest := Nat.eqb i 0 in
    let cur := visibility snaps (vseq v) in
    let superseded :=
      match newer with
      | Some nv =>
        let outside_retention := (0 <? retention) && (retention <? (now - vts v)) in
        (negb versioning || outside_retention) && negb is_latest && same_boundary nv cur
      | None => false
      end in
    let required := negb superseded && match cur with Bounded _ => true | _ => false end in
    let hard := is_hard (vkind v) in
    let rep := is_rep (vkind v) in
    let stale :=
      if superseded then true
      else if latest_del_bottom then true
      else if required then false
      else if is_latest && negb hard && negb rep then false
      else if is_latest && hard && bottom then false      (* tombstone kept: an older snapshot still reads below it *)
      else if is_latest && hard && negb bottom then false
      else if is_latest && rep then false
      else if hard then negb (versioning && negb bottom)   (* an older hard delete stays above the bottom level under versioning: it erases versions that may sit deeper *)
      else if barrier then true
      else if negb versioning then true
      else if 0 <? retention then (retention <? (now - vts v)) else false in
    let output :=
      if superseded then false
      else if latest_del_bottom then false
      else if stale then false
      else if versioning || required then true
      else is_latest in
    (v, output) :: ck_decide_mid latest_del_bottom (S i) (Some cur) (barrier || rep) r
  end.

(* vs: the versions of one key, newest first (seq descending, distinct) — what the code has after
   its sort + dedup *)
Definition compact_key_mid (vs : list ver) : list ver :=
  let latest_del_bottom :=
    match vs with
    | v :: _ => bottom && is_hard (vkind v) &&
                match snaps with [] => true | oldest :: _ => vseq v <=? oldest end
    | [] => false
    end in
  let ds := ck_decide_mid latest_del_bottom 0 None false vs in
  map fst (filter snd (if versioning then ck_fixup ds else ds)).
End CKMid.
