(* Lsm/Checkpoint.v — mid-level machine of checkpoint / restore (property C14).
   Executable definitions only; statements in CheckpointSpec.v, proofs in Checkpoint_proofs.v.

   ON DISK      table files  id -> list of data blocks (a block = list of versions),
                manifest     (live tables with their block count, next_table_id, log_number, last_sequence),
                WAL          segment id -> the versions of its batches, in order.
   IN MEMORY    the LevelManifest object (same fields; next_table_id is the atomic counter and runs ahead of the file),
                active memtable + its WAL number, immutable memtables (oldest first; each got its table id when it
                was rotated out), the WAL writer's segment, the block cache keyed by (table id, block number) ONLY,
                visible / log sequence numbers, the commit oracle abstractly (last commit stamp per key + kept_since).
   CHECKPOINTS  name -> copy of the on-disk part.
   GHOST        s_view: the key -> value map committed on the current timeline (what the specification machine
                Spec/Machine.v calls the view of the history); a checkpoint remembers the one it was taken at;
                q_floor: visible sequence number at the last open / restore — transactions never span one
                (the E2 scripts end them; the pending restore-epoch repair refuses them).

   Transcribed from /repo (the step order and the flags of `restore` are GENERATED, Lsm/CheckpointParams.v):
     CommitPipeline::commit                       commit       oracle check; seq := log_seq, log_seq += count; WAL append;
                                                               memtable insert; visible := last seq; oracle publish
     CoreInner::rotate_memtable                   rotate       nothing when the active memtable is empty; new WAL segment;
                                                               the rotated memtable gets `next_table_id()` NOW
     flush_oldest_immutable_to_sst                flush_oldest table file with the pre-assigned id; manifest: table added,
                                                               log_number := its WAL number + 1, last_sequence raised; manifest
                                                               written; WAL segments below log_number removed
     Compactor::merge_tables                      compact      `next_table_id()` always; output = some of the input versions
                                                               (WHICH: Lsm/CompactKey.v) — guard: the view of every key of
                                                               the inputs is unchanged; no file when the output is empty
     Table::get / iterators through BlockCache    read         a block is served from the cache when (table id, block) is
                                                               cached — the file is not looked at — else from the file.
                                                               Filling and eviction are steps of their own (OpFill/OpEvict):
                                                               a real read is some fills plus the pure `read`
     Core::close + Tree::new                      boot         manifest loaded; recovery (`recover`, shared with the RReplay
       Core::replay_wal_with_repair_pieces                     step of restore and with open_ckpt): ONE memtable per WAL segment
       wal/recovery.rs replay_wal                              at or above the manifest's log number, in segment order, EMPTY
                                                               segments give none; every memtable BUT THE LAST is flushed to a
                                                               table (id = `next_table_id()`, manifest: table added, log_number :=
                                                               its segment + 1, last_sequence raised, manifest written); the last
                                                               is the active memtable and is paired with the WRITER's segment (the
                                                               highest one, which may be a later, empty segment).  The segment
                                                               files stay: a later reopen replays what is at or above the NEW log
                                                               number segment by segment again, so d_wal keeps the segments (those
                                                               below the new log number are dead and dropped from the model).
                                                               seq numbers max(last_sequence, replayed), fresh oracle; the cache
                                                               object may survive (the harness re-uses its Options).
                                                               NOT modelled: the splitting of ONE over-full segment into several
                                                               memtables (ArenaFull; `segment_complete = false`)
     DatabaseCheckpoint::create_checkpoint        checkpoint   flush_all_memtables FIRST; then the tables of the in-memory
                                                               manifest, an EMPTY wal directory, the manifest directory
     Tree::restore_from_checkpoint                restore      fold of `rstep_apply` over the generated step list
   Not modelled: levels (reads take the newest version over all tables: level order = seq order is C06's business),
   the value log (Lsm/Vlog.v, C11) — `vlog.reload()` is a step of the generated list without effect on this state —,
   versioned reads, failures, concurrency (the restore runs under `lock_writes()`: anchor). *)
From Coq Require Import List NArith Arith Bool.
Import ListNotations.
Local Open Scope N_scope.

Definition key := N.
Record cver := { cv_key : key; cv_seq : N; cv_val : option N }.      (* None = tombstone *)
Definition block := list cver.
Definition tfile := list block.

Record manifest := { mf_tables : list (N * nat); mf_next : N; mf_log : N; mf_seq : N }.
Record disk := { d_tables : list (N * tfile); d_man : manifest; d_wal : list (N * list cver) }.
Definition gview := list (N * option N).
Record ckpt := { ck_disk : disk; ck_view : gview }.
Record imm := { im_tid : N; im_wal : N; im_vers : list cver }.
Record mem := { m_man : manifest; m_active : list cver; m_active_wal : N; m_imms : list imm; m_wal : N }.
Definition cache := list ((N * nat) * block).
Record seqs := { q_visible : N; q_logseq : N; q_floor : N }.
Record orc := { o_recent : list (N * N); o_kept : N }.
Record kstate := {
  s_disk : disk; s_ckpts : list (N * ckpt); s_mem : mem; s_cache : cache; s_sq : seqs; s_orc : orc; s_view : gview }.

Definition set_disk (s : kstate) (d : disk) : kstate :=
  {| s_disk := d; s_ckpts := s_ckpts s; s_mem := s_mem s; s_cache := s_cache s; s_sq := s_sq s; s_orc := s_orc s; s_view := s_view s |}.
Definition set_ckpts (s : kstate) (c : list (N * ckpt)) : kstate :=
  {| s_disk := s_disk s; s_ckpts := c; s_mem := s_mem s; s_cache := s_cache s; s_sq := s_sq s; s_orc := s_orc s; s_view := s_view s |}.
Definition set_mem (s : kstate) (m : mem) : kstate :=
  {| s_disk := s_disk s; s_ckpts := s_ckpts s; s_mem := m; s_cache := s_cache s; s_sq := s_sq s; s_orc := s_orc s; s_view := s_view s |}.
Definition set_bcache (s : kstate) (c : cache) : kstate :=
  {| s_disk := s_disk s; s_ckpts := s_ckpts s; s_mem := s_mem s; s_cache := c; s_sq := s_sq s; s_orc := s_orc s; s_view := s_view s |}.
Definition set_sq (s : kstate) (q : seqs) : kstate :=
  {| s_disk := s_disk s; s_ckpts := s_ckpts s; s_mem := s_mem s; s_cache := s_cache s; s_sq := q; s_orc := s_orc s; s_view := s_view s |}.
Definition set_orc (s : kstate) (o : orc) : kstate :=
  {| s_disk := s_disk s; s_ckpts := s_ckpts s; s_mem := s_mem s; s_cache := s_cache s; s_sq := s_sq s; s_orc := o; s_view := s_view s |}.
Definition set_view (s : kstate) (g : gview) : kstate :=
  {| s_disk := s_disk s; s_ckpts := s_ckpts s; s_mem := s_mem s; s_cache := s_cache s; s_sq := s_sq s; s_orc := s_orc s; s_view := g |}.

(* ---- association lists keyed by N ---- *)
Fixpoint aget {A} (i : N) (l : list (N * A)) : option A :=
  match l with [] => None | (j, a) :: r => if N.eqb i j then Some a else aget i r end.
Fixpoint aset {A} (i : N) (a : A) (l : list (N * A)) : list (N * A) :=
  match l with [] => [(i, a)] | (j, b) :: r => if N.eqb i j then (i, a) :: r else (j, b) :: aset i a r end.
Definition adel {A} (i : N) (l : list (N * A)) : list (N * A) := filter (fun e => negb (N.eqb (fst e) i)) l.
Definition nmem (i : N) (l : list N) : bool := existsb (N.eqb i) l.
Fixpoint nmax (l : list N) : N := match l with [] => 0 | x :: r => N.max x (nmax r) end.
Definition max_seq (l : list cver) : N := nmax (map cv_seq l).

(* ---- the block cache: keyed by (table id, block number) and by nothing else ---- *)
Definition ck_eqb (a b : N * nat) : bool := N.eqb (fst a) (fst b) && Nat.eqb (snd a) (snd b).
Fixpoint bcget (k : N * nat) (c : cache) : option block :=
  match c with [] => None | (k', b) :: r => if ck_eqb k k' then Some b else bcget k r end.
Definition bcput (k : N * nat) (b : block) (c : cache) : cache := match bcget k c with Some _ => c | None => (k, b) :: c end.
Definition bcdel (k : N * nat) (c : cache) : cache := filter (fun e => negb (ck_eqb k (fst e))) c.

(* ---- reading ---- *)
Definition file_block (ts : list (N * tfile)) (t : N) (i : nat) : option block :=
  match aget t ts with Some f => nth_error f i | None => None end.
(* a hit serves what is cached under (t, i); the file is not consulted *)
Definition rd_block (c : cache) (ts : list (N * tfile)) (t : N) (i : nat) : option block :=
  match bcget (t, i) c with Some b => Some b | None => file_block ts t i end.
Definition table_vers (c : cache) (ts : list (N * tfile)) (h : N * nat) : list cver :=
  flat_map (fun i => match rd_block c ts (fst h) i with Some b => b | None => [] end) (seq 0 (snd h)).
Definition tables_vers (c : cache) (ts : list (N * tfile)) (hs : list (N * nat)) : list cver := flat_map (table_vers c ts) hs.
Definition mem_vers (m : mem) : list cver := flat_map im_vers (m_imms m) ++ m_active m.
(* oldest data first: tables, immutable memtables (oldest first), active memtable *)
Definition store_vers (c : cache) (s : kstate) : list cver :=
  tables_vers c (d_tables (s_disk s)) (mf_tables (m_man (s_mem s))) ++ mem_vers (s_mem s).

(* the newest version of k at or below the snapshot *)
Definition better (snap : N) (k : key) (best : option cver) (x : cver) : option cver :=
  if N.eqb (cv_key x) k && N.leb (cv_seq x) snap
  then match best with None => Some x | Some b => if N.ltb (cv_seq b) (cv_seq x) then Some x else Some b end
  else best.
Definition pick (snap : N) (k : key) (l : list cver) : option cver := fold_left (better snap k) l None.
Definition val_of (o : option cver) : option N := match o with Some x => cv_val x | None => None end.
Definition kread_with (c : cache) (s : kstate) (snap : N) (k : key) : option N := val_of (pick snap k (store_vers c s)).
Definition kread (s : kstate) (snap : N) (k : key) : option N := kread_with (s_cache s) s snap k.
(* the ghost view *)
Definition view_get (g : gview) (k : key) : option N := match aget k g with Some o => o | None => None end.

(* ---- table files ---- *)
Fixpoint mk_blocks_go (n : nat) (cur : list cver) (room : nat) (l : list cver) : list block :=
  match l with
  | [] => match cur with [] => [] | _ => [rev cur] end
  | x :: r => match room with
              | O => rev (x :: cur) :: mk_blocks_go n [] n r
              | S m => mk_blocks_go n (x :: cur) m r
              end
  end.
Definition mk_blocks (bsz : nat) (l : list cver) : tfile := mk_blocks_go (pred bsz) [] (pred bsz) l.

Inductive kverdict := KOk | KConflict | KRetry.
Definition ocheck (o : orc) (keys : list key) (start : N) : kverdict :=
  if N.ltb start (o_kept o) then KRetry
  else if existsb (fun k => match aget k (o_recent o) with Some st => N.ltb start st | None => false end) keys
       then KConflict else KOk.
Definition opublish (o : orc) (keys : list key) (stamp : N) : orc :=
  {| o_recent := fold_left (fun m k => aset k stamp m) keys (o_recent o); o_kept := o_kept o |}.

Inductive kout := XDone | XBad | XSeq (q : N) | XConflict | XRetry | XTable (t : N) | XNone | XVal (v : option N).

Fixpoint number (q : N) (b : list (key * option N)) : list cver :=
  match b with [] => [] | (k, v) :: r => {| cv_key := k; cv_seq := q; cv_val := v |} :: number (N.succ q) r end.

Inductive rstep := RFiles | RClearCache | RVlogReload | RManifest | RMemtables | RWalOpen | RReplay | RWalReopen | RSetWalNo | RSeqSet | ROracleReset.
Definition rstep_eqb (a b : rstep) : bool :=
  match a, b with
  | RFiles, RFiles | RClearCache, RClearCache | RVlogReload, RVlogReload | RManifest, RManifest | RMemtables, RMemtables
  | RWalOpen, RWalOpen | RReplay, RReplay | RWalReopen, RWalReopen | RSetWalNo, RSetWalNo | RSeqSet, RSeqSet
  | ROracleReset, ROracleReset => true
  | _, _ => false
  end.
(* the order of Tree::restore_from_checkpoint in the repaired tree (f0c5933) *)
Definition canon_steps : list rstep :=
  [RFiles; RClearCache; RVlogReload; RManifest; RMemtables; RWalOpen; RReplay; RWalReopen; RSetWalNo; RSeqSet; ROracleReset].

(* ---- commit ---- *)
Definition wal_append (w : N) (vs : list cver) (wal : list (N * list cver)) : list (N * list cver) :=
  match aget w wal with Some l => aset w (l ++ vs) wal | None => wal ++ [(w, vs)] end.
Definition commit (s : kstate) (start : N) (b : list (key * option N)) : kstate * kout :=
  let q := s_sq s in
  match b with
  | [] => (s, XBad)
  | _ =>
    if negb (N.leb (q_floor q) start && N.leb start (q_visible q)) then (s, XBad) else
    match ocheck (s_orc s) (map fst b) start with
    | KRetry => (s, XRetry)
    | KConflict => (s, XConflict)
    | KOk =>
      let q0 := q_logseq q in
      let vs := number q0 b in
      let stamp := q0 + N.of_nat (length b) - 1 in
      let m := s_mem s in
      let d := s_disk s in
      let s1 := set_disk s {| d_tables := d_tables d; d_man := d_man d; d_wal := wal_append (m_wal m) vs (d_wal d) |} in
      let s2 := set_mem s1 {| m_man := m_man m; m_active := m_active m ++ vs; m_active_wal := m_active_wal m; m_imms := m_imms m; m_wal := m_wal m |} in
      let s3 := set_sq s2 {| q_visible := N.max (q_visible q) stamp; q_logseq := q0 + N.of_nat (length b); q_floor := q_floor q |} in
      let s4 := set_orc s3 (opublish (s_orc s) (map fst b) stamp) in
      (set_view s4 (fold_left (fun g kv => aset (fst kv) (snd kv) g) b (s_view s)), XSeq q0)
    end
  end.

(* ---- rotate ---- *)
Definition with_next (m : manifest) (n : N) : manifest := {| mf_tables := mf_tables m; mf_next := n; mf_log := mf_log m; mf_seq := mf_seq m |}.
Definition rotate (s : kstate) : kstate :=
  let m := s_mem s in
  match m_active m with
  | [] => s
  | _ =>
    let w' := N.succ (m_wal m) in
    let d := s_disk s in
    let s1 := set_disk s {| d_tables := d_tables d; d_man := d_man d; d_wal := d_wal d ++ [(w', [])] |} in
    set_mem s1 {| m_man := with_next (m_man m) (N.succ (mf_next (m_man m))); m_active := []; m_active_wal := w';
                  m_imms := m_imms m ++ [{| im_tid := mf_next (m_man m); im_wal := m_active_wal m; im_vers := m_active m |}];
                  m_wal := w' |}
  end.

Section WithBlockSize.
Variable bsz : nat.

(* ---- flush the oldest immutable memtable ---- *)
Definition flush_oldest (s : kstate) : kstate * kout :=
  let m := s_mem s in
  match m_imms m with
  | [] => (s, XNone)
  | im :: rest =>
    let f := mk_blocks bsz (im_vers im) in
    let man := {| mf_tables := mf_tables (m_man m) ++ [(im_tid im, length f)]; mf_next := mf_next (m_man m);
                  mf_log := N.succ (im_wal im); mf_seq := N.max (mf_seq (m_man m)) (max_seq (im_vers im)) |} in
    let d := s_disk s in
    let s1 := set_disk s {| d_tables := d_tables d ++ [(im_tid im, f)]; d_man := man;
                            d_wal := filter (fun e => N.leb (N.succ (im_wal im)) (fst e)) (d_wal d) |} in
    (set_mem s1 {| m_man := man; m_active := m_active m; m_active_wal := m_active_wal m; m_imms := rest; m_wal := m_wal m |},
     XTable (im_tid im))
  end.
Fixpoint flush_n (n : nat) (s : kstate) : kstate := match n with O => s | S n' => flush_n n' (fst (flush_oldest s)) end.
(* flush_all_memtables (checkpoint.rs) / Tree::flush: rotate if the active memtable holds data, then every immutable *)
Definition flush_all (s : kstate) : kstate := let s1 := rotate s in flush_n (length (m_imms (s_mem s1))) s1.

(* ---- compaction ---- *)
Definition kept (keep : list (key * N)) (x : cver) : bool :=
  existsb (fun p => N.eqb (fst p) (cv_key x) && N.eqb (snd p) (cv_seq x)) keep.
Definition compact (s : kstate) (ins : list N) (keep : list (key * N)) : kstate * kout :=
  let m := s_mem s in
  let d := s_disk s in
  let live := mf_tables (m_man m) in
  match ins with
  | [] => (s, XBad)
  | _ =>
    if negb (forallb (fun t => nmem t (map fst live)) ins) then (s, XBad) else
    let in_h := filter (fun h => nmem (fst h) ins) live in
    let rest := filter (fun h => negb (nmem (fst h) ins)) live in
    let in_vers := tables_vers [] (d_tables d) in_h in
    let outv := filter (kept keep) in_vers in
    let tid := mf_next (m_man m) in
    let f := mk_blocks bsz outv in
    let files := filter (fun e => negb (nmem (fst e) ins)) (d_tables d) in
    let newh := match outv with [] => [] | _ => [(tid, length f)] end in
    let newf := match outv with [] => [] | _ => [(tid, f)] end in
    let man := {| mf_tables := rest ++ newh; mf_next := N.succ tid; mf_log := mf_log (m_man m); mf_seq := mf_seq (m_man m) |} in
    let s1 := set_disk s {| d_tables := files ++ newf; d_man := man; d_wal := d_wal d |} in
    let s2 := set_mem s1 {| m_man := man; m_active := m_active m; m_active_wal := m_active_wal m; m_imms := m_imms m; m_wal := m_wal m |} in
    (* guard: no reader's answer changes (the compaction iterator's contract, Lsm/CompactKey.v compact_key_view) *)
    if forallb (fun x => match kread_with [] s2 (q_visible (s_sq s)) (cv_key x), kread_with [] s (q_visible (s_sq s)) (cv_key x) with
                         | Some a, Some b => N.eqb a b | None, None => true | _, _ => false end) in_vers
    then (s2, match outv with [] => XNone | _ => XTable tid end)
    else (s, XBad)
  end.

(* ---- cache traffic ---- *)
Definition fill (s : kstate) (t : N) (i : nat) : kstate :=
  if nmem t (map fst (mf_tables (m_man (s_mem s)))) then
    match file_block (d_tables (s_disk s)) t i with
    | Some b => set_bcache s (bcput (t, i) b (s_cache s))
    | None => s
    end
  else s.
Definition evict (s : kstate) (t : N) (i : nat) : kstate := set_bcache s (bcdel (t, i) (s_cache s)).

(* ---- open ---- *)
Definition empty_disk : disk :=
  {| d_tables := []; d_man := {| mf_tables := []; mf_next := 1; mf_log := 0; mf_seq := 0 |}; d_wal := [] |}.
(* the store on an empty directory (= boot of empty_disk: Checkpoint_proofs.v kinit_boot) *)
Definition kinit : kstate :=
  {| s_disk := {| d_tables := []; d_man := d_man empty_disk; d_wal := [(0, [])] |};
     s_ckpts := [];
     s_mem := {| m_man := d_man empty_disk; m_active := []; m_active_wal := 0; m_imms := []; m_wal := 0 |};
     s_cache := [];
     s_sq := {| q_visible := 0; q_logseq := 1; q_floor := 0 |};
     s_orc := {| o_recent := []; o_kept := 0 |};
     s_view := [] |}.

Definition wal_ensure (w : N) (wal : list (N * list cver)) : list (N * list cver) :=
  match aget w wal with Some _ => wal | None => wal ++ [(w, [])] end.
Definition seg_live (lo : N) (e : N * list cver) : bool := N.leb lo (fst e).
Definition seg_nonempty (e : N * list cver) : bool := match snd e with [] => false | _ => true end.
(* the memtables recovery builds: one per non-empty segment at or above the log number, in segment order *)
Definition replayed (lo : N) (wal : list (N * list cver)) : list (N * list cver) := filter seg_nonempty (filter (seg_live lo) wal).
(* flush_immutable_to_sst_with_log_number from recovery's callback (segment_complete) *)
Definition recov_flush (tm : list (N * tfile) * manifest) (seg : N * list cver) : list (N * tfile) * manifest :=
  let man := snd tm in
  let f := mk_blocks bsz (snd seg) in
  (fst tm ++ [(mf_next man, f)],
   {| mf_tables := mf_tables man ++ [(mf_next man, length f)]; mf_next := N.succ (mf_next man);
      mf_log := N.succ (fst seg); mf_seq := N.max (mf_seq man) (max_seq (snd seg)) |}).
(* every memtable but the last is flushed; the last one is returned *)
Fixpoint recover (ts : list (N * tfile)) (man : manifest) (segs : list (N * list cver)) : (list (N * tfile) * manifest) * list cver :=
  match segs with
  | [] => ((ts, man), [])
  | e :: r => match r with
              | [] => ((ts, man), snd e)
              | _ :: _ => recover (fst (recov_flush (ts, man) e)) (snd (recov_flush (ts, man) e)) r
              end
  end.
Definition boot (keep : cache) (d : disk) (cks : list (N * ckpt)) (g : gview) : kstate :=
  let lo := mf_log (d_man d) in
  let r := recover (d_tables d) (d_man d) (replayed lo (d_wal d)) in
  let man := snd (fst r) in
  (* the WAL writer: Wal::open_with_min_log_number with the log number the manifest had when it was LOADED *)
  let w := N.max lo (nmax (map fst (d_wal d))) in
  let vis := N.max (mf_seq (d_man d)) (max_seq (flat_map snd (filter (seg_live lo) (d_wal d)))) in
  {| s_disk := {| d_tables := fst (fst r); d_man := man; d_wal := wal_ensure w (filter (seg_live (mf_log man)) (d_wal d)) |};
     s_ckpts := cks;
     s_mem := {| m_man := man; m_active := snd r; m_active_wal := w; m_imms := []; m_wal := w |};
     s_cache := keep;
     s_sq := {| q_visible := vis; q_logseq := N.succ vis; q_floor := vis |};
     s_orc := {| o_recent := []; o_kept := 0 |};
     s_view := g |}.
Definition reopen (keep_cache : bool) (s : kstate) : kstate :=
  boot (if keep_cache then s_cache s else []) (s_disk s) (s_ckpts s) (s_view s).
(* the checkpoint directory opened as a store of its own (same checkpoint directories around it) *)
Definition open_ckpt (ck : ckpt) (cks : list (N * ckpt)) : kstate := boot [] (ck_disk ck) cks (ck_view ck).

(* ---- checkpoint: flush everything FIRST, then copy the tables of the in-memory manifest, the manifest
        directory, and an EMPTY wal directory ---- *)
Definition ckpt_copy (c : N) (s : kstate) : kstate :=
  let d := s_disk s in
  let live := map fst (mf_tables (m_man (s_mem s))) in
  set_ckpts s (aset c {| ck_disk := {| d_tables := filter (fun e => nmem (fst e) live) (d_tables d); d_man := d_man d; d_wal := [] |};
                         ck_view := s_view s |} (s_ckpts s)).
Definition checkpoint (c : N) (s : kstate) : kstate := ckpt_copy c (flush_all s).

(* ---- restore: the generated step list ---- *)
Definition restore_max (s : kstate) : N := N.max (mf_seq (m_man (s_mem s))) (max_seq (m_active (s_mem s))).
Definition rstep_apply (ck : ckpt) (s : kstate) (r : rstep) : kstate :=
  let m := s_mem s in
  let d := s_disk s in
  match r with
  | RFiles => set_view (set_disk s (ck_disk ck)) (ck_view ck)
  | RClearCache => set_bcache s []
  | RVlogReload => s
  | RManifest => set_mem s {| m_man := d_man d; m_active := m_active m; m_active_wal := m_active_wal m; m_imms := m_imms m; m_wal := m_wal m |}
  | RMemtables => set_mem s {| m_man := m_man m; m_active := []; m_active_wal := 0; m_imms := []; m_wal := m_wal m |}
  | RWalOpen | RWalReopen =>
    let w := N.max (mf_log (m_man m)) (nmax (map fst (d_wal d))) in
    set_mem (set_disk s {| d_tables := d_tables d; d_man := d_man d; d_wal := wal_ensure w (d_wal d) |})
            {| m_man := m_man m; m_active := m_active m; m_active_wal := m_active_wal m; m_imms := m_imms m; m_wal := w |}
  | RReplay =>
    (* the same recovery as at open; nothing replayed: nothing changes; the manifest file is written by a flush only *)
    let segs := replayed (mf_log (m_man m)) (d_wal d) in
    let r := recover (d_tables d) (m_man m) segs in
    match segs with
    | [] => s
    | _ :: more =>
      set_mem (set_disk s {| d_tables := fst (fst r); d_man := match more with [] => d_man d | _ => snd (fst r) end; d_wal := d_wal d |})
              {| m_man := snd (fst r); m_active := snd r; m_active_wal := m_active_wal m; m_imms := m_imms m; m_wal := m_wal m |}
    end
  | RSetWalNo => set_mem s {| m_man := m_man m; m_active := m_active m; m_active_wal := m_wal m; m_imms := m_imms m; m_wal := m_wal m |}
  | RSeqSet =>
    let mx := restore_max s in
    if N.ltb 0 mx then set_sq s {| q_visible := mx; q_logseq := N.succ mx; q_floor := q_floor (s_sq s) |} else s
  | ROracleReset => set_orc s {| o_recent := []; o_kept := restore_max s |}
  end.
Definition restore_with (rs : list rstep) (ck : ckpt) (s : kstate) : kstate :=
  let s1 := fold_left (rstep_apply ck) rs s in
  (* transactions of the discarded timeline are gone *)
  set_sq s1 {| q_visible := q_visible (s_sq s1); q_logseq := q_logseq (s_sq s1); q_floor := q_visible (s_sq s1) |}.

Inductive kop :=
| OpCommit (start : N) (b : list (key * option N))
| OpRotate
| OpFlushOldest
| OpCompact (ins : list N) (keep : list (key * N))
| OpFill (t : N) (i : nat)
| OpEvict (t : N) (i : nat)
| OpRead (snap : N) (k : key)
| OpReopen (keep_cache : bool)
| OpCheckpoint (c : N)
| OpRestore (c : N).

Variable rs : list rstep.

Definition kstep (s : kstate) (o : kop) : kstate * kout :=
  match o with
  | OpCommit start b => commit s start b
  | OpRotate => (rotate s, XDone)
  | OpFlushOldest => flush_oldest s
  | OpCompact ins keep => compact s ins keep
  | OpFill t i => (fill s t i, XDone)
  | OpEvict t i => (evict s t i, XDone)
  | OpRead snap k => (s, XVal (kread s snap k))
  | OpReopen keep => (reopen keep s, XDone)
  | OpCheckpoint c => (checkpoint c s, XDone)
  | OpRestore c => match aget c (s_ckpts s) with Some ck => (restore_with rs ck s, XDone) | None => (s, XBad) end
  end.
Fixpoint krun (l : list kop) (s : kstate) : kstate := match l with [] => s | o :: r => krun r (fst (kstep s o)) end.
Fixpoint kouts (l : list kop) (s : kstate) : list kout := match l with [] => [] | o :: r => snd (kstep s o) :: kouts r (fst (kstep s o)) end.

(* every block of every live table is brought into the cache (the most a sequence of reads can cache) *)
Definition fill_ops (s : kstate) : list kop :=
  flat_map (fun h => map (fun i => OpFill (fst h) i) (seq 0 (snd h))) (mf_tables (m_man (s_mem s))).
Definition fill_all (s : kstate) : kstate := krun (fill_ops s) s.
End WithBlockSize.
