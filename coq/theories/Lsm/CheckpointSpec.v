(* Lsm/CheckpointSpec.v — statements about the checkpoint / restore machine (Lsm/Checkpoint.v).  No proofs here.
   Every statement takes the restore step list `rs` as a parameter: Props/C14.v instantiates it with the list
   GENERATED from Tree::restore_from_checkpoint (Lsm/CheckpointParams.v); the proofs need `rs = canon_steps`. *)
From Coq Require Import List NArith Arith Bool.
From SKV Require Import Lsm.Checkpoint.
Import ListNotations.
Local Open Scope N_scope.

(* ---- the invariant of reachable states ---- *)
Fixpoint incr (lo : N) (l : list N) : Prop := match l with [] => True | x :: r => lo <= x /\ incr (N.succ x) r end.
Definition pending (s : kstate) : list N := map im_tid (m_imms (s_mem s)).
Definition seg_of (im : imm) : N * list cver := (im_wal im, im_vers im).
(* the WAL segments, grouped by the memtables (oldest first, each with its WAL number): a memtable holds what the
   segments up to its WAL number hold that no older memtable holds.  After a rotation a memtable is one segment; a
   memtable recovered at open is paired with the writer's segment and may span an older segment too *)
Definition seg_upto (w : N) (e : N * list cver) : bool := N.leb (fst e) w.
Fixpoint wal_groups (wal : list (N * list cver)) (mts : list (N * list cver)) : Prop :=
  match mts with
  | [] => wal = []
  | m :: r => flat_map snd (filter (seg_upto (fst m)) wal) = snd m /\ wal_groups (filter (fun e => negb (seg_upto (fst m) e)) wal) r
  end.

(* a checkpoint directory: exactly the live tables, an empty WAL, and it shows the view it remembers *)
Record ckpt_ok (ck : ckpt) : Prop := {
  ck_wal_empty : d_wal (ck_disk ck) = [];
  ck_handles : forall t nb, In (t, nb) (mf_tables (d_man (ck_disk ck))) ->
               exists f, aget t (d_tables (ck_disk ck)) = Some f /\ length f = nb;
  ck_ids : forall t f, In (t, f) (d_tables (ck_disk ck)) -> t < mf_next (d_man (ck_disk ck));
  ck_seqs : forall x, In x (tables_vers [] (d_tables (ck_disk ck)) (mf_tables (d_man (ck_disk ck)))) ->
            cv_seq x <= mf_seq (d_man (ck_disk ck));
  ck_shows : forall k, val_of (pick (mf_seq (d_man (ck_disk ck))) k
                                (tables_vers [] (d_tables (ck_disk ck)) (mf_tables (d_man (ck_disk ck)))))
                       = view_get (ck_view ck) k }.

Record Inv (s : kstate) : Prop := {
  (* the manifest file is the in-memory manifest as of its last write; only the id counter runs ahead *)
  i_man_tables : mf_tables (d_man (s_disk s)) = mf_tables (m_man (s_mem s));
  i_man_log : mf_log (d_man (s_disk s)) = mf_log (m_man (s_mem s));
  i_man_seq : mf_seq (d_man (s_disk s)) = mf_seq (m_man (s_mem s));
  i_man_next : mf_next (d_man (s_disk s)) <= mf_next (m_man (s_mem s));
  i_handles : forall t nb, In (t, nb) (mf_tables (m_man (s_mem s))) ->
              exists f, aget t (d_tables (s_disk s)) = Some f /\ length f = nb;
  i_ids : forall t f, In (t, f) (d_tables (s_disk s)) -> t < mf_next (d_man (s_disk s));
  (* table ids handed out at rotation and not yet used *)
  i_pending_lt : forall im, In im (m_imms (s_mem s)) -> im_tid im < mf_next (m_man (s_mem s));
  i_pending_nofile : forall im f, In im (m_imms (s_mem s)) -> ~ In (im_tid im, f) (d_tables (s_disk s));
  i_pending_nodup : NoDup (pending s);
  (* THE cache invariant: whatever is cached under (t, i) is block i of THE file that ever has id t on this
     timeline — an id that is cached has been used, and is never handed out again *)
  i_cache : forall t i b, bcget (t, i) (s_cache s) = Some b ->
            t < mf_next (d_man (s_disk s)) /\ ~ In t (pending s) /\
            (forall f, aget t (d_tables (s_disk s)) = Some f -> nth_error f i = Some b);
  i_seq_log : q_logseq (s_sq s) = N.succ (q_visible (s_sq s));
  i_seq_store : forall x, In x (store_vers [] s) -> cv_seq x <= q_visible (s_sq s);
  i_seq_tables : forall x, In x (tables_vers [] (d_tables (s_disk s)) (mf_tables (m_man (s_mem s)))) ->
                 cv_seq x <= mf_seq (m_man (s_mem s));
  i_seq_man : mf_seq (m_man (s_mem s)) <= q_visible (s_sq s);
  i_floor : q_floor (s_sq s) <= q_visible (s_sq s);
  i_kept : o_kept (s_orc s) <= q_floor (s_sq s);
  (* the WAL holds exactly the memtables, group of segments by group of segments; the writer's segment is the last *)
  i_wal : wal_groups (d_wal (s_disk s)) (map seg_of (m_imms (s_mem s)) ++ [(m_active_wal (s_mem s), m_active (s_mem s))]);
  i_wal_last : exists pre vs, d_wal (s_disk s) = pre ++ [(m_wal (s_mem s), vs)];
  i_imm_wal : forall im, In im (m_imms (s_mem s)) -> im_wal im < m_active_wal (s_mem s);
  i_wal_cur : m_wal (s_mem s) = m_active_wal (s_mem s);
  i_wal_incr : incr (mf_log (m_man (s_mem s))) (map fst (d_wal (s_disk s)));
  (* what a fresh reader sees is the committed view *)
  i_view : forall k, kread_with [] s (q_visible (s_sq s)) k = view_get (s_view s) k;
  i_ckpts : forall c ck, aget c (s_ckpts s) = Some ck -> ckpt_ok ck }.

Definition inv_reachable_stmt (rs : list rstep) : Prop := forall bsz ops, Inv (krun bsz rs ops (kinit)).

(* a history that does not take checkpoint c again *)
Definition not_ckpt (c : N) (o : kop) : bool := match o with OpCheckpoint c' => negb (N.eqb c c') | _ => true end.
(* cache traffic and reads only *)
Definition cache_op (o : kop) : bool := match o with OpFill _ _ | OpEvict _ _ | OpRead _ _ => true | _ => false end.

(* (a) the checkpoint directory, whenever it is opened later, is a healthy store that shows exactly the view committed
   before the checkpoint was taken (create_checkpoint = flush everything, then copy) *)
Definition checkpoint_content_stmt (rs : list rstep) : Prop :=
  forall bsz ops0 c ops1,
    forallb (not_ckpt c) ops1 = true ->
    let s0 := krun bsz rs ops0 kinit in
    let s2 := krun bsz rs ops1 (checkpoint bsz c s0) in
    exists ck, aget c (s_ckpts s2) = Some ck /\
      let o := open_ckpt bsz ck (s_ckpts s2) in
      Inv o /\ forall k snap, q_visible (s_sq o) <= snap -> kread o snap k = view_get (s_view s0) k.

(* (b) after any history between the checkpoint and the restore — flushes and compactions that hand out table ids the
   restored timeline hands out AGAIN, blocks of those tables cached — every read through the cache right after the
   restore (and after any further cache traffic) returns the checkpointed view: nothing written afterwards, for every key *)
Definition restore_reads_checkpointed_state_stmt (rs : list rstep) : Prop :=
  forall bsz ops0 c ops1 ops2,
    forallb (not_ckpt c) ops1 = true -> forallb cache_op ops2 = true ->
    let s0 := krun bsz rs ops0 kinit in
    let s2 := krun bsz rs ops1 (checkpoint bsz c s0) in
    snd (kstep bsz rs s2 (OpRestore c)) = XDone /\
    let s3 := krun bsz rs ops2 (fst (kstep bsz rs s2 (OpRestore c))) in
    forall k snap, q_visible (s_sq s3) <= snap -> kread s3 snap k = view_get (s_view s0) k.

(* (c) after the restore ANY further history — commits, rotations, flushes, compactions, cache traffic, reads at any
   snapshot, reopen, more checkpoints and restores — answers exactly as the same history on a store freshly opened from
   the checkpoint directory: every output (commit verdicts and sequence numbers, table ids handed out, read results).
   PARTIAL: the hypothesis excludes restoring an EMPTY checkpoint (last_sequence = 0) into a store that has committed
   something: `set_seq_num(0)` does nothing (CKPT_SEQ_SET_ONLY_POSITIVE), the sequence counter is then NOT rewound and
   the outputs differ in the sequence numbers (not in what is read: restore_empty_checkpoint_stmt) *)
Definition post_restore_behaves_like_fresh_open_of_checkpoint_partial_stmt (rs : list rstep) : Prop :=
  forall bsz ops0 c ck ops,
    let s := krun bsz rs ops0 kinit in
    aget c (s_ckpts s) = Some ck ->
    (0 < mf_seq (d_man (ck_disk ck)) \/ q_visible (s_sq s) = 0) ->
    kouts bsz rs ops (fst (kstep bsz rs s (OpRestore c))) = kouts bsz rs ops (open_ckpt bsz ck (s_ckpts s)).

(* in every case — the excluded corner included — the restored store satisfies the invariant and every read through
   the cache, at any snapshot from the visible one on, returns the view the checkpoint remembers *)
Definition restore_any_checkpoint_reads_its_view_stmt (rs : list rstep) : Prop :=
  forall bsz ops0 c ck ops2,
    let s := krun bsz rs ops0 kinit in
    aget c (s_ckpts s) = Some ck -> forallb cache_op ops2 = true ->
    let s3 := krun bsz rs ops2 (fst (kstep bsz rs s (OpRestore c))) in
    Inv s3 /\ forall k snap, q_visible (s_sq s3) <= snap -> kread s3 snap k = view_get (ck_view ck) k.

(* (d) in every reachable state — in particular at any time after a restore — a commit gets sequence numbers above every
   version the store holds (tables, memtables) and above the manifest's last_sequence: it is never shadowed; and the
   committed values are what a fresh reader sees *)
Definition commit_seq_above_store_stmt (rs : list rstep) : Prop :=
  forall bsz ops start b s' q,
    let s := krun bsz rs ops kinit in
    kstep bsz rs s (OpCommit start b) = (s', XSeq q) ->
    (forall x, In x (store_vers (s_cache s) s) -> cv_seq x < q) /\
    (forall x, In x (store_vers [] s) -> cv_seq x < q) /\
    mf_seq (d_man (s_disk s)) < q /\
    (forall k v, In (k, v) b -> (forall v', In (k, v') b -> v' = v) -> kread s' (q_visible (s_sq s')) k = v).
Definition restore_rewinds_above_checkpoint_stmt (rs : list rstep) : Prop :=
  forall bsz ops0 c ck,
    let s := krun bsz rs ops0 kinit in
    aget c (s_ckpts s) = Some ck ->
    let s3 := fst (kstep bsz rs s (OpRestore c)) in
    mf_seq (d_man (ck_disk ck)) < q_logseq (s_sq s3) /\
    forall x, In x (tables_vers [] (d_tables (ck_disk ck)) (mf_tables (d_man (ck_disk ck)))) -> cv_seq x < q_logseq (s_sq s3).

(* ---- (e) closed regression witnesses: what each step of the restore is needed for.  `without r` is the restore of
   a tree that lacks statement r (for RClearCache: the code before f0c5933).  Block size 2. ---- *)
Definition without (r : rstep) : list rstep := filter (fun x => negb (rstep_eqb r x)) canon_steps.

(* table id reuse: checkpoint 1 holds table 1 (key 1 = 10, next_table_id 2).  The discarded timeline writes key 1 = 20,
   flushes it to table 2 and reads it (its block is cached).  After the restore the new timeline writes key 2 = 30 and
   flushes it — to table 2 AGAIN.  Outputs of the three reads at the end: key 1 right after the restore, key 1 and
   key 2 after the flush *)
Definition w_reuse : list kop :=
  [OpCommit 0 [(1, Some 10)]; OpCheckpoint 1; OpCommit 1 [(1, Some 20)]; OpRotate; OpFlushOldest; OpFill 2 0;
   OpRestore 1; OpRead 1 1; OpCommit 1 [(2, Some 30)]; OpRotate; OpFlushOldest; OpRead 2 1; OpRead 2 2].
Definition stale_read_without_cache_clear_stmt : Prop :=
  nth 7 (kouts 2 canon_steps w_reuse kinit) XBad = XVal (Some 10) /\
  skipn 11 (kouts 2 canon_steps w_reuse kinit) = [XVal (Some 10); XVal (Some 30)] /\
  (* without the clear: key 1 reads the DISCARDED timeline's 20 and the committed key 2 is not found: the cached
     block of the old table 2 is served for the new table 2 *)
  nth 7 (kouts 2 (without RClearCache) w_reuse kinit) XBad = XVal (Some 10) /\
  skipn 11 (kouts 2 (without RClearCache) w_reuse kinit) = [XVal (Some 20); XVal None].

(* sequence numbers: checkpoint 2 is empty, checkpoint 3 holds key 1 = 10 at sequence number 1.  Restore 2, reopen (the
   counters restart from the empty manifest), restore 3.  Without set_seq_num the visible sequence number stays 0: a
   transaction that begins now has snapshot 0 — it does not see what checkpoint 3 holds — and its commit is refused
   with Retry for ever (the oracle window starts at 1): the restored store neither shows the checkpoint nor accepts writes *)
Definition w_seq : list kop :=
  [OpCheckpoint 2; OpCommit 0 [(1, Some 10)]; OpCheckpoint 3; OpRestore 2; OpReopen true; OpRestore 3].
Definition restored_state_invisible_without_seq_set_stmt : Prop :=
  q_visible (s_sq (krun 2 canon_steps w_seq kinit)) = 1 /\
  skipn 6 (kouts 2 canon_steps (w_seq ++ [OpRead 1 1; OpCommit 1 [(1, Some 30)]; OpRead 2 1]) kinit) = [XVal (Some 10); XSeq 2; XVal (Some 30)] /\
  q_visible (s_sq (krun 2 (without RSeqSet) w_seq kinit)) = 0 /\
  skipn 6 (kouts 2 (without RSeqSet) (w_seq ++ [OpRead 0 1; OpCommit 0 [(1, Some 30)]]) kinit) = [XVal None; XRetry].

(* oracle: without the reset the stamp of a discarded commit refuses a transaction that began after the restore *)
Definition w_orc : list kop :=
  [OpCommit 0 [(1, Some 10)]; OpCheckpoint 1; OpCommit 1 [(1, Some 20)]; OpRestore 1; OpCommit 1 [(1, Some 30)]].
Definition false_conflict_without_oracle_reset_stmt : Prop :=
  skipn 4 (kouts 2 canon_steps w_orc kinit) = [XSeq 2] /\ skipn 4 (kouts 2 (without ROracleReset) w_orc kinit) = [XConflict].

(* memtables: without the replacement a discarded, unflushed commit is read after the restore *)
Definition w_mem : list kop :=
  [OpCommit 0 [(1, Some 10)]; OpCheckpoint 1; OpCommit 1 [(1, Some 20)]; OpRestore 1; OpRead 5 1].
Definition discarded_memtable_read_without_replacement_stmt : Prop :=
  skipn 4 (kouts 2 canon_steps w_mem kinit) = [XVal (Some 10)] /\ skipn 4 (kouts 2 (without RMemtables) w_mem kinit) = [XVal (Some 20)].

(* manifest: without the reload the old table list stays (here: one table written by a discarded compaction, whose
   file the restore removed): the restored key is not found *)
Definition w_man : list kop :=
  [OpCommit 0 [(1, Some 10)]; OpCheckpoint 1; OpCommit 1 [(2, Some 7)]; OpRotate; OpFlushOldest; OpCompact [1; 2] [(1, 1); (2, 2)];
   OpRestore 1; OpRead 5 1].
Definition stale_manifest_without_reload_stmt : Prop :=
  skipn 7 (kouts 2 canon_steps w_man kinit) = [XVal (Some 10)] /\
  skipn 7 (kouts 2 (without RManifest) w_man kinit) = [XVal None].

(* ---- (f) the hypotheses of the theorems are satisfiable ---- *)
Definition hypotheses_satisfiable_stmt : Prop :=
  let ops0 := [OpCommit 0 [(1, Some 10)]; OpCommit 1 [(2, None)]; OpCheckpoint 7] in
  let ops1 := [OpCommit 2 [(1, Some 20)]; OpRotate; OpFlushOldest; OpFill 2 0; OpCompact [1; 2] [(1, 3); (2, 2)]; OpReopen true; OpCheckpoint 8] in
  forallb (not_ckpt 7) ops1 = true /\
  exists ck, aget 7 (s_ckpts (krun 2 canon_steps (ops0 ++ ops1) kinit)) = Some ck /\ 0 < mf_seq (d_man (ck_disk ck)) /\
    ckpt_ok ck.
