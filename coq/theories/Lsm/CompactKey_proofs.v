(* Lsm/CompactKey_proofs.v — proofs of the statements of CompactKeySpec.v about compact_key. *)
From Coq Require Import List NArith Bool Sorted Lia.
From SKV Require Import Lsm.CompactKey Lsm.CompactKeySpec.
Import ListNotations.
Local Open Scope N_scope.

Arguments N.add : simpl never.
Arguments N.sub : simpl never.
Arguments N.eqb : simpl never.
Arguments N.ltb : simpl never.
Arguments N.leb : simpl never.

(* ------------------------------------------------------------------------------------------ *)
(* The per-version decision of ck_go, factored out (same text as the body of ck_go).          *)

Definition ck_superseded (versioning : bool) (snaps : list N) (i : nat) (newer : option vis)
           (v : ver) : bool :=
  let is_latest := Nat.eqb i 0 in
  let cur := visibility snaps (vseq v) in
  match newer with
  | Some nv =>
    let allows := match cur with NoSnap => negb versioning | _ => true end in
    allows && negb is_latest && same_boundary nv cur
  | None => false
  end.

Definition ck_output (bottom versioning : bool) (retention now : N) (snaps : list N)
           (latest_del_bottom has_rep : bool) (i : nat) (newer : option vis) (v : ver) : bool :=
  let is_latest := Nat.eqb i 0 in
  let cur := visibility snaps (vseq v) in
  let superseded := ck_superseded versioning snaps i newer v in
  let required := negb superseded && match cur with Bounded _ => true | _ => false end in
  let hard := is_hard (vkind v) in
  let rep := is_rep (vkind v) in
  let stale :=
    if superseded then true
    else if latest_del_bottom then true
    else if required then false
    else if is_latest && negb hard && negb rep then false
    else if is_latest && hard && bottom then false
    else if is_latest && hard && negb bottom then false
    else if is_latest && rep then false
    else if hard then true
    else if has_rep && negb rep then true
    else if negb versioning then true
    else if 0 <? retention then (retention <? (now - vts v)) else false in
  if superseded then false
  else if latest_del_bottom then false
  else if stale then false
  else if versioning || required then true
  else is_latest.

Lemma ck_go_nil : forall bottom versioning retention now snaps ldb hr i newer,
  ck_go bottom versioning retention now snaps ldb hr i newer [] = [].
Proof. reflexivity. Qed.

Lemma ck_go_cons : forall bottom versioning retention now snaps ldb hr i newer v r,
  ck_go bottom versioning retention now snaps ldb hr i newer (v :: r) =
  (if ck_output bottom versioning retention now snaps ldb hr i newer v then [v] else []) ++
  ck_go bottom versioning retention now snaps ldb hr (S i) (Some (visibility snaps (vseq v))) r.
Proof. reflexivity. Qed.

(* ------------------------------------------------------------------------------------------ *)
(* 1. sublist                                                                                 *)

Lemma sublist_skip : forall a y q, sublist a q -> sublist a (y :: q).
Proof.
  intros a y q H. destruct a as [|x a']; cbn [sublist]; [exact I | right; exact H].
Qed.

Lemma ck_go_sublist : forall bottom versioning retention now snaps ldb hr l i newer,
  sublist (ck_go bottom versioning retention now snaps ldb hr i newer l) l.
Proof.
  intros bottom versioning retention now snaps ldb hr l.
  induction l as [|v r IH]; intros i newer.
  - rewrite ck_go_nil. exact I.
  - rewrite ck_go_cons.
    destruct (ck_output bottom versioning retention now snaps ldb hr i newer v).
    + cbn [app sublist]. left. split; [reflexivity | apply IH].
    + cbn [app]. apply sublist_skip. apply IH.
Qed.

Lemma compact_key_sublist : compact_key_sublist_stmt.
Proof.
  unfold compact_key_sublist_stmt, compact_key. intros. apply ck_go_sublist.
Qed.

(* ------------------------------------------------------------------------------------------ *)
(* Generic facts on the decision                                                              *)

(* under latest_del_bottom nothing is written *)
Lemma ck_output_ldb : forall bottom versioning retention now snaps hr i newer v,
  ck_output bottom versioning retention now snaps true hr i newer v = false.
Proof.
  intros. unfold ck_output.
  destruct (ck_superseded versioning snaps i newer v); reflexivity.
Qed.

Lemma ck_go_ldb : forall bottom versioning retention now snaps hr l i newer,
  ck_go bottom versioning retention now snaps true hr i newer l = [].
Proof.
  intros bottom versioning retention now snaps hr l.
  induction l as [|v r IH]; intros i newer.
  - reflexivity.
  - rewrite ck_go_cons, ck_output_ldb, IH. reflexivity.
Qed.

(* the newest version (index 0, nothing newer) is always written, except under latest_del_bottom *)
Lemma ck_output_head : forall bottom versioning retention now snaps hr v,
  ck_output bottom versioning retention now snaps false hr 0 None v = true.
Proof.
  intros. unfold ck_output, ck_superseded. cbn [Nat.eqb negb andb].
  destruct (visibility snaps (vseq v)); cbn [andb orb negb];
    destruct (is_hard (vkind v)) eqn:Hh; destruct (is_rep (vkind v)) eqn:Hr;
    destruct bottom; destruct versioning; cbn [andb orb negb]; try reflexivity.
Qed.

(* a version that is not superseded and is bounded by a snapshot is written *)
Lemma ck_output_required : forall bottom versioning retention now snaps hr i newer v s',
  ck_superseded versioning snaps i newer v = false ->
  visibility snaps (vseq v) = Bounded s' ->
  ck_output bottom versioning retention now snaps false hr i newer v = true.
Proof.
  intros bottom versioning retention now snaps hr i newer v s' Hsup Hvis.
  unfold ck_output. rewrite Hsup, Hvis. cbn [negb andb].
  rewrite orb_true_r. reflexivity.
Qed.

(* ------------------------------------------------------------------------------------------ *)
(* 2. plain                                                                                   *)

Lemma ck_go_plain_tail : forall bottom retention now ldb hr l i,
  ck_go bottom false retention now [] ldb hr (S i) (Some NoSnap) l = [].
Proof.
  intros bottom retention now ldb hr l.
  induction l as [|v r IH]; intros i.
  - reflexivity.
  - rewrite ck_go_cons. cbn [visibility]. rewrite IH.
    unfold ck_output, ck_superseded. cbn [visibility Nat.eqb negb andb same_boundary].
    reflexivity.
Qed.

Lemma compact_key_plain : compact_key_plain_stmt.
Proof.
  unfold compact_key_plain_stmt, compact_key. intros bottom retention now v vs _.
  rewrite andb_true_r.
  destruct (bottom && is_hard (vkind v)) eqn:Hldb.
  - apply ck_go_ldb.
  - rewrite ck_go_cons, ck_output_head. cbn [visibility].
    rewrite ck_go_plain_tail. reflexivity.
Qed.

(* ------------------------------------------------------------------------------------------ *)
(* 3. view                                                                                    *)

(* earliest returns a snapshot at or above q *)
Lemma earliest_ge : forall snaps q s', earliest snaps q = Some s' -> q <= s'.
Proof.
  induction snaps as [|s0 r IH]; intros q s' H; cbn [earliest] in H.
  - discriminate.
  - destruct (N.leb_spec q s0) as [Hle|Hgt].
    + injection H as <-. exact Hle.
    + apply IH. exact H.
Qed.

(* for ascending snaps, earliest returns the least snapshot at or above q *)
Lemma earliest_le : forall snaps q s, asc snaps -> In s snaps -> q <= s ->
  exists s', earliest snaps q = Some s' /\ s' <= s.
Proof.
  induction snaps as [|s0 r IH]; intros q s Hasc Hin Hq.
  - destruct Hin.
  - cbn [earliest]. inversion Hasc as [|? ? Hr Hall]; subst.
    destruct (N.leb_spec q s0) as [Hle|Hgt].
    + exists s0. split; [reflexivity|].
      destruct Hin as [->|Hin]; [lia|].
      rewrite Forall_forall in Hall. specialize (Hall _ Hin). lia.
    + destruct Hin as [->|Hin]; [lia|].
      apply IH; assumption.
Qed.

Lemma visibility_le : forall snaps q s, asc snaps -> In s snaps -> q <= s ->
  exists s', visibility snaps q = Bounded s' /\ s' <= s.
Proof.
  intros snaps q s Hasc Hin Hq.
  destruct (earliest_le snaps q s Hasc Hin Hq) as [s' [He Hs']].
  exists s'. split; [|exact Hs'].
  unfold visibility. destruct snaps as [|s0 r]; [destruct Hin|].
  rewrite He. reflexivity.
Qed.

(* a version above s never shares the boundary of a version bounded at or below s *)
Lemma visibility_gt : forall snaps q s s', In s snaps -> s < q -> s' <= s ->
  same_boundary (visibility snaps q) (Bounded s') = false.
Proof.
  intros snaps q s s' Hin Hq Hs'.
  unfold visibility. destruct snaps as [|s0 r]; [destruct Hin|].
  destruct (earliest (s0 :: r) q) as [s''|] eqn:He; cbn [same_boundary]; [|reflexivity].
  apply earliest_ge in He.
  destruct (N.eqb_spec s'' s'); [lia | reflexivity].
Qed.

(* the invariant on [newer] while scanning down to horizon s: everything already passed lies
   strictly above s *)
Definition newer_above (snaps : list N) (s : N) (newer : option vis) : Prop :=
  newer = None \/ exists q, newer = Some (visibility snaps q) /\ s < q.

Lemma ck_go_find_snap : forall bottom versioning retention now snaps hr s,
  asc snaps -> In s snaps ->
  forall l i newer, newer_above snaps s newer ->
  find (fun v => vseq v <=? s) (ck_go bottom versioning retention now snaps false hr i newer l) =
  find (fun v => vseq v <=? s) l.
Proof.
  intros bottom versioning retention now snaps hr s Hasc Hin.
  induction l as [|v r IH]; intros i newer Hnew.
  - reflexivity.
  - rewrite ck_go_cons. cbn [find].
    destruct (N.leb_spec (vseq v) s) as [Hle|Hgt].
    + destruct (visibility_le snaps (vseq v) s Hasc Hin Hle) as [s' [Hvis Hs']].
      assert (Hsup : ck_superseded versioning snaps i newer v = false).
      { unfold ck_superseded. destruct Hnew as [->|[q [-> Hq]]]; [reflexivity|].
        rewrite Hvis. rewrite (visibility_gt snaps q s s' Hin Hq Hs').
        apply andb_false_r. }
      rewrite (ck_output_required bottom versioning retention now snaps hr i newer v s' Hsup Hvis).
      cbn [app find].
      destruct (N.leb_spec (vseq v) s) as [_|Hgt]; [reflexivity | lia].
    + assert (Hrest :
        find (fun v0 => vseq v0 <=? s)
             (ck_go bottom versioning retention now snaps false hr (S i)
                    (Some (visibility snaps (vseq v))) r) =
        find (fun v0 => vseq v0 <=? s) r).
      { apply IH. right. exists (vseq v). split; [reflexivity | exact Hgt]. }
      destruct (ck_output bottom versioning retention now snaps false hr i newer v).
      * cbn [app find].
        destruct (N.leb_spec (vseq v) s) as [Hle|_]; [lia | exact Hrest].
      * cbn [app]. exact Hrest.
Qed.

(* with latest_del_bottom false, every relevant reader finds the same version before and after *)
Lemma ck_visible_same : forall bottom versioning retention now snaps hr vs s,
  asc snaps -> (In s snaps \/ top vs <= s) ->
  visible_at (ck_go bottom versioning retention now snaps false hr 0 None vs) s = visible_at vs s.
Proof.
  intros bottom versioning retention now snaps hr vs s Hasc [Hin|Htop].
  - unfold visible_at. apply ck_go_find_snap; [exact Hasc | exact Hin | left; reflexivity].
  - unfold visible_at. destruct vs as [|v r]; [reflexivity|].
    rewrite ck_go_cons, ck_output_head. cbn [app find top] in *.
    destruct (N.leb_spec (vseq v) s) as [_|Hgt]; [reflexivity | lia].
Qed.

Lemma asc_head_le : forall s0 r s, asc (s0 :: r) -> In s (s0 :: r) -> s0 <= s.
Proof.
  intros s0 r s Hasc Hin. inversion Hasc as [|? ? Hr Hall]; subst.
  destruct Hin as [->|Hin]; [lia|].
  rewrite Forall_forall in Hall. specialize (Hall _ Hin). lia.
Qed.

Lemma compact_key_view : compact_key_view_stmt.
Proof.
  unfold compact_key_view_stmt.
  intros bottom versioning retention now snaps vs s _ Hasc _ Hrel. cbv zeta.
  unfold compact_key.
  set (hr := existsb (fun v => is_rep (vkind v)) vs).
  destruct vs as [|v r].
  - cbn. split; reflexivity.
  - destruct (bottom && is_hard (vkind v) &&
              match snaps with [] => true | oldest :: _ => vseq v <=? oldest end) eqn:Hldb.
    + (* latest_del_bottom: everything is dropped; every relevant reader saw the hard delete *)
      rewrite ck_go_ldb.
      apply andb_prop in Hldb. destruct Hldb as [Hbh Hold].
      apply andb_prop in Hbh. destruct Hbh as [Hb Hh].
      split; [|intros Hb'; rewrite Hb' in Hb; discriminate].
      assert (Hvs : vseq v <= s).
      { destruct Hrel as [Hin|Htop]; [|exact Htop].
        destruct snaps as [|s0 sr]; [destruct Hin|].
        pose proof (asc_head_le s0 sr s Hasc Hin) as H0.
        destruct (N.leb_spec (vseq v) s0) as [Hle|Hgt]; [lia | discriminate]. }
      unfold obs_get, visible_at. cbn [find].
      destruct (N.leb_spec (vseq v) s) as [_|Hgt]; [|lia].
      destruct (vkind v); cbn [is_hard] in Hh; try discriminate. reflexivity.
    + pose proof (ck_visible_same bottom versioning retention now snaps hr (v :: r) s Hasc Hrel)
        as Hsame.
      unfold obs_get, obs_mask. rewrite Hsame. split; [reflexivity | intros _; reflexivity].
Qed.

Print Assumptions compact_key_sublist.
Print Assumptions compact_key_plain.
Print Assumptions compact_key_view.
