(* Lsm/CompactKey_proofs.v — proofs of the statements of CompactKeySpec.v about compact_key. *)
From Coq Require Import List NArith Bool Sorted Lia.
From SKV Require Import Lsm.CompactKey Lsm.CompactKeySpec.
Import ListNotations.
Local Open Scope N_scope.

Arguments N.add : simpl never.
Arguments N.sub : simpl never.
Arguments N.eqb : simpl never.
Arguments N.ltb : simpl never.
Arguments N.leb : simpl never.

(* ------------------------------------------------------------------------------------------ *)
(* Flagged lists                                                                              *)

Definition kept (L : list (ver * bool)) : list ver := map fst (filter snd L).

Lemma kept_cons_true : forall v r, kept ((v, true) :: r) = v :: kept r.
Proof. reflexivity. Qed.
Lemma kept_cons_false : forall v r, kept ((v, false) :: r) = kept r.
Proof. reflexivity. Qed.

Lemma sublist_skip : forall a y q, sublist a q -> sublist a (y :: q).
Proof.
  intros a y q H. destruct a as [|x a']; cbn [sublist]; [exact I | right; exact H].
Qed.

Lemma kept_sublist : forall L, sublist (kept L) (map fst L).
Proof.
  induction L as [|[v b] r IH].
  - exact I.
  - destruct b.
    + rewrite kept_cons_true. cbn [map fst sublist]. left. split; [reflexivity | exact IH].
    + rewrite kept_cons_false. cbn [map fst]. apply sublist_skip. exact IH.
Qed.

Lemma kept_none : forall L, existsb snd L = false -> kept L = [].
Proof.
  induction L as [|[v b] r IH]; intros H.
  - reflexivity.
  - cbn [existsb snd] in H. apply orb_false_elim in H. destruct H as [-> Hr].
    rewrite kept_cons_false. apply IH. exact Hr.
Qed.

Lemma existsb_filter_false : forall (q : ver * bool -> bool) L,
  existsb snd L = false -> existsb snd (filter q L) = false.
Proof.
  induction L as [|d r IH]; intros H.
  - reflexivity.
  - cbn [existsb] in H. apply orb_false_elim in H. destruct H as [Hd Hr].
    cbn [filter]. destruct (q d).
    + cbn [existsb]. rewrite Hd, (IH Hr). reflexivity.
    + apply IH. exact Hr.
Qed.

Lemma filter_kept : forall (p : ver -> bool) L,
  filter p (kept L) = kept (filter (fun d => p (fst d)) L).
Proof.
  induction L as [|[v b] r IH].
  - reflexivity.
  - destruct b.
    + rewrite kept_cons_true. cbn [filter fst]. destruct (p v).
      * rewrite kept_cons_true, IH. reflexivity.
      * exact IH.
    + rewrite kept_cons_false. cbn [filter fst]. destruct (p v).
      * rewrite kept_cons_false. exact IH.
      * exact IH.
Qed.

Lemma filter_map_fst : forall (p : ver -> bool) (L : list (ver * bool)),
  filter p (map fst L) = map fst (filter (fun d => p (fst d)) L).
Proof.
  induction L as [|[v b] r IH].
  - reflexivity.
  - cbn [map filter fst]. destruct (p v).
    + cbn [map fst]. rewrite IH. reflexivity.
    + exact IH.
Qed.

Lemma filter_all : forall (A : Type) (q : A -> bool) (L : list A),
  (forall d, In d L -> q d = true) -> filter q L = L.
Proof.
  induction L as [|d r IH]; intros H.
  - reflexivity.
  - cbn [filter]. rewrite (H d (or_introl eq_refl)). f_equal.
    apply IH. intros d' Hd'. apply H. right. exact Hd'.
Qed.

(* ------------------------------------------------------------------------------------------ *)
(* ck_fixup as a structural recursion                                                         *)

Definition isbar (v : ver) : bool := is_hard (vkind v) || is_rep (vkind v).

Fixpoint fixup (ds : list (ver * bool)) : list (ver * bool) :=
  match ds with
  | [] => []
  | d :: r => (fst d, snd d || (existsb snd r && isbar (fst d))) :: fixup r
  end.

Lemma ck_fixup_fold : forall ds,
  fold_right (fun (d : ver * bool) (st : bool * list (ver * bool)) =>
         let '(older_kept, acc) := st in
         let k := snd d || (older_kept && (is_hard (vkind (fst d)) || is_rep (vkind (fst d)))) in
         (older_kept || k, (fst d, k) :: acc)) (false, []) ds
  = (existsb snd ds, fixup ds).
Proof.
  intros ds.
  match goal with |- fold_right ?f _ _ = _ => set (F := f) end.
  induction ds as [|d r IH].
  - reflexivity.
  - change (F d (fold_right F (false, []) r) = (existsb snd (d :: r), fixup (d :: r))).
    rewrite IH. unfold F. cbn [existsb fixup]. unfold isbar.
    f_equal.
    destruct (snd d); destruct (existsb snd r);
      destruct (is_hard (vkind (fst d)) || is_rep (vkind (fst d))); reflexivity.
Qed.

Lemma ck_fixup_eq : forall ds, ck_fixup ds = fixup ds.
Proof.
  intros ds. unfold ck_fixup. rewrite ck_fixup_fold. reflexivity.
Qed.

Lemma fixup_map_fst : forall ds, map fst (fixup ds) = map fst ds.
Proof.
  induction ds as [|d r IH]; [reflexivity|].
  cbn [fixup map fst]. rewrite IH. reflexivity.
Qed.

Lemma fixup_existsb : forall ds, existsb snd (fixup ds) = existsb snd ds.
Proof.
  induction ds as [|d r IH]; [reflexivity|].
  cbn [fixup existsb snd]. rewrite IH.
  destruct (snd d); destruct (existsb snd r); destruct (isbar (fst d)); reflexivity.
Qed.

(* fixup only raises flags *)
Lemma fixup_in_false : forall v ds, In (v, false) (fixup ds) -> In (v, false) ds.
Proof.
  induction ds as [|[x b] r IH]; intros H.
  - destruct H.
  - cbn [fixup fst snd] in H. destruct H as [H|H].
    + left. injection H as -> Hb. apply orb_false_elim in Hb. destruct Hb as [-> _].
      reflexivity.
    + right. apply IH. exact H.
Qed.

(* ------------------------------------------------------------------------------------------ *)
(* The per-version decision of ck_decide, factored out (same text as the body of ck_decide).  *)

Definition outside (retention now : N) (v : ver) : bool :=
  (0 <? retention) && (retention <? (now - vts v)).

Definition ck_superseded (bottom versioning : bool) (retention now : N) (snaps : list N)
           (i : nat) (newer : option vis) (nbar : bool) (v : ver) : bool :=
  let is_latest := Nat.eqb i 0 in
  let cur := visibility snaps (vseq v) in
  match newer with
  | Some nv =>
    let outside_retention := (0 <? retention) && (retention <? (now - vts v)) in
    let barrier_above_bottom := versioning && negb bottom && is_hard (vkind v) && negb nbar in
    (negb versioning || outside_retention) && negb barrier_above_bottom
      && negb is_latest && same_boundary nv cur
  | None => false
  end.

(* the newer-barrier accumulator after the reset at a change of visibility boundary *)
Definition ck_nb (snaps : list N) (newer : option vis) (nbar : bool) (v : ver) : bool :=
  match newer with
  | Some nv => if negb (same_boundary nv (visibility snaps (vseq v))) then false else nbar
  | None => nbar
  end.

(* [nbar] of ck_superseded / ck_flag is the accumulator AFTER the reset *)
Definition ck_flag (bottom versioning : bool) (retention now : N) (snaps : list N)
           (latest_del_bottom : bool) (i : nat) (newer : option vis) (barrier nbar : bool) (v : ver)
  : bool :=
  let is_latest := Nat.eqb i 0 in
  let cur := visibility snaps (vseq v) in
  let superseded := ck_superseded bottom versioning retention now snaps i newer nbar v in
  let required := negb superseded && match cur with Bounded _ => true | _ => false end in
  let hard := is_hard (vkind v) in
  let rep := is_rep (vkind v) in
  let stale :=
    if superseded then true
    else if latest_del_bottom then true
    else if required then false
    else if is_latest && negb hard && negb rep then false
    else if is_latest && hard && bottom then false
    else if is_latest && hard && negb bottom then false
    else if is_latest && rep then false
    else if hard then negb (versioning && negb bottom && negb nbar)
    else if barrier then true
    else if negb versioning then true
    else if 0 <? retention then (retention <? (now - vts v)) else false in
  if superseded then false
  else if latest_del_bottom then false
  else if stale then false
  else if versioning || required then true
  else is_latest.

Lemma ck_decide_cons : forall bottom versioning retention now snaps ldb i newer barrier nbar v r,
  ck_decide bottom versioning retention now snaps ldb i newer barrier nbar (v :: r) =
  (v, ck_flag bottom versioning retention now snaps ldb i newer barrier (ck_nb snaps newer nbar v) v) ::
  ck_decide bottom versioning retention now snaps ldb (S i)
            (Some (visibility snaps (vseq v))) (barrier || is_rep (vkind v))
            (ck_nb snaps newer nbar v || is_hard (vkind v) || is_rep (vkind v)) r.
Proof. reflexivity. Qed.

Lemma ck_decide_map_fst : forall bottom versioning retention now snaps ldb l i newer barrier nbar,
  map fst (ck_decide bottom versioning retention now snaps ldb i newer barrier nbar l) = l.
Proof.
  intros bottom versioning retention now snaps ldb l.
  induction l as [|v r IH]; intros i newer barrier nbar.
  - reflexivity.
  - rewrite ck_decide_cons. cbn [map fst]. rewrite IH. reflexivity.
Qed.

(* compact_key in terms of kept / fixup *)
Definition ldb_cond (bottom : bool) (snaps : list N) (vs : list ver) : bool :=
  match vs with
  | v :: _ => bottom && is_hard (vkind v) &&
              match snaps with [] => true | oldest :: _ => vseq v <=? oldest end
  | [] => false
  end.

Definition flagged (bottom versioning : bool) (retention now : N) (snaps : list N)
           (vs : list ver) : list (ver * bool) :=
  let ds := ck_decide bottom versioning retention now snaps (ldb_cond bottom snaps vs)
                      0 None false false vs in
  if versioning then fixup ds else ds.

Lemma compact_key_eq : forall bottom versioning retention now snaps vs,
  compact_key bottom versioning retention now snaps vs =
  kept (flagged bottom versioning retention now snaps vs).
Proof.
  intros. unfold compact_key, flagged, kept, ldb_cond. rewrite ck_fixup_eq. reflexivity.
Qed.

Lemma flagged_map_fst : forall bottom versioning retention now snaps vs,
  map fst (flagged bottom versioning retention now snaps vs) = vs.
Proof.
  intros. unfold flagged. destruct versioning.
  - rewrite fixup_map_fst. apply ck_decide_map_fst.
  - apply ck_decide_map_fst.
Qed.

(* ------------------------------------------------------------------------------------------ *)
(* 1. sublist                                                                                 *)

Lemma compact_key_sublist : compact_key_sublist_stmt.
Proof.
  unfold compact_key_sublist_stmt. intros.
  rewrite compact_key_eq.
  rewrite <- (flagged_map_fst bottom versioning retention now snaps vs) at 2.
  apply kept_sublist.
Qed.

(* ------------------------------------------------------------------------------------------ *)
(* Generic facts on the decision                                                              *)

(* under latest_del_bottom nothing is written *)
Lemma ck_flag_ldb : forall bottom versioning retention now snaps i newer barrier nbar v,
  ck_flag bottom versioning retention now snaps true i newer barrier nbar v = false.
Proof.
  intros. unfold ck_flag.
  destruct (ck_superseded bottom versioning retention now snaps i newer nbar v); reflexivity.
Qed.

Lemma ck_decide_ldb : forall bottom versioning retention now snaps l i newer barrier nbar,
  existsb snd (ck_decide bottom versioning retention now snaps true i newer barrier nbar l) = false.
Proof.
  intros bottom versioning retention now snaps l.
  induction l as [|v r IH]; intros i newer barrier nbar.
  - reflexivity.
  - rewrite ck_decide_cons. cbn [existsb snd]. rewrite ck_flag_ldb, IH. reflexivity.
Qed.

Lemma compact_key_ldb : forall bottom versioning retention now snaps vs,
  ldb_cond bottom snaps vs = true ->
  compact_key bottom versioning retention now snaps vs = [].
Proof.
  intros bottom versioning retention now snaps vs H.
  rewrite compact_key_eq. unfold flagged. rewrite H. apply kept_none.
  destruct versioning.
  - rewrite fixup_existsb. apply ck_decide_ldb.
  - apply ck_decide_ldb.
Qed.

(* the newest version (index 0, nothing newer) is always written, except under latest_del_bottom *)
Lemma ck_flag_head : forall bottom versioning retention now snaps barrier nbar v,
  ck_flag bottom versioning retention now snaps false 0 None barrier nbar v = true.
Proof.
  intros. unfold ck_flag, ck_superseded. cbn [Nat.eqb negb andb].
  destruct (visibility snaps (vseq v)); cbn [andb orb negb];
    destruct (is_hard (vkind v)) eqn:Hh; destruct (is_rep (vkind v)) eqn:Hr;
    destruct bottom; destruct versioning; cbn [andb orb negb]; try reflexivity.
Qed.

(* a version that is not superseded and is bounded by a snapshot is written *)
Lemma ck_flag_required : forall bottom versioning retention now snaps i newer barrier nbar v s',
  ck_superseded bottom versioning retention now snaps i newer nbar v = false ->
  visibility snaps (vseq v) = Bounded s' ->
  ck_flag bottom versioning retention now snaps false i newer barrier nbar v = true.
Proof.
  intros bottom versioning retention now snaps i newer barrier nbar v s' Hsup Hvis.
  unfold ck_flag. rewrite Hsup, Hvis. cbn [negb andb].
  rewrite orb_true_r. reflexivity.
Qed.

(* ------------------------------------------------------------------------------------------ *)
(* 2. plain                                                                                   *)

Lemma ck_decide_plain_tail : forall bottom retention now ldb l i barrier nbar,
  existsb snd (ck_decide bottom false retention now [] ldb (S i) (Some NoSnap) barrier nbar l) = false.
Proof.
  intros bottom retention now ldb l.
  induction l as [|v r IH]; intros i barrier nbar.
  - reflexivity.
  - rewrite ck_decide_cons. cbn [visibility existsb snd]. rewrite IH.
    unfold ck_flag, ck_superseded. cbn [visibility Nat.eqb negb andb orb same_boundary].
    reflexivity.
Qed.

Lemma compact_key_plain : compact_key_plain_stmt.
Proof.
  unfold compact_key_plain_stmt. intros bottom retention now v vs _.
  destruct (bottom && is_hard (vkind v)) eqn:Hldb.
  - apply compact_key_ldb. cbn [ldb_cond]. rewrite Hldb. reflexivity.
  - rewrite compact_key_eq. unfold flagged. cbn [ldb_cond]. rewrite Hldb. cbn [andb].
    rewrite ck_decide_cons, ck_flag_head, kept_cons_true. cbn [visibility].
    rewrite kept_none; [reflexivity | apply ck_decide_plain_tail].
Qed.

(* ------------------------------------------------------------------------------------------ *)
(* Snapshot lemmas                                                                            *)

(* earliest returns a snapshot at or above q *)
Lemma earliest_ge : forall snaps q s', earliest snaps q = Some s' -> q <= s'.
Proof.
  induction snaps as [|s0 r IH]; intros q s' H; cbn [earliest] in H.
  - discriminate.
  - destruct (N.leb_spec q s0) as [Hle|Hgt].
    + injection H as <-. exact Hle.
    + apply IH. exact H.
Qed.

(* for ascending snaps, earliest returns the least snapshot at or above q *)
Lemma earliest_le : forall snaps q s, asc snaps -> In s snaps -> q <= s ->
  exists s', earliest snaps q = Some s' /\ s' <= s.
Proof.
  induction snaps as [|s0 r IH]; intros q s Hasc Hin Hq.
  - destruct Hin.
  - cbn [earliest]. inversion Hasc as [|? ? Hr Hall]; subst.
    destruct (N.leb_spec q s0) as [Hle|Hgt].
    + exists s0. split; [reflexivity|].
      destruct Hin as [->|Hin]; [lia|].
      rewrite Forall_forall in Hall. specialize (Hall _ Hin). lia.
    + destruct Hin as [->|Hin]; [lia|].
      apply IH; assumption.
Qed.

Lemma visibility_le : forall snaps q s, asc snaps -> In s snaps -> q <= s ->
  exists s', visibility snaps q = Bounded s' /\ s' <= s.
Proof.
  intros snaps q s Hasc Hin Hq.
  destruct (earliest_le snaps q s Hasc Hin Hq) as [s' [He Hs']].
  exists s'. split; [|exact Hs'].
  unfold visibility. destruct snaps as [|s0 r]; [destruct Hin|].
  rewrite He. reflexivity.
Qed.

(* a version above s never shares the boundary of a version bounded at or below s *)
Lemma visibility_gt : forall snaps q s s', In s snaps -> s < q -> s' <= s ->
  same_boundary (visibility snaps q) (Bounded s') = false.
Proof.
  intros snaps q s s' Hin Hq Hs'.
  unfold visibility. destruct snaps as [|s0 r]; [destruct Hin|].
  destruct (earliest (s0 :: r) q) as [s''|] eqn:He; cbn [same_boundary]; [|reflexivity].
  apply earliest_ge in He.
  destruct (N.eqb_spec s'' s'); [lia | reflexivity].
Qed.

Lemma asc_head_le : forall s0 r s, asc (s0 :: r) -> In s (s0 :: r) -> s0 <= s.
Proof.
  intros s0 r s Hasc Hin. inversion Hasc as [|? ? Hr Hall]; subst.
  destruct Hin as [->|Hin]; [lia|].
  rewrite Forall_forall in Hall. specialize (Hall _ Hin). lia.
Qed.

(* under latest_del_bottom every relevant reader sees the head hard delete *)
Lemma ldb_cond_visible : forall bottom snaps v r s,
  asc snaps -> (In s snaps \/ top (v :: r) <= s) ->
  ldb_cond bottom snaps (v :: r) = true ->
  bottom = true /\ is_hard (vkind v) = true /\ vseq v <= s.
Proof.
  intros bottom snaps v r s Hasc Hrel Hldb. cbn [ldb_cond] in Hldb.
  apply andb_prop in Hldb. destruct Hldb as [Hbh Hold].
  apply andb_prop in Hbh. destruct Hbh as [Hb Hh].
  split; [exact Hb|]. split; [exact Hh|].
  destruct Hrel as [Hin|Htop]; [|exact Htop].
  destruct snaps as [|s0 sr]; [destruct Hin|].
  pose proof (asc_head_le s0 sr s Hasc Hin) as H0.
  destruct (N.leb_spec (vseq v) s0) as [Hle|Hgt]; [lia | discriminate].
Qed.

(* ------------------------------------------------------------------------------------------ *)
(* 3. view                                                                                    *)

Fixpoint first_flagged (p : ver -> bool) (L : list (ver * bool)) : Prop :=
  match L with
  | [] => True
  | d :: r => if p (fst d) then snd d = true else first_flagged p r
  end.

Lemma first_flagged_find : forall p L,
  first_flagged p L -> find p (kept L) = find p (map fst L).
Proof.
  induction L as [|[v b] r IH]; intros H.
  - reflexivity.
  - cbn [first_flagged fst snd] in H. cbn [map fst find].
    destruct (p v) eqn:Hp.
    + subst b. rewrite kept_cons_true. cbn [find]. rewrite Hp. reflexivity.
    + destruct b.
      * rewrite kept_cons_true. cbn [find]. rewrite Hp. apply IH. exact H.
      * rewrite kept_cons_false. apply IH. exact H.
Qed.

Lemma first_flagged_fixup : forall p L, first_flagged p L -> first_flagged p (fixup L).
Proof.
  induction L as [|[v b] r IH]; intros H.
  - exact I.
  - cbn [first_flagged fixup fst snd] in *.
    destruct (p v).
    + subst b. reflexivity.
    + apply IH. exact H.
Qed.

(* the invariant on [newer] while scanning down to horizon s: everything already passed lies
   strictly above s *)
Definition newer_above (snaps : list N) (s : N) (newer : option vis) : Prop :=
  newer = None \/ exists q, newer = Some (visibility snaps q) /\ s < q.

Lemma ck_decide_first_flagged_snap : forall bottom versioning retention now snaps s,
  asc snaps -> In s snaps ->
  forall l i newer barrier nbar, newer_above snaps s newer ->
  first_flagged (fun v => vseq v <=? s)
    (ck_decide bottom versioning retention now snaps false i newer barrier nbar l).
Proof.
  intros bottom versioning retention now snaps s Hasc Hin.
  induction l as [|v r IH]; intros i newer barrier nbar Hnew.
  - exact I.
  - rewrite ck_decide_cons. cbn [first_flagged fst snd].
    destruct (N.leb_spec (vseq v) s) as [Hle|Hgt].
    + destruct (visibility_le snaps (vseq v) s Hasc Hin Hle) as [s' [Hvis Hs']].
      apply (ck_flag_required bottom versioning retention now snaps i newer barrier
               (ck_nb snaps newer nbar v) v s'); [|exact Hvis].
      unfold ck_superseded. destruct Hnew as [->|[q [-> Hq]]]; [reflexivity|].
      rewrite Hvis. rewrite (visibility_gt snaps q s s' Hin Hq Hs').
      apply andb_false_r.
    + apply IH. right. exists (vseq v). split; [reflexivity | exact Hgt].
Qed.

Lemma flagged_first_flagged : forall bottom versioning retention now snaps vs s,
  asc snaps -> (In s snaps \/ top vs <= s) ->
  ldb_cond bottom snaps vs = false ->
  first_flagged (fun v => vseq v <=? s) (flagged bottom versioning retention now snaps vs).
Proof.
  intros bottom versioning retention now snaps vs s Hasc Hrel Hldb.
  assert (H : first_flagged (fun v => vseq v <=? s)
                (ck_decide bottom versioning retention now snaps false 0 None false false vs)).
  { destruct Hrel as [Hin|Htop].
    - apply ck_decide_first_flagged_snap; [exact Hasc | exact Hin | left; reflexivity].
    - destruct vs as [|v r]; [exact I|].
      rewrite ck_decide_cons, ck_flag_head. cbn [first_flagged fst snd top] in *.
      destruct (N.leb_spec (vseq v) s) as [_|Hgt]; [reflexivity | lia]. }
  unfold flagged. rewrite Hldb. destruct versioning.
  - apply first_flagged_fixup. exact H.
  - exact H.
Qed.

Lemma compact_key_view : compact_key_view_stmt.
Proof.
  unfold compact_key_view_stmt.
  intros bottom versioning retention now snaps vs s _ Hasc _ Hrel. cbv zeta.
  destruct (ldb_cond bottom snaps vs) eqn:Hldb.
  - (* latest_del_bottom: everything is dropped; every relevant reader saw the hard delete *)
    rewrite (compact_key_ldb _ _ _ _ _ _ Hldb).
    destruct vs as [|v r]; [discriminate|].
    destruct (ldb_cond_visible bottom snaps v r s Hasc Hrel Hldb) as [Hb [Hh Hvs]].
    split; [|intros Hb'; rewrite Hb' in Hb; discriminate].
    unfold obs_get, visible_at. cbn [find].
    destruct (N.leb_spec (vseq v) s) as [_|Hgt]; [|lia].
    destruct (vkind v); cbn [is_hard] in Hh; try discriminate. reflexivity.
  - assert (Hsame : visible_at (compact_key bottom versioning retention now snaps vs) s =
                    visible_at vs s).
    { unfold visible_at. rewrite compact_key_eq.
      rewrite first_flagged_find
        by (apply flagged_first_flagged; [exact Hasc | exact Hrel | exact Hldb]).
      rewrite flagged_map_fst. reflexivity. }
    unfold obs_get, obs_mask. rewrite Hsame. split; [reflexivity | intros _; reflexivity].
Qed.

(* ------------------------------------------------------------------------------------------ *)
(* 4/5. history                                                                               *)

(* hist_of on flagged lists *)
Fixpoint hist_ofF (L : list (ver * bool)) : list (ver * bool) :=
  match L with
  | [] => []
  | d :: r => if is_hard (vkind (fst d)) then []
              else if is_rep (vkind (fst d)) then [d] else d :: hist_ofF r
  end.

Lemma hist_ofF_map : forall L, hist_of (map fst L) = map fst (hist_ofF L).
Proof.
  induction L as [|d r IH]; [reflexivity|].
  cbn [map hist_of hist_ofF].
  destruct (is_hard (vkind (fst d))); [reflexivity|].
  destruct (is_rep (vkind (fst d))); [reflexivity|].
  cbn [map]. rewrite IH. reflexivity.
Qed.

Lemma hist_ofF_in : forall d L, In d (hist_ofF L) -> In d L.
Proof.
  induction L as [|x r IH]; intros H; [destruct H|].
  cbn [hist_ofF] in H.
  destruct (is_hard (vkind (fst x))); [destruct H|].
  destruct (is_rep (vkind (fst x))).
  - destruct H as [H|[]]. left. exact H.
  - destruct H as [H|H]; [left; exact H | right; apply IH; exact H].
Qed.

(* the first barrier of L is kept, or nothing older is kept *)
Fixpoint bar_ok (L : list (ver * bool)) : Prop :=
  match L with
  | [] => True
  | d :: r => if isbar (fst d) then (snd d = true \/ existsb snd r = false) else bar_ok r
  end.

Lemma bar_ok_filter_fixup : forall (q : ver * bool -> bool) ds, bar_ok (filter q (fixup ds)).
Proof.
  induction ds as [|d r IH].
  - exact I.
  - cbn [fixup filter].
    destruct (q (fst d, snd d || (existsb snd r && isbar (fst d)))); [|exact IH].
    cbn [bar_ok fst snd]. destruct (isbar (fst d)) eqn:Hb; [|exact IH].
    destruct (snd d); [left; reflexivity|].
    destruct (existsb snd r) eqn:He; [left; reflexivity|].
    right. apply existsb_filter_false. rewrite fixup_existsb. exact He.
Qed.

(* nothing erased comes back *)
Lemma hist_kept_incl : forall L, bar_ok L ->
  forall v, In v (hist_of (kept L)) -> In v (hist_of (map fst L)).
Proof.
  induction L as [|[x b] r IH]; intros Hok v Hv.
  - exact Hv.
  - cbn [bar_ok fst snd] in Hok. unfold isbar in Hok. cbn [map fst hist_of].
    destruct (is_hard (vkind x)) eqn:Hh.
    + cbn [orb] in Hok. destruct b.
      * rewrite kept_cons_true in Hv. cbn [hist_of] in Hv. rewrite Hh in Hv. exact Hv.
      * destruct Hok as [Hok|Hok]; [discriminate|].
        rewrite kept_cons_false, (kept_none _ Hok) in Hv. destruct Hv.
    + cbn [orb] in Hok. destruct (is_rep (vkind x)) eqn:Hr.
      * destruct b.
        -- rewrite kept_cons_true in Hv. cbn [hist_of] in Hv. rewrite Hh, Hr in Hv. exact Hv.
        -- destruct Hok as [Hok|Hok]; [discriminate|].
           rewrite kept_cons_false, (kept_none _ Hok) in Hv. destruct Hv.
      * destruct b.
        -- rewrite kept_cons_true in Hv. cbn [hist_of] in Hv. rewrite Hh, Hr in Hv.
           destruct Hv as [Hv|Hv]; [left; exact Hv | right; apply IH; assumption].
        -- rewrite kept_cons_false in Hv. right. apply IH; assumption.
Qed.

(* a kept version of the history stays in the history *)
Lemma hist_kept_in : forall v L, In (v, true) (hist_ofF L) -> In v (hist_of (kept L)).
Proof.
  induction L as [|[x b] r IH]; intros H.
  - destruct H.
  - cbn [hist_ofF fst] in H.
    destruct (is_hard (vkind x)) eqn:Hh; [destruct H|].
    destruct (is_rep (vkind x)) eqn:Hr.
    + destruct H as [H|[]]. injection H as -> ->.
      rewrite kept_cons_true. cbn [hist_of]. rewrite Hh, Hr. left. reflexivity.
    + destruct H as [H|H].
      * injection H as -> ->.
        rewrite kept_cons_true. cbn [hist_of]. rewrite Hh, Hr. left. reflexivity.
      * destruct b.
        -- rewrite kept_cons_true. cbn [hist_of]. rewrite Hh, Hr. right. apply IH. exact H.
        -- rewrite kept_cons_false. apply IH. exact H.
Qed.

(* if in addition the whole history is kept, the history is unchanged *)
Lemma hist_kept_eq : forall L, bar_ok L ->
  (forall d, In d (hist_ofF L) -> snd d = true) ->
  hist_of (kept L) = hist_of (map fst L).
Proof.
  induction L as [|[x b] r IH]; intros Hok Hall.
  - reflexivity.
  - cbn [bar_ok fst snd] in Hok. unfold isbar in Hok.
    cbn [hist_ofF fst] in Hall. cbn [map fst hist_of].
    destruct (is_hard (vkind x)) eqn:Hh.
    + cbn [orb] in Hok. destruct b.
      * rewrite kept_cons_true. cbn [hist_of]. rewrite Hh. reflexivity.
      * destruct Hok as [Hok|Hok]; [discriminate|].
        rewrite kept_cons_false, (kept_none _ Hok). reflexivity.
    + destruct (is_rep (vkind x)) eqn:Hr.
      * assert (Hb : b = true) by (apply (Hall (x, b)); left; reflexivity). subst b.
        rewrite kept_cons_true. cbn [hist_of]. rewrite Hh, Hr. reflexivity.
      * assert (Hb : b = true) by (apply (Hall (x, b)); left; reflexivity). subst b.
        rewrite kept_cons_true. cbn [hist_of]. rewrite Hh, Hr. f_equal.
        cbn [orb] in Hok. apply IH; [exact Hok|].
        intros d Hd. apply Hall. right. exact Hd.
Qed.

(* with versioning, a version dropped by the decision is outside the retention window, or it is
   unbounded, not the latest, and a hard delete or below a replace *)
Lemma ck_flag_false : forall bottom retention now snaps i newer barrier nbar v,
  ck_flag bottom true retention now snaps false i newer barrier nbar v = false ->
  outside retention now v = true \/
  ((forall s', visibility snaps (vseq v) <> Bounded s') /\
   (is_hard (vkind v) = true \/ barrier = true)).
Proof.
  intros bottom retention now snaps i newer barrier nbar v H.
  unfold ck_flag, ck_superseded, outside in *.
  destruct ((0 <? retention) && (retention <? now - vts v)) eqn:Ho; [left; reflexivity|].
  right.
  assert (Hsup : match newer with
                 | Some nv => (negb true || false) &&
                              negb (true && negb bottom && is_hard (vkind v) && negb nbar) &&
                              negb (Nat.eqb i 0) &&
                              same_boundary nv (visibility snaps (vseq v))
                 | None => false
                 end = false) by (destruct newer; reflexivity).
  rewrite Hsup in H. cbn [negb andb orb] in H.
  destruct (visibility snaps (vseq v)) eqn:Hvis; [discriminate| |].
  - split; [intros s'; discriminate|].
    destruct (Nat.eqb i 0); destruct (is_hard (vkind v)); destruct (is_rep (vkind v));
      destruct bottom; destruct barrier; destruct nbar; cbn [negb andb orb] in H;
      try discriminate; try (left; reflexivity); try (right; reflexivity).
    all: destruct (0 <? retention); cbn [andb] in Ho; try discriminate;
      rewrite Ho in H; discriminate.
  - split; [intros s'; discriminate|].
    destruct (Nat.eqb i 0); destruct (is_hard (vkind v)); destruct (is_rep (vkind v));
      destruct bottom; destruct barrier; destruct nbar; cbn [negb andb orb] in H;
      try discriminate; try (left; reflexivity); try (right; reflexivity).
    all: destruct (0 <? retention); cbn [andb] in Ho; try discriminate;
      rewrite Ho in H; discriminate.
Qed.

(* K1: a bounded version is dropped only outside the retention window *)
Lemma ck_decide_false_bounded : forall bottom retention now snaps v s',
  visibility snaps (vseq v) = Bounded s' ->
  forall l i newer barrier nbar,
  In (v, false) (ck_decide bottom true retention now snaps false i newer barrier nbar l) ->
  outside retention now v = true.
Proof.
  intros bottom retention now snaps v s' Hvis.
  induction l as [|x r IH]; intros i newer barrier nbar H.
  - destruct H.
  - rewrite ck_decide_cons in H. destruct H as [H|H].
    + injection H as -> Hf. apply ck_flag_false in Hf.
      destruct Hf as [Hf|[Hf _]]; [exact Hf|]. exfalso. exact (Hf s' Hvis).
    + exact (IH _ _ _ _ H).
Qed.

(* K2: read from the top, a version of the history is dropped only outside the window *)
Lemma ck_decide_false_hist : forall bottom retention now snaps v,
  forall l i newer nbar,
  In (v, false) (hist_ofF (fixup (ck_decide bottom true retention now snaps false i newer false nbar l))) ->
  outside retention now v = true.
Proof.
  intros bottom retention now snaps v.
  induction l as [|x r IH]; intros i newer nbar H.
  - destruct H.
  - rewrite ck_decide_cons in H. cbn [fixup hist_ofF fst snd] in H.
    destruct (is_hard (vkind x)) eqn:Hh; [destruct H|].
    assert (Hhead : forall b',
      (x, ck_flag bottom true retention now snaps false i newer false (ck_nb snaps newer nbar x) x || b')
        = (v, false) ->
      outside retention now v = true).
    { intros b' He. injection He as -> Hf. apply orb_false_elim in Hf. destruct Hf as [Hf _].
      apply ck_flag_false in Hf. destruct Hf as [Hf|[_ [Hf|Hf]]];
        [exact Hf | rewrite Hh in Hf; discriminate | discriminate]. }
    destruct (is_rep (vkind x)) eqn:Hr.
    + destruct H as [H|[]]. exact (Hhead _ H).
    + destruct H as [H|H]; [exact (Hhead _ H)|].
      cbn [orb] in H. exact (IH _ _ _ H).
Qed.

Lemma desc_le_top : forall vs v, desc vs -> In v vs -> vseq v <= top vs.
Proof.
  intros vs v Hd Hin. destruct vs as [|x r]; [destruct Hin|].
  cbn [top]. inversion Hd as [|? ? Hr Hall]; subst.
  destruct Hin as [->|Hin]; [lia|].
  rewrite Forall_forall in Hall. specialize (Hall _ Hin). lia.
Qed.

(* history_at before / after in terms of the flagged list *)
Lemma history_at_flagged : forall bottom versioning retention now snaps vs s,
  let L := filter (fun d : ver * bool => vseq (fst d) <=? s)
                  (flagged bottom versioning retention now snaps vs) in
  history_at (compact_key bottom versioning retention now snaps vs) s = hist_of (kept L) /\
  history_at vs s = hist_of (map fst L).
Proof.
  intros. subst L. unfold history_at. split.
  - rewrite compact_key_eq, (filter_kept (fun v => vseq v <=? s)). reflexivity.
  - rewrite <- (filter_map_fst (fun v => vseq v <=? s)), flagged_map_fst. reflexivity.
Qed.

(* every dropped version of a relevant reader's history is outside the retention window *)
Lemma flagged_hist_false : forall bottom retention now snaps vs s v,
  desc vs -> asc snaps -> (In s snaps \/ top vs <= s) ->
  ldb_cond bottom snaps vs = false ->
  In (v, false) (hist_ofF (filter (fun d : ver * bool => vseq (fst d) <=? s)
                                  (flagged bottom true retention now snaps vs))) ->
  outside retention now v = true.
Proof.
  intros bottom retention now snaps vs s v Hdesc Hasc Hrel Hldb H.
  unfold flagged in H. rewrite Hldb in H.
  destruct Hrel as [Hin|Htop].
  - apply hist_ofF_in in H. apply filter_In in H. destruct H as [H Hs]. cbn [fst] in Hs.
    apply fixup_in_false in H.
    destruct (N.leb_spec (vseq v) s) as [Hle|]; [|discriminate].
    destruct (visibility_le snaps (vseq v) s Hasc Hin Hle) as [s' [Hvis _]].
    exact (ck_decide_false_bounded _ _ _ _ _ _ Hvis _ _ _ _ _ H).
  - rewrite filter_all in H.
    + exact (ck_decide_false_hist _ _ _ _ _ _ _ _ _ H).
    + intros d Hd.
      assert (Hv : In (fst d) vs).
      { rewrite <- (ck_decide_map_fst bottom true retention now snaps false vs 0 None false false).
        rewrite <- fixup_map_fst. apply in_map. exact Hd. }
      pose proof (desc_le_top vs (fst d) Hdesc Hv) as Hle.
      destruct (N.leb_spec (vseq (fst d)) s); [reflexivity | lia].
Qed.

Lemma hist_ofF_flag : forall v L, In v (map fst (hist_ofF L)) -> exists b, In (v, b) (hist_ofF L).
Proof.
  intros v L H. apply in_map_iff in H. destruct H as [[x b] [Hx Hd]]. cbn [fst] in Hx. subst x.
  exists b. exact Hd.
Qed.

Lemma compact_key_history_retention : compact_key_history_retention_stmt.
Proof.
  unfold compact_key_history_retention_stmt.
  intros bottom retention now snaps vs s Hdesc Hasc _ Hrel. cbv zeta.
  destruct (history_at_flagged bottom true retention now snaps vs s) as [Hout Hin].
  cbv zeta in Hout, Hin. rewrite Hout, Hin.
  split.
  - apply hist_kept_incl. unfold flagged. apply bar_ok_filter_fixup.
  - intros v Hv Hnot.
    destruct (ldb_cond bottom snaps vs) eqn:Hldb.
    + (* the head hard delete is visible: the history is empty *)
      exfalso. rewrite <- Hin in Hv.
      destruct vs as [|x r]; [discriminate|].
      destruct (ldb_cond_visible bottom snaps x r s Hasc Hrel Hldb) as [_ [Hh Hvs]].
      unfold history_at in Hv. cbn [filter] in Hv.
      destruct (N.leb_spec (vseq x) s) as [_|Hgt]; [|lia].
      cbn [hist_of] in Hv. rewrite Hh in Hv. destruct Hv.
    + rewrite hist_ofF_map in Hv. apply hist_ofF_flag in Hv. destruct Hv as [b Hv].
      destruct b.
      * exfalso. apply Hnot. apply hist_kept_in. exact Hv.
      * pose proof (flagged_hist_false bottom retention now snaps vs s v
                      Hdesc Hasc Hrel Hldb Hv) as Ho.
        unfold outside in Ho. apply andb_prop in Ho. destruct Ho as [Ho1 Ho2].
        destruct (N.ltb_spec 0 retention); [|discriminate].
        destruct (N.ltb_spec retention (now - vts v)); [|discriminate].
        split; assumption.
Qed.

Lemma compact_key_history : compact_key_history_stmt.
Proof.
  unfold compact_key_history_stmt.
  intros bottom now snaps vs s Hdesc Hasc _ Hrel.
  destruct (ldb_cond bottom snaps vs) eqn:Hldb.
  - rewrite (compact_key_ldb _ _ _ _ _ _ Hldb).
    destruct vs as [|x r]; [discriminate|].
    destruct (ldb_cond_visible bottom snaps x r s Hasc Hrel Hldb) as [_ [Hh Hvs]].
    unfold history_at. cbn [filter].
    destruct (N.leb_spec (vseq x) s) as [_|Hgt]; [|lia].
    cbn [hist_of]. rewrite Hh. reflexivity.
  - destruct (history_at_flagged bottom true 0 now snaps vs s) as [Hout Hin].
    cbv zeta in Hout, Hin. rewrite Hout, Hin.
    apply hist_kept_eq.
    + unfold flagged. apply bar_ok_filter_fixup.
    + intros [v b] Hd. destruct b; [reflexivity|]. exfalso.
      pose proof (flagged_hist_false bottom 0 now snaps vs s v Hdesc Hasc Hrel Hldb Hd) as Ho.
      unfold outside in Ho. apply andb_prop in Ho. destruct Ho as [Ho1 _].
      destruct (N.ltb_spec 0 0); [lia | discriminate].
Qed.

(* ------------------------------------------------------------------------------------------ *)
(* 6. barriers and the levels below the compaction                                            *)

Lemma hist_of_app : forall A D,
  hist_of (A ++ D) = if existsb is_barrier A then hist_of A else hist_of A ++ hist_of D.
Proof.
  induction A as [|x r IH]; intros D.
  - reflexivity.
  - cbn [app hist_of existsb]. unfold is_barrier at 1.
    destruct (is_hard (vkind x)); [reflexivity|].
    destruct (is_rep (vkind x)); [reflexivity|].
    cbn [orb]. rewrite IH. destruct (existsb is_barrier r); reflexivity.
Qed.

Lemma existsb_filter : forall (A : Type) (q p : A -> bool) l,
  existsb (fun v => q v && p v) l = existsb p (filter q l).
Proof.
  induction l as [|x r IH]; [reflexivity|].
  cbn [existsb filter]. destruct (q x); cbn [andb existsb orb]; rewrite IH; reflexivity.
Qed.

Lemma find_filter : forall (A : Type) (q p : A -> bool) l,
  find (fun v => q v && p v) l = find p (filter q l).
Proof.
  induction l as [|x r IH]; [reflexivity|].
  cbn [find filter]. destruct (q x); cbn [andb find]; rewrite IH; reflexivity.
Qed.

Lemma erases_deeper_history : erases_deeper_history_stmt.
Proof.
  unfold erases_deeper_history_stmt, history_deeper, history_at, erases_deeper. intros vs deep s.
  rewrite filter_app, hist_of_app, existsb_filter. reflexivity.
Qed.

(* the first barrier of a flagged list *)
Definition first_bar (L : list (ver * bool)) : option (ver * bool) :=
  find (fun d => isbar (fst d)) L.

Lemma first_bar_cons : forall x b r,
  first_bar ((x, b) :: r) = if isbar x then Some (x, b) else first_bar r.
Proof. reflexivity. Qed.

(* when the first barrier is kept, nothing erased comes back — whatever lies below *)
Lemma hist_kept_app_incl : forall L D,
  (forall d, first_bar L = Some d -> snd d = true) ->
  forall v, In v (hist_of (kept L ++ D)) -> In v (hist_of (map fst L ++ D)).
Proof.
  induction L as [|[x b] r IH]; intros D Hbar v Hv.
  - exact Hv.
  - rewrite first_bar_cons in Hbar. unfold isbar in Hbar.
    cbn [map fst app hist_of].
    destruct (is_hard (vkind x)) eqn:Hh.
    + cbn [orb] in Hbar. specialize (Hbar _ eq_refl). cbn [snd] in Hbar. subst b.
      rewrite kept_cons_true in Hv. cbn [app hist_of] in Hv. rewrite Hh in Hv. exact Hv.
    + destruct (is_rep (vkind x)) eqn:Hr; cbn [orb] in Hbar.
      * specialize (Hbar _ eq_refl). cbn [snd] in Hbar. subst b.
        rewrite kept_cons_true in Hv. cbn [app hist_of] in Hv. rewrite Hh, Hr in Hv. exact Hv.
      * destruct b.
        -- rewrite kept_cons_true in Hv. cbn [app hist_of] in Hv. rewrite Hh, Hr in Hv.
           destruct Hv as [Hv|Hv]; [left; exact Hv | right; apply (IH D Hbar); exact Hv].
        -- rewrite kept_cons_false in Hv. right. apply (IH D Hbar). exact Hv.
Qed.

(* if in addition the whole history above it is kept, the history over both is unchanged *)
Lemma hist_kept_app_eq : forall L D,
  (forall d, first_bar L = Some d -> snd d = true) ->
  (forall d, In d (hist_ofF L) -> snd d = true) ->
  hist_of (kept L ++ D) = hist_of (map fst L ++ D).
Proof.
  induction L as [|[x b] r IH]; intros D Hbar Hall.
  - reflexivity.
  - rewrite first_bar_cons in Hbar. unfold isbar in Hbar.
    cbn [hist_ofF fst] in Hall. cbn [map fst app hist_of].
    destruct (is_hard (vkind x)) eqn:Hh.
    + cbn [orb] in Hbar. specialize (Hbar _ eq_refl). cbn [snd] in Hbar. subst b.
      rewrite kept_cons_true. cbn [app hist_of]. rewrite Hh. reflexivity.
    + destruct (is_rep (vkind x)) eqn:Hr; cbn [orb] in Hbar.
      * specialize (Hbar _ eq_refl). cbn [snd] in Hbar. subst b.
        rewrite kept_cons_true. cbn [app hist_of]. rewrite Hh, Hr. reflexivity.
      * assert (Hb : b = true) by (apply (Hall (x, b)); left; reflexivity). subst b.
        rewrite kept_cons_true. cbn [app hist_of]. rewrite Hh, Hr. f_equal.
        apply IH; [exact Hbar|]. intros d Hd. apply Hall. right. exact Hd.
Qed.

(* ... and the reader still has a barrier iff it had one *)
Lemma existsb_bar_kept : forall L,
  (forall d, first_bar L = Some d -> snd d = true) ->
  existsb isbar (kept L) = existsb isbar (map fst L).
Proof.
  induction L as [|[x b] r IH]; intros Hbar.
  - reflexivity.
  - rewrite first_bar_cons in Hbar. cbn [map fst existsb].
    destruct (isbar x) eqn:Hx.
    + specialize (Hbar _ eq_refl). cbn [snd] in Hbar. subst b.
      rewrite kept_cons_true. cbn [existsb]. rewrite Hx. reflexivity.
    + destruct b.
      * rewrite kept_cons_true. cbn [existsb]. rewrite Hx. cbn [orb]. apply IH. exact Hbar.
      * rewrite kept_cons_false. cbn [orb]. apply IH. exact Hbar.
Qed.

(* a first barrier that is a replace belongs to the history *)
Lemma first_bar_rep_hist : forall L d,
  first_bar L = Some d -> is_hard (vkind (fst d)) = false -> In d (hist_ofF L).
Proof.
  induction L as [|[x b] r IH]; intros d H Hh.
  - discriminate.
  - rewrite first_bar_cons in H. cbn [hist_ofF fst]. unfold isbar in H.
    destruct (is_hard (vkind x)) eqn:Hx.
    + cbn [orb] in H. injection H as <-. cbn [fst] in Hh. rewrite Hx in Hh. discriminate.
    + destruct (is_rep (vkind x)); cbn [orb] in H.
      * injection H as <-. left. reflexivity.
      * right. apply IH; assumption.
Qed.

Lemma find_map_fst : forall (p : ver -> bool) (L : list (ver * bool)) d,
  find (fun d => p (fst d)) L = Some d -> find p (map fst L) = Some (fst d).
Proof.
  induction L as [|x r IH]; intros d H.
  - discriminate.
  - cbn [find map] in *. destruct (p (fst x)).
    + injection H as <-. reflexivity.
    + apply IH. exact H.
Qed.

Lemma ldb_cond_above : forall snaps vs, ldb_cond false snaps vs = false.
Proof. intros snaps vs. destruct vs; reflexivity. Qed.

Lemma outside_0 : forall now v, outside 0 now v = false.
Proof. reflexivity. Qed.

(* above the bottom level, with versioning, a hard delete with no newer barrier above it is always
   written, for ANY retention: it is neither superseded nor stale (the two repaired branches) *)
Lemma ck_flag_hard_first : forall retention now snaps i newer barrier v,
  is_hard (vkind v) = true ->
  ck_flag false true retention now snaps false i newer barrier false v = true.
Proof.
  intros retention now snaps i newer barrier v Hh.
  unfold ck_flag, ck_superseded. rewrite Hh.
  destruct newer as [nv|]; destruct ((0 <? retention) && (retention <? now - vts v));
    cbn [negb andb orb];
    destruct (visibility snaps (vseq v)); destruct (Nat.eqb i 0); destruct (is_rep (vkind v));
    cbn [negb andb orb]; reflexivity.
Qed.

Lemma ck_nb_false : forall snaps newer v, ck_nb snaps newer false v = false.
Proof.
  intros snaps newer v. unfold ck_nb. destruct newer as [nv|]; [|reflexivity].
  destruct (negb (same_boundary nv (visibility snaps (vseq v)))); reflexivity.
Qed.

(* hence: when the newest barrier of the whole list is a hard delete and it is the newest barrier
   the reader at s sees, it is kept *)
Lemma ck_decide_first_bar_hard : forall retention now snaps s v,
  is_hard (vkind v) = true ->
  forall l i newer barrier b,
  find isbar l = Some v ->
  first_bar (filter (fun d : ver * bool => vseq (fst d) <=? s)
              (fixup (ck_decide false true retention now snaps false i newer barrier false l)))
    = Some (v, b) ->
  b = true.
Proof.
  intros retention now snaps s v Hh.
  induction l as [|x r IH]; intros i newer barrier b Hf H.
  - discriminate.
  - rewrite ck_decide_cons, ck_nb_false in H. cbn [fixup fst snd] in H. cbn [find] in Hf.
    destruct (isbar x) eqn:Hx.
    + injection Hf as ->. cbn [filter fst] in H.
      destruct (N.leb_spec (vseq v) s) as [Hle|Hgt].
      * rewrite first_bar_cons, Hx in H. injection H as <-.
        rewrite (ck_flag_hard_first _ _ _ _ _ _ _ Hh). reflexivity.
      * exfalso. unfold first_bar in H. apply find_some in H. destruct H as [Hin _].
        apply filter_In in Hin. destruct Hin as [_ Hs]. cbn [fst] in Hs.
        destruct (N.leb_spec (vseq v) s); [lia | discriminate].
    + assert (Hn : is_hard (vkind x) = false /\ is_rep (vkind x) = false).
      { unfold isbar in Hx. apply orb_false_elim in Hx. exact Hx. }
      destruct Hn as [Hx1 Hx2]. rewrite Hx1, Hx2 in H. cbn [orb] in H.
      cbn [filter fst] in H. destruct (vseq x <=? s).
      * rewrite first_bar_cons, Hx in H. exact (IH _ _ _ _ Hf H).
      * exact (IH _ _ _ _ Hf H).
Qed.

Lemma flagged_first_bar_hard : forall retention now snaps vs s v b,
  is_hard (vkind v) = true -> find isbar vs = Some v ->
  first_bar (filter (fun d : ver * bool => vseq (fst d) <=? s)
                    (flagged false true retention now snaps vs)) = Some (v, b) ->
  b = true.
Proof.
  intros retention now snaps vs s v b Hh Hf H.
  unfold flagged in H. rewrite ldb_cond_above in H.
  exact (ck_decide_first_bar_hard _ _ _ _ _ Hh _ _ _ _ _ Hf H).
Qed.

(* a snapshot reader: whatever was passed above the snapshot lies in another visibility boundary,
   so the accumulator is reset before the first barrier the reader sees *)
Lemma ck_nb_snap : forall snaps s newer nbar x s',
  In s snaps ->
  (nbar = true -> exists q, newer = Some (visibility snaps q) /\ s < q) ->
  visibility snaps (vseq x) = Bounded s' -> s' <= s ->
  ck_nb snaps newer nbar x = false.
Proof.
  intros snaps s newer nbar x s' Hin J Hvis Hs'.
  destruct nbar; [|apply ck_nb_false].
  destruct (J eq_refl) as [q [-> Hq]].
  unfold ck_nb. rewrite Hvis, (visibility_gt snaps q s s' Hin Hq Hs'). reflexivity.
Qed.

Lemma ck_decide_first_bar_hard_snap : forall retention now snaps s v,
  asc snaps -> In s snaps ->
  is_hard (vkind v) = true ->
  forall l i newer barrier nbar b,
  (nbar = true -> exists q, newer = Some (visibility snaps q) /\ s < q) ->
  first_bar (filter (fun d : ver * bool => vseq (fst d) <=? s)
              (fixup (ck_decide false true retention now snaps false i newer barrier nbar l)))
    = Some (v, b) ->
  b = true.
Proof.
  intros retention now snaps s v Hasc Hin Hh.
  induction l as [|x r IH]; intros i newer barrier nbar b J H.
  - discriminate.
  - rewrite ck_decide_cons in H. cbn [fixup fst snd filter] in H.
    destruct (N.leb_spec (vseq x) s) as [Hle|Hgt].
    + destruct (visibility_le snaps (vseq x) s Hasc Hin Hle) as [s' [Hvis Hs']].
      rewrite (ck_nb_snap snaps s newer nbar x s' Hin J Hvis Hs') in H.
      rewrite first_bar_cons in H. destruct (isbar x) eqn:Hx.
      * injection H as -> <-.
        rewrite (ck_flag_hard_first _ _ _ _ _ _ _ Hh). reflexivity.
      * assert (Hn : is_hard (vkind x) = false /\ is_rep (vkind x) = false).
        { unfold isbar in Hx. apply orb_false_elim in Hx. exact Hx. }
        destruct Hn as [Hx1 Hx2]. rewrite Hx1, Hx2 in H. cbn [orb] in H.
        apply (IH _ _ _ _ _ (fun E : false = true => False_ind _ (Bool.diff_false_true E)) H).
    + apply (IH _ _ _ _ _ (fun _ => ex_intro _ (vseq x) (conj eq_refl Hgt)) H).
Qed.

Lemma filter_flagged_top : forall bottom versioning retention now snaps vs s,
  desc vs -> top vs <= s ->
  filter (fun d : ver * bool => vseq (fst d) <=? s)
         (flagged bottom versioning retention now snaps vs)
  = flagged bottom versioning retention now snaps vs.
Proof.
  intros bottom versioning retention now snaps vs s Hdesc Htop.
  apply filter_all. intros d Hd.
  assert (Hv : In (fst d) vs).
  { rewrite <- (flagged_map_fst bottom versioning retention now snaps vs).
    apply in_map. exact Hd. }
  pose proof (desc_le_top vs (fst d) Hdesc Hv) as Hle.
  destruct (N.leb_spec (vseq (fst d)) s); [reflexivity | lia].
Qed.

(* for a reader at or above the newest version the newest visible barrier is the newest barrier *)
Lemma first_bar_top : forall retention now snaps vs s d,
  desc vs -> top vs <= s ->
  first_bar (filter (fun d : ver * bool => vseq (fst d) <=? s)
                    (flagged false true retention now snaps vs)) = Some d ->
  find isbar vs = Some (fst d).
Proof.
  intros retention now snaps vs s d Hdesc Htop H.
  rewrite (filter_flagged_top _ _ _ _ _ _ _ Hdesc Htop) in H.
  apply (find_map_fst isbar) in H. rewrite flagged_map_fst in H. exact H.
Qed.

(* the newest barrier a relevant reader sees, when it is a hard delete, is kept — any retention *)
Lemma flagged_first_bar_hard_rel : forall retention now snaps vs s v b,
  desc vs -> asc snaps -> (In s snaps \/ top vs <= s) ->
  is_hard (vkind v) = true ->
  first_bar (filter (fun d : ver * bool => vseq (fst d) <=? s)
                    (flagged false true retention now snaps vs)) = Some (v, b) ->
  b = true.
Proof.
  intros retention now snaps vs s v b Hdesc Hasc Hrel Hh H.
  destruct Hrel as [Hin|Htop].
  - unfold flagged in H. rewrite ldb_cond_above in H.
    apply (ck_decide_first_bar_hard_snap _ _ _ _ _ Hasc Hin Hh _ _ _ _ _ _
             (fun E : false = true => False_ind _ (Bool.diff_false_true E)) H).
  - pose proof (first_bar_top _ _ _ _ _ _ Hdesc Htop H) as Hf. cbn [fst] in Hf.
    exact (flagged_first_bar_hard _ _ _ _ _ _ _ Hh Hf H).
Qed.

(* the newest barrier a relevant reader sees is kept, or it is outside the retention window *)
Lemma flagged_first_bar : forall retention now snaps vs s v b,
  desc vs -> asc snaps -> (In s snaps \/ top vs <= s) ->
  first_bar (filter (fun d : ver * bool => vseq (fst d) <=? s)
                    (flagged false true retention now snaps vs)) = Some (v, b) ->
  b = true \/ outside retention now v = true.
Proof.
  intros retention now snaps vs s v b Hdesc Hasc Hrel H.
  destruct b; [left; reflexivity | right].
  destruct (is_hard (vkind v)) eqn:Hh.
  - destruct Hrel as [Hin|Htop].
    + (* a snapshot reader: the barrier is bounded by a snapshot *)
      unfold first_bar in H. apply find_some in H. destruct H as [Hd _].
      apply filter_In in Hd. destruct Hd as [Hd Hs]. cbn [fst] in Hs.
      unfold flagged in Hd. rewrite ldb_cond_above in Hd. apply fixup_in_false in Hd.
      destruct (N.leb_spec (vseq v) s) as [Hle|]; [|discriminate].
      destruct (visibility_le snaps (vseq v) s Hasc Hin Hle) as [s' [Hvis _]].
      exact (ck_decide_false_bounded _ _ _ _ _ _ Hvis _ _ _ _ _ Hd).
    + (* a reader above everything: its barrier is the newest one of the list *)
      exfalso.
      pose proof (first_bar_top _ _ _ _ _ _ Hdesc Htop H) as Hf. cbn [fst] in Hf.
      pose proof (flagged_first_bar_hard _ _ _ _ _ _ _ Hh Hf H) as Hb. discriminate.
  - apply (flagged_hist_false false retention now snaps vs s v Hdesc Hasc Hrel
             (ldb_cond_above snaps vs)).
    apply first_bar_rep_hist; [exact H | exact Hh].
Qed.

(* history over the compaction and an arbitrary list below it, in terms of the flagged list *)
Lemma history_app_flagged : forall bottom versioning retention now snaps vs deep s,
  let L := filter (fun d : ver * bool => vseq (fst d) <=? s)
                  (flagged bottom versioning retention now snaps vs) in
  let D := filter (fun v => vseq v <=? s) deep in
  history_at (compact_key bottom versioning retention now snaps vs ++ deep) s
    = hist_of (kept L ++ D) /\
  history_at (vs ++ deep) s = hist_of (map fst L ++ D).
Proof.
  intros. subst L D. unfold history_at. rewrite !filter_app. split.
  - rewrite compact_key_eq, (filter_kept (fun v => vseq v <=? s)). reflexivity.
  - rewrite <- (filter_map_fst (fun v => vseq v <=? s)), flagged_map_fst. reflexivity.
Qed.

Lemma erases_deeper_flagged : forall bottom versioning retention now snaps vs s,
  let L := filter (fun d : ver * bool => vseq (fst d) <=? s)
                  (flagged bottom versioning retention now snaps vs) in
  erases_deeper (compact_key bottom versioning retention now snaps vs) s = existsb isbar (kept L) /\
  erases_deeper vs s = existsb isbar (map fst L).
Proof.
  intros. subst L. unfold erases_deeper. rewrite !existsb_filter. split.
  - rewrite compact_key_eq, (filter_kept (fun v => vseq v <=? s)). reflexivity.
  - rewrite <- (filter_map_fst (fun v => vseq v <=? s)), flagged_map_fst. reflexivity.
Qed.

(* unlimited retention: the newest barrier of a relevant reader is always kept *)
Lemma flagged_first_bar_0 : forall now snaps vs s,
  desc vs -> asc snaps -> (In s snaps \/ top vs <= s) ->
  forall d, first_bar (filter (fun d : ver * bool => vseq (fst d) <=? s)
                              (flagged false true 0 now snaps vs)) = Some d -> snd d = true.
Proof.
  intros now snaps vs s Hdesc Hasc Hrel [v b] H. cbn [snd].
  destruct (flagged_first_bar 0 now snaps vs s v b Hdesc Hasc Hrel H) as [Hb|Ho]; [exact Hb|].
  rewrite outside_0 in Ho. discriminate.
Qed.

Lemma compact_key_barrier_kept : compact_key_barrier_kept_stmt.
Proof.
  unfold compact_key_barrier_kept_stmt.
  intros now snaps vs s Hdesc Hasc _ Hrel.
  destruct (erases_deeper_flagged false true 0 now snaps vs s) as [Hout Hin].
  cbv zeta in Hout, Hin. rewrite Hout, Hin.
  apply existsb_bar_kept. apply flagged_first_bar_0; assumption.
Qed.

Lemma compact_key_history_deeper_any : compact_key_history_deeper_any_stmt.
Proof.
  unfold compact_key_history_deeper_any_stmt.
  intros now snaps vs deep s Hdesc Hasc Hrel.
  destruct (history_app_flagged false true 0 now snaps vs deep s) as [Hout Hin].
  cbv zeta in Hout, Hin. rewrite Hout, Hin.
  apply hist_kept_app_eq.
  - apply flagged_first_bar_0; assumption.
  - intros [v b] Hd. destruct b; [reflexivity|]. exfalso.
    pose proof (flagged_hist_false false 0 now snaps vs s v Hdesc Hasc Hrel
                  (ldb_cond_above snaps vs) Hd) as Ho.
    rewrite outside_0 in Ho. discriminate.
Qed.

Lemma desc_app_l : forall vs deep, desc (vs ++ deep) -> desc vs.
Proof.
  unfold desc. induction vs as [|x r IH]; intros deep H.
  - constructor.
  - cbn [app] in H. inversion H as [|? ? Hr Hall]; subst. constructor.
    + exact (IH _ Hr).
    + rewrite Forall_forall in *. intros y Hy. apply Hall. apply in_or_app. left. exact Hy.
Qed.

Lemma compact_key_history_deeper : compact_key_history_deeper_stmt.
Proof.
  unfold compact_key_history_deeper_stmt, history_deeper, lies_below.
  intros now snaps vs deep s [Hdesc _] Hasc Hrel.
  apply compact_key_history_deeper_any; [exact (desc_app_l _ _ Hdesc) | exact Hasc | exact Hrel].
Qed.

Lemma compact_key_history_deeper_retention : compact_key_history_deeper_retention_stmt.
Proof.
  unfold compact_key_history_deeper_retention_stmt, history_deeper, lies_below.
  intros retention now snaps vs deep s [Hdesc0 _] Hasc Hrel Hwin.
  pose proof (desc_app_l _ _ Hdesc0) as Hdesc.
  destruct (history_app_flagged false true retention now snaps vs deep s) as [Hout Hin].
  cbv zeta in Hout, Hin. rewrite Hout, Hin.
  apply hist_kept_app_incl.
  intros [v b] H. cbn [snd].
  destruct (flagged_first_bar retention now snaps vs s v b Hdesc Hasc Hrel H) as [Hb|Ho];
    [exact Hb|].
  exfalso. apply (Hwin v).
  - unfold newest_barrier. rewrite find_filter.
    rewrite <- (flagged_map_fst false true retention now snaps vs) at 1.
    rewrite (filter_map_fst (fun v => vseq v <=? s)).
    exact (find_map_fst isbar _ _ H).
  - unfold outside in Ho. apply andb_prop in Ho. destruct Ho as [Ho1 Ho2].
    destruct (N.ltb_spec 0 retention); [|discriminate].
    destruct (N.ltb_spec retention (now - vts v)); [|discriminate].
    split; assumption.
Qed.

Lemma newest_barrier_flagged : forall bottom versioning retention now snaps vs s,
  newest_barrier vs s =
  find isbar (map fst (filter (fun d : ver * bool => vseq (fst d) <=? s)
                              (flagged bottom versioning retention now snaps vs))).
Proof.
  intros. unfold newest_barrier. rewrite find_filter.
  rewrite <- (flagged_map_fst bottom versioning retention now snaps vs) at 1.
  rewrite (filter_map_fst (fun v => vseq v <=? s)). reflexivity.
Qed.

(* finite retention, hard-delete barrier, no window proviso *)
Lemma compact_key_history_deeper_hard : compact_key_history_deeper_hard_stmt.
Proof.
  unfold compact_key_history_deeper_hard_stmt, history_deeper, lies_below.
  intros retention now snaps vs deep s b [Hdesc0 _] Hasc Hrel Hnb Hh.
  pose proof (desc_app_l _ _ Hdesc0) as Hdesc.
  destruct (history_app_flagged false true retention now snaps vs deep s) as [Hout Hin].
  cbv zeta in Hout, Hin. rewrite Hout, Hin.
  apply hist_kept_app_incl.
  intros [v f] H. cbn [snd].
  assert (Hv : v = b).
  { rewrite (newest_barrier_flagged false true retention now snaps) in Hnb.
    rewrite (find_map_fst isbar _ _ H) in Hnb. cbn [fst] in Hnb. injection Hnb as ->. reflexivity. }
  subst v. exact (flagged_first_bar_hard_rel _ _ _ _ _ _ _ Hdesc Hasc Hrel Hh H).
Qed.

(* witnesses *)
Definition w_set (q : N) : ver := {| vseq := q; vkind := CSet; vts := 0 |}.
Definition w_del (q : N) : ver := {| vseq := q; vkind := CDel; vts := 0 |}.
Definition w_rep (q : N) : ver := {| vseq := q; vkind := CRep; vts := 0 |}.
Definition w_soft (q : N) : ver := {| vseq := q; vkind := CSoft; vts := 0 |}.

Lemma w_lies_below : lies_below [w_set 3; w_del 2] [w_set 1].
Proof.
  split.
  - unfold desc. cbn [app]. repeat (constructor; cbn [vseq w_set w_del]); lia.
  - cbn [app]. intros v [<-|[<-|[<-|[]]]]; cbn [vseq w_set w_del]; lia.
Qed.

Lemma w_lies_below_rep : lies_below [w_set 3; w_rep 2] [w_set 1].
Proof.
  split.
  - unfold desc. cbn [app]. repeat (constructor; cbn [vseq w_set w_rep]); lia.
  - cbn [app]. intros v [<-|[<-|[<-|[]]]]; cbn [vseq w_set w_rep]; lia.
Qed.

(* finite retention, REPLACE barrier outside the window: Set@1 of the deeper level comes back
   (limitation kept by the crate's pinned tests) *)
Lemma compact_key_retention_replace_lost : compact_key_retention_replace_lost_stmt.
Proof.
  exists 10, 100, [], [w_set 3; w_rep 2], [w_set 1], 3, (w_rep 2), (w_set 1).
  split; [exact w_lies_below_rep|]. split; [constructor|]. split; [cbn; lia|].
  split; [reflexivity|]. split; [reflexivity|]. split; [reflexivity|].
  split.
  - vm_compute. right. left. reflexivity.
  - vm_compute. intros [H|[H|[]]]; discriminate H.
Qed.

Lemma compact_key_retention_barrier_lost : compact_key_retention_barrier_lost_stmt.
Proof.
  exists 10, 100, [], [w_set 3; w_rep 2], [w_set 1], 3, (w_set 1).
  split; [exact w_lies_below_rep|]. split; [constructor|]. split; [right; cbn; lia|].
  split.
  - vm_compute. right. left. reflexivity.
  - vm_compute. intros [H|[H|[]]]; discriminate H.
Qed.

(* the decision before the first repair loses the barrier Del@2: Set@1 of the deeper level comes back *)
Lemma compact_key_old_history_deeper_fails : compact_key_old_history_deeper_fails_stmt.
Proof.
  exists 0, [], [w_set 3; w_del 2], [w_set 1], 3.
  split; [exact w_lies_below|]. split; [constructor|]. split; [right; cbn; lia|].
  split; vm_compute; discriminate.
Qed.

(* the decision between the two repairs loses it under finite retention *)
Lemma compact_key_mid_history_deeper_hard_fails : compact_key_mid_history_deeper_hard_fails_stmt.
Proof.
  exists 10, 100, [], [w_set 3; w_del 2], [w_set 1], 3, (w_del 2), (w_set 1).
  split; [exact w_lies_below|]. split; [constructor|]. split; [cbn; lia|].
  split; [reflexivity|]. split; [reflexivity|].
  split.
  - vm_compute. right. left. reflexivity.
  - vm_compute. intros [H|[]]. discriminate H.
Qed.

Print Assumptions compact_key_sublist.
Print Assumptions compact_key_plain.
Print Assumptions compact_key_view.
Print Assumptions compact_key_history.
Print Assumptions compact_key_history_retention.
Print Assumptions erases_deeper_history.
Print Assumptions compact_key_barrier_kept.
Print Assumptions compact_key_history_deeper_any.
Print Assumptions compact_key_history_deeper.
Print Assumptions compact_key_history_deeper_retention.
Print Assumptions compact_key_retention_barrier_lost.
Print Assumptions compact_key_old_history_deeper_fails.
Print Assumptions compact_key_history_deeper_hard.
Print Assumptions compact_key_retention_replace_lost.
Print Assumptions compact_key_mid_history_deeper_hard_fails.
