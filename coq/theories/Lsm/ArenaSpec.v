(* Lsm/ArenaSpec.v — statements about Lsm/Arena.v (no proofs here). *)
From Coq Require Import List NArith Bool.
From SKV Require Import Lsm.ArenaParams Lsm.Arena.
Import ListNotations.
Local Open Scope N_scope.

(* a granted reservation cannot run out: when MemTable::add's test passes on a memtable with counter n, every allocation
   of the batch succeeds, in order, whatever the heights, and the counter ends exactly ar_sum_alloc higher *)
Definition reservation_sufficient_stmt : Prop :=
  arena_params_ok = true ->
  forall cap n es, ar_heights_ok es = true -> ar_reserve_ok cap n es = true ->
    ar_insert_all cap n es = Some (n + ar_sum_alloc es) /\ n + ar_sum_alloc es + ar_max_unused <= cap.

(* a batch admitted by the pre-WAL size check is accepted by an EMPTY memtable whatever tower heights are drawn:
   a logged batch can always be applied (after a rotation) and replayed *)
Definition admitted_fits_empty_stmt (with_unused : bool) : Prop :=
  arena_params_ok = true ->
  forall cap es, ar_heights_ok es = true -> ar_bound with_unused es <= cap ->
    exists n', ar_mem_add cap ar_empty_n es = Some n' /\ n' <= cap.

(* the ar_bound does not depend on the heights; the reservation does *)
Definition bound_height_free_stmt : Prop :=
  forall w es es', map (fun e => (ar_e_k e, ar_e_v e)) es = map (fun e => (ar_e_k e, ar_e_v e)) es' -> ar_bound w es = ar_bound w es'.

(* without the max_unused_tower term (the ar_bound before 99893dd) a batch can be admitted, logged and then refused by an
   empty memtable when a tower of height 2 or more is drawn *)
Definition old_bound_refuted_stmt : Prop :=
  exists cap es, ar_heights_ok es = true /\ ar_bound false es <= cap /\ ar_mem_add cap ar_empty_n es = None.

(* every reachable counter: through ANY sequence of batches added to a memtable that starts with counter n0 (room for one unused
   tower left), accepted or refused, whatever heights are drawn, no allocation fails after a granted reservation, the counter is
   exactly n0 plus the cost of the accepted batches, it never decreases, and one unused tower still fits under the capacity *)
Definition reachable_counter_stmt : Prop :=
  arena_params_ok = true ->
  forall cap bs n0, forallb ar_heights_ok bs = true -> n0 + ar_max_unused <= cap ->
    ar_run cap bs n0 = n0 + ar_accepted_cost cap n0 bs /\ n0 <= ar_run cap bs n0 /\ ar_run cap bs n0 + ar_max_unused <= cap.

(* a refused batch changes nothing, and it stays refused until the memtable is replaced: the counter only grows *)
Definition refused_stays_refused_stmt : Prop :=
  arena_params_ok = true ->
  forall cap bs n0 es, forallb ar_heights_ok bs = true -> n0 + ar_max_unused <= cap ->
    ar_mem_add cap n0 es = None -> ar_mem_add cap (ar_run cap bs n0) es = None.

(* the empty memtable of the real capacity range meets the hypothesis (non-vacuity) *)
Definition reachable_counter_example_stmt : Prop :=
  ar_empty_n + ar_max_unused <= 4096 /\
  ar_run 4096 [[(3, 4, 100)]; [(1, 2, 5000)]; [(20, 10, 10); (1, 1, 1)]] ar_empty_n = ar_empty_n + 435.
