(* Lsm/ArenaSpec.v — statements about Lsm/Arena.v (no proofs here). *)
From Coq Require Import List NArith Bool.
From SKV Require Import Lsm.ArenaParams Lsm.Arena.
Import ListNotations.
Local Open Scope N_scope.

(* a granted reservation cannot run out: when MemTable::add's test passes on a memtable with counter n, every allocation
   of the batch succeeds, in order, whatever the heights, and the counter ends exactly ar_sum_alloc higher *)
Definition reservation_sufficient_stmt : Prop :=
  arena_params_ok = true ->
  forall cap n es, ar_heights_ok es = true -> ar_reserve_ok cap n es = true ->
    ar_insert_all cap n es = Some (n + ar_sum_alloc es) /\ n + ar_sum_alloc es + ar_max_unused <= cap.

(* a batch admitted by the pre-WAL size check is accepted by an EMPTY memtable whatever tower heights are drawn:
   a logged batch can always be applied (after a rotation) and replayed *)
Definition admitted_fits_empty_stmt (with_unused : bool) : Prop :=
  arena_params_ok = true ->
  forall cap es, ar_heights_ok es = true -> ar_bound with_unused es <= cap ->
    exists n', ar_mem_add cap ar_empty_n es = Some n' /\ n' <= cap.

(* the ar_bound does not depend on the heights; the reservation does *)
Definition bound_height_free_stmt : Prop :=
  forall w es es', map (fun e => (ar_e_k e, ar_e_v e)) es = map (fun e => (ar_e_k e, ar_e_v e)) es' -> ar_bound w es = ar_bound w es'.

(* without the max_unused_tower term (the ar_bound before 99893dd) a batch can be admitted, logged and then refused by an
   empty memtable when a tower of height 2 or more is drawn *)
Definition old_bound_refuted_stmt : Prop :=
  exists cap es, ar_heights_ok es = true /\ ar_bound false es <= cap /\ ar_mem_add cap ar_empty_n es = None.
