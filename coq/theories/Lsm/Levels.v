(* Lsm/Levels.v — which source a point read consults first, and which tables a compaction may pick.

   A store is an active memtable, the immutable memtables (the Vec of src/memtable/mod.rs
   ImmutableMemtables: sorted by table id, OLDEST FIRST), level 0 (tables may overlap in keys) and
   levels 1.. (tables with disjoint key ranges).  A source holds versions (user key, seq, kind,
   timestamp, value).  Transcribed:

     get              Snapshot::get (src/snapshot.rs): active memtable, first hit wins; immutable
                      memtables in reverse order, first hit wins; level 0: among ALL tables whose key
                      range contains the key the visible version with the largest sequence number
                      (repair 4492089; the comparison is GENERATED, LevelsParams.LV_L0_RULE); levels 1+:
                      the tables whose range contains the key, first hit wins; a hit that is a
                      tombstone answers None.  Inside one source the hit is the version with the
                      largest seq <= snapshot seq (MemTable::get, Table::get).
     commit           a batch is applied to the active memtable (MemTable::add; completely, e6ce312)
     rotate           CoreInner::rotate_memtable: active -> end of the immutable Vec, fresh active
     flush            flush_oldest_immutable_to_sst: `guard.first()` (the OLDEST) becomes a level-0
                      table with the same versions (Level::insert: by largest seq, descending)
     compact          Compactor::merge_tables + leveled::Strategy: the picked tables of the source level
                      and of the target level (source + 1, or the source itself at the last level)
                      are replaced IN ONE manifest switch by one table in the target level holding, per
                      key, what the compaction iterator keeps (Lsm/CompactKey.v compact_key)
     select_tables    leveled::Strategy::select_tables_for_compaction (+ select_overlapping_ranges,
                      combined_key_range): which tables the crate's strategy picks
     reopen           the memtables are rebuilt from the WAL: the log (same versions, same order) is
                      cut into consecutive pieces, all but the newest are flushed oldest first
                      (replay_wal_with_repair_pieces), the newest is the active memtable; tables stay.

   Definitions only; statements in LevelsSpec.v, proofs in Levels_proofs.v. *)
From Coq Require Import List NArith Bool Arith.
From SKV Require Import Base.Lex Lsm.CompactKey Lsm.LevelsParams.
Import ListNotations.
Local Open Scope N_scope.

(* one module: the extracted OCaml keeps these (common) names apart from the other models' *)
Module Lv.
Definition key := bytes.
Record version := { xkey : key; xver : ver; xval : bytes }.
Definition xseq (x : version) : N := vseq (xver x).
Definition xtomb (x : version) : bool := is_tomb (vkind (xver x)).

Record table := { tid : N; tlo : key; thi : key; tvers : list version }.
Record store := { active : list version;              (* newest applied first *)
                  imms : list (list version);          (* the Vec: oldest first *)
                  levels : list (list table) }.        (* index 0 = level 0 *)
Definition st0 (nlevels : nat) : store := {| active := []; imms := []; levels := repeat [] nlevels |}.

(* what the sources say, read off the code by tools/gen_params.py (LevelsParams.v) *)
Record rules := { r_imm_rev : bool;       (* get walks the immutable memtables with .rev() *)
                  r_l0 : N;               (* level-0 rule of get: 0 = first hit wins (the code before 4492089);
                                             1..4 = replace the candidate when item.seq >, >=, <, <= candidate.seq *)
                  r_flush_oldest : bool   (* the flush takes ImmutableMemtables::first() *) }.
Definition current : rules :=
  {| r_imm_rev := LV_IMM_NEWEST_FIRST; r_l0 := LV_L0_RULE; r_flush_oldest := LV_FLUSH_OLDEST |}.
Definition rules_okb (r : rules) : bool := r_imm_rev r && (r_l0 r =? 1) && r_flush_oldest r.
(* the rules the theorems are about *)
Definition std_rules : rules := {| r_imm_rev := true; r_l0 := 1; r_flush_oldest := true |}.
(* the level-0 rule before 4492089 *)
Definition old_l0_rules : rules := {| r_imm_rev := true; r_l0 := 0; r_flush_oldest := true |}.
(* the selection side of the sources: level 0 as a source gives ALL its tables; every target-level
   table overlapping the combined key range of the chosen source tables is an input *)
Record srules := { s_l0_all : bool;      (* select_tables_for_compaction: source level 0 gives every table of the level *)
                   s_target_all : bool   (* ... and every next-level table overlapping the combined range is an input *) }.
Definition current_sel : srules := {| s_l0_all := LV_L0_SOURCE_PICKS_ALL; s_target_all := LV_TARGET_OVERLAP_ALL |}.
Definition srules_okb (sr : srules) : bool := s_l0_all sr && s_target_all sr.

(* ---------- point lookup inside one source ---------- *)
Definition visible (k : key) (s : N) (l : list version) : list version :=
  filter (fun x => bytes_eqb (xkey x) k && (xseq x <=? s)) l.
(* the version with the largest seq (the first one among equals) *)
Fixpoint best (l : list version) : option version :=
  match l with
  | [] => None
  | x :: r => match best r with
              | Some y => if xseq x <? xseq y then Some y else Some x
              | None => Some x
              end
  end.
Definition src_get (l : list version) (k : key) (s : N) : option version := best (visible k s l).

Definition in_range (t : table) (k : key) : bool := lex_leb (tlo t) k && lex_leb k (thi t).

(* ---------- Snapshot::get ---------- *)
Fixpoint first_some {A : Type} (l : list (option A)) : option A :=
  match l with [] => None | Some x :: _ => Some x | None :: r => first_some r end.
Definition mem_search (r : rules) (st : store) : list (list version) :=
  active st :: (if r_imm_rev r then rev (imms st) else imms st).

Definition l0_replace (code : N) (item cand : N) : bool :=
  match code with
  | 1 => cand <? item
  | 2 => cand <=? item
  | 3 => item <? cand
  | 4 => item <=? cand
  | _ => false
  end.
Definition l0_pick (code : N) (acc hit : option version) : option version :=
  match hit with
  | None => acc
  | Some x => match acc with
              | None => Some x
              | Some n => if l0_replace code (xseq x) (xseq n) then Some x else acc
              end
  end.
Definition l0_get (code : N) (ts : list table) (k : key) (s : N) : option version :=
  fold_left (fun acc t => if in_range t k then l0_pick code acc (src_get (tvers t) k s) else acc) ts None.
Fixpoint first_hit (ts : list table) (k : key) (s : N) : option version :=
  match ts with
  | [] => None
  | t :: r => if in_range t k
              then match src_get (tvers t) k s with Some x => Some x | None => first_hit r k s end
              else first_hit r k s
  end.
Fixpoint levels_get (code : N) (first : bool) (lv : list (list table)) (k : key) (s : N) : option version :=
  match lv with
  | [] => None
  | l :: r => match (if first then l0_get code l k s else first_hit l k s) with
              | Some x => Some x
              | None => levels_get code false r k s
              end
  end.
(* the entry found first, tombstone or not *)
Definition get_hit (r : rules) (st : store) (k : key) (s : N) : option version :=
  match first_some (map (fun m => src_get m k s) (mem_search r st)) with
  | Some x => Some x
  | None => levels_get (r_l0 r) true (levels st) k s
  end.
Definition answer (h : option version) : option (bytes * N) :=
  match h with
  | Some x => if xtomb x then None else Some (xval x, xseq x)
  | None => None
  end.
Definition get (r : rules) (st : store) (k : key) (s : N) : option (bytes * N) := answer (get_hit r st k s).

(* ---------- the specification: the merging iterator's answer ---------- *)
Definition lvers (l : list table) : list version := concat (map tvers l).
Definition tab_versions (st : store) : list version := concat (map lvers (levels st)).
(* the memtables as one log, newest first (= the WAL read backwards) *)
Definition mem_log (st : store) : list version := active st ++ concat (rev (imms st)).
Definition all_versions (st : store) : list version := mem_log st ++ tab_versions st.
(* per key the globally newest visible version over ALL sources, tombstones hidden *)
Definition hit_of_all (st : store) (s : N) (k : key) : option version := best (visible k s (all_versions st)).
Definition view_of_all (st : store) (s : N) (k : key) : option (bytes * N) := answer (hit_of_all st s k).
(* a scan over the keys ks *)
Definition scan_of_all (st : store) (s : N) (ks : list key) : list (key * bytes) :=
  flat_map (fun k => match view_of_all st s k with Some (v, _) => [(k, v)] | None => [] end) ks.
Definition scan_by_get (r : rules) (st : store) (s : N) (ks : list key) : list (key * bytes) :=
  flat_map (fun k => match get r st k s with Some (v, _) => [(k, v)] | None => [] end) ks.

(* ---------- tables ---------- *)
Definition key_min (l : list key) : key :=
  match l with [] => [] | k :: r => fold_left (fun m x => if lex_ltb x m then x else m) r k end.
Definition key_max (l : list key) : key :=
  match l with [] => [] | k :: r => fold_left (fun m x => if lex_ltb m x then x else m) r k end.
Definition mk_table (id : N) (vs : list version) : table :=
  {| tid := id; tlo := key_min (map xkey vs); thi := key_max (map xkey vs); tvers := vs |}.
Definition tmax (t : table) : N := fold_right N.max 0 (map xseq (tvers t)).
(* Level::insert (level 0): partition_point(|x| x.seqnos.1 > table.seqnos.1) *)
Fixpoint l0_insert (t : table) (l : list table) : list table :=
  match l with [] => [t] | x :: r => if tmax t <? tmax x then x :: l0_insert t r else t :: l end.
(* Level::insert_sorted_by_key (levels 1+): partition_point(|x| x.smallest < table.smallest) *)
Fixpoint ln_insert (t : table) (l : list table) : list table :=
  match l with [] => [t] | x :: r => if lex_ltb (tlo x) (tlo t) then x :: ln_insert t r else t :: l end.
(* an empty memtable / an empty compaction output makes no table *)
Definition add_l0 (id : N) (vs : list version) (l : list table) : list table :=
  match vs with [] => l | _ => l0_insert (mk_table id vs) l end.
Definition upd_l0 (f : list table -> list table) (lv : list (list table)) : list (list table) :=
  match lv with [] => [f []] | l :: r => f l :: r end.

(* ---------- commit / rotate / flush ---------- *)
(* b: the entries of the batch in the order they are applied (oldest first) *)
Definition commit (b : list version) (st : store) : store :=
  {| active := rev b ++ active st; imms := imms st; levels := levels st |}.
Definition rotate (st : store) : store :=
  match active st with
  | [] => st
  | _ => {| active := []; imms := imms st ++ [active st]; levels := levels st |}
  end.
Definition flush (r : rules) (id : N) (st : store) : store :=
  if r_flush_oldest r then
    match imms st with
    | [] => st
    | m :: rest => {| active := active st; imms := rest; levels := upd_l0 (add_l0 id m) (levels st) |}
    end
  else
    match rev (imms st) with
    | [] => st
    | m :: rest => {| active := active st; imms := rev rest; levels := upd_l0 (add_l0 id m) (levels st) |}
    end.

(* ---------- compaction ---------- *)
Record ccfg := { c_versioning : bool; c_retention : N; c_now : N }.
Definition picked (ids : list N) (t : table) : bool := existsb (N.eqb (tid t)) ids.
Definition unpicked (ids : list N) (t : table) : bool := negb (picked ids t).
Definition key_versions (k : key) (l : list version) : list version := filter (fun x => bytes_eqb (xkey x) k) l.
Fixpoint dedup_keys (l : list key) : list key :=
  match l with [] => [] | k :: r => if existsb (bytes_eqb k) r then dedup_keys r else k :: dedup_keys r end.
(* the versions of one key as the compaction iterator sees them: sorted by seq descending, one per seq *)
Definition sorted_vers (l : list version) : list ver :=
  dedup_seq (fold_left (fun acc v => insert_desc v acc) (map xver l) []).
Definition kept_of (kv : list version) (kept : list ver) : list version :=
  flat_map (fun v => match find (fun x => xseq x =? vseq v) kv with Some x => [x] | None => [] end) kept.
Definition compact_versions (bottom : bool) (c : ccfg) (snaps : list N) (merged : list version) : list version :=
  flat_map (fun k => let kv := key_versions k merged in
                     kept_of kv (compact_key bottom (c_versioning c) (c_retention c) (c_now c) snaps (sorted_vers kv)))
           (dedup_keys (map xkey merged)).

Fixpoint focus (src : nat) (lv : list (list table)) : option (list (list table) * list table * list (list table)) :=
  match lv with
  | [] => None
  | l :: r => match src with
              | O => Some ([], l, r)
              | S n => match focus n r with Some (pre, x, post) => Some (l :: pre, x, post) | None => None end
              end
  end.
Definition is_nil {A : Type} (l : list A) : bool := match l with [] => true | _ => false end.
(* the new table goes into the target level: Level::insert at level 0, insert_sorted_by_key below *)
Definition add_out (l0 : bool) (id : N) (out : list version) (l : list table) : list table :=
  match out with [] => l | _ => if l0 then l0_insert (mk_table id out) l else ln_insert (mk_table id out) l end.
Definition compact_levels (src : nat) (ids : list N) (newid : N) (c : ccfg) (snaps : list N) (lv : list (list table))
  : list (list table) :=
  match focus src lv with
  | None => lv
  | Some (pre, ls, []) =>
      (* the last level: target = source, bottom level *)
      let out := compact_versions true c snaps (lvers (filter (picked ids) ls)) in
      pre ++ [add_out (is_nil pre) newid out (filter (unpicked ids) ls)]
  | Some (pre, ls, lt :: post) =>
      let out := compact_versions (is_nil post) c snaps (lvers (filter (picked ids) ls ++ filter (picked ids) lt)) in
      pre ++ filter (unpicked ids) ls :: add_out false newid out (filter (unpicked ids) lt) :: post
  end.
Definition compact (src : nat) (ids : list N) (newid : N) (c : ccfg) (snaps : list N) (st : store) : store :=
  {| active := active st; imms := imms st; levels := compact_levels src ids newid c snaps (levels st) |}.

(* ---------- reopen ---------- *)
Fixpoint split_cuts {A : Type} (cuts : list nat) (l : list A) : list (list A) :=
  match cuts with [] => [l] | c :: r => firstn c l :: split_cuts r (skipn c l) end.
(* pieces newest first; the OLDEST is flushed first *)
Fixpoint flush_pieces (ps : list (list version)) (ids : list N) (l0 : list table) : list table :=
  match ps with [] => l0 | p :: r => add_l0 (hd 0 ids) p (flush_pieces r (tl ids) l0) end.
Definition reopen (cuts : list nat) (ids : list N) (st : store) : store :=
  match split_cuts cuts (mem_log st) with
  | [] => st
  | p0 :: ps => {| active := p0; imms := []; levels := upd_l0 (flush_pieces ps ids) (levels st) |}
  end.

(* ---------- steps ---------- *)
Inductive op :=
| OCommit (b : list version)
| ORotate
| OFlush (id : N)
| OCompact (src : nat) (ids : list N) (newid : N) (c : ccfg) (snaps : list N)
| OReopen (cuts : list nat) (ids : list N).
Definition step (r : rules) (st : store) (o : op) : store :=
  match o with
  | OCommit b => commit b st
  | ORotate => rotate st
  | OFlush id => flush r id st
  | OCompact src ids newid c snaps => compact src ids newid c snaps st
  | OReopen cuts ids => reopen cuts ids st
  end.
Definition run (r : rules) (ops : list op) (st : store) : store := fold_left (step r) ops st.
Definition is_physical (o : op) : bool := match o with OCommit _ => false | _ => true end.

(* ---------- the crate's table selection (leveled::Strategy) ---------- *)
(* combined_key_range: smallest lower / largest upper bound of the given tables *)
Definition combined_range (ts : list table) : option (key * key) :=
  match ts with [] => None | _ => Some (key_min (map tlo ts), key_max (map thi ts)) end.
(* Table::overlaps_with_range for an Included/Included range: !(largest < lo) && !(smallest > hi) *)
Definition overlaps (t : table) (rg : key * key) : bool :=
  negb (lex_ltb (thi t) (fst rg)) && negb (lex_ltb (snd rg) (tlo t)).
(* select_overlapping_ranges: the closure of the seed table under range overlap inside its level *)
Fixpoint grow (fuel : nat) (l : list table) (sel : list N) : list N :=
  match fuel with
  | O => sel
  | S n => match combined_range (filter (picked sel) l) with
           | None => sel
           | Some rg => grow n l (sel ++ map tid (filter (fun t => unpicked sel t && overlaps t rg) l))
           end
  end.
(* select_tables_for_compaction: level 0 gives all its tables; a deeper level the seed table (chosen by
   the priority rule, any table here) and its closure; plus every table of the next level that overlaps
   the combined key range of the source tables.  At the last level next = source. *)
Definition select_tables (sr : srules) (src : nat) (seed : N) (lv : list (list table)) : list N :=
  match focus src lv with
  | None => []
  | Some (pre, ls, post) =>
      let srcids := if s_l0_all sr && is_nil pre then map tid ls
                    else if existsb (fun t => tid t =? seed) ls then grow (length ls) ls [seed] else [] in
      let next := match post with [] => ls | lt :: _ => lt end in
      if s_target_all sr then
        match combined_range (filter (picked srcids) ls) with
        | None => srcids
        | Some rg => srcids ++ map tid (filter (fun t => unpicked srcids t && overlaps t rg) next)
        end
      else srcids
  end.

(* ---------- decidable forms of the invariant and the side conditions (extracted: `lv` commands) ---------- *)
Definition same_key (x y : version) : bool := bytes_eqb (xkey x) (xkey y).
Definition above_b (A B : list version) : bool :=
  forallb (fun x => forallb (fun y => negb (same_key x y) || (xseq y <? xseq x)) B) A.
Fixpoint desc_log_b (l : list version) : bool :=
  match l with [] => true | x :: r => forallb (fun y => negb (same_key x y) || (xseq y <? xseq x)) r && desc_log_b r end.
Definition kind_eqb (a b : ckind) : bool :=
  match a, b with CDel, CDel | CSoft, CSoft | CSet, CSet | CRep, CRep => true | _, _ => false end.
Definition version_eqb (x y : version) : bool :=
  bytes_eqb (xkey x) (xkey y) && (xseq x =? xseq y) && kind_eqb (vkind (xver x)) (vkind (xver y)) &&
  (vts (xver x) =? vts (xver y)) && bytes_eqb (xval x) (xval y).
Definition uniq_b (l : list version) : bool :=
  forallb (fun x => forallb (fun y => negb (same_key x y && (xseq x =? xseq y)) || version_eqb x y) l) l.
Definition share_key_b (a b : list version) : bool := existsb (fun x => existsb (same_key x) b) a.
Fixpoint key_disjoint_b (ts : list table) : bool :=
  match ts with [] => true | t :: r => forallb (fun t' => negb (share_key_b (tvers t) (tvers t'))) r && key_disjoint_b r end.
Definition table_wf_b (t : table) : bool := forallb (fun x => in_range t (xkey x)) (tvers t).
Fixpoint lv_ordered_b (lv : list (list table)) : bool :=
  match lv with [] => true | l :: r => above_b (lvers l) (concat (map lvers r)) && lv_ordered_b r end.
Definition inv_b (st : store) : bool :=
  desc_log_b (mem_log st) && above_b (mem_log st) (tab_versions st) && lv_ordered_b (levels st) &&
  forallb (fun l => uniq_b (lvers l)) (levels st) && forallb (forallb table_wf_b) (levels st) &&
  forallb key_disjoint_b (tl (levels st)) && forallb (fun x => 0 <? xseq x) (all_versions st).
(* what the binary search of levels 1+ relies on: sorted by smallest key, ranges disjoint *)
Fixpoint ranges_sorted_b (ts : list table) : bool :=
  match ts with
  | [] => true
  | t :: r => lex_leb (tlo t) (thi t) && match r with [] => true | t' :: _ => lex_ltb (thi t) (tlo t') end && ranges_sorted_b r
  end.
Definition age_ordered_b (st : store) : bool := inv_b st && forallb ranges_sorted_b (tl (levels st)).

Definition commit_ok_b (st : store) (b : list version) : bool :=
  desc_log_b (rev b) && above_b b (all_versions st) && forallb (fun x => 0 <? xseq x) b.
(* the selection condition of a compaction out of level src *)
Definition sel_ok_b (st : store) (src : nat) (ids : list N) : bool :=
  match focus src (levels st) with
  | None => true
  | Some (pre, ls, post) =>
      above_b (lvers (filter (unpicked ids) ls)) (lvers (filter (picked ids) ls)) &&
      match post with
      | [] => true
      | lt :: _ => forallb (fun t' => forallb (fun t => negb (share_key_b (tvers t') (tvers t))) (filter (picked ids) ls))
                           (filter (unpicked ids) lt)
      end
  end.
Fixpoint asc_b (l : list N) : bool :=
  match l with [] => true | a :: r => match r with [] => true | b :: _ => a <? b end && asc_b r end.
Definition op_ok_b (st : store) (o : op) : bool :=
  match o with
  | OCommit b => commit_ok_b st b
  | OCompact src ids _ _ _ => sel_ok_b st src ids
  | _ => true
  end.
Definition op_keeps_b (s : N) (st : store) (o : op) : bool :=
  match o with
  | OCommit b => forallb (fun x => s <? xseq x) b
  | OCompact _ _ _ _ snaps => asc_b snaps && (existsb (N.eqb s) snaps || forallb (fun x => xseq x <=? s) (all_versions st))
  | _ => true
  end.
Fixpoint run_ok_b (P : store -> op -> bool) (r : rules) (st : store) (ops : list op) : bool :=
  match ops with [] => true | o :: rest => P st o && run_ok_b P r (step r st o) rest end.
End Lv.
Export Lv.
