(* Lsm/VlogOpen_proofs.v — proofs of the statements of VlogOpenSpec.v. *)
From Coq Require Import List NArith Arith Bool Lia.
From SKV Require Import Params Codec.VlogParams Codec.Wal Codec.VlogPtr Codec.VlogPtrSpec Codec.VlogPtr_proofs.
From SKV Require Import Lsm.VlogOpen Lsm.VlogOpenSpec.
Import ListNotations.
Local Open Scope N_scope.

Arguments N.add : simpl never.
Arguments N.sub : simpl never.
Arguments N.mul : simpl never.
Arguments N.div : simpl never.
Arguments N.modulo : simpl never.
Arguments N.pow : simpl never.
Arguments N.eqb : simpl never.
Arguments N.ltb : simpl never.
Arguments N.leb : simpl never.
Arguments N.of_nat : simpl never.
Arguments N.to_nat : simpl never.

Lemma vopen_params : vopen_params_ok = true ->
  VLOG_HEADER_FIELDS = [4; 2; 4; 8; 8; 1; 4] /\ VLOG_HEADER_SIZE = 31 /\ VLOG_MAGIC < 2 ^ 32.
Proof.
  unfold vopen_params_ok. intros H.
  destruct VLOG_HEADER_FIELDS as [|a l]; [discriminate|].
  repeat match type of H with
  | (match ?x with _ => _ end) = true => destruct x; try discriminate
  end.
  apply andb_true_iff in H. destruct H as [H1 H2].
  apply N.eqb_eq in H1. apply N.ltb_lt in H2. auto.
Qed.

Lemma vhw_val : vopen_params_ok = true -> VHW = [4; 2; 4; 8; 8; 1; 4]%nat.
Proof. intros H. destruct (vopen_params H) as [Hf _]. unfold VHW. rewrite Hf. reflexivity. Qed.

Lemma hsz_val : vopen_params_ok = true -> HSZ = 31%nat.
Proof. intros H. destruct (vopen_params H) as [_ [Hs _]]. unfold HSZ. rewrite Hs. reflexivity. Qed.

Lemma vheader_length : vopen_params_ok = true -> forall id c m, length (vheader_bytes id c m) = 31%nat.
Proof.
  intros H id c m. unfold vheader_bytes. rewrite (vhw_val H). rewrite enc_fields_length. reflexivity.
Qed.

Lemma hdr_pad_full : vopen_params_ok = true -> forall b, length b = 31%nat -> hdr_pad b = b.
Proof.
  intros H b Hb. unfold hdr_pad. rewrite (hsz_val H). rewrite vslice_inside by (rewrite Hb; lia).
  cbn [skipn]. rewrite <- Hb. apply firstn_all.
Qed.

Lemma header_accepted : header_accepted_stmt.
Proof.
  intros H id c m Hid. destruct (vopen_params H) as [_ [_ Hm]].
  rewrite (hdr_pad_full H) by (apply vheader_length; assumption).
  unfold hdr_accepts, vheader_bytes. rewrite (vhw_val H).
  change [4; 2; 4; 8; 8; 1; 4]%nat with
    (map fst (combine [4; 2; 4; 8; 8; 1; 4]%nat [VLOG_MAGIC; VLOG_FORMAT_VERSION; id; c; m; VLOG_COMPRESSION_NONE; 0])) at 1.
  rewrite dec_fields_enc. cbn [combine map fst snd].
  replace (256 ^ N.of_nat 4) with (2 ^ 32) by (symmetry; apply pow256_4).
  rewrite (N.mod_small VLOG_MAGIC) by assumption. rewrite (N.mod_small id) by assumption.
  rewrite !N.eqb_refl. reflexivity.
Qed.

Lemma nlen_zero : forall b : list byte, N.eqb (nlen b) 0 = true <-> b = [].
Proof.
  intros b. unfold nlen. rewrite N.eqb_eq. destruct b; cbn [length]; split; intros E; try reflexivity; try discriminate; lia.
Qed.

Lemma every_header_prefix_opens : forall empties, empties = true -> every_header_prefix_opens_stmt empties.
Proof.
  intros empties -> H id c m n Hid.
  destruct (vopen_params H) as [_ [Hs _]].
  pose proof (vheader_length H id c m) as Hl.
  assert (Hfull : forall c' m', hdr_accepts id (hdr_pad (vheader_bytes id c' m')) = true /\
                                vopen_file true id (vheader_bytes id c' m') = Some (vheader_bytes id c' m')).
  { intros c' m'. pose proof (header_accepted H id c' m' Hid) as Ha. split; [exact Ha|].
    unfold vopen_file. pose proof (vheader_length H id c' m') as Hl'.
    destruct (N.eqb (nlen (vheader_bytes id c' m')) 0) eqn:E0; [reflexivity|].
    replace (N.ltb (nlen (vheader_bytes id c' m')) VLOG_HEADER_SIZE) with false
      by (symmetry; apply N.ltb_ge; unfold nlen; rewrite Hl', Hs; lia).
    cbn [andb]. rewrite Ha. reflexivity. }
  destruct (Nat.le_gt_cases 31 n) as [Hge|Hlt].
  - (* the whole header *)
    rewrite firstn_all2 by lia. exists (vheader_bytes id c m). split; [apply Hfull|].
    intros c' m'. cbv zeta. unfold vwriter_open.
    replace (N.eqb (nlen (vheader_bytes id c m)) 0) with false
      by (symmetry; apply N.eqb_neq; unfold nlen; rewrite Hl; lia).
    apply Hfull.
  - (* nothing, or a torn header: the file is (left) empty and the writer writes the header *)
    exists []. split.
    + unfold vopen_file. destruct (N.eqb (nlen (firstn n (vheader_bytes id c m))) 0) eqn:E0.
      * apply nlen_zero in E0. rewrite E0. reflexivity.
      * replace (N.ltb (nlen (firstn n (vheader_bytes id c m))) VLOG_HEADER_SIZE) with true; [reflexivity|].
        symmetry. apply N.ltb_lt. unfold nlen. rewrite firstn_length, Hl, Hs. lia.
    + intros c' m'. cbv zeta. unfold vwriter_open. cbn [nlen length]. change (N.eqb (N.of_nat 0) 0) with true. cbv iota.
      apply Hfull.
Qed.

Lemma open_keeps_or_empties_torn : open_keeps_or_empties_torn_stmt.
Proof.
  intros empties id b b' H. unfold vopen_file in H.
  destruct (N.eqb (nlen b) 0) eqn:E0; [injection H as <-; left; reflexivity|].
  destruct (empties && N.ltb (nlen b) VLOG_HEADER_SIZE) eqn:E1.
  - apply andb_true_iff in E1. destruct E1 as [-> E1]. apply N.ltb_lt in E1. apply N.eqb_neq in E0.
    injection H as <-. right. repeat split; try assumption. lia.
  - destruct (hdr_accepts id (hdr_pad b)); [injection H as <-; left; reflexivity|discriminate].
Qed.

Lemma torn_header_refused_without_repair : torn_header_refused_without_repair_stmt.
Proof.
  exists 1, 0, 4096, 1%nat. split; [reflexivity|]. split; [vm_compute; lia|]. vm_compute. reflexivity.
Qed.
