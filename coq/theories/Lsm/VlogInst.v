(* Lsm/VlogInst.v — the value-log machine and codecs instantiated for the extracted driver:
   with the concrete CRC-32 (codec differential, mini-flush differential) and with the constant-0 checksum
   (state-machine conformance replays real pointers with their checksum field zeroed: the replay carries
   sizes, not the value bytes).  Definitions only. *)
From Coq Require Import List NArith Arith Bool.
From SKV Require Import Params Codec.VlogParams Base.Crc32 Codec.Wal Codec.VlogPtr Lsm.Vlog.
Import ListNotations.

Definition vlogi_crc (d : list byte) : N := crc32 d.
Definition vlogz_crc (d : list byte) : N := 0%N.

(* the run-time clean-up rule and the block-cache rule of VLog::get are the generated ones *)
Definition vlogi_step (cfg : vcfg) := vs_step vlogi_crc cfg VLOG_CLEANUP_CHECKS_READERS VLOG_CACHE_HIT_CHECKED.
Definition vlogz_step (cfg : vcfg) := vs_step vlogz_crc cfg VLOG_CLEANUP_CHECKS_READERS VLOG_CACHE_HIT_CHECKED.
Definition vlogi_resolve (cfg : vcfg) := vs_resolve vlogi_crc cfg VLOG_CACHE_HIT_CHECKED.
Definition vlogz_resolve (cfg : vcfg) := vs_resolve vlogz_crc cfg VLOG_CACHE_HIT_CHECKED.
Definition vlogi_append := vwriter_append vlogi_crc.
Definition vlogi_read := vlog_read vlogi_crc.
Definition vlogi_entry := ventry_bytes vlogi_crc.
Definition vlogi_vs_append := vs_append vlogi_crc.
Definition vlogi_vs_get (cfg : vcfg) := vs_get vlogi_crc cfg VLOG_CACHE_HIT_CHECKED.
(* VLog::get with an explicit rule: false = the code before the repair of F41 (regression runs of the driver) *)
Definition vlogi_vs_get_rule (cfg : vcfg) (hck : bool) := vs_get vlogi_crc cfg hck.
Definition vlogi_run (cfg : vcfg) := vs_run vlogi_crc cfg VLOG_CLEANUP_CHECKS_READERS VLOG_CACHE_HIT_CHECKED.
Definition vlogz_run (cfg : vcfg) := vs_run vlogz_crc cfg VLOG_CLEANUP_CHECKS_READERS VLOG_CACHE_HIT_CHECKED.
Definition vlogi_ds_step (cfg : vcfg) := ds_step vlogi_crc cfg VLOG_CLEANUP_CHECKS_READERS VLOG_CACHE_HIT_CHECKED.
