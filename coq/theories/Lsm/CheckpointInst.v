(* Lsm/CheckpointInst.v — the checkpoint / restore machine instantiated with the restore step list GENERATED from
   Tree::restore_from_checkpoint (Lsm/CheckpointParams.v), for the extracted driver and for Props/C14.v; and the
   facts about the sources that Lsm/Checkpoint.v builds in (one boolean).  Definitions only. *)
From Coq Require Import List NArith Bool.
From SKV Require Import Lsm.Checkpoint Lsm.CheckpointParams.
Import ListNotations.

Fixpoint steps_eqb (a b : list rstep) : bool :=
  match a, b with
  | [], [] => true
  | x :: r, y :: q => rstep_eqb x y && steps_eqb r q
  | _, _ => false
  end.

(* what the model takes from the text without a parameter:
   restore runs under lock_writes(), taken before anything else; DatabaseCheckpoint::restore_from_checkpoint empties the
   sstables / wal / manifest directories and copies the checkpoint's (RFiles); the WAL writer is opened with the RELOADED
   manifest's log number; the sequence number is max(reloaded last_sequence, replayed) and the same number goes to the
   oracle; set_seq_num does nothing for 0; create_checkpoint flushes every memtable FIRST, copies the tables of the
   in-memory manifest and the manifest directory, and creates an EMPTY wal directory *)
Definition ckpt_params_ok : bool :=
  CKPT_ANCHORS_OK && CKPT_LOCK_FIRST && CKPT_RESTORE_REPLACES_DIRS && CKPT_WAL_OPEN_USES_RELOADED_LOG_NUMBER &&
  CKPT_SEQ_IS_MAX_OF_RELOADED_MANIFEST_AND_REPLAY && CKPT_SEQ_SET_ONLY_POSITIVE &&
  CKPT_FLUSH_FIRST && CKPT_COPIES_LIVE_TABLES && negb CKPT_COPIES_WAL_SEGMENTS && CKPT_COPIES_MANIFEST_DIR &&
  steps_eqb CKPT_RESTORE_STEPS canon_steps.

Definition cki_step (bsz : nat) : kstate -> kop -> kstate * kout := kstep bsz CKPT_RESTORE_STEPS.
Definition cki_fill_all (bsz : nat) : kstate -> kstate := fill_all bsz CKPT_RESTORE_STEPS.
Definition cki_open_ckpt (bsz : nat) : ckpt -> list (N * ckpt) -> kstate := open_ckpt bsz.
Definition cki_init : kstate := kinit.
