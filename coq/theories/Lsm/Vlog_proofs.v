(* Lsm/Vlog_proofs.v — proofs of the statements of VlogSpec.v.

   The invariant (vinvG) is stated relative to a ghost map G : file id -> bytes, "what has ever been
   written to the file with that id": it agrees with every existing file, only grows by appending,
   and is kept for removed files (ids are never reused).  Every pointer of a live table, of the index
   and of an open reader's table set frames its value in G; live and index pointers moreover name an
   existing file; every block-cache entry frames its value in G and carries the checksum of that frame.
   Framing at one offset of one byte string is unique, which makes the cache coherent (and, under the
   checked rule of VLog::get, makes every hit for an issued pointer pass the test).

   Part D (damage, property C16) needs no invariant on the files: the only fact is cache_sound — every cache
   entry's checksum is the checksum of its value under some key — which vs_get itself maintains at level Full
   whatever the files hold. *)
From Coq Require Import List NArith Arith Bool Lia.
From SKV Require Import Params Codec.VlogParams Codec.Wal Codec.VlogPtr Codec.VlogPtrSpec Codec.VlogPtr_proofs Lsm.Vlog Lsm.VlogSpec.
Import ListNotations.
Local Open Scope N_scope.

Arguments N.add : simpl never.
Arguments N.sub : simpl never.
Arguments N.mul : simpl never.
Arguments N.div : simpl never.
Arguments N.modulo : simpl never.
Arguments N.pow : simpl never.
Arguments N.eqb : simpl never.
Arguments N.ltb : simpl never.
Arguments N.leb : simpl never.
Arguments N.of_nat : simpl never.
Arguments N.to_nat : simpl never.
Arguments N.min : simpl never.
Arguments N.max : simpl never.
Arguments N.succ : simpl never.

(* ------------------------------------------------------------------------------ lists *)
Lemma app_inv_length {A} : forall (a a' b b' : list A), a ++ b = a' ++ b' -> length a = length a' -> a = a' /\ b = b'.
Proof.
  induction a as [|x a IH]; intros a' b b' H L; destruct a' as [|y a']; cbn in L; try discriminate.
  - split; [reflexivity | exact H].
  - cbn in H. injection H as Hx H. destruct (IH a' b b' H) as [E1 E2]; [lia|]. subst. split; reflexivity.
Qed.

Lemma nodup_snoc {A} : forall (l : list A) x, NoDup l -> ~ In x l -> NoDup (l ++ [x]).
Proof.
  induction l as [|y l IH]; intros x Hn Hx; cbn [app].
  - constructor; [intros [] | constructor].
  - inversion Hn as [|? ? Hy Hl]; subst. constructor.
    + intros Hin. apply in_app_iff in Hin. destruct Hin as [Hin|[E|[]]]; [exact (Hy Hin) | subst; apply Hx; left; reflexivity].
    + apply IH; [exact Hl | intros Hin; apply Hx; right; exact Hin].
Qed.

Lemma NoDup_map_filter {A B} : forall (f : A -> B) (g : A -> bool) (l : list A), NoDup (map f l) -> NoDup (map f (filter g l)).
Proof.
  induction l as [|x l IH]; intros H; cbn [filter map] in *; [constructor|].
  inversion H as [|? ? Hx Hl]; subst. destruct (g x); [|apply IH; exact Hl].
  cbn [map]. constructor; [|apply IH; exact Hl].
  intros Hin. apply Hx. apply in_map_iff in Hin. destruct Hin as (y & E & Hy). apply filter_In in Hy.
  apply in_map_iff. exists y. split; [exact E | apply Hy].
Qed.

Lemma nlen_inj : forall a b : list byte, nlen a = nlen b -> length a = length b.
Proof. intros a b H. unfold nlen in H. apply Nnat.Nat2N.inj in H. exact H. Qed.

Lemma list_eqb_eq : forall a b : list byte, list_eqb a b = true -> a = b.
Proof.
  induction a as [|x a IH]; intros [|y b] H; cbn in H; try discriminate; [reflexivity|].
  apply andb_true_iff in H. destruct H as [H1 H2]. apply N.eqb_eq in H1. rewrite (IH b H2), H1. reflexivity.
Qed.

(* ------------------------------------------------------------------------------ classification *)
Lemma pointer_of_classify : forall enc p, vloc_pointer_of enc = Some p <-> venc_classify enc = EPtr p.
Proof.
  intros enc p. unfold vloc_pointer_of, venc_classify.
  destruct (vloc_decode enc) as [l|]; [|split; discriminate].
  destruct (vloc_is_pointer l); [|split; discriminate].
  destruct (vpointer_decode (vlc_value l)) as [q|]; split; intros H; try discriminate; injection H as H; subst; reflexivity.
Qed.

Lemma classify_nil : venc_classify [] = EBad.
Proof. reflexivity. Qed.

Lemma classify_inline : vlog_params_ok = true -> forall v, venc_classify (vloc_encode (vloc_inline v)) = EInline v.
Proof.
  intros H v. unfold venc_classify. destruct (vloc_inline_roundtrip H v) as [E _]. rewrite E.
  unfold vloc_is_pointer, vloc_inline. cbn [vlc_meta vlc_value]. rewrite N.land_0_l. reflexivity.
Qed.

Lemma classify_pointer : vlog_params_ok = true -> forall p, vpointer_in_range p = true ->
  venc_classify (vloc_encode (vloc_with_pointer p)) = EPtr p.
Proof. intros H p Hr. apply pointer_of_classify. apply (vloc_pointer_roundtrip H p Hr). Qed.

(* ------------------------------------------------------------------------------ oldest ids, the minimum, the clean-up rule *)
Lemma track_min_none : forall l acc, fold_left track_min l acc = None ->
  acc = None /\ forall enc, In enc l -> vloc_pointer_of enc = None.
Proof.
  induction l as [|x l IH]; intros acc H; cbn [fold_left] in H.
  - split; [exact H | intros enc []].
  - destruct (IH _ H) as [Ha Hl]. unfold track_min in Ha.
    destruct (vloc_pointer_of x) as [p|] eqn:Ex; [discriminate|].
    split; [exact Ha|]. intros enc [E|Hin]; [subst; exact Ex | apply Hl; exact Hin].
Qed.

Lemma track_min_some : forall l acc m, fold_left track_min l acc = Some m ->
  (forall a, acc = Some a -> m <= a) /\
  (forall enc p, In enc l -> vloc_pointer_of enc = Some p -> m <= vpt_file p) /\
  (acc = Some m \/ exists enc p, In enc l /\ vloc_pointer_of enc = Some p /\ vpt_file p = m).
Proof.
  induction l as [|x l IH]; intros acc m H; cbn [fold_left] in H.
  - subst acc. split; [intros a E; injection E as E; subst; lia|]. split; [intros enc p []|]. left; reflexivity.
  - destruct (IH _ _ H) as (I1 & I2 & I3). unfold track_min in I1, I3.
    destruct (vloc_pointer_of x) as [q|] eqn:Ex.
    + destruct acc as [a0|].
      * specialize (I1 _ eq_refl).
        split; [intros a E; injection E as E; subst; lia|].
        split; [intros enc p [E|Hin] Hp; [subst; rewrite Ex in Hp; injection Hp as Hp; subst; lia | apply (I2 enc p Hin Hp)]|].
        destruct I3 as [E|(enc & p & Hin & Hp & Hf)].
        -- injection E as E. destruct (N.min_spec a0 (vpt_file q)) as [[_ Em]|[_ Em]]; rewrite Em in E.
           ++ left. subst. reflexivity.
           ++ right. exists x, q. split; [left; reflexivity|]. split; [exact Ex | exact E].
        -- right. exists enc, p. split; [right; exact Hin | split; assumption].
      * specialize (I1 _ eq_refl).
        split; [intros a E; discriminate|].
        split; [intros enc p [E|Hin] Hp; [subst; rewrite Ex in Hp; injection Hp as Hp; subst; lia | apply (I2 enc p Hin Hp)]|].
        right. destruct I3 as [E|(enc & p & Hin & Hp & Hf)].
        -- injection E as E. exists x, q. split; [left; reflexivity|]. split; [exact Ex | exact E].
        -- exists enc, p. split; [right; exact Hin | split; assumption].
    + split; [exact I1|].
      split; [intros enc p [E|Hin] Hp; [subst; rewrite Ex in Hp; discriminate | apply (I2 enc p Hin Hp)]|].
      destruct I3 as [E|(enc & p & Hin & Hp & Hf)]; [left; exact E|].
      right. exists enc, p. split; [right; exact Hin | split; assumption].
Qed.

Lemma table_oldest_spec : forall es e p, In e es -> vloc_pointer_of (te_enc e) = Some p ->
  table_oldest es <= vpt_file p /\
  exists e' p', In e' es /\ vloc_pointer_of (te_enc e') = Some p' /\ vpt_file p' = table_oldest es.
Proof.
  intros es e p Hin Hp. unfold table_oldest.
  destruct (fold_left track_min (map te_enc es) None) as [m|] eqn:F.
  - destruct (track_min_some _ _ _ F) as (_ & I2 & I3).
    split; [apply (I2 (te_enc e) p); [apply in_map; exact Hin | exact Hp]|].
    destruct I3 as [E|(enc & q & Hi & Hq & Hf)]; [discriminate|].
    apply in_map_iff in Hi. destruct Hi as (e' & Ee & Hi'). subst enc. exists e', q. repeat split; assumption.
  - destruct (track_min_none _ _ F) as [_ Hn]. rewrite (Hn (te_enc e)) in Hp; [discriminate | apply in_map; exact Hin].
Qed.

Lemma min_step_none : forall ts acc, fold_left min_step ts acc = None ->
  acc = None /\ forall t, In t ts -> N.ltb VLOG_NO_REF (tb_oldest t) = false.
Proof.
  induction ts as [|x ts IH]; intros acc H; cbn [fold_left] in H.
  - split; [exact H | intros t []].
  - destruct (IH _ H) as [Ha Hl]. unfold min_step in Ha.
    destruct (N.ltb VLOG_NO_REF (tb_oldest x)) eqn:Ex; [discriminate|].
    split; [exact Ha|]. intros t [E|Hin]; [subst; exact Ex | apply Hl; exact Hin].
Qed.

Lemma min_step_some : forall ts acc m, fold_left min_step ts acc = Some m ->
  (forall a, acc = Some a -> m <= a) /\
  (forall t, In t ts -> N.ltb VLOG_NO_REF (tb_oldest t) = true -> m <= tb_oldest t).
Proof.
  induction ts as [|x ts IH]; intros acc m H; cbn [fold_left] in H.
  - subst acc. split; [intros a E; injection E as E; subst; lia | intros t []].
  - destruct (IH _ _ H) as (I1 & I2). unfold min_step in I1.
    destruct (N.ltb VLOG_NO_REF (tb_oldest x)) eqn:Ex.
    + destruct acc as [a0|]; specialize (I1 _ eq_refl).
      * split; [intros a E; injection E as E; subst; lia|].
        intros t [E|Hin] Ht; [subst; lia | apply (I2 t Hin Ht)].
      * split; [intros a E; discriminate|].
        intros t [E|Hin] Ht; [subst; lia | apply (I2 t Hin Ht)].
    + split; [exact I1|]. intros t [E|Hin] Ht; [subst; rewrite Ex in Ht; discriminate | apply (I2 t Hin Ht)].
Qed.

Lemma min_oldest_le : forall ts t, In t ts -> VLOG_NO_REF < tb_oldest t -> min_oldest ts <= tb_oldest t.
Proof.
  intros ts t Hin Ht. apply N.ltb_lt in Ht. unfold min_oldest.
  destruct (fold_left min_step ts None) as [m|] eqn:F.
  - destruct (min_step_some _ _ _ F) as [_ I2]. apply (I2 t Hin Ht).
  - destruct (min_step_none _ _ F) as [_ Hn]. rewrite (Hn t Hin) in Ht. discriminate.
Qed.

Lemma cleanup_files_subset : forall st f, In f (vs_files (vs_cleanup st)) -> In f (vs_files st).
Proof.
  intros st f H. unfold vs_cleanup in H. destruct (N.eqb (min_oldest (vs_tables st)) VLOG_NO_REF); [exact H|].
  cbn [set_files vs_files] in H. apply filter_In in H. apply H.
Qed.
Lemma cleanup_index_subset : forall st e, In e (vs_index (vs_cleanup st)) -> In e (vs_index st).
Proof.
  intros st e H. unfold vs_cleanup in H. destruct (N.eqb (min_oldest (vs_tables st)) VLOG_NO_REF); [exact H|].
  cbn [set_files set_index vs_index] in H. apply filter_In in H. apply H.
Qed.
Lemma cleanup_same : forall st,
  vs_active (vs_cleanup st) = vs_active st /\ vs_next (vs_cleanup st) = vs_next st /\
  vs_tables (vs_cleanup st) = vs_tables st /\ vs_cache (vs_cleanup st) = vs_cache st /\
  vs_readers (vs_cleanup st) = vs_readers st.
Proof.
  intros st. unfold vs_cleanup. destruct (N.eqb (min_oldest (vs_tables st)) VLOG_NO_REF); repeat split; reflexivity.
Qed.
Lemma cleanup_keeps_active : forall st f, In f (vs_files st) -> vf_id f = vs_active st -> In f (vs_files (vs_cleanup st)).
Proof.
  intros st f Hin Ha. unfold vs_cleanup. destruct (N.eqb (min_oldest (vs_tables st)) VLOG_NO_REF); [exact Hin|].
  cbn [set_files vs_files]. apply filter_In. split; [exact Hin|].
  unfold file_obsolete. rewrite Ha, N.eqb_refl. cbn [negb]. rewrite andb_false_r. reflexivity.
Qed.
Lemma cleanup_keeps_ge : forall st f, In f (vs_files st) -> min_oldest (vs_tables st) <= vf_id f -> In f (vs_files (vs_cleanup st)).
Proof.
  intros st f Hin Hge. unfold vs_cleanup. destruct (N.eqb (min_oldest (vs_tables st)) VLOG_NO_REF); [exact Hin|].
  cbn [set_files vs_files]. apply filter_In. split; [exact Hin|].
  unfold file_obsolete, VLOG_CLEANUP_CMP. destruct (N.ltb_spec (vf_id f) (min_oldest (vs_tables st))) as [Hlt|_]; [lia | reflexivity].
Qed.

Lemma cleanup_keeps_live_files : cleanup_keeps_live_files_stmt.
Proof.
  intros st t e p f Ht Hrec Hpos He Hp Hf Hid.
  destruct (table_oldest_spec _ _ _ He Hp) as [Hle (e' & p' & He' & Hp' & Hat)].
  apply cleanup_keeps_ge; [exact Hf|].
  assert (Hgt : VLOG_NO_REF < tb_oldest t) by (rewrite Hrec, <- Hat; apply (Hpos e' p' He' Hp')).
  pose proof (min_oldest_le _ _ Ht Hgt) as Hm. rewrite Hrec in Hm. rewrite Hid. lia.
Qed.

Lemma cleanup_index_consistent : cleanup_index_consistent_stmt.
Proof.
  intros st e p f He Hp Hf Hid. unfold vs_cleanup in *.
  destruct (N.eqb (min_oldest (vs_tables st)) VLOG_NO_REF); [exact Hf|].
  cbn [set_files set_index vs_index vs_files] in *. apply filter_In in He. destruct He as [_ Hs].
  apply filter_In. split; [exact Hf|].
  unfold entry_stale in Hs. rewrite Hp in Hs. unfold VLOG_INDEX_PRUNE_CMP in Hs.
  unfold file_obsolete, VLOG_CLEANUP_CMP. rewrite Hid. apply negb_true_iff in Hs. rewrite Hs. reflexivity.
Qed.

Section Proofs.
Variable crc : list byte -> N.
Variable cfg : vcfg.
Variable chk : bool.
Variable hck : bool.
Hypothesis POK : vlog_params_ok = true.

(* ------------------------------------------------------------------------------ framing *)
Definition framed (bytes : list byte) (o : N) (k v : list byte) : Prop :=
  exists pre post, bytes = pre ++ ventry_bytes crc k v ++ post /\ nlen pre = o /\ entry_fits k v.
Definition pframed (bytes : list byte) (p : vpointer) (v : list byte) : Prop :=
  exists k, framed bytes (vpt_offset p) k v /\ vpt_ksize p = nlen k /\ vpt_vsize p = nlen v /\ vpt_crc p = crc32u crc (k ++ v).

Lemma framed_app : forall bytes more o k v, framed bytes o k v -> framed (bytes ++ more) o k v.
Proof.
  intros bytes more o k v (pre & post & E & L & F). exists pre, (post ++ more). split; [|split; assumption].
  rewrite E, <- !app_assoc. reflexivity.
Qed.
Lemma pframed_app : forall bytes more p v, pframed bytes p v -> pframed (bytes ++ more) p v.
Proof. intros bytes more p v (k & F & R). exists k. split; [apply framed_app; exact F | exact R]. Qed.

Lemma vlog_read_fields : forall level f p q,
  vpt_offset p = vpt_offset q -> vpt_ksize p = vpt_ksize q -> vpt_vsize p = vpt_vsize q -> vpt_crc p = vpt_crc q ->
  vlog_read crc level f p = vlog_read crc level f q.
Proof. intros level f p q H1 H2 H3 H4. unfold vlog_read. rewrite H1, H2, H3, H4. reflexivity. Qed.

Lemma pframed_read : forall level bytes p v, pframed bytes p v -> vlog_read crc level bytes p = Some v.
Proof.
  intros level bytes p v (k & (pre & post & E & L & F) & Hk & Hv & Hc).
  pose proof (append_get POK crc level (vpt_file p) pre post k v F) as A.
  unfold vwriter_append in A. cbn [fst snd] in A.
  rewrite <- app_assoc in A. rewrite <- E in A. rewrite <- A.
  destruct F as [Fk Fv].
  apply vlog_read_fields; cbn [vpt_offset vpt_ksize vpt_vsize vpt_crc].
  - symmetry. exact L.
  - rewrite (fits_mod _ _ Fk). exact Hk.
  - rewrite (fits_mod _ _ Fv). exact Hv.
  - exact Hc.
Qed.

Lemma be_enc_inj_fits : forall n x y, fits n x = true -> fits n y = true -> be_enc n x = be_enc n y -> x = y.
Proof.
  intros n x y Hx Hy E. apply (f_equal be_dec) in E. rewrite !be_roundtrip in E.
  rewrite (fits_mod _ _ Hx), (fits_mod _ _ Hy) in E. exact E.
Qed.

Lemma framed_unique : forall bytes o k v k' v', framed bytes o k v -> framed bytes o k' v' -> k = k' /\ v = v'.
Proof.
  intros bytes o k v k' v' (pre & post & E & L & [Fk Fv]) (pre' & post' & E' & L' & [Fk' Fv']).
  rewrite E in E'. assert (Lp : length pre = length pre') by (apply nlen_inj; congruence).
  destruct (app_inv_length _ _ _ _ E' Lp) as [_ E2]. clear E E' L L' Lp.
  unfold ventry_bytes in E2. rewrite <- !app_assoc in E2.
  destruct (app_inv_length _ _ _ _ E2) as [A1 E3]; [rewrite !be_enc_length; reflexivity|].
  apply (be_enc_inj_fits _ _ _ Fk Fk') in A1.
  destruct (app_inv_length _ _ _ _ E3) as [A2 E4]; [rewrite !be_enc_length; reflexivity|].
  apply (be_enc_inj_fits _ _ _ Fv Fv') in A2.
  destruct (app_inv_length _ _ _ _ E4 (nlen_inj _ _ A1)) as [Ek E5].
  destruct (app_inv_length _ _ _ _ E5 (nlen_inj _ _ A2)) as [Ev _].
  split; assumption.
Qed.

Lemma pframed_framed_value : forall bytes p v k' v', pframed bytes p v -> framed bytes (vpt_offset p) k' v' -> v' = v.
Proof.
  intros bytes p v k' v' (k & F & _) F'. destruct (framed_unique _ _ _ _ _ _ F F') as [_ E]. symmetry. exact E.
Qed.

(* ------------------------------------------------------------------------------ the invariant *)
Definition has_file (st : vstate) (i : N) : Prop := exists f, In f (vs_files st) /\ vf_id f = i.
Definition pin (G : N -> list byte) (a : N) (p : vpointer) (v : list byte) : Prop :=
  vpt_file p <= a /\ pframed (G (vpt_file p)) p v.
Definition live_ptr (G : N -> list byte) (st : vstate) (p : vpointer) (v : list byte) : Prop :=
  pin G (vs_active st) p v /\ has_file st (vpt_file p).
(* a pointer held by an open reader: when the run-time clean-up tests for readers, its file exists as well *)
Definition rptr (G : N -> list byte) (st : vstate) (p : vpointer) (v : list byte) : Prop :=
  pin G (vs_active st) p v /\ (chk = true -> has_file st (vpt_file p)).
Definition entry_good (P : vpointer -> list byte -> Prop) (e : tentry) : Prop :=
  match te_orig e with
  | None => te_enc e = []
  | Some v => match venc_classify (te_enc e) with EInline v' => v' = v | EPtr p => P p v | EBad => False end
  end.
Definition gext (a : N) (G G' : N -> list byte) : Prop := forall i, i <= a -> exists more, G' i = G i ++ more.

Record finv (G : N -> list byte) (st : vstate) : Prop := {
  i_next : vs_next st = N.succ (vs_active st);
  i_nodup : NoDup (map vf_id (vs_files st));
  i_range : forall f, In f (vs_files st) -> 1 <= vf_id f /\ vf_id f <= vs_active st;
  i_active : vs_active st <> 0 -> has_file st (vs_active st);
  i_agree : forall f, In f (vs_files st) -> G (vf_id f) = vf_bytes f }.
Record dinv (G : N -> list byte) (st : vstate) : Prop := {
  i_tables : forall t, In t (vs_tables st) ->
             tb_oldest t = table_oldest (tb_entries t) /\ forall e, In e (tb_entries t) -> entry_good (live_ptr G st) e;
  i_index : forall e, In e (vs_index st) -> entry_good (live_ptr G st) e;
  i_readers : forall rid ts t e, In (rid, ts) (vs_readers st) -> In t ts -> In e (tb_entries t) -> entry_good (rptr G st) e;
  i_cache : forall f o c v, In ((f, o), (c, v)) (vs_cache st) ->
            f <= vs_active st /\ exists k, framed (G f) o k v /\ c = crc32u crc (k ++ v) }.
Definition vinvG (G : N -> list byte) (st : vstate) : Prop := finv G st /\ dinv G st.

Lemma entry_good_mono : forall (P Q : vpointer -> list byte -> Prop) e,
  (forall p v, P p v -> Q p v) -> entry_good P e -> entry_good Q e.
Proof.
  intros P Q e H. unfold entry_good. destruct (te_orig e); [|exact (fun x => x)].
  destruct (venc_classify (te_enc e)); try exact (fun x => x). apply H.
Qed.

Lemma gext_refl : forall a G, gext a G G.
Proof. intros a G i _. exists []. rewrite app_nil_r. reflexivity. Qed.
Lemma gext_trans : forall a b G1 G2 G3, a <= b -> gext a G1 G2 -> gext b G2 G3 -> gext a G1 G3.
Proof.
  intros a b G1 G2 G3 Hab H12 H23 i Hi. destruct (H12 i Hi) as [m1 E1]. destruct (H23 i) as [m2 E2]; [lia|].
  exists (m1 ++ m2). rewrite E2, E1, app_assoc. reflexivity.
Qed.

Definition fresh (st st' : vstate) : Prop :=
  vs_next st <= vs_next st' /\ forall f', In f' (vs_files st') -> has_file st (vf_id f') \/ vs_next st <= vf_id f'.
Lemma fresh_refl : forall st, fresh st st.
Proof. intros st. split; [lia|]. intros f' Hin. left. exists f'. split; [exact Hin | reflexivity]. Qed.
Lemma fresh_trans : forall st1 st2 st3, fresh st1 st2 -> fresh st2 st3 -> fresh st1 st3.
Proof.
  intros st1 st2 st3 [N1 H1] [N2 H2]. split; [lia|]. intros f' Hin.
  destruct (H2 f' Hin) as [(f2 & Hin2 & Hid)|Hge]; [|right; lia].
  rewrite <- Hid. apply H1. exact Hin2.
Qed.

Lemma fresh_same : forall st st', vs_files st' = vs_files st -> vs_next st' = vs_next st -> fresh st st'.
Proof.
  intros st st' Ef En. split; [rewrite En; lia|]. intros f' Hin. left. exists f'. rewrite <- Ef. split; [exact Hin | reflexivity].
Qed.

Lemma pin_ext : forall G G' a a' p v, gext a G G' -> a <= a' -> pin G a p v -> pin G' a' p v.
Proof.
  intros G G' a a' p v Hg Ha [Hf Hp]. split; [lia|]. destruct (Hg _ Hf) as [more E]. rewrite E. apply pframed_app. exact Hp.
Qed.

(* data part of the invariant under a change of the files only *)
Lemma dinv_transfer : forall G G' st st',
  dinv G st -> gext (vs_active st) G G' -> vs_active st <= vs_active st' ->
  (forall i, has_file st i -> has_file st' i) ->
  vs_tables st' = vs_tables st -> vs_index st' = vs_index st -> vs_cache st' = vs_cache st -> vs_readers st' = vs_readers st ->
  dinv G' st'.
Proof.
  intros G G' st st' [Dt Di Dr Dc] Hg Ha Hh Et Ei Ec Er.
  assert (L : forall p v, live_ptr G st p v -> live_ptr G' st' p v).
  { intros p v [Hp Hf]. split; [apply (pin_ext _ _ _ _ _ _ Hg Ha Hp) | apply Hh; exact Hf]. }
  split.
  - rewrite Et. intros t Ht. destruct (Dt t Ht) as [Ho He]. split; [exact Ho|].
    intros e Hin. apply (entry_good_mono _ _ _ L). apply He. exact Hin.
  - rewrite Ei. intros e Hin. apply (entry_good_mono _ _ _ L). apply Di. exact Hin.
  - rewrite Er. intros rid ts t e H1 H2 H3. apply (entry_good_mono (rptr G st)); [|apply (Dr rid ts t e H1 H2 H3)].
    intros p v [Hp Hcf]. split; [apply (pin_ext _ _ _ _ _ _ Hg Ha Hp) | intros Ek; apply Hh; apply Hcf; exact Ek].
  - rewrite Ec. intros f o c v Hin. destruct (Dc f o c v Hin) as [Hf [k [Hk Hc]]]. split; [lia|].
    destruct (Hg _ Hf) as [more E]. exists k. split; [rewrite E; apply framed_app; exact Hk | exact Hc].
Qed.

(* ------------------------------------------------------------------------------ file list helpers *)
Lemma in_update_file : forall id g fs f', In f' (update_file id g fs) <->
  exists f, In f fs /\ f' = (if N.eqb (vf_id f) id then g f else f).
Proof.
  intros id g fs f'. unfold update_file. rewrite in_map_iff. split; intros (f & A & B); exists f; split; auto.
Qed.
Lemma update_file_ids : forall id g fs, (forall f, vf_id (g f) = vf_id f) -> map vf_id (update_file id g fs) = map vf_id fs.
Proof.
  intros id g fs Hg. unfold update_file. rewrite map_map. apply map_ext. intros f. destruct (N.eqb (vf_id f) id); [apply Hg | reflexivity].
Qed.
Lemma find_file_some : forall id fs f, find_file id fs = Some f -> In f fs /\ vf_id f = id.
Proof. intros id fs f H. unfold find_file in H. apply find_some in H. destruct H as [H1 H2]. apply N.eqb_eq in H2. split; assumption. Qed.
Lemma find_file_has : forall id fs f, In f fs -> vf_id f = id -> exists f', find_file id fs = Some f'.
Proof.
  intros id fs f Hin Hid. unfold find_file. destruct (find (fun f0 => N.eqb (vf_id f0) id) fs) as [f'|] eqn:F; [exists f'; reflexivity|].
  exfalso. pose proof (find_none _ _ F f Hin) as H. cbn in H. rewrite Hid, N.eqb_refl in H. discriminate.
Qed.

(* a change that keeps ids and bytes of every file (fsync marks) keeps the invariant *)
Lemma vinv_marks : forall G st id g,
  (forall f, vf_id (g f) = vf_id f /\ vf_bytes (g f) = vf_bytes f) ->
  vinvG G st -> vinvG G (set_files st (update_file id g (vs_files st))).
Proof.
  intros G st id g Hg [[F1 F2 F3 F4 F5] D].
  assert (Hh : forall i, has_file st i -> has_file (set_files st (update_file id g (vs_files st))) i).
  { intros i (f & Hin & Hid). exists (if N.eqb (vf_id f) id then g f else f). split.
    - cbn [set_files vs_files]. apply in_update_file. exists f. split; [exact Hin | reflexivity].
    - destruct (N.eqb (vf_id f) id); [rewrite (proj1 (Hg f)); exact Hid | exact Hid]. }
  split.
  - split; cbn [set_files vs_files vs_active vs_next].
    + exact F1.
    + rewrite update_file_ids; [exact F2 | intros f; apply Hg].
    + intros f' Hin. apply in_update_file in Hin. destruct Hin as (f & Hin & E). subst f'.
      destruct (N.eqb (vf_id f) id); [rewrite (proj1 (Hg f))|]; apply F3; exact Hin.
    + intros Ha. apply Hh. apply F4. exact Ha.
    + intros f' Hin. apply in_update_file in Hin. destruct Hin as (f & Hin & E). subst f'.
      destruct (N.eqb (vf_id f) id); [rewrite (proj1 (Hg f)), (proj2 (Hg f))|]; apply F5; exact Hin.
  - apply (dinv_transfer G G st); [exact D | apply gext_refl | cbn; lia | exact Hh | reflexivity ..].
Qed.

(* ------------------------------------------------------------------------------ VLog::append *)
Definition upd (G : N -> list byte) (i : N) (b : list byte) : N -> list byte := fun j => if N.eqb j i then b else G j.

Lemma vinv_rotate : forall G st now, vinvG G st ->
  exists G', vinvG G' (vs_rotate cfg now st) /\ gext (vs_active st) G G' /\ vs_active st <= vs_active (vs_rotate cfg now st) /\
             (forall i, has_file st i -> has_file (vs_rotate cfg now st) i) /\ fresh st (vs_rotate cfg now st).
Proof.
  intros G st now [[F1 F2 F3 F4 F5] D].
  set (hb := vheader_bytes (vs_next st) now (cf_max cfg)).
  exists (upd G (vs_next st) hb).
  assert (Hg : gext (vs_active st) G (upd G (vs_next st) hb)).
  { intros i Hi. exists []. unfold upd. destruct (N.eqb_spec i (vs_next st)) as [E|_]; [rewrite F1 in E; lia | rewrite app_nil_r; reflexivity]. }
  assert (Ha : vs_active st <= vs_active (vs_rotate cfg now st)) by (cbn [vs_rotate vs_active]; rewrite F1; lia).
  assert (Hfs : forall f', In f' (vs_files (vs_rotate cfg now st)) <->
                 (exists f, In f (vs_files st) /\ f' = (if N.eqb (vf_id f) (vs_active st) then mark_synced f else f)) \/
                 f' = {| vf_id := vs_next st; vf_bytes := hb; vf_synced := false |}).
  { intros f'. cbn [vs_rotate vs_files]. unfold VLOG_ROTATE_SYNCS_OLD. rewrite in_app_iff, in_update_file. cbn [In].
    split; (intros [H|H]; [left; exact H|]).
    - destruct H as [H|[]]. right. symmetry. exact H.
    - right. left. symmetry. exact H. }
  assert (Hh : forall i, has_file st i -> has_file (vs_rotate cfg now st) i).
  { intros i (f & Hin & Hid). exists (if N.eqb (vf_id f) (vs_active st) then mark_synced f else f). split.
    - apply Hfs. left. exists f. split; [exact Hin | reflexivity].
    - destruct (N.eqb (vf_id f) (vs_active st)); exact Hid. }
  assert (Hfr : fresh st (vs_rotate cfg now st)).
  { split; [cbn [vs_rotate vs_next]; lia|]. intros f' Hin. apply Hfs in Hin. destruct Hin as [(f & Hin & E)|E]; subst f'.
    - left. exists f. split; [exact Hin|]. destruct (N.eqb (vf_id f) (vs_active st)); reflexivity.
    - right. cbn [vf_id]. lia. }
  split; [|split; [exact Hg | split; [exact Ha | split; [exact Hh | exact Hfr]]]].
  split.
  - split.
    + cbn [vs_rotate vs_next vs_active]. reflexivity.
    + cbn [vs_rotate vs_files]. unfold VLOG_ROTATE_SYNCS_OLD. rewrite map_app, update_file_ids by reflexivity. cbn [map vf_id].
      apply nodup_snoc; [exact F2|]. intros Hin. apply in_map_iff in Hin. destruct Hin as (f & E & Hin).
      destruct (F3 f Hin) as [_ Hle]. rewrite F1 in E. lia.
    + intros f' Hin. apply Hfs in Hin. cbn [vs_rotate vs_active]. destruct Hin as [(f & Hin & E)|E]; subst f'.
      * destruct (F3 f Hin) as [H1 H2]. rewrite F1. destruct (N.eqb (vf_id f) (vs_active st)); cbn [mark_synced vf_id]; lia.
      * cbn [vf_id]. rewrite F1. lia.
    + intros _. cbn [vs_rotate vs_active]. exists {| vf_id := vs_next st; vf_bytes := hb; vf_synced := false |}.
      split; [apply Hfs; right; reflexivity | reflexivity].
    + intros f' Hin. apply Hfs in Hin. destruct Hin as [(f & Hin & E)|E]; subst f'.
      * assert (Hne : N.eqb (vf_id f) (vs_next st) = false) by (apply N.eqb_neq; destruct (F3 f Hin); rewrite F1; lia).
        unfold upd. destruct (N.eqb (vf_id f) (vs_active st)); cbn [mark_synced vf_id vf_bytes]; rewrite Hne; apply F5; exact Hin.
      * cbn [vf_id vf_bytes]. unfold upd. rewrite N.eqb_refl. reflexivity.
  - apply (dinv_transfer G _ st); [exact D | exact Hg | exact Ha | exact Hh | reflexivity ..].
Qed.

Lemma vinv_append : forall G st now k v st' p, vinvG G st -> vs_append crc cfg now st k v = Some (st', p) ->
  exists G', vinvG G' st' /\ gext (vs_active st) G G' /\ vs_active st <= vs_active st' /\
    (forall i, has_file st i -> has_file st' i) /\ live_ptr G' st' p v /\ vpointer_in_range p = true /\
    vs_tables st' = vs_tables st /\ vs_index st' = vs_index st /\ vs_cache st' = vs_cache st /\ vs_readers st' = vs_readers st /\
    fresh st st'.
Proof.
  intros G st now k v st' p Hinv H. unfold vs_append in H.
  set (st1 := if vs_rotate_needed cfg st then vs_rotate cfg now st else st) in *.
  assert (S1 : exists G1, vinvG G1 st1 /\ gext (vs_active st) G G1 /\ vs_active st <= vs_active st1 /\
                 (forall i, has_file st i -> has_file st1 i) /\
                 vs_tables st1 = vs_tables st /\ vs_index st1 = vs_index st /\ vs_cache st1 = vs_cache st /\ vs_readers st1 = vs_readers st /\
                 fresh st st1).
  { unfold st1. destruct (vs_rotate_needed cfg st).
    - destruct (vinv_rotate G st now Hinv) as (G1 & I1 & I2 & I3 & I4 & I5). exists G1.
      split; [exact I1|]. split; [exact I2|]. split; [exact I3|]. split; [exact I4|].
      split; [reflexivity|]. split; [reflexivity|]. split; [reflexivity|]. split; [reflexivity | exact I5].
    - exists G. split; [exact Hinv|]. split; [apply gext_refl|]. split; [lia|]. split; [auto|].
      split; [reflexivity|]. split; [reflexivity|]. split; [reflexivity|]. split; [reflexivity | apply fresh_refl]. }
  destruct S1 as (G1 & [[F1 F2 F3 F4 F5] D1] & Hg1 & Ha1 & Hh1 & Et & Ei & Ec & Er & Hfr1).
  destruct (find_file (vs_active st1) (vs_files st1)) as [f|] eqn:Ff; [|discriminate].
  destruct (find_file_some _ _ _ Ff) as [Hfin Hfid].
  destruct (fits ELF (nlen k) && fits ELF (nlen v) && vpointer_in_range (snd (vwriter_append crc (vs_active st1) (vf_bytes f) k v))) eqn:Ck; [|discriminate].
  apply andb_true_iff in Ck. destruct Ck as [Ck Hrange]. apply andb_true_iff in Ck. destruct Ck as [Fk Fv].
  injection H as Hst Hp. subst p.
  set (a := vs_active st1) in *.
  set (b' := vf_bytes f ++ ventry_bytes crc k v).
  set (g := fun f0 : vfile => {| vf_id := vf_id f0; vf_bytes := fst (vwriter_append crc a (vf_bytes f) k v); vf_synced := false |}) in *.
  assert (Eb : fst (vwriter_append crc a (vf_bytes f) k v) = b') by reflexivity.
  set (G' := upd G1 a b').
  assert (Hfs : forall f', In f' (vs_files st') <-> exists f0, In f0 (vs_files st1) /\ f' = (if N.eqb (vf_id f0) a then g f0 else f0)).
  { intros f'. rewrite <- Hst. cbn [set_files vs_files]. apply in_update_file. }
  assert (Hact : vs_active st' = a) by (rewrite <- Hst; reflexivity).
  assert (Hh : forall i, has_file st1 i -> has_file st' i).
  { intros i (f0 & Hin & Hid). exists (if N.eqb (vf_id f0) a then g f0 else f0). split.
    - apply Hfs. exists f0. split; [exact Hin | reflexivity].
    - destruct (N.eqb (vf_id f0) a); exact Hid. }
  assert (Hg : gext a G1 G').
  { intros i Hi. unfold G', upd. destruct (N.eqb_spec i a) as [E|_].
    - subst i. exists (ventry_bytes crc k v). unfold b'. rewrite <- Hfid, (F5 f Hfin). reflexivity.
    - exists []. rewrite app_nil_r. reflexivity. }
  assert (Hfr : fresh st st').
  { apply (fresh_trans st st1 st'); [exact Hfr1|]. split; [rewrite <- Hst; cbn [set_files vs_next]; lia|].
    intros f' Hin. apply Hfs in Hin. destruct Hin as (f0 & Hin & E). left. exists f0. split; [exact Hin|].
    subst f'. destruct (N.eqb (vf_id f0) a); reflexivity. }
  exists G'. split; [|split; [|split; [|split; [|split; [|split]]]]].
  - split.
    + split.
      * rewrite <- Hst. cbn [set_files vs_next vs_active]. exact F1.
      * rewrite <- Hst. cbn [set_files vs_files]. rewrite update_file_ids by reflexivity. exact F2.
      * intros f' Hin. apply Hfs in Hin. destruct Hin as (f0 & Hin & E). subst f'. rewrite Hact.
        destruct (N.eqb (vf_id f0) a); cbn [g vf_id]; apply F3; exact Hin.
      * intros Hne. rewrite Hact in *. apply Hh. apply F4. exact Hne.
      * intros f' Hin. apply Hfs in Hin. destruct Hin as (f0 & Hin & E). subst f'.
        unfold G', upd. destruct (N.eqb (vf_id f0) a) eqn:Ea.
        -- cbn [g vf_id vf_bytes]. rewrite Ea. exact (eq_sym Eb).
        -- rewrite Ea. apply F5. exact Hin.
    + apply (dinv_transfer G1 G' st1); [exact D1 | exact Hg | rewrite Hact; unfold a; lia | exact Hh | rewrite <- Hst; reflexivity ..].
  - apply (gext_trans _ a G G1 G'); [exact Ha1 | exact Hg1 | exact Hg].
  - rewrite Hact. exact Ha1.
  - intros i Hi. apply Hh. apply Hh1. exact Hi.
  - split.
    + split; [cbn [vwriter_append snd vpt_file]; rewrite Hact; lia|].
      cbn [vwriter_append snd vpt_file]. unfold G', upd. rewrite N.eqb_refl.
      exists k. split.
      * exists (vf_bytes f), []. split; [unfold b'; rewrite app_nil_r; reflexivity|]. split; [reflexivity | split; assumption].
      * cbn [vpt_ksize vpt_vsize vpt_crc]. rewrite (fits_mod _ _ Fk), (fits_mod _ _ Fv). repeat split.
    + cbn [vwriter_append snd vpt_file]. apply Hh. exists f. split; assumption.
  - exact Hrange.
  - rewrite <- Hst. cbn [set_files vs_tables vs_index vs_cache vs_readers].
    split; [exact Et|]. split; [exact Ei|]. split; [exact Ec|]. split; [exact Er|]. rewrite Hst. exact Hfr.
Qed.

(* ------------------------------------------------------------------------------ MemTable::flush *)
Lemma flush_entries_some : forall now st k v r,
  flush_entries crc cfg now st ((k, Some v) :: r) =
  if N.ltb (cf_threshold cfg) (nlen v)
  then match vs_append crc cfg now st k v with
       | Some (st1, p) =>
         match flush_entries crc cfg now st1 r with
         | Some (st', es) => Some (st', {| te_key := k; te_enc := vloc_encode (vloc_with_pointer p); te_orig := Some v |} :: es)
         | None => None
         end
       | None => None
       end
  else match flush_entries crc cfg now st r with
       | Some (st', es) => Some (st', {| te_key := k; te_enc := vloc_encode (vloc_inline v); te_orig := Some v |} :: es)
       | None => None
       end.
Proof.
  intros now st k v r. cbn [flush_entries]. rewrite (maybe_separate_inline POK). cbn [andb].
  destruct (N.ltb (cf_threshold cfg) (nlen v)); reflexivity.
Qed.

Lemma vinv_flush_entries : forall mem G st now st' es, vinvG G st -> flush_entries crc cfg now st mem = Some (st', es) ->
  exists G', vinvG G' st' /\ gext (vs_active st) G G' /\ vs_active st <= vs_active st' /\
    (forall i, has_file st i -> has_file st' i) /\
    (forall e, In e es -> entry_good (live_ptr G' st') e) /\
    map (fun e => (te_key e, te_orig e)) es = mem /\
    vs_tables st' = vs_tables st /\ vs_index st' = vs_index st /\ vs_cache st' = vs_cache st /\ vs_readers st' = vs_readers st /\
    fresh st st'.
Proof.
  induction mem as [|[k [v|]] r IH]; intros G st now st' es Hinv H.
  - cbn [flush_entries] in H. injection H as H1 H2. subst. exists G.
    split; [exact Hinv|]. split; [apply gext_refl|]. split; [lia|]. split; [auto|]. split; [intros e []|].
    split; [reflexivity|]. split; [reflexivity|]. split; [reflexivity|]. split; [reflexivity|]. split; [reflexivity | apply fresh_refl].
  - rewrite flush_entries_some in H. destruct (N.ltb (cf_threshold cfg) (nlen v)).
    + destruct (vs_append crc cfg now st k v) as [[st1 p]|] eqn:Ea; [|discriminate].
      destruct (flush_entries crc cfg now st1 r) as [[st2 es2]|] eqn:Er; [|discriminate].
      injection H as H1 H2. subst st2 es.
      destruct (vinv_append G st now k v st1 p Hinv Ea) as (G1 & I1 & Hg1 & Ha1 & Hh1 & Hp & Hr & Et1 & Ei1 & Ec1 & Er1 & Hf1).
      destruct (IH G1 st1 now st' es2 I1 Er) as (G' & I' & Hg' & Ha' & Hh' & He' & Hm' & Et' & Ei' & Ec' & Er' & Hf').
      exists G'. split; [exact I'|]. split; [apply (gext_trans _ (vs_active st1) G G1 G'); assumption|].
      split; [lia|]. split; [intros i Hi; apply Hh'; apply Hh1; exact Hi|].
      split.
      * intros e [E|Hin]; [|apply He'; exact Hin]. subst e. unfold entry_good. cbn [te_orig te_enc].
        rewrite (classify_pointer POK p Hr). destruct Hp as [Hp1 Hp2].
        split; [apply (pin_ext G1 G' (vs_active st1)); assumption | apply Hh'; exact Hp2].
      * split; [cbn [map te_key te_orig]; rewrite Hm'; reflexivity|].
        split; [congruence|]. split; [congruence|]. split; [congruence|]. split; [congruence|].
        apply (fresh_trans st st1 st'); assumption.
    + destruct (flush_entries crc cfg now st r) as [[st2 es2]|] eqn:Er; [|discriminate].
      injection H as H1 H2. subst st2 es.
      destruct (IH G st now st' es2 Hinv Er) as (G' & I' & Hg' & Ha' & Hh' & He' & Hm' & Et' & Ei' & Ec' & Er' & Hf').
      exists G'. split; [exact I'|]. split; [exact Hg'|]. split; [exact Ha'|]. split; [exact Hh'|].
      split.
      * intros e [E|Hin]; [|apply He'; exact Hin]. subst e. unfold entry_good. cbn [te_orig te_enc].
        rewrite (classify_inline POK). reflexivity.
      * split; [cbn [map te_key te_orig]; rewrite Hm'; reflexivity|].
        split; [exact Et'|]. split; [exact Ei'|]. split; [exact Ec'|]. split; [exact Er' | exact Hf'].
  - cbn [flush_entries] in H.
    destruct (flush_entries crc cfg now st r) as [[st2 es2]|] eqn:Er; [|discriminate].
    injection H as H1 H2. subst st2 es.
    destruct (IH G st now st' es2 Hinv Er) as (G' & I' & Hg' & Ha' & Hh' & He' & Hm' & Et' & Ei' & Ec' & Er' & Hf').
    exists G'. split; [exact I'|]. split; [exact Hg'|]. split; [exact Ha'|]. split; [exact Hh'|].
    split.
    + intros e [E|Hin]; [|apply He'; exact Hin]. subst e. unfold entry_good. cbn [te_orig te_enc]. reflexivity.
    + split; [cbn [map te_key te_orig]; rewrite Hm'; reflexivity|].
      split; [exact Et'|]. split; [exact Ei'|]. split; [exact Ec'|]. split; [exact Er' | exact Hf'].
Qed.

(* ------------------------------------------------------------------------------ index inserts, the clean-up, installing a table *)
Lemma index_insert_good : forall (Q : tentry -> Prop) ix e,
  (forall x y, te_enc x = te_enc y -> te_orig x = te_orig y -> Q y -> Q x) ->
  (forall x, In x ix -> Q x) -> Q e -> forall x, In x (index_insert ix e) -> Q x.
Proof.
  intros Q ix e Hq Hix He x Hin. unfold index_insert in Hin.
  destruct (existsb (fun x0 => same_ixkey (te_key x0) (te_key e)) ix).
  - apply in_map_iff in Hin. destruct Hin as (y & E & Hy).
    destruct (same_ixkey (te_key y) (te_key e)); [|subst; apply Hix; exact Hy].
    subst x. apply (Hq _ e); [reflexivity | reflexivity | exact He].
  - apply in_app_iff in Hin. destruct Hin as [Hin|[E|[]]]; [apply Hix; exact Hin | subst; exact He].
Qed.
Lemma index_inserts_good : forall (Q : tentry -> Prop) es ix,
  (forall x y, te_enc x = te_enc y -> te_orig x = te_orig y -> Q y -> Q x) ->
  (forall x, In x ix -> Q x) -> (forall e, In e es -> Q e) -> forall x, In x (fold_left index_insert es ix) -> Q x.
Proof.
  intros Q es. induction es as [|e es IH]; intros ix Hq Hix Hes x Hin; cbn [fold_left] in Hin.
  - apply Hix. exact Hin.
  - apply (IH (index_insert ix e) Hq); [|intros e' He'; apply Hes; right; exact He' | exact Hin].
    intros y Hy. apply (index_insert_good Q ix e Hq Hix); [apply Hes; left; reflexivity | exact Hy].
Qed.
Lemma entry_good_ext : forall P x y, te_enc x = te_enc y -> te_orig x = te_orig y -> entry_good P y -> entry_good P x.
Proof. intros P x y E1 E2. unfold entry_good. rewrite E1, E2. exact (fun h => h). Qed.

Lemma pointer_file_pos : forall G st p v, finv G st -> live_ptr G st p v -> VLOG_NO_REF < vpt_file p.
Proof.
  intros G st p v F [_ (f & Hin & Hid)]. destruct (i_range G st F f Hin) as [H1 _]. unfold VLOG_NO_REF. lia.
Qed.

Lemma vinv_cleanup : forall G st, (chk = true -> vs_readers st = []) -> vinvG G st -> vinvG G (vs_cleanup st).
Proof.
  intros G st Hnr [F D]. pose proof F as F0. pose proof D as D0. destruct F as [F1 F2 F3 F4 F5]. destruct D as [Dt Di Dr Dc].
  destruct (cleanup_same st) as (Ea & En & Et & Ec & Er).
  (* a live pointer stays live *)
  assert (KT : forall t e p v, In t (vs_tables st) -> In e (tb_entries t) -> venc_classify (te_enc e) = EPtr p ->
               live_ptr G st p v -> live_ptr G (vs_cleanup st) p v).
  { intros t e p v Ht He Hc [Hp (f & Hf & Hid)]. split; [rewrite Ea; exact Hp|].
    exists f. split; [|exact Hid]. destruct (Dt t Ht) as [Ho Hg].
    apply (cleanup_keeps_live_files st t e p f Ht Ho); try assumption; [|apply pointer_of_classify; exact Hc].
    intros e' p' He' Hp'. apply pointer_of_classify in Hp'. specialize (Hg e' He'). unfold entry_good in Hg.
    destruct (te_orig e') as [v'|] eqn:Eo.
    - rewrite Hp' in Hg. apply (pointer_file_pos G st p' v' F0 Hg).
    - rewrite Hg in Hp'. discriminate. }
  split.
  - split.
    + rewrite En, Ea. exact F1.
    + unfold vs_cleanup. destruct (N.eqb (min_oldest (vs_tables st)) VLOG_NO_REF); [exact F2|].
      cbn [set_files vs_files]. apply NoDup_map_filter. exact F2.
    + intros f Hin. rewrite Ea. apply F3. apply cleanup_files_subset. exact Hin.
    + intros Hne. rewrite Ea in *. destruct (F4 Hne) as (f & Hin & Hid). exists f. split; [|exact Hid].
      apply cleanup_keeps_active; assumption.
    + intros f Hin. apply F5. apply cleanup_files_subset. exact Hin.
  - split.
    + rewrite Et. intros t Ht. destruct (Dt t Ht) as [Ho Hg]. split; [exact Ho|].
      intros e He. specialize (Hg e He). unfold entry_good in *. destruct (te_orig e); [|exact Hg].
      destruct (venc_classify (te_enc e)) as [v'|p|] eqn:Ecl; try exact Hg. apply (KT t e p l Ht He Ecl Hg).
    + intros e He. pose proof (cleanup_index_subset _ _ He) as He0. specialize (Di e He0).
      unfold entry_good in *. destruct (te_orig e); [|exact Di].
      destruct (venc_classify (te_enc e)) as [v'|p|] eqn:Ecl; try exact Di.
      destruct Di as [Hp (f & Hf & Hid)]. split; [rewrite Ea; exact Hp|]. exists f. split; [|exact Hid].
      apply (cleanup_index_consistent st e p f He); [apply pointer_of_classify; exact Ecl | exact Hf | exact Hid].
    + rewrite Er. intros rid ts t e H1 H2 H3.
      assert (Hb : chk = true \/ chk = false) by (destruct chk; [left | right]; reflexivity).
      destruct Hb as [Echk|Echk].
      * rewrite (Hnr Echk) in H1. destruct H1.
      * apply (entry_good_mono (rptr G st)); [|apply (Dr rid ts t e H1 H2 H3)].
        intros p v [Hp _]. split; [rewrite Ea; exact Hp | intros Hf; rewrite Echk in Hf; discriminate Hf].
    + rewrite Ec, Ea. exact Dc.
Qed.

Lemma cleanup_rt_cases : forall st, vs_cleanup_rt chk st = st \/ (vs_cleanup_rt chk st = vs_cleanup st /\ (chk = true -> vs_readers st = [])).
Proof.
  intros st. unfold vs_cleanup_rt, no_readers.
  assert (Hb : chk = true \/ chk = false) by (destruct chk; [left | right]; reflexivity).
  destruct Hb as [Echk|Echk]; rewrite Echk; cbn [andb].
  - destruct (vs_readers st); cbn [negb]; [right; split; [reflexivity | reflexivity] | left; reflexivity].
  - right. split; [reflexivity | intros H; discriminate H].
Qed.
Lemma vinv_cleanup_rt : forall G st, vinvG G st -> vinvG G (vs_cleanup_rt chk st).
Proof.
  intros G st H. destruct (cleanup_rt_cases st) as [E|[E Hn]]; rewrite E; [exact H | apply vinv_cleanup; assumption].
Qed.
Lemma cleanup_rt_files_subset : forall st f, In f (vs_files (vs_cleanup_rt chk st)) -> In f (vs_files st).
Proof.
  intros st f H. destruct (cleanup_rt_cases st) as [E|[E _]]; rewrite E in H; [exact H | apply cleanup_files_subset; exact H].
Qed.
Lemma cleanup_rt_same : forall st,
  vs_active (vs_cleanup_rt chk st) = vs_active st /\ vs_next (vs_cleanup_rt chk st) = vs_next st /\
  vs_tables (vs_cleanup_rt chk st) = vs_tables st /\ vs_cache (vs_cleanup_rt chk st) = vs_cache st /\
  vs_readers (vs_cleanup_rt chk st) = vs_readers st.
Proof.
  intros st. destruct (cleanup_rt_cases st) as [E|[E _]]; rewrite E; [repeat split | apply cleanup_same].
Qed.

(* ------------------------------------------------------------------------------ changes of the data part only *)
Lemma vinv_data : forall G st st',
  vinvG G st ->
  vs_files st' = vs_files st -> vs_active st' = vs_active st -> vs_next st' = vs_next st ->
  (forall t, In t (vs_tables st') -> tb_oldest t = table_oldest (tb_entries t) /\ forall e, In e (tb_entries t) -> entry_good (live_ptr G st) e) ->
  (forall e, In e (vs_index st') -> entry_good (live_ptr G st) e) ->
  (forall rid ts t e, In (rid, ts) (vs_readers st') -> In t ts -> In e (tb_entries t) -> entry_good (rptr G st) e) ->
  (forall x, In x (vs_cache st') -> In x (vs_cache st)) ->
  vinvG G st'.
Proof.
  intros G st st' [[F1 F2 F3 F4 F5] [Dt Di Dr Dc]] Ef Ea En Ht Hi Hr Hc.
  assert (L : forall p v, live_ptr G st p v -> live_ptr G st' p v).
  { intros p v [Hp (f & Hf & Hid)]. split; [rewrite Ea; exact Hp|]. exists f. rewrite Ef. split; assumption. }
  split.
  - split.
    + rewrite En, Ea. exact F1.
    + rewrite Ef. exact F2.
    + rewrite Ef, Ea. exact F3.
    + rewrite Ea. intros Hne. destruct (F4 Hne) as (f & Hf & Hid). exists f. rewrite Ef. split; assumption.
    + rewrite Ef. exact F5.
  - split.
    + intros t Hin. destruct (Ht t Hin) as [Ho He]. split; [exact Ho|]. intros e Hine. apply (entry_good_mono _ _ _ L). apply He. exact Hine.
    + intros e Hin. apply (entry_good_mono _ _ _ L). apply Hi. exact Hin.
    + intros rid ts t e H1 H2 H3. apply (entry_good_mono (rptr G st)); [|apply (Hr rid ts t e H1 H2 H3)].
      intros p v [Hp Hcf]. split; [rewrite Ea; exact Hp|]. intros Ek. destruct (Hcf Ek) as (f & Hf & Hid). exists f. rewrite Ef. split; assumption.
    + rewrite Ea. intros f o c v Hin. apply Dc. apply Hc. exact Hin.
Qed.

Lemma live_pin : forall G st p v, live_ptr G st p v -> pin G (vs_active st) p v.
Proof. intros G st p v [H _]. exact H. Qed.
Lemma live_rptr : forall G st p v, live_ptr G st p v -> rptr G st p v.
Proof. intros G st p v [H1 H2]. split; [exact H1 | intros _; exact H2]. Qed.
Lemma rptr_pin : forall G st p v, rptr G st p v -> pin G (vs_active st) p v.
Proof. intros G st p v [H _]. exact H. Qed.

(* ------------------------------------------------------------------------------ flush *)
Lemma vinv_flush : forall G st now tid mem st', vinvG G st -> vs_flush crc cfg chk now tid mem st = Some st' ->
  exists G', vinvG G' st' /\ fresh st st'.
Proof.
  intros G st now tid mem st' Hinv H. unfold vs_flush in H.
  destruct (flush_entries crc cfg now st mem) as [[st1 es]|] eqn:Ef; [|discriminate].
  injection H as H. subst st'.
  destruct (vinv_flush_entries mem G st now st1 es Hinv Ef) as (G1 & I1 & Hg & Ha & Hh & He & Hm & Et & Ei & Ec & Er & Hfr).
  exists G1. change (if VLOG_FLUSH_SYNCS_ACTIVE then vs_sync_active st1 else st1) with (vs_sync_active st1).
  set (st2 := vs_sync_active st1).
  assert (I2 : vinvG G1 st2) by (apply vinv_marks; [intros f; split; reflexivity | exact I1]).
  assert (L12 : forall p v, live_ptr G1 st1 p v -> live_ptr G1 st2 p v).
  { intros p v [Hp (f & Hf & Hid)]. split; [exact Hp|].
    exists (if N.eqb (vf_id f) (vs_active st1) then mark_synced f else f). split.
    - unfold st2, vs_sync_active. cbn [set_files vs_files]. apply in_update_file. exists f. split; [exact Hf | reflexivity].
    - destruct (N.eqb (vf_id f) (vs_active st1)); exact Hid. }
  set (t := {| tb_id := tid; tb_entries := es; tb_oldest := table_oldest es |}).
  set (st3 := set_index (set_tables st2 (vs_tables st2 ++ [t]))
                (if cf_index cfg then fold_left index_insert es (vs_index st2) else vs_index st2)).
  assert (I3 : vinvG G1 st3).
  { apply (vinv_data G1 st2 st3 I2); try reflexivity.
    - intros t0 Hin. cbn [st3 set_index set_tables vs_tables] in Hin. apply in_app_iff in Hin. destruct Hin as [Hin|[E|[]]].
      + apply (i_tables G1 st2 (proj2 I2)). exact Hin.
      + subst t0. split; [reflexivity|]. intros e Hine. apply (entry_good_mono _ _ _ L12). apply He. exact Hine.
    - intros e Hin. cbn [st3 set_index vs_index] in Hin. destruct (cf_index cfg).
      + apply (index_inserts_good (entry_good (live_ptr G1 st2)) es (vs_index st2)); [apply entry_good_ext | | | exact Hin].
        * apply (i_index G1 st2 (proj2 I2)).
        * intros e0 H0. apply (entry_good_mono _ _ _ L12). apply He. exact H0.
      + apply (i_index G1 st2 (proj2 I2)). exact Hin.
    - apply (i_readers G1 st2 (proj2 I2)).
    - auto. }
  change (vinvG G1 (vs_cleanup_rt chk st3) /\ fresh st (vs_cleanup_rt chk st3)).
  split; [apply vinv_cleanup_rt; exact I3|].
  destruct Hfr as [Hn Hf]. destruct (cleanup_rt_same st3) as (_ & En & _). split; [rewrite En; exact Hn|].
  intros f' Hin. apply cleanup_rt_files_subset in Hin. cbn [st3 set_index set_tables vs_files st2 vs_sync_active set_files] in Hin.
  apply in_update_file in Hin. destruct Hin as (f & Hin & E). subst f'.
  destruct (N.eqb (vf_id f) (vs_active st1)); apply (Hf f Hin).
Qed.

(* ------------------------------------------------------------------------------ compaction *)
Lemma pick_entries_in : forall pool out es, pick_entries pool out = Some es -> forall e, In e es -> In e pool.
Proof.
  intros pool. induction out as [|[k enc] r IH]; intros es H e Hin; cbn [pick_entries] in H.
  - injection H as H. subst. destruct Hin.
  - destruct (find (tentry_is k enc) pool) as [x|] eqn:Fx; [|discriminate].
    destruct (pick_entries pool r) as [es'|]; [|discriminate]. injection H as H. subst es.
    destruct Hin as [E|Hin]; [subst; apply (find_some _ _ Fx) | apply (IH es' eq_refl e Hin)].
Qed.

Lemma vinv_compact : forall G st ins tid out st', vinvG G st -> vs_compact chk ins tid out st = Some st' ->
  vinvG G st' /\ fresh st st'.
Proof.
  intros G st ins tid out st' Hinv H. unfold vs_compact in H.
  destruct (negb (forallb (fun i => existsb (fun t => N.eqb (tb_id t) i) (vs_tables st)) ins)); [discriminate|].
  destruct (pick_entries (flat_map tb_entries (filter (is_input ins) (vs_tables st))) out) as [es|] eqn:Ep; [|discriminate].
  injection H as H. subst st'.
  set (rest := filter (fun t => negb (is_input ins t)) (vs_tables st)) in *.
  set (ts := match es with [] => rest | _ :: _ => rest ++ [{| tb_id := tid; tb_entries := es; tb_oldest := table_oldest es |}] end).
  assert (I2 : vinvG G (set_tables st ts)).
  { apply (vinv_data G st _ Hinv); try reflexivity.
    - assert (Hrest : forall t, In t rest -> tb_oldest t = table_oldest (tb_entries t) /\ forall e, In e (tb_entries t) -> entry_good (live_ptr G st) e).
      { intros t Hin. apply filter_In in Hin. apply (i_tables G st (proj2 Hinv)). apply Hin. }
      assert (Hnew : forall e, In e es -> entry_good (live_ptr G st) e).
      { intros e Hin. pose proof (pick_entries_in _ _ _ Ep e Hin) as Hp. apply in_flat_map in Hp. destruct Hp as (t & Ht & He).
        apply filter_In in Ht. destruct (i_tables G st (proj2 Hinv) t (proj1 Ht)) as [_ Hg]. apply Hg. exact He. }
      intros t Hin. cbn [set_tables vs_tables] in Hin. unfold ts in Hin. destruct es as [|e0 es0].
      + apply Hrest. exact Hin.
      + apply in_app_iff in Hin. destruct Hin as [Hin|[E|[]]]; [apply Hrest; exact Hin|].
        subst t. split; [reflexivity | exact Hnew].
    - apply (i_index G st (proj2 Hinv)).
    - apply (i_readers G st (proj2 Hinv)).
    - auto. }
  split; [apply vinv_cleanup_rt; exact I2|].
  destruct (cleanup_rt_same (set_tables st ts)) as (_ & En & _). split; [rewrite En; cbn [set_tables vs_next]; lia|].
  intros f' Hin. apply cleanup_rt_files_subset in Hin. left. exists f'. split; [exact Hin | reflexivity].
Qed.

(* ------------------------------------------------------------------------------ reopen *)
Lemma list_max_some : forall l m, list_max l = Some m -> In m l /\ forall x, In x l -> x <= m.
Proof.
  induction l as [|y l IH]; intros m H; cbn [list_max] in H; [discriminate|].
  destruct (list_max l) as [m0|] eqn:E.
  - injection H as H. destruct (IH m0 eq_refl) as [Hin Hle]. subst m. split.
    + destruct (N.max_spec y m0) as [[_ Em]|[_ Em]]; rewrite Em; [right; exact Hin | left; reflexivity].
    + intros x [Ex|Hx]; [subst; lia | specialize (Hle x Hx); lia].
  - injection H as H. subst m. destruct l as [|z l]; [|cbn [list_max] in E; destruct (list_max l); discriminate].
    split; [left; reflexivity | intros x [Ex|[]]; subst; lia].
Qed.
Lemma list_max_none : forall l, list_max l = None -> l = [].
Proof. intros [|y l] H; [reflexivity|]. cbn [list_max] in H. destruct (list_max l); discriminate. Qed.

Lemma vinv_reopen : forall G st keep, vinvG G st -> vinvG G (vs_reopen keep st) /\ fresh st (vs_reopen keep st).
Proof.
  intros G st keep Hinv. unfold vs_reopen.
  set (fs := update_file (vs_active st) mark_synced (vs_files st)).
  assert (I1 : vinvG G (set_files st fs)) by (apply vinv_marks; [intros f; split; reflexivity | exact Hinv]).
  destruct Hinv as [[F1 F2 F3 F4 F5] D].
  assert (Hids : map vf_id fs = map vf_id (vs_files st)) by (apply update_file_ids; reflexivity).
  assert (Han : match list_max (map vf_id fs) with Some m => (m, N.succ m) | None => (VLOG_NO_ACTIVE, VLOG_FIRST_FILE_ID) end
                = (vs_active st, vs_next st)).
  { rewrite Hids. destruct (list_max (map vf_id (vs_files st))) as [m|] eqn:Em.
    - destruct (list_max_some _ _ Em) as [Hin Hle]. apply in_map_iff in Hin. destruct Hin as (f & Ef & Hf).
      destruct (F3 f Hf) as [H1 H2]. assert (Hne : vs_active st <> 0) by lia.
      destruct (F4 Hne) as (fa & Hfa & Hida). assert (Hla : vs_active st <= m) by (apply Hle; apply in_map_iff; exists fa; split; assumption).
      assert (E : m = vs_active st) by lia. rewrite E, F1. reflexivity.
    - apply list_max_none in Em. apply map_eq_nil in Em.
      assert (Ha : vs_active st = 0).
      { destruct (N.eq_dec (vs_active st) 0) as [E|Hne]; [exact E|]. destruct (F4 Hne) as (fa & Hfa & _). rewrite Em in Hfa. destruct Hfa. }
      unfold VLOG_NO_ACTIVE, VLOG_FIRST_FILE_ID. rewrite F1, Ha. reflexivity. }
  rewrite Han. cbn [fst snd].
  set (st2 := {| vs_files := fs; vs_active := vs_active st; vs_next := vs_next st; vs_tables := vs_tables st;
                 vs_index := vs_index st; vs_cache := if keep then vs_cache st else []; vs_readers := [] |}).
  assert (I2 : vinvG G st2).
  { apply (vinv_data G (set_files st fs) st2 I1); try reflexivity.
    - apply (i_tables G _ (proj2 I1)).
    - apply (i_index G _ (proj2 I1)).
    - intros rid ts t e [].
    - intros x Hin. cbn [st2 vs_cache] in Hin. destruct keep; [exact Hin | destruct Hin]. }
  split; [apply vinv_cleanup; [intros _; reflexivity | exact I2]|].
  destruct (cleanup_same st2) as (_ & En & _). split; [rewrite En; cbn [st2 vs_next]; lia|].
  intros f' Hin. apply cleanup_files_subset in Hin. cbn [st2 vs_files] in Hin. apply in_update_file in Hin.
  destruct Hin as (f & Hin & E). left. exists f. split; [exact Hin|]. subst f'. destruct (N.eqb (vf_id f) (vs_active st)); reflexivity.
Qed.

(* ------------------------------------------------------------------------------ reads *)
Lemma vcache_get_in : forall c f o e, vcache_get c f o = Some e -> In ((f, o), e) c.
Proof.
  intros c f o e H. unfold vcache_get in H.
  destruct (find (fun e0 => N.eqb (fst (fst e0)) f && N.eqb (snd (fst e0)) o) c) as [[[f0 o0] e0]|] eqn:F; [|discriminate].
  injection H as H. subst e0. destruct (find_some _ _ F) as [Hin Hb]. cbn [fst snd] in Hb.
  apply andb_true_iff in Hb. destruct Hb as [H1 H2]. apply N.eqb_eq in H1. apply N.eqb_eq in H2. subst. exact Hin.
Qed.

Definition cache_framed (G : N -> list byte) (a : N) (c : vcache) : Prop :=
  forall f o x w, In ((f, o), (x, w)) c -> f <= a /\ exists k, framed (G f) o k w /\ x = crc32u crc (k ++ w).

(* the file path of a read of an issued pointer: the value, or nothing when the file is gone *)
Lemma get_file_spec : forall G st p v, vinvG G st -> pin G (vs_active st) p v ->
  (fst (vs_get_file crc cfg st p) = Some v \/ (fst (vs_get_file crc cfg st p) = None /\ ~ has_file st (vpt_file p))) /\
  cache_framed G (vs_active st) (snd (vs_get_file crc cfg st p)).
Proof.
  intros G st p v [[F1 F2 F3 F4 F5] [Dt Di Dr Dc]] [Hle Hpf]. unfold vs_get_file.
  destruct (find_file (vpt_file p) (vs_files st)) as [fl|] eqn:Ff.
  - destruct (find_file_some _ _ _ Ff) as [Hin Hid].
    assert (Hb : pframed (vf_bytes fl) p v) by (rewrite <- (F5 fl Hin), Hid; exact Hpf).
    rewrite (pframed_read (cf_level cfg) _ _ _ Hb). cbn [fst snd]. split; [left; reflexivity|].
    intros f o x w [E|Hin']; [|apply Dc; exact Hin'].
    injection E as E1 E2 E3 E4. subst f o x w. split; [exact Hle|].
    destruct Hpf as (k & Hk & _ & _ & Hcrc). exists k. split; [exact Hk | exact Hcrc].
  - cbn [fst snd]. split; [|exact Dc]. right. split; [reflexivity|].
    intros (f & Hin & Hid). destruct (find_file_has _ _ _ Hin Hid) as [f' E]. rewrite E in Ff. discriminate.
Qed.

(* what a read of an issued pointer gives: the value, or nothing when the file is gone; never other bytes — under
   either cache rule: a hit is the framed value (framing is unique), a refused hit goes to the file *)
Lemma get_spec : forall G st p v, vinvG G st -> pin G (vs_active st) p v ->
  (fst (vs_get crc cfg hck st p) = Some v \/ (fst (vs_get crc cfg hck st p) = None /\ ~ has_file st (vpt_file p))) /\
  cache_framed G (vs_active st) (snd (vs_get crc cfg hck st p)).
Proof.
  intros G st p v Hinv Hpin. pose proof (i_cache G st (proj2 Hinv)) as Dc. unfold vs_get.
  destruct (vcache_get (vs_cache st) (vpt_file p) (vpt_offset p)) as [[x w]|] eqn:Ec; [|apply (get_file_spec G st p v Hinv Hpin)].
  destruct (vs_hit_ok hck p (x, w)); [|apply (get_file_spec G st p v Hinv Hpin)].
  cbn [fst snd]. split; [|exact Dc]. left.
  destruct (Dc _ _ _ _ (vcache_get_in _ _ _ _ Ec)) as [_ [k [Hk _]]]. destruct Hpin as [_ Hpf].
  rewrite (pframed_framed_value _ _ _ _ _ Hpf Hk). reflexivity.
Qed.

(* ... and under the checked rule a hit found for an issued pointer passes the test: the cache stays effective *)
Lemma hit_passes : forall G st p v e, vinvG G st -> pin G (vs_active st) p v ->
  vcache_get (vs_cache st) (vpt_file p) (vpt_offset p) = Some e -> vs_hit_ok hck p e = true.
Proof.
  intros G st p v [x w] Hinv [_ Hpf] Ec. pose proof (i_cache G st (proj2 Hinv)) as Dc.
  destruct (Dc _ _ _ _ (vcache_get_in _ _ _ _ Ec)) as [_ [k' [Hk' Hx]]].
  destruct Hpf as (k & Hk & _ & Hv & Hcrc). destruct (framed_unique _ _ _ _ _ _ Hk Hk') as [E1 E2]. subst k' w.
  unfold vs_hit_ok. destruct hck; [|reflexivity]. cbn [fst snd].
  rewrite Hx, Hcrc, Hv, !N.eqb_refl. reflexivity.
Qed.

Lemma resolve_spec : forall G st e, vinvG G st -> entry_good (pin G (vs_active st)) e ->
  (forall v, te_orig e = Some v ->
     fst (vs_resolve crc cfg hck st (te_enc e)) = Some v \/
     (fst (vs_resolve crc cfg hck st (te_enc e)) = None /\ exists p, venc_classify (te_enc e) = EPtr p /\ ~ has_file st (vpt_file p))) /\
  cache_framed G (vs_active st) (snd (vs_resolve crc cfg hck st (te_enc e))).
Proof.
  intros G st e Hinv Hg. pose proof (i_cache G st (proj2 Hinv)) as Dc. unfold entry_good in Hg. unfold vs_resolve.
  destruct (te_orig e) as [v|] eqn:Eo.
  - destruct (venc_classify (te_enc e)) as [v'|p|] eqn:Ecl; [| |destruct Hg].
    + cbn [fst snd]. split; [|exact Dc]. intros w Hw. injection Hw as Hw. subst. left. reflexivity.
    + destruct (get_spec G st p v Hinv Hg) as [H1 H2]. split; [|exact H2].
      intros w Hw. injection Hw as Hw. subst w. destruct H1 as [H1|[H1 H1']]; [left; exact H1|].
      right. split; [exact H1|]. exists p. split; [reflexivity | exact H1'].
  - rewrite Hg. cbn [venc_classify vloc_decode fst snd]. split; [intros v Hv; discriminate | exact Dc].
Qed.

Lemma vinv_read : forall G st oe, vinvG G st ->
  (forall e, oe = Some e -> entry_good (pin G (vs_active st)) e) -> vinvG G (vs_read_entry crc cfg hck st oe).
Proof.
  intros G st oe Hinv He. unfold vs_read_entry. destruct oe as [e|]; [|exact Hinv].
  destruct (resolve_spec G st e Hinv (He e eq_refl)) as [_ Hc].
  destruct Hinv as [F [Dt Di Dr Dc]]. split.
  - destruct F as [F1 F2 F3 F4 F5]. split; assumption.
  - split; assumption.
Qed.

Lemma entry_at_in : forall ts tid i e, entry_at ts tid i = Some e -> exists t, In t ts /\ In e (tb_entries t).
Proof.
  intros ts tid i e H. unfold entry_at in H. destruct (find_table tid ts) as [t|] eqn:Ft; [|discriminate].
  unfold find_table in Ft. apply find_some in Ft. exists t. split; [apply Ft | apply (nth_error_In _ _ H)].
Qed.

(* ------------------------------------------------------------------------------ every operation *)
Lemma vinv_step : forall G st o st', vinvG G st -> vs_step crc cfg chk hck st o = Some st' ->
  exists G', vinvG G' st' /\ fresh st st'.
Proof.
  intros G st o st' Hinv H. destruct o as [now tid mem|ins tid out|keep|rid|rid|tid i|i|rid tid i]; cbn [vs_step] in H.
  - apply (vinv_flush G st now tid mem st' Hinv H).
  - exists G. apply (vinv_compact G st ins tid out st' Hinv H).
  - injection H as H. subst st'. exists G. apply vinv_reopen. exact Hinv.
  - injection H as H. subst st'. exists G. split; [|apply fresh_same; reflexivity].
    apply (vinv_data G st _ Hinv); try reflexivity.
    + apply (i_tables G st (proj2 Hinv)).
    + apply (i_index G st (proj2 Hinv)).
    + intros rid0 ts t e Hin Ht He. cbn [set_readers vs_readers] in Hin. destruct Hin as [E|Hin].
      * injection E as E1 E2. subst rid0 ts. destruct (i_tables G st (proj2 Hinv) t Ht) as [_ Hg].
        apply (entry_good_mono _ _ _ (live_rptr G st)). apply Hg. exact He.
      * apply (i_readers G st (proj2 Hinv) rid0 ts t e Hin Ht He).
    + auto.
  - injection H as H. subst st'. exists G. split; [|apply fresh_same; reflexivity].
    apply (vinv_data G st _ Hinv); try reflexivity.
    + apply (i_tables G st (proj2 Hinv)).
    + apply (i_index G st (proj2 Hinv)).
    + intros rid0 ts t e Hin Ht He. cbn [set_readers vs_readers] in Hin. apply filter_In in Hin.
      apply (i_readers G st (proj2 Hinv) rid0 ts t e (proj1 Hin) Ht He).
    + auto.
  - injection H as H. subst st'. exists G. split; [|unfold vs_read_entry; destruct (entry_at (vs_tables st) tid i); apply fresh_same; reflexivity].
    apply vinv_read; [exact Hinv|]. intros e He. destruct (entry_at_in _ _ _ _ He) as (t & Ht & Hin).
    destruct (i_tables G st (proj2 Hinv) t Ht) as [_ Hg]. apply (entry_good_mono _ _ _ (live_pin G st)). apply Hg. exact Hin.
  - injection H as H. subst st'. exists G. split; [|unfold vs_read_entry; destruct (nth_error (vs_index st) i); apply fresh_same; reflexivity].
    apply vinv_read; [exact Hinv|]. intros e He. apply (entry_good_mono _ _ _ (live_pin G st)).
    apply (i_index G st (proj2 Hinv)). apply (nth_error_In _ _ He).
  - injection H as H. subst st'. exists G.
    split; [|unfold vs_read_entry; destruct (entry_at (reader_tables rid (vs_readers st)) tid i); apply fresh_same; reflexivity].
    apply vinv_read; [exact Hinv|]. intros e He. destruct (entry_at_in _ _ _ _ He) as (t & Ht & Hin).
    unfold reader_tables in Ht. destruct (find (fun r => N.eqb (fst r) rid) (vs_readers st)) as [[rid0 ts]|] eqn:Fr; [|destruct Ht].
    apply find_some in Fr. apply (entry_good_mono _ _ _ (rptr_pin G st)). apply (i_readers G st (proj2 Hinv) rid0 ts t e (proj1 Fr) Ht Hin).
Qed.

Lemma vinv_vs0 : vinvG (fun _ => []) vs0.
Proof.
  split.
  - split; cbn [vs0 vs_next vs_active vs_files map].
    + reflexivity.
    + constructor.
    + intros f [].
    + intros H. exfalso. apply H. reflexivity.
    + intros f [].
  - split; cbn [vs0 vs_tables vs_index vs_readers vs_cache].
    + intros t [].
    + intros e [].
    + intros rid ts t e [].
    + intros f o c v [].
Qed.

Lemma vinv_run : forall ops G st st', vinvG G st -> vs_run crc cfg chk hck ops st = Some st' ->
  exists G', vinvG G' st' /\ fresh st st'.
Proof.
  induction ops as [|o r IH]; intros G st st' Hinv H; cbn [vs_run] in H.
  - injection H as H. subst st'. exists G. split; [exact Hinv | apply fresh_refl].
  - destruct (vs_step crc cfg chk hck st o) as [st1|] eqn:Es; [|discriminate].
    destruct (vinv_step G st o st1 Hinv Es) as (G1 & I1 & Hf1).
    destruct (IH G1 st1 st' I1 H) as (G' & I' & Hf'). exists G'. split; [exact I' | apply (fresh_trans st st1 st'); assumption].
Qed.

Lemma reachable_inv : forall st, reachable crc cfg chk hck st -> exists G, vinvG G st.
Proof. intros st [ops H]. destruct (vinv_run ops _ vs0 st vinv_vs0 H) as (G & I & _). exists G. exact I. Qed.

(* ------------------------------------------------------------------------------ B1, B2 (reachable form), B4, ids *)
Lemma live_resolves : forall G st e v, vinvG G st -> entry_good (live_ptr G st) e -> te_orig e = Some v ->
  fst (vs_resolve crc cfg hck st (te_enc e)) = Some v.
Proof.
  intros G st e v Hinv Hg Ho.
  destruct (resolve_spec G st e Hinv (entry_good_mono _ _ _ (live_pin G st) Hg)) as [H _].
  destruct (H v Ho) as [H1|[_ (p & Hc & Hn)]]; [exact H1|].
  exfalso. apply Hn. unfold entry_good in Hg. rewrite Ho, Hc in Hg. apply Hg.
Qed.

Lemma live_values_intact_in : forall st, reachable crc cfg chk hck st ->
  (forall t e v, In t (vs_tables st) -> In e (tb_entries t) -> te_orig e = Some v -> fst (vs_resolve crc cfg hck st (te_enc e)) = Some v) /\
  (forall e v, In e (vs_index st) -> te_orig e = Some v -> fst (vs_resolve crc cfg hck st (te_enc e)) = Some v).
Proof.
  intros st Hr. destruct (reachable_inv st Hr) as [G Hinv]. split.
  - intros t e v Ht He Ho. destruct (i_tables G st (proj2 Hinv) t Ht) as [_ Hg]. apply (live_resolves G st e v Hinv (Hg e He) Ho).
  - intros e v He Ho. apply (live_resolves G st e v Hinv (i_index G st (proj2 Hinv) e He) Ho).
Qed.

Lemma live_pointers_have_files_in : forall st, reachable crc cfg chk hck st ->
  forall e p, ((exists t, In t (vs_tables st) /\ In e (tb_entries t)) \/ In e (vs_index st)) ->
              te_orig e <> None -> vloc_pointer_of (te_enc e) = Some p ->
              exists f, In f (vs_files st) /\ vf_id f = vpt_file p.
Proof.
  intros st Hr e p Hsrc Ho Hp. destruct (reachable_inv st Hr) as [G Hinv].
  assert (Hg : entry_good (live_ptr G st) e).
  { destruct Hsrc as [(t & Ht & He)|He]; [destruct (i_tables G st (proj2 Hinv) t Ht) as [_ Hg]; apply Hg; exact He | apply (i_index G st (proj2 Hinv) e He)]. }
  unfold entry_good in Hg. destruct (te_orig e) as [v|]; [|contradiction Ho; reflexivity].
  apply pointer_of_classify in Hp. rewrite Hp in Hg. apply Hg.
Qed.

Lemma live_hits_pass_in : forall st, reachable crc cfg chk hck st ->
  forall e p c, ((exists t, In t (vs_tables st) /\ In e (tb_entries t)) \/ In e (vs_index st)) ->
                te_orig e <> None -> vloc_pointer_of (te_enc e) = Some p ->
                vcache_get (vs_cache st) (vpt_file p) (vpt_offset p) = Some c -> vs_hit_ok hck p c = true.
Proof.
  intros st Hr e p c Hsrc Ho Hp Hc. destruct (reachable_inv st Hr) as [G Hinv].
  assert (Hg : entry_good (live_ptr G st) e).
  { destruct Hsrc as [(t & Ht & He)|He]; [destruct (i_tables G st (proj2 Hinv) t Ht) as [_ Hg]; apply Hg; exact He | apply (i_index G st (proj2 Hinv) e He)]. }
  unfold entry_good in Hg. destruct (te_orig e) as [v|]; [|contradiction Ho; reflexivity].
  apply pointer_of_classify in Hp. rewrite Hp in Hg. apply (hit_passes G st p v c Hinv (live_pin G st p v Hg) Hc).
Qed.

Lemma old_reader_never_wrong_in : forall st, reachable crc cfg chk hck st ->
  forall rid ts t e v, In (rid, ts) (vs_readers st) -> In t ts -> In e (tb_entries t) -> te_orig e = Some v ->
    fst (vs_resolve crc cfg hck st (te_enc e)) = Some v \/ fst (vs_resolve crc cfg hck st (te_enc e)) = None.
Proof.
  intros st Hr rid ts t e v H1 H2 H3 Ho. destruct (reachable_inv st Hr) as [G Hinv].
  destruct (resolve_spec G st e Hinv (entry_good_mono _ _ _ (rptr_pin G st) (i_readers G st (proj2 Hinv) rid ts t e H1 H2 H3))) as [H _].
  destruct (H v Ho) as [Hs|[Hn _]]; [left; exact Hs | right; exact Hn].
Qed.

Lemma ids_never_reused_in : forall ops1 ops2 st1 st2,
  vs_run crc cfg chk hck ops1 vs0 = Some st1 -> vs_run crc cfg chk hck ops2 st1 = Some st2 ->
  vs_next st1 <= vs_next st2 /\
  forall f, In f (vs_files st2) -> (exists f1, In f1 (vs_files st1) /\ vf_id f1 = vf_id f) \/ vs_next st1 <= vf_id f.
Proof.
  intros ops1 ops2 st1 st2 H1 H2.
  destruct (vinv_run ops1 _ vs0 st1 vinv_vs0 H1) as (G1 & I1 & _).
  destruct (vinv_run ops2 G1 st1 st2 I1 H2) as (G2 & _ & [Hn Hf]). split; [exact Hn | exact Hf].
Qed.

Lemma old_reader_served_in : chk = true -> forall st, reachable crc cfg chk hck st ->
  forall rid ts t e v, In (rid, ts) (vs_readers st) -> In t ts -> In e (tb_entries t) -> te_orig e = Some v ->
    fst (vs_resolve crc cfg hck st (te_enc e)) = Some v.
Proof.
  intros Hc st Hr rid ts t e v H1 H2 H3 Ho. destruct (reachable_inv st Hr) as [G Hinv].
  apply (live_resolves G st e v Hinv); [|exact Ho].
  apply (entry_good_mono (rptr G st)); [|apply (i_readers G st (proj2 Hinv) rid ts t e H1 H2 H3)].
  intros p w [Hp Hf]. split; [exact Hp | apply Hf; exact Hc].
Qed.

End Proofs.

(* ------------------------------------------------------------------------------ B0 (no hypothesis on the parameters) *)
Lemma flush_entries_map : forall crc cfg mem now st st' es,
  flush_entries crc cfg now st mem = Some (st', es) -> map (fun e => (te_key e, te_orig e)) es = mem.
Proof.
  intros crc cfg. induction mem as [|[k [v|]] r IH]; intros now st st' es H; cbn [flush_entries] in H.
  - injection H as H1 H2. subst. reflexivity.
  - destruct (maybe_separate true (cf_threshold cfg) (vloc_encode (vloc_inline v))).
    + destruct (flush_entries crc cfg now st r) as [[st2 es2]|] eqn:Er; [|discriminate].
      injection H as H1 H2. subst. cbn [map te_key te_orig]. rewrite (IH _ _ _ _ Er). reflexivity.
    + destruct (vs_append crc cfg now st k value) as [[st1 p]|]; [|discriminate].
      destruct (flush_entries crc cfg now st1 r) as [[st2 es2]|] eqn:Er; [|discriminate].
      injection H as H1 H2. subst. cbn [map te_key te_orig]. rewrite (IH _ _ _ _ Er). reflexivity.
    + destruct (flush_entries crc cfg now st r) as [[st2 es2]|] eqn:Er; [|discriminate].
      injection H as H1 H2. subst. cbn [map te_key te_orig]. rewrite (IH _ _ _ _ Er). reflexivity.
  - destruct (flush_entries crc cfg now st r) as [[st2 es2]|] eqn:Er; [|discriminate].
    injection H as H1 H2. subst. cbn [map te_key te_orig]. rewrite (IH _ _ _ _ Er). reflexivity.
Qed.

Lemma cleanup_rt_tables : forall chk st, vs_tables (vs_cleanup_rt chk st) = vs_tables st.
Proof.
  intros chk st. unfold vs_cleanup_rt. destruct (chk && negb (no_readers st)); [reflexivity|].
  destruct (cleanup_same st) as (_ & _ & Et & _). exact Et.
Qed.
Lemma cleanup_rt_subset : forall chk st f, In f (vs_files (vs_cleanup_rt chk st)) -> In f (vs_files st).
Proof.
  intros chk st f H. unfold vs_cleanup_rt in H. destruct (chk && negb (no_readers st)); [exact H | apply cleanup_files_subset; exact H].
Qed.

Theorem flush_records_values : forall crc cfg chk, flush_records_values_stmt crc cfg chk.
Proof.
  intros crc cfg chk now tid mem st st' H. unfold vs_flush in H.
  destruct (flush_entries crc cfg now st mem) as [[st1 es]|] eqn:Ef; [|discriminate]. injection H as H. subst st'.
  exists {| tb_id := tid; tb_entries := es; tb_oldest := table_oldest es |}.
  split; [|split; [reflexivity | apply (flush_entries_map crc cfg mem now st st1 es Ef)]].
  rewrite cleanup_rt_tables.
  cbn [set_index set_tables vs_tables]. apply in_app_iff. right. left. reflexivity.
Qed.

(* ------------------------------------------------------------------------------ B3: fsync order *)
Definition sync_but_active (st : vstate) : Prop :=
  forall f, In f (vs_files st) -> vf_id f <> vs_active st -> vf_synced f = true.
Definition all_synced (st : vstate) : Prop := forall f, In f (vs_files st) -> vf_synced f = true.

Lemma sba_append : forall crc cfg now st k v st' p, sync_but_active st -> vs_append crc cfg now st k v = Some (st', p) -> sync_but_active st'.
Proof.
  intros crc cfg now st k v st' p Hs H. unfold vs_append in H.
  set (st1 := if vs_rotate_needed cfg st then vs_rotate cfg now st else st) in *.
  assert (S1 : sync_but_active st1).
  { unfold st1. destruct (vs_rotate_needed cfg st); [|exact Hs].
    intros f' Hin Hne. cbn [vs_rotate vs_files vs_active] in *. unfold VLOG_ROTATE_SYNCS_OLD in Hin.
    apply in_app_iff in Hin. destruct Hin as [Hin|[E|[]]].
    - apply in_update_file in Hin. destruct Hin as (f & Hin & E). subst f'.
      destruct (N.eqb_spec (vf_id f) (vs_active st)) as [Ea|Na]; [reflexivity | apply Hs; assumption].
    - subst f'. cbn [vf_id] in Hne. contradiction Hne. reflexivity. }
  destruct (find_file (vs_active st1) (vs_files st1)) as [f|]; [|discriminate].
  destruct (fits ELF (nlen k) && fits ELF (nlen v) && vpointer_in_range (snd (vwriter_append crc (vs_active st1) (vf_bytes f) k v))); [|discriminate].
  injection H as Hst _. subst st'. intros f' Hin Hne. cbn [set_files vs_files vs_active] in *.
  apply in_update_file in Hin. destruct Hin as (f0 & Hin & E). subst f'.
  destruct (N.eqb_spec (vf_id f0) (vs_active st1)) as [Ea|Na]; [cbn [vf_id] in Hne; contradiction | apply S1; assumption].
Qed.

Lemma sba_flush_entries : forall crc cfg mem now st st' es,
  sync_but_active st -> flush_entries crc cfg now st mem = Some (st', es) -> sync_but_active st'.
Proof.
  intros crc cfg. induction mem as [|[k [v|]] r IH]; intros now st st' es Hs H; cbn [flush_entries] in H.
  - injection H as H1 H2. subst. exact Hs.
  - destruct (maybe_separate true (cf_threshold cfg) (vloc_encode (vloc_inline v))).
    + destruct (flush_entries crc cfg now st r) as [[st2 es2]|] eqn:Er; [|discriminate].
      injection H as H1 H2. subst. apply (IH _ _ _ _ Hs Er).
    + destruct (vs_append crc cfg now st k value) as [[st1 p]|] eqn:Ea; [|discriminate].
      destruct (flush_entries crc cfg now st1 r) as [[st2 es2]|] eqn:Er; [|discriminate].
      injection H as H1 H2. subst. apply (IH _ _ _ _ (sba_append _ _ _ _ _ _ _ _ Hs Ea) Er).
    + destruct (flush_entries crc cfg now st r) as [[st2 es2]|] eqn:Er; [|discriminate].
      injection H as H1 H2. subst. apply (IH _ _ _ _ Hs Er).
  - destruct (flush_entries crc cfg now st r) as [[st2 es2]|] eqn:Er; [|discriminate].
    injection H as H1 H2. subst. apply (IH _ _ _ _ Hs Er).
Qed.

Lemma all_synced_cleanup : forall st, all_synced st -> all_synced (vs_cleanup st).
Proof. intros st H f Hin. apply H. apply cleanup_files_subset. exact Hin. Qed.
Lemma all_synced_cleanup_rt : forall chk st, all_synced st -> all_synced (vs_cleanup_rt chk st).
Proof. intros chk st H f Hin. apply H. apply (cleanup_rt_subset chk). exact Hin. Qed.

Lemma all_synced_step : forall crc cfg chk hck st o st', all_synced st -> vs_step crc cfg chk hck st o = Some st' -> all_synced st'.
Proof.
  intros crc cfg chk hck st o st' Hs H. destruct o as [now tid mem|ins tid out|keep|rid|rid|tid i|i|rid tid i]; cbn [vs_step] in H.
  - unfold vs_flush in H. destruct (flush_entries crc cfg now st mem) as [[st1 es]|] eqn:Ef; [|discriminate].
    injection H as H. subst st'. apply all_synced_cleanup_rt.
    assert (S1 : sync_but_active st1) by (apply (sba_flush_entries _ _ _ _ _ _ _ (fun f Hin _ => Hs f Hin) Ef)).
    intros f' Hin. change (if VLOG_FLUSH_SYNCS_ACTIVE then vs_sync_active st1 else st1) with (vs_sync_active st1) in Hin.
    cbn [set_index set_tables vs_files vs_sync_active set_files] in Hin.
    apply in_update_file in Hin. destruct Hin as (f & Hin & E). subst f'.
    destruct (N.eqb_spec (vf_id f) (vs_active st1)) as [Ea|Na]; [reflexivity | apply S1; assumption].
  - unfold vs_compact in H.
    destruct (negb (forallb (fun i => existsb (fun t => N.eqb (tb_id t) i) (vs_tables st)) ins)); [discriminate|].
    destruct (pick_entries (flat_map tb_entries (filter (is_input ins) (vs_tables st))) out) as [es|]; [|discriminate].
    injection H as H. subst st'. apply all_synced_cleanup_rt. exact Hs.
  - injection H as H. subst st'. unfold vs_reopen. apply all_synced_cleanup. intros f' Hin. cbn [vs_files] in Hin.
    apply in_update_file in Hin. destruct Hin as (f & Hin & E). subst f'.
    destruct (N.eqb (vf_id f) (vs_active st)); [reflexivity | apply Hs; exact Hin].
  - injection H as H. subst st'. exact Hs.
  - injection H as H. subst st'. exact Hs.
  - injection H as H. subst st'. unfold vs_read_entry. destruct (entry_at (vs_tables st) tid i); exact Hs.
  - injection H as H. subst st'. unfold vs_read_entry. destruct (nth_error (vs_index st) i); exact Hs.
  - injection H as H. subst st'. unfold vs_read_entry. destruct (entry_at (reader_tables rid (vs_readers st)) tid i); exact Hs.
Qed.

Theorem files_synced : forall crc cfg chk hck, files_synced_stmt crc cfg chk hck.
Proof.
  intros crc cfg chk hck st [ops H].
  assert (Hs0 : all_synced vs0) by (intros f []).
  assert (G : forall l s, all_synced s -> vs_run crc cfg chk hck l s = Some st -> all_synced st).
  { induction l as [|o r IH]; intros s Hs Hr; cbn [vs_run] in Hr.
    - injection Hr as Hr. subst. exact Hs.
    - destruct (vs_step crc cfg chk hck s o) as [s1|] eqn:Es; [|discriminate].
      apply (IH s1 (all_synced_step _ _ _ _ _ _ _ Hs Es) Hr). }
  apply (G ops vs0 Hs0). exact H.
Qed.

(* ------------------------------------------------------------------------------ D: damage (property C16, finding F41) *)
Lemma vslice_length : forall f o n, length (vslice f o n) = n.
Proof.
  intros f o n. unfold vslice. rewrite app_length, repeat_length.
  assert (H : (length (firstn n (skipn o f)) <= n)%nat) by apply firstn_le_length. lia.
Qed.

(* what the file path guarantees at level Full, on ANY bytes: the value has the pointer's value size and, with the key
   read beside it, the pointer's checksum *)
Opaque ELF ECL.
Lemma vlog_read_full : forall crc f p v, vlog_read crc VLOG_CK_FULL f p = Some v ->
  nlen v = vpt_vsize p /\ exists k, crc32u crc (k ++ v) = vpt_crc p.
Proof.
  intros crc f p v H. unfold vlog_read in H. cbv zeta in H.
  set (kn := N.to_nat (vpt_ksize p)) in *. set (vn := N.to_nat (vpt_vsize p)) in *.
  set (e := vslice f (N.to_nat (vpt_offset p)) (ELF + ELF + kn + vn + ECL)) in *.
  destruct (negb (N.eqb (be_dec (firstn ELF e)) (vpt_ksize p)) || negb (N.eqb (be_dec (firstn ELF (skipn ELF e))) (vpt_vsize p))); [discriminate|].
  destruct (negb (N.eqb VLOG_CK_FULL VLOG_CK_DISABLED) && negb (N.eqb (be_dec (firstn ECL (skipn (ELF + ELF + kn + vn) e))) (vpt_crc p))); [discriminate|].
  rewrite N.eqb_refl in H. cbn [andb] in H.
  destruct (N.eqb (crc32u crc (firstn kn (skipn (ELF + ELF) e) ++ firstn vn (skipn (ELF + ELF + kn) e))) (vpt_crc p)) eqn:E;
    cbn [negb] in H; [|discriminate].
  injection H as H. subst v. split.
  - unfold nlen. rewrite firstn_length, skipn_length. unfold e. rewrite vslice_length.
    replace (Nat.min vn (ELF + ELF + kn + vn + ECL - (ELF + ELF + kn))) with vn by lia.
    unfold vn. apply Nnat.N2Nat.id.
  - exists (firstn kn (skipn (ELF + ELF) e)). apply N.eqb_eq. exact E.
Qed.
Transparent ELF ECL.

Section Damage.
Variable crc : list byte -> N.
Variable cfg : vcfg.
Variable chk : bool.
Variable hck : bool.
Hypothesis FULL : cf_level cfg = VLOG_CK_FULL.

(* the only fact about a damaged store: every cache entry's checksum is the checksum of its value under some key *)
Definition cache_sound (c : vcache) : Prop := forall f o x w, In ((f, o), (x, w)) c -> exists k, crc32u crc (k ++ w) = x.

Lemma get_file_sound : forall st p, cache_sound (vs_cache st) ->
  cache_sound (snd (vs_get_file crc cfg st p)) /\
  forall v, fst (vs_get_file crc cfg st p) = Some v -> get_passes_pointer_check crc p v.
Proof.
  intros st p Hs. unfold vs_get_file. destruct (find_file (vpt_file p) (vs_files st)) as [fl|].
  - rewrite FULL. destruct (vlog_read crc VLOG_CK_FULL (vf_bytes fl) p) as [w|] eqn:Er; cbn [fst snd].
    + destruct (vlog_read_full crc _ p w Er) as [Hl Hk]. split.
      * intros f o x w' [E|Hin]; [|apply (Hs f o x w' Hin)]. injection E as E1 E2 E3 E4. subst f o x w'. exact Hk.
      * intros v Hv. injection Hv as Hv. subst v. split; assumption.
    + split; [exact Hs | intros v Hv; discriminate Hv].
  - cbn [fst snd]. split; [exact Hs | intros v Hv; discriminate Hv].
Qed.

Lemma get_cache_sound : forall st p, cache_sound (vs_cache st) -> cache_sound (snd (vs_get crc cfg hck st p)).
Proof.
  intros st p Hs. unfold vs_get. destruct (vcache_get (vs_cache st) (vpt_file p) (vpt_offset p)) as [e|].
  - destruct (vs_hit_ok hck p e); [exact Hs | apply (get_file_sound st p Hs)].
  - apply (get_file_sound st p Hs).
Qed.

Lemma get_checked : hck = true -> forall st p v, cache_sound (vs_cache st) ->
  fst (vs_get crc cfg hck st p) = Some v -> get_passes_pointer_check crc p v.
Proof.
  intros Hh st p v Hs H. unfold vs_get in H.
  destruct (vcache_get (vs_cache st) (vpt_file p) (vpt_offset p)) as [[x w]|] eqn:Ec; [|apply (proj2 (get_file_sound st p Hs) v H)].
  destruct (vs_hit_ok hck p (x, w)) eqn:Eh; [|apply (proj2 (get_file_sound st p Hs) v H)].
  cbn [fst snd] in H. injection H as H. subst w.
  unfold vs_hit_ok in Eh. rewrite Hh in Eh. cbn [fst snd] in Eh. apply andb_true_iff in Eh. destruct Eh as [E1 E2].
  apply N.eqb_eq in E1. apply N.eqb_eq in E2. subst x. split; [exact E2|].
  apply (Hs _ _ _ _ (vcache_get_in _ _ _ _ Ec)).
Qed.

Lemma resolve_cache_sound : forall st enc, cache_sound (vs_cache st) -> cache_sound (snd (vs_resolve crc cfg hck st enc)).
Proof.
  intros st enc Hs. unfold vs_resolve. destruct (venc_classify enc); [exact Hs | apply get_cache_sound; exact Hs | exact Hs].
Qed.

Lemma append_cache : forall now st k v st' p, vs_append crc cfg now st k v = Some (st', p) -> vs_cache st' = vs_cache st.
Proof.
  intros now st k v st' p H. unfold vs_append in H.
  set (st1 := if vs_rotate_needed cfg st then vs_rotate cfg now st else st) in *.
  assert (E1 : vs_cache st1 = vs_cache st) by (unfold st1; destruct (vs_rotate_needed cfg st); reflexivity).
  destruct (find_file (vs_active st1) (vs_files st1)) as [f|]; [|discriminate].
  destruct (fits ELF (nlen k) && fits ELF (nlen v) && vpointer_in_range (snd (vwriter_append crc (vs_active st1) (vf_bytes f) k v))); [|discriminate].
  injection H as H _. subst st'. exact E1.
Qed.

Lemma flush_entries_cache : forall mem now st st' es, flush_entries crc cfg now st mem = Some (st', es) -> vs_cache st' = vs_cache st.
Proof.
  induction mem as [|[k [v|]] r IH]; intros now st st' es H; cbn [flush_entries] in H.
  - injection H as H1 H2. subst. reflexivity.
  - destruct (maybe_separate true (cf_threshold cfg) (vloc_encode (vloc_inline v))).
    + destruct (flush_entries crc cfg now st r) as [[st2 es2]|] eqn:Er; [|discriminate].
      injection H as H1 H2. subst. apply (IH _ _ _ _ Er).
    + destruct (vs_append crc cfg now st k value) as [[st1 p]|] eqn:Ea; [|discriminate].
      destruct (flush_entries crc cfg now st1 r) as [[st2 es2]|] eqn:Er; [|discriminate].
      injection H as H1 H2. subst. rewrite (IH _ _ _ _ Er). apply (append_cache _ _ _ _ _ _ Ea).
    + destruct (flush_entries crc cfg now st r) as [[st2 es2]|] eqn:Er; [|discriminate].
      injection H as H1 H2. subst. apply (IH _ _ _ _ Er).
  - destruct (flush_entries crc cfg now st r) as [[st2 es2]|] eqn:Er; [|discriminate].
    injection H as H1 H2. subst. apply (IH _ _ _ _ Er).
Qed.

Lemma cleanup_rt_cache : forall st, vs_cache (vs_cleanup_rt chk st) = vs_cache st.
Proof.
  intros st. unfold vs_cleanup_rt. destruct (chk && negb (no_readers st)); [reflexivity|].
  destruct (cleanup_same st) as (_ & _ & _ & Ec & _). exact Ec.
Qed.

Lemma read_entry_sound : forall st oe, cache_sound (vs_cache st) -> cache_sound (vs_cache (vs_read_entry crc cfg hck st oe)).
Proof.
  intros st oe Hs. unfold vs_read_entry. destruct oe as [e|]; [|exact Hs].
  cbn [set_cache vs_cache]. apply resolve_cache_sound. exact Hs.
Qed.

Lemma step_sound : forall st o st', cache_sound (vs_cache st) -> vs_step crc cfg chk hck st o = Some st' -> cache_sound (vs_cache st').
Proof.
  intros st o st' Hs H. destruct o as [now tid mem|ins tid out|keep|rid|rid|tid i|i|rid tid i]; cbn [vs_step] in H.
  - unfold vs_flush in H. destruct (flush_entries crc cfg now st mem) as [[st1 es]|] eqn:Ef; [|discriminate].
    injection H as H. subst st'. rewrite cleanup_rt_cache. cbn [set_index set_tables vs_cache].
    change (if VLOG_FLUSH_SYNCS_ACTIVE then vs_sync_active st1 else st1) with (vs_sync_active st1).
    cbn [vs_sync_active set_files vs_cache]. rewrite (flush_entries_cache _ _ _ _ _ Ef). exact Hs.
  - unfold vs_compact in H.
    destruct (negb (forallb (fun i => existsb (fun t => N.eqb (tb_id t) i) (vs_tables st)) ins)); [discriminate|].
    destruct (pick_entries (flat_map tb_entries (filter (is_input ins) (vs_tables st))) out) as [es|]; [|discriminate].
    injection H as H. subst st'. rewrite cleanup_rt_cache. exact Hs.
  - injection H as H. subst st'. unfold vs_reopen.
    match goal with |- cache_sound (vs_cache (vs_cleanup ?s)) => destruct (cleanup_same s) as (_ & _ & _ & Ec & _); rewrite Ec end.
    cbn [vs_cache]. destruct keep; [exact Hs | intros f o x w []].
  - injection H as H. subst st'. exact Hs.
  - injection H as H. subst st'. exact Hs.
  - injection H as H. subst st'. apply read_entry_sound. exact Hs.
  - injection H as H. subst st'. apply read_entry_sound. exact Hs.
  - injection H as H. subst st'. apply read_entry_sound. exact Hs.
Qed.

Lemma ds_step_sound : forall st d st', cache_sound (vs_cache st) -> ds_step crc cfg chk hck st d = Some st' -> cache_sound (vs_cache st').
Proof.
  intros st d st' Hs H. destruct d as [o|fs a n|p]; cbn [ds_step] in H.
  - apply (step_sound st o st' Hs H).
  - injection H as H. subst st'. exact Hs.
  - injection H as H. subst st'. cbn [set_cache vs_cache]. apply get_cache_sound. exact Hs.
Qed.

Lemma ds_run_sound : forall ds st st', cache_sound (vs_cache st) -> ds_run crc cfg chk hck ds st = Some st' -> cache_sound (vs_cache st').
Proof.
  induction ds as [|d r IH]; intros st st' Hs H; cbn [ds_run] in H.
  - injection H as H. subst st'. exact Hs.
  - destruct (ds_step crc cfg chk hck st d) as [st1|] eqn:Es; [|discriminate].
    apply (IH st1 st' (ds_step_sound st d st1 Hs Es) H).
Qed.

Lemma dreachable_sound : forall st, dreachable crc cfg chk hck st -> cache_sound (vs_cache st).
Proof. intros st [ds H]. apply (ds_run_sound ds vs0 st); [intros f o x w [] | exact H]. Qed.

Lemma damaged_get_checked_in : hck = true -> forall st, dreachable crc cfg chk hck st ->
  forall p v, fst (vs_get crc cfg hck st p) = Some v -> get_passes_pointer_check crc p v.
Proof. intros Hh st Hr p v H. apply (get_checked Hh st p v (dreachable_sound st Hr) H). Qed.

Lemma damaged_resolve_checked_in : hck = true -> forall st, dreachable crc cfg chk hck st ->
  forall enc p v, vloc_pointer_of enc = Some p -> fst (vs_resolve crc cfg hck st enc) = Some v -> get_passes_pointer_check crc p v.
Proof.
  intros Hh st Hr enc p v Hp H. apply pointer_of_classify in Hp. unfold vs_resolve in H. rewrite Hp in H.
  apply (damaged_get_checked_in Hh st Hr p v H).
Qed.

Lemma damaged_get_written_or_collision_in : hck = true -> forall st, dreachable crc cfg chk hck st ->
  forall p k0 v0, issued_for crc p k0 v0 ->
    fst (vs_get crc cfg hck st p) = Some v0 \/ fst (vs_get crc cfg hck st p) = None \/
    exists v, fst (vs_get crc cfg hck st p) = Some v /\ collision_with crc k0 v0 v.
Proof.
  intros Hh st Hr p k0 v0 [Hv Hc].
  destruct (fst (vs_get crc cfg hck st p)) as [v|] eqn:Eg; [|right; left; reflexivity].
  destruct (damaged_get_checked_in Hh st Hr p v Eg) as [Hl [k Hk]].
  destruct (list_eq_dec N.eq_dec v v0) as [E|Hne]; [left; subst; reflexivity|].
  right. right. exists v. split; [reflexivity|]. split; [exact Hne|]. split; [congruence|]. exists k. congruence.
Qed.
End Damage.

(* ------------------------------------------------------------------------------ the statements of VlogSpec.v *)
Theorem live_values_intact : forall crc cfg chk hck, live_values_intact_stmt crc cfg chk hck.
Proof. intros crc cfg chk hck H. apply (live_values_intact_in crc cfg chk hck H). Qed.
Theorem live_pointers_have_files : forall crc cfg chk hck, live_pointers_have_files_stmt crc cfg chk hck.
Proof. intros crc cfg chk hck H. apply (live_pointers_have_files_in crc cfg chk hck H). Qed.
Theorem old_reader_never_wrong : forall crc cfg chk hck, old_reader_never_wrong_stmt crc cfg chk hck.
Proof. intros crc cfg chk hck H. apply (old_reader_never_wrong_in crc cfg chk hck H). Qed.
Theorem ids_never_reused : forall crc cfg chk hck, ids_never_reused_stmt crc cfg chk hck.
Proof. intros crc cfg chk hck H. apply (ids_never_reused_in crc cfg chk hck H). Qed.
Theorem live_hits_pass : forall crc cfg chk hck, live_hits_pass_stmt crc cfg chk hck.
Proof. intros crc cfg chk hck H. apply (live_hits_pass_in crc cfg chk hck H). Qed.

(* B4, positive: with the test at the run-time call sites every open reader is served.  The flag is the GENERATED one:
   the proof needs VLOG_CLEANUP_CHECKS_READERS to be (convertible to) true *)
Theorem old_reader_served : old_reader_served_stmt.
Proof.
  intros H crc cfg hck. unfold old_reader_safe_stmt.
  apply (old_reader_served_in crc cfg VLOG_CLEANUP_CHECKS_READERS hck H eq_refl).
Qed.

Theorem cleanup_runs_without_readers : cleanup_runs_without_readers_stmt.
Proof. intros chk st H. unfold vs_cleanup_rt, no_readers. rewrite H. cbn [negb]. rewrite andb_false_r. reflexivity. Qed.
Theorem cleanup_deferred_with_readers : cleanup_deferred_with_readers_stmt.
Proof.
  intros st H. unfold vs_cleanup_rt, no_readers. destruct (vs_readers st); [contradiction H; reflexivity | reflexivity].
Qed.

(* D, positive: the GENERATED cache rule.  The proof needs VLOG_CACHE_HIT_CHECKED to be (convertible to) true: on a tree
   with the repair of F41 undone this theorem does not build *)
Theorem damaged_reads_checked : damaged_reads_checked_stmt.
Proof.
  intros crc cfg chk. split; [|split].
  - intros F. apply (damaged_get_checked_in crc cfg chk VLOG_CACHE_HIT_CHECKED F eq_refl).
  - intros F. apply (damaged_resolve_checked_in crc cfg chk VLOG_CACHE_HIT_CHECKED F eq_refl).
  - intros F. apply (damaged_get_written_or_collision_in crc cfg chk VLOG_CACHE_HIT_CHECKED F eq_refl).
Qed.

(* ------------------------------------------------------------------------------ B4: the rule before the repair (regression record) *)
Definition w_crc (d : list byte) : N := 0.
Definition w_cfg : vcfg := {| cf_threshold := 2; cf_max := 40; cf_level := 1; cf_index := false |}.
Definition w_flush1 : vop := VFlush 0 10 [([107], Some [7; 7; 7; 7])].
Definition w_flush2 : vop := VFlush 0 11 [([107], Some [6; 6; 6])].
Definition w_out : list (list byte * list byte) :=
  Eval vm_compute in
    match vs_run w_crc w_cfg false true [w_flush1; w_flush2] vs0 with
    | Some s => match find_table 11 (vs_tables s) with Some t => map (fun e => (te_key e, te_enc e)) (tb_entries t) | None => [] end
    | None => []
    end.
(* two flushes (the first fills file 1, the second goes to file 2), a reader takes the table set, a compaction keeps
   only the newer version.  Without the test (chk = false) its clean-up removes file 1 and the reader's entry of table 10
   no longer resolves; with the test (w_st_chk) file 1 stays until the reader has gone and the next flush runs (w_st_after) *)
Definition w_ops : list vop := [w_flush1; w_flush2; VReaderOpen 1; VCompact [10; 11] 12 w_out].
Definition w_st : vstate := Eval vm_compute in match vs_run w_crc w_cfg false true w_ops vs0 with Some s => s | None => vs0 end.
Definition w_ts : list vtable := Eval vm_compute in reader_tables 1 (vs_readers w_st).
Definition w_t : vtable := Eval vm_compute in match find_table 10 w_ts with Some t => t | None => {| tb_id := 0; tb_entries := []; tb_oldest := 0 |} end.
Definition w_e : tentry := Eval vm_compute in match tb_entries w_t with e :: _ => e | [] => {| te_key := []; te_enc := []; te_orig := None |} end.
Definition w_st_chk : vstate := Eval vm_compute in match vs_run w_crc w_cfg true true w_ops vs0 with Some s => s | None => vs0 end.
Definition w_ops_after : list vop := w_ops ++ [VReaderClose 1; VFlush 0 13 [([108], Some [5; 5; 5])]].
Definition w_st_after : vstate := Eval vm_compute in match vs_run w_crc w_cfg true true w_ops_after vs0 with Some s => s | None => vs0 end.

Theorem old_reader_unprotected_without_check : old_reader_unprotected_without_check_stmt.
Proof.
  exists w_crc, w_cfg. intros hck Hsafe.
  assert (Hrun : vs_run w_crc w_cfg false hck w_ops vs0 = Some w_st) by (destruct hck; vm_compute; reflexivity).
  assert (Hc : fst (vs_resolve w_crc w_cfg hck w_st (te_enc w_e)) = Some [7; 7; 7; 7]).
  { apply (Hsafe w_st (ex_intro _ w_ops Hrun) 1 w_ts w_t w_e).
    - vm_compute. left. reflexivity.
    - vm_compute. left. reflexivity.
    - vm_compute. left. reflexivity.
    - vm_compute. reflexivity. }
  destruct hck; vm_compute in Hc; discriminate Hc.
Qed.

(* ------------------------------------------------------------------------------ D: the cache rule before the repair (regression record of F41) *)
(* checksum = the last byte: two values of the same length that end differently never collide, under any key *)
Definition x_crc (d : list byte) : N := last d 0.
Definition x_cfg : vcfg := {| cf_threshold := 0; cf_max := 4096; cf_level := VLOG_CK_FULL; cf_index := false |}.
Definition x_k0 : list byte := [107; 48].
Definition x_k2 : list byte := [107; 50].
Definition x_flush1 : vop := VFlush 0 10 [(x_k0, Some [7; 7; 7]); ([107; 49], Some [8; 8; 8; 8; 8])].
Definition x_flush2 : vop := VFlush 0 11 [(x_k2, Some [9; 9; 9])].
Definition x_st1 : vstate := Eval vm_compute in match vs_run x_crc x_cfg true true [x_flush1] vs0 with Some s => s | None => vs0 end.
(* the damage: file 1 keeps its header (31 bytes) only *)
Definition x_cut : dop := Eval vm_compute in d_cut 1 31 x_st1.
(* flush (k0, k1 -> file 1 at offsets 31, 48), the cut, reopen (the writer continues at offset 31), flush (k2 -> file 1 at
   offset 31), a read of k2 through the new table (fills the cache at (1, 31)); then the OLD pointer of k0 is read *)
Definition x_ds : list dop := [DOp x_flush1; x_cut; DOp (VReopen false); DOp x_flush2; DOp (VReadLive 11 0)].
Definition x_st (hck : bool) : vstate := match ds_run x_crc x_cfg true hck x_ds vs0 with Some s => s | None => vs0 end.
Definition x_st_old : vstate := Eval vm_compute in x_st false.
Definition x_st_new : vstate := Eval vm_compute in x_st true.
Definition x_ptr (tid : N) (st : vstate) : vpointer :=
  match entry_at (vs_tables st) tid 0 with
  | Some e => match vloc_pointer_of (te_enc e) with Some p => p | None => Build_vpointer 0 0 0 0 0 0 end
  | None => Build_vpointer 0 0 0 0 0 0
  end.
Definition x_p0 : vpointer := Eval vm_compute in x_ptr 10 x_st_old.
Definition x_p2 : vpointer := Eval vm_compute in x_ptr 11 x_st_old.

Lemma x_crc_9 : forall k, crc32u x_crc (k ++ [9; 9; 9]) = 9.
Proof.
  intros k. unfold crc32u, x_crc. change (k ++ [9; 9; 9]) with (k ++ [9; 9] ++ [9]). rewrite app_assoc, last_last.
  vm_compute. reflexivity.
Qed.

Theorem cache_unchecked_serves_other_entry : cache_unchecked_serves_other_entry_stmt.
Proof.
  exists x_crc, x_cfg. split; [reflexivity|]. intros chk Hstmt.
  assert (Hrun : ds_run x_crc x_cfg chk false x_ds vs0 = Some x_st_old) by (destruct chk; vm_compute; reflexivity).
  assert (Hiss : issued_for x_crc x_p0 x_k0 [7; 7; 7]) by (split; vm_compute; reflexivity).
  assert (Hg : fst (vs_get x_crc x_cfg false x_st_old x_p0) = Some [9; 9; 9]) by (vm_compute; reflexivity).
  destruct (Hstmt eq_refl x_st_old (ex_intro _ x_ds Hrun) x_p0 x_k0 [7; 7; 7] Hiss) as [H|[H|(v & Hv & _ & _ & k & Hk)]].
  - rewrite Hg in H. discriminate H.
  - rewrite Hg in H. discriminate H.
  - rewrite Hg in Hv. injection Hv as Hv. subst v. rewrite x_crc_9 in Hk. vm_compute in Hk. discriminate Hk.
Qed.
