(* Lsm/VlogOpenSpec.v — statements about Lsm/VlogOpen.v (no proofs here). *)
From Coq Require Import List NArith Arith Bool.
From SKV Require Import Params Codec.VlogParams Codec.Wal Codec.VlogPtr Lsm.VlogOpen.
Import ListNotations.
Local Open Scope N_scope.

(* the header the writer writes is the header the open accepts *)
Definition header_accepted_stmt : Prop :=
  vopen_params_ok = true ->
  forall id created maxsize, id < 2 ^ 32 -> hdr_accepts id (hdr_pad (vheader_bytes id created maxsize)) = true.

(* whatever prefix of its header a crash or a failed write leaves of a new file — nothing, a torn header, the whole
   header —, the directory opens, and once the writer has opened the file it starts with a complete header that the
   next open accepts *)
Definition every_header_prefix_opens_stmt (empties : bool) : Prop :=
  vopen_params_ok = true ->
  forall id created maxsize (n : nat), id < 2 ^ 32 ->
    exists b', vopen_file empties id (firstn n (vheader_bytes id created maxsize)) = Some b' /\
      forall created' maxsize',
        let f := vwriter_open id created' maxsize' b' in
        hdr_accepts id (hdr_pad f) = true /\ vopen_file empties id f = Some f.

(* the open changes nothing but a torn header: a file it accepts is kept byte for byte, unless it is shorter than a
   header (no pointer can name an offset inside such a file: entries start at HEADER_SIZE) *)
Definition open_keeps_or_empties_torn_stmt : Prop :=
  forall empties id b b', vopen_file empties id b = Some b' ->
    b' = b \/ (empties = true /\ 0 < nlen b /\ nlen b < VLOG_HEADER_SIZE /\ b' = []).

(* without the emptying (the code before the repair) a one-byte header refuses the directory *)
Definition torn_header_refused_without_repair_stmt : Prop :=
  exists id created maxsize (n : nat),
    id < 2 ^ 32 /\ (n < HSZ)%nat /\ vopen_file false id (firstn n (vheader_bytes id created maxsize)) = None.
