(* Lsm/CompactKey.v — model of CompactionIterator::process_accumulated_versions (src/iter.rs):
   what a compaction keeps of the versions of ONE user key, given the active snapshot horizons.
   Transcribed branch by branch (including the order of the stale/output decision chains).
   Definitions only; statements in CompactKeySpec.v, proofs in CompactKey_proofs.v. *)
From Coq Require Import List NArith Bool.
Import ListNotations.
Local Open Scope N_scope.

(* InternalKeyKind as the API produces it *)
Inductive ckind := CDel | CSoft | CSet | CRep.
Definition is_hard (k : ckind) : bool := match k with CDel => true | _ => false end.
Definition is_tomb (k : ckind) : bool := match k with CDel | CSoft => true | _ => false end.
Definition is_rep (k : ckind) : bool := match k with CRep => true | _ => false end.

Record ver := { vseq : N; vkind : ckind; vts : N }.

(* SnapshotVisibility; snaps ascending *)
Inductive vis := Bounded (s : N) | NoSnap | Newer.
Fixpoint earliest (snaps : list N) (q : N) : option N :=
  match snaps with [] => None | s :: r => if q <=? s then Some s else earliest r q end.
Definition visibility (snaps : list N) (q : N) : vis :=
  match snaps with
  | [] => NoSnap
  | _ => match earliest snaps q with Some s => Bounded s | None => Newer end
  end.
Definition same_boundary (a b : vis) : bool :=
  match a, b with
  | Bounded x, Bounded y => x =? y
  | Newer, Newer => true
  | NoSnap, NoSnap => true
  | _, _ => false
  end.

Section CK.
Variables (bottom versioning : bool) (retention now : N) (snaps : list N).

(* one pass newest -> oldest: the keep/drop decision of every version.
   barrier = a newer REPLACE has been passed (replace_seen);
   nbar = a newer hard delete or REPLACE has been passed in the same visibility boundary
   (newer_barrier; reset when the boundary changes between two consecutive versions) *)
Fixpoint ck_decide (latest_del_bottom : bool) (i : nat) (newer : option vis) (barrier nbar : bool) (l : list ver)
  : list (ver * bool) :=
  match l with
  | [] => []
  | v :: r =>
    let is_latest := Nat.eqb i 0 in
    let cur := visibility snaps (vseq v) in
    (* a newer barrier makes this one redundant only for readers that see both *)
    let nbar :=
      match newer with
      | Some nv => if negb (same_boundary nv cur) then false else nbar
      | None => nbar
      end in
    let superseded :=
      match newer with
      | Some nv =>
        let outside_retention := (0 <? retention) && (retention <? (now - vts v)) in
        (* a hard delete above the bottom level is not dropped as superseded either, unless a
           newer hard delete / replace already erases what it erases *)
        let barrier_above_bottom := versioning && negb bottom && is_hard (vkind v) && negb nbar in
        (negb versioning || outside_retention) && negb barrier_above_bottom
          && negb is_latest && same_boundary nv cur
      | None => false
      end in
    let required := negb superseded && match cur with Bounded _ => true | _ => false end in
    let hard := is_hard (vkind v) in
    let rep := is_rep (vkind v) in
    let stale :=
      if superseded then true
      else if latest_del_bottom then true
      else if required then false
      else if is_latest && negb hard && negb rep then false
      else if is_latest && hard && bottom then false      (* tombstone kept: an older snapshot still reads below it *)
      else if is_latest && hard && negb bottom then false
      else if is_latest && rep then false
      else if hard then negb (versioning && negb bottom && negb nbar)   (* an older hard delete stays above the bottom level under versioning (it erases versions that may sit deeper), unless a newer barrier does that job *)
      else if barrier then true
      else if negb versioning then true
      else if 0 <? retention then (retention <? (now - vts v)) else false in
    let output :=
      if superseded then false
      else if latest_del_bottom then false
      else if stale then false
      else if versioning || required then true
      else is_latest in
    (v, output) :: ck_decide latest_del_bottom (S i) (Some cur) (barrier || rep) (nbar || hard || rep) r
  end.

(* with versioning a dropped barrier (hard delete / replace) is restored when an older version is kept *)
Definition ck_fixup (ds : list (ver * bool)) : list (ver * bool) :=
  snd (fold_right (fun d st =>
         let '(older_kept, acc) := st in
         let k := snd d || (older_kept && (is_hard (vkind (fst d)) || is_rep (vkind (fst d)))) in
         (older_kept || k, (fst d, k) :: acc)) (false, []) ds).

(* vs: the versions of one key, newest first (seq descending, distinct) — what the code has after
   its sort + dedup *)
Definition compact_key (vs : list ver) : list ver :=
  let latest_del_bottom :=
    match vs with
    | v :: _ => bottom && is_hard (vkind v) &&
                match snaps with [] => true | oldest :: _ => vseq v <=? oldest end
    | [] => false
    end in
  let ds := ck_decide latest_del_bottom 0 None false false vs in
  map fst (filter snd (if versioning then ck_fixup ds else ds)).
End CK.

(* insertion sort by seq descending + dedup of equal seqs, as process_accumulated_versions does *)
Fixpoint insert_desc (v : ver) (l : list ver) : list ver :=
  match l with
  | [] => [v]
  | x :: r => if vseq x <? vseq v then v :: l else x :: insert_desc v r
  end.
Fixpoint dedup_seq (l : list ver) : list ver :=
  match l with
  | [] => []
  | x :: r => match r with
              | y :: _ => if vseq x =? vseq y then dedup_seq r else x :: dedup_seq r
              | [] => [x]
              end
  end.
