(* Lsm/LevelsSpec.v — the age-order invariant of the level structure, the side conditions of the
   steps, and the theorem statements about Lsm/Levels.v (C01, C06). *)
From Coq Require Import List NArith Bool Arith.
From SKV Require Import Base.Lex Lsm.CompactKey Lsm.CompactKeySpec Lsm.LevelsParams Lsm.Levels.
Import ListNotations.
Local Open Scope N_scope.

(* ---------- the invariant ---------- *)
(* every version in A is newer than every version of the same key in B *)
Definition above (A B : list version) : Prop :=
  forall x y, In x A -> In y B -> xkey x = xkey y -> xseq y < xseq x.
(* a log, newest first: per key strictly descending sequence numbers *)
Fixpoint desc_log (l : list version) : Prop :=
  match l with
  | [] => True
  | x :: r => (forall y, In y r -> xkey x = xkey y -> xseq y < xseq x) /\ desc_log r
  end.
(* two copies of one (key, seq) are the same version *)
Definition uniq (l : list version) : Prop :=
  forall x y, In x l -> In y l -> xkey x = xkey y -> xseq x = xseq y -> x = y.
Definition share_key (a b : list version) : Prop := exists x y, In x a /\ In y b /\ xkey x = xkey y.
(* no two tables of a level hold versions of one key (levels 1+: implied by disjoint key ranges) *)
Fixpoint key_disjoint (ts : list table) : Prop :=
  match ts with
  | [] => True
  | t :: r => (forall t', In t' r -> ~ share_key (tvers t) (tvers t')) /\ key_disjoint r
  end.
(* the key range of a table covers its versions (range checks never hide a version) *)
Definition table_wf (t : table) : Prop := forall x, In x (tvers t) -> in_range t (xkey x) = true.
(* every level is newer, key by key, than everything deeper *)
Fixpoint lv_ordered (lv : list (list table)) : Prop :=
  match lv with
  | [] => True
  | l :: r => above (lvers l) (concat (map lvers r)) /\ lv_ordered r
  end.

(* THE AGE ORDER: for every key, every version in an earlier-searched source is newer than every
   version of that key in a later-searched source — memtable log (active, then immutables newest
   first), then level 0 as a whole (its tables are exempt among themselves), then level 1, ... *)
Definition inv (st : store) : Prop :=
  desc_log (mem_log st) /\
  above (mem_log st) (tab_versions st) /\
  lv_ordered (levels st) /\
  Forall (fun l => uniq (lvers l)) (levels st) /\
  Forall (Forall table_wf) (levels st) /\
  Forall key_disjoint (tl (levels st)) /\
  (forall x, In x (all_versions st) -> 0 < xseq x).

(* ---------- side conditions ---------- *)
(* COMMIT.  b = the batch in application order.  Its versions are newer than every existing version
   of the same keys, and inside the batch a key's sequence numbers grow.  Discharged in the crate by
   first-committer-wins (C04: two commits in flight never share a key, so the commits of one key are
   totally ordered by their sequence numbers) plus the pipeline's apply order (C05: a batch is applied
   after every batch with a smaller sequence number THAT IT CONFLICTS WITH has been published; the
   entries of a batch get consecutive sequence numbers in batch order).  Batches of DIFFERENT keys may
   be applied out of sequence order: the hypothesis is per key on purpose. *)
Definition commit_ok (st : store) (b : list version) : Prop :=
  desc_log (rev b) /\ above b (all_versions st) /\ (forall x, In x b -> 0 < xseq x).

(* COMPACTION out of level src, picked table ids `ids` — the selection condition:
   (S1) every table that STAYS in the source level holds, for the keys it shares with a picked table of
        that level, only NEWER versions (level 0: the picked tables are the oldest ones; levels 1+: holds
        by key-disjointness, lemma sel_s1_disjoint);
   (S2) every table of the target level that shares a key with a picked source table is picked too
        (the crate: all target tables overlapping the combined key range, lemma select_tables_sel_ok). *)
Definition sel_ok (st : store) (src : nat) (ids : list N) : Prop :=
  match focus src (levels st) with
  | None => True
  | Some (pre, ls, post) =>
      above (lvers (filter (unpicked ids) ls)) (lvers (filter (picked ids) ls)) /\
      match post with
      | [] => True
      | lt :: _ => forall t' t, In t' (filter (unpicked ids) lt) -> In t (filter (picked ids) ls) ->
                                ~ share_key (tvers t') (tvers t)
      end
  end.

Definition op_ok (st : store) (o : op) : Prop :=
  match o with
  | OCommit b => commit_ok st b
  | OCompact src ids _ _ _ => sel_ok st src ids
  | _ => True
  end.
(* what a reader at horizon s needs of a step: later commits carry larger sequence numbers; a compaction
   is given the reader's horizon among its live snapshots (or the reader is newer than everything stored:
   a snapshot taken after the compaction started reads only what existed then or newer) *)
Definition op_keeps (s : N) (st : store) (o : op) : Prop :=
  match o with
  | OCommit b => forall x, In x b -> s < xseq x
  | OCompact _ _ _ _ snaps => asc snaps /\ (In s snaps \/ forall x, In x (all_versions st) -> xseq x <= s)
  | _ => True
  end.
Fixpoint run_ok (P : store -> op -> Prop) (r : rules) (st : store) (ops : list op) : Prop :=
  match ops with
  | [] => True
  | o :: rest => P st o /\ run_ok P r (step r st o) rest
  end.

(* ---------- statements ---------- *)
(* (a) point read = the merging iterator at that key, for every snapshot horizon *)
Definition get_is_view_stmt (r : rules) : Prop :=
  forall st k s, inv st -> get r st k s = view_of_all st s k.
(* ... and so a loop of point reads is the scan *)
Definition scan_is_view_stmt (r : rules) : Prop :=
  forall st s ks, inv st -> scan_by_get r st s ks = scan_of_all st s ks.

(* (b) every step preserves the invariant under its side condition *)
Definition step_inv_stmt (r : rules) : Prop :=
  forall st o, inv st -> op_ok st o -> inv (step r st o).
Definition run_inv_stmt (r : rules) : Prop :=
  forall ops st, inv st -> run_ok op_ok r st ops -> inv (run r ops st).

(* (c) one theorem over arbitrary step sequences: a reader at horizon s sees the same view — through the
   merging iterator AND through get — after any number of commits (C01), rotations, flushes, compactions
   and reopens (C06) *)
Definition run_view_stable_stmt (r : rules) : Prop :=
  forall ops st s, inv st -> run_ok (fun st o => op_ok st o /\ op_keeps s st o) r st ops ->
    forall k, view_of_all (run r ops st) s k = view_of_all st s k /\
              get r (run r ops st) k s = get r st k s.
(* C06 as such: physical steps only, EVERY horizon that the compactions were told about (or that is at
   or above everything stored) *)
Definition placement_independence_stmt (r : rules) : Prop :=
  forall ops st, inv st -> forallb is_physical ops = true -> run_ok op_ok r st ops ->
    forall s, run_ok (op_keeps s) r st ops ->
    forall k, get r (run r ops st) k s = get r st k s /\ view_of_all (run r ops st) s k = view_of_all st s k.

(* (d) regression record: with the level-0 rule before 4492089 (first hit wins) a reachable state — every
   step's side condition holds, the invariant holds — answers a stale version; the repaired rule does not *)
Definition old_l0_rule_stale_stmt : Prop :=
  exists (ops : list op) (k : key) (s : N),
    let st := run old_l0_rules ops (st0 2) in
    run_ok op_ok old_l0_rules (st0 2) ops /\ inv st /\
    get old_l0_rules st k s <> view_of_all st s k /\
    (forall r, rules_okb r = true -> run r ops (st0 2) = st /\ get r st k s = view_of_all st s k).

(* (e) the selection condition is needed: a compaction that violates it (here: the NEWER of two level-0
   tables is moved down alone) breaks the invariant and a reader sees a stale version *)
Definition bad_selection_breaks_stmt : Prop :=
  exists (st : store) (src : nat) (ids : list N) (newid : N) (c : ccfg) (k : key) (s : N),
    inv st /\ ~ sel_ok st src ids /\
    let st' := compact src ids newid c [] st in
    ~ inv st' /\ view_of_all st' s k = view_of_all st s k /\
    forall r, rules_okb r = true -> get r st' k s <> get r st k s.
(* ... and so is the completeness of the target-level inputs (S2): dropping one overlapping target table *)
Definition missing_target_breaks_stmt : Prop :=
  exists (st : store) (src : nat) (ids : list N) (newid : N) (c : ccfg) (k : key) (s : N),
    inv st /\ ~ sel_ok st src ids /\
    let st' := compact src ids newid c [] st in
    ~ inv st' /\ view_of_all st' s k = view_of_all st s k /\
    forall r, rules_okb r = true -> get r st' k s <> get r st k s.

(* the crate's own selection satisfies the condition: level 0 as a source (all its tables) and any deeper
   source level, given well-formed tables *)
Definition select_tables_sel_ok_stmt (sr : srules) : Prop :=
  forall st src seed, inv st -> NoDup (map tid (concat (levels st))) ->
    sel_ok st src (select_tables sr src seed (levels st)).

(* the decidable forms mean what they say *)
Definition inv_b_sound_stmt : Prop := forall st, inv_b st = true -> inv st.
Definition op_ok_b_sound_stmt : Prop := forall st o, op_ok_b st o = true -> op_ok st o.
Definition op_keeps_b_sound_stmt : Prop := forall s st o, op_keeps_b s st o = true -> op_keeps s st o.

(* ---------- (f) the hypotheses are satisfiable: a concrete non-trivial run ---------- *)
Definition wv (k seq : N) (kd : ckind) (v : N) : version :=
  {| xkey := [k]; xver := {| vseq := seq; vkind := kd; vts := 0 |}; xval := [v] |}.
Definition wcfg : ccfg := {| c_versioning := false; c_retention := 0; c_now := 0 |}.

(* (f) the hypotheses are satisfiable on a non-trivial run: three levels; a reader registered at horizon 2
   (it sees 97 -> 1, 98 -> 2); then key 97 is deleted and re-inserted, key 98 soft-deleted, new keys written,
   with rotations, flushes, a level-0 compaction chosen by the crate's selection, a reopen that cuts the
   log, and compactions down to the bottom level that must keep 97@1 and 98@2 under their tombstones *)
Definition f_pre : list op := [OCommit [wv 97 1 CSet 1; wv 98 2 CSet 2]; ORotate; OFlush 1].
Definition f_ops : list op :=
  [OCommit [wv 97 3 CDel 0]; OCommit [wv 99 4 CSet 4]; ORotate; OCommit [wv 97 5 CSet 5]; ORotate; OFlush 2;
   OCompact 0 [2; 1] 3 wcfg [2];
   OFlush 4; OCommit [wv 98 6 CSoft 0; wv 100 7 CSet 7];
   OReopen [1%nat] [5];
   OCompact 1 [3] 6 wcfg [2]; OCompact 0 [5; 4] 7 wcfg [2]; OCompact 1 [7; 6] 8 wcfg [2];
   OCommit [wv 97 8 CSet 8]].
Definition f_start : store := run std_rules f_pre (st0 3).
Definition run_hypotheses_satisfiable_stmt : Prop :=
  inv f_start /\ run_ok (fun st o => op_ok st o /\ op_keeps 2 st o) std_rules f_start f_ops /\
  inv (run std_rules f_ops f_start) /\
  (forall k, get std_rules (run std_rules f_ops f_start) k 2 = get std_rules f_start k 2) /\
  get std_rules (run std_rules f_ops f_start) [97] 2 = Some ([1], 1) /\
  get std_rules (run std_rules f_ops f_start) [98] 2 = Some ([2], 2) /\
  get std_rules (run std_rules f_ops f_start) [97] 8 = Some ([8], 8) /\
  get std_rules (run std_rules f_ops f_start) [98] 8 = None /\
  map (@length table) (levels (run std_rules f_ops f_start)) = [0; 0; 1]%nat.
(* the ids of the first compaction of that run are the crate's own choice in that state *)
Definition selection_example_stmt : Prop :=
  select_tables {| s_l0_all := true; s_target_all := true |} 0 0 (levels (run std_rules (firstn 6 f_ops) f_start)) = [2; 1] /\
  sel_ok_b (run std_rules (firstn 6 f_ops) f_start) 0 [2; 1] = true.
(* (S1) holds by itself in every level whose tables are key-disjoint (levels 1+) *)
Definition sel_s1_disjoint_stmt : Prop :=
  forall ids ls, key_disjoint ls -> above (lvers (filter (unpicked ids) ls)) (lvers (filter (picked ids) ls)).
