(* Lsm/VlogOpen.v — what opening the value-log directory does with ONE existing file, and what the writer
   then does with the file of the highest id (properties C07 / C15).  Definitions only; statements in
   VlogOpenSpec.v, proofs in VlogOpen_proofs.v.

   Transcribed from /repo/src/vlog.rs:
     VLog::prefill_file_handles   vopen_file   an empty file is accepted as it is; a file shorter than the header is
                                               emptied (set_len(0) + fsync) when VLOG_OPEN_EMPTIES_TORN_HEADER
                                               (generated: present since the repair of C15-N7); otherwise HEADER_SIZE
                                               bytes are read at offset 0 into a zeroed buffer (the count returned by
                                               read_at is ignored: a short file is padded with zeros), decoded
                                               (magic compared) and validated (file id compared); a failure refuses
                                               the whole directory
     VLogWriter::new              vwriter_open the file is opened for appending; the header is written iff its length
                                               is 0; appends continue at its end
   The version field is decoded but compared by nobody on this path (is_compatible is not called). *)
From Coq Require Import List NArith Arith Bool.
From SKV Require Import Params Codec.VlogParams Codec.Wal Codec.VlogPtr.
Import ListNotations.

Definition HSZ : nat := N.to_nat VLOG_HEADER_SIZE.
Definition hdr_pad (b : list byte) : list byte := vslice b 0 HSZ.

(* VLogFileHeader::decode + validate *)
Definition hdr_accepts (id : N) (h : list byte) : bool :=
  match dec_fields VHW h with
  | Some (m :: _ :: i :: _) => N.eqb m VLOG_MAGIC && N.eqb i id
  | _ => false
  end.

(* None = the directory is refused; Some b' = the file's content after the open *)
Definition vopen_file (empties : bool) (id : N) (b : list byte) : option (list byte) :=
  if N.eqb (nlen b) 0 then Some b
  else if empties && N.ltb (nlen b) VLOG_HEADER_SIZE then Some []
  else if hdr_accepts id (hdr_pad b) then Some b else None.

Definition vwriter_open (id created maxsize : N) (b : list byte) : list byte :=
  if N.eqb (nlen b) 0 then vheader_bytes id created maxsize else b.

(* the layout the proofs rely on: seven fields 4 2 4 8 8 1 4 = 31 bytes, the magic fits its field *)
Definition vopen_params_ok : bool :=
  match VLOG_HEADER_FIELDS with
  | [4; 2; 4; 8; 8; 1; 4]%N => N.eqb VLOG_HEADER_SIZE 31 && N.ltb VLOG_MAGIC (2 ^ 32)
  | _ => false
  end.
