(* Lsm/VlogSpec.v — statements about the value-log machine of Lsm/Vlog.v (property C11).
   Proved in Vlog_proofs.v; restated in Props/C11.v.  Every statement quantifies over ALL operation
   sequences the machine accepts from the empty store (any length, any interleaving of flushes,
   compactions, reopens, readers and reads), any checksum function, any configuration. *)
From Coq Require Import List NArith Arith Bool.
From SKV Require Import Params Codec.VlogParams Codec.Wal Codec.VlogPtr Lsm.Vlog.
Import ListNotations.
Local Open Scope N_scope.

Section VlogSpec.
Variable crc : list byte -> N.
Variable cfg : vcfg.
Variable chk : bool.      (* the run-time clean-up call sites test for registered readers (Vlog.v vs_cleanup_rt) *)

Definition reachable (st : vstate) : Prop := exists ops, vs_run crc cfg chk ops vs0 = Some st.

(* B0. a flush records, entry by entry and in order, the keys and user values of the memtable it was given
   (the ghost field te_orig is what the theorems below compare reads with) *)
Definition flush_records_values_stmt : Prop :=
  forall now tid mem st st',
    vs_flush crc cfg chk now tid mem st = Some st' ->
    exists t, In t (vs_tables st') /\ tb_id t = tid /\ map (fun e => (te_key e, te_orig e)) (tb_entries t) = mem.

(* B1. every value held by a live table or by the version index — inline or separated, whatever its size —
   is read back byte for byte (through the block cache or from the file) in every reachable state *)
Definition live_values_intact_stmt : Prop :=
  vlog_params_ok = true ->
  forall st, reachable st ->
    (forall t e v, In t (vs_tables st) -> In e (tb_entries t) -> te_orig e = Some v ->
                   fst (vs_resolve crc cfg st (te_enc e)) = Some v) /\
    (forall e v, In e (vs_index st) -> te_orig e = Some v ->
                 fst (vs_resolve crc cfg st (te_enc e)) = Some v).

(* B2. the clean-up rule by itself, on ANY state: a file that a live table points into survives, provided
   the table's recorded oldest id is what TableWriter computes and no pointer names the `no reference` id;
   and whatever stays in the version index after the prune does not point into a file the same clean-up removes *)
Definition table_recorded (t : vtable) : Prop := tb_oldest t = table_oldest (tb_entries t).
Definition cleanup_keeps_live_files_stmt : Prop :=
  forall st t e p f,
    In t (vs_tables st) -> table_recorded t ->
    (forall e' p', In e' (tb_entries t) -> vloc_pointer_of (te_enc e') = Some p' -> VLOG_NO_REF < vpt_file p') ->
    In e (tb_entries t) -> vloc_pointer_of (te_enc e) = Some p ->
    In f (vs_files st) -> vf_id f = vpt_file p ->
    In f (vs_files (vs_cleanup st)).
Definition cleanup_index_consistent_stmt : Prop :=
  forall st e p f,
    In e (vs_index (vs_cleanup st)) -> vloc_pointer_of (te_enc e) = Some p ->
    In f (vs_files st) -> vf_id f = vpt_file p ->
    In f (vs_files (vs_cleanup st)).
(* ... and in every reachable state every pointer of a live table or of the index names an existing file *)
Definition live_pointers_have_files_stmt : Prop :=
  vlog_params_ok = true ->
  forall st, reachable st ->
    forall e p, ((exists t, In t (vs_tables st) /\ In e (tb_entries t)) \/ In e (vs_index st)) ->
                te_orig e <> None -> vloc_pointer_of (te_enc e) = Some p ->
                exists f, In f (vs_files st) /\ vf_id f = vpt_file p.

(* B3. durability order and identity of files: at every operation boundary every value-log file is fsynced
   (a file replaced because it is full is fsynced before its successor is created; the flush fsyncs the
   active file before its table is installed); file ids are never reused, reopen included *)
Definition files_synced_stmt : Prop :=
  forall st, reachable st -> forall f, In f (vs_files st) -> vf_synced f = true.
Definition ids_never_reused_stmt : Prop :=
  vlog_params_ok = true ->
  forall ops1 ops2 st1 st2,
    vs_run crc cfg chk ops1 vs0 = Some st1 -> vs_run crc cfg chk ops2 st1 = Some st2 ->
    vs_next st1 <= vs_next st2 /\
    forall f, In f (vs_files st2) -> (exists f1, In f1 (vs_files st1) /\ vf_id f1 = vf_id f) \/ vs_next st1 <= vf_id f.

(* B4. readers holding an OLDER table set (taken before a compaction).  The clean-up FUNCTION does not look at them; its
   run-time call sites do when chk.  For every chk such a reader never gets WRONG bytes — a read gives the value written or
   fails (old_reader_never_wrong).  old_reader_safe_stmt — it always gets the value — is
     * a theorem for the generated flag (old_reader_served_stmt: VLOG_CLEANUP_CHECKS_READERS = true in the repaired tree),
     * refuted by a closed witness for chk = false, the rule before the repair (regression record of finding C11-N1). *)
Definition old_reader_never_wrong_stmt : Prop :=
  vlog_params_ok = true ->
  forall st, reachable st ->
    forall rid ts t e v, In (rid, ts) (vs_readers st) -> In t ts -> In e (tb_entries t) -> te_orig e = Some v ->
      fst (vs_resolve crc cfg st (te_enc e)) = Some v \/ fst (vs_resolve crc cfg st (te_enc e)) = None.
Definition old_reader_safe_stmt : Prop :=
  forall st, reachable st ->
    forall rid ts t e v, In (rid, ts) (vs_readers st) -> In t ts -> In e (tb_entries t) -> te_orig e = Some v ->
      fst (vs_resolve crc cfg st (te_enc e)) = Some v.
End VlogSpec.

(* every value — separated or inline — of every table set an open reader holds resolves to the bytes that were flushed, in
   every reachable state of the machine run with the GENERATED rule *)
Definition old_reader_served_stmt : Prop :=
  vlog_params_ok = true ->
  forall crc cfg, old_reader_safe_stmt crc cfg VLOG_CLEANUP_CHECKS_READERS.
(* the rule before the repair: some checksum function, configuration and accepted run leave an open reader with an entry
   that no longer resolves *)
Definition old_reader_unprotected_without_check_stmt : Prop :=
  exists crc cfg, ~ old_reader_safe_stmt crc cfg false.
(* nothing leaks: the deferred clean-up is the ordinary one as soon as no reader is registered; and it is only deferred *)
Definition cleanup_runs_without_readers_stmt : Prop :=
  forall chk st, vs_readers st = [] -> vs_cleanup_rt chk st = vs_cleanup st.
Definition cleanup_deferred_with_readers_stmt : Prop :=
  forall st, vs_readers st <> [] -> vs_cleanup_rt true st = st.
