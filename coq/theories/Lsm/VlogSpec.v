(* Lsm/VlogSpec.v — statements about the value-log machine of Lsm/Vlog.v (property C11).
   Proved in Vlog_proofs.v; restated in Props/C11.v.  Every statement quantifies over ALL operation
   sequences the machine accepts from the empty store (any length, any interleaving of flushes,
   compactions, reopens, readers and reads), any checksum function, any configuration, either form of the
   run-time clean-up rule (chk) and of the block-cache rule of VLog::get (hck) unless said otherwise.
   Part D (property C16) quantifies over histories with DAMAGE as well: the directory replaced by anything at
   any point, reads through any pointer. *)
From Coq Require Import List NArith Arith Bool.
From SKV Require Import Params Codec.VlogParams Codec.Wal Codec.VlogPtr Lsm.Vlog.
Import ListNotations.
Local Open Scope N_scope.

Section VlogSpec.
Variable crc : list byte -> N.
Variable cfg : vcfg.
Variable chk : bool.      (* the run-time clean-up call sites test for registered readers (Vlog.v vs_cleanup_rt) *)
Variable hck : bool.      (* VLog::get serves a block-cache hit only when checksum and length equal the pointer's (Vlog.v vs_get) *)

Definition reachable (st : vstate) : Prop := exists ops, vs_run crc cfg chk hck ops vs0 = Some st.

(* B0. a flush records, entry by entry and in order, the keys and user values of the memtable it was given
   (the ghost field te_orig is what the theorems below compare reads with) *)
Definition flush_records_values_stmt : Prop :=
  forall now tid mem st st',
    vs_flush crc cfg chk now tid mem st = Some st' ->
    exists t, In t (vs_tables st') /\ tb_id t = tid /\ map (fun e => (te_key e, te_orig e)) (tb_entries t) = mem.

(* B1. every value held by a live table or by the version index — inline or separated, whatever its size —
   is read back byte for byte (through the block cache or from the file) in every reachable state *)
Definition live_values_intact_stmt : Prop :=
  vlog_params_ok = true ->
  forall st, reachable st ->
    (forall t e v, In t (vs_tables st) -> In e (tb_entries t) -> te_orig e = Some v ->
                   fst (vs_resolve crc cfg hck st (te_enc e)) = Some v) /\
    (forall e v, In e (vs_index st) -> te_orig e = Some v ->
                 fst (vs_resolve crc cfg hck st (te_enc e)) = Some v).

(* B2. the clean-up rule by itself, on ANY state: a file that a live table points into survives, provided
   the table's recorded oldest id is what TableWriter computes and no pointer names the `no reference` id;
   and whatever stays in the version index after the prune does not point into a file the same clean-up removes *)
Definition table_recorded (t : vtable) : Prop := tb_oldest t = table_oldest (tb_entries t).
Definition cleanup_keeps_live_files_stmt : Prop :=
  forall st t e p f,
    In t (vs_tables st) -> table_recorded t ->
    (forall e' p', In e' (tb_entries t) -> vloc_pointer_of (te_enc e') = Some p' -> VLOG_NO_REF < vpt_file p') ->
    In e (tb_entries t) -> vloc_pointer_of (te_enc e) = Some p ->
    In f (vs_files st) -> vf_id f = vpt_file p ->
    In f (vs_files (vs_cleanup st)).
Definition cleanup_index_consistent_stmt : Prop :=
  forall st e p f,
    In e (vs_index (vs_cleanup st)) -> vloc_pointer_of (te_enc e) = Some p ->
    In f (vs_files st) -> vf_id f = vpt_file p ->
    In f (vs_files (vs_cleanup st)).
(* ... and in every reachable state every pointer of a live table or of the index names an existing file *)
Definition live_pointers_have_files_stmt : Prop :=
  vlog_params_ok = true ->
  forall st, reachable st ->
    forall e p, ((exists t, In t (vs_tables st) /\ In e (tb_entries t)) \/ In e (vs_index st)) ->
                te_orig e <> None -> vloc_pointer_of (te_enc e) = Some p ->
                exists f, In f (vs_files st) /\ vf_id f = vpt_file p.

(* B3. durability order and identity of files: at every operation boundary every value-log file is fsynced
   (a file replaced because it is full is fsynced before its successor is created; the flush fsyncs the
   active file before its table is installed); file ids are never reused, reopen included *)
Definition files_synced_stmt : Prop :=
  forall st, reachable st -> forall f, In f (vs_files st) -> vf_synced f = true.
Definition ids_never_reused_stmt : Prop :=
  vlog_params_ok = true ->
  forall ops1 ops2 st1 st2,
    vs_run crc cfg chk hck ops1 vs0 = Some st1 -> vs_run crc cfg chk hck ops2 st1 = Some st2 ->
    vs_next st1 <= vs_next st2 /\
    forall f, In f (vs_files st2) -> (exists f1, In f1 (vs_files st1) /\ vf_id f1 = vf_id f) \/ vs_next st1 <= vf_id f.

(* B4. readers holding an OLDER table set (taken before a compaction).  The clean-up FUNCTION does not look at them; its
   run-time call sites do when chk.  For every chk such a reader never gets WRONG bytes — a read gives the value written or
   fails (old_reader_never_wrong).  old_reader_safe_stmt — it always gets the value — is
     * a theorem for the generated flag (old_reader_served_stmt: VLOG_CLEANUP_CHECKS_READERS = true in the repaired tree),
     * refuted by a closed witness for chk = false, the rule before the repair (regression record of finding C11-N1). *)
Definition old_reader_never_wrong_stmt : Prop :=
  vlog_params_ok = true ->
  forall st, reachable st ->
    forall rid ts t e v, In (rid, ts) (vs_readers st) -> In t ts -> In e (tb_entries t) -> te_orig e = Some v ->
      fst (vs_resolve crc cfg hck st (te_enc e)) = Some v \/ fst (vs_resolve crc cfg hck st (te_enc e)) = None.
Definition old_reader_safe_stmt : Prop :=
  forall st, reachable st ->
    forall rid ts t e v, In (rid, ts) (vs_readers st) -> In t ts -> In e (tb_entries t) -> te_orig e = Some v ->
      fst (vs_resolve crc cfg hck st (te_enc e)) = Some v.

(* B5. the block cache stays effective under the checked rule: in every reachable state (no damage) a cached entry found
   for the pointer of a live table entry or index entry passes the test of vs_get — the second read of a live value is a
   hit, not a file read *)
Definition live_hits_pass_stmt : Prop :=
  vlog_params_ok = true ->
  forall st, reachable st ->
    forall e p c, ((exists t, In t (vs_tables st) /\ In e (tb_entries t)) \/ In e (vs_index st)) ->
                  te_orig e <> None -> vloc_pointer_of (te_enc e) = Some p ->
                  vcache_get (vs_cache st) (vpt_file p) (vpt_offset p) = Some c -> vs_hit_ok hck p c = true.

(* ---------------------------------------------------------------------------------------------------------
   D. damage (property C16; finding F41).  dreachable: any sequence of machine operations, replacements of the directory
   by ANY files and writer ids (a file cut short and appended to again from the cut position is one such history), and
   reads through ANY pointer (e.g. one stored in a table written before the damage).  No invariant survives such
   histories except what vs_get itself establishes about the cache. *)
Definition dreachable (st : vstate) : Prop := exists ds, ds_run crc cfg chk hck ds vs0 = Some st.

(* D1. Full verification, checked cache rule: whatever happened to the files, a read that answers a value answers one that
   passes THIS pointer's own test — its length is the pointer's value size and, with some key, its checksum is the
   pointer's checksum.  A cache hit therefore never returns what the file path (Codec/VlogPtr.v vlog_read at level Full)
   would have refused for this pointer on account of the value length or the checksum *)
Definition get_passes_pointer_check (p : vpointer) (v : list byte) : Prop :=
  nlen v = vpt_vsize p /\ exists k, crc32u crc (k ++ v) = vpt_crc p.
Definition damaged_get_checked_stmt : Prop :=
  cf_level cfg = VLOG_CK_FULL ->
  forall st, dreachable st -> forall p v, fst (vs_get crc cfg hck st p) = Some v -> get_passes_pointer_check p v.
(* ... through a stored value as well (an entry of any table, of the index, of a reader's table set, or any bytes) *)
Definition damaged_resolve_checked_stmt : Prop :=
  cf_level cfg = VLOG_CK_FULL ->
  forall st, dreachable st -> forall enc p v, vloc_pointer_of enc = Some p ->
    fst (vs_resolve crc cfg hck st enc) = Some v -> get_passes_pointer_check p v.

(* D2. the same in terms of what was WRITTEN: a pointer issued for (k0, v0) — value size and checksum as
   VLogWriter::append computes them — read in any damaged state gives v0, or an error, or exhibits a checksum collision:
   another value of the same length that, with some key, has the checksum of k0 ++ v0.  Never silently the value of
   another entry (which is what finding F41 was) *)
Definition issued_for (p : vpointer) (k0 v0 : list byte) : Prop :=
  vpt_vsize p = nlen v0 /\ vpt_crc p = crc32u crc (k0 ++ v0).
Definition collision_with (k0 v0 v : list byte) : Prop :=
  v <> v0 /\ nlen v = nlen v0 /\ exists k, crc32u crc (k ++ v) = crc32u crc (k0 ++ v0).
Definition damaged_get_written_or_collision_stmt : Prop :=
  cf_level cfg = VLOG_CK_FULL ->
  forall st, dreachable st -> forall p k0 v0, issued_for p k0 v0 ->
    fst (vs_get crc cfg hck st p) = Some v0 \/ fst (vs_get crc cfg hck st p) = None \/
    exists v, fst (vs_get crc cfg hck st p) = Some v /\ collision_with k0 v0 v.
(* (a hypothesis `no value of this length collides under any key` would be unsatisfiable — keys are unbounded, checksums
   have 32 bits — so the collision is the third alternative of the conclusion, naming the colliding value, rather than a
   hypothesis; Codec/RegionsSpec.v vlog_full_detected_stmt states it for the one altered entry in the same way) *)
End VlogSpec.

(* every value — separated or inline — of every table set an open reader holds resolves to the bytes that were flushed, in
   every reachable state of the machine run with the GENERATED rule *)
Definition old_reader_served_stmt : Prop :=
  vlog_params_ok = true ->
  forall crc cfg hck, old_reader_safe_stmt crc cfg VLOG_CLEANUP_CHECKS_READERS hck.
(* the rule before the repair: some checksum function, configuration and accepted run leave an open reader with an entry
   that no longer resolves *)
Definition old_reader_unprotected_without_check_stmt : Prop :=
  exists crc cfg, forall hck, ~ old_reader_safe_stmt crc cfg false hck.
(* nothing leaks: the deferred clean-up is the ordinary one as soon as no reader is registered; and it is only deferred *)
Definition cleanup_runs_without_readers_stmt : Prop :=
  forall chk st, vs_readers st = [] -> vs_cleanup_rt chk st = vs_cleanup st.
Definition cleanup_deferred_with_readers_stmt : Prop :=
  forall st, vs_readers st <> [] -> vs_cleanup_rt true st = st.

(* D for the GENERATED cache rule (VLOG_CACHE_HIT_CHECKED = true in the repaired tree): any checksum function, any
   configuration with Full verification, either clean-up rule *)
Definition damaged_reads_checked_stmt : Prop :=
  forall crc cfg chk,
    damaged_get_checked_stmt crc cfg chk VLOG_CACHE_HIT_CHECKED /\
    damaged_resolve_checked_stmt crc cfg chk VLOG_CACHE_HIT_CHECKED /\
    damaged_get_written_or_collision_stmt crc cfg chk VLOG_CACHE_HIT_CHECKED.
(* the code before the repair (any hit is served): for some checksum function and some configuration with Full
   verification, a history — flush, the file cut at the first entry, reopen, flush, read the new entry, read the old
   pointer — answers the OTHER key's value, of the same length, which is NOT a collision: under no key does it have the
   old pointer's checksum (regression record of finding F41) *)
Definition cache_unchecked_serves_other_entry_stmt : Prop :=
  exists crc cfg, cf_level cfg = VLOG_CK_FULL /\ forall chk, ~ damaged_get_written_or_collision_stmt crc cfg chk false.
