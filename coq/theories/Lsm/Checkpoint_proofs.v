(* Lsm/Checkpoint_proofs.v — proofs of the statements of Lsm/CheckpointSpec.v. *)
From Coq Require Import List NArith Arith Bool Lia ZifyBool.
From SKV Require Import Lsm.Checkpoint Lsm.CheckpointSpec.
Import ListNotations.
Local Open Scope N_scope.
Arguments N.add : simpl never.
Arguments N.sub : simpl never.
Arguments N.eqb : simpl never.
Arguments N.ltb : simpl never.
Arguments N.leb : simpl never.
Arguments N.max : simpl never.
Arguments N.succ : simpl never.

(* ------------------------------------------------------------------ association lists *)
Lemma aget_In {A} i (a : A) l : aget i l = Some a -> In (i, a) l.
Proof.
  induction l as [|[j b] r IH]; cbn [aget]; [discriminate|].
  destruct (N.eqb i j) eqn:E.
  - intros H; inversion H; subst. apply N.eqb_eq in E. subst. left. reflexivity.
  - intros H. right. auto.
Qed.

Lemma aget_none_notin {A} i (l : list (N * A)) : aget i l = None -> forall a, ~ In (i, a) l.
Proof.
  induction l as [|[j b] r IH]; cbn [aget In]; [tauto|].
  destruct (N.eqb i j) eqn:E; [discriminate|].
  intros H a [H1|H1]; [inversion H1; subst; rewrite N.eqb_refl in E; discriminate | exact (IH H a H1)].
Qed.

Lemma notin_aget_none {A} i (l : list (N * A)) : (forall a, ~ In (i, a) l) -> aget i l = None.
Proof.
  intros H. destruct (aget i l) as [a|] eqn:E; [|reflexivity]. exfalso. exact (H a (aget_In _ _ _ E)).
Qed.

Lemma aget_app {A} i (l1 l2 : list (N * A)) :
  aget i (l1 ++ l2) = match aget i l1 with Some a => Some a | None => aget i l2 end.
Proof.
  induction l1 as [|[j b] r IH]; cbn [aget app]; [reflexivity|]. destruct (N.eqb i j); [reflexivity|exact IH].
Qed.

Lemma aget_filter_keep {A} (p : N -> bool) i (l : list (N * A)) :
  p i = true -> aget i (filter (fun e => p (fst e)) l) = aget i l.
Proof.
  intros Hp. induction l as [|[j b] r IH]; cbn [aget filter fst]; [reflexivity|].
  destruct (p j) eqn:Ej; cbn [aget].
  - destruct (N.eqb i j); [reflexivity|exact IH].
  - destruct (N.eqb i j) eqn:E; [apply N.eqb_eq in E; subst; congruence | exact IH].
Qed.

Lemma aget_filter_some {A} (p : N -> bool) i (l : list (N * A)) a :
  aget i (filter (fun e => p (fst e)) l) = Some a -> aget i l = Some a /\ p i = true.
Proof.
  induction l as [|[j b] r IH]; cbn [aget filter fst]; [discriminate|].
  destruct (p j) eqn:Ej; cbn [aget].
  - destruct (N.eqb i j) eqn:E; [intros H; apply N.eqb_eq in E; subst; auto | exact IH].
  - intros H. destruct (IH H) as [H1 H2]. destruct (N.eqb i j) eqn:E; [apply N.eqb_eq in E; subst; congruence | auto].
Qed.

Lemma aget_aset_same {A} i (a : A) l : aget i (aset i a l) = Some a.
Proof.
  induction l as [|[j b] r IH]; cbn [aset aget]; [rewrite N.eqb_refl; reflexivity|].
  destruct (N.eqb i j) eqn:E; cbn [aget]; [rewrite N.eqb_refl; reflexivity | rewrite E; exact IH].
Qed.

Lemma aget_aset_other {A} i j (a : A) l : i <> j -> aget i (aset j a l) = aget i l.
Proof.
  intros Hn. induction l as [|[k b] r IH]; cbn [aset aget].
  - destruct (N.eqb i j) eqn:E; [apply N.eqb_eq in E; contradiction | reflexivity].
  - destruct (N.eqb j k) eqn:E; cbn [aget].
    + apply N.eqb_eq in E. subst. destruct (N.eqb i k) eqn:E2; [apply N.eqb_eq in E2; contradiction | reflexivity].
    + destruct (N.eqb i k); [reflexivity | exact IH].
Qed.

Lemma nmem_In i l : nmem i l = true <-> In i l.
Proof.
  unfold nmem. rewrite existsb_exists. split.
  - intros [x [H1 H2]]. apply N.eqb_eq in H2. subst. exact H1.
  - intros H. exists i. split; [exact H | apply N.eqb_refl].
Qed.

Lemma nmax_ge l x : In x l -> x <= nmax l.
Proof. induction l as [|y r IH]; cbn [nmax In]; [tauto|]. intros [H|H]; [subst; lia | specialize (IH H); lia]. Qed.

Lemma max_seq_ge l x : In x l -> cv_seq x <= max_seq l.
Proof. intros H. unfold max_seq. apply nmax_ge. apply in_map. exact H. Qed.

Lemma nmax_le l b : (forall x, In x l -> x <= b) -> nmax l <= b.
Proof. induction l as [|y r IH]; cbn [nmax In]; intros H; [lia|]. assert (y <= b) by auto. assert (nmax r <= b) by auto. lia. Qed.

(* ------------------------------------------------------------------ increasing segment ids *)
Lemma incr_weaken lo lo' l : lo' <= lo -> incr lo l -> incr lo' l.
Proof. destruct l as [|x r]; cbn [incr]; [tauto|]. intros H [H1 H2]. split; [lia | exact H2]. Qed.

Lemma incr_ge lo l x : incr lo l -> In x l -> lo <= x.
Proof.
  revert lo. induction l as [|y r IH]; cbn [incr In]; [tauto|]. intros lo [H1 H2] [H|H]; [subst; exact H1|].
  specialize (IH _ H2 H). lia.
Qed.

Lemma incr_snoc_lt lo l w x : incr lo (l ++ [w]) -> In x l -> x < w.
Proof.
  revert lo. induction l as [|y r IH]; cbn [incr In app]; [tauto|]. intros lo [H1 H2] [H|H].
  - subst. assert (N.succ x <= w) by (apply (incr_ge _ _ _ H2); apply in_or_app; right; left; reflexivity). lia.
  - exact (IH _ H2 H).
Qed.

Lemma incr_snoc lo l w w' : incr lo (l ++ [w]) -> w < w' -> incr lo ((l ++ [w]) ++ [w']).
Proof.
  revert lo. induction l as [|y r IH]; cbn [incr app]; intros lo [H1 H2] Hw.
  - repeat split; lia.
  - split; [exact H1 | exact (IH _ H2 Hw)].
Qed.

Lemma incr_filter_all lo (l : list (N * list cver)) :
  incr lo (map fst l) -> filter (fun e => N.leb lo (fst e)) l = l.
Proof.
  revert lo. induction l as [|[w a] r IH]; cbn [map fst incr filter]; [reflexivity|]. intros lo [H1 H2].
  replace (N.leb lo w) with true by lia. f_equal.
  rewrite <- (IH _ H2) at 2. apply filter_ext_in. intros [w' a'] Hin. cbn [fst].
  assert (N.succ w <= w') by (apply (incr_ge _ _ _ H2); apply in_map with (f := fst) in Hin; exact Hin). lia.
Qed.

(* ------------------------------------------------------------------ groups of WAL segments *)
Lemma seg_upto_refl m (x : list cver) : seg_upto m (m, x) = true.
Proof. unfold seg_upto. cbn [fst]. lia. Qed.
Lemma seg_upto_lt w m (x : list cver) : w < m -> seg_upto w (m, x) = false.
Proof. unfold seg_upto. cbn [fst]. lia. Qed.

Lemma wg_single w (a : list cver) : wal_groups [(w, a)] [(w, a)].
Proof. cbn [wal_groups fst snd filter]. rewrite seg_upto_refl. cbn [negb flat_map snd]. rewrite app_nil_r. auto. Qed.

Lemma wg_append mts : forall pre m old a vs,
  (forall x, In x mts -> fst x < m) ->
  wal_groups (pre ++ [(m, old)]) (mts ++ [(m, a)]) ->
  wal_groups (pre ++ [(m, old ++ vs)]) (mts ++ [(m, a ++ vs)]).
Proof.
  induction mts as [|[w x] r IH]; intros pre m old a vs Hlt; cbn [app wal_groups fst snd]; rewrite !filter_app; cbn [filter].
  - rewrite !seg_upto_refl. cbn [negb]. rewrite !flat_map_app. cbn [flat_map snd]. rewrite !app_nil_r.
    intros [H1 H2]. split; [rewrite <- H1; apply app_assoc | exact H2].
  - assert (w < m) as Hw by (apply (Hlt (w, x)); left; reflexivity).
    rewrite !(seg_upto_lt w m) by exact Hw. cbn [negb]. rewrite !app_nil_r. intros [H1 H2]. split; [exact H1|].
    apply IH; [|exact H2]. intros y Hy. apply Hlt. right. exact Hy.
Qed.

Lemma wg_snoc mts : forall wal m a w',
  (forall x, In x mts -> fst x < m) -> m < w' ->
  wal_groups wal (mts ++ [(m, a)]) -> wal_groups (wal ++ [(w', [])]) ((mts ++ [(m, a)]) ++ [(w', [])]).
Proof.
  induction mts as [|[w x] r IH]; intros wal m a w' Hlt Hm; cbn [app wal_groups fst snd]; rewrite !filter_app; cbn [filter].
  - rewrite (seg_upto_lt m w') by exact Hm. cbn [negb]. rewrite app_nil_r. intros [H1 H2]. split; [exact H1|]. rewrite H2.
    cbn [app filter]. rewrite seg_upto_refl. cbn [negb flat_map snd app]. auto.
  - assert (w < m) as Hw by (apply (Hlt (w, x)); left; reflexivity).
    rewrite (seg_upto_lt w w') by lia. cbn [negb]. rewrite app_nil_r. intros [H1 H2]. split; [exact H1|].
    apply IH; [|exact Hm|exact H2]. intros y Hy. apply Hlt. right. exact Hy.
Qed.

Lemma wg_flush wal m r : wal_groups wal (m :: r) -> wal_groups (filter (fun e => N.leb (N.succ (fst m)) (fst e)) wal) r.
Proof.
  cbn [wal_groups]. intros [_ H]. erewrite filter_ext; [exact H|]. intros e. unfold seg_upto. cbn beta.
  destruct (N.leb (fst e) (fst m)) eqn:E1; cbn [negb]; lia.
Qed.

Lemma incr_split lo w (wal : list (N * list cver)) : incr lo (map fst wal) ->
  filter (seg_upto w) wal ++ filter (fun e => negb (seg_upto w e)) wal = wal.
Proof.
  revert lo. induction wal as [|[i a] r IH]; cbn [map fst incr filter]; [reflexivity|]. intros lo [H1 H2].
  destruct (seg_upto w (i, a)) eqn:E; cbn [negb app]; [f_equal; exact (IH _ H2)|].
  unfold seg_upto in E. cbn [fst] in E.
  assert (forall e, In e r -> seg_upto w e = false) as Hall.
  { intros e He. unfold seg_upto. assert (N.succ i <= fst e) by (apply (incr_ge _ _ _ H2); apply in_map; exact He). lia. }
  replace (filter (seg_upto w) r) with (@nil (N * list cver)).
  - cbn [app]. f_equal. clear -Hall. induction r as [|e r IH]; cbn [filter]; [reflexivity|].
    rewrite (Hall e) by (left; reflexivity). cbn [negb]. f_equal. apply IH. intros e' He'. apply Hall. right. exact He'.
  - clear -Hall. induction r as [|e r IH]; cbn [filter]; [reflexivity|].
    rewrite (Hall e) by (left; reflexivity). apply IH. intros e' He'. apply Hall. right. exact He'.
Qed.

Lemma incr_filter_sub lo (p : N * list cver -> bool) wal : incr lo (map fst wal) -> incr lo (map fst (filter p wal)).
Proof.
  revert lo. induction wal as [|[i a] r IH]; cbn [map fst incr filter]; [tauto|]. intros lo [H1 H2].
  destruct (p (i, a)); cbn [map fst incr].
  - split; [exact H1 | exact (IH _ H2)].
  - apply (incr_weaken (N.succ i)); [lia | exact (IH _ H2)].
Qed.

Lemma wg_flat mts : forall lo wal, incr lo (map fst wal) -> wal_groups wal mts -> flat_map snd wal = flat_map snd mts.
Proof.
  induction mts as [|m r IH]; intros lo wal Hi; cbn [wal_groups flat_map].
  - intros ->. reflexivity.
  - intros [H1 H2]. rewrite <- (incr_split lo (fst m) wal Hi) at 1. rewrite flat_map_app, H1. f_equal.
    apply (IH lo); [apply incr_filter_sub; exact Hi | exact H2].
Qed.

(* segments at or above a bound, of an increasing list *)
Lemma incr_filter_live lo b (wal : list (N * list cver)) : incr lo (map fst wal) -> incr b (map fst (filter (seg_live b) wal)).
Proof.
  revert lo. induction wal as [|[i a] r IH]; cbn [map fst incr filter]; [tauto|]. intros lo [H1 H2].
  unfold seg_live at 1. cbn [fst]. destruct (N.leb b i) eqn:E; [|exact (IH _ H2)].
  cbn [map fst incr]. split; [lia|]. 
  assert (filter (seg_live b) r = r) as ->; [|exact H2].
  apply (incr_filter_all b). apply (incr_weaken (N.succ i)); [lia | exact H2].
Qed.

(* ------------------------------------------------------------------ the cache *)
Lemma ck_eqb_eq a b : ck_eqb a b = true <-> a = b.
Proof.
  destruct a as [t i], b as [u j]. unfold ck_eqb. cbn [fst snd]. rewrite andb_true_iff, N.eqb_eq, Nat.eqb_eq.
  split; [intros [-> ->]; reflexivity | intros H; inversion H; auto].
Qed.

Lemma ck_eqb_refl a : ck_eqb a a = true.
Proof. apply ck_eqb_eq. reflexivity. Qed.

Lemma cget_cput k b c k' b' :
  bcget k' (bcput k b c) = Some b' -> bcget k' c = Some b' \/ (k' = k /\ b' = b /\ bcget k c = None).
Proof.
  unfold bcput. destruct (bcget k c) eqn:E; [auto|]. cbn [bcget].
  destruct (ck_eqb k' k) eqn:E2; [|auto]. intros H. inversion H; subst. apply ck_eqb_eq in E2. subst. auto.
Qed.

Lemma cget_cdel k c k' b' : bcget k' (bcdel k c) = Some b' -> bcget k' c = Some b'.
Proof.
  unfold bcdel. induction c as [|[k0 b0] r IH]; cbn [filter bcget fst]; [discriminate|].
  destruct (ck_eqb k k0) eqn:E; cbn [negb bcget].
  - intros H. specialize (IH H). destruct (ck_eqb k' k0) eqn:E2; [|exact IH].
    apply ck_eqb_eq in E. apply ck_eqb_eq in E2. subst.
    (* k' = k0 = k : impossible, the filtered list holds no k *)
    exfalso. clear IH. revert H. induction r as [|[k1 b1] r IH]; cbn [filter bcget fst]; [discriminate|].
    destruct (ck_eqb k0 k1) eqn:E3; cbn [negb bcget]; [exact IH|]. rewrite E3. exact IH.
  - destruct (ck_eqb k' k0); [auto | exact IH].
Qed.

(* ------------------------------------------------------------------ blocks and table files *)
Lemma flat_map_ext_in {A B} (f g : A -> list B) l : (forall a, In a l -> f a = g a) -> flat_map f l = flat_map g l.
Proof.
  induction l as [|a r IH]; cbn [flat_map]; intros H; [reflexivity|].
  rewrite (H a) by (left; reflexivity). f_equal. apply IH. intros b Hb. apply H. right. exact Hb.
Qed.

Lemma chunk_go_concat n cur room l : concat (mk_blocks_go n cur room l) = rev cur ++ l.
Proof.
  revert cur room. induction l as [|x r IH]; intros cur room; cbn [mk_blocks_go].
  - destruct cur; cbn [concat]; [reflexivity | rewrite app_nil_r; reflexivity].
  - destruct room; [cbn [concat]; rewrite IH; cbn [rev app]; rewrite <- app_assoc; reflexivity|].
    rewrite IH. cbn [rev]. rewrite <- app_assoc. reflexivity.
Qed.

Lemma chunk_concat bsz l : concat (mk_blocks bsz l) = l.
Proof. unfold mk_blocks. rewrite chunk_go_concat. reflexivity. Qed.

Lemma flat_map_nth_all {A} (f : list (list A)) :
  flat_map (fun i => match nth_error f i with Some b => b | None => [] end) (seq 0 (length f)) = concat f.
Proof.
  induction f as [|b r IH] using rev_ind; [reflexivity|].
  rewrite app_length. cbn [length]. rewrite Nat.add_1_r, seq_S, flat_map_app, concat_app. cbn [flat_map concat Nat.add].
  rewrite nth_error_app2 by lia. rewrite Nat.sub_diag. cbn [nth_error]. rewrite !app_nil_r. f_equal.
  rewrite <- IH. apply flat_map_ext_in. intros i Hi. apply in_seq in Hi. rewrite nth_error_app1 by lia. reflexivity.
Qed.

Lemma rd_block_nil ts t i : rd_block [] ts t i = file_block ts t i.
Proof. reflexivity. Qed.

Lemma table_vers_file ts t f : aget t ts = Some f -> table_vers [] ts (t, length f) = concat f.
Proof.
  intros H. unfold table_vers. cbn [fst snd]. rewrite <- flat_map_nth_all. apply flat_map_ext. intros i.
  rewrite rd_block_nil. unfold file_block. rewrite H. reflexivity.
Qed.

(* two table sets that agree on the files of the handles give the same versions *)
Lemma tables_vers_ext c ts ts' hs :
  (forall h, In h hs -> aget (fst h) ts' = aget (fst h) ts) -> tables_vers c ts' hs = tables_vers c ts hs.
Proof.
  intros H. unfold tables_vers. apply flat_map_ext_in. intros h Hh. unfold table_vers. apply flat_map_ext. intros i.
  unfold rd_block, file_block. rewrite (H h Hh). reflexivity.
Qed.

(* coherence: a cache that only holds true blocks of the files is invisible *)
Definition coherent (c : cache) (ts : list (N * tfile)) : Prop :=
  forall t i b, bcget (t, i) c = Some b -> forall f, aget t ts = Some f -> nth_error f i = Some b.

Lemma tables_vers_coherent c ts hs :
  coherent c ts -> (forall t nb, In (t, nb) hs -> exists f, aget t ts = Some f /\ length f = nb) ->
  tables_vers c ts hs = tables_vers [] ts hs.
Proof.
  intros Hc Hh. unfold tables_vers. apply flat_map_ext_in. intros [t nb] Hin. unfold table_vers. cbn [fst snd].
  destruct (Hh t nb Hin) as [f [Hf Hl]]. apply flat_map_ext_in. intros i Hi. apply in_seq in Hi.
  unfold rd_block. destruct (bcget (t, i) c) as [b|] eqn:E; [|reflexivity].
  unfold file_block. rewrite Hf. rewrite (Hc t i b E f Hf). reflexivity.
Qed.

(* ------------------------------------------------------------------ pick *)
Lemma pick_app snap k l1 l2 : pick snap k (l1 ++ l2) = fold_left (better snap k) l2 (pick snap k l1).
Proof. unfold pick. apply fold_left_app. Qed.

Lemma better_snap a b k acc x : cv_seq x <= a -> cv_seq x <= b -> better a k acc x = better b k acc x.
Proof. intros Ha Hb. unfold better. replace (N.leb (cv_seq x) a) with true by lia. replace (N.leb (cv_seq x) b) with true by lia. reflexivity. Qed.

Lemma fold_better_snap a b k l : (forall x, In x l -> cv_seq x <= a) -> (forall x, In x l -> cv_seq x <= b) ->
  forall acc, fold_left (better a k) l acc = fold_left (better b k) l acc.
Proof.
  induction l as [|x r IH]; intros Ha Hb acc; cbn [fold_left]; [reflexivity|].
  rewrite (better_snap a b) by (first [apply Ha | apply Hb]; left; reflexivity).
  apply IH; intros y Hy; [apply Ha | apply Hb]; right; exact Hy.
Qed.

Lemma pick_snap a b k l : (forall x, In x l -> cv_seq x <= a) -> (forall x, In x l -> cv_seq x <= b) -> pick a k l = pick b k l.
Proof. intros Ha Hb. unfold pick. apply fold_better_snap; assumption. Qed.

(* versions of other keys are invisible to pick *)
Lemma fold_better_other snap k l : (forall x, In x l -> cv_key x <> k) -> forall acc, fold_left (better snap k) l acc = acc.
Proof.
  induction l as [|x r IH]; intros H acc; cbn [fold_left]; [reflexivity|].
  unfold better at 2. replace (N.eqb (cv_key x) k) with false.
  - cbn [andb]. apply IH. intros y Hy. apply H. right. exact Hy.
  - symmetry. apply N.eqb_neq. apply H. left. reflexivity.
Qed.

Lemma fold_better_filter snap k l : forall acc,
  fold_left (better snap k) l acc = fold_left (better snap k) (filter (fun x => N.eqb (cv_key x) k) l) acc.
Proof.
  induction l as [|x r IH]; intros acc; cbn [fold_left filter]; [reflexivity|].
  destruct (N.eqb (cv_key x) k) eqn:E; cbn [fold_left]; [apply IH|].
  unfold better at 2. rewrite E. cbn [andb]. apply IH.
Qed.

Lemma pick_filter snap k l : pick snap k l = pick snap k (filter (fun x => N.eqb (cv_key x) k) l).
Proof. unfold pick. apply fold_better_filter. Qed.

(* the result is one of the candidates, or the accumulator *)
Lemma fold_better_in snap k l : forall acc x, fold_left (better snap k) l acc = Some x -> acc = Some x \/ In x l.
Proof.
  induction l as [|y r IH]; intros acc x; cbn [fold_left]; [auto|]. intros H. destruct (IH _ _ H) as [H1|H1]; [|right; right; exact H1].
  unfold better in H1. destruct (N.eqb (cv_key y) k && N.leb (cv_seq y) snap); [|auto].
  destruct acc as [b|]; [destruct (N.ltb (cv_seq b) (cv_seq y))|]; inversion H1; subst; auto; right; left; reflexivity.
Qed.

(* ------------------------------------------------------------------ a batch: the last write of a key wins *)
Definition lw (k : key) (b : list (key * option N)) (a : option (option N)) : option (option N) :=
  fold_left (fun a kv => if N.eqb (fst kv) k then Some (snd kv) else a) b a.

Lemma lw_cons k k0 v0 r a : lw k ((k0, v0) :: r) a = lw k r (if N.eqb k0 k then Some v0 else a).
Proof. reflexivity. Qed.

Lemma lw_acc k b : forall a, lw k b a = match lw k b None with Some v => Some v | None => a end.
Proof.
  induction b as [|[k0 v0] r IH]; intros a; [reflexivity|]. rewrite !lw_cons.
  destruct (N.eqb k0 k).
  - rewrite (IH (Some v0)). destruct (lw k r None); reflexivity.
  - apply IH.
Qed.

Lemma lw_some_in k b : forall a v, lw k b a = Some v -> a = Some v \/ In (k, v) b.
Proof.
  induction b as [|[k0 v0] r IH]; intros a v; [cbn; auto|]. rewrite lw_cons. intros H.
  destruct (IH _ _ H) as [H1|H1]; [|right; right; exact H1].
  destruct (N.eqb k0 k) eqn:E; [|auto]. apply N.eqb_eq in E. subst. inversion H1; subst. right. left. reflexivity.
Qed.

Lemma lw_single k v b : In (k, v) b -> (forall v', In (k, v') b -> v' = v) -> lw k b None = Some v.
Proof.
  induction b as [|[k0 v0] r IH]; cbn [In]; [tauto|]. intros Hin Hall. rewrite lw_cons.
  destruct (N.eqb k0 k) eqn:E.
  - apply N.eqb_eq in E. subst k0. assert (v0 = v) by (apply Hall; left; reflexivity). subst v0.
    rewrite lw_acc. destruct (lw k r None) as [v1|] eqn:E1; [|reflexivity].
    destruct (lw_some_in _ _ _ _ E1) as [H|H]; [discriminate|]. f_equal. apply Hall. right. exact H.
  - apply N.eqb_neq in E. destruct Hin as [Hin|Hin]; [inversion Hin; subst; contradiction|].
    apply IH; [exact Hin | intros v' Hv'; apply Hall; right; exact Hv'].
Qed.

Lemma number_seq q b x : In x (number q b) -> q <= cv_seq x /\ cv_seq x < q + N.of_nat (length b).
Proof.
  revert q. induction b as [|[k0 v0] r IH]; intros q; cbn [number In length]; [tauto|]. intros [H|H].
  - subst. cbn [cv_seq]. lia.
  - specialize (IH _ H). lia.
Qed.

Lemma number_keys q b : map cv_key (number q b) = map fst b.
Proof. revert q. induction b as [|[k0 v0] r IH]; intros q; cbn [number map fst cv_key]; [reflexivity|]. f_equal. apply IH. Qed.

Lemma fold_better_number snap k b : forall q acc,
  (forall y, acc = Some y -> cv_seq y < q) -> q + N.of_nat (length b) <= N.succ snap ->
  val_of (fold_left (better snap k) (number q b) acc) = match lw k b None with Some v => v | None => val_of acc end.
Proof.
  induction b as [|[k0 v0] r IH]; intros q acc Hacc Hq; [reflexivity|].
  cbn [number fold_left length] in *. rewrite lw_cons.
  rewrite IH.
  - rewrite (lw_acc k r (if N.eqb k0 k then Some v0 else None)).
    destruct (lw k r None); [reflexivity|]. unfold better. cbn [cv_key cv_seq].
    destruct (N.eqb k0 k); cbn [andb]; [|reflexivity].
    replace (N.leb q snap) with true by lia.
    destruct acc as [y|]; [|reflexivity]. specialize (Hacc y eq_refl). replace (N.ltb (cv_seq y) q) with true by lia. reflexivity.
  - intros y Hy. unfold better in Hy. cbn [cv_key cv_seq] in Hy.
    destruct (N.eqb k0 k && N.leb q snap).
    + destruct acc as [z|]; [destruct (N.ltb (cv_seq z) q) eqn:E|]; inversion Hy; subst; cbn [cv_seq]; try lia.
      specialize (Hacc y eq_refl). lia.
    + specialize (Hacc y Hy). lia.
  - lia.
Qed.

Lemma spec_get_batch k b : forall g,
  view_get (fold_left (fun g kv => aset (fst kv) (snd kv) g) b g) k = match lw k b None with Some v => v | None => view_get g k end.
Proof.
  induction b as [|[k0 v0] r IH]; intros g; [reflexivity|]. cbn [fold_left fst snd]. rewrite lw_cons, IH.
  rewrite (lw_acc k r (if N.eqb k0 k then Some v0 else None)).
  destruct (lw k r None); [reflexivity|]. unfold view_get.
  destruct (N.eqb k0 k) eqn:E.
  - apply N.eqb_eq in E. subst. rewrite aget_aset_same. reflexivity.
  - apply N.eqb_neq in E. rewrite aget_aset_other by congruence. reflexivity.
Qed.

(* ------------------------------------------------------------------ the invariant: the cache is invisible *)
Ltac dinv H := destruct H as [Hmt Hml Hms Hmn Hh Hids Hplt Hpnf Hpnd Hc Hsl Hss Hst Hsm Hfl Hk Hw Hwl Hiw Hwc Hwi Hv Hck].

Lemma inv_coherent s : Inv s -> coherent (s_cache s) (d_tables (s_disk s)).
Proof. intros H t i b Hg. exact (proj2 (proj2 (i_cache s H t i b Hg))). Qed.

Lemma store_vers_coherent s : Inv s -> store_vers (s_cache s) s = store_vers [] s.
Proof.
  intros H. unfold store_vers. f_equal. apply tables_vers_coherent; [apply inv_coherent; exact H | exact (i_handles s H)].
Qed.

Lemma read_coherent s snap k : Inv s -> kread s snap k = kread_with [] s snap k.
Proof. intros H. unfold kread, kread_with. rewrite store_vers_coherent by exact H. reflexivity. Qed.

(* ------------------------------------------------------------------ commit *)
Lemma wal_append_last lo pre w a vs :
  incr lo (map fst (pre ++ [(w, a)])) -> wal_append w vs (pre ++ [(w, a)]) = pre ++ [(w, a ++ vs)].
Proof.
  intros Hi. rewrite map_app in Hi. cbn [map fst] in Hi.
  assert (forall x, In x (map fst pre) -> x < w) as Hlt by (intros x; apply (incr_snoc_lt _ _ _ _ Hi)).
  unfold wal_append. rewrite aget_app.
  assert (aget w pre = None) as Hn.
  { apply notin_aget_none. intros a0 Hin. apply (in_map fst) in Hin. cbn [fst] in Hin. specialize (Hlt _ Hin). lia. }
  rewrite Hn. cbn [aget]. rewrite N.eqb_refl.
  clear Hi Hn. induction pre as [|[j b] r IH]; cbn [app aset].
  - rewrite N.eqb_refl. reflexivity.
  - assert (j < w) by (apply Hlt; left; reflexivity). replace (N.eqb w j) with false by lia. f_equal. apply IH.
    intros x Hx. apply Hlt. right. exact Hx.
Qed.

Lemma commit_store s start b s' q : Inv s -> commit s start b = (s', XSeq q) ->
  q = q_logseq (s_sq s) /\ b <> [] /\ store_vers [] s' = store_vers [] s ++ number q b /\
  q_visible (s_sq s') = q + N.of_nat (length b) - 1 /\ q_logseq (s_sq s') = q + N.of_nat (length b) /\
  s_view s' = fold_left (fun g kv => aset (fst kv) (snd kv) g) b (s_view s) /\
  s_cache s' = s_cache s.
Proof.
  intros H. dinv H. unfold commit. destruct b as [|p b']; [discriminate|].
  destruct (negb _); [discriminate|]. destruct (ocheck _ _ _); try discriminate. intros E. inversion E; subst. clear E.
  cbn [s_sq set_view set_orc set_sq set_mem set_disk q_visible q_logseq s_view s_cache].
  repeat split; try congruence.
  - unfold store_vers, mem_vers. cbn [s_disk s_mem set_view set_orc set_sq set_mem set_disk d_tables m_man m_imms m_active].
    rewrite <- !app_assoc. reflexivity.
  - cbn [length] in *. lia.
Qed.

Lemma commit_inv s start b : Inv s -> Inv (fst (commit s start b)).
Proof.
  intros H. destruct (commit s start b) as [s' o] eqn:E. cbn [fst].
  assert (s' = s \/ exists q, o = XSeq q) as [->|[q ->]]; [|exact H|].
  { unfold commit in E. destruct b; [inversion E; auto|]. destruct (negb _); [inversion E; auto|].
    destruct (ocheck _ _ _); inversion E; eauto. }
  destruct (commit_store _ _ _ _ _ H E) as [Hq [Hb [Hst' [Hvis [Hlog [Hview Hcache]]]]]].
  assert (Hstore := Hst').
  dinv H.
  assert (1 <= N.of_nat (length b)) as Hlen by (destruct b; [congruence | cbn [length]; lia]).
  unfold commit in E. destruct b as [|p b'] eqn:Eb; [congruence|]. rewrite <- Eb in *. clear Eb p b'.
  destruct (negb _); [discriminate|]. destruct (ocheck _ _ _); try discriminate. inversion E. clear E.
  assert (forall x, In x (store_vers [] s') -> cv_seq x <= q_visible (s_sq s')) as Hss'.
  { intros x Hx. rewrite Hstore in Hx. apply in_app_or in Hx. destruct Hx as [Hx|Hx].
    - specialize (Hss x Hx). lia.
    - apply number_seq in Hx. lia. }
  destruct Hwl as [pre [old Hpre]].
  assert (wal_append (m_wal (s_mem s)) (number (q_logseq (s_sq s)) b) (d_wal (s_disk s))
          = pre ++ [(m_wal (s_mem s), old ++ number (q_logseq (s_sq s)) b)]) as Happ.
  { rewrite Hpre. apply (wal_append_last (mf_log (m_man (s_mem s)))). rewrite <- Hpre. exact Hwi. }
  subst s'. constructor;
    cbn [s_disk s_mem s_cache s_sq s_orc s_view s_ckpts set_view set_orc set_sq set_mem set_disk d_tables d_man d_wal
         m_man m_active m_active_wal m_imms m_wal q_visible q_logseq q_floor o_kept opublish pending] in *;
    try assumption.
  - lia.
  - lia.
  - lia.
  - rewrite Happ. rewrite Hpre in Hw. rewrite Hwc in *. apply wg_append; [|exact Hw].
    intros x Hx. apply in_map_iff in Hx. destruct Hx as [im [<- Hin]]. cbn [seg_of fst]. exact (Hiw im Hin).
  - rewrite Happ. eauto.
  - rewrite Happ. rewrite Hpre in Hwi. rewrite map_app in *. exact Hwi.
  - intros k. unfold kread_with. rewrite Hstore. rewrite pick_app.
    rewrite spec_get_batch. rewrite <- Hv. unfold kread_with.
    rewrite (pick_snap _ (q_visible (s_sq s))).
    + apply fold_better_number.
      * intros y Hy. unfold pick in Hy. apply fold_better_in in Hy. destruct Hy as [Hy|Hy]; [discriminate|].
        specialize (Hss y Hy). lia.
      * lia.
    + intros x Hx. specialize (Hss x Hx). lia.
    + exact Hss.
Qed.

(* ------------------------------------------------------------------ rotate *)
Ltac simp_state :=
  cbn [s_disk s_mem s_cache s_sq s_orc s_view s_ckpts set_view set_orc set_sq set_mem set_disk set_bcache set_ckpts
       d_tables d_man d_wal m_man m_active m_active_wal m_imms m_wal q_visible q_logseq q_floor o_kept o_recent
       mf_tables mf_next mf_log mf_seq with_next im_tid im_wal im_vers fst snd] in *.

Lemma rotate_store c s : store_vers c (rotate s) = store_vers c s.
Proof.
  unfold rotate. destruct (m_active (s_mem s)) eqn:E; [reflexivity|]. rewrite <- E.
  unfold store_vers, mem_vers. simp_state. rewrite flat_map_app. cbn [flat_map im_vers]. rewrite !app_nil_r. reflexivity.
Qed.

Lemma NoDup_snoc {A} (l : list A) x : NoDup l -> ~ In x l -> NoDup (l ++ [x]).
Proof.
  induction l as [|a r IH]; cbn [app]; intros Hn Hx; [constructor; [cbn; tauto | constructor]|].
  inversion Hn; subst. constructor.
  - intros Hin. apply in_app_or in Hin. destruct Hin as [Hin|[Hin|[]]]; [tauto | subst; apply Hx; left; reflexivity].
  - apply IH; [assumption | intros Hin; apply Hx; right; exact Hin].
Qed.

Lemma rotate_inv s : Inv s -> Inv (rotate s).
Proof.
  intros H. assert (Hstore := rotate_store [] s). unfold rotate in *.
  destruct (m_active (s_mem s)) as [|x0 a0] eqn:E; [exact H|]. rewrite <- E in *. clear E x0 a0.
  dinv H. constructor; unfold pending in *; simp_state; try assumption.
  - lia.
  - intros im Hin. apply in_app_or in Hin. destruct Hin as [Hin|[<-|[]]]; [specialize (Hplt im Hin); lia | simp_state; lia].
  - intros im f Hin. apply in_app_or in Hin. destruct Hin as [Hin|[<-|[]]]; [exact (Hpnf im f Hin)|]. simp_state.
    intros Hf. specialize (Hids _ _ Hf). lia.
  - rewrite map_app. cbn [map im_tid]. apply NoDup_snoc; [exact Hpnd|].
    intros Hin. apply in_map_iff in Hin. destruct Hin as [im [E1 Hin]]. specialize (Hplt im Hin). lia.
  - intros t i b Hg. destruct (Hc t i b Hg) as [H1 [H2 H3]]. split; [exact H1|]. split; [|exact H3].
    rewrite map_app. cbn [map im_tid]. intros Hin. apply in_app_or in Hin. destruct Hin as [Hin|[Hin|[]]]; [tauto | lia].
  - intros x Hx. rewrite Hstore in Hx. exact (Hss x Hx).
  - rewrite map_app. cbn [map seg_of]. simp_state. rewrite Hwc.
    apply wg_snoc; [|simpl; lia|exact Hw].
    intros x Hx. apply in_map_iff in Hx. destruct Hx as [im [<- Hin]]. cbn [seg_of fst]. exact (Hiw im Hin).
  - eauto.
  - intros im Hin. apply in_app_or in Hin. destruct Hin as [Hin|[<-|[]]]; [specialize (Hiw im Hin); lia | simp_state; lia].
  - reflexivity.
  - destruct Hwl as [pre [old Hpre]]. rewrite Hpre in *. rewrite !map_app in *. cbn [map fst] in *. apply incr_snoc; [exact Hwi | lia].
  - intros k. unfold kread_with. rewrite Hstore. exact (Hv k).
Qed.

(* ------------------------------------------------------------------ flush *)
Section Steps.
Variable bsz : nat.

Lemma flush_tables s im rest : Inv s -> m_imms (s_mem s) = im :: rest ->
  let f := mk_blocks bsz (im_vers im) in
  tables_vers [] (d_tables (s_disk s) ++ [(im_tid im, f)]) (mf_tables (m_man (s_mem s)) ++ [(im_tid im, length f)])
  = tables_vers [] (d_tables (s_disk s)) (mf_tables (m_man (s_mem s))) ++ im_vers im.
Proof.
  intros H E f. dinv H. unfold tables_vers. rewrite flat_map_app. cbn [flat_map]. rewrite app_nil_r. f_equal.
  - apply tables_vers_ext. intros [t nb] Hin. cbn [fst]. rewrite aget_app. destruct (Hh t nb Hin) as [f0 [Hf0 _]]. rewrite Hf0. reflexivity.
  - rewrite (table_vers_file _ _ f); [apply chunk_concat|]. rewrite aget_app.
    rewrite notin_aget_none; [cbn [aget]; rewrite N.eqb_refl; reflexivity|].
    intros a. apply Hpnf. rewrite E. left. reflexivity.
Qed.

Lemma flush_store s : Inv s -> store_vers [] (fst (flush_oldest bsz s)) = store_vers [] s.
Proof.
  intros H. unfold flush_oldest. destruct (m_imms (s_mem s)) as [|im rest] eqn:E; [reflexivity|].
  cbn [fst]. unfold store_vers, mem_vers. simp_state. rewrite (flush_tables s im rest H E). rewrite E. cbn [flat_map].
  rewrite <- !app_assoc. reflexivity.
Qed.

Lemma flush_inv s : Inv s -> Inv (fst (flush_oldest bsz s)).
Proof.
  intros H. assert (Hstore := flush_store s H). assert (Htab := flush_tables s). unfold flush_oldest in *.
  destruct (m_imms (s_mem s)) as [|im rest] eqn:E; [exact H|]. specialize (Htab im rest H eq_refl).
  cbn [fst] in *. dinv H. unfold pending in *. rewrite E in *. constructor; unfold pending in *; simp_state; try assumption.
  - reflexivity.
  - reflexivity.
  - reflexivity.
  - lia.
  - intros t nb Hin. apply in_app_or in Hin. rewrite aget_app. destruct Hin as [Hin|[Hin|[]]].
    + destruct (Hh t nb Hin) as [f0 [Hf0 Hl]]. rewrite Hf0. eauto.
    + inversion Hin; subst. rewrite notin_aget_none; [cbn [aget]; rewrite N.eqb_refl; eauto|].
      intros a Ha. apply (Hpnf im a); [left; reflexivity | exact Ha].
  - intros t f Hin. apply in_app_or in Hin. destruct Hin as [Hin|[Hin|[]]].
    + specialize (Hids _ _ Hin). lia.
    + inversion Hin; subst. apply Hplt. left. reflexivity.
  - intros im0 Hin. apply Hplt. right. exact Hin.
  - intros im0 f Hin Hf. apply in_app_or in Hf. destruct Hf as [Hf|[Hf|[]]].
    + apply (Hpnf im0 f); [right; exact Hin | exact Hf].
    + inversion Hf as [[Ht Hff]]. cbn [map] in Hpnd. apply NoDup_cons_iff in Hpnd as [Hnd1 Hnd2]. apply Hnd1. rewrite Ht.
      apply in_map. exact Hin.
  - cbn [map] in Hpnd. apply NoDup_cons_iff in Hpnd as [Hnd1 Hnd2]. exact Hnd2.
  - intros t i b Hg. destruct (Hc t i b Hg) as [H1 [H2 H3]]. cbn [map In] in H2. split; [lia|]. split; [tauto|].
    intros f. rewrite aget_app. destruct (aget t (d_tables (s_disk s))) as [f0|] eqn:E0.
    + intros Hf; inversion Hf; subst. apply H3. reflexivity.
    + cbn [aget]. destruct (N.eqb t (im_tid im)) eqn:E1; [|discriminate]. apply N.eqb_eq in E1. subst. tauto.
  - intros x Hx. rewrite Hstore in Hx. exact (Hss x Hx).
  - intros x Hx. rewrite Htab in Hx. apply in_app_or in Hx. destruct Hx as [Hx|Hx].
    + specialize (Hst x Hx). lia.
    + apply max_seq_ge in Hx. lia.
  - assert (max_seq (im_vers im) <= q_visible (s_sq s)); [|lia]. apply nmax_le. intros y Hy.
    apply in_map_iff in Hy. destruct Hy as [x [<- Hx]]. apply Hss. unfold store_vers, mem_vers. simp_state. rewrite E.
    apply in_or_app. right. apply in_or_app. left. cbn [flat_map]. apply in_or_app. left. exact Hx.
  - exact (wg_flush _ (seg_of im) _ Hw).
  - destruct Hwl as [pre [old Hpre]]. rewrite Hpre, filter_app. cbn [filter fst].
    assert (im_wal im < m_active_wal (s_mem s)) by (apply Hiw; left; reflexivity).
    replace (N.leb (N.succ (im_wal im)) (m_wal (s_mem s))) with true by lia. eauto.
  - intros im0 Hin. apply Hiw. right. exact Hin.
  - exact (incr_filter_live _ (N.succ (im_wal im)) _ Hwi).
  - intros k. unfold kread_with. rewrite Hstore. exact (Hv k).
Qed.

Lemma flush_n_inv n : forall s, Inv s -> Inv (flush_n bsz n s).
Proof. induction n as [|n IH]; intros s H; cbn [flush_n]; [exact H|]. apply IH. apply flush_inv. exact H. Qed.

Lemma flush_all_inv s : Inv s -> Inv (flush_all bsz s).
Proof. intros H. unfold flush_all. apply flush_n_inv. apply rotate_inv. exact H. Qed.

Lemma flush_n_empties n : forall s, length (m_imms (s_mem s)) = n ->
  m_imms (s_mem (flush_n bsz n s)) = [] /\ m_active (s_mem (flush_n bsz n s)) = m_active (s_mem s).
Proof.
  induction n as [|n IH]; intros s Hl; cbn [flush_n].
  - destruct (m_imms (s_mem s)); [auto | discriminate].
  - unfold flush_oldest. destruct (m_imms (s_mem s)) as [|im rest] eqn:E; [discriminate|]. cbn [fst].
    match goal with |- context [flush_n bsz n ?s1] => destruct (IH s1) as [H1 H2] end.
    + simp_state. cbn [length] in Hl. lia.
    + rewrite H1, H2. simp_state. auto.
Qed.

Lemma rotate_active s : m_active (s_mem (rotate s)) = [].
Proof. unfold rotate. destruct (m_active (s_mem s)) eqn:E; [exact E | reflexivity]. Qed.

Lemma flush_all_empties s : m_imms (s_mem (flush_all bsz s)) = [] /\ m_active (s_mem (flush_all bsz s)) = [].
Proof.
  unfold flush_all. destruct (flush_n_empties (length (m_imms (s_mem (rotate s)))) (rotate s) eq_refl) as [H1 H2].
  rewrite H1, H2. split; [reflexivity | apply rotate_active].
Qed.

(* what the physical steps leave alone *)
Lemma rotate_frame s : s_view (rotate s) = s_view s /\ s_ckpts (rotate s) = s_ckpts s /\ s_sq (rotate s) = s_sq s /\
  s_cache (rotate s) = s_cache s /\ s_orc (rotate s) = s_orc s.
Proof. unfold rotate. destruct (m_active (s_mem s)); repeat split; reflexivity. Qed.
Lemma flush_frame s : let s' := fst (flush_oldest bsz s) in s_view s' = s_view s /\ s_ckpts s' = s_ckpts s /\ s_sq s' = s_sq s /\
  s_cache s' = s_cache s /\ s_orc s' = s_orc s.
Proof. unfold flush_oldest. destruct (m_imms (s_mem s)); repeat split; reflexivity. Qed.
Lemma flush_n_frame n : forall s, let s' := flush_n bsz n s in s_view s' = s_view s /\ s_ckpts s' = s_ckpts s /\ s_sq s' = s_sq s /\
  s_cache s' = s_cache s /\ s_orc s' = s_orc s.
Proof.
  induction n as [|n IH]; intros s; cbn [flush_n]; [repeat split; reflexivity|].
  destruct (IH (fst (flush_oldest bsz s))) as [H1 [H2 [H3 [H4 H5]]]]. destruct (flush_frame s) as [G1 [G2 [G3 [G4 G5]]]].
  cbn zeta in *. rewrite H1, H2, H3, H4, H5. auto.
Qed.
Lemma flush_all_frame s : let s' := flush_all bsz s in s_view s' = s_view s /\ s_ckpts s' = s_ckpts s /\ s_sq s' = s_sq s /\
  s_cache s' = s_cache s /\ s_orc s' = s_orc s.
Proof.
  unfold flush_all. destruct (flush_n_frame (length (m_imms (s_mem (rotate s)))) (rotate s)) as [H1 [H2 [H3 [H4 H5]]]].
  destruct (rotate_frame s) as [G1 [G2 [G3 [G4 G5]]]]. cbn zeta in *. rewrite H1, H2, H3, H4, H5. auto.
Qed.
End Steps.

(* ------------------------------------------------------------------ compaction *)
Lemma tables_vers_sub c ts hs hs' x : (forall h, In h hs -> In h hs') -> In x (tables_vers c ts hs) -> In x (tables_vers c ts hs').
Proof. unfold tables_vers. rewrite !in_flat_map. intros H [h [H1 H2]]. exists h. auto. Qed.

Lemma filter_flat_map {A B} (p : B -> bool) (g : A -> list B) l : filter p (flat_map g l) = flat_map (fun a => filter p (g a)) l.
Proof. induction l as [|a r IH]; cbn [flat_map filter]; [reflexivity|]. rewrite filter_app, IH. reflexivity. Qed.

Lemma flat_map_filter_nil {A B} (q : A -> bool) (g : A -> list B) l :
  (forall a, In a l -> q a = false -> g a = []) -> flat_map g l = flat_map g (filter q l).
Proof.
  induction l as [|a r IH]; cbn [flat_map filter]; intros H; [reflexivity|].
  rewrite IH by (intros b Hb; apply H; right; exact Hb).
  destruct (q a) eqn:E; cbn [flat_map]; [reflexivity|]. rewrite (H a) by (auto; left; reflexivity). reflexivity.
Qed.

Lemma filter_none {A} (p : A -> bool) l : (forall x, In x l -> p x = false) -> filter p l = [].
Proof. induction l as [|a r IH]; cbn [filter]; intros H; [reflexivity|]. rewrite (H a) by (left; reflexivity). apply IH. intros x Hx. apply H. right. exact Hx. Qed.

Section Steps2.
Variable bsz : nat.

Lemma compact_inv s ins keep : Inv s -> Inv (fst (compact bsz s ins keep)).
Proof.
  intros H. unfold compact. destruct ins as [|i0 ins0] eqn:Eins; [exact H|]. rewrite <- Eins. clear Eins i0 ins0.
  destruct (negb _) eqn:Elive; [exact H|].
  set (live := mf_tables (m_man (s_mem s))) in *.
  set (in_h := filter (fun h => nmem (fst h) ins) live) in *.
  set (rest := filter (fun h => negb (nmem (fst h) ins)) live) in *.
  set (in_vers := tables_vers [] (d_tables (s_disk s)) in_h) in *.
  set (outv := filter (kept keep) in_vers) in *.
  set (tid := mf_next (m_man (s_mem s))) in *.
  set (f := mk_blocks bsz outv) in *.
  set (files := filter (fun e => negb (nmem (fst e) ins)) (d_tables (s_disk s))) in *.
  set (newh := match outv with [] => [] | _ => [(tid, length f)] end) in *.
  set (newf := match outv with [] => [] | _ => [(tid, f)] end) in *.
  match goal with |- context [if ?g then _ else _] => destruct g eqn:G end; [|exact H]. cbn [fst].
  dinv H.
  (* files of the surviving tables are untouched; the new id names no older file *)
  assert (forall t f0, aget t (d_tables (s_disk s)) = Some f0 -> nmem t ins = false -> aget t (files ++ newf) = Some f0) as Hkeep.
  { intros t f0 Hf0 Hn. rewrite aget_app. unfold files.
    rewrite (aget_filter_keep (fun i => negb (nmem i ins))) by (rewrite Hn; reflexivity). rewrite Hf0. reflexivity. }
  assert (forall a, ~ In (tid, a) (d_tables (s_disk s))) as Htid.
  { intros a Ha. specialize (Hids _ _ Ha). unfold tid in *. lia. }
  assert (forall t f0, aget t (files ++ newf) = Some f0 -> (aget t (d_tables (s_disk s)) = Some f0 /\ t <> tid) \/ (t = tid /\ f0 = f /\ outv <> [])) as Hback.
  { intros t f0. rewrite aget_app. unfold files. destruct (aget t (filter _ _)) as [f1|] eqn:E1.
    - intros Hf; inversion Hf; subst. apply (aget_filter_some (fun i => negb (nmem i ins))) in E1. destruct E1 as [E1 _].
      left. split; [exact E1|]. intros ->. exact (Htid _ (aget_In _ _ _ E1)).
    - unfold newf. destruct outv; [discriminate|]. cbn [aget]. destruct (N.eqb t tid) eqn:E2; [|discriminate].
      intros Hf; inversion Hf; subst. apply N.eqb_eq in E2. right. repeat split; [exact E2 | discriminate]. }
  assert (tables_vers [] (files ++ newf) (rest ++ newh) = tables_vers [] (d_tables (s_disk s)) rest ++ outv) as Htab.
  { unfold tables_vers. rewrite flat_map_app. f_equal.
    - apply tables_vers_ext. intros [t nb] Hin. cbn [fst]. unfold rest in Hin. apply filter_In in Hin. destruct Hin as [Hin Hn].
      cbn [fst] in Hn. destruct (Hh t nb Hin) as [f0 [Hf0 _]]. rewrite Hf0. apply Hkeep; [exact Hf0|]. destruct (nmem t ins); [discriminate|reflexivity].
    - unfold newh, newf. destruct outv as [|x0 o0] eqn:Eo; [reflexivity|]. cbn [flat_map]. rewrite app_nil_r.
      rewrite (table_vers_file _ _ f); [unfold f; rewrite chunk_concat; reflexivity|].
      rewrite aget_app. unfold files. destruct (aget tid (filter _ _)) as [f1|] eqn:E1.
      + apply (aget_filter_some (fun i => negb (nmem i ins))) in E1. destruct E1 as [E1 _]. exfalso. exact (Htid _ (aget_In _ _ _ E1)).
      + cbn [aget]. rewrite N.eqb_refl. reflexivity. }
  assert (forall x, In x in_vers -> In x (tables_vers [] (d_tables (s_disk s)) live)) as Hin_sub.
  { intros x. apply tables_vers_sub. intros h Hh'. unfold in_h in Hh'. apply filter_In in Hh'. tauto. }
  assert (forall x, In x (tables_vers [] (d_tables (s_disk s)) rest ++ outv) -> In x (tables_vers [] (d_tables (s_disk s)) live)) as Hnew_sub.
  { intros x Hx. apply in_app_or in Hx. destruct Hx as [Hx|Hx].
    - revert Hx. apply tables_vers_sub. intros h Hh'. unfold rest in Hh'. apply filter_In in Hh'. tauto.
    - apply Hin_sub. unfold outv in Hx. apply filter_In in Hx. tauto. }
  constructor; unfold pending in *; simp_state; try assumption.
  - reflexivity.
  - reflexivity.
  - reflexivity.
  - lia.
  - intros t nb Hin. apply in_app_or in Hin. destruct Hin as [Hin|Hin].
    + unfold rest in Hin. apply filter_In in Hin. destruct Hin as [Hin Hn]. cbn [fst] in Hn.
      destruct (Hh t nb Hin) as [f0 [Hf0 Hl]]. exists f0. split; [|exact Hl]. apply Hkeep; [exact Hf0|].
      destruct (nmem t ins); [discriminate|reflexivity].
    + unfold newh in Hin. destruct outv as [|x0 o0] eqn:Eo; [destruct Hin|]. destruct Hin as [Hin|[]]. inversion Hin; subst t nb.
      exists f. split; [|reflexivity]. rewrite aget_app. unfold files. destruct (aget tid (filter _ _)) as [f1|] eqn:E1.
      * apply (aget_filter_some (fun i => negb (nmem i ins))) in E1. destruct E1 as [E1 _]. exfalso. exact (Htid _ (aget_In _ _ _ E1)).
      * unfold newf. cbn [aget]. rewrite N.eqb_refl. reflexivity.
  - intros t f0 Hin. apply in_app_or in Hin. destruct Hin as [Hin|Hin].
    + unfold files in Hin. apply filter_In in Hin. destruct Hin as [Hin _]. specialize (Hids _ _ Hin). unfold tid. lia.
    + unfold newf in Hin. destruct outv; [destruct Hin|]. destruct Hin as [Hin|[]]. inversion Hin. lia.
  - intros im Hin. specialize (Hplt im Hin). unfold tid. lia.
  - intros im f0 Hin Hf. apply in_app_or in Hf. destruct Hf as [Hf|Hf].
    + unfold files in Hf. apply filter_In in Hf. destruct Hf as [Hf _]. exact (Hpnf im f0 Hin Hf).
    + unfold newf in Hf. destruct outv; [destruct Hf|]. destruct Hf as [Hf|[]]. inversion Hf. specialize (Hplt im Hin). unfold tid in *. lia.
  - intros t i b Hg. destruct (Hc t i b Hg) as [H1 [H2 H3]]. split; [unfold tid; lia|]. split; [exact H2|].
    intros f0 Hf0. destruct (Hback t f0 Hf0) as [[Hf1 _]|[Ht _]]; [exact (H3 f0 Hf1) | unfold tid in *; lia].
  - intros x Hx. apply Hss. unfold store_vers in *. simp_state. rewrite Htab in Hx. apply in_app_or in Hx. apply in_or_app.
    destruct Hx as [Hx|Hx]; [left; exact (Hnew_sub x Hx) | right; exact Hx].
  - intros x Hx. rewrite Htab in Hx. exact (Hst x (Hnew_sub x Hx)).
  - intros k. rewrite <- Hv. destruct (existsb (fun x => N.eqb (cv_key x) k) in_vers) eqn:Ek.
    + apply existsb_exists in Ek. destruct Ek as [x [Hx Hk']]. apply N.eqb_eq in Hk'. rewrite forallb_forall in G. specialize (G x Hx).
      rewrite Hk' in G. simp_state.
      match goal with |- ?a = ?b => destruct a as [va|]; destruct b as [vb|]; try discriminate; try reflexivity end.
      apply N.eqb_eq in G. congruence.
    + assert (forall x, In x in_vers -> N.eqb (cv_key x) k = false) as Hnk.
      { intros x Hx. destruct (N.eqb (cv_key x) k) eqn:E; [|reflexivity]. rewrite <- Ek. symmetry. apply existsb_exists. eauto. }
      unfold kread_with, store_vers. simp_state. rewrite Htab. f_equal. rewrite pick_filter. rewrite (pick_filter _ _ (_ ++ _)).
      f_equal. rewrite <- app_assoc. rewrite !filter_app. rewrite (filter_none _ outv).
      * cbn [app]. f_equal. unfold tables_vers. rewrite !filter_flat_map. fold live. unfold rest.
        symmetry. apply flat_map_filter_nil. intros h Hh' Hq. apply filter_none. intros x Hx. apply Hnk. unfold in_vers, tables_vers.
        apply in_flat_map. exists h. split; [|exact Hx]. unfold in_h. apply filter_In. split; [exact Hh'|].
        destruct (nmem (fst h) ins); [reflexivity|discriminate].
      * intros x Hx. apply Hnk. unfold outv in Hx. apply filter_In in Hx. tauto.
Qed.
End Steps2.

(* ------------------------------------------------------------------ cache traffic *)
Lemma fill_inv s t i : Inv s -> Inv (fill s t i).
Proof.
  intros H. unfold fill. destruct (nmem t _) eqn:Et; [|exact H]. unfold file_block.
  destruct (aget t (d_tables (s_disk s))) as [f|] eqn:Ef; [|exact H]. destruct (nth_error f i) as [b|] eqn:Eb; [|exact H].
  dinv H. constructor; unfold pending in *; simp_state; try assumption.
  intros t' i' b' Hg. apply cget_cput in Hg. destruct Hg as [Hg|[Hk' [Hb' _]]]; [exact (Hc _ _ _ Hg)|].
  inversion Hk'; subst. split; [exact (Hids _ _ (aget_In _ _ _ Ef))|]. split.
  - intros Hin. apply in_map_iff in Hin. destruct Hin as [im [E1 Hin]]. apply (Hpnf im f Hin). rewrite E1. exact (aget_In _ _ _ Ef).
  - intros f0 Hf0. rewrite Ef in Hf0. inversion Hf0; subst. exact Eb.
Qed.

Lemma evict_inv s t i : Inv s -> Inv (evict s t i).
Proof.
  intros H. unfold evict. dinv H. constructor; unfold pending in *; simp_state; try assumption.
  intros t' i' b' Hg. apply cget_cdel in Hg. exact (Hc _ _ _ Hg).
Qed.

(* ------------------------------------------------------------------ restore, step by step *)
Definition restored (ck : ckpt) (s : kstate) : kstate :=
  let man := d_man (ck_disk ck) in
  let mx := mf_seq man in
  let vis := if N.ltb 0 mx then mx else q_visible (s_sq s) in
  {| s_disk := {| d_tables := d_tables (ck_disk ck); d_man := man; d_wal := [(mf_log man, [])] |};
     s_ckpts := s_ckpts s;
     s_mem := {| m_man := man; m_active := []; m_active_wal := mf_log man; m_imms := []; m_wal := mf_log man |};
     s_cache := [];
     s_sq := {| q_visible := vis; q_logseq := if N.ltb 0 mx then N.succ mx else q_logseq (s_sq s); q_floor := vis |};
     s_orc := {| o_recent := []; o_kept := mx |};
     s_view := ck_view ck |}.

Lemma fold_step {A B} (f : A -> B -> A) x l a : fold_left f (x :: l) a = fold_left f l (f a x).
Proof. reflexivity. Qed.

Lemma replayed_empty_seg lo w : replayed lo [(w, [])] = [].
Proof. unfold replayed. cbn [filter]. destruct (seg_live lo (w, [])); reflexivity. Qed.

Lemma restore_canon_eq bsz ck s : d_wal (ck_disk ck) = [] -> restore_with bsz canon_steps ck s = restored ck s.
Proof.
  destruct ck as [[tabs man wal] view]. cbn [ck_disk d_wal]. intros ->.
  unfold restore_with, canon_steps, restored. cbn [ck_disk ck_view]. simp_state.
  do 5 (rewrite fold_step; cbn [rstep_apply ck_disk ck_view]; simp_state).
  rewrite fold_step; cbn [rstep_apply]; simp_state. cbn [nmax map]. rewrite N.max_0_r. unfold wal_ensure. cbn [aget app].
  rewrite fold_step; cbn [rstep_apply]; simp_state. rewrite replayed_empty_seg.
  rewrite fold_step; cbn [rstep_apply]; simp_state. cbn [nmax map fst]. rewrite N.max_0_r, N.max_id. unfold wal_ensure. cbn [aget].
  rewrite N.eqb_refl.
  rewrite fold_step; cbn [rstep_apply]; simp_state.
  rewrite fold_step; cbn [rstep_apply]; unfold restore_max; simp_state. cbn [max_seq map nmax]. rewrite N.max_0_r.
  destruct (N.ltb 0 (mf_seq man)); rewrite fold_step; cbn [rstep_apply fold_left]; unfold restore_max; simp_state;
    cbn [max_seq map nmax]; rewrite N.max_0_r; reflexivity.
Qed.

Lemma cget_nil k : bcget k [] = None.
Proof. reflexivity. Qed.

Lemma restored_inv ck s : Inv s -> ckpt_ok ck -> Inv (restored ck s).
Proof.
  intros H [Kw Kh Ki Ks Kv]. dinv H. unfold restored.
  set (mx := mf_seq (d_man (ck_disk ck))) in *.
  assert (mx <= (if N.ltb 0 mx then mx else q_visible (s_sq s))) as Hmx by (destruct (N.ltb 0 mx) eqn:E; lia).
  constructor; unfold pending, store_vers, mem_vers in *; simp_state; cbn [map flat_map app] in *; try assumption; try reflexivity; try lia.
  - intros im [].
  - intros im f [].
  - constructor.
  - intros t i b Hg. discriminate.
  - destruct (N.ltb 0 mx); [reflexivity | exact Hsl].
  - intros x Hx. rewrite app_nil_r in Hx. specialize (Ks x Hx). fold mx in Ks. lia.
  - apply wg_single.
  - exists [], []. reflexivity.
  - intros im [].
  - cbn [fst incr]. split; [lia | exact I].
  - intros k. unfold kread_with, store_vers, mem_vers. simp_state. cbn [flat_map app]. rewrite app_nil_r. rewrite <- Kv. f_equal.
    apply pick_snap; intros x Hx; specialize (Ks x Hx); fold mx in Ks; fold mx; lia.
Qed.

Definition opened (ck : ckpt) (cks : list (N * ckpt)) : kstate :=
  let man := d_man (ck_disk ck) in
  {| s_disk := {| d_tables := d_tables (ck_disk ck); d_man := man; d_wal := [(mf_log man, [])] |};
     s_ckpts := cks;
     s_mem := {| m_man := man; m_active := []; m_active_wal := mf_log man; m_imms := []; m_wal := mf_log man |};
     s_cache := [];
     s_sq := {| q_visible := mf_seq man; q_logseq := N.succ (mf_seq man); q_floor := mf_seq man |};
     s_orc := {| o_recent := []; o_kept := 0 |};
     s_view := ck_view ck |}.

Lemma open_ckpt_eq bsz ck cks : d_wal (ck_disk ck) = [] -> open_ckpt bsz ck cks = opened ck cks.
Proof.
  destruct ck as [[tabs man wal] view]. cbn [ck_disk d_wal]. intros ->. unfold open_ckpt, boot, opened, replayed. cbn [ck_disk ck_view]. simp_state.
  cbn [filter flat_map map nmax max_seq recover fst snd]. rewrite !N.max_0_r. unfold wal_ensure. cbn [aget app]. reflexivity.
Qed.

Lemma opened_inv ck cks : ckpt_ok ck -> (forall c ck', aget c cks = Some ck' -> ckpt_ok ck') -> Inv (opened ck cks).
Proof.
  intros [Kw Kh Ki Ks Kv] Hck. unfold opened.
  constructor; unfold pending, store_vers, mem_vers in *; simp_state; cbn [map flat_map app] in *; try assumption; try reflexivity; try lia.
  - intros im [].
  - intros im f [].
  - constructor.
  - intros t i b Hg. discriminate.
  - intros x Hx. rewrite app_nil_r in Hx. exact (Ks x Hx).
  - apply wg_single.
  - exists [], []. reflexivity.
  - intros im [].
  - cbn [fst incr]. split; [lia | exact I].
  - intros k. unfold kread_with, store_vers, mem_vers. simp_state. cbn [flat_map app]. rewrite app_nil_r. exact (Kv k).
Qed.

(* ------------------------------------------------------------------ reopen *)
Lemma flat_map_segs l w a : flat_map snd (map seg_of l ++ [(w, a)]) = flat_map im_vers l ++ a.
Proof.
  rewrite flat_map_app. cbn [flat_map snd]. rewrite app_nil_r. f_equal.
  induction l as [|im r IH]; cbn [map flat_map seg_of snd]; [reflexivity|]. rewrite IH. reflexivity.
Qed.

(* ---- recovery: every replayed segment but the last becomes a table ---- *)
Lemma nmax_app l1 l2 : nmax (l1 ++ l2) = N.max (nmax l1) (nmax l2).
Proof. induction l1 as [|x r IH]; cbn [app nmax]; [lia|]. rewrite IH. lia. Qed.
Lemma max_seq_app a b : max_seq (a ++ b) = N.max (max_seq a) (max_seq b).
Proof. unfold max_seq. rewrite map_app. apply nmax_app. Qed.

Lemma incr_last_nmax lo (pre : list (N * list cver)) w a :
  incr lo (map fst (pre ++ [(w, a)])) -> N.max lo (nmax (map fst (pre ++ [(w, a)]))) = w.
Proof.
  intros Hi. rewrite map_app in *. cbn [map fst] in *. rewrite nmax_app. cbn [nmax].
  assert (lo <= w) by (apply (incr_ge _ _ _ Hi); apply in_or_app; right; left; reflexivity).
  assert (nmax (map fst pre) <= w); [|lia]. apply nmax_le. intros x Hx. assert (x < w) by exact (incr_snoc_lt _ _ _ _ Hi Hx). lia.
Qed.

Lemma flat_map_nonempty (l : list (N * list cver)) : flat_map snd (filter seg_nonempty l) = flat_map snd l.
Proof.
  induction l as [|[i a] r IH]; cbn [filter flat_map]; [reflexivity|]. unfold seg_nonempty at 1. cbn [snd].
  destruct a; cbn [flat_map snd app]; rewrite IH; reflexivity.
Qed.

Lemma nonempty_none (p : N * list cver -> bool) l : filter seg_nonempty l = [] -> flat_map snd (filter p l) = [].
Proof.
  induction l as [|[i a] r IH]; cbn [filter]; [reflexivity|]. unfold seg_nonempty at 1. cbn [snd].
  destruct a; [|discriminate]. intros E. destruct (p (i, [])); cbn [flat_map snd app]; exact (IH E).
Qed.

Lemma wg_one (wal : list (N * list cver)) w a : (forall e, In e wal -> fst e <= w) -> flat_map snd wal = a -> wal_groups wal [(w, a)].
Proof.
  intros Hle Hf. cbn [wal_groups fst snd].
  assert (filter (seg_upto w) wal = wal /\ filter (fun e => negb (seg_upto w e)) wal = []) as [-> ->]; [|auto].
  clear Hf. induction wal as [|e r IH]; cbn [filter]; [auto|].
  assert (seg_upto w e = true) as -> by (unfold seg_upto; specialize (Hle e (or_introl eq_refl)); lia). cbn [negb].
  destruct IH as [-> ->]; [intros e' He'; apply Hle; right; exact He' | auto].
Qed.

Section Recover.
Variable bsz : nat.

Definition tm_ok (ts : list (N * tfile)) (man : manifest) : Prop :=
  (forall t nb, In (t, nb) (mf_tables man) -> exists f, aget t ts = Some f /\ length f = nb) /\
  (forall t f, In (t, f) ts -> t < mf_next man) /\
  (forall x, In x (tables_vers [] ts (mf_tables man)) -> cv_seq x <= mf_seq man).

Lemma recov_flush_ok ts man e : tm_ok ts man ->
  tm_ok (fst (recov_flush bsz (ts, man) e)) (snd (recov_flush bsz (ts, man) e)) /\
  tables_vers [] (fst (recov_flush bsz (ts, man) e)) (mf_tables (snd (recov_flush bsz (ts, man) e)))
    = tables_vers [] ts (mf_tables man) ++ snd e /\
  (forall t, t < mf_next man -> aget t (fst (recov_flush bsz (ts, man) e)) = aget t ts).
Proof.
  intros [Hh [Hids Hst]]. unfold recov_flush. cbv zeta. cbn [fst snd]. cbn [mf_tables mf_next mf_seq].
  set (f := mk_blocks bsz (snd e)).
  assert (aget (mf_next man) ts = None) as Hnone.
  { apply notin_aget_none. intros a Ha. specialize (Hids _ _ Ha). lia. }
  assert (tables_vers [] (ts ++ [(mf_next man, f)]) (mf_tables man ++ [(mf_next man, length f)])
          = tables_vers [] ts (mf_tables man) ++ snd e) as Htab.
  { unfold tables_vers. rewrite flat_map_app. cbn [flat_map]. rewrite app_nil_r. f_equal.
    - apply tables_vers_ext. intros [t nb] Hin. cbn [fst]. rewrite aget_app. destruct (Hh t nb Hin) as [f0 [Hf0 _]]. rewrite Hf0. reflexivity.
    - rewrite (table_vers_file _ _ f); [apply chunk_concat|]. rewrite aget_app, Hnone. cbn [aget]. rewrite N.eqb_refl. reflexivity. }
  split; [|split; [exact Htab|]].
  - split; [|split]; cbn [mf_tables mf_next mf_seq].
    + intros t nb Hin. apply in_app_or in Hin. rewrite aget_app. destruct Hin as [Hin|[Hin|[]]].
      * destruct (Hh t nb Hin) as [f0 [Hf0 Hl]]. rewrite Hf0. eauto.
      * inversion Hin; subst. rewrite Hnone. cbn [aget]. rewrite N.eqb_refl. eauto.
    + intros t f0 Hin. apply in_app_or in Hin. destruct Hin as [Hin|[Hin|[]]].
      * specialize (Hids _ _ Hin). cbn [mf_next]. lia.
      * inversion Hin; subst. cbn [mf_next]. lia.
    + intros x Hx. rewrite Htab in Hx. apply in_app_or in Hx. cbn [mf_seq]. destruct Hx as [Hx|Hx].
      * specialize (Hst x Hx). lia.
      * apply max_seq_ge in Hx. lia.
  - intros t Ht. rewrite aget_app. destruct (aget t ts); [reflexivity|]. cbn [aget]. replace (N.eqb t (mf_next man)) with false by lia. reflexivity.
Qed.

Lemma recover_cons2 ts man e e2 r :
  recover bsz ts man (e :: e2 :: r) = recover bsz (fst (recov_flush bsz (ts, man) e)) (snd (recov_flush bsz (ts, man) e)) (e2 :: r).
Proof. reflexivity. Qed.

Lemma recover_ok segs : forall ts man, tm_ok ts man ->
  tm_ok (fst (fst (recover bsz ts man segs))) (snd (fst (recover bsz ts man segs))) /\
  tables_vers [] (fst (fst (recover bsz ts man segs))) (mf_tables (snd (fst (recover bsz ts man segs)))) ++ snd (recover bsz ts man segs)
    = tables_vers [] ts (mf_tables man) ++ flat_map snd segs /\
  mf_next man <= mf_next (snd (fst (recover bsz ts man segs))) /\
  (forall t, t < mf_next man -> aget t (fst (fst (recover bsz ts man segs))) = aget t ts) /\
  mf_seq (snd (fst (recover bsz ts man segs))) <= N.max (mf_seq man) (max_seq (flat_map snd segs)).
Proof.
  induction segs as [|e r IH]; intros ts man Hok.
  - cbn [recover fst snd flat_map]. rewrite !app_nil_r. repeat split; try apply Hok; try lia. 
  - destruct r as [|e2 r'].
    + cbn [recover fst snd flat_map]. rewrite !app_nil_r. repeat split; try apply Hok; try lia.
    + rewrite recover_cons2. destruct (recov_flush_ok ts man e Hok) as [Hok1 [Htab1 Hag1]].
      destruct (IH _ _ Hok1) as [I1 [I2 [I3 [I4 I5]]]].
      assert (mf_next man <= mf_next (snd (recov_flush bsz (ts, man) e))) as Hn by (unfold recov_flush; cbn [snd mf_next]; lia).
      assert (mf_seq (snd (recov_flush bsz (ts, man) e)) = N.max (mf_seq man) (max_seq (snd e))) as Hs by reflexivity.
      split; [exact I1|]. split; [|split; [lia|split]].
      * rewrite I2, Htab1. change (flat_map snd (e :: e2 :: r')) with (snd e ++ flat_map snd (e2 :: r')). rewrite app_assoc. reflexivity.
      * intros t Ht. rewrite I4 by lia. apply Hag1. exact Ht.
      * change (flat_map snd (e :: e2 :: r')) with (snd e ++ flat_map snd (e2 :: r')). rewrite max_seq_app. lia.
Qed.

Lemma filter_nonempty_nil i r : filter seg_nonempty ((i, []) :: r) = filter seg_nonempty r.
Proof. reflexivity. Qed.
Lemma filter_nonempty_cons i x a r : filter seg_nonempty ((i, x :: a) :: r) = (i, x :: a) :: filter seg_nonempty r.
Proof. reflexivity. Qed.

Lemma recover_log wal : forall lo ts man, incr lo (map fst wal) -> mf_log man <= lo ->
  flat_map snd (filter (seg_live (mf_log (snd (fst (recover bsz ts man (filter seg_nonempty wal)))))) wal)
    = snd (recover bsz ts man (filter seg_nonempty wal)) /\
  mf_log man <= mf_log (snd (fst (recover bsz ts man (filter seg_nonempty wal)))) /\
  mf_log (snd (fst (recover bsz ts man (filter seg_nonempty wal)))) <= N.max (mf_log man) (nmax (map fst wal)).
Proof.
  induction wal as [|[i a] r IH]; intros lo ts man Hi Hlo.
  - cbn [filter recover fst snd flat_map map nmax]. repeat split; lia.
  - cbn [map fst incr] in Hi. destruct Hi as [Hi1 Hi2].
    destruct a as [|x a']; [rewrite !filter_nonempty_nil | rewrite !filter_nonempty_cons].
    + destruct (IH (N.succ i) ts man Hi2 ltac:(lia)) as [J1 [J2 J3]]. cbn [map fst nmax].
      split; [|split; [exact J2 | lia]].
      cbn [filter]. match goal with |- context [seg_live ?l (i, [])] => destruct (seg_live l (i, [])) end; cbn [flat_map snd app]; exact J1.
    + destruct (filter seg_nonempty r) as [|e2 r'] eqn:Er.
      * cbn [recover fst snd]. cbn [map fst nmax]. split; [|split; lia].
        cbn [filter]. unfold seg_live at 1. cbn [fst]. replace (N.leb (mf_log man) i) with true by lia. cbn [flat_map snd].
        rewrite (nonempty_none _ r Er). apply app_nil_r.
      * rewrite recover_cons2.
        set (tm := recov_flush bsz (ts, man) (i, x :: a')).
        assert (mf_log (snd tm) = N.succ i) as Hl by reflexivity.
        destruct (IH (N.succ i) (fst tm) (snd tm) Hi2 ltac:(lia)) as [J1 [J2 J3]].
        assert (N.succ i <= nmax (map fst r)) as Hn.
        { assert (In e2 r) as Hin by (apply (proj1 (filter_In seg_nonempty e2 r)); rewrite Er; left; reflexivity).
          apply (in_map fst) in Hin. assert (N.succ i <= fst e2) by exact (incr_ge _ _ _ Hi2 Hin).
          assert (fst e2 <= nmax (map fst r)) by (apply nmax_ge; exact Hin). lia. }
        cbn [map fst nmax]. split; [|split; lia].
        cbn [filter]. unfold seg_live at 1. cbn [fst].
        replace (N.leb (mf_log (snd (fst (recover bsz (fst tm) (snd tm) (e2 :: r'))))) i) with false by lia.
        exact J1.
Qed.

Lemma boot_inv s c : Inv s -> (c = s_cache s \/ c = []) -> Inv (boot bsz c (s_disk s) (s_ckpts s) (s_view s)).
Proof.
  intros H Hcache. dinv H. unfold boot, replayed.
  assert (filter (seg_live (mf_log (d_man (s_disk s)))) (d_wal (s_disk s)) = d_wal (s_disk s)) as Hlive
    by (apply incr_filter_all; rewrite Hml; exact Hwi).
  rewrite Hlive.
  assert (flat_map snd (d_wal (s_disk s)) = mem_vers (s_mem s)) as Hall.
  { unfold mem_vers. rewrite <- flat_map_segs with (w := m_active_wal (s_mem s)). exact (wg_flat _ _ _ Hwi Hw). }
  rewrite Hall.
  assert (tm_ok (d_tables (s_disk s)) (d_man (s_disk s))) as Htm.
  { split; [|split]; [rewrite Hmt; exact Hh | exact Hids | rewrite Hmt, Hms; exact Hst]. }
  destruct (recover_ok (filter seg_nonempty (d_wal (s_disk s))) _ _ Htm) as [[Th [Ti Ts]] [Req [Rnext [Raget Rseq]]]].
  rewrite flat_map_nonempty in Req, Rseq. rewrite Hall in Req, Rseq.
  destruct (recover_log (d_wal (s_disk s)) (mf_log (m_man (s_mem s))) (d_tables (s_disk s)) (d_man (s_disk s)) Hwi ltac:(lia)) as [Lflat [Llo Lhi]].
  destruct Hwl as [pre [old Hpre]].
  assert (N.max (mf_log (d_man (s_disk s))) (nmax (map fst (d_wal (s_disk s)))) = m_wal (s_mem s)) as Hwmax.
  { rewrite Hpre in Hwi |- *. rewrite Hml. exact (incr_last_nmax _ _ _ _ Hwi). }
  rewrite Hwmax in *.
  set (r := recover bsz (d_tables (s_disk s)) (d_man (s_disk s)) (filter seg_nonempty (d_wal (s_disk s)))) in *.
  assert (filter (seg_live (mf_log (snd (fst r)))) (d_wal (s_disk s))
          = filter (seg_live (mf_log (snd (fst r)))) pre ++ [(m_wal (s_mem s), old)]) as Hlast.
  { rewrite Hpre at 1. rewrite filter_app. cbn [filter]. unfold seg_live at 2. cbn [fst].
    replace (N.leb (mf_log (snd (fst r))) (m_wal (s_mem s))) with true by lia. reflexivity. }
  assert (wal_ensure (m_wal (s_mem s)) (filter (seg_live (mf_log (snd (fst r)))) (d_wal (s_disk s)))
          = filter (seg_live (mf_log (snd (fst r)))) (d_wal (s_disk s))) as Hens.
  { rewrite Hlast. unfold wal_ensure. rewrite aget_app. destruct (aget _ _); [reflexivity|]. cbn [aget]. rewrite N.eqb_refl. reflexivity. }
  rewrite Hens.
  constructor; unfold pending, store_vers in *; simp_state; cbn [map flat_map app] in *; try assumption; try reflexivity; try lia.
  - intros im [].
  - intros im f [].
  - constructor.
  - intros t i b Hg. destruct Hcache as [->| ->]; [|discriminate]. destruct (Hc t i b Hg) as [H1 [H2 H3]].
    split; [lia|]. split; [tauto|]. intros f. rewrite Raget by exact H1. apply H3.
  - intros x Hx. unfold mem_vers at 1 in Hx. simp_state. cbn [flat_map app] in Hx. rewrite Req in Hx.
    apply in_app_or in Hx. destruct Hx as [Hx|Hx].
    + rewrite Hmt in Hx. specialize (Hst x Hx). lia.
    + apply max_seq_ge in Hx. lia.
  - apply wg_one; [|exact Lflat]. intros e He. apply filter_In in He. destruct He as [He _].
    apply (in_map fst) in He. apply nmax_ge in He. lia.
  - rewrite Hlast. eauto.
  - intros im [].
  - exact (incr_filter_live _ _ _ Hwi).
  - intros k. unfold kread_with, store_vers. simp_state.
    change (mem_vers {| m_man := snd (fst r); m_active := snd r; m_active_wal := m_wal (s_mem s); m_imms := []; m_wal := m_wal (s_mem s) |})
      with (snd r).
    rewrite Req. rewrite <- Hv. unfold kread_with, store_vers. rewrite Hmt. f_equal. apply pick_snap.
    + intros x Hx. apply in_app_or in Hx. destruct Hx as [Hx|Hx]; [specialize (Hst x Hx); lia | apply max_seq_ge in Hx; lia].
    + intros x Hx. apply Hss. unfold store_vers. exact Hx.
Qed.

Lemma reopen_inv keep s : Inv s -> Inv (reopen bsz keep s).
Proof. intros H. unfold reopen. apply boot_inv; [exact H|]. destruct keep; auto. Qed.
End Recover.

Lemma kinit_boot bsz : boot bsz [] empty_disk [] [] = kinit.
Proof.
  unfold boot, kinit, empty_disk, replayed. simp_state. cbn [filter flat_map map nmax max_seq recover fst snd]. rewrite !N.max_0_r.
  unfold wal_ensure. cbn [aget app]. reflexivity.
Qed.

(* ------------------------------------------------------------------ checkpoint *)
Lemma ckpt_copy_ok c s : Inv s -> m_imms (s_mem s) = [] -> m_active (s_mem s) = [] ->
  exists ck, aget c (s_ckpts (ckpt_copy c s)) = Some ck /\ ckpt_ok ck /\ ck_view ck = s_view s.
Proof.
  intros H Hi Ha. dinv H. unfold ckpt_copy. simp_state. rewrite aget_aset_same. eexists. split; [reflexivity|]. split; [|reflexivity].
  set (live := map fst (mf_tables (m_man (s_mem s)))).
  assert (forall h, In h (mf_tables (m_man (s_mem s))) ->
            aget (fst h) (filter (fun e => nmem (fst e) live) (d_tables (s_disk s))) = aget (fst h) (d_tables (s_disk s))) as Hsame.
  { intros h Hh'. apply (aget_filter_keep (fun i => nmem i live)). apply nmem_In. unfold live. apply in_map. exact Hh'. }
  assert (tables_vers [] (filter (fun e => nmem (fst e) live) (d_tables (s_disk s))) (mf_tables (m_man (s_mem s)))
          = tables_vers [] (d_tables (s_disk s)) (mf_tables (m_man (s_mem s)))) as Htv by (apply tables_vers_ext; exact Hsame).
  constructor; cbn [ck_disk ck_view d_wal d_tables d_man].
  - reflexivity.
  - rewrite Hmt. intros t nb Hin. destruct (Hh t nb Hin) as [f [Hf Hl]]. exists f. split; [|exact Hl]. rewrite <- Hf. exact (Hsame (t, nb) Hin).
  - intros t f Hin. apply filter_In in Hin. destruct Hin as [Hin _]. exact (Hids t f Hin).
  - rewrite Hmt, Hms, Htv. exact Hst.
  - intros k. rewrite Hmt, Hms, Htv. rewrite <- Hv. unfold kread_with, store_vers, mem_vers. rewrite Hi, Ha. cbn [flat_map app].
    rewrite app_nil_r. f_equal. apply pick_snap; intros x Hx; specialize (Hst x Hx); lia.
Qed.

Lemma ckpt_copy_inv c s : Inv s -> m_imms (s_mem s) = [] -> m_active (s_mem s) = [] -> Inv (ckpt_copy c s).
Proof.
  intros H Hi Ha. destruct (ckpt_copy_ok c s H Hi Ha) as [ck [Hget [Hok _]]]. dinv H.
  constructor; unfold pending in *; unfold ckpt_copy in *; simp_state; try assumption.
  intros c' ck' Hg. destruct (N.eq_dec c' c) as [->|Hn].
  - rewrite Hget in Hg. inversion Hg; subst. exact Hok.
  - rewrite aget_aset_other in Hg by exact Hn. exact (Hck c' ck' Hg).
Qed.

Section Steps3.
Variable bsz : nat.

Lemma checkpoint_inv c s : Inv s -> Inv (checkpoint bsz c s).
Proof.
  intros H. unfold checkpoint. destruct (flush_all_empties bsz s) as [H1 H2]. apply ckpt_copy_inv; [apply flush_all_inv; exact H | exact H1 | exact H2].
Qed.

(* ------------------------------------------------------------------ every step keeps the invariant *)
Lemma step_inv s o : Inv s -> Inv (fst (kstep bsz canon_steps s o)).
Proof.
  intros H. destruct o; cbn [kstep fst].
  - apply commit_inv. exact H.
  - apply rotate_inv. exact H.
  - apply flush_inv. exact H.
  - apply compact_inv. exact H.
  - apply fill_inv. exact H.
  - apply evict_inv. exact H.
  - exact H.
  - apply reopen_inv. exact H.
  - apply checkpoint_inv. exact H.
  - destruct (aget c (s_ckpts s)) as [ck|] eqn:E; cbn [fst]; [|exact H].
    assert (Hok := i_ckpts s H c ck E). rewrite restore_canon_eq by (apply ck_wal_empty; exact Hok). apply restored_inv; assumption.
Qed.

Lemma run_inv ops : forall s, Inv s -> Inv (krun bsz canon_steps ops s).
Proof. induction ops as [|o r IH]; intros s H; cbn [krun]; [exact H|]. apply IH. apply step_inv. exact H. Qed.

Lemma init_inv : Inv kinit.
Proof.
  unfold kinit, empty_disk. simp_state.
  constructor; unfold pending, store_vers, mem_vers, tables_vers; simp_state; cbn [map flat_map app]; try reflexivity; try lia.
  - intros t nb [].
  - intros t f [].
  - intros im [].
  - intros im f [].
  - constructor.
  - intros t i b Hg. discriminate.
  - intros x [].
  - intros x [].
  - apply wg_single.
  - exists [], []. reflexivity.
  - intros im [].
  - cbn [fst incr]. split; [lia | exact I].
  - intros c ck Hg. discriminate.
Qed.

End Steps3.

Lemma inv_reachable : inv_reachable_stmt canon_steps.
Proof. intros bsz ops. apply run_inv. apply init_inv. Qed.

(* ------------------------------------------------------------------ the cache and the oracle's window are invisible:
   two states that differ only there answer alike, for ever *)
Definition strip (s : kstate) : kstate :=
  set_orc (set_bcache s []) {| o_recent := o_recent (s_orc s); o_kept := 0 |}.

Lemma strip_idem s : strip (strip s) = strip s.
Proof. reflexivity. Qed.

Lemma rotate_strip s : rotate (strip s) = strip (rotate s).
Proof. unfold rotate, strip. simp_state. destruct (m_active (s_mem s)); reflexivity. Qed.

Section Sim.
Variable bsz : nat.

Lemma flush_strip s : fst (flush_oldest bsz (strip s)) = strip (fst (flush_oldest bsz s)) /\ snd (flush_oldest bsz (strip s)) = snd (flush_oldest bsz s).
Proof. unfold flush_oldest, strip. simp_state. destruct (m_imms (s_mem s)); split; reflexivity. Qed.

Lemma flush_n_strip n : forall s, flush_n bsz n (strip s) = strip (flush_n bsz n s).
Proof. induction n as [|n IH]; intros s; cbn [flush_n]; [reflexivity|]. rewrite (proj1 (flush_strip s)). apply IH. Qed.

Lemma flush_all_strip s : flush_all bsz (strip s) = strip (flush_all bsz s).
Proof.
  unfold flush_all. rewrite rotate_strip. rewrite flush_n_strip. f_equal.
Qed.

Lemma checkpoint_strip c s : checkpoint bsz c (strip s) = strip (checkpoint bsz c s).
Proof. unfold checkpoint. rewrite flush_all_strip. reflexivity. Qed.

Lemma commit_strip s start b : Inv s ->
  snd (commit s start b) = snd (commit (strip s) start b) /\ strip (fst (commit s start b)) = strip (fst (commit (strip s) start b)).
Proof.
  intros H. unfold commit. destruct b as [|p b'] eqn:Eb; [split; reflexivity|]. rewrite <- Eb. clear Eb.
  change (s_sq (strip s)) with (s_sq s).
  destruct (negb _) eqn:Eg; [split; reflexivity|].
  assert (ocheck (s_orc (strip s)) (map fst b) start = ocheck (s_orc s) (map fst b) start) as ->.
  { unfold ocheck, strip. simp_state. assert (Hk := i_kept s H). assert (Hf := i_floor s H).
    replace (N.ltb start (o_kept (s_orc s))) with false by lia. replace (N.ltb start 0) with false by lia. reflexivity. }
  destruct (ocheck (s_orc s) (map fst b) start); split; reflexivity.
Qed.

Lemma compact_strip s ins keep :
  snd (compact bsz s ins keep) = snd (compact bsz (strip s) ins keep) /\ strip (fst (compact bsz s ins keep)) = strip (fst (compact bsz (strip s) ins keep)).
Proof.
  unfold compact. destruct ins as [|i0 ins0] eqn:Ei; [split; reflexivity|]. rewrite <- Ei. clear Ei.
  change (s_mem (strip s)) with (s_mem s). change (s_disk (strip s)) with (s_disk s). change (s_sq (strip s)) with (s_sq s).
  destruct (negb _); [split; reflexivity|].
  match goal with |- context [if forallb ?f ?l then _ else _] =>
    match goal with |- context [if forallb ?g l then (set_mem (set_disk (strip s) _) _, _) else _] =>
      replace (forallb g l) with (forallb f l) by reflexivity end end.
  match goal with |- context [if ?c then _ else _] => destruct c end; split; reflexivity.
Qed.

Lemma step_strip s o : Inv s ->
  snd (kstep bsz canon_steps s o) = snd (kstep bsz canon_steps (strip s) o) /\
  strip (fst (kstep bsz canon_steps s o)) = strip (fst (kstep bsz canon_steps (strip s) o)).
Proof.
  intros H. destruct o; cbn [kstep fst snd].
  - apply commit_strip. exact H.
  - rewrite rotate_strip. split; reflexivity.
  - destruct (flush_strip s) as [H1 H2]. rewrite H1, H2. split; reflexivity.
  - apply compact_strip.
  - split; [reflexivity|]. unfold fill. change (s_mem (strip s)) with (s_mem s). change (s_disk (strip s)) with (s_disk s).
    destruct (nmem _ _); [|reflexivity]. destruct (file_block _ _ _); reflexivity.
  - split; reflexivity.
  - split; [|reflexivity]. f_equal. rewrite read_coherent by exact H. reflexivity.
  - split; [reflexivity|]. unfold reopen. destruct keep_cache; reflexivity.
  - rewrite checkpoint_strip. split; reflexivity.
  - change (s_ckpts (strip s)) with (s_ckpts s). destruct (aget c (s_ckpts s)) as [ck|] eqn:E; cbn [fst snd]; [|split; reflexivity].
    assert (Hw := ck_wal_empty ck (i_ckpts s H c ck E)). rewrite !restore_canon_eq by exact Hw. split; reflexivity.
Qed.

Lemma sim ops : forall s1 s2, Inv s1 -> Inv s2 -> strip s1 = strip s2 ->
  kouts bsz canon_steps ops s1 = kouts bsz canon_steps ops s2.
Proof.
  induction ops as [|o r IH]; intros s1 s2 H1 H2 E; cbn [kouts]; [reflexivity|].
  destruct (step_strip s1 o H1) as [A1 B1]. destruct (step_strip s2 o H2) as [A2 B2].
  f_equal.
  - rewrite A1, A2, E. reflexivity.
  - apply IH; [apply step_inv; exact H1 | apply step_inv; exact H2 | rewrite B1, B2, E; reflexivity].
Qed.
End Sim.

(* ------------------------------------------------------------------ the theorems *)
Lemma read_view s snap k : Inv s -> q_visible (s_sq s) <= snap -> kread s snap k = view_get (s_view s) k.
Proof.
  intros H Hs. rewrite read_coherent by exact H. rewrite <- (i_view s H). unfold kread_with. f_equal.
  apply pick_snap; intros x Hx; assert (Hx' := i_seq_store s H x Hx); lia.
Qed.

Section Thms.
Variable bsz : nat.
Notation stepc := (kstep bsz canon_steps).
Notation runc := (krun bsz canon_steps).

Lemma cache_op_frame s o : cache_op o = true -> s_view (fst (stepc s o)) = s_view s /\ s_sq (fst (stepc s o)) = s_sq s.
Proof.
  destruct o; cbn [cache_op]; try discriminate; intros _; cbn [kstep fst]; [|split; reflexivity|split; reflexivity].
  unfold fill. destruct (nmem _ _); [|split; reflexivity]. destruct (file_block _ _ _); split; reflexivity.
Qed.

Lemma cache_ops_frame ops : forall s, forallb cache_op ops = true -> s_view (runc ops s) = s_view s /\ s_sq (runc ops s) = s_sq s.
Proof.
  induction ops as [|o r IH]; intros s Hc; cbn [krun]; [split; reflexivity|]. cbn [forallb] in Hc. apply andb_true_iff in Hc. destruct Hc as [Ho Hr].
  destruct (IH (fst (stepc s o)) Hr) as [H1 H2]. destruct (cache_op_frame s o Ho) as [G1 G2]. rewrite H1, H2. auto.
Qed.

Lemma step_keeps_ckpt c s o : Inv s -> not_ckpt c o = true -> aget c (s_ckpts (fst (stepc s o))) = aget c (s_ckpts s).
Proof.
  intros H Hn. destruct o; cbn [kstep fst].
  - unfold commit. destruct b; [reflexivity|]. destruct (negb _); [reflexivity|]. destruct (ocheck _ _ _); reflexivity.
  - rewrite (proj1 (proj2 (rotate_frame s))). reflexivity.
  - rewrite (proj1 (proj2 (flush_frame bsz s))). reflexivity.
  - unfold compact. destruct ins; [reflexivity|]. destruct (negb _); [reflexivity|].
    match goal with |- context [if ?g then _ else _] => destruct g end; reflexivity.
  - unfold fill. destruct (nmem _ _); [|reflexivity]. destruct (file_block _ _ _); reflexivity.
  - reflexivity.
  - reflexivity.
  - reflexivity.
  - cbn [not_ckpt] in Hn. unfold checkpoint, ckpt_copy. simp_state. rewrite aget_aset_other.
    + rewrite (proj1 (proj2 (flush_all_frame bsz s))). reflexivity.
    + intros ->. rewrite N.eqb_refl in Hn. discriminate.
  - destruct (aget c0 (s_ckpts s)) as [ck|] eqn:E; cbn [fst]; [|reflexivity].
    rewrite restore_canon_eq by (apply ck_wal_empty; exact (i_ckpts s H c0 ck E)). reflexivity.
Qed.

Lemma run_keeps_ckpt c ops : forall s, Inv s -> forallb (not_ckpt c) ops = true -> aget c (s_ckpts (runc ops s)) = aget c (s_ckpts s).
Proof.
  induction ops as [|o r IH]; intros s H Hn; cbn [krun]; [reflexivity|]. cbn [forallb] in Hn. apply andb_true_iff in Hn. destruct Hn as [Ho Hr].
  rewrite IH by (try apply step_inv; assumption). apply step_keeps_ckpt; assumption.
Qed.

(* the checkpoint taken at s0, as it is found after any later history *)
Lemma checkpoint_found c ops0 ops1 : forallb (not_ckpt c) ops1 = true ->
  let s0 := runc ops0 kinit in
  let s2 := runc ops1 (checkpoint bsz c s0) in
  Inv s2 /\ exists ck, aget c (s_ckpts s2) = Some ck /\ ckpt_ok ck /\ ck_view ck = s_view s0.
Proof.
  intros Hn s0 s2. assert (Inv s0) as H0 by (apply run_inv; apply init_inv).
  assert (Inv (checkpoint bsz c s0)) as H1 by (apply checkpoint_inv; exact H0).
  split; [apply run_inv; exact H1|].
  destruct (flush_all_empties bsz s0) as [E1 E2].
  destruct (ckpt_copy_ok c (flush_all bsz s0) (flush_all_inv bsz s0 H0) E1 E2) as [ck [Hg [Hok Hv]]].
  exists ck. split; [|split; [exact Hok|]].
  - unfold s2. rewrite run_keeps_ckpt by assumption. exact Hg.
  - rewrite Hv. exact (proj1 (flush_all_frame bsz s0)).
Qed.

Theorem checkpoint_content_canon :
  forall ops0 c ops1, forallb (not_ckpt c) ops1 = true ->
    let s0 := runc ops0 kinit in
    let s2 := runc ops1 (checkpoint bsz c s0) in
    exists ck, aget c (s_ckpts s2) = Some ck /\
      let o := open_ckpt bsz ck (s_ckpts s2) in
      Inv o /\ forall k snap, q_visible (s_sq o) <= snap -> kread o snap k = view_get (s_view s0) k.
Proof.
  intros ops0 c ops1 Hn s0 s2. destruct (checkpoint_found c ops0 ops1 Hn) as [H2 [ck [Hg [Hok Hv]]]].
  change (runc ops0 kinit) with s0 in Hv, Hg, H2. change (runc ops1 (checkpoint bsz c s0)) with s2 in Hg, H2.
  exists ck. split; [exact Hg|]. cbn zeta. rewrite open_ckpt_eq by (apply ck_wal_empty; exact Hok).
  assert (Inv (opened ck (s_ckpts s2))) as Ho by (apply opened_inv; [exact Hok | exact (i_ckpts s2 H2)]).
  split; [exact Ho|]. intros k snap Hs. rewrite read_view by assumption. cbn [opened s_view]. rewrite Hv. reflexivity.
Qed.

Theorem restore_any_canon :
  forall ops0 c ck ops2,
    let s := runc ops0 kinit in
    aget c (s_ckpts s) = Some ck -> forallb cache_op ops2 = true ->
    let s3 := runc ops2 (fst (stepc s (OpRestore c))) in
    Inv s3 /\ forall k snap, q_visible (s_sq s3) <= snap -> kread s3 snap k = view_get (ck_view ck) k.
Proof.
  intros ops0 c ck ops2 s Hg Hc s3. assert (Inv s) as H by (apply run_inv; apply init_inv).
  assert (Inv s3) as H3 by (apply run_inv; apply step_inv; exact H). split; [exact H3|].
  intros k snap Hs. rewrite read_view by assumption. unfold s3. rewrite (proj1 (cache_ops_frame ops2 _ Hc)).
  cbn [kstep]. rewrite Hg. cbn [fst]. rewrite restore_canon_eq by (apply ck_wal_empty; exact (i_ckpts s H c ck Hg)). reflexivity.
Qed.

Theorem restore_reads_canon :
  forall ops0 c ops1 ops2,
    forallb (not_ckpt c) ops1 = true -> forallb cache_op ops2 = true ->
    let s0 := runc ops0 kinit in
    let s2 := runc ops1 (checkpoint bsz c s0) in
    snd (stepc s2 (OpRestore c)) = XDone /\
    let s3 := runc ops2 (fst (stepc s2 (OpRestore c))) in
    forall k snap, q_visible (s_sq s3) <= snap -> kread s3 snap k = view_get (s_view s0) k.
Proof.
  intros ops0 c ops1 ops2 Hn Hc s0 s2. destruct (checkpoint_found c ops0 ops1 Hn) as [H2 [ck [Hg [Hok Hv]]]].
  change (runc ops0 kinit) with s0 in Hv, Hg, H2. change (runc ops1 (checkpoint bsz c s0)) with s2 in Hg, H2.
  split; [cbn [kstep]; rewrite Hg; reflexivity|]. intros s3 k snap Hs.
  assert (Inv s3) as H3 by (apply run_inv; apply step_inv; exact H2).
  rewrite read_view by assumption. unfold s3. rewrite (proj1 (cache_ops_frame ops2 _ Hc)).
  cbn [kstep]. rewrite Hg. cbn [fst]. rewrite restore_canon_eq by (apply ck_wal_empty; exact Hok). cbn [restored s_view]. rewrite Hv. reflexivity.
Qed.

Theorem post_restore_canon :
  forall ops0 c ck ops,
    let s := runc ops0 kinit in
    aget c (s_ckpts s) = Some ck ->
    (0 < mf_seq (d_man (ck_disk ck)) \/ q_visible (s_sq s) = 0) ->
    kouts bsz canon_steps ops (fst (stepc s (OpRestore c))) = kouts bsz canon_steps ops (open_ckpt bsz ck (s_ckpts s)).
Proof.
  intros ops0 c ck ops s Hg Hne. assert (Inv s) as H by (apply run_inv; apply init_inv).
  assert (Hok := i_ckpts s H c ck Hg). cbn [kstep]. rewrite Hg. cbn [fst].
  rewrite restore_canon_eq by (apply ck_wal_empty; exact Hok). rewrite open_ckpt_eq by (apply ck_wal_empty; exact Hok).
  apply sim; [apply restored_inv; assumption | apply opened_inv; [exact Hok | exact (i_ckpts s H)] |].
  unfold restored, opened, strip. simp_state. assert (Hsl := i_seq_log s H).
  destruct (N.ltb 0 (mf_seq (d_man (ck_disk ck)))) eqn:E; [reflexivity|].
  destruct Hne as [Hne|Hne]; [lia|]. assert (mf_seq (d_man (ck_disk ck)) = 0) as -> by lia. rewrite Hsl, Hne. reflexivity.
Qed.

Theorem commit_seq_above_canon :
  forall ops start b s' q,
    let s := runc ops kinit in
    stepc s (OpCommit start b) = (s', XSeq q) ->
    (forall x, In x (store_vers (s_cache s) s) -> cv_seq x < q) /\
    (forall x, In x (store_vers [] s) -> cv_seq x < q) /\
    mf_seq (d_man (s_disk s)) < q /\
    (forall k v, In (k, v) b -> (forall v', In (k, v') b -> v' = v) -> kread s' (q_visible (s_sq s')) k = v).
Proof.
  intros ops start b s' q s E. cbn [kstep] in E. assert (Inv s) as H by (apply run_inv; apply init_inv).
  destruct (commit_store _ _ _ _ _ H E) as [Hq [Hb [Hst' [Hvis [Hlog [Hview Hcache]]]]]].
  assert (Hsl := i_seq_log s H).
  assert (forall x, In x (store_vers [] s) -> cv_seq x < q) as Habove.
  { intros x Hx. assert (Hx' := i_seq_store s H x Hx). lia. }
  split; [rewrite store_vers_coherent by exact H; exact Habove|]. split; [exact Habove|]. split.
  - rewrite (i_man_seq s H). assert (Hm := i_seq_man s H). lia.
  - intros k v Hin Hall. assert (Inv s') as H' by (replace s' with (fst (commit s start b)) by (rewrite E; reflexivity); apply commit_inv; exact H).
    rewrite read_view by (try exact H'; lia). rewrite Hview, spec_get_batch. rewrite (lw_single k v b Hin Hall). reflexivity.
Qed.

Theorem restore_rewinds_canon :
  forall ops0 c ck,
    let s := runc ops0 kinit in
    aget c (s_ckpts s) = Some ck ->
    let s3 := fst (stepc s (OpRestore c)) in
    mf_seq (d_man (ck_disk ck)) < q_logseq (s_sq s3) /\
    forall x, In x (tables_vers [] (d_tables (ck_disk ck)) (mf_tables (d_man (ck_disk ck)))) -> cv_seq x < q_logseq (s_sq s3).
Proof.
  intros ops0 c ck s Hg s3. assert (Inv s) as H by (apply run_inv; apply init_inv). assert (Hok := i_ckpts s H c ck Hg).
  assert (mf_seq (d_man (ck_disk ck)) < q_logseq (s_sq s3)) as Hlt.
  { unfold s3. cbn [kstep]. rewrite Hg. cbn [fst]. rewrite restore_canon_eq by (apply ck_wal_empty; exact Hok). unfold restored. simp_state.
    assert (Hsl := i_seq_log s H). destruct (N.ltb 0 (mf_seq (d_man (ck_disk ck)))) eqn:E; lia. }
  split; [exact Hlt|]. intros x Hx. assert (Hx' := ck_seqs ck Hok x Hx). lia.
Qed.
End Thms.

(* the statements of CheckpointSpec.v for a step list equal to the canonical one *)
Theorem inv_reachable_of rs : rs = canon_steps -> inv_reachable_stmt rs.
Proof. intros ->. exact inv_reachable. Qed.
Theorem checkpoint_content rs : rs = canon_steps -> checkpoint_content_stmt rs.
Proof. intros ->. intros bsz. apply checkpoint_content_canon. Qed.
Theorem restore_reads_checkpointed_state rs : rs = canon_steps -> restore_reads_checkpointed_state_stmt rs.
Proof. intros ->. intros bsz. apply restore_reads_canon. Qed.
Theorem restore_any_checkpoint_reads_its_view rs : rs = canon_steps -> restore_any_checkpoint_reads_its_view_stmt rs.
Proof. intros ->. intros bsz. apply restore_any_canon. Qed.
Theorem post_restore_behaves_like_fresh_open_of_checkpoint_partial rs :
  rs = canon_steps -> post_restore_behaves_like_fresh_open_of_checkpoint_partial_stmt rs.
Proof. intros ->. intros bsz. apply post_restore_canon. Qed.
Theorem commit_seq_above_store rs : rs = canon_steps -> commit_seq_above_store_stmt rs.
Proof. intros ->. intros bsz. apply commit_seq_above_canon. Qed.
Theorem restore_rewinds_above_checkpoint rs : rs = canon_steps -> restore_rewinds_above_checkpoint_stmt rs.
Proof. intros ->. intros bsz. apply restore_rewinds_canon. Qed.

(* ------------------------------------------------------------------ closed witnesses *)
Theorem stale_read_without_cache_clear : stale_read_without_cache_clear_stmt.
Proof. repeat split; vm_compute; reflexivity. Qed.
Theorem restored_state_invisible_without_seq_set : restored_state_invisible_without_seq_set_stmt.
Proof. repeat split; vm_compute; reflexivity. Qed.
Theorem false_conflict_without_oracle_reset : false_conflict_without_oracle_reset_stmt.
Proof. split; vm_compute; reflexivity. Qed.
Theorem discarded_memtable_read_without_replacement : discarded_memtable_read_without_replacement_stmt.
Proof. split; vm_compute; reflexivity. Qed.
Theorem stale_manifest_without_reload : stale_manifest_without_reload_stmt.
Proof. split; vm_compute; reflexivity. Qed.

Theorem hypotheses_satisfiable : hypotheses_satisfiable_stmt.
Proof.
  cbv zeta. split; [reflexivity|].
  match goal with |- context [krun 2 canon_steps ?ops kinit] => set (s := krun 2 canon_steps ops kinit) end.
  assert (Inv s) as H by (apply run_inv; apply init_inv).
  destruct (aget 7 (s_ckpts s)) as [ck|] eqn:E; [|vm_compute in E; discriminate].
  exists ck. split; [reflexivity|]. split; [|exact (i_ckpts s H 7 ck E)].
  vm_compute in E. inversion E. vm_compute. reflexivity.
Qed.
