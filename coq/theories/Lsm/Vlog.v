(* Lsm/Vlog.v — state machine of the value log and the tables that point into it (property C11).
   Definitions only; statements in VlogSpec.v, proofs in Vlog_proofs.v.

   State: the value-log files (id, bytes = header ++ entries, fsynced?), the id of the file open for
   writing (VLOG_NO_ACTIVE = none), the next id; the live tables, each a list of (key, stored value,
   ghost: the user value written) with its recorded `oldest_vlog_file_id`; the version index (the
   entries of every flushed table, when enabled); the block cache of resolved values, keyed by
   (file id, offset), each with the checksum of the pointer it was read for; the table sets held by
   open readers (ghost: nothing looks at them).

   Transcribed from /repo:
     VLog::append (src/vlog.rs)            vs_append   no writer or `size >= max` (operator generated): fsync the
                                                       old file (VLOG_ROTATE_SYNCS_OLD), create file `next`, next += 1,
                                                       it becomes active; then VLogWriter::append on the active file
     MemTable::flush (src/memtable/mod.rs) vs_flush    every entry through maybe_separate_to_vlog, in key order;
                                                       then VLog::sync (active file), then the table is installed
     TableWriter::add / finish             table_oldest  minimum file id over every stored value that DECODES as a
                                                       pointer; VLOG_NO_REF when there is none
     flush_immutable_to_sst.. (src/lsm.rs) vs_flush    the table's entries are inserted into the version index (an equal
                                                       (user key, timestamp) replaces the stored value), the manifest
                                                       switches, then cleanup_vlog_and_index
     LevelManifest::min_oldest_vlog_file_id  min_oldest  minimum over the live tables whose oldest id is > VLOG_NO_REF,
                                                       VLOG_NO_REF when there is none
     cleanup_vlog_and_index (src/lsm.rs)   vs_cleanup  nothing when the minimum is VLOG_NO_REF; else FIRST delete the
                                                       index entries whose pointer has `file_id < min`, THEN remove every
                                                       file with `id < min && id != active` (operators generated).  The
                                                       function itself never looks at readers; its two run-time CALL SITES
                                                       (flush, compaction) skip it while a snapshot is registered when
                                                       VLOG_CLEANUP_CHECKS_READERS (vs_cleanup_rt, machine parameter chk)
     Compactor::merge_tables               vs_compact  the input tables are replaced by one output table (none when the
                                                       output is empty) whose entries are entries of the inputs — WHICH
                                                       ones is the compaction iterator's business (Lsm/CompactKey.v) —
                                                       its oldest id is recomputed by TableWriter; then the clean-up
     Core::close, VLog::new/prefill_file_handles, cleanup_orphaned_vlog_files
                                           vs_reopen   the active file is fsynced; the directory is re-scanned: highest
                                                       id = active writer (appends continue at its end), next = highest
                                                       + 1 (no file: no writer, next = VLOG_FIRST_FILE_ID); clean-up
     ValueLocation::resolve_value, VLog::get  vs_resolve, vs_get   block cache first; a hit is served only when the cached
                                                       checksum and the value length equal the pointer's
                                                       (VLOG_CACHE_HIT_CHECKED, machine parameter hck; before the
                                                       repair of F41 — hck = false — ANY hit was served, no check at
                                                       all); otherwise the file, the checks of Codec/VlogPtr.v
                                                       vlog_read, then the value is cached with the pointer's checksum
     BlockCache::insert_vlog / get_vlog_entry (src/cache.rs)  vcache, vcache_get   one entry per (file id, offset): an insert
                                                       replaces the entry (the model prepends, the lookup takes the first);
                                                       eviction is not modelled (a model hit may be a miss in the code:
                                                       the answer is then the file's, which every theorem covers as well)
   Damage (property C16): ds_step adds two steps to the machine — DFiles replaces the directory content and the writer
   ids by ANYTHING (files cut short, appended to again from the cut position, rewritten, removed), DGet reads through
   ANY pointer (e.g. one stored in an older table) — so that statements can quantify over every such history.
   An operation the model refuses (vs_step = None): a flush with a key or value of 4 GiB or more, or one
   that would need a file id >= 2^32 or an offset >= 2^64 (the code truncates with `as u32` /
   wraps); a compaction naming a table that is not live or keeping an entry its inputs do not hold. *)
From Coq Require Import List NArith Arith Bool.
From SKV Require Import Params Codec.VlogParams Codec.Wal Codec.VlogPtr.
Import ListNotations.

Record vfile := { vf_id : N; vf_bytes : list byte; vf_synced : bool }.
Record tentry := { te_key : list byte; te_enc : list byte; te_orig : option (list byte) }.
Record vtable := { tb_id : N; tb_entries : list tentry; tb_oldest : N }.
(* (file id, offset) |-> (checksum of the pointer the value was read for, value) *)
Definition vcache := list ((N * N) * (N * list byte)).
Record vcfg := { cf_threshold : N; cf_max : N; cf_level : N; cf_index : bool }.
Record vstate := {
  vs_files : list vfile; vs_active : N; vs_next : N;
  vs_tables : list vtable; vs_index : list tentry;
  vs_cache : vcache; vs_readers : list (N * list vtable) }.

Definition vs0 : vstate :=
  {| vs_files := []; vs_active := VLOG_NO_ACTIVE; vs_next := VLOG_FIRST_FILE_ID;
     vs_tables := []; vs_index := []; vs_cache := []; vs_readers := [] |}.

Definition set_files (st : vstate) (fs : list vfile) : vstate :=
  {| vs_files := fs; vs_active := vs_active st; vs_next := vs_next st; vs_tables := vs_tables st;
     vs_index := vs_index st; vs_cache := vs_cache st; vs_readers := vs_readers st |}.
Definition set_tables (st : vstate) (ts : list vtable) : vstate :=
  {| vs_files := vs_files st; vs_active := vs_active st; vs_next := vs_next st; vs_tables := ts;
     vs_index := vs_index st; vs_cache := vs_cache st; vs_readers := vs_readers st |}.
Definition set_index (st : vstate) (ix : list tentry) : vstate :=
  {| vs_files := vs_files st; vs_active := vs_active st; vs_next := vs_next st; vs_tables := vs_tables st;
     vs_index := ix; vs_cache := vs_cache st; vs_readers := vs_readers st |}.
Definition set_cache (st : vstate) (c : vcache) : vstate :=
  {| vs_files := vs_files st; vs_active := vs_active st; vs_next := vs_next st; vs_tables := vs_tables st;
     vs_index := vs_index st; vs_cache := c; vs_readers := vs_readers st |}.
Definition set_readers (st : vstate) (rs : list (N * list vtable)) : vstate :=
  {| vs_files := vs_files st; vs_active := vs_active st; vs_next := vs_next st; vs_tables := vs_tables st;
     vs_index := vs_index st; vs_cache := vs_cache st; vs_readers := rs |}.

Definition find_file (id : N) (fs : list vfile) : option vfile := find (fun f => N.eqb (vf_id f) id) fs.
Definition update_file (id : N) (g : vfile -> vfile) (fs : list vfile) : list vfile :=
  map (fun f => if N.eqb (vf_id f) id then g f else f) fs.
Definition mark_synced (f : vfile) : vfile := {| vf_id := vf_id f; vf_bytes := vf_bytes f; vf_synced := true |}.
Definition vfile_size (f : vfile) : N := nlen (vf_bytes f).

(* what a stored value is, as every reader of it decides (resolve_value, TableWriter::add, the index prune) *)
Inductive venc := EInline (v : list byte) | EPtr (p : vpointer) | EBad.
Definition venc_classify (enc : list byte) : venc :=
  match vloc_decode enc with
  | None => EBad
  | Some l =>
    if vloc_is_pointer l then match vpointer_decode (vlc_value l) with Some p => EPtr p | None => EBad end
    else EInline (vlc_value l)
  end.

(* TableWriter::add / finish *)
Definition track_min (acc : option N) (enc : list byte) : option N :=
  match vloc_pointer_of enc with
  | Some p => Some (match acc with None => vpt_file p | Some m => N.min m (vpt_file p) end)
  | None => acc
  end.
Definition table_oldest (es : list tentry) : N :=
  match fold_left track_min (map te_enc es) None with Some m => m | None => VLOG_NO_REF end.

(* LevelManifest::min_oldest_vlog_file_id *)
Definition min_step (acc : option N) (t : vtable) : option N :=
  if N.ltb VLOG_NO_REF (tb_oldest t)
  then Some (match acc with None => tb_oldest t | Some m => N.min m (tb_oldest t) end)
  else acc.
Definition min_oldest (ts : list vtable) : N :=
  match fold_left min_step ts None with Some m => m | None => VLOG_NO_REF end.

(* cleanup_vlog_and_index: arguments of the generated operators are (pointer file id / file id, minimum) *)
Definition entry_stale (m : N) (e : tentry) : bool :=
  match vloc_pointer_of (te_enc e) with Some p => VLOG_INDEX_PRUNE_CMP (vpt_file p) m | None => false end.
Definition file_obsolete (m active : N) (f : vfile) : bool :=
  VLOG_CLEANUP_CMP (vf_id f) m && negb (N.eqb (vf_id f) active).
Definition vs_cleanup (st : vstate) : vstate :=
  let m := min_oldest (vs_tables st) in
  if N.eqb m VLOG_NO_REF then st else
  set_files (set_index st (filter (fun e => negb (entry_stale m e)) (vs_index st)))
            (filter (fun f => negb (file_obsolete m (vs_active st) f)) (vs_files st)).

(* the version index is a B+tree ordered by (user key, timestamp) — Misc/BptKey.v ts_cmp —: inserting an entry whose
   key is equal under that order REPLACES the stored value and keeps the stored key.  An encoded internal key is
   user key ++ trailer (8 bytes: sequence number and kind) ++ timestamp (8 bytes) *)
Definition ixkey (k : list byte) : list byte * list byte := (firstn (length k - 16) k, skipn (length k - 8) k).
Definition same_ixkey (a b : list byte) : bool :=
  list_eqb (fst (ixkey a)) (fst (ixkey b)) && list_eqb (snd (ixkey a)) (snd (ixkey b)).
Definition index_insert (ix : list tentry) (e : tentry) : list tentry :=
  if existsb (fun x => same_ixkey (te_key x) (te_key e)) ix
  then map (fun x => if same_ixkey (te_key x) (te_key e)
                     then {| te_key := te_key x; te_enc := te_enc e; te_orig := te_orig e |} else x) ix
  else ix ++ [e].

Definition vcache_get (c : vcache) (f o : N) : option (N * list byte) :=
  match find (fun e => N.eqb (fst (fst e)) f && N.eqb (snd (fst e)) o) c with
  | Some e => Some (snd e)
  | None => None
  end.

Fixpoint list_max (l : list N) : option N :=
  match l with
  | [] => None
  | x :: r => match list_max r with None => Some x | Some m => Some (N.max x m) end
  end.

Definition no_readers (st : vstate) : bool := match vs_readers st with [] => true | _ => false end.

Section VlogMachine.
Variable crc : list byte -> N.
Variable cfg : vcfg.
(* do the RUN-TIME call sites of the clean-up (after the manifest switch of a flush and of a compaction) test
   `snapshot_tracker.first().is_none()`?  Generated: VlogParams.VLOG_CLEANUP_CHECKS_READERS (true in the repaired tree);
   false is the rule before the repair of C11-N1, kept so that its refutation is a statement about the same functions *)
Variable chk : bool.
(* does VLog::get compare the cached checksum and the value length with the pointer before serving a block-cache hit?
   Generated: VlogParams.VLOG_CACHE_HIT_CHECKED (true in the repaired tree); false is the code before the repair of F41,
   kept so that its refutation is a statement about the same functions *)
Variable hck : bool.

(* flush_immutable_to_sst_with_log_number / Compactor::update_manifest: with the test, the clean-up is skipped while any
   reader is registered (every transaction that can read, for its whole life); a later flush / compaction or the next
   start-up removes the files.  The start-up call site (vs_reopen) has no test: no reader exists yet *)
Definition vs_cleanup_rt (st : vstate) : vstate :=
  if chk && negb (no_readers st) then st else vs_cleanup st.

(* VLog::append *)
Definition vs_rotate_needed (st : vstate) : bool :=
  match find_file (vs_active st) (vs_files st) with
  | None => true
  | Some f => VLOG_ROTATE_CMP (vfile_size f) (cf_max cfg)
  end.
Definition vs_rotate (now : N) (st : vstate) : vstate :=
  let fs := if VLOG_ROTATE_SYNCS_OLD then update_file (vs_active st) mark_synced (vs_files st) else vs_files st in
  {| vs_files := fs ++ [{| vf_id := vs_next st; vf_bytes := vheader_bytes (vs_next st) now (cf_max cfg); vf_synced := false |}];
     vs_active := vs_next st; vs_next := N.succ (vs_next st); vs_tables := vs_tables st;
     vs_index := vs_index st; vs_cache := vs_cache st; vs_readers := vs_readers st |}.
Definition vs_append (now : N) (st : vstate) (k v : list byte) : option (vstate * vpointer) :=
  let st1 := if vs_rotate_needed st then vs_rotate now st else st in
  match find_file (vs_active st1) (vs_files st1) with
  | None => None
  | Some f =>
    let r := vwriter_append crc (vs_active st1) (vf_bytes f) k v in
    if fits ELF (nlen k) && fits ELF (nlen v) && vpointer_in_range (snd r)
    then Some (set_files st1 (update_file (vs_active st1)
                                (fun f => {| vf_id := vf_id f; vf_bytes := fst r; vf_synced := false |}) (vs_files st1)),
               snd r)
    else None
  end.

(* MemTable::flush: entries in key order; a tombstone has an empty stored value *)
Fixpoint flush_entries (now : N) (st : vstate) (mem : list (list byte * option (list byte)))
  : option (vstate * list tentry) :=
  match mem with
  | [] => Some (st, [])
  | (k, None) :: r =>
    match flush_entries now st r with
    | Some (st', es) => Some (st', {| te_key := k; te_enc := []; te_orig := None |} :: es)
    | None => None
    end
  | (k, Some v) :: r =>
    let enc := vloc_encode (vloc_inline v) in
    match maybe_separate true (cf_threshold cfg) enc with
    | VSepAppend v' =>
      match vs_append now st k v' with
      | Some (st1, p) =>
        match flush_entries now st1 r with
        | Some (st', es) => Some (st', {| te_key := k; te_enc := vloc_encode (vloc_with_pointer p); te_orig := Some v |} :: es)
        | None => None
        end
      | None => None
      end
    | _ =>
      match flush_entries now st r with
      | Some (st', es) => Some (st', {| te_key := k; te_enc := enc; te_orig := Some v |} :: es)
      | None => None
      end
    end
  end.

Definition vs_sync_active (st : vstate) : vstate :=
  set_files st (update_file (vs_active st) mark_synced (vs_files st)).

Definition vs_flush (now tid : N) (mem : list (list byte * option (list byte))) (st : vstate) : option vstate :=
  match flush_entries now st mem with
  | None => None
  | Some (st1, es) =>
    let st2 := if VLOG_FLUSH_SYNCS_ACTIVE then vs_sync_active st1 else st1 in
    let t := {| tb_id := tid; tb_entries := es; tb_oldest := table_oldest es |} in
    let st3 := set_index (set_tables st2 (vs_tables st2 ++ [t])) (if cf_index cfg then fold_left index_insert es (vs_index st2) else vs_index st2) in
    Some (vs_cleanup_rt st3)
  end.

(* compaction: `out` names the kept entries by (key, stored value); each must be an entry of an input table *)
Definition tentry_is (k enc : list byte) (e : tentry) : bool := list_eqb (te_key e) k && list_eqb (te_enc e) enc.
Fixpoint pick_entries (pool : list tentry) (out : list (list byte * list byte)) : option (list tentry) :=
  match out with
  | [] => Some []
  | (k, enc) :: r =>
    match find (tentry_is k enc) pool, pick_entries pool r with
    | Some e, Some es => Some (e :: es)
    | _, _ => None
    end
  end.
Definition is_input (ins : list N) (t : vtable) : bool := existsb (N.eqb (tb_id t)) ins.
Definition vs_compact (ins : list N) (tid : N) (out : list (list byte * list byte)) (st : vstate) : option vstate :=
  if negb (forallb (fun i => existsb (fun t => N.eqb (tb_id t) i) (vs_tables st)) ins) then None else
  let inputs := filter (is_input ins) (vs_tables st) in
  let rest := filter (fun t => negb (is_input ins t)) (vs_tables st) in
  match pick_entries (flat_map tb_entries inputs) out with
  | None => None
  | Some es =>
    let ts := match es with
              | [] => rest
              | _ => rest ++ [{| tb_id := tid; tb_entries := es; tb_oldest := table_oldest es |}]
              end in
    Some (vs_cleanup_rt (set_tables st ts))
  end.

(* clean close + open *)
Definition vs_reopen (keep_cache : bool) (st : vstate) : vstate :=
  let fs := update_file (vs_active st) mark_synced (vs_files st) in
  let an := match list_max (map vf_id fs) with
            | Some m => (m, N.succ m)
            | None => (VLOG_NO_ACTIVE, VLOG_FIRST_FILE_ID)
            end in
  vs_cleanup {| vs_files := fs; vs_active := fst an; vs_next := snd an; vs_tables := vs_tables st;
                vs_index := vs_index st; vs_cache := if keep_cache then vs_cache st else []; vs_readers := [] |}.

(* reads.  VLog::get: `if let Some((cached_value, checksum)) = get_vlog_entry(file_id, offset) { if checksum ==
   pointer.checksum && cached_value.len() == pointer.value_size as usize { return Ok(cached_value) } }`, then the file *)
Definition vs_hit_ok (p : vpointer) (e : N * list byte) : bool :=
  if hck then N.eqb (fst e) (vpt_crc p) && N.eqb (nlen (snd e)) (vpt_vsize p) else true.
Definition vs_get_file (st : vstate) (p : vpointer) : option (list byte) * vcache :=
  match find_file (vpt_file p) (vs_files st) with
  | None => (None, vs_cache st)
  | Some f =>
    match vlog_read crc (cf_level cfg) (vf_bytes f) p with
    | Some v => (Some v, ((vpt_file p, vpt_offset p), (vpt_crc p, v)) :: vs_cache st)
    | None => (None, vs_cache st)
    end
  end.
Definition vs_get (st : vstate) (p : vpointer) : option (list byte) * vcache :=
  match vcache_get (vs_cache st) (vpt_file p) (vpt_offset p) with
  | Some e => if vs_hit_ok p e then (Some (snd e), vs_cache st) else vs_get_file st p
  | None => vs_get_file st p
  end.
Definition vs_resolve (st : vstate) (enc : list byte) : option (list byte) * vcache :=
  match venc_classify enc with
  | EInline v => (Some v, vs_cache st)
  | EPtr p => vs_get st p
  | EBad => (None, vs_cache st)
  end.

Definition find_table (tid : N) (ts : list vtable) : option vtable := find (fun t => N.eqb (tb_id t) tid) ts.
Definition entry_at (ts : list vtable) (tid : N) (i : nat) : option tentry :=
  match find_table tid ts with Some t => nth_error (tb_entries t) i | None => None end.
Definition vs_read_entry (st : vstate) (oe : option tentry) : vstate :=
  match oe with Some e => set_cache st (snd (vs_resolve st (te_enc e))) | None => st end.

Inductive vop :=
| VFlush (now tid : N) (mem : list (list byte * option (list byte)))
| VCompact (ins : list N) (tid : N) (out : list (list byte * list byte))
| VReopen (keep_cache : bool)
| VReaderOpen (rid : N)                 (* a reader (a transaction that can read: registered snapshot) takes the current table
                                          set (a clone of `levels`); again with the same rid: one more table set, e.g. a new cursor *)
| VReaderClose (rid : N)                (* the transaction ends: all its table sets go *)
| VReadLive (tid : N) (i : nat)         (* a read through the current tables resolves entry i of table tid *)
| VReadIndex (i : nat)                  (* a history read through the version index *)
| VReadReader (rid tid : N) (i : nat).  (* an open reader resolves an entry of ITS table set *)

Definition reader_tables (rid : N) (rs : list (N * list vtable)) : list vtable :=
  match find (fun r => N.eqb (fst r) rid) rs with Some r => snd r | None => [] end.

Definition vs_step (st : vstate) (o : vop) : option vstate :=
  match o with
  | VFlush now tid mem => vs_flush now tid mem st
  | VCompact ins tid out => vs_compact ins tid out st
  | VReopen keep => Some (vs_reopen keep st)
  | VReaderOpen rid => Some (set_readers st ((rid, vs_tables st) :: vs_readers st))
  | VReaderClose rid => Some (set_readers st (filter (fun r => negb (N.eqb (fst r) rid)) (vs_readers st)))
  | VReadLive tid i => Some (vs_read_entry st (entry_at (vs_tables st) tid i))
  | VReadIndex i => Some (vs_read_entry st (nth_error (vs_index st) i))
  | VReadReader rid tid i => Some (vs_read_entry st (entry_at (reader_tables rid (vs_readers st)) tid i))
  end.

Fixpoint vs_run (ops : list vop) (st : vstate) : option vstate :=
  match ops with
  | [] => Some st
  | o :: r => match vs_step st o with Some st' => vs_run r st' | None => None end
  end.

(* ---- the machine under damage (property C16) *)
Inductive dop :=
| DOp (o : vop)
| DFiles (fs : list vfile) (active next : N)   (* the directory and the writer ids become ANYTHING *)
| DGet (p : vpointer).                          (* a read through ANY pointer; the cache is filled as by every read *)
Definition set_dir (st : vstate) (fs : list vfile) (active next : N) : vstate :=
  {| vs_files := fs; vs_active := active; vs_next := next; vs_tables := vs_tables st;
     vs_index := vs_index st; vs_cache := vs_cache st; vs_readers := vs_readers st |}.
Definition ds_step (st : vstate) (d : dop) : option vstate :=
  match d with
  | DOp o => vs_step st o
  | DFiles fs a n => Some (set_dir st fs a n)
  | DGet p => Some (set_cache st (snd (vs_get st p)))
  end.
Fixpoint ds_run (ds : list dop) (st : vstate) : option vstate :=
  match ds with
  | [] => Some st
  | d :: r => match ds_step st d with Some st' => ds_run r st' | None => None end
  end.
(* the damage of finding F41: file `id` keeps its first n bytes only (a DFiles step; the next open — VReopen — makes the
   highest-numbered file the active writer again, appends continue at ITS end, i.e. at the cut position) *)
Definition cut_file (id : N) (n : nat) (fs : list vfile) : list vfile :=
  update_file id (fun f => {| vf_id := vf_id f; vf_bytes := firstn n (vf_bytes f); vf_synced := vf_synced f |}) fs.
Definition d_cut (id : N) (n : nat) (st : vstate) : dop := DFiles (cut_file id n (vs_files st)) (vs_active st) (vs_next st).
End VlogMachine.
