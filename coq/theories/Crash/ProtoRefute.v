(* Crash/ProtoRefute.v — what the obligations exclude: event sequences of OLD behaviours of the
   engine (and of two windows the CURRENT code leaves open), each rejected by `proto_err` at the
   named obligation and each with a crash after which an acknowledged batch is missing, a batch is
   recovered in part, or the store does not open.  Every witness is closed by computation. *)
From Coq Require Import List Arith Bool.
From SKV Require Import Crash.Proto.
Import ListNotations.

Definition outcome (sigma : list pevent) (c : pcrash) :=
  (proto_err sigma, recover (do_crash (prun sigma) c), need_proc (prun sigma), need_pow (prun sigma)).

(* (1) before "compaction fsyncs its output table before the manifest switch": the output table 2
   is installed without TableSync (obligation 7 = P7); after a power loss the table is unreadable
   and the store does not open, although batch 0 was acknowledged durably *)
Definition compaction_unsynced_trace : list pevent :=
  [ManifestInstall 0 []; WalRotate 0; WalAppend 0 0; WalSync 0; Ack 0 true;
   TableWrite 1 [(0, true)]; TableSync 1; ManifestInstall 1 [1]; WalUnlink 0;
   TableWrite 2 [(0, true)]; ManifestInstall 1 [2]; TableUnlink 1].
Definition compaction_unsynced_refuted_stmt : Prop :=
  outcome compaction_unsynced_trace (CPow [] [] []) = (Some (10, 7), None, [0], [0]).

(* (2) before "a commit is never logged in a WAL segment older than its memtable's": batch 1 is
   logged in segment 0, ArenaFull rotates to segment 1 and the batch goes to the new memtable
   without being logged again; the flush of the old memtable installs log_number 1 (obligation
   2 = P2) and segment 0 is unlinked: the acknowledged batch 1 is gone after a process crash *)
Definition arena_full_trace : list pevent :=
  [ManifestInstall 0 []; WalRotate 0; WalAppend 0 0; Ack 0 false; WalAppend 0 1; WalSync 0; WalRotate 1;
   Ack 1 false; TableWrite 1 [(0, true)]; TableSync 1; ManifestInstall 1 [1]; WalUnlink 0].
Definition arena_full_unlink_refuted_stmt : Prop :=
  outcome arena_full_trace CProc = (Some (10, 2), Some [(0, true)], [1; 0], []).

(* the same with the part of batch 1 that `MemTable::add` had inserted before ArenaFull: the
   transaction is recovered in part *)
Definition partial_batch_trace : list pevent :=
  [ManifestInstall 0 []; WalRotate 0; WalAppend 0 0; Ack 0 false; WalAppend 0 1; WalSync 0; WalRotate 1;
   Ack 1 false; TableWrite 1 [(0, true); (1, false)]; TableSync 1; ManifestInstall 1 [1]; WalUnlink 0].
Definition partial_batch_refuted_stmt : Prop :=
  outcome partial_batch_trace CProc = (Some (10, 2), Some [(0, true); (1, false)], [1; 0], []).

(* the current code (`relog_if_rotated`: Relog + WalSync before the batch is applied) is accepted,
   and both crashes recover batch 1 as a whole *)
Definition relog_trace : list pevent :=
  [ManifestInstall 0 []; WalRotate 0; WalAppend 0 0; Ack 0 false; WalAppend 0 1; WalSync 0; WalRotate 1;
   Relog 1 1; WalSync 1; Ack 1 false; TableWrite 1 [(0, true); (1, false)]; TableSync 1;
   ManifestInstall 1 [1]; WalUnlink 0].
Definition relog_accepted_stmt : Prop :=
  outcome relog_trace CProc = (None, Some [(0, true); (1, false); (1, true)], [1; 0], []) /\
  outcome relog_trace (CPow [(1, 0)] [] []) = (None, Some [(0, true); (1, false); (1, true)], [1; 0], []).

(* (3) before "recovery does not mark a WAL segment as flushed while part of it is only in memory":
   replay splits segment 0, the first piece is flushed with log_number 1 (P2); a second crash
   loses the acknowledged batch 2 *)
Definition split_marked_flushed_trace : list pevent :=
  [ManifestInstall 0 []; WalRotate 0; WalAppend 0 0; Ack 0 false; WalAppend 0 1; Ack 1 false; WalAppend 0 2;
   Ack 2 false; Crash CProc; TableWrite 1 [(0, true); (1, true); (2, false)]; TableSync 1; ManifestInstall 1 [1]].
Definition split_marked_flushed_refuted_stmt : Prop :=
  outcome split_marked_flushed_trace CProc = (Some (11, 2), Some [(0, true); (1, true); (2, false)], [2; 1; 0], []).

(* ---- a window of the commit path (see REPORT: decided on the real code), then two regression records
   of the recovery BEFORE c9fa42b / 372cb98 *)

(* (4) OPEN on the real code (finding F51, tools/repro/multigen.py relograce exhibits it with a directed
   schedule): the flush of the rotated memtable is started (wake_up_memtable) before `relog_if_rotated`
   runs and no lock orders the two: if the install wins, the not yet acknowledged batch 1 is
   recovered in part after a crash (P2) *)
Definition flush_before_relog_trace : list pevent :=
  [ManifestInstall 0 []; WalRotate 0; WalAppend 0 0; Ack 0 false; WalAppend 0 1; WalSync 0; WalRotate 1;
   TableWrite 1 [(0, true); (1, false)]; TableSync 1; ManifestInstall 1 [1]; WalUnlink 0].
Definition flush_before_relog_refuted_stmt : Prop :=
  outcome flush_before_relog_trace CProc = (Some (9, 2), Some [(0, true); (1, false)], [0], []).

(* (5) OLD recovery (before c9fa42b; finding F46): after a PROCESS crash it flushes the first piece of the split last segment (a table
   holding a part of batch 2, log_number unchanged) while the segment itself was never fsynced
   (obligation 8 = P8); a power loss before the next WAL fsync leaves the part without the whole.
   After a power loss as FIRST crash everything that survived is on disk and the same events are
   accepted. *)
Definition piece_unsynced_trace (c : pcrash) : list pevent :=
  [ManifestInstall 0 []; WalRotate 0; WalAppend 0 0; Ack 0 false; WalAppend 0 1; Ack 1 false; WalAppend 0 2;
   Ack 2 false; Crash c; TableWrite 1 [(0, true); (1, true); (2, false)]; TableSync 1; ManifestInstall 0 [1]].
Definition recovery_piece_unsynced_old_recovery_refuted_stmt : Prop :=
  outcome (piece_unsynced_trace CProc) (CPow [(0, 0)] [] []) = (Some (11, 8), Some [(0, true); (1, true); (2, false)], [2; 1; 0], []) /\
  proto_err (piece_unsynced_trace (CPow [] [] [])) = None.

(* (6) OLD recovery (before 372cb98; finding F47): a split segment that is NOT the last one is marked flushed with its first piece
   (`segment_complete = wal_number < last_wal_number`): a crash between the pieces loses batch 2 (P2) *)
Definition nonlast_split_trace : list pevent :=
  [ManifestInstall 0 []; WalRotate 0; WalAppend 0 0; Ack 0 false; WalAppend 0 1; Ack 1 false; WalAppend 0 2;
   Ack 2 false; WalSync 0; WalRotate 1; WalAppend 1 3; Crash CProc;
   TableWrite 1 [(0, true); (1, true)]; TableSync 1; ManifestInstall 1 [1]].
Definition recovery_nonlast_split_old_recovery_refuted_stmt : Prop :=
  outcome nonlast_split_trace CProc = (Some (14, 2), Some [(0, true); (1, true); (3, true)], [2; 1; 0], []).

(* ---- obligations that randomised search does not hit easily: each is needed *)
(* P9: a table with batch 1 but not batch 0 is installed while both are only in the unsynced WAL *)
Definition p9_trace : list pevent :=
  [ManifestInstall 0 []; WalRotate 0; WalAppend 0 0; WalAppend 0 1; TableWrite 1 [(1, true)]; TableSync 1; ManifestInstall 0 [1]].
Definition p9_needed_stmt : Prop :=
  outcome p9_trace (CPow [(0, 0)] [] []) = (Some (6, 9), Some [(1, true)], [], []).
(* P2 (power loss): a durably acknowledged batch is logged again without fsync and the segment with
   its fsynced record is marked flushed *)
Definition p2s_trace : list pevent :=
  [ManifestInstall 0 []; WalRotate 0; WalAppend 0 0; WalSync 0; Ack 0 true; WalRotate 1; Relog 1 0; ManifestInstall 1 []].
Definition p2s_needed_stmt : Prop :=
  outcome p2s_trace (CPow [(1, 0)] [] []) = (Some (7, 21), Some [], [0], [0]).
(* P3 / P4 / P5 *)
Definition p3_trace : list pevent := [ManifestInstall 0 []; WalRotate 0; WalAppend 0 0; Ack 0 false; WalUnlink 0].
Definition p3_needed_stmt : Prop := outcome p3_trace CProc = (Some (4, 3), Some [], [0], []).
Definition p4_trace : list pevent :=
  [ManifestInstall 0 []; WalRotate 0; WalAppend 0 0; Ack 0 false; TableWrite 1 [(0, true)]; TableSync 1; ManifestInstall 1 [1]; TableUnlink 1].
Definition p4_needed_stmt : Prop := outcome p4_trace CProc = (Some (7, 4), None, [0], []).
(* P5: appending after the garbage a crash left (the pre-fix writer): the model keeps the record
   countable, but the obligation rejects the append *)
Definition p5_trace : list pevent := [ManifestInstall 0 []; WalRotate 0; WalPartial 0; Crash CProc; WalAppend 0 0].
Definition p5_rejected_stmt : Prop := proto_err p5_trace = Some (4, 5).

(* ---- the REPAIRED recovery (Proto.recovery_full) on the same two states: all replayed segments are
   fsynced first, log_number moves past a segment only with its last piece; the events are accepted
   and a power loss right after them loses nothing *)
Definition prefix5 : list pevent := firstn 8 (piece_unsynced_trace CProc).
Definition cuts5 (s : nat) : list (nat * bool) := match s with 0 => [(2, true)] | _ => [] end.
Definition repaired5 : list pevent := recovery_full (do_crash (prun prefix5) CProc) cuts5 [1; 2; 3].
Definition repaired_piece_recovery_stmt : Prop :=
  repaired5 = [WalSync 0; TableWrite 1 [(0, true); (1, true); (2, false)]; TableSync 1; ManifestInstall 0 [1]] /\
  outcome (prefix5 ++ Crash CProc :: repaired5) (CPow [(0, 0)] [] [])
  = (None, Some [(0, true); (1, true); (2, false); (0, true); (1, true); (2, true)], [2; 1; 0], []).

Definition prefix6 : list pevent := firstn 11 nonlast_split_trace.
Definition cuts6 (s : nat) : list (nat * bool) := match s with 0 => [(2, false)] | _ => [] end.
Definition repaired6 : list pevent := recovery_full (do_crash (prun prefix6) CProc) cuts6 [1; 2; 3].
Definition repaired_nonlast_recovery_stmt : Prop :=
  repaired6 = [WalSync 0; WalSync 1;
               TableWrite 1 [(0, true); (1, true)]; TableSync 1; ManifestInstall 0 [1];
               TableWrite 2 [(2, true)]; TableSync 2; ManifestInstall 1 [1; 2]] /\
  proto_err (prefix6 ++ Crash CProc :: repaired6) = None /\
  (* a crash between the two pieces: everything is there *)
  snd (fst (fst (outcome (prefix6 ++ Crash CProc :: firstn 5 repaired6) CProc)))
  = Some [(0, true); (1, true); (0, true); (1, true); (2, true); (3, true)].
