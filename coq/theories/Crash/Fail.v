(* Crash/Fail.v — executable model of the commit-log writer UNDER I/O FAILURES (property C15):
     std::io::BufWriter<File>             (library/std/src/io/buffered/bufwriter.rs: write_all,
                                            write_all_cold, flush_buf with its BufGuard)
     BufferedFileWriter                   (src/wal/mod.rs: append = write_all + pending_sync,
                                            flush, sync = flush + sync_all)
     Writer::add_record / maybe_switch_to_new_block / emit_physical_record (src/wal/writer.rs)
     Wal::append / flush / sync / rotate  (src/wal/manager.rs)
   Definitions only; statements in FailSpec.v, proofs in Fail_proofs.v.

   The operating system is a pair of answer functions: `wenv i` is what the i-th write(2) on the
   segment files does (everything / a short write of k bytes / an error), `senv i` whether the i-th
   fsync succeeds.  Any single or repeated, transient or persistent fault is such a pair
   (`plan_wenv`, `plan_senv` are the ones shim/shim.c can inject).

   What the std code does and the model keeps (bufwriter.rs):
   * write_all(buf): if buf.len() < spare_capacity -> copy into the buffer, Ok.  Otherwise
     write_all_cold: if buf.len() > spare_capacity { flush_buf()? }; if buf.len() >= capacity
     { inner.write_all(buf) } else { copy into the buffer; Ok }.
     So an error of the flush inside write_all leaves `buf` NOT buffered, and the old content
     (what flush_buf could not write) still buffered.
   * flush_buf: loop { r = inner.write(remaining); Ok(0) -> Err(WriteZero); Ok(n) -> consume n;
     Err(e) -> return Err(e) } and the BufGuard drops the written prefix from the buffer on every
     exit: after an error the unwritten suffix stays buffered; a short write just loops.
   * File::flush is a no-op; BufWriter::flush = flush_buf.
   What the crate's code does and the model keeps (writer.rs):
   * emit_physical_record: `dest.append(&header)?; dest.append(data)?; block_offset += 7 + len` —
     block_offset advances only after BOTH appends: a failure of the second one leaves the header
     in the buffer (or in the file) and block_offset 7 bytes behind the stream position.
   * maybe_switch_to_new_block: `dest.append(&padding)?; block_offset = 0`.
   * add_record: the fragment loop, then (manual_flush = false) write_buffer()? = flush.
   * nothing is undone on any error path. *)
From Coq Require Import List NArith Arith Bool Lia.
From SKV Require Import Codec.Wal.
Import ListNotations.

Inductive wresp := WFull | WShort (k : nat) | WErr.

(* BufWriter<File>: the file (bytes accepted by the OS), the buffer, the number of write(2) calls *)
Record bw := { b_file : list byte; b_buf : list byte; b_wc : nat }.

(* BufferedFileWriter + Writer *)
Record wr := { r_bw : bw; r_boff : nat; r_psync : bool }.

(* Wal: the active writer, fsync calls so far, the segments rotated away (oldest first) *)
Record wal := { a_w : wr; a_sc : nat; a_closed : list (list byte) }.

Inductive wcmd := CAppend (p : list byte) | CFlush | CSync | CRotate.

(* FOk; FRejected = Wal::append refuses the empty record; FFailEmit = an append of padding / header /
   data failed inside the fragment loop; FFailFlush = the flush that ends add_record (or Wal::flush,
   or the flush inside sync) failed; FFailFsync = sync_all failed *)
Inductive fres := FOk | FRejected | FFailEmit | FFailFlush | FFailFsync.

Definition fres_eqb (a b : fres) : bool :=
  match a, b with
  | FOk, FOk | FRejected, FRejected | FFailEmit, FFailEmit | FFailFlush, FFailFlush | FFailFsync, FFailFsync => true
  | _, _ => false
  end.

Section FailModel.
Variable B : nat.                               (* BLOCK_SIZE *)
Variable C : nat.                               (* BufWriter capacity (= BLOCK_SIZE in Wal::create_writer) *)
Variable crc : N -> list byte -> list byte.
Variable wenv : nat -> wresp.
Variable senv : nat -> bool.

(* ------------------------------------------------------------------ write(2) *)
(* File::write -> write(2) on an O_APPEND descriptor.  data is never empty when called. *)
Definition sys_write (s : bw) (data : list byte) : bw * option nat :=
  let wc := S (b_wc s) in
  match wenv (b_wc s) with
  | WFull => ({| b_file := b_file s ++ data; b_buf := b_buf s; b_wc := wc |}, Some (length data))
  | WShort k =>
    match Nat.min k (length data) with
    | O => ({| b_file := b_file s; b_buf := b_buf s; b_wc := wc |}, None)
    | S k' => ({| b_file := b_file s ++ firstn (S k') data; b_buf := b_buf s; b_wc := wc |}, Some (S k'))
    end
  | WErr => ({| b_file := b_file s; b_buf := b_buf s; b_wc := wc |}, None)
  end.

(* ------------------------------------------------------------------ BufWriter *)
(* flush_buf; fuel = S (length buffer) is enough (every successful write takes >= 1 byte) *)
Fixpoint flush_buf (fuel : nat) (s : bw) : bw * bool :=
  match b_buf s with
  | [] => (s, true)
  | x :: r =>
    match fuel with
    | O => (s, false)
    | S f =>
      let '(s1, w) := sys_write s (x :: r) in
      match w with
      | None => (s1, false)
      | Some k => flush_buf f {| b_file := b_file s1; b_buf := skipn k (x :: r); b_wc := b_wc s1 |}
      end
    end
  end.
Definition bw_flush (s : bw) : bw * bool := flush_buf (S (length (b_buf s))) s.

(* Write::write_all on the File itself (default method): loop write; Ok(0) is WriteZero *)
Fixpoint inner_write_all (fuel : nat) (s : bw) (data : list byte) : bw * bool :=
  match data with
  | [] => (s, true)
  | _ =>
    match fuel with
    | O => (s, false)
    | S f =>
      let '(s1, w) := sys_write s data in
      match w with
      | None => (s1, false)
      | Some k => inner_write_all f s1 (skipn k data)
      end
    end
  end.

Definition buffer (s : bw) (data : list byte) : bw :=
  {| b_file := b_file s; b_buf := b_buf s ++ data; b_wc := b_wc s |}.

(* BufWriter::write_all *)
Definition write_all (s : bw) (data : list byte) : bw * bool :=
  let spare := C - length (b_buf s) in
  if length data <? spare then (buffer s data, true)
  else
    let '(s1, ok) := if spare <? length data then bw_flush s else (s, true) in
    if negb ok then (s1, false)
    else if C <=? length data then inner_write_all (S (length data)) s1 data
    else (buffer s1 data, true).

(* ------------------------------------------------------------------ BufferedFileWriter *)
Definition set_bw (w : wr) (s : bw) : wr := {| r_bw := s; r_boff := r_boff w; r_psync := r_psync w |}.
Definition set_boff (w : wr) (o : nat) : wr := {| r_bw := r_bw w; r_boff := o; r_psync := r_psync w |}.

Definition append (w : wr) (data : list byte) : wr * bool :=
  let '(s, ok) := write_all (r_bw w) data in
  ({| r_bw := s; r_boff := r_boff w; r_psync := if ok then true else r_psync w |}, ok).

(* ------------------------------------------------------------------ Writer *)
Definition maybe_switch (w : wr) : wr * bool :=
  let leftover := B - r_boff w in
  if leftover <? H then
    let '(w1, ok) := append w (repeat 0%N leftover) in
    if ok then (set_boff w1 0, true) else (w1, false)
  else (w, true).

Definition emit_phys (w : wr) (ty : N) (d : list byte) : wr * bool :=
  let '(w1, ok1) := append w (header crc ty d) in
  if negb ok1 then (w1, false) else
  let '(w2, ok2) := append w1 d in
  if negb ok2 then (w2, false) else
  (set_boff w2 (r_boff w2 + H + length d), true).

(* the fragment loop of add_record, shaped as Wal.emit *)
Fixpoint emit_f (fuel : nat) (w : wr) (p : list byte) (begin : bool) : wr * bool :=
  match fuel with
  | O => (w, true)
  | S f =>
    let '(w1, ok) := maybe_switch w in
    if negb ok then (w1, false) else
    let avail := B - r_boff w1 - H in
    let n := Nat.min (length p) avail in
    let frag := firstn n p in
    let rest := skipn n p in
    let is_end := Nat.eqb n (length p) in
    let ty := if begin then (if is_end then T_FULL else T_FIRST)
              else (if is_end then T_LAST else T_MIDDLE) in
    let '(w2, ok2) := emit_phys w1 ty frag in
    if negb ok2 then (w2, false) else
    if is_end then (w2, true) else emit_f f w2 rest false
  end.

Definition add_record_f (w : wr) (p : list byte) : wr * fres :=
  let '(w1, ok) := emit_f (2 * length p + 2) w p true in
  if negb ok then (w1, FFailEmit) else
  let '(s, ok2) := bw_flush (r_bw w1) in
  (set_bw w1 s, if ok2 then FOk else FFailFlush).

(* ------------------------------------------------------------------ Wal *)
Definition set_w (a : wal) (w : wr) : wal := {| a_w := w; a_sc := a_sc a; a_closed := a_closed a |}.

Definition do_flush (a : wal) : wal * fres :=
  let '(s, ok) := bw_flush (r_bw (a_w a)) in
  (set_w a (set_bw (a_w a) s), if ok then FOk else FFailFlush).

(* BufferedFileWriter::sync *)
Definition do_sync (a : wal) : wal * fres :=
  if negb (r_psync (a_w a)) then (a, FOk) else
  let '(s, ok) := bw_flush (r_bw (a_w a)) in
  let w1 := set_bw (a_w a) s in
  if negb ok then (set_w a w1, FFailFlush) else
  let a1 := {| a_w := w1; a_sc := S (a_sc a); a_closed := a_closed a |} in
  if senv (a_sc a)
  then ({| a_w := {| r_bw := s; r_boff := r_boff w1; r_psync := false |}; a_sc := S (a_sc a); a_closed := a_closed a |}, FOk)
  else (a1, FFailFsync).

Definition bw0 (wc : nat) : bw := {| b_file := []; b_buf := []; b_wc := wc |}.
Definition wr0 (wc : nat) : wr := {| r_bw := bw0 wc; r_boff := 0; r_psync := false |}.
Definition wal0 : wal := {| a_w := wr0 0; a_sc := 0; a_closed := [] |}.

(* Wal::rotate: sync the active writer; then a new segment and a new writer; the old BufWriter is
   dropped (its Drop flushes what is buffered, ignoring errors: nothing after a successful sync) *)
Definition do_rotate (a : wal) : wal * fres :=
  let '(a1, r) := do_sync a in
  match r with
  | FOk =>
    let '(s, _) := bw_flush (r_bw (a_w a1)) in
    ({| a_w := wr0 (b_wc s); a_sc := a_sc a1; a_closed := a_closed a1 ++ [b_file s] |}, FOk)
  | _ => (a1, r)
  end.

Definition fstep (a : wal) (c : wcmd) : wal * fres :=
  match c with
  | CAppend [] => (a, FRejected)
  | CAppend p => let '(w, r) := add_record_f (a_w a) p in (set_w a w, r)
  | CFlush => do_flush a
  | CSync => do_sync a
  | CRotate => do_rotate a
  end.

Fixpoint frun (a : wal) (cs : list wcmd) : wal * list fres :=
  match cs with
  | [] => (a, [])
  | c :: r => let '(a1, x) := fstep a c in let '(a2, xs) := frun a1 r in (a2, x :: xs)
  end.

(* the segment files as a process crash leaves them (buffers are gone), oldest first *)
Definition segments (a : wal) : list (list byte) := a_closed a ++ [b_file (r_bw (a_w a))].
Definition cur_file (a : wal) : list byte := b_file (r_bw (a_w a)).
Definition cur_buf (a : wal) : list byte := b_buf (r_bw (a_w a)).

(* ------------------------------------------------------------------ the repaired Wal (fix of C15-N1/N2/N10) *)
(* src/wal/manager.rs after the repair: `Wal` carries `failed`.  `fstep`/`frun` above are the writer as it
   was BEFORE the repair (nothing undone on an error path, the writer usable again afterwards); they
   stay as the inner operations and as the regression record.  `xstep`/`xrun` are the code as it is:
   * Wal::fail(): failed := true; Writer::abandon_buffer() — the BufWriter is replaced by an empty one
     (BufWriter::into_parts: nothing that is buffered is written, now or on drop), pending_sync := false.
   * append: closed -> Err; empty record -> Err (both without I/O; the model answers the empty record
     first, the two orders differ only in the error text); check_not_failed()?; add_record, on Err fail().
   * flush / sync: closed -> Ok(()) (nothing done); check_not_failed()?; on Err fail().
   * rotate: check_not_failed()? (closed is NOT checked); active_writer.sync(), on Err fail(); new segment.
   * close: closed -> Ok; closed := true; if !failed { active_writer.close()? = sync()? } — an error of
     that sync is returned but does not set `failed`; then the directory fsync (not a data operation). *)
Record walx := { x_wal : wal; x_failed : bool; x_shut : bool }.
Inductive xcmd := XC (c : wcmd) | XClose.
(* XOk; XRejected = empty record; XFail r = the operation ran and failed as r; XRefused = refused
   without touching the file (an earlier WAL write failed, or append on a closed Wal) *)
Inductive xres := XOk | XRejected | XFail (r : fres) | XRefused.

Definition abandon (a : wal) : wal :=
  set_w a {| r_bw := {| b_file := b_file (r_bw (a_w a)); b_buf := []; b_wc := b_wc (r_bw (a_w a)) |};
             r_boff := r_boff (a_w a); r_psync := false |}.

Definition walx0 : walx := {| x_wal := wal0; x_failed := false; x_shut := false |}.

(* the outcome of an inner operation: an error makes the Wal fail *)
Definition lift (x : walx) (o : wal * fres) : walx * xres :=
  let '(a1, r) := o in
  match r with
  | FOk => ({| x_wal := a1; x_failed := x_failed x; x_shut := x_shut x |}, XOk)
  | FRejected => ({| x_wal := a1; x_failed := x_failed x; x_shut := x_shut x |}, XRejected)
  | _ => ({| x_wal := abandon a1; x_failed := true; x_shut := x_shut x |}, XFail r)
  end.

Definition xstep (x : walx) (c : xcmd) : walx * xres :=
  match c with
  | XC (CAppend []) => (x, XRejected)
  | XC (CAppend p) =>
    if x_shut x || x_failed x then (x, XRefused) else lift x (fstep (x_wal x) (CAppend p))
  | XC CFlush => if x_shut x then (x, XOk) else if x_failed x then (x, XRefused) else lift x (do_flush (x_wal x))
  | XC CSync => if x_shut x then (x, XOk) else if x_failed x then (x, XRefused) else lift x (do_sync (x_wal x))
  | XC CRotate => if x_failed x then (x, XRefused) else lift x (do_rotate (x_wal x))
  | XClose =>
    if x_shut x then (x, XOk) else
    if x_failed x then ({| x_wal := x_wal x; x_failed := true; x_shut := true |}, XOk) else
    let '(a1, r) := do_sync (x_wal x) in
    ({| x_wal := a1; x_failed := false; x_shut := true |}, match r with FOk => XOk | _ => XFail r end)
  end.

Fixpoint xrun (x : walx) (cs : list xcmd) : walx * list xres :=
  match cs with
  | [] => (x, [])
  | c :: r => let '(x1, o) := xstep x c in let '(x2, os) := xrun x1 r in (x2, o :: os)
  end.

End FailModel.

(* ------------------------------------------------------------------ bookkeeping over a run *)
Definition is_emitted (r : fres) : bool := match r with FOk | FFailFlush => true | _ => false end.
Definition is_ok (r : fres) : bool := match r with FOk => true | _ => false end.

(* payloads of the (non-empty) appends whose result satisfies keep, in order *)
Fixpoint sel (keep : fres -> bool) (cs : list wcmd) (rs : list fres) : list (list byte) :=
  match cs, rs with
  | CAppend (x :: p) :: cs', r :: rs' => if keep r then (x :: p) :: sel keep cs' rs' else sel keep cs' rs'
  | _ :: cs', _ :: rs' => sel keep cs' rs'
  | _, _ => []
  end.
Definition acked := sel is_ok.
Definition emitted := sel is_emitted.

Definition no_rotate (cs : list wcmd) : bool := forallb (fun c => match c with CRotate => false | _ => true end) cs.

(* ---- the known classes, as executable predicates over the results of a run ---- *)
(* an append failed between two writes of one record: block_offset and the stream are out of step,
   or a header / fragment without its continuation is buffered *)
Definition known_mid_emit_failure (rs : list fres) : bool := existsb (fres_eqb FFailEmit) rs.
(* a failed command is followed by another command (the writer is used again after a failure) *)
Fixpoint known_used_after_failure (rs : list fres) : bool :=
  match rs with
  | [] => false
  | r :: rest => match r with
                 | FOk | FRejected => known_used_after_failure rest
                 | _ => match rest with [] => false | _ => true end
                 end
  end.
(* the record is in the file, the fsync of a sync failed *)
Definition known_fsync_failed (rs : list fres) : bool := existsb (fres_eqb FFailFsync) rs.

Fixpoint is_subseq (a b : list (list byte)) : bool :=
  match a, b with
  | [], _ => true
  | _ :: _, [] => false
  | x :: a', y :: b' => if list_eqb x y then is_subseq a' b' else is_subseq a b'
  end.

(* ---- bookkeeping over a run of the repaired Wal ---- *)
Definition is_xack (c : xcmd) (r : xres) : bool :=
  match c, r with XC (CAppend (_ :: _)), XOk => true | _, _ => false end.
Definition is_xfail (r : xres) : bool := match r with XFail _ | XRefused => true | _ => false end.
(* payloads of the acknowledged appends, in order *)
Fixpoint xacked (cs : list xcmd) (rs : list xres) : list (list byte) :=
  match cs, rs with
  | XC (CAppend (x :: p)) :: cs', XOk :: rs' => (x :: p) :: xacked cs' rs'
  | _ :: cs', _ :: rs' => xacked cs' rs'
  | _, _ => []
  end.
Definition xno_rotate (cs : list xcmd) : bool :=
  forallb (fun c => match c with XC CRotate => false | _ => true end) cs.
Definition xno_close (cs : list xcmd) : bool :=
  forallb (fun c => match c with XClose => false | _ => true end) cs.
(* an append is acknowledged after some command failed or was refused *)
Fixpoint xack_after (seen : bool) (cs : list xcmd) (rs : list xres) : bool :=
  match cs, rs with
  | c :: cs', r :: rs' => (seen && is_xack c r) || xack_after (seen || is_xfail r) cs' rs'
  | _, _ => false
  end.
(* the one class that remains at the level of a COMMIT (append followed by its sync): the fsync fails
   when the record is already in the file *)
Definition xknown_fsync_failed (rs : list xres) : bool :=
  existsb (fun r => match r with XFail FFailFsync => true | _ => false end) rs.

(* ------------------------------------------------------------------ injectable fault plans *)
(* shim/shim.c: VERIF_SHIM_FAIL = n:kind[:sticky]; n counts from 1; write kinds count write calls,
   the fsync kind counts fsync calls *)
Inductive fkind := KErr | KShort (k : nat) | KShortErr (k : nat) | KFsync.

Definition plan_wenv (n : nat) (kind : fkind) (sticky : bool) (i : nat) : wresp :=
  let c := S i in
  let hit := Nat.eqb c n || (sticky && (n <? c)) in
  if Nat.eqb n 0 then WFull else
  match kind with
  | KErr => if hit then WErr else WFull
  | KShort k => if hit then WShort k else WFull
  | KShortErr k => if Nat.eqb c n then WShort k
                   else if Nat.eqb c (S n) || (sticky && (n <? c)) then WErr else WFull
  | KFsync => WFull
  end.

Definition plan_senv (n : nat) (kind : fkind) (sticky : bool) (i : nat) : bool :=
  match kind with
  | KFsync => if Nat.eqb n 0 then true else negb (Nat.eqb (S i) n || (sticky && (n <? S i)))
  | _ => true
  end.
