(* Crash/Proto_proofs.v — proofs of the statements of Crash/ProtoSpec.v. *)
From Coq Require Import List Arith Bool Lia.
From SKV Require Import Crash.Proto Crash.ProtoSpec.
Import ListNotations.

(* ------------------------------------------------------------------ basics *)
Lemma memb_In : forall b l, memb b l = true <-> In b l.
Proof.
  intros b l. unfold memb. rewrite existsb_exists. split.
  - intros [x [Hin He]]. apply Nat.eqb_eq in He. subst. exact Hin.
  - intros H. exists b. split; [exact H | apply Nat.eqb_refl].
Qed.

Lemma memb_false : forall b l, memb b l = false <-> ~ In b l.
Proof.
  intros b l. rewrite <- memb_In. destruct (memb b l); split; intros; try congruence.
Qed.

Lemma pupd_eq : forall A (f : nat -> option A) k v, pupd f k v k = v.
Proof. intros. unfold pupd. rewrite Nat.eqb_refl. reflexivity. Qed.

Lemma pupd_neq : forall A (f : nat -> option A) k v x, x <> k -> pupd f k v x = f x.
Proof. intros. unfold pupd. apply Nat.eqb_neq in H. rewrite H. reflexivity. Qed.

Lemma cov_has_In : forall full c b, cov_has full c b = true <-> In (b, full) c.
Proof.
  intros full c b. unfold cov_has. rewrite existsb_exists. split.
  - intros [[x f] [Hin He]]. cbn in He. apply andb_true_iff in He. destruct He as [H1 H2].
    apply Nat.eqb_eq in H1. apply eqb_prop in H2. subst. exact Hin.
  - intros H. exists (b, full). split; [exact H|]. cbn. rewrite Nat.eqb_refl, eqb_reflx. reflexivity.
Qed.

Lemma in_seq_iff : forall n len x, In x (seq n len) <-> n <= x < n + len.
Proof. intros. apply in_seq. Qed.

(* increasing lists *)
Fixpoint incr (l : list nat) : Prop :=
  match l with
  | [] => True
  | x :: r => (forall y, In y r -> x < y) /\ incr r
  end.

Lemma incr_app : forall l1 l2,
  incr (l1 ++ l2) <-> incr l1 /\ incr l2 /\ (forall x y, In x l1 -> In y l2 -> x < y).
Proof.
  induction l1 as [|a l1 IH]; intros l2; cbn.
  - split; [intros H; repeat split; auto; intros x y []| intros [_ [H _]]; exact H].
  - rewrite IH. split.
    + intros [H1 [H2 [H3 H4]]]. repeat split; auto.
      * intros y Hy. apply H1. apply in_or_app. left. exact Hy.
      * intros x y [Hx|Hx] Hy; [subst; apply H1; apply in_or_app; right; exact Hy | apply H4; assumption].
    + intros [[H1 H2] [H3 H4]]. repeat split; auto.
      intros y Hy. apply in_app_or in Hy. destruct Hy as [Hy|Hy]; [apply H1; exact Hy | apply H4; [left; reflexivity | exact Hy]].
Qed.

Lemma incr_filter : forall f l, incr l -> incr (filter f l).
Proof.
  induction l as [|a l IH]; cbn; intros H; [exact I|]. destruct H as [H1 H2].
  destruct (f a); cbn; [split|]; auto.
  intros y Hy. apply filter_In in Hy. apply H1. tauto.
Qed.

Lemma filter_refine : forall (f g : nat -> bool) l,
  (forall x, g x = true -> f x = true) -> filter g l = filter g (filter f l).
Proof.
  intros f g l H. induction l as [|a l IH]; cbn; [reflexivity|].
  destruct (g a) eqn:Eg.
  - rewrite (H a Eg). cbn. rewrite Eg. f_equal. exact IH.
  - destruct (f a); cbn; [rewrite Eg|]; exact IH.
Qed.

Lemma filter_ext_in' : forall (f g : nat -> bool) l,
  (forall x, In x l -> f x = g x) -> filter f l = filter g l.
Proof.
  intros f g l H. induction l as [|a l IH]; cbn; [reflexivity|].
  rewrite (H a (or_introl eq_refl)). rewrite IH; [reflexivity|]. intros x Hx. apply H. right. exact Hx.
Qed.

Lemma firstn_In : forall A n (l : list A) x, In x (firstn n l) -> In x l.
Proof. intros A n l x H. rewrite <- (firstn_skipn n l). apply in_or_app. left. exact H. Qed.

Lemma skipn_In : forall A n (l : list A) x, In x (skipn n l) -> In x l.
Proof. intros A n l x H. rewrite <- (firstn_skipn n l). apply in_or_app. right. exact H. Qed.

Lemma firstn_app_le : forall A n (l1 l2 : list A), n <= length l1 -> firstn n (l1 ++ l2) = firstn n l1.
Proof.
  intros A n l1 l2 H. rewrite firstn_app. replace (n - length l1) with 0 by lia. cbn. apply app_nil_r.
Qed.

Lemma skipn_app_le : forall A n (l1 l2 : list A), n <= length l1 -> skipn n (l1 ++ l2) = skipn n l1 ++ l2.
Proof.
  intros A n l1 l2 H. rewrite skipn_app. replace (n - length l1) with 0 by lia. reflexivity.
Qed.

(* ------------------------------------------------------------------ Prop-level readings *)
Definition Top (st : pstate) (a : nat) : Prop := forall s sg, segs st s = Some sg -> s <= a.

Definition InSeg (st : pstate) (n b : nat) : Prop :=
  exists s sg, n <= s /\ segs st s = Some sg /\ In b (recs sg).
Definition InSSeg (st : pstate) (n b : nat) : Prop :=
  exists s sg, n <= s /\ segs st s = Some sg /\ In b (srecs sg).
Definition CovFull (st : pstate) (ts : list nat) (b : nat) : Prop :=
  exists id t, In id ts /\ tabs st id = Some t /\ tgood t = true /\ In (b, true) (cov t).
Definition InX (st : pstate) (b : nat) : Prop :=
  exists a sg, segs st a = Some sg /\ Top st a /\ mlog st <= a /\ In b (urecs sg).

Definition Bounded (st : pstate) : Prop := forall s sg, segs st s = Some sg -> s < seg_hi st.

Lemma seg_has_spec : forall f st s b,
  seg_has f st s b = true <-> exists sg, segs st s = Some sg /\ In b (f sg).
Proof.
  intros f st s b. unfold seg_has. destruct (segs st s) as [sg|].
  - rewrite memb_In. split; [intros H; exists sg; auto | intros [sg' [E H]]; inversion E; subst; exact H].
  - split; [discriminate | intros [sg' [E _]]; discriminate].
Qed.

Lemma in_seg_gen_spec : forall f st n b, Bounded st ->
  (existsb (fun s => seg_has f st s b) (seq n (seg_hi st - n)) = true
   <-> exists s sg, n <= s /\ segs st s = Some sg /\ In b (f sg)).
Proof.
  intros f st n b HB. rewrite existsb_exists. split.
  - intros [s [Hin H]]. apply in_seq in Hin. apply seg_has_spec in H. destruct H as [sg [E H]].
    exists s, sg. repeat split; auto. lia.
  - intros [s [sg [Hn [E H]]]]. exists s. split.
    + apply in_seq. specialize (HB s sg E). lia.
    + apply seg_has_spec. exists sg. auto.
Qed.

Lemma in_seg_spec : forall st n b, Bounded st -> (in_seg st n b = true <-> InSeg st n b).
Proof. intros. unfold in_seg, InSeg. apply in_seg_gen_spec. assumption. Qed.

Lemma in_sseg_spec : forall st n b, Bounded st -> (in_sseg st n b = true <-> InSSeg st n b).
Proof. intros. unfold in_sseg, InSSeg. apply in_seg_gen_spec. assumption. Qed.

Lemma cov_full_spec : forall st ts b, cov_full st ts b = true <-> CovFull st ts b.
Proof.
  intros st ts b. unfold cov_full, CovFull. rewrite existsb_exists. split.
  - intros [id [Hin H]]. unfold tab_full in H. destruct (tabs st id) as [t|] eqn:E; [|discriminate].
    apply andb_true_iff in H. destruct H as [H1 H2]. apply cov_has_In in H2.
    exists id, t. auto.
  - intros [id [t [Hin [E [Hg Hc]]]]]. exists id. split; [exact Hin|].
    unfold tab_full. rewrite E, Hg. cbn. apply cov_has_In. exact Hc.
Qed.

Lemma dur_pow_spec : forall st n ts b, Bounded st ->
  (dur_pow st n ts b = true <-> InSSeg st n b \/ CovFull st ts b).
Proof.
  intros. unfold dur_pow. rewrite orb_true_iff, in_sseg_spec, cov_full_spec by assumption. reflexivity.
Qed.

Lemma dur_proc_spec : forall st n ts b, Bounded st ->
  (dur_proc st n ts b = true <-> InSeg st n b \/ CovFull st ts b).
Proof.
  intros. unfold dur_proc. rewrite orb_true_iff, in_seg_spec, cov_full_spec by assumption. reflexivity.
Qed.

Lemma dp_spec : forall st b, Bounded st ->
  (dp st b = true <-> InSSeg st (mlog st) b \/ CovFull st (mtabs st) b).
Proof. intros. unfold dp. apply dur_pow_spec. assumption. Qed.

Lemma dpr_spec : forall st b, Bounded st ->
  (dpr st b = true <-> InSeg st (mlog st) b \/ CovFull st (mtabs st) b).
Proof. intros. unfold dpr. apply dur_proc_spec. assumption. Qed.

Lemma InSSeg_InSeg : forall st n b, InSSeg st n b -> InSeg st n b.
Proof.
  intros st n b [s [sg [H1 [H2 H3]]]]. exists s, sg. repeat split; auto. eapply firstn_In. exact H3.
Qed.

Lemma is_top_spec : forall st a, Bounded st -> (is_top st a = true <-> Top st a).
Proof.
  intros st a HB. unfold is_top, Top. rewrite forallb_forall. split.
  - intros H s sg E. specialize (H s). assert (Hin : In s (seq 0 (seg_hi st))) by (apply in_seq; specialize (HB s sg E); lia).
    specialize (H Hin). unfold present in H. rewrite E in H. cbn in H. apply Nat.leb_le in H. exact H.
  - intros H s _. unfold present. destruct (segs st s) as [sg|] eqn:E; cbn; [|reflexivity].
    apply Nat.leb_le. eapply H. exact E.
Qed.

(* ------------------------------------------------------------------ the invariant *)
Record Inv (st : pstate) : Prop := {
  i_hi : Bounded st;
  i_syn : forall s sg, segs st s = Some sg -> synced sg <= length (recs sg);
  i_ids : forall s sg b, segs st s = Some sg -> In b (recs sg) -> b < next st;
  i_dead : forall b, In b (dead st) -> b < next st;
  i_man : forall id, In id (mtabs st) -> exists t, tabs st id = Some t /\ tgood t = true /\ tsynced t = true;
  i_cov : forall id t b f, In id (mtabs st) -> tabs st id = Some t -> In (b, f) (cov t) ->
                           b < next st /\ alive st b = true;
  i_wseg : forall s sg b, segs st s = Some sg -> mlog st <= s -> In b (recs sg) -> alive st b = true;
  i_old : forall s s' sg sg', segs st s = Some sg -> segs st s' = Some sg' -> s < s' -> mlog st <= s ->
                              synced sg = length (recs sg) /\ tl sg <> Writing;
  i_v1 : forall b, b < next st -> alive st b = true -> dp st b = true \/ InX st b;
  i_v2 : forall b b', dp st b' = true -> b < b' -> alive st b = true -> dp st b = true;
  i_v3 : forall a sg, segs st a = Some sg -> Top st a -> mlog st <= a ->
                      incr (filter (fun b => negb (dp st b)) (urecs sg));
  i_part : forall id t b, In id (mtabs st) -> tabs st id = Some t -> In (b, false) (cov t) -> dp st b = true;
  i_np : forall b, In b (need_proc st) -> b < next st /\ alive st b = true;
  i_nw : forall b, In b (need_pow st) -> dp st b = true
}.

Lemma alive_spec : forall st b, alive st b = true <-> ~ In b (dead st).
Proof. intros. unfold alive. rewrite negb_true_iff. apply memb_false. Qed.

(* power-durable batches are logged and alive *)
Lemma dp_lt_alive : forall st b, Inv st -> dp st b = true -> b < next st /\ alive st b = true.
Proof.
  intros st b I H. apply dp_spec in H; [|apply I]. destruct H as [[s [sg [H1 [H2 H3]]]]|[id [t [H1 [H2 [H3 H4]]]]]].
  - apply firstn_In in H3. split; [eapply i_ids; eauto | eapply i_wseg; eauto].
  - eapply i_cov; eauto.
Qed.

Lemma InX_dpr : forall st b, InX st b -> InSeg st (mlog st) b.
Proof.
  intros st b [a [sg [H1 [H2 [H3 H4]]]]]. exists a, sg. repeat split; auto. eapply skipn_In. exact H4.
Qed.

Lemma dp_dpr : forall st b, Bounded st -> dp st b = true -> dpr st b = true.
Proof.
  intros st b HB H. apply dp_spec in H; auto. apply dpr_spec; auto.
  destruct H as [H|H]; [left; apply InSSeg_InSeg; exact H | right; exact H].
Qed.

(* every live logged batch is recoverable after a process crash *)
Lemma live_dpr : forall st b, Inv st -> b < next st -> alive st b = true -> dpr st b = true.
Proof.
  intros st b I H1 H2. destruct (i_v1 st I b H1 H2) as [H|H].
  - apply dp_dpr; [apply I | exact H].
  - apply dpr_spec; [apply I|]. left. apply InX_dpr. exact H.
Qed.

Lemma dpr_lt_alive : forall st b, Inv st -> dpr st b = true -> b < next st /\ alive st b = true.
Proof.
  intros st b I H. apply dpr_spec in H; [|apply I]. destruct H as [[s [sg [H1 [H2 H3]]]]|[id [t [H1 [H2 [H3 H4]]]]]].
  - split; [eapply i_ids; eauto | eapply i_wseg; eauto].
  - eapply i_cov; eauto.
Qed.

(* ------------------------------------------------------------------ frame lemmas *)
Definition SR (st : pstate) (s : nat) : list nat :=
  match segs st s with Some sg => srecs sg | None => [] end.

Lemma InSSeg_SR : forall st n b, InSSeg st n b <-> exists s, n <= s /\ In b (SR st s).
Proof.
  intros st n b. unfold InSSeg, SR. split.
  - intros [s [sg [H1 [H2 H3]]]]. exists s. rewrite H2. auto.
  - intros [s [H1 H2]]. destruct (segs st s) as [sg|] eqn:E; [|destruct H2]. exists s, sg. auto.
Qed.

Lemma bool_eq_iff : forall a b : bool, (a = true <-> b = true) -> a = b.
Proof. intros [] [] [H1 H2]; auto; try (symmetry; apply H1; reflexivity); apply H2; reflexivity. Qed.

Lemma CovFull_frame : forall st st' ts b,
  (forall id, In id ts -> tabs st' id = tabs st id) -> (CovFull st' ts b <-> CovFull st ts b).
Proof.
  intros st st' ts b H. unfold CovFull. split; intros [id [t [H1 [H2 H3]]]]; exists id, t; split; auto; split; auto.
  - rewrite <- (H id H1). exact H2.
  - rewrite (H id H1). exact H2.
Qed.

Lemma dp_frame : forall st st', Bounded st -> Bounded st' ->
  mlog st' = mlog st -> mtabs st' = mtabs st ->
  (forall id, In id (mtabs st) -> tabs st' id = tabs st id) ->
  (forall s b, mlog st <= s -> (In b (SR st' s) <-> In b (SR st s))) ->
  forall b, dp st' b = dp st b.
Proof.
  intros st st' HB HB' Hl Hm Ht Hs b. apply bool_eq_iff.
  rewrite !dp_spec by assumption. rewrite Hl, Hm. rewrite (CovFull_frame st st' (mtabs st) b Ht).
  rewrite !InSSeg_SR. split; (intros [[s [H1 H2]]|H]; [left; exists s; split; auto; apply Hs; auto | right; exact H]).
Qed.

Lemma dp_mono_frame : forall st st', Bounded st -> Bounded st' ->
  mlog st' = mlog st -> mtabs st' = mtabs st ->
  (forall id, In id (mtabs st) -> tabs st' id = tabs st id) ->
  (forall s b, mlog st <= s -> In b (SR st s) -> In b (SR st' s)) ->
  forall b, dp st b = true -> dp st' b = true.
Proof.
  intros st st' HB HB' Hl Hm Ht Hs b. rewrite !dp_spec by assumption. rewrite Hl, Hm.
  rewrite (CovFull_frame st st' (mtabs st) b Ht). rewrite !InSSeg_SR.
  intros [[s [H1 H2]]|H]; [left; exists s; split; auto | right; exact H].
Qed.

Lemma Top_unique : forall st a a' sg sg', Top st a -> Top st a' -> segs st a = Some sg -> segs st a' = Some sg' -> a = a'.
Proof. intros st a a' sg sg' H1 H2 E1 E2. specialize (H1 a' sg' E2). specialize (H2 a sg E1). lia. Qed.

Lemma not_top_ex : forall st a, Bounded st -> is_top st a = false -> exists s sg, segs st s = Some sg /\ a < s.
Proof.
  intros st a HB H. unfold is_top in H.
  assert (E : existsb (fun s' => negb (negb (present st s') || (s' <=? a))) (seq 0 (seg_hi st)) = true).
  { clear HB. induction (seq 0 (seg_hi st)) as [|x l IH]; cbn in *; [discriminate|].
    destruct (negb (present st x) || (x <=? a)); cbn in *; [apply IH; exact H | reflexivity]. }
  apply existsb_exists in E. destruct E as [s [_ E]]. apply negb_true_iff in E. apply orb_false_iff in E.
  destruct E as [E1 E2]. apply negb_false_iff in E1. unfold present in E1.
  destruct (segs st s) as [sg|] eqn:Es; [|discriminate]. exists s, sg. split; auto. apply Nat.leb_gt in E2. exact E2.
Qed.

Lemma forallb_seq_lt : forall f n, forallb f (seq 0 n) = true <-> forall b, b < n -> f b = true.
Proof.
  intros f n. rewrite forallb_forall. split; intros H b Hb; apply H; [apply in_seq; lia | apply in_seq in Hb; lia].
Qed.

(* ------------------------------------------------------------------ appends (WalPartial / Relog / WalAppend) *)
Lemma can_append_spec : forall st s, Bounded st -> can_append st s = true ->
  exists sg, segs st s = Some sg /\ Top st s /\ mlog st <= s /\ tl sg <> Garbage.
Proof.
  intros st s HB H. unfold can_append in H. destruct (segs st s) as [sg|] eqn:E; [|discriminate].
  apply andb_true_iff in H. destruct H as [H H3]. apply andb_true_iff in H. destruct H as [H1 H2].
  exists sg. repeat split; auto.
  - apply is_top_spec; assumption.
  - apply Nat.leb_le. exact H2.
  - intros Ht. rewrite Ht in H3. discriminate.
Qed.

(* the common shape: segment s0 (the top one, >= log_number) gets `ex` appended, `synced` unchanged *)
Lemma inv_append : forall st s0 sg ex t nx,
  Inv st -> segs st s0 = Some sg -> Top st s0 -> mlog st <= s0 ->
  next st <= nx ->
  (forall b, In b ex -> b < nx /\ alive st b = true) ->
  (* either everything appended is already power-durable, or it is the one new batch *)
  ((forall b, In b ex -> dp st b = true) /\ nx = next st \/ ex = [next st] /\ nx = S (next st)) ->
  Inv (mkSt (pupd (segs st) s0 (Some (mkSeg (recs sg ++ ex) (synced sg) t))) (seg_hi st) (tabs st)
            (mlog st) (mtabs st) nx (dead st) (need_proc st) (need_pow st)).
Proof.
  intros st s0 sg ex t nx I E HT HL Hnx Hex Hcase.
  set (st' := mkSt _ _ _ _ _ _ _ _ _).
  assert (HB' : Bounded st').
  { intros s sg'. cbn. unfold pupd. destruct (Nat.eqb_spec s s0); [subst; intros _; eapply (i_hi st I); eauto | apply (i_hi st I)]. }
  assert (Hsyn : synced sg <= length (recs sg)) by (eapply i_syn; eauto).
  assert (HSR : forall s b, In b (SR st' s) <-> In b (SR st s)).
  { intros s b. unfold SR. cbn. unfold pupd. destruct (Nat.eqb_spec s s0); [subst; rewrite E; unfold srecs; cbn; rewrite firstn_app_le by lia|]; reflexivity. }
  assert (Hdp : forall b, dp st' b = dp st b).
  { apply dp_frame; [apply I | exact HB' | reflexivity | reflexivity | intros; reflexivity | intros; apply HSR]. }
  assert (HTop : forall a, Top st' a <-> Top st a).
  { intros a. unfold Top. cbn. split; intros H s sg'.
    - intros Es. destruct (Nat.eq_dec s s0); [subst; eapply H; rewrite pupd_eq; reflexivity | eapply H; rewrite pupd_neq by assumption; exact Es].
    - unfold pupd. destruct (Nat.eqb_spec s s0); [subst; intros _; eapply H; exact E | apply H]. }
  assert (Hexn : forall b, In b ex -> b < nx) by (intros; apply Hex; assumption).
  constructor; cbn [segs seg_hi tabs mlog mtabs next dead need_proc need_pow st'].
  - exact HB'.
  - intros s sg'. unfold pupd. destruct (Nat.eqb_spec s s0); [intros H; inversion H; subst; cbn; rewrite app_length; lia | apply (i_syn st I)].
  - intros s sg' b. unfold pupd. destruct (Nat.eqb_spec s s0).
    + intros H; inversion H; subst; cbn. intros Hb. apply in_app_or in Hb. destruct Hb as [Hb|Hb]; [pose proof (i_ids st I s0 sg b E Hb); lia | apply Hexn; exact Hb].
    + intros H Hb. pose proof (i_ids st I s sg' b H Hb). lia.
  - intros b Hb. pose proof (i_dead st I b Hb). lia.
  - apply (i_man st I).
  - intros id t0 b f H1 H2 H3. destruct (i_cov st I id t0 b f H1 H2 H3). split; [lia | assumption].
  - intros s sg' b. unfold pupd. destruct (Nat.eqb_spec s s0).
    + intros H; inversion H; subst; cbn. intros _ Hb. apply in_app_or in Hb. destruct Hb as [Hb|Hb]; [eapply (i_wseg st I); eauto | apply Hex; exact Hb].
    + apply (i_wseg st I).
  - intros s s' sg1 sg2. unfold pupd. destruct (Nat.eqb_spec s s0); destruct (Nat.eqb_spec s' s0); subst.
    + intros _ _ Hlt. lia.
    + intros _ H2 Hlt. specialize (HT s' sg2 H2). lia.
    + intros H1 _ Hlt Hl. exact (i_old st I s s0 sg1 sg H1 E Hlt Hl).
    + intros H1 H2 Hlt Hl. exact (i_old st I s s' sg1 sg2 H1 H2 Hlt Hl).
  - (* v1 *)
    intros b Hb Ha. rewrite Hdp.
    assert (Hold : b < next st -> dp st b = true \/ InX st' b).
    { intros Hlt. destruct (i_v1 st I b Hlt Ha) as [H|[a [sga [H1 [H2 [H3 H4]]]]]]; [left; exact H|right].
      assert (a = s0) by (eapply Top_unique; eauto). subst a. rewrite E in H1. inversion H1; subst sga.
      exists s0, (mkSeg (recs sg ++ ex) (synced sg) t). split; [cbn; apply pupd_eq|]. split; [apply HTop; exact HT|]. split; [exact HL|].
      unfold urecs in *. cbn. rewrite skipn_app_le by lia. apply in_or_app. left. exact H4. }
    destruct Hcase as [[Hd Hn]|[He Hn]].
    + subst nx. apply Hold. exact Hb.
    + subst nx ex. destruct (Nat.eq_dec b (next st)) as [->|Hne]; [|apply Hold; lia]. right.
      exists s0, (mkSeg (recs sg ++ [next st]) (synced sg) t). split; [cbn; apply pupd_eq|]. split; [apply HTop; exact HT|]. split; [exact HL|].
      unfold urecs. cbn. rewrite skipn_app_le by lia. apply in_or_app. right. left. reflexivity.
  - intros b b'. rewrite !Hdp. apply (i_v2 st I).
  - (* v3 *)
    intros a sga. unfold pupd. destruct (Nat.eqb_spec a s0).
    + subst a. intros H; inversion H; subst sga; clear H. intros _ _.
      unfold urecs. cbn. rewrite skipn_app_le by lia. rewrite filter_app.
      rewrite (filter_ext_in' (fun b => negb (dp st' b)) (fun b => negb (dp st b))) by (intros; rewrite Hdp; reflexivity).
      rewrite (filter_ext_in' (fun b => negb (dp st' b)) (fun b => negb (dp st b)) ex) by (intros; rewrite Hdp; reflexivity).
      pose proof (i_v3 st I s0 sg E HT HL) as Hinc. unfold urecs in Hinc.
      destruct Hcase as [[Hd Hn]|[He Hn]].
      * replace (filter (fun b => negb (dp st b)) ex) with (@nil nat); [rewrite app_nil_r; exact Hinc|].
        symmetry. clear -Hd. induction ex as [|x ex IH]; cbn; [reflexivity|]. rewrite (Hd x (or_introl eq_refl)). cbn. apply IH. intros; apply Hd; right; assumption.
      * subst ex. apply incr_app. split; [exact Hinc|]. split; [apply incr_filter; cbn; split; [intros y []|constructor]|].
        intros x y Hx Hy. apply filter_In in Hx. destruct Hx as [Hx _]. apply skipn_In in Hx.
        pose proof (i_ids st I s0 sg x E Hx). apply filter_In in Hy. destruct Hy as [[Hy|[]] _]. lia.
    + intros H HT' HL'. apply HTop in HT'. assert (a = s0) by (eapply Top_unique; eauto). contradiction.
  - intros id t0 b H1 H2 H3. rewrite Hdp. eapply (i_part st I); eauto.
  - intros b Hb. destruct (i_np st I b Hb). split; [lia | assumption].
  - intros b Hb. rewrite Hdp. apply (i_nw st I b Hb).
Qed.

(* ------------------------------------------------------------------ fsync of a segment (WalSync / TornTailDrop) *)
Lemma inv_sync : forall st s0 sg t,
  Inv st -> segs st s0 = Some sg -> (t = tl sg \/ t = Clean) ->
  Inv (mkSt (pupd (segs st) s0 (Some (mkSeg (recs sg) (length (recs sg)) t))) (seg_hi st) (tabs st)
            (mlog st) (mtabs st) (next st) (dead st) (need_proc st) (need_pow st)).
Proof.
  intros st s0 sg t I E Ht.
  set (st' := mkSt _ _ _ _ _ _ _ _ _).
  assert (HB : Bounded st) by apply I.
  assert (HB' : Bounded st').
  { intros s sg'. cbn. unfold pupd. destruct (Nat.eqb_spec s s0); [subst; intros _; eapply HB; eauto | apply HB]. }
  assert (HSR : forall s b, In b (SR st' s) <-> In b (SR st s) \/ (s = s0 /\ In b (recs sg))).
  { intros s b. unfold SR. cbn. unfold pupd. destruct (Nat.eqb_spec s s0).
    - subst. rewrite E. unfold srecs. cbn. rewrite firstn_all. split; [intros H; right; auto | intros [H|[_ H]]; [eapply firstn_In; exact H | exact H]].
    - split; [intros H; left; exact H | intros [H|[H _]]; [exact H | contradiction]]. }
  assert (Hdp : forall b, dp st' b = true <-> dp st b = true \/ (mlog st <= s0 /\ In b (recs sg))).
  { intros b. rewrite !dp_spec by assumption. cbn [mlog mtabs st'].
    rewrite (CovFull_frame st st' (mtabs st) b) by (intros; reflexivity). rewrite !InSSeg_SR. split.
    - intros [[s [H1 H2]]|H]; [|left; right; exact H]. apply HSR in H2. destruct H2 as [H2|[-> H2]]; [left; left; exists s; auto | right; auto].
    - intros [[[s [H1 H2]]|H]|[H1 H2]]; [left; exists s; split; auto; apply HSR; left; exact H2 | right; exact H | left; exists s0; split; auto; apply HSR; right; auto]. }
  assert (Hmono : forall b, dp st b = true -> dp st' b = true) by (intros b H; apply Hdp; left; exact H).
  assert (HTop : forall a, Top st' a <-> Top st a).
  { intros a. unfold Top. cbn. split; intros H s sg'.
    - intros Es. destruct (Nat.eq_dec s s0); [subst; eapply H; rewrite pupd_eq; reflexivity | eapply H; rewrite pupd_neq by assumption; exact Es].
    - unfold pupd. destruct (Nat.eqb_spec s s0); [subst; intros _; eapply H; exact E | apply H]. }
  (* a segment that is not the top one and not below log_number is already completely fsynced *)
  assert (Hnew : forall b, mlog st <= s0 -> In b (recs sg) -> dp st b = false -> Top st s0).
  { intros b HL Hb Hn. destruct (is_top st s0) eqn:Et; [apply is_top_spec; assumption|].
    apply not_top_ex in Et; [|exact HB]. destruct Et as [s' [sg' [Es' Hlt]]].
    destruct (i_old st I s0 s' sg sg' E Es' Hlt HL) as [Hs _].
    assert (dp st b = true); [|congruence]. apply dp_spec; [exact HB|]. left. exists s0, sg. repeat split; auto.
    unfold srecs. rewrite Hs, firstn_all. exact Hb. }
  constructor; cbn [segs seg_hi tabs mlog mtabs next dead need_proc need_pow st'].
  - exact HB'.
  - intros s sg'. unfold pupd. destruct (Nat.eqb_spec s s0); [intros H; inversion H; subst; cbn; lia | apply (i_syn st I)].
  - intros s sg' b. unfold pupd. destruct (Nat.eqb_spec s s0); [intros H; inversion H; subst; cbn; apply (i_ids st I s0 sg b E) | apply (i_ids st I)].
  - apply (i_dead st I).
  - apply (i_man st I).
  - apply (i_cov st I).
  - intros s sg' b. unfold pupd. destruct (Nat.eqb_spec s s0); [intros H; inversion H; subst; cbn; apply (i_wseg st I s0 sg b E) | apply (i_wseg st I)].
  - intros s s' sg1 sg2. unfold pupd. destruct (Nat.eqb_spec s s0); destruct (Nat.eqb_spec s' s0); subst.
    + intros _ _ Hlt. lia.
    + intros H1 H2 Hlt Hl. inversion H1; subst sg1; cbn. split; [reflexivity|].
      destruct (i_old st I s0 s' sg sg2 E H2 Hlt Hl) as [_ Hw]. destruct Ht as [->| ->]; [exact Hw | discriminate].
    + intros H1 _ Hlt Hl. exact (i_old st I s s0 sg1 sg H1 E Hlt Hl).
    + intros H1 H2 Hlt Hl. exact (i_old st I s s' sg1 sg2 H1 H2 Hlt Hl).
  - (* v1 *)
    intros b Hb Ha. destruct (i_v1 st I b Hb Ha) as [H|[a [sga [H1 [H2 [H3 H4]]]]]]; [left; apply Hmono; exact H|].
    destruct (Nat.eq_dec a s0) as [->|Hne].
    + left. apply Hdp. right. split; [exact H3|]. rewrite E in H1. inversion H1; subst sga. eapply skipn_In. exact H4.
    + right. exists a, sga. split; [cbn; rewrite pupd_neq by assumption; exact H1|]. split; [apply HTop; exact H2|]. split; assumption.
  - (* v2 *)
    intros b b' Hb' Hlt Ha. apply Hdp in Hb'. destruct Hb' as [Hb'|[HL Hb']]; [apply Hmono; eapply (i_v2 st I); eauto|].
    destruct (dp st b') eqn:Ed; [apply Hmono; eapply (i_v2 st I); eauto|].
    pose proof (Hnew b' HL Hb' Ed) as HT0.
    assert (Hbn : b < next st) by (pose proof (i_ids st I s0 sg b' E Hb'); lia).
    destruct (i_v1 st I b Hbn Ha) as [H|[a [sga [H1 [H2 [H3 H4]]]]]]; [apply Hmono; exact H|].
    assert (a = s0) by (eapply Top_unique; eauto). subst a. rewrite E in H1. inversion H1; subst sga.
    apply Hdp. right. split; [exact HL|]. eapply skipn_In. exact H4.
  - (* v3 *)
    intros a sga. unfold pupd. destruct (Nat.eqb_spec a s0).
    + subst a. intros H; inversion H; subst sga; clear H. intros _ _. unfold urecs. cbn. rewrite skipn_all. cbn. constructor.
    + intros H HT' HL'. apply HTop in HT'.
      rewrite (filter_refine (fun b => negb (dp st b)) (fun b => negb (dp st' b))).
      * apply incr_filter. eapply (i_v3 st I); eauto.
      * intros x Hx. apply negb_true_iff in Hx. apply negb_true_iff. destruct (dp st x) eqn:Ex; [|reflexivity].
        rewrite (Hmono x Ex) in Hx. discriminate.
  - intros id t0 b H1 H2 H3. apply Hmono. eapply (i_part st I); eauto.
  - apply (i_np st I).
  - intros b Hb. apply Hmono. apply (i_nw st I b Hb).
Qed.

(* ------------------------------------------------------------------ acknowledgements *)
Lemma inv_need : forall st np nw,
  Inv st -> (forall b, In b np -> b < next st /\ alive st b = true) -> (forall b, In b nw -> dp st b = true) ->
  Inv (mkSt (segs st) (seg_hi st) (tabs st) (mlog st) (mtabs st) (next st) (dead st) np nw).
Proof.
  intros st np nw I H1 H2. constructor.
  - exact (i_hi st I).
  - exact (i_syn st I).
  - exact (i_ids st I).
  - exact (i_dead st I).
  - exact (i_man st I).
  - exact (i_cov st I).
  - exact (i_wseg st I).
  - exact (i_old st I).
  - exact (i_v1 st I).
  - exact (i_v2 st I).
  - exact (i_v3 st I).
  - exact (i_part st I).
  - exact H1.
  - exact H2.
Qed.

(* ------------------------------------------------------------------ table files outside the manifest *)
Lemma inv_tabs : forall st tb,
  Inv st -> (forall id, In id (mtabs st) -> tb id = tabs st id) -> Inv (set_tabs st tb).
Proof.
  intros st tb I H.
  assert (HB : Bounded st) by apply I.
  assert (HB' : Bounded (set_tabs st tb)) by exact HB.
  assert (Hdp : forall b, dp (set_tabs st tb) b = dp st b).
  { apply dp_frame; [exact HB | exact HB' | reflexivity | reflexivity | exact H | intros; reflexivity]. }
  constructor; cbn [set_tabs segs seg_hi tabs mlog mtabs next dead need_proc need_pow].
  - exact HB.
  - exact (i_syn st I).
  - exact (i_ids st I).
  - exact (i_dead st I).
  - intros id Hin. rewrite (H id Hin). apply (i_man st I id Hin).
  - intros id t b f Hin. rewrite (H id Hin). apply (i_cov st I id t b f Hin).
  - exact (i_wseg st I).
  - exact (i_old st I).
  - intros b Hb Ha. rewrite Hdp. exact (i_v1 st I b Hb Ha).
  - intros b b'. rewrite !Hdp. exact (i_v2 st I b b').
  - intros a sg H1 H2 H3.
    rewrite (filter_ext_in' (fun b => negb (dp (set_tabs st tb) b)) (fun b => negb (dp st b))) by (intros; rewrite Hdp; reflexivity).
    exact (i_v3 st I a sg H1 H2 H3).
  - intros id t b Hin. rewrite (H id Hin). rewrite Hdp. apply (i_part st I id t b Hin).
  - exact (i_np st I).
  - intros b Hb. rewrite Hdp. exact (i_nw st I b Hb).
Qed.

(* ------------------------------------------------------------------ WalRotate *)
Lemma all_synced_spec : forall st, Bounded st -> all_synced st = true ->
  forall s sg, segs st s = Some sg -> mlog st <= s -> synced sg = length (recs sg) /\ tl sg <> Writing.
Proof.
  intros st HB H s sg E HL. unfold all_synced in H. rewrite forallb_forall in H.
  specialize (H s). rewrite E in H. assert (Hin : In s (seq 0 (seg_hi st))) by (apply in_seq; specialize (HB s sg E); lia).
  specialize (H Hin). apply orb_true_iff in H. destruct H as [H|H]; [apply Nat.ltb_lt in H; lia|].
  apply andb_true_iff in H. destruct H as [H1 H2]. apply Nat.eqb_eq in H1. split; [exact H1|].
  intros Hw. rewrite Hw in H2. discriminate.
Qed.

Lemma inv_rotate : forall st s0,
  Inv st -> Top st s0 -> segs st s0 = None ->
  (forall s sg, segs st s = Some sg -> mlog st <= s -> synced sg = length (recs sg) /\ tl sg <> Writing) ->
  Inv (set_segs st (pupd (segs st) s0 (Some (mkSeg [] 0 Clean))) (Nat.max (seg_hi st) (S s0))).
Proof.
  intros st s0 I HT HN Hall.
  set (st' := set_segs _ _ _).
  assert (HB : Bounded st) by apply I.
  assert (HB' : Bounded st').
  { intros s sg'. cbn. unfold pupd. destruct (Nat.eqb_spec s s0); [subst; intros _; lia | intros H; specialize (HB s sg' H); lia]. }
  assert (Hdp : forall b, dp st' b = dp st b).
  { apply dp_frame; [exact HB | exact HB' | reflexivity | reflexivity | intros; reflexivity|].
    intros s b _. unfold SR. cbn. unfold pupd. destruct (Nat.eqb_spec s s0); [subst; rewrite HN; cbn; reflexivity | reflexivity]. }
  assert (Hlt : forall s sg, segs st s = Some sg -> s < s0).
  { intros s sg Es. specialize (HT s sg Es). assert (s <> s0) by (intros ->; congruence). lia. }
  constructor; cbn [set_segs segs seg_hi tabs mlog mtabs next dead need_proc need_pow st'].
  - exact HB'.
  - intros s sg'. unfold pupd. destruct (Nat.eqb_spec s s0); [intros H; inversion H; subst; cbn; lia | apply (i_syn st I)].
  - intros s sg' b. unfold pupd. destruct (Nat.eqb_spec s s0); [intros H; inversion H; subst; cbn; intros [] | apply (i_ids st I)].
  - exact (i_dead st I).
  - exact (i_man st I).
  - exact (i_cov st I).
  - intros s sg' b. unfold pupd. destruct (Nat.eqb_spec s s0); [intros H; inversion H; subst; cbn; intros _ [] | apply (i_wseg st I)].
  - intros s s' sg1 sg2. unfold pupd. destruct (Nat.eqb_spec s s0); destruct (Nat.eqb_spec s' s0); subst.
    + intros _ _ Hl. lia.
    + intros _ H2 Hl. specialize (Hlt s' sg2 H2). lia.
    + intros H1 _ _ Hl. exact (Hall s sg1 H1 Hl).
    + intros H1 H2 Hl Hm. exact (i_old st I s s' sg1 sg2 H1 H2 Hl Hm).
  - intros b Hb Ha. rewrite Hdp. destruct (i_v1 st I b Hb Ha) as [H|[a [sga [H1 [H2 [H3 H4]]]]]]; [left; exact H|].
    destruct (Hall a sga H1 H3) as [Hs _]. unfold urecs in H4. rewrite Hs, skipn_all in H4. destruct H4.
  - intros b b'. rewrite !Hdp. exact (i_v2 st I b b').
  - intros a sga. unfold pupd. destruct (Nat.eqb_spec a s0).
    + intros H; inversion H; subst; cbn. intros _ _. constructor.
    + intros H HT' _. specialize (Hlt a sga H). specialize (HT' s0 (mkSeg [] 0 Clean)). cbn in HT'. rewrite pupd_eq in HT'. specialize (HT' eq_refl). lia.
  - intros id t b H1 H2 H3. rewrite Hdp. exact (i_part st I id t b H1 H2 H3).
  - exact (i_np st I).
  - intros b Hb. rewrite Hdp. exact (i_nw st I b Hb).
Qed.

(* ------------------------------------------------------------------ WalUnlink *)
Lemma inv_unlink : forall st s0,
  Inv st -> s0 < mlog st -> Inv (set_segs st (pupd (segs st) s0 None) (seg_hi st)).
Proof.
  intros st s0 I Hs0.
  set (st' := set_segs _ _ _).
  assert (HB : Bounded st) by apply I.
  assert (Hsub : forall s sg, segs st' s = Some sg -> segs st s = Some sg /\ s <> s0).
  { intros s sg. cbn. unfold pupd. destruct (Nat.eqb_spec s s0); [discriminate | auto]. }
  assert (HB' : Bounded st') by (intros s sg H; apply Hsub in H; eapply HB; apply H).
  assert (Hdp : forall b, dp st' b = dp st b).
  { apply dp_frame; [exact HB | exact HB' | reflexivity | reflexivity | intros; reflexivity|].
    intros s b Hl. unfold SR. cbn. rewrite pupd_neq by lia. reflexivity. }
  constructor; cbn [set_segs segs seg_hi tabs mlog mtabs next dead need_proc need_pow st'].
  - exact HB'.
  - intros s sg H. apply Hsub in H. eapply (i_syn st I); apply H.
  - intros s sg b H. apply Hsub in H. eapply (i_ids st I); apply H.
  - exact (i_dead st I).
  - exact (i_man st I).
  - exact (i_cov st I).
  - intros s sg b H. apply Hsub in H. eapply (i_wseg st I); apply H.
  - intros s s' sg1 sg2 H1 H2. apply Hsub in H1. apply Hsub in H2. eapply (i_old st I); [apply H1 | apply H2].
  - intros b Hb Ha. rewrite Hdp. destruct (i_v1 st I b Hb Ha) as [H|[a [sga [H1 [H2 [H3 H4]]]]]]; [left; exact H|right].
    exists a, sga. split; [cbn; rewrite pupd_neq by lia; exact H1|]. split; [|split; assumption].
    intros s sg H. apply Hsub in H. eapply H2. apply H.
  - intros b b'. rewrite !Hdp. exact (i_v2 st I b b').
  - intros a sga H HT HL. apply Hsub in H. destruct H as [H Hne].
    rewrite (filter_ext_in' (fun b => negb (dp st' b)) (fun b => negb (dp st b))) by (intros; rewrite Hdp; reflexivity).
    apply (i_v3 st I a sga H); [|exact HL].
    intros s sg Es. destruct (Nat.eq_dec s s0) as [->|Hn]; [cbn in HL; lia|]. apply (HT s sg). cbn. rewrite pupd_neq by assumption. exact Es.
  - intros id t b H1 H2 H3. rewrite Hdp. exact (i_part st I id t b H1 H2 H3).
  - exact (i_np st I).
  - intros b Hb. rewrite Hdp. exact (i_nw st I b Hb).
Qed.

(* ------------------------------------------------------------------ ManifestInstall *)
Lemma recs_split_In : forall sg b, In b (recs sg) -> In b (srecs sg) \/ In b (urecs sg).
Proof.
  intros sg b H. unfold srecs, urecs. rewrite <- (firstn_skipn (synced sg) (recs sg)) in H.
  apply in_app_or in H. exact H.
Qed.

Lemma tab_cov_some : forall st id t, tabs st id = Some t -> tab_cov st id = cov t.
Proof. intros st id t H. unfold tab_cov. rewrite H. reflexivity. Qed.

Lemma inv_install : forall st n ts,
  Inv st ->
  mi_mono st n = true -> mi_p7 st ts = true -> mi_p10 st ts = true -> mi_p2 st n ts = true ->
  mi_p2s st n ts = true -> mi_p8 st n ts = true -> mi_p9 st n ts = true ->
  Inv (mkSt (segs st) (seg_hi st) (tabs st) n ts (next st) (dead st) (need_proc st) (need_pow st)).
Proof.
  intros st n ts I Hmono H7 H10 H2 H2s H8 H9.
  set (st' := mkSt _ _ _ _ _ _ _ _ _).
  assert (HB : Bounded st) by apply I.
  assert (HB' : Bounded st') by exact HB.
  apply Nat.leb_le in Hmono.
  assert (Hdp' : forall b, dp st' b = dur_pow st n ts b) by reflexivity.
  assert (P7 : forall id, In id ts -> exists t, tabs st id = Some t /\ tgood t = true /\ tsynced t = true).
  { intros id Hin. unfold mi_p7 in H7. rewrite forallb_forall in H7. specialize (H7 id Hin). unfold tab_ready in H7.
    destruct (tabs st id) as [t|]; [|discriminate]. apply andb_true_iff in H7. exists t. tauto. }
  assert (P10 : forall id t b f, In id ts -> tabs st id = Some t -> In (b, f) (cov t) -> b < next st /\ alive st b = true).
  { intros id t b f Hin Et Hc. unfold mi_p10 in H10. rewrite forallb_forall in H10. specialize (H10 id Hin).
    unfold cov_ids_ok in H10. rewrite (tab_cov_some st id t Et) in H10. rewrite forallb_forall in H10.
    specialize (H10 (b, f) Hc). cbn in H10. apply andb_true_iff in H10. destruct H10 as [Ha Hb]. apply Nat.ltb_lt in Ha. auto. }
  assert (P2 : forall b, b < next st -> alive st b = true -> dur_proc st n ts b = true).
  { intros b Hb Ha. unfold mi_p2, batches in H2. rewrite forallb_seq_lt in H2. specialize (H2 b Hb). rewrite Ha in H2. exact H2. }
  assert (P2s : forall b, dp st b = true -> dur_pow st n ts b = true).
  { intros b Hd. destruct (dp_lt_alive st b I Hd) as [Hb _]. unfold mi_p2s, batches in H2s. rewrite forallb_seq_lt in H2s.
    specialize (H2s b Hb). rewrite Hd in H2s. exact H2s. }
  assert (P8 : forall id t b, In id ts -> tabs st id = Some t -> In (b, false) (cov t) -> dur_pow st n ts b = true).
  { intros id t b Hin Et Hc. unfold mi_p8 in H8. rewrite forallb_forall in H8. specialize (H8 id Hin).
    rewrite (tab_cov_some st id t Et) in H8. rewrite forallb_forall in H8. specialize (H8 (b, false) Hc). exact H8. }
  assert (Hlt : forall b, dur_pow st n ts b = true -> b < next st).
  { intros b H. apply dur_pow_spec in H; [|exact HB]. destruct H as [[s [sg [_ [E Hb]]]]|[id [t [Hin [Et [_ Hc]]]]]].
    - eapply (i_ids st I); [exact E | eapply firstn_In; exact Hb].
    - eapply P10; eauto. }
  assert (P9 : forall b b', dur_pow st n ts b' = true -> b < b' -> alive st b = true -> dur_pow st n ts b = true).
  { intros b b' Hb' Hl Ha. unfold mi_p9, batches in H9. rewrite forallb_seq_lt in H9. specialize (H9 b' (Hlt b' Hb')).
    rewrite Hb' in H9. cbn in H9. rewrite forallb_seq_lt in H9. specialize (H9 b Hl). rewrite Ha in H9. exact H9. }
  constructor; cbn [segs seg_hi tabs mlog mtabs next dead need_proc need_pow st'].
  - exact HB.
  - exact (i_syn st I).
  - exact (i_ids st I).
  - exact (i_dead st I).
  - exact P7.
  - exact P10.
  - intros s sg b E Hl. apply (i_wseg st I s sg b E). lia.
  - intros s s' sg1 sg2 E1 E2 Hl Hm. apply (i_old st I s s' sg1 sg2 E1 E2 Hl). lia.
  - (* v1 *)
    intros b Hb Ha. rewrite Hdp'. pose proof (P2 b Hb Ha) as Hp. apply dur_proc_spec in Hp; [|exact HB].
    destruct Hp as [[s [sg [Hn [E Hin]]]]|Hc].
    + destruct (recs_split_In sg b Hin) as [Hs|Hu].
      * left. apply dur_pow_spec; [exact HB|]. left. exists s, sg. auto.
      * right. exists s, sg. split; [exact E|]. split; [|split; [exact Hn | exact Hu]].
        destruct (is_top st s) eqn:Et; [apply is_top_spec in Et; [exact Et | exact HB]|].
        apply not_top_ex in Et; [|exact HB]. destruct Et as [s' [sg' [Es' Hlt']]].
        destruct (i_old st I s s' sg sg' E Es' Hlt') as [Hsy _]; [lia|].
        unfold urecs in Hu. rewrite Hsy, skipn_all in Hu. destruct Hu.
    + left. apply dur_pow_spec; [exact HB|]. right. exact Hc.
  - intros b b'. rewrite !Hdp'. apply P9.
  - intros a sg E HT HL.
    rewrite (filter_refine (fun b => negb (dp st b)) (fun b => negb (dp st' b))).
    + apply incr_filter. apply (i_v3 st I a sg E HT). lia.
    + intros x Hx. apply negb_true_iff in Hx. apply negb_true_iff. destruct (dp st x) eqn:Ex; [|reflexivity].
      rewrite Hdp' in Hx. rewrite (P2s x Ex) in Hx. discriminate.
  - intros id t b Hin Et Hc. rewrite Hdp'. eapply P8; eauto.
  - exact (i_np st I).
  - intros b Hb. rewrite Hdp'. apply P2s. exact (i_nw st I b Hb).
Qed.

(* ------------------------------------------------------------------ process crash *)
Lemma crash_tail_nw : forall t, crash_tail t <> Writing.
Proof. intros []; cbn; discriminate. Qed.

Lemma inv_crash_proc : forall st, Inv st -> Inv (crash_proc st).
Proof.
  intros st I.
  set (st' := crash_proc st).
  assert (HB : Bounded st) by apply I.
  assert (Hsome : forall s sg', segs st' s = Some sg' ->
            exists sg, segs st s = Some sg /\ recs sg' = recs sg /\ synced sg' = synced sg /\ tl sg' = crash_tail (tl sg)).
  { intros s sg'. cbn. destruct (segs st s) as [sg|]; [|discriminate]. intros H; inversion H; subst; cbn. exists sg. auto. }
  assert (Hfw : forall s sg, segs st s = Some sg -> segs st' s = Some (mkSeg (recs sg) (synced sg) (crash_tail (tl sg)))).
  { intros s sg E. cbn. rewrite E. reflexivity. }
  assert (HB' : Bounded st') by (intros s sg' H; apply Hsome in H; destruct H as [sg [E _]]; eapply HB; exact E).
  assert (Hdp : forall b, dp st' b = dp st b).
  { apply dp_frame; [exact HB | exact HB' | reflexivity | reflexivity | intros; reflexivity|].
    intros s b _. unfold SR. cbn. destruct (segs st s); reflexivity. }
  assert (HTop : forall a, Top st' a <-> Top st a).
  { intros a. unfold Top. split; intros H s sg Es.
    - eapply H. apply Hfw. exact Es.
    - apply Hsome in Es. destruct Es as [sg0 [E _]]. eapply H. exact E. }
  constructor; cbn [crash_proc segs seg_hi tabs mlog mtabs next dead need_proc need_pow st'].
  - exact HB'.
  - intros s sg' H. apply Hsome in H. destruct H as [sg [E [Hr [Hs _]]]]. rewrite Hr, Hs. eapply (i_syn st I); exact E.
  - intros s sg' b H. apply Hsome in H. destruct H as [sg [E [Hr _]]]. rewrite Hr. eapply (i_ids st I); exact E.
  - exact (i_dead st I).
  - exact (i_man st I).
  - exact (i_cov st I).
  - intros s sg' b H. apply Hsome in H. destruct H as [sg [E [Hr _]]]. rewrite Hr. eapply (i_wseg st I); exact E.
  - intros s s' sg1 sg2 H1 H2 Hl Hm. apply Hsome in H1. apply Hsome in H2.
    destruct H1 as [g1 [E1 [Hr1 [Hs1 Ht1]]]]. destruct H2 as [g2 [E2 _]].
    destruct (i_old st I s s' g1 g2 E1 E2 Hl Hm) as [Ha _]. rewrite Hr1, Hs1, Ht1. split; [exact Ha | apply crash_tail_nw].
  - intros b Hb Ha. rewrite Hdp. destruct (i_v1 st I b Hb Ha) as [H|[a [sga [H1 [H2 [H3 H4]]]]]]; [left; exact H|right].
    exists a, (mkSeg (recs sga) (synced sga) (crash_tail (tl sga))). split; [apply Hfw; exact H1|]. split; [apply HTop; exact H2|]. split; [exact H3 | exact H4].
  - intros b b'. rewrite !Hdp. exact (i_v2 st I b b').
  - intros a sg' H HT HL. apply Hsome in H. destruct H as [sg [E [Hr [Hs _]]]].
    rewrite (filter_ext_in' (fun b => negb (dp st' b)) (fun b => negb (dp st b))) by (intros; rewrite Hdp; reflexivity).
    unfold urecs. rewrite Hr, Hs. apply (i_v3 st I a sg E); [apply HTop; exact HT | exact HL].
  - intros id t b H1 H2 H3. rewrite Hdp. exact (i_part st I id t b H1 H2 H3).
  - exact (i_np st I).
  - intros b Hb. rewrite Hdp. exact (i_nw st I b Hb).
Qed.

(* ------------------------------------------------------------------ power loss *)
Lemma keep_of_bounds : forall keep s sg, synced sg <= length (recs sg) ->
  synced sg <= keep_of keep s sg <= length (recs sg).
Proof. intros keep s sg H. unfold keep_of. destruct (assoc s keep); lia. Qed.

Definition pow1 (st : pstate) keep garb tkeep : pstate :=
  mkSt (pow_segs st keep garb) (seg_hi st) (pow_tabs st tkeep) (mlog st) (mtabs st) (next st) (dead st)
       (need_pow st) (need_pow st).

Lemma pow_segs_some : forall st keep garb s sg', pow_segs st keep garb s = Some sg' ->
  exists sg, segs st s = Some sg /\ recs sg' = firstn (keep_of keep s sg) (recs sg) /\ synced sg' = keep_of keep s sg /\ tl sg' <> Writing.
Proof.
  intros st keep garb s sg'. unfold pow_segs. destruct (segs st s) as [sg|]; [|discriminate].
  intros H; inversion H; subst; cbn. exists sg. repeat split; auto. destruct (memb s garb); discriminate.
Qed.

Lemma pow_segs_fw : forall st keep garb s sg, segs st s = Some sg ->
  exists sg', pow_segs st keep garb s = Some sg' /\ recs sg' = firstn (keep_of keep s sg) (recs sg) /\ synced sg' = keep_of keep s sg.
Proof. intros st keep garb s sg E. unfold pow_segs. rewrite E. eexists. split; [reflexivity|]. cbn. auto. Qed.

Lemma firstn_firstn_In : forall (l : list nat) n m x, n <= m -> In x (firstn n l) -> In x (firstn m l).
Proof.
  intros l n m x H Hin. replace n with (Nat.min n m) in Hin by lia. rewrite <- firstn_firstn in Hin. eapply firstn_In. exact Hin.
Qed.

Lemma pow_manifest_tabs : forall st tkeep id, Inv st -> In id (mtabs st) -> pow_tabs st tkeep id = tabs st id.
Proof.
  intros st tkeep id I Hin. destruct (i_man st I id Hin) as [t [E [_ Hs]]]. unfold pow_tabs. rewrite E, Hs. reflexivity.
Qed.

Section PowerLoss.
  Variable st : pstate.
  Variables (keep : list (nat * nat)) (garb tkeep : list nat).
  Hypothesis I : Inv st.
  Let st1 := pow1 st keep garb tkeep.
  Let st' := crash_pow st keep garb tkeep.

  Lemma pow_bounded1 : Bounded st1.
  Proof. intros s sg' H. apply pow_segs_some in H. destruct H as [sg [E _]]. eapply (i_hi st I); exact E. Qed.

  Lemma pow_dp_mono : forall b, dp st b = true -> dp st1 b = true.
  Proof.
    intros b H. apply dp_spec in H; [|apply I]. apply dp_spec; [apply pow_bounded1|].
    destruct H as [[s [sg [H1 [H2 H3]]]]|[id [t [H1 [H2 [H3 H4]]]]]].
    - left. destruct (pow_segs_fw st keep garb s sg H2) as [sg' [E' [Hr Hs]]]. exists s, sg'. split; [exact H1|]. split; [exact E'|].
      pose proof (keep_of_bounds keep s sg (i_syn st I s sg H2)) as Hk.
      unfold srecs in *. rewrite Hr, Hs. rewrite firstn_firstn. replace (Nat.min (keep_of keep s sg) (keep_of keep s sg)) with (keep_of keep s sg) by lia.
      eapply firstn_firstn_In; [|exact H3]. lia.
    - right. exists id, t. split; [exact H1|]. split; [|auto]. cbn. rewrite (pow_manifest_tabs st tkeep id I H1). exact H2.
  Qed.

  (* after a power loss everything that is left is on the disk *)
  Lemma pow_dpr_dp : forall b, dpr st1 b = true -> dp st1 b = true.
  Proof.
    intros b H. apply dpr_spec in H; [|apply pow_bounded1]. apply dp_spec; [apply pow_bounded1|].
    destruct H as [[s [sg' [H1 [H2 H3]]]]|H]; [left|right; exact H].
    exists s, sg'. split; [exact H1|]. split; [exact H2|]. pose proof H2 as H2'. apply pow_segs_some in H2'.
    destruct H2' as [sg [E [Hr [Hs _]]]]. unfold srecs. rewrite Hs. rewrite Hr in *.
    rewrite firstn_firstn. replace (Nat.min (keep_of keep s sg) (keep_of keep s sg)) with (keep_of keep s sg) by lia. exact H3.
  Qed.

  Lemma pow_dp_lt : forall b, dp st1 b = true -> b < next st.
  Proof.
    intros b H. apply dp_spec in H; [|apply pow_bounded1]. destruct H as [[s [sg' [H1 [H2 H3]]]]|[id [t [H1 [H2 [H3 H4]]]]]].
    - apply pow_segs_some in H2. destruct H2 as [sg [E [Hr _]]]. unfold srecs in H3. apply firstn_In in H3. rewrite Hr in H3.
      apply firstn_In in H3. exact (i_ids st I s sg b E H3).
    - cbn in H2. rewrite (pow_manifest_tabs st tkeep id I H1) in H2. eapply (i_cov st I); eauto.
  Qed.

  Lemma pow_alive : forall b, alive st' b = true <-> alive st b = true /\ (b < next st -> dpr st1 b = true).
  Proof.
    intros b. rewrite !alive_spec. unfold st', crash_pow. cbn [dead]. fold (pow1 st keep garb tkeep). fold st1. split.
    - intros H. split; [intros Hd; apply H; apply in_or_app; left; exact Hd|].
      intros Hb. destruct (dpr st1 b) eqn:Ed; [reflexivity|]. exfalso. apply H. apply in_or_app. right.
      apply filter_In. split; [apply in_seq; lia|]. rewrite Ed. cbn. rewrite andb_true_r. apply alive_spec.
      intros Hd. apply H. apply in_or_app. left. exact Hd.
    - intros [H1 H2] Hin. apply in_app_or in Hin. destruct Hin as [Hin|Hin]; [contradiction|].
      apply filter_In in Hin. destruct Hin as [Hs Hf]. apply in_seq in Hs. rewrite (H2 ltac:(lia)) in Hf. cbn in Hf.
      rewrite andb_false_r in Hf. discriminate.
  Qed.

  Lemma inv_crash_pow : Inv st'.
  Proof.
    assert (HB1 : Bounded st1) by apply pow_bounded1.
    assert (Hdp' : forall b, dp st' b = dp st1 b) by reflexivity.
    assert (Hal : forall b, alive st b = true -> dpr st1 b = true -> alive st' b = true).
    { intros b H1 H2. apply pow_alive. auto. }
    assert (Hlive : forall b, b < next st -> alive st' b = true -> dp st1 b = true).
    { intros b Hb Ha. apply pow_alive in Ha. apply pow_dpr_dp. apply Ha. exact Hb. }
    constructor.
    - exact HB1.
    - intros s sg' H. apply pow_segs_some in H. destruct H as [sg [E [Hr [Hs _]]]]. rewrite Hr, Hs.
      pose proof (keep_of_bounds keep s sg (i_syn st I s sg E)). rewrite firstn_length. lia.
    - intros s sg' b H. apply pow_segs_some in H. destruct H as [sg [E [Hr _]]]. rewrite Hr. intros Hb.
      apply firstn_In in Hb. exact (i_ids st I s sg b E Hb).
    - intros b. unfold st', crash_pow. cbn [dead next]. intros Hin. apply in_app_or in Hin. destruct Hin as [Hin|Hin]; [exact (i_dead st I b Hin)|].
      apply filter_In in Hin. destruct Hin as [Hs _]. apply in_seq in Hs. lia.
    - intros id Hin. change (tabs st' id) with (pow_tabs st tkeep id). rewrite (pow_manifest_tabs st tkeep id I Hin). exact (i_man st I id Hin).
    - intros id t b f Hin. change (tabs st' id) with (pow_tabs st tkeep id). rewrite (pow_manifest_tabs st tkeep id I Hin).
      intros Et Hc. destruct (i_cov st I id t b f Hin Et Hc) as [Hb Ha]. split; [exact Hb|]. apply Hal; [exact Ha|].
      destruct (i_man st I id Hin) as [t0 [Et0 [Hg _]]]. rewrite Et in Et0. inversion Et0; subst t0.
      destruct f.
      + apply dpr_spec; [exact HB1|]. right. exists id, t. split; [exact Hin|]. split; [cbn; rewrite (pow_manifest_tabs st tkeep id I Hin); exact Et|]. auto.
      + apply dp_dpr; [exact HB1|]. apply pow_dp_mono. exact (i_part st I id t b Hin Et Hc).
    - intros s sg' b H HL Hb. pose proof H as H0. apply pow_segs_some in H. destruct H as [sg [E [Hr _]]].
      apply Hal.
      + apply (i_wseg st I s sg b E HL). rewrite Hr in Hb. eapply firstn_In. exact Hb.
      + apply dpr_spec; [exact HB1|]. left. exists s, sg'. auto.
    - intros s s' sg1 sg2 H1 _ _ _. apply pow_segs_some in H1. destruct H1 as [sg [E [Hr [Hs Ht]]]]. split; [|exact Ht].
      rewrite Hr, Hs. pose proof (keep_of_bounds keep s sg (i_syn st I s sg E)). rewrite firstn_length. lia.
    - intros b Hb Ha. left. rewrite Hdp'. apply Hlive; assumption.
    - intros b b' Hb' Hl Ha. rewrite Hdp' in *. apply Hlive; [|exact Ha].
      pose proof (pow_dp_lt b' Hb'). lia.
    - intros a sg' H _ _. apply pow_segs_some in H. destruct H as [sg [E [Hr [Hs _]]]]. unfold urecs. rewrite Hr, Hs.
      rewrite skipn_all2; [constructor|]. rewrite firstn_length. lia.
    - intros id t b Hin. change (tabs st' id) with (pow_tabs st tkeep id). rewrite (pow_manifest_tabs st tkeep id I Hin).
      intros Et Hc. rewrite Hdp'. apply pow_dp_mono. exact (i_part st I id t b Hin Et Hc).
    - intros b Hb. change (need_proc st') with (need_pow st) in Hb. pose proof (i_nw st I b Hb) as Hd.
      destruct (dp_lt_alive st b I Hd) as [Hl Ha]. split; [exact Hl|]. apply Hal; [exact Ha|].
      apply dp_dpr; [exact HB1|]. apply pow_dp_mono. exact Hd.
    - intros b Hb. change (need_pow st') with (need_pow st) in Hb. rewrite Hdp'. apply pow_dp_mono. exact (i_nw st I b Hb).
  Qed.
End PowerLoss.

(* ------------------------------------------------------------------ one step *)
Lemma inv0 : Inv st0.
Proof.
  constructor; cbn; try (intros; discriminate); try (intros; contradiction); try (intros; lia).
Qed.

Ltac split_andb H :=
  repeat match goal with
         | [ H0 : (_ && _) = true |- _ ] => let H1 := fresh H in apply andb_true_iff in H0; destruct H0 as [H0 H1]
         | [ H0 : true = true |- _ ] => clear H0
         end.

Lemma inv_step : forall st e, Inv st -> okb st e = true -> Inv (papply st e).
Proof.
  intros st e I Hok. assert (HB : Bounded st) by apply I.
  destruct e as [s|s|s b|s b|s|b d| |id c|id|n ts|s|id|s|c]; unfold okb in Hok; cbn [obligations forallb fst] in Hok;
    rewrite ?andb_true_r in Hok; rewrite ?andb_true_iff in Hok; cbn [papply].
  - (* WalRotate *)
    destruct Hok as [[H1 H2] H3]. apply is_top_spec in H1; [|exact HB]. apply negb_true_iff in H2. unfold present in H2.
    destruct (segs st s) eqn:E; [discriminate|]. apply inv_rotate; auto. apply all_synced_spec; assumption.
  - (* WalPartial *)
    destruct (can_append_spec st s HB Hok) as [sg [E [HT [HL _]]]]. unfold map_seg. rewrite E. unfold set_segs.
    replace (recs sg) with (recs sg ++ []) by apply app_nil_r.
    apply inv_append; auto; try (intros b []); try (left; split; [intros b []|reflexivity]).
  - (* WalAppend *)
    destruct Hok as [H1 H2]. apply Nat.eqb_eq in H1. subst b. destruct (can_append_spec st s HB H2) as [sg [E [HT [HL _]]]].
    unfold map_seg. rewrite E. unfold set_segs. cbn [segs seg_hi tabs mlog mtabs next dead need_proc need_pow].
    apply inv_append; auto.
    intros b [<-|[]]. split; [lia|]. apply alive_spec. intros Hd. pose proof (i_dead st I _ Hd). lia.
  - (* Relog *)
    destruct Hok as [H1 [H2 H3]]. apply Nat.ltb_lt in H1. destruct (can_append_spec st s HB H3) as [sg [E [HT [HL _]]]].
    unfold map_seg. rewrite E. unfold set_segs. apply inv_append; auto.
    + intros b' [<-|[]]. apply dp_lt_alive; assumption.
    + left. split; [|reflexivity]. intros b' [<-|[]]. exact H2.
  - (* WalSync *)
    unfold map_seg. destruct (segs st s) as [sg|] eqn:E; [|exact I]. unfold set_segs. apply inv_sync; auto.
  - (* Ack *)
    destruct Hok as [H1 [H2 H3]]. apply Nat.ltb_lt in H1. apply inv_need; [exact I | |].
    + intros b' [<-|H]; [auto | exact (i_np st I b' H)].
    + destruct d; [intros b' [<-|H]; [exact H3 | exact (i_nw st I b' H)] | exact (i_nw st I)].
  - (* AckSync *)
    rewrite forallb_forall in Hok. apply inv_need; [exact I | exact (i_np st I) |].
    intros b H. apply in_app_or in H. destruct H as [H|H]; [apply Hok; exact H | exact (i_nw st I b H)].
  - (* TableWrite *)
    rename Hok into H2. apply negb_true_iff in H2. apply memb_false in H2. apply inv_tabs; [exact I|].
    intros id' Hin. rewrite pupd_neq; [reflexivity | intros ->; contradiction].
  - (* TableSync *)
    apply negb_true_iff in Hok. apply memb_false in Hok. destruct (tabs st id) as [t|]; [|exact I].
    apply inv_tabs; [exact I|]. intros id' Hin. rewrite pupd_neq; [reflexivity | intros ->; contradiction].
  - (* ManifestInstall *)
    destruct Hok as [H1 [H2 [H3 [H4 [H5 [H6 H7]]]]]]. apply inv_install; assumption.
  - (* WalUnlink *)
    apply Nat.ltb_lt in Hok. apply inv_unlink; assumption.
  - (* TableUnlink *)
    apply negb_true_iff in Hok. apply memb_false in Hok. apply inv_tabs; [exact I|].
    intros id' Hin. rewrite pupd_neq; [reflexivity | intros ->; contradiction].
  - (* TornTailDrop *)
    unfold map_seg. destruct (segs st s) as [sg|] eqn:E; [|exact I]. unfold set_segs. apply inv_sync; auto.
  - (* Crash *)
    destruct c as [|keep garb tkeep]; cbn [do_crash]; [apply inv_crash_proc | apply inv_crash_pow]; exact I.
Qed.

Lemma inv_run_from : forall sigma st, Inv st -> okb_from st sigma = true -> Inv (run_from st sigma).
Proof.
  induction sigma as [|e r IH]; intros st I H; cbn in *; [exact I|].
  apply andb_true_iff in H. destruct H as [H1 H2]. apply IH; [apply inv_step; assumption | exact H2].
Qed.

Lemma okb_from_app : forall s1 s2 st, okb_from st (s1 ++ s2) = okb_from st s1 && okb_from (run_from st s1) s2.
Proof.
  induction s1 as [|e r IH]; intros s2 st; cbn; [reflexivity|]. rewrite IH. rewrite andb_assoc. reflexivity.
Qed.

Lemma run_from_app : forall s1 s2 st, run_from st (s1 ++ s2) = run_from (run_from st s1) s2.
Proof. intros. unfold run_from. apply fold_left_app. Qed.

Theorem proto_ok_prefix : proto_ok_prefix_stmt.
Proof.
  intros sigma n H. unfold proto_okb in *. rewrite <- (firstn_skipn n sigma) in H. rewrite okb_from_app in H.
  apply andb_true_iff in H. apply H.
Qed.

Lemma inv_prefix : forall sigma n, proto_okb sigma = true -> Inv (prun (firstn n sigma)).
Proof. intros sigma n H. apply inv_run_from; [exact inv0 | apply proto_ok_prefix; exact H]. Qed.

(* ------------------------------------------------------------------ what recovery reads *)
Lemma tabs_ok_inv : forall st, Inv st -> tabs_ok st = true.
Proof.
  intros st I. unfold tabs_ok. apply forallb_forall. intros id Hin.
  destruct (i_man st I id Hin) as [t [E [Hg _]]]. rewrite E. exact Hg.
Qed.

Lemma recover_inv : forall st, Inv st ->
  exists l, recover st = Some l /\
            (forall b, In (b, true) l <-> dpr st b = true) /\
            (forall b, In (b, false) l -> dp st b = true) /\
            (forall b f, In (b, f) l -> b < next st).
Proof.
  intros st I. unfold recover. rewrite (tabs_ok_inv st I). eexists. split; [reflexivity|].
  assert (HB : Bounded st) by apply I.
  assert (Htab : forall b f, In (b, f) (flat_map (tab_cov st) (mtabs st)) <->
                 exists id t, In id (mtabs st) /\ tabs st id = Some t /\ In (b, f) (cov t)).
  { intros b f. rewrite in_flat_map. split.
    - intros [id [Hin Hc]]. unfold tab_cov in Hc. destruct (tabs st id) as [t|] eqn:E; [|destruct Hc]. exists id, t. auto.
    - intros [id [t [Hin [E Hc]]]]. exists id. split; [exact Hin|]. unfold tab_cov. rewrite E. exact Hc. }
  assert (Hseg : forall b f, In (b, f) (map (fun b => (b, true)) (flat_map (seg_recs st) (seq (mlog st) (seg_hi st - mlog st)))) <->
                 f = true /\ InSeg st (mlog st) b).
  { intros b f. rewrite in_map_iff. split.
    - intros [x [Hx Hin]]. inversion Hx; subst. split; [reflexivity|]. apply in_flat_map in Hin. destruct Hin as [s [Hs Hr]].
      apply in_seq in Hs. unfold seg_recs in Hr. destruct (segs st s) as [sg|] eqn:E; [|destruct Hr]. exists s, sg. split; [lia|auto].
    - intros [-> [s [sg [Hl [E Hin]]]]]. exists b. split; [reflexivity|]. apply in_flat_map. exists s. split.
      + apply in_seq. specialize (HB s sg E). lia.
      + unfold seg_recs. rewrite E. exact Hin. }
  split; [|split].
  - intros b. rewrite in_app_iff, Htab, Hseg. rewrite dpr_spec by exact HB. split.
    + intros [[id [t [Hin [E Hc]]]]|[_ H]]; [right|left; exact H]. destruct (i_man st I id Hin) as [t0 [E0 [Hg _]]].
      rewrite E in E0. inversion E0; subst t0. exists id, t. auto.
    + intros [H|[id [t [Hin [E [_ Hc]]]]]]; [right; auto | left; exists id, t; auto].
  - intros b. rewrite in_app_iff, Htab, Hseg. intros [[id [t [Hin [E Hc]]]]|[H _]]; [|discriminate].
    exact (i_part st I id t b Hin E Hc).
  - intros b f. rewrite in_app_iff, Htab, Hseg. intros [[id [t [Hin [E Hc]]]]|[_ [s [sg [_ [E Hin]]]]]].
    + eapply (i_cov st I); eauto.
    + eapply (i_ids st I); eauto.
Qed.

Lemma dpr_iff_live : forall st b, Inv st -> (dpr st b = true <-> b < next st /\ alive st b = true).
Proof.
  intros st b I. split; [apply dpr_lt_alive; exact I | intros [H1 H2]; apply live_dpr; assumption].
Qed.

Lemma inv_crash : forall st c, Inv st -> Inv (do_crash st c).
Proof. intros st c I. apply (inv_step st (Crash c) I). reflexivity. Qed.

(* ------------------------------------------------------------------ C02 *)
Theorem durable_after_crash : durable_after_crash_stmt.
Proof.
  intros sigma Hok n c st. pose proof (inv_prefix sigma n Hok) as I. fold st in I.
  pose proof (inv_crash st c I) as I'. destruct (recover_inv _ I') as [l [Hr [Hfull _]]].
  exists l. split; [exact Hr|]. intros b Hb. apply Hfull. destruct c as [|keep garb tkeep]; cbn [required] in Hb.
  - destruct (i_np _ I' b Hb) as [H1 H2]. apply live_dpr; assumption.
  - apply dp_dpr; [apply I'|]. apply (i_nw _ I' b). exact Hb.
Qed.

(* ------------------------------------------------------------------ C03 *)
Lemma least_ex : forall (P : nat -> bool) n,
  (forall b, b < n -> P b = false) \/ exists m, m < n /\ P m = true /\ forall b, b < m -> P b = false.
Proof.
  intros P. induction n as [|n IH]; [left; intros; lia|].
  destruct IH as [H|[m [H1 [H2 H3]]]].
  - destruct (P n) eqn:E.
    + right. exists n. split; [lia|]. split; [exact E | exact H].
    + left. intros b Hb. destruct (Nat.eq_dec b n) as [->|]; [exact E | apply H; lia].
  - right. exists m. split; [lia|]. auto.
Qed.

Lemma firstn_add_split : forall (l : list nat) n m, firstn (n + m) l = firstn n l ++ firstn m (skipn n l).
Proof.
  intros l n. revert l. induction n as [|n IH]; intros l m; cbn; [reflexivity|].
  destruct l as [|x l]; [rewrite firstn_nil; reflexivity|]. cbn. f_equal. apply IH.
Qed.

Section PowerPrefix.
  Variable st : pstate.
  Variables (keep : list (nat * nat)) (garb tkeep : list nat).
  Hypothesis I : Inv st.
  Let st1 := pow1 st keep garb tkeep.

  (* what a power loss keeps: the power-durable batches, and a prefix of the not yet fsynced records
     of the highest segment *)
  Definition KeptTail (b : nat) : Prop :=
    exists a sg, segs st a = Some sg /\ Top st a /\ mlog st <= a /\
                 In b (firstn (keep_of keep a sg - synced sg) (urecs sg)).

  Lemma pow_dpr_char : forall b, dpr st1 b = true <-> dp st b = true \/ KeptTail b.
  Proof.
    assert (HB : Bounded st) by apply I. assert (HB1 : Bounded st1) by (apply pow_bounded1; exact I).
    intros b. split.
    - intros H. apply dpr_spec in H; [|exact HB1]. destruct H as [[s [sg' [Hl [E' Hin]]]]|[id [t [Hin [E Hc]]]]].
      + apply pow_segs_some in E'. destruct E' as [sg [E [Hr _]]]. rewrite Hr in Hin.
        pose proof (keep_of_bounds keep s sg (i_syn st I s sg E)) as Hk.
        replace (keep_of keep s sg) with (synced sg + (keep_of keep s sg - synced sg)) in Hin by lia.
        rewrite firstn_add_split in Hin. apply in_app_or in Hin. destruct Hin as [Hin|Hin].
        * left. apply dp_spec; [exact HB|]. left. exists s, sg. auto.
        * right. exists s, sg. split; [exact E|]. split; [|split; [exact Hl | exact Hin]].
          destruct (is_top st s) eqn:Et; [apply is_top_spec in Et; [exact Et | exact HB]|].
          apply not_top_ex in Et; [|exact HB]. destruct Et as [s' [sg2 [Es' Hlt]]].
          destruct (i_old st I s s' sg sg2 E Es' Hlt Hl) as [Hsy _]. rewrite Hsy, skipn_all, firstn_nil in Hin. destruct Hin.
      + left. apply dp_spec; [exact HB|]. right. exists id, t. split; [exact Hin|]. split; [|exact Hc].
        cbn in E. rewrite (pow_manifest_tabs st tkeep id I Hin) in E. exact E.
    - intros [H|[a [sg [E [HT [HL Hin]]]]]].
      + apply dp_dpr; [exact HB1|]. apply pow_dp_mono; assumption.
      + apply dpr_spec; [exact HB1|]. left. destruct (pow_segs_fw st keep garb a sg E) as [sg' [E' [Hr _]]].
        exists a, sg'. split; [exact HL|]. split; [exact E'|]. rewrite Hr.
        pose proof (keep_of_bounds keep a sg (i_syn st I a sg E)) as Hk.
        replace (keep_of keep a sg) with (synced sg + (keep_of keep a sg - synced sg)) at 1 by lia.
        rewrite firstn_add_split. apply in_or_app. right. exact Hin.
  Qed.

  Lemma pow_prefix : exists m, m <= next st /\ forall b, dpr st1 b = true <-> (b < m /\ alive st b = true).
  Proof.
    assert (HB : Bounded st) by apply I.
    assert (Hal : forall b, dpr st1 b = true -> b < next st /\ alive st b = true).
    { intros b H. apply pow_dpr_char in H. destruct H as [H|[a [sg [E [HT [HL Hin]]]]]]; [apply dp_lt_alive; assumption|].
      apply firstn_In in Hin. apply skipn_In in Hin. split; [eapply (i_ids st I); eauto | eapply (i_wseg st I); eauto]. }
    destruct (least_ex (fun b => alive st b && negb (dpr st1 b)) (next st)) as [Hnone|[m [Hm [HP Hleast]]]].
    - exists (next st). split; [lia|]. intros b. split; [apply Hal|]. intros [Hb Ha]. specialize (Hnone b Hb). cbn in Hnone.
      rewrite Ha in Hnone. cbn in Hnone. apply negb_false_iff in Hnone. exact Hnone.
    - exists m. split; [lia|]. apply andb_true_iff in HP. destruct HP as [Hma Hmd]. apply negb_true_iff in Hmd.
      intros b. split.
      + intros Hb. destruct (Hal b Hb) as [Hbn Hba]. split; [|exact Hba].
        destruct (Nat.lt_ge_cases b m) as [Hlt|Hge]; [exact Hlt|]. exfalso.
        assert (Hmn : dp st m = false).
        { destruct (dp st m) eqn:Ed; [|reflexivity]. assert (dpr st1 m = true) by (apply pow_dpr_char; left; exact Ed). congruence. }
        apply pow_dpr_char in Hb. destruct Hb as [Hb|[a [sg [E [HT [HL Hin]]]]]].
        * destruct (Nat.eq_dec b m) as [->|Hne]; [congruence|].
          assert (dp st m = true) by (apply (i_v2 st I m b Hb); [lia | exact Hma]). congruence.
        * destruct (dp st b) eqn:Edb.
          { destruct (Nat.eq_dec b m) as [->|Hne]; [congruence|].
            assert (dp st m = true) by (apply (i_v2 st I m b Edb); [lia | exact Hma]). congruence. }
          destruct (i_v1 st I m Hm Hma) as [Hd|[a' [sg' [E' [HT' [HL' Hin']]]]]]; [congruence|].
          assert (a' = a) by (eapply Top_unique; eauto). subst a'. rewrite E in E'. inversion E'; subst sg'.
          pose proof (i_v3 st I a sg E HT HL) as Hinc.
          rewrite <- (firstn_skipn (keep_of keep a sg - synced sg) (urecs sg)) in Hinc, Hin'.
          rewrite filter_app in Hinc. apply incr_app in Hinc. destruct Hinc as [_ [_ Hord]].
          apply in_app_or in Hin'. destruct Hin' as [Hin'|Hin'].
          { assert (dpr st1 m = true) by (apply pow_dpr_char; right; exists a, sg; auto). congruence. }
          assert (b < m); [|lia]. apply Hord; apply filter_In; split; auto; [rewrite Edb | rewrite Hmn]; reflexivity.
      + intros [Hb Ha]. specialize (Hleast b Hb). cbn in Hleast. rewrite Ha in Hleast. cbn in Hleast.
        apply negb_false_iff in Hleast. exact Hleast.
  Qed.
End PowerPrefix.

Theorem recover_is_prefix : recover_is_prefix_stmt.
Proof.
  intros sigma Hok n c st. pose proof (inv_prefix sigma n Hok) as I. fold st in I.
  pose proof (inv_crash st c I) as I'. destruct (recover_inv _ I') as [l [Hr [Hfull [Hpart _]]]].
  assert (Hp : forall b, In (b, false) l -> In (b, true) l).
  { intros b Hb. apply Hfull. apply dp_dpr; [apply I'|]. apply Hpart. exact Hb. }
  destruct c as [|keep garb tkeep].
  - exists l, (next st). split; [exact Hr|]. split; [lia|]. split; [|split; [exact Hp | reflexivity]].
    intros b. rewrite Hfull. rewrite (dpr_iff_live _ b I'). reflexivity.
  - destruct (pow_prefix st keep garb tkeep I) as [m [Hm Hchar]].
    exists l, m. split; [exact Hr|]. split; [exact Hm|]. split; [|split; [exact Hp | discriminate]].
    intros b. rewrite Hfull. exact (Hchar b).
Qed.

(* ------------------------------------------------------------------ C07 *)
Lemma recovery_plain_ok : forall st, okb_from st (recovery_plain st) = true.
Proof.
  intros st. unfold recovery_plain. destruct (top_of st (seg_hi st)) as [a|]; [|reflexivity].
  destruct (segs st a) as [sg|] eqn:E; [|reflexivity].
  destruct ((mlog st <=? a) && tail_eqb (tl sg) Garbage) eqn:Ec; [|reflexivity].
  apply andb_true_iff in Ec. destruct Ec as [_ Ht]. cbn. unfold okb. cbn. rewrite E.
  destruct (tl sg); try discriminate. reflexivity.
Qed.

Lemma recovery_plain_shape : forall st, recovery_plain st = [] \/ exists a, recovery_plain st = [TornTailDrop a].
Proof.
  intros st. unfold recovery_plain. destruct (top_of st (seg_hi st)) as [a|]; [|left; reflexivity].
  destruct (segs st a) as [sg|]; [|left; reflexivity].
  destruct ((mlog st <=? a) && tail_eqb (tl sg) Garbage); [right; exists a; reflexivity | left; reflexivity].
Qed.

Lemma ttd_next_dead : forall st a, next (papply st (TornTailDrop a)) = next st /\ dead (papply st (TornTailDrop a)) = dead st.
Proof. intros st a. cbn. unfold map_seg. destruct (segs st a); split; reflexivity. Qed.

Theorem reopen_ok : reopen_ok_stmt.
Proof.
  intros sigma Hok n c st. pose proof (inv_prefix sigma n Hok) as I0.
  pose proof (inv_crash _ c I0) as I. fold st in I.
  destruct (recover_inv _ I) as [l [Hr [Hfull [_ Hlt]]]].
  exists l. split; [exact Hr|]. split; [exact Hlt|]. split; [apply recovery_plain_ok|].
  intros k.
  set (stk := run_from st (firstn k (recovery_plain st))).
  assert (Ik : Inv stk /\ next stk = next st /\ dead stk = dead st).
  { unfold stk. destruct (recovery_plain_shape st) as [->|[a Ha]].
    - rewrite firstn_nil. cbn. auto.
    - pose proof (recovery_plain_ok st) as Hrp. rewrite Ha in *. destruct k as [|k]; cbn [firstn]; [cbn; auto|].
      rewrite firstn_nil. cbn [run_from fold_left]. cbn in Hrp. rewrite andb_true_r in Hrp.
      split; [apply inv_step; assumption | apply ttd_next_dead]. }
  destruct Ik as [Ik [Hn Hd]].
  pose proof (inv_crash_proc stk Ik) as Ic. destruct (recover_inv _ Ic) as [l' [Hr' [Hfull' _]]].
  exists l'. split; [exact Hr'|]. intros b. rewrite Hfull, Hfull'. rewrite (dpr_iff_live _ b I), (dpr_iff_live _ b Ic).
  unfold alive. cbn [crash_proc next dead]. rewrite Hn, Hd. reflexivity.
Qed.

(* ------------------------------------------------------------------ composition over sessions *)
Theorem generations_compose : generations_compose_stmt.
Proof.
  intros sigma c sigma2 Hok st H2. unfold proto_okb in *.
  rewrite okb_from_app. rewrite Hok. cbn [andb okb_from]. unfold okb at 1. cbn [obligations forallb andb].
  change (papply (run_from st0 sigma) (Crash c)) with st.
  rewrite okb_from_app. rewrite recovery_plain_ok. exact H2.
Qed.

(* ------------------------------------------------------------------ refutations (Crash/ProtoRefute.v) *)
From SKV Require Import Crash.ProtoRefute.
Lemma compaction_unsynced_refuted : compaction_unsynced_refuted_stmt. Proof. vm_compute. reflexivity. Qed.
Lemma arena_full_unlink_refuted : arena_full_unlink_refuted_stmt. Proof. vm_compute. reflexivity. Qed.
Lemma partial_batch_refuted : partial_batch_refuted_stmt. Proof. vm_compute. reflexivity. Qed.
Lemma relog_accepted : relog_accepted_stmt. Proof. vm_compute. split; reflexivity. Qed.
Lemma split_marked_flushed_refuted : split_marked_flushed_refuted_stmt. Proof. vm_compute. reflexivity. Qed.
Lemma flush_before_relog_refuted : flush_before_relog_refuted_stmt. Proof. vm_compute. reflexivity. Qed.
Lemma recovery_piece_unsynced_old_recovery_refuted : recovery_piece_unsynced_old_recovery_refuted_stmt. Proof. vm_compute. split; reflexivity. Qed.
Lemma recovery_nonlast_split_old_recovery_refuted : recovery_nonlast_split_old_recovery_refuted_stmt. Proof. vm_compute. reflexivity. Qed.
Lemma p9_needed : p9_needed_stmt. Proof. vm_compute. reflexivity. Qed.
Lemma p2s_needed : p2s_needed_stmt. Proof. vm_compute. reflexivity. Qed.
Lemma p3_needed : p3_needed_stmt. Proof. vm_compute. reflexivity. Qed.
Lemma p4_needed : p4_needed_stmt. Proof. vm_compute. reflexivity. Qed.
Lemma p5_rejected : p5_rejected_stmt. Proof. vm_compute. reflexivity. Qed.

(* ------------------------------------------------------------------ recovery's piece flush *)
Theorem power_loss_on_disk : power_loss_on_disk_stmt.
Proof.
  intros sigma keep garb tkeep Hok s sg' H _.
  assert (I : Inv (prun sigma)) by (replace sigma with (firstn (length sigma) sigma) by apply firstn_all; apply inv_prefix; exact Hok).
  cbn in H. apply pow_segs_some in H. destruct H as [sg [E [Hr [Hs _]]]].
  pose proof (keep_of_bounds keep s sg (i_syn _ I s sg E)) as Hk.
  rewrite Hr, Hs. rewrite firstn_length. lia.
Qed.

Lemma piece_flush_inv : forall st id cv,
  Inv st -> on_disk st -> tabs st id = None -> ~ In id (mtabs st) ->
  (forall b f, In (b, f) cv -> exists s sg, mlog st <= s /\ segs st s = Some sg /\ In b (recs sg)) ->
  okb_from st (flush_piece st id cv (mlog st)) = true.
Proof.
  intros st id cv I Hdisk Hnone Hnin Hcv.
  assert (HB : Bounded st) by apply I.
  unfold flush_piece. cbn [okb_from]. rewrite andb_true_r.
  assert (Hm : memb id (mtabs st) = false) by (apply memb_false; exact Hnin).
  (* TableWrite, TableSync *)
  assert (O1 : okb st (TableWrite id cv) = true) by (unfold okb; cbn; rewrite Hm; reflexivity).
  rewrite O1. cbn [andb papply].
  set (st1 := set_tabs st (pupd (tabs st) id (Some (mkTab cv false true)))).
  assert (O2 : okb st1 (TableSync id) = true) by (unfold okb, obligations; cbn [forallb fst]; change (mtabs st1) with (mtabs st); rewrite Hm; reflexivity).
  rewrite O2. cbn [andb]. cbn [papply]. unfold st1 at 1. cbn [tabs set_tabs]. rewrite pupd_eq.
  set (st2 := set_tabs st1 _).
  assert (Ht2 : forall x, x <> id -> tabs st2 x = tabs st x).
  { intros x Hx. unfold st2, st1. cbn. rewrite !pupd_neq by exact Hx. reflexivity. }
  assert (Ht2id : tabs st2 id = Some (mkTab cv true true)) by (unfold st2; cbn; apply pupd_eq).
  assert (HB2 : Bounded st2) by exact HB.
  assert (Hold : forall x, In x (mtabs st) -> tabs st2 x = tabs st x).
  { intros x Hx. apply Ht2. intros ->. contradiction. }
  assert (Hdp2 : forall b, dp st2 b = dp st b).
  { apply dp_frame; [exact HB | exact HB2 | reflexivity | reflexivity | exact Hold | intros; reflexivity]. }
  assert (Hcvin : forall b f, In (b, f) cv -> InSSeg st (mlog st) b).
  { intros b f Hin. destruct (Hcv b f Hin) as [s [sg [Hl [E Hb]]]]. exists s, sg. split; [exact Hl|]. split; [exact E|].
    unfold srecs. rewrite (Hdisk s sg E Hl), firstn_all. exact Hb. }
  assert (Hdpall : forall b, b < next st -> alive st b = true -> dp st b = true).
  { intros b Hb Ha. destruct (i_v1 st I b Hb Ha) as [H|[a [sg [E [_ [Hl Hin]]]]]]; [exact H|].
    unfold urecs in Hin. rewrite (Hdisk a sg E Hl), skipn_all in Hin. destruct Hin. }
  (* power durability under the new manifest contains the old one *)
  assert (Hnew : forall b, dp st b = true -> dur_pow st2 (mlog st) (mtabs st ++ [id]) b = true).
  { intros b H. apply dp_spec in H; [|exact HB]. apply dur_pow_spec; [exact HB2|].
    destruct H as [H|[x [t [Hx [Et Hc]]]]]; [left; exact H|]. right. exists x, t. split; [apply in_or_app; left; exact Hx|].
    rewrite (Hold x Hx). auto. }
  assert (Hnew_lt : forall b, dur_pow st2 (mlog st) (mtabs st ++ [id]) b = true -> dp st b = true).
  { intros b H. apply dur_pow_spec in H; [|exact HB2]. apply dp_spec; [exact HB|].
    destruct H as [H|[x [t [Hx [Et [Hg Hc]]]]]]; [left; exact H|]. apply in_app_or in Hx. destruct Hx as [Hx|[<-|[]]].
    - right. exists x, t. rewrite (Hold x Hx) in Et. auto.
    - rewrite Ht2id in Et. inversion Et; subst t. left. eapply Hcvin. exact Hc. }
  unfold okb. cbn [obligations forallb fst]. rewrite andb_true_r.
  cbn [mlog mtabs set_tabs st2 st1].
  repeat (apply andb_true_iff; split).
  - unfold mi_mono. apply Nat.leb_le. change (mlog st2) with (mlog st). lia.
  - (* P7 *) unfold mi_p7. apply forallb_forall. intros x Hx. unfold tab_ready. apply in_app_or in Hx. destruct Hx as [Hx|[<-|[]]].
    + rewrite (Hold x Hx). destruct (i_man st I x Hx) as [t [E [Hg Hs]]]. rewrite E, Hg, Hs. reflexivity.
    + rewrite Ht2id. reflexivity.
  - (* P10 *) unfold mi_p10. apply forallb_forall. intros x Hx. unfold cov_ids_ok, tab_cov. apply forallb_forall. intros [b f] Hin. cbn [fst].
    apply in_app_or in Hx. destruct Hx as [Hx|[<-|[]]].
    + rewrite (Hold x Hx) in Hin. destruct (tabs st x) as [t|] eqn:E; [|destruct Hin].
      destruct (i_cov st I x t b f Hx E Hin) as [H1 H2]. change (alive st2 b) with (alive st b). change (next st2) with (next st).
      rewrite H2. apply Nat.ltb_lt in H1. rewrite H1. reflexivity.
    + rewrite Ht2id in Hin. cbn in Hin. destruct (Hcv b f Hin) as [s [sg [Hl [E Hb]]]].
      change (alive st2 b) with (alive st b). change (next st2) with (next st).
      rewrite (i_wseg st I s sg b E Hl Hb). pose proof (i_ids st I s sg b E Hb) as Hlt. apply Nat.ltb_lt in Hlt. rewrite Hlt. reflexivity.
  - (* P2 *) unfold mi_p2, batches. apply forallb_seq_lt. intros b Hb. change (alive st2 b) with (alive st b).
    destruct (alive st b) eqn:Ha; [cbn|reflexivity]. pose proof (Hnew b (Hdpall b Hb Ha)) as H.
    unfold dur_pow in H. unfold dur_proc. apply orb_true_iff in H. apply orb_true_iff. destruct H as [H|H]; [left|right; exact H].
    apply in_sseg_spec in H; [|exact HB2]. apply in_seg_spec; [exact HB2|]. apply InSSeg_InSeg. exact H.
  - (* P2 power *) unfold mi_p2s, batches. apply forallb_seq_lt. intros b Hb. rewrite Hdp2.
    destruct (dp st b) eqn:Hd; [cbn; apply Hnew; exact Hd | reflexivity].
  - (* P8 *) unfold mi_p8. apply forallb_forall. intros x Hx. apply forallb_forall. intros [b f] Hin. cbn [fst snd].
    destruct f; [reflexivity|]. cbn [orb]. apply Hnew. unfold tab_cov in Hin. apply in_app_or in Hx. destruct Hx as [Hx|[<-|[]]].
    + rewrite (Hold x Hx) in Hin. destruct (tabs st x) as [t|] eqn:E; [|destruct Hin]. exact (i_part st I x t b Hx E Hin).
    + rewrite Ht2id in Hin. cbn in Hin. apply dp_spec; [exact HB|]. left. eapply Hcvin. exact Hin.
  - (* P9 *) unfold mi_p9, batches. apply forallb_seq_lt. intros b' Hb'.
    destruct (dur_pow st2 (mlog st) (mtabs st ++ [id]) b') eqn:Hd; [cbn|reflexivity].
    apply forallb_seq_lt. intros b Hb. change (alive st2 b) with (alive st b).
    destruct (alive st b) eqn:Ha; [cbn|reflexivity]. apply Hnew. apply Hdpall; [|exact Ha]. change (next st2) with (next st) in Hb'. lia.
Qed.

Theorem piece_flush_accepted : piece_flush_accepted_stmt.
Proof.
  intros sigma c id cv Hok st Hdisk Hnone Hnin Hcv.
  apply piece_flush_inv; try assumption.
  apply inv_crash. replace sigma with (firstn (length sigma) sigma) by apply firstn_all. apply inv_prefix. exact Hok.
Qed.
Lemma repaired_piece_recovery : repaired_piece_recovery_stmt. Proof. vm_compute. split; reflexivity. Qed.
Lemma repaired_nonlast_recovery : repaired_nonlast_recovery_stmt. Proof. vm_compute. repeat split; reflexivity. Qed.
