(* Crash/FailInst.v — the failure model of the commit-log writer instantiated with the generated
   parameters: block size (Params.v), BufWriter capacity (Crash/FailParams.v), the concrete CRC-32. *)
From Coq Require Import List NArith Arith Bool.
From SKV Require Import Params Base.Crc32 Codec.Wal Codec.WalInst Crash.Fail Crash.FailParams.
Import ListNotations.

Definition FC : nat := N.to_nat C15_BUFWRITER_CAP.

Definition fi_step (wenv : nat -> wresp) (senv : nat -> bool) := fstep WB FC wal_crc wenv senv.
Definition fi_run (wenv : nat -> wresp) (senv : nat -> bool) := frun WB FC wal_crc wenv senv.
(* the repaired Wal *)
Definition fi_xstep (wenv : nat -> wresp) (senv : nat -> bool) := xstep WB FC wal_crc wenv senv.
Definition fi_xrun (wenv : nat -> wresp) (senv : nat -> bool) := xrun WB FC wal_crc wenv senv.

(* side conditions tying the generated parameters to the model *)
Definition fail_params_ok : bool :=
  C15_ANCHORS_OK && N.eqb C15_BUFWRITER_CAP WAL_BLOCK_SIZE && N.ltb 7 C15_BUFWRITER_CAP &&
  N.eqb C15_COMMIT_SLOTS 8 && N.eqb C15_COMMIT_PERMITS 7 && C15_ATOMIC_ADD.
