(* Crash/Fs_proofs.v — proofs of Crash/FsSpec.v. *)
From Coq Require Import List Arith Bool Lia.
From SKV Require Import Crash.Fs Crash.FsSpec.
Import ListNotations.

Lemma lookup_map : forall (g : nat -> file -> file) p d,
  lookup p (map (fun pf => (fst pf, g (fst pf) (snd pf))) d) = option_map (g p) (lookup p d).
Proof.
  intros g p d. induction d as [|[q f] r IH]; cbn; [reflexivity|].
  destruct (Nat.eqb_spec p q); [subst; reflexivity | exact IH].
Qed.

Lemma lookup_remove_eq : forall p d, lookup p (remove p d) = None.
Proof.
  intros p d. induction d as [|[q f] r IH]; cbn; [reflexivity|].
  destruct (Nat.eqb_spec p q); [exact IH | cbn; destruct (Nat.eqb_spec p q); [contradiction | exact IH]].
Qed.

Lemma lookup_remove_neq : forall p q d, p <> q -> lookup p (remove q d) = lookup p d.
Proof.
  intros p q d H. induction d as [|[x f] r IH]; cbn; [reflexivity|].
  destruct (Nat.eqb_spec q x).
  - subst. destruct (Nat.eqb_spec p x); [contradiction | exact IH].
  - cbn. destruct (Nat.eqb_spec p x); [reflexivity | exact IH].
Qed.

Lemma lookup_store_eq : forall p f d, lookup p (store p f d) = Some f.
Proof. intros. unfold store. cbn. rewrite Nat.eqb_refl. reflexivity. Qed.

Lemma lookup_store_neq : forall p q f d, p <> q -> lookup p (store q f d) = lookup p d.
Proof.
  intros p q f d H. unfold store. cbn. destruct (Nat.eqb_spec p q); [contradiction|]. apply lookup_remove_neq. exact H.
Qed.

Lemma power_file_synced : forall c k j, content (power_file (mkFile c []) k j) = c.
Proof. intros c k j. unfold power_file, content. cbn. destruct k; reflexivity. Qed.

Lemma read_power : forall ch d p, read p (fs_crash_power ch d) =
  match lookup p d with Some f => Some (content (power_file f (fst (ch p)) (snd (ch p)))) | None => None end.
Proof.
  intros ch d p. unfold read, fs_crash_power. rewrite (lookup_map (fun q f => power_file f (fst (ch q)) (snd (ch q)))).
  destruct (lookup p d); reflexivity.
Qed.

Theorem crash_proc_keeps : crash_proc_keeps_stmt.
Proof.
  intros d p. unfold read, fs_crash_proc. rewrite (lookup_map (fun _ f => fs_crash_proc_file f)).
  destruct (lookup p d) as [f|]; reflexivity.
Qed.

Theorem fsync_durable : fsync_durable_stmt.
Proof.
  intros d p ch. split; [|apply crash_proc_keeps].
  rewrite read_power. unfold read, fs_apply, with_file. destruct (lookup p d) as [f|] eqn:E.
  - rewrite lookup_store_eq. rewrite power_file_synced. reflexivity.
  - rewrite E. reflexivity.
Qed.

(* ---- append-only files *)
Definition bytes_of (o : fop) : list nat := match o with FApp b => b | FTrunc _ => [] end.

Lemma fold_appends : forall ops c, (forall o, In o ops -> exists b, o = FApp b) ->
  fold_left fop_apply ops c = c ++ flat_map bytes_of ops.
Proof.
  induction ops as [|o r IH]; intros c H; cbn; [symmetry; apply app_nil_r|].
  destruct (H o (or_introl eq_refl)) as [b ->]. cbn. rewrite IH by (intros; apply H; right; assumption).
  rewrite app_assoc. reflexivity.
Qed.

Lemma firstn_prefix : forall (a r : list nat), firstn (length a) (a ++ r) = a.
Proof. intros. rewrite firstn_app, Nat.sub_diag, firstn_all. cbn. apply app_nil_r. Qed.

Theorem append_only_prefix : append_only_prefix_stmt.
Proof.
  intros f k j Hap. unfold appends_only in Hap.
  assert (Hsplit : f_ops f = firstn k (f_ops f) ++ skipn k (f_ops f)) by (symmetry; apply firstn_skipn).
  assert (H1 : forall o, In o (firstn k (f_ops f)) -> exists b, o = FApp b).
  { intros o Ho. apply Hap. rewrite Hsplit. apply in_or_app. left. exact Ho. }
  unfold content at 1. cbn [power_file f_synced f_ops fold_left].
  rewrite fold_left_app. rewrite (fold_appends (firstn k (f_ops f)) (f_synced f) H1).
  unfold content. rewrite (fold_appends (f_ops f) (f_synced f) Hap).
  destruct (nth_error (f_ops f) k) as [o|] eqn:En.
  - (* the operation that may be torn *)
    assert (Hsk : skipn k (f_ops f) = o :: skipn (S k) (f_ops f)).
    { clear -En. revert k En. induction (f_ops f) as [|x l IH]; intros [|k] En; cbn in *; try discriminate.
      - inversion En. reflexivity.
      - apply IH. exact En. }
    destruct (Hap o) as [b ->]; [rewrite Hsplit, Hsk; apply in_or_app; right; left; reflexivity|].
    cbn [torn fold_left fop_apply].
    set (A := f_synced f ++ flat_map bytes_of (firstn k (f_ops f)) ++ firstn j b).
    exists (length A). split; [unfold A; rewrite !app_length; lia|].
    rewrite Hsplit at 2. rewrite Hsk. rewrite flat_map_app. cbn [flat_map bytes_of].
    rewrite <- (firstn_skipn j b) at 2.
    replace (f_synced f ++ flat_map bytes_of (firstn k (f_ops f)) ++ (firstn j b ++ skipn j b) ++ flat_map bytes_of (skipn (S k) (f_ops f)))
      with (A ++ (skipn j b ++ flat_map bytes_of (skipn (S k) (f_ops f)))) by (unfold A; rewrite <- !app_assoc; reflexivity).
    rewrite firstn_prefix. unfold A. rewrite <- app_assoc. reflexivity.
  - cbn [torn fold_left]. set (A := f_synced f ++ flat_map bytes_of (firstn k (f_ops f))).
    exists (length A). split; [unfold A; rewrite app_length; lia|].
    replace (flat_map bytes_of (f_ops f)) with (flat_map bytes_of (firstn k (f_ops f)) ++ flat_map bytes_of (skipn k (f_ops f)))
      by (rewrite <- flat_map_app, firstn_skipn; reflexivity).
    rewrite app_assoc. fold A. rewrite firstn_prefix. reflexivity.
Qed.

(* ---- the manifest switch *)
Theorem atomic_replace_ok : atomic_replace_stmt.
Proof.
  intros d tmp target old new n ch Hne Htmp Htgt d'.
  assert (Hne' : target <> tmp) by (intros H; apply Hne; symmetry; exact H).
  set (d1 := store tmp (mkFile [] []) d).
  set (d2 := store tmp (mkFile [] [FApp new]) d1).
  set (d3 := store tmp (mkFile new []) d2).
  set (d4 := store target (mkFile new []) (remove tmp d3)).
  set (d5 := store target (mkFile new []) d4).
  assert (E1 : fs_apply d (Create tmp) = d1) by (cbn; rewrite Htmp; reflexivity).
  assert (E2 : fs_apply d1 (Append tmp new) = d2) by (unfold fs_apply, with_file, d1; rewrite lookup_store_eq; reflexivity).
  assert (E3 : fs_apply d2 (Fsync tmp) = d3) by (unfold fs_apply, with_file, d2; rewrite lookup_store_eq; reflexivity).
  assert (E4 : fs_apply d3 (Rename tmp target) = d4) by (unfold fs_apply, d3; rewrite lookup_store_eq; reflexivity).
  assert (E5 : fs_apply d4 (Fsync target) = d5) by (unfold fs_apply, with_file, d4; rewrite lookup_store_eq; reflexivity).
  assert (L1 : lookup target d1 = Some (mkFile old [])) by (unfold d1; rewrite lookup_store_neq by exact Hne'; exact Htgt).
  assert (L2 : lookup target d2 = Some (mkFile old [])) by (unfold d2; rewrite lookup_store_neq by exact Hne'; exact L1).
  assert (L3 : lookup target d3 = Some (mkFile old [])) by (unfold d3; rewrite lookup_store_neq by exact Hne'; exact L2).
  assert (L4 : lookup target d4 = Some (mkFile new [])) by (unfold d4; apply lookup_store_eq).
  assert (L5 : lookup target d5 = Some (mkFile new [])) by (unfold d5; apply lookup_store_eq).
  assert (Key : (lookup target d' = Some (mkFile old []) \/ lookup target d' = Some (mkFile new []))).
  { unfold d', atomic_replace, fs_run.
    destruct n as [|[|[|[|[|n]]]]]; cbn [firstn fold_left]; rewrite ?firstn_nil; cbn [fold_left];
      rewrite ?E1, ?E2, ?E3, ?E4, ?E5; auto. }
  split.
  - rewrite read_power. destruct Key as [-> | ->]; rewrite power_file_synced; auto.
  - rewrite crash_proc_keeps. unfold read. destruct Key as [-> | ->]; auto.
Qed.
