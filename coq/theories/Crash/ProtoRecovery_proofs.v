(* Crash/ProtoRecovery_proofs.v — the recovery of the repaired code (with pieces) is accepted by the
   obligations after either crash, for every split; hence the crash theorems hold at every point
   inside it. *)
From Coq Require Import List Arith Bool Lia.
From SKV Require Import Crash.Proto Crash.ProtoSpec Crash.Proto_proofs.
Import ListNotations.

(* ------------------------------------------------------------------ small facts *)
Lemma seg_recs_some : forall st s sg, segs st s = Some sg -> seg_recs st s = recs sg.
Proof. intros st s sg H. unfold seg_recs. rewrite H. reflexivity. Qed.

Lemma seg_recs_in : forall st s b, In b (seg_recs st s) -> exists sg, segs st s = Some sg /\ In b (recs sg).
Proof. intros st s b H. unfold seg_recs in H. destruct (segs st s) as [sg|]; [exists sg; auto | destruct H]. Qed.

Definition on_disk' (st : pstate) : Prop := on_disk st.

(* the fields a recovery never touches *)
Definition quiet (e : pevent) : bool :=
  match e with
  | WalRotate _ | WalSync _ | TornTailDrop _ | TableWrite _ _ | TableSync _ | ManifestInstall _ _ => true
  | _ => false
  end.

Lemma quiet_step : forall st e, quiet e = true ->
  need_proc (papply st e) = need_proc st /\ need_pow (papply st e) = need_pow st /\
  next (papply st e) = next st /\ dead (papply st e) = dead st.
Proof.
  intros st e H. destruct e; try discriminate; cbn; unfold map_seg;
    try (destruct (segs st s); cbn; auto); try (destruct (tabs st id); cbn; auto); auto.
Qed.

Lemma quiet_run : forall l st, forallb quiet l = true ->
  need_proc (run_from st l) = need_proc st /\ need_pow (run_from st l) = need_pow st /\
  next (run_from st l) = next st /\ dead (run_from st l) = dead st.
Proof.
  induction l as [|e l IH]; intros st H; [cbn; auto|].
  cbn [forallb] in H. apply andb_true_iff in H. destruct H as [H1 H2].
  change (run_from st (e :: l)) with (run_from (papply st e) l).
  destruct (quiet_step st e H1) as [A [B [C D]]]. destruct (IH (papply st e) H2) as [A' [B' [C' D']]].
  rewrite A', B', C', D'. auto.
Qed.

Lemma forallb_firstn : forall (f : pevent -> bool) l k, forallb f l = true -> forallb f (firstn k l) = true.
Proof.
  intros f l k H. rewrite forallb_forall in *. intros x Hx. apply H. eapply firstn_In. exact Hx.
Qed.

(* ------------------------------------------------------------------ one piece *)
Record PieceDone (st st' : pstate) (id : nat) (cv : list (nat * bool)) (n : nat) : Prop := {
  pd_inv : Inv st';
  pd_disk : on_disk st';
  pd_segs : segs st' = segs st;
  pd_hi : seg_hi st' = seg_hi st;
  pd_log : mlog st' = n;
  pd_tabs : mtabs st' = mtabs st ++ [id];
  pd_next : next st' = next st;
  pd_dead : dead st' = dead st;
  pd_cov : forall b, CovFull st (mtabs st) b -> CovFull st' (mtabs st') b;
  pd_new : forall b, In (b, true) cv -> CovFull st' (mtabs st') b
}.

Lemma piece_flush_gen : forall st id cv n,
  Inv st -> on_disk st -> ~ In id (mtabs st) -> mlog st <= n ->
  (forall b f, In (b, f) cv -> b < next st /\ alive st b = true) ->
  (forall b, b < next st -> alive st b = true ->
             InSeg st n b \/ CovFull st (mtabs st) b \/ In (b, true) cv) ->
  okb_from st (flush_piece st id cv n) = true /\
  PieceDone st (run_from st (flush_piece st id cv n)) id cv n.
Proof.
  intros st id cv n I Hdisk Hnin Hn Hcv Hall.
  assert (HB : Bounded st) by apply I.
  assert (Hm : memb id (mtabs st) = false) by (apply memb_false; exact Hnin).
  assert (O1 : okb st (TableWrite id cv) = true) by (unfold okb; cbn; rewrite Hm; reflexivity).
  set (st1 := set_tabs st (pupd (tabs st) id (Some (mkTab cv false true)))).
  assert (O2 : okb st1 (TableSync id) = true)
    by (unfold okb, obligations; cbn [forallb fst]; change (mtabs st1) with (mtabs st); rewrite Hm; reflexivity).
  set (st2 := set_tabs st1 (pupd (tabs st1) id (Some (mkTab cv true true)))).
  assert (E2 : papply st1 (TableSync id) = st2).
  { cbn [papply]. unfold st1 at 1. cbn [tabs set_tabs]. rewrite pupd_eq. reflexivity. }
  assert (Ht2 : forall x, x <> id -> tabs st2 x = tabs st x).
  { intros x Hx. unfold st2, st1. cbn. rewrite !pupd_neq by exact Hx. reflexivity. }
  assert (Ht2id : tabs st2 id = Some (mkTab cv true true)) by (unfold st2; cbn; apply pupd_eq).
  assert (HB2 : Bounded st2) by exact HB.
  assert (Hold : forall x, In x (mtabs st) -> tabs st2 x = tabs st x).
  { intros x Hx. apply Ht2. intros ->. contradiction. }
  assert (Hdp2 : forall b, dp st2 b = dp st b).
  { apply dp_frame; [exact HB | exact HB2 | reflexivity | reflexivity | exact Hold | intros; reflexivity]. }
  assert (Hcovold : forall b, CovFull st (mtabs st) b -> CovFull st2 (mtabs st ++ [id]) b).
  { intros b [x [t [Hx [Et Hc]]]]. exists x, t. split; [apply in_or_app; left; exact Hx|]. rewrite (Hold x Hx). auto. }
  assert (Hcovnew : forall b, In (b, true) cv -> CovFull st2 (mtabs st ++ [id]) b).
  { intros b Hb. exists id, (mkTab cv true true). split; [apply in_or_app; right; left; reflexivity|]. rewrite Ht2id. auto. }
  (* every live batch is power-durable under the new manifest *)
  assert (K : forall b, b < next st -> alive st b = true -> dur_pow st2 n (mtabs st ++ [id]) b = true).
  { intros b Hb Ha. apply dur_pow_spec; [exact HB2|]. destruct (Hall b Hb Ha) as [[s [sg [Hs [E Hin]]]]|[H|H]].
    - left. exists s, sg. split; [exact Hs|]. split; [exact E|]. unfold srecs.
      rewrite (Hdisk s sg E ltac:(lia)), firstn_all. exact Hin.
    - right. apply Hcovold. exact H.
    - right. apply Hcovnew. exact H. }
  assert (O3 : okb st2 (ManifestInstall n (mtabs st ++ [id])) = true).
  { unfold okb. cbn [obligations forallb fst]. rewrite andb_true_r.
    repeat (apply andb_true_iff; split).
    - unfold mi_mono. apply Nat.leb_le. exact Hn.
    - unfold mi_p7. apply forallb_forall. intros x Hx. unfold tab_ready. apply in_app_or in Hx. destruct Hx as [Hx|[<-|[]]].
      + rewrite (Hold x Hx). destruct (i_man st I x Hx) as [t [E [Hg Hs]]]. rewrite E, Hg, Hs. reflexivity.
      + rewrite Ht2id. reflexivity.
    - unfold mi_p10. apply forallb_forall. intros x Hx. unfold cov_ids_ok, tab_cov. apply forallb_forall. intros [b f] Hin. cbn [fst].
      change (alive st2 b) with (alive st b). change (next st2) with (next st).
      apply in_app_or in Hx. destruct Hx as [Hx|[<-|[]]].
      + rewrite (Hold x Hx) in Hin. destruct (tabs st x) as [t|] eqn:E; [|destruct Hin].
        destruct (i_cov st I x t b f Hx E Hin) as [H1 H2]. rewrite H2. apply Nat.ltb_lt in H1. rewrite H1. reflexivity.
      + rewrite Ht2id in Hin. cbn in Hin. destruct (Hcv b f Hin) as [H1 H2]. rewrite H2. apply Nat.ltb_lt in H1. rewrite H1. reflexivity.
    - unfold mi_p2, batches. apply forallb_seq_lt. intros b Hb. change (alive st2 b) with (alive st b).
      destruct (alive st b) eqn:Ha; [cbn|reflexivity]. pose proof (K b Hb Ha) as H.
      unfold dur_pow in H. unfold dur_proc. apply orb_true_iff in H. apply orb_true_iff. destruct H as [H|H]; [left|right; exact H].
      apply in_sseg_spec in H; [|exact HB2]. apply in_seg_spec; [exact HB2|]. apply InSSeg_InSeg. exact H.
    - unfold mi_p2s, batches. apply forallb_seq_lt. intros b Hb. rewrite Hdp2.
      destruct (dp st b) eqn:Hd; [cbn|reflexivity]. destruct (dp_lt_alive st b I Hd) as [_ Ha]. apply K; assumption.
    - unfold mi_p8. apply forallb_forall. intros x Hx. apply forallb_forall. intros [b f] Hin. cbn [fst snd].
      destruct f; [reflexivity|]. cbn [orb]. unfold tab_cov in Hin. apply in_app_or in Hx. destruct Hx as [Hx|[<-|[]]].
      + rewrite (Hold x Hx) in Hin. destruct (tabs st x) as [t|] eqn:E; [|destruct Hin].
        destruct (i_cov st I x t b false Hx E Hin) as [H1 H2]. apply K; assumption.
      + rewrite Ht2id in Hin. cbn in Hin. destruct (Hcv b false Hin) as [H1 H2]. apply K; assumption.
    - unfold mi_p9, batches. apply forallb_seq_lt. intros b' Hb'.
      destruct (dur_pow st2 n (mtabs st ++ [id]) b'); [cbn|reflexivity].
      apply forallb_seq_lt. intros b Hb. change (alive st2 b) with (alive st b).
      destruct (alive st b) eqn:Ha; [cbn|reflexivity]. apply K; [|exact Ha]. change (next st2) with (next st) in Hb'. lia. }
  assert (Hok : okb_from st (flush_piece st id cv n) = true).
  { unfold flush_piece.
    change (okb st (TableWrite id cv) && (okb st1 (TableSync id) &&
            (okb (papply st1 (TableSync id)) (ManifestInstall n (mtabs st ++ [id])) && true)) = true).
    rewrite O1, O2, E2, O3. reflexivity. }
  split; [exact Hok|].
  assert (Erun : run_from st (flush_piece st id cv n) = papply st2 (ManifestInstall n (mtabs st ++ [id]))).
  { unfold flush_piece.
    change (papply (papply st1 (TableSync id)) (ManifestInstall n (mtabs st ++ [id])) = papply st2 (ManifestInstall n (mtabs st ++ [id]))).
    rewrite E2. reflexivity. }
  rewrite Erun.
  assert (I' : Inv (papply st2 (ManifestInstall n (mtabs st ++ [id])))).
  { rewrite <- Erun. apply inv_run_from; assumption. }
  constructor; try reflexivity.
  - exact I'.
  - intros s sg E Hs. cbn in E, Hs. apply (Hdisk s sg E). lia.
  - exact Hcovold.
  - exact Hcovnew.
Qed.

(* ------------------------------------------------------------------ the pieces, one after the other *)
Fixpoint seg_sorted (ps : list piece) : Prop :=
  match ps with
  | [] => True
  | (c, s) :: r => (forall c' s', In (c', s') r -> s <= s') /\ seg_sorted r
  end.

Lemma seg_recs_eq : forall st st', segs st' = segs st -> forall s, seg_recs st' s = seg_recs st s.
Proof. intros st st' H s. unfold seg_recs. rewrite H. reflexivity. Qed.

Lemma alive_eq : forall st st', dead st' = dead st -> forall b, alive st' b = alive st b.
Proof. intros st st' H b. unfold alive. rewrite H. reflexivity. Qed.

Lemma pieces_loop : forall ps st ids,
  Inv st -> on_disk st -> NoDup ids -> (forall id, In id ids -> ~ In id (mtabs st)) ->
  seg_sorted ps ->
  (forall c s, In (c, s) ps -> mlog st <= s) ->
  (forall c s b f, In (c, s) ps -> In (b, f) c -> In b (seg_recs st s)) ->
  (forall t b, mlog st <= t -> In b (seg_recs st t) ->
               CovFull st (mtabs st) b \/ exists c, In (c, t) ps /\ In (b, true) c) ->
  okb_from st (piece_events (mlog st) (mtabs st) ps ids) = true.
Proof.
  induction ps as [|[c s] ps IH]; intros st ids I Hdisk Hnd Hfresh Hsort Hlog Hin Hcov; [reflexivity|].
  destruct ps as [|[c' s'] rest]; [reflexivity|].
  destruct ids as [|id ids']; [reflexivity|].
  cbn [piece_events].
  set (n := Nat.max (mlog st) (if s <? s' then S s else s)).
  assert (Hs : mlog st <= s) by (apply (Hlog c s); left; reflexivity).
  assert (Hss' : s <= s') by (destruct Hsort as [H _]; apply (H c' s'); left; reflexivity).
  assert (Hn : n = if s <? s' then S s else s) by (unfold n; destruct (s <? s'); lia).
  assert (Hn' : n <= s') by (rewrite Hn; destruct (Nat.ltb_spec s s'); lia).
  assert (HB : Bounded st) by apply I.
  (* pieces of segments below n are the current one or done *)
  assert (Hbelow : forall c2 t, In (c2, t) ((c', s') :: rest) -> n <= t).
  { intros c2 t [E|H2]; [inversion E; subst; exact Hn'|].
    destruct Hsort as [_ [H _]]. specialize (H c2 t H2). lia. }
  destruct (piece_flush_gen st id c n I Hdisk) as [Hok PD].
  - apply Hfresh. left. reflexivity.
  - unfold n. lia.
  - intros b f Hb. assert (Hr : In b (seg_recs st s)) by (apply (Hin c s b f); [left; reflexivity | exact Hb]).
    apply seg_recs_in in Hr. destruct Hr as [sg [E Hr]]. split; [eapply (i_ids st I); eauto | eapply (i_wseg st I); eauto].
  - intros b Hb Ha. pose proof (live_dpr st b I Hb Ha) as Hd. apply dpr_spec in Hd; [|exact HB].
    destruct Hd as [[t [sg [Ht [E Hr]]]]|Hc]; [|right; left; exact Hc].
    destruct (Nat.le_gt_cases n t) as [Hge|Hlt]; [left; exists t, sg; auto|].
    assert (Hr' : In b (seg_recs st t)) by (rewrite (seg_recs_some st t sg E); exact Hr).
    destruct (Hcov t b Ht Hr') as [Hc|[c2 [Hc2 Hb2]]]; [right; left; exact Hc|].
    destruct Hc2 as [E2|Hc2]; [inversion E2; subst; right; right; exact Hb2|].
    specialize (Hbelow c2 t Hc2). lia.
  - unfold flush_piece in Hok. rewrite okb_from_app. rewrite Hok. cbn [andb].
    set (st' := run_from st (flush_piece st id c n)) in *.
    unfold flush_piece in st'. fold st'.
    rewrite <- (pd_log _ _ _ _ _ PD). rewrite <- (pd_tabs _ _ _ _ _ PD).
    apply IH.
    + exact (pd_inv _ _ _ _ _ PD).
    + exact (pd_disk _ _ _ _ _ PD).
    + inversion Hnd; assumption.
    + intros id2 Hid2. rewrite (pd_tabs _ _ _ _ _ PD). intros Hx. apply in_app_or in Hx. destruct Hx as [Hx|[<-|[]]].
      * apply (Hfresh id2); [right; exact Hid2 | exact Hx].
      * inversion Hnd; contradiction.
    + destruct Hsort as [_ H]. exact H.
    + intros c2 t H2. rewrite (pd_log _ _ _ _ _ PD). apply (Hbelow c2 t H2).
    + intros c2 t b f H2 Hb. rewrite (seg_recs_eq st st' (pd_segs _ _ _ _ _ PD)). apply (Hin c2 t b f); [right; exact H2 | exact Hb].
    + intros t b Ht Hr. rewrite (pd_log _ _ _ _ _ PD) in Ht. rewrite (seg_recs_eq st st' (pd_segs _ _ _ _ _ PD)) in Hr.
      destruct (Hcov t b ltac:(unfold n in Ht; lia) Hr) as [Hc|[c2 [[E2|Hc2] Hb2]]].
      * left. apply (pd_cov _ _ _ _ _ PD). exact Hc.
      * inversion E2; subst. left. apply (pd_new _ _ _ _ _ PD). exact Hb2.
      * right. exists c2. auto.
Qed.

(* ------------------------------------------------------------------ the fsync of the replayed segments *)
Record Synced (st st' : pstate) (l : list nat) : Prop := {
  sy_inv : Inv st';
  sy_log : mlog st' = mlog st;
  sy_tabs : mtabs st' = mtabs st;
  sy_recs : forall s, seg_recs st' s = seg_recs st s;
  sy_old : forall s sg', segs st' s = Some sg' -> exists sg, segs st s = Some sg /\ recs sg' = recs sg /\
                         (In s l -> synced sg' = length (recs sg')) /\ (synced sg <= synced sg')
}.

Lemma wal_sync_state : forall st s, Inv st -> Synced st (papply st (WalSync s)) [s].
Proof.
  intros st s I. assert (I' : Inv (papply st (WalSync s))) by (apply inv_step; [exact I | reflexivity]).
  cbn [papply] in *. unfold map_seg in *. destruct (segs st s) as [sg|] eqn:E.
  - constructor; try reflexivity; [exact I'| |].
    + intros x. unfold seg_recs. cbn. unfold pupd. destruct (Nat.eqb_spec x s); [subst; rewrite E|]; reflexivity.
    + intros x sg'. cbn. unfold pupd. destruct (Nat.eqb_spec x s).
      * subst. intros H; inversion H; subst; cbn. exists sg. repeat split; auto. eapply (i_syn st I); eauto.
      * intros H. exists sg'. repeat split; auto. intros [->|[]]. contradiction.
  - constructor; try reflexivity; [exact I|]. intros x sg' H. exists sg'. repeat split; auto.
    intros [->|[]]. rewrite E in H. discriminate.
Qed.

Lemma wal_syncs : forall l st, Inv st ->
  okb_from st (map WalSync l) = true /\ Synced st (run_from st (map WalSync l)) l.
Proof.
  induction l as [|s l IH]; intros st I.
  - split; [reflexivity|]. cbn. constructor; try reflexivity; [exact I|].
    intros s sg' H. exists sg'. repeat split; auto. intros [].
  - pose proof (wal_sync_state st s I) as S1. destruct (IH (papply st (WalSync s)) (sy_inv _ _ _ S1)) as [Hok S2].
    split; [cbn [map okb_from]; rewrite Hok; reflexivity|].
    change (run_from st (map WalSync (s :: l))) with (run_from (papply st (WalSync s)) (map WalSync l)).
    set (st1 := papply st (WalSync s)) in *. set (st2 := run_from st1 (map WalSync l)) in *.
    constructor.
    + exact (sy_inv _ _ _ S2).
    + rewrite (sy_log _ _ _ S2). exact (sy_log _ _ _ S1).
    + rewrite (sy_tabs _ _ _ S2). exact (sy_tabs _ _ _ S1).
    + intros x. rewrite (sy_recs _ _ _ S2). exact (sy_recs _ _ _ S1 x).
    + intros x sg2 H2. destruct (sy_old _ _ _ S2 x sg2 H2) as [sg1 [E1 [R1 [A1 B1]]]].
      destruct (sy_old _ _ _ S1 x sg1 E1) as [sg [E [R [A B]]]].
      exists sg. split; [exact E|]. split; [congruence|]. split; [|lia].
      intros [->|Hin]; [|apply A1; exact Hin].
      pose proof (i_syn _ (sy_inv _ _ _ S2) x sg2 H2) as Hle. specialize (A (or_introl eq_refl)). rewrite R1. rewrite R1 in Hle. lia.
Qed.

(* ------------------------------------------------------------------ the writer is opened *)
Lemma top_of_spec : forall st n,
  match top_of st n with
  | Some a => a < n /\ present st a = true /\ forall s, a < s < n -> present st s = false
  | None => forall s, s < n -> present st s = false
  end.
Proof.
  intros st. induction n as [|n IH]; cbn; [intros; lia|].
  destruct (present st n) eqn:E.
  - split; [lia|]. split; [exact E|]. intros; lia.
  - destruct (top_of st n) as [a|].
    + destruct IH as [H1 [H2 H3]]. split; [lia|]. split; [exact H2|]. intros s Hs.
      destruct (Nat.eq_dec s n) as [->|]; [exact E | apply H3; lia].
    + intros s Hs. destruct (Nat.eq_dec s n) as [->|]; [exact E | apply IH; lia].
Qed.

Record Opened (st st' : pstate) : Prop := {
  op_inv : Inv st';
  op_log : mlog st' = mlog st;
  op_tabs : mtabs st' = mtabs st;
  op_recs : forall s, seg_recs st' s = seg_recs st s
}.

Lemma rotate_accepted : forall st, Inv st -> (forall s sg, segs st s = Some sg -> s < mlog st) ->
  okb st (WalRotate (mlog st)) = true.
Proof.
  intros st I H. assert (HB : Bounded st) by apply I.
  unfold okb. cbn [obligations forallb fst]. rewrite andb_true_r. apply andb_true_iff. split; [apply andb_true_iff; split|].
  - apply is_top_spec; [exact HB|]. intros s sg E. specialize (H s sg E). lia.
  - apply negb_true_iff. unfold present. destruct (segs st (mlog st)) as [sg|] eqn:E; [|reflexivity].
    specialize (H _ _ E). lia.
  - unfold all_synced. apply forallb_forall. intros s _. destruct (segs st s) as [sg|] eqn:E; [|reflexivity].
    specialize (H s sg E). apply Nat.ltb_lt in H. rewrite H. reflexivity.
Qed.

Lemma writer_open_ok : forall st, Inv st ->
  okb_from st (writer_open st) = true /\ Opened st (run_from st (writer_open st)).
Proof.
  intros st I. assert (HB : Bounded st) by apply I.
  assert (Hplain : okb_from st (recovery_plain st) = true /\ Opened st (run_from st (recovery_plain st))).
  { split; [apply recovery_plain_ok|]. pose proof (recovery_plain_ok st) as Hok.
    destruct (recovery_plain_shape st) as [->|[a Ha]].
    - cbn. constructor; try reflexivity. exact I.
    - rewrite Ha in *. cbn in Hok. rewrite andb_true_r in Hok.
      assert (I' : Inv (papply st (TornTailDrop a))) by (apply inv_step; assumption).
      change (run_from st [TornTailDrop a]) with (papply st (TornTailDrop a)).
      constructor; [exact I'| | |]; cbn [papply]; unfold map_seg; destruct (segs st a) as [sg|] eqn:E; try reflexivity.
      intros s. unfold seg_recs. cbn. unfold pupd. destruct (Nat.eqb_spec s a); [subst; rewrite E|]; reflexivity. }
  assert (Hrot : (forall s sg, segs st s = Some sg -> s < mlog st) ->
                 okb_from st [WalRotate (mlog st)] = true /\ Opened st (run_from st [WalRotate (mlog st)])).
  { intros H. pose proof (rotate_accepted st I H) as Hok. split; [cbn [okb_from]; rewrite Hok; reflexivity|].
    change (run_from st [WalRotate (mlog st)]) with (papply st (WalRotate (mlog st))).
    constructor; [apply inv_step; assumption | reflexivity | reflexivity|].
    intros s. unfold seg_recs. cbn. unfold pupd. destruct (Nat.eqb_spec s (mlog st)); [|reflexivity].
    subst. destruct (segs st (mlog st)) as [sg|] eqn:E; [|reflexivity]. specialize (H _ _ E). lia. }
  unfold writer_open. pose proof (top_of_spec st (seg_hi st)) as Ht. destruct (top_of st (seg_hi st)) as [a|].
  - destruct (Nat.leb_spec (mlog st) a); [exact Hplain|]. apply Hrot. intros s sg E.
    destruct Ht as [H1 [H2 H3]]. pose proof (HB s sg E) as Hs.
    destruct (Nat.le_gt_cases s a); [lia|]. specialize (H3 s ltac:(lia)). unfold present in H3. rewrite E in H3. discriminate.
  - apply Hrot. intros s sg E. pose proof (HB s sg E) as Hs. specialize (Ht s Hs). unfold present in Ht. rewrite E in Ht. discriminate.
Qed.

(* ------------------------------------------------------------------ every split is a valid list of pieces *)
Lemma cut_pieces_sub : forall cuts l c b f, In c (cut_pieces l cuts) -> In (b, f) c -> In b l.
Proof.
  induction cuts as [|[n p] cs IH]; intros l c b f Hc Hb; cbn in Hc.
  - destruct Hc as [<-|[]]. unfold full_part in Hb. apply in_map_iff in Hb. destruct Hb as [x [E Hx]]. inversion E; subst. exact Hx.
  - destruct Hc as [<-|Hc].
    + apply in_app_or in Hb. destruct Hb as [Hb|Hb].
      * unfold full_part in Hb. apply in_map_iff in Hb. destruct Hb as [x [E Hx]]. inversion E; subst. eapply firstn_In. exact Hx.
      * destruct p; [|destruct Hb]. destruct (skipn n l) as [|y r] eqn:E; [destruct Hb|].
        destruct Hb as [Hb|[]]. inversion Hb; subst. eapply skipn_In. rewrite E. left. reflexivity.
    + eapply skipn_In. eapply IH; eauto.
Qed.

Lemma cut_pieces_cover : forall cuts l b, In b l -> exists c, In c (cut_pieces l cuts) /\ In (b, true) c.
Proof.
  induction cuts as [|[n p] cs IH]; intros l b Hb; cbn.
  - exists (full_part l). split; [left; reflexivity|]. unfold full_part. apply in_map_iff. exists b. auto.
  - rewrite <- (firstn_skipn n l) in Hb. apply in_app_or in Hb. destruct Hb as [Hb|Hb].
    + eexists. split; [left; reflexivity|]. apply in_or_app. left. unfold full_part. apply in_map_iff. exists b. auto.
    + destruct (IH (skipn n l) b Hb) as [c [H1 H2]]. exists c. split; [right; exact H1 | exact H2].
Qed.

Lemma seg_pieces_in : forall st cuts s c t, In (c, t) (seg_pieces st cuts s) ->
  t = s /\ In c (cut_pieces (seg_recs st s) (cuts s)) /\ c <> [].
Proof.
  intros st cuts s c t H. unfold seg_pieces in H. apply in_map_iff in H. destruct H as [c0 [E H]]. inversion E; subst.
  apply filter_In in H. destruct H as [H1 H2]. split; [reflexivity|]. split; [exact H1|]. intros ->. discriminate.
Qed.

Lemma split_pieces_in : forall st cuts c t, In (c, t) (split_pieces st cuts) ->
  mlog st <= t /\ In c (cut_pieces (seg_recs st t) (cuts t)).
Proof.
  intros st cuts c t H. unfold split_pieces in H. apply in_flat_map in H. destruct H as [s [Hs H]].
  apply seg_pieces_in in H. destruct H as [-> [H _]]. apply in_seq in Hs. split; [lia | exact H].
Qed.

Lemma split_pieces_cover : forall st cuts t b, Bounded st -> mlog st <= t -> In b (seg_recs st t) ->
  exists c, In (c, t) (split_pieces st cuts) /\ In (b, true) c.
Proof.
  intros st cuts t b HB Ht Hb. destruct (cut_pieces_cover (cuts t) (seg_recs st t) b Hb) as [c [H1 H2]].
  exists c. split; [|exact H2]. unfold split_pieces. apply in_flat_map. exists t. split.
  - apply in_seq. destruct (seg_recs_in st t b Hb) as [sg [E _]]. specialize (HB t sg E). lia.
  - unfold seg_pieces. apply in_map_iff. exists c. split; [reflexivity|]. apply filter_In. split; [exact H1|].
    destruct c; [destruct H2 | reflexivity].
Qed.

Lemma seg_sorted_app : forall l1 l2, seg_sorted l1 -> seg_sorted l2 ->
  (forall c s c' s', In (c, s) l1 -> In (c', s') l2 -> s <= s') -> seg_sorted (l1 ++ l2).
Proof.
  induction l1 as [|[c s] l1 IH]; intros l2 H1 H2 H; cbn; [exact H2|].
  destruct H1 as [Ha Hb]. split.
  - intros c' s' Hin. apply in_app_or in Hin. destruct Hin as [Hin|Hin]; [eapply Ha; exact Hin | eapply (H c s c' s'); [left; reflexivity | exact Hin]].
  - apply IH; [exact Hb | exact H2 |]. intros c1 s1 c2 s2 Hx Hy. eapply H; [right; exact Hx | exact Hy].
Qed.

Lemma seg_sorted_const : forall (l : list piece) s, (forall c t, In (c, t) l -> t = s) -> seg_sorted l.
Proof.
  induction l as [|[c t] l IH]; intros s H; cbn; [exact I|]. split.
  - intros c' s' Hin. rewrite (H c t (or_introl eq_refl)). rewrite (H c' s' (or_intror Hin)). lia.
  - apply (IH s). intros c' t' Hin. apply (H c' t'). right. exact Hin.
Qed.

Lemma split_sorted_gen : forall st cuts len a, seg_sorted (flat_map (seg_pieces st cuts) (seq a len)).
Proof.
  intros st cuts. induction len as [|len IH]; intros a; cbn; [exact I|].
  apply seg_sorted_app; [|apply IH|].
  - apply (seg_sorted_const _ a). intros c t H. apply seg_pieces_in in H. tauto.
  - intros c s c' s' H1 H2. apply seg_pieces_in in H1. destruct H1 as [-> _].
    apply in_flat_map in H2. destruct H2 as [x [Hx H2]]. apply seg_pieces_in in H2. destruct H2 as [-> _].
    apply in_seq in Hx. lia.
Qed.

(* ------------------------------------------------------------------ the whole recovery *)
Lemma okb_from_firstn : forall l k st, okb_from st l = true -> okb_from st (firstn k l) = true.
Proof.
  intros l k st H. rewrite <- (firstn_skipn k l) in H. rewrite okb_from_app in H. apply andb_true_iff in H. apply H.
Qed.

Lemma recovery_full_ok : forall st cuts ids, Inv st -> fresh_ids st ids ->
  okb_from st (recovery_full st cuts ids) = true.
Proof.
  intros st cuts ids I [Hnd Hfresh]. assert (HB : Bounded st) by apply I.
  destruct (writer_open_ok st I) as [Hw OP]. unfold recovery_full. rewrite okb_from_app, Hw. cbn [andb].
  set (sta := run_from st (writer_open st)) in *.
  set (ps := split_pieces st cuts). unfold recovery_pieces. destruct (1 <? length ps); [|reflexivity].
  destruct (wal_syncs (nodup Nat.eq_dec (map snd ps)) sta (op_inv _ _ OP)) as [Hs SY].
  rewrite okb_from_app, Hs. cbn [andb].
  set (sts := run_from sta (map WalSync (nodup Nat.eq_dec (map snd ps)))) in *.
  assert (Elog : mlog sts = mlog st) by (rewrite (sy_log _ _ _ SY); exact (op_log _ _ OP)).
  assert (Etab : mtabs sts = mtabs st) by (rewrite (sy_tabs _ _ _ SY); exact (op_tabs _ _ OP)).
  assert (Erec : forall s, seg_recs sts s = seg_recs st s) by (intros s; rewrite (sy_recs _ _ _ SY); exact (op_recs _ _ OP s)).
  rewrite <- Elog, <- Etab. apply pieces_loop.
  - exact (sy_inv _ _ _ SY).
  - intros s sg' E Hl. destruct (sy_old _ _ _ SY s sg' E) as [sg [Ea [R [A B]]]].
    destruct (in_dec Nat.eq_dec s (map snd ps)) as [Hin|Hnin]; [apply A; apply nodup_In; exact Hin|].
    assert (Hnil : seg_recs st s = []).
    { destruct (seg_recs st s) as [|b r] eqn:Er; [reflexivity|]. exfalso. apply Hnin.
      destruct (split_pieces_cover st cuts s b HB ltac:(lia) ltac:(rewrite Er; left; reflexivity)) as [c [H1 _]].
      apply in_map_iff. exists (c, s). auto. }
    rewrite <- Erec in Hnil. rewrite (seg_recs_some sts s sg' E) in Hnil.
    pose proof (i_syn _ (sy_inv _ _ _ SY) s sg' E) as Hle. rewrite Hnil in *. cbn in *. lia.
  - exact Hnd.
  - intros id Hid. rewrite Etab. apply Hfresh. exact Hid.
  - apply split_sorted_gen.
  - intros c s H. rewrite Elog. apply split_pieces_in in H. tauto.
  - intros c s b f H Hb. rewrite Erec. apply split_pieces_in in H. destruct H as [_ H]. eapply cut_pieces_sub; eauto.
  - intros t b Ht Hb. right. rewrite Erec in Hb. rewrite Elog in Ht. apply split_pieces_cover; assumption.
Qed.

Lemma inv_of_trace : forall sigma, proto_okb sigma = true -> Inv (prun sigma).
Proof.
  intros sigma H. replace sigma with (firstn (length sigma) sigma) by apply firstn_all. apply inv_prefix. exact H.
Qed.

Theorem recovery_pieces_accepted : recovery_pieces_accepted_stmt.
Proof.
  intros sigma c cuts ids Hok st Hf. apply recovery_full_ok; [|exact Hf]. apply inv_crash. apply inv_of_trace. exact Hok.
Qed.

Theorem generations_compose_pieces : generations_compose_pieces_stmt.
Proof.
  intros sigma c cuts ids sigma2 Hok st Hf H2. unfold proto_okb in *.
  rewrite okb_from_app. rewrite Hok. cbn [andb okb_from]. unfold okb at 1. cbn [obligations forallb andb].
  change (papply (run_from st0 sigma) (Crash c)) with st.
  pose proof (recovery_pieces_accepted sigma c cuts ids Hok Hf) as Hr. cbv zeta in Hr. fold st in Hr.
  rewrite okb_from_app. rewrite Hr. exact H2.
Qed.

(* ------------------------------------------------------------------ a crash inside the recovery *)
Lemma piece_events_quiet : forall ps lg ts ids, forallb quiet (piece_events lg ts ps ids) = true.
Proof.
  induction ps as [|[c s] ps IH]; intros lg ts ids; [reflexivity|].
  destruct ps as [|[c' s'] rest]; [reflexivity|]. destruct ids as [|id ids']; [reflexivity|].
  cbn [piece_events]. rewrite forallb_app. cbn [forallb quiet andb]. apply IH.
Qed.

Lemma recovery_full_quiet : forall st cuts ids, forallb quiet (recovery_full st cuts ids) = true.
Proof.
  intros st cuts ids. unfold recovery_full. rewrite forallb_app. apply andb_true_iff. split.
  - unfold writer_open. destruct (top_of st (seg_hi st)); [destruct (mlog st <=? n)|]; try reflexivity.
    destruct (recovery_plain_shape st) as [->|[a ->]]; reflexivity.
  - unfold recovery_pieces. destruct (1 <? length (split_pieces st cuts)); [|reflexivity].
    rewrite forallb_app. apply andb_true_iff. split; [|apply piece_events_quiet].
    induction (nodup Nat.eq_dec (map snd (split_pieces st cuts))); [reflexivity | exact IHl].
Qed.

Lemma crash_safe_inv : forall st c, Inv st ->
  exists l m, recover (do_crash st c) = Some l /\
              (forall b, In b (required st c) -> In (b, true) l) /\
              m <= next st /\
              (forall b, In (b, true) l <-> (b < m /\ alive st b = true)) /\
              (forall b, In (b, false) l -> In (b, true) l) /\
              (forall b f, In (b, f) l -> b < next st) /\
              (c = CProc -> m = next st).
Proof.
  intros st c I. pose proof (inv_crash st c I) as I'.
  destruct (recover_inv _ I') as [l [Hr [Hfull [Hpart Hlt]]]].
  assert (Hp : forall b, In (b, false) l -> In (b, true) l).
  { intros b Hb. apply Hfull. apply dp_dpr; [apply I'|]. apply Hpart. exact Hb. }
  assert (Hreq : forall b, In b (required st c) -> In (b, true) l).
  { intros b Hb. apply Hfull. destruct c as [|keep garb tkeep]; cbn [required] in Hb.
    - destruct (i_np _ I' b Hb) as [H1 H2]. apply live_dpr; assumption.
    - apply dp_dpr; [apply I'|]. apply (i_nw _ I' b). exact Hb. }
  assert (Hnext : next (do_crash st c) = next st) by (destruct c; reflexivity).
  destruct c as [|keep garb tkeep].
  - exists l, (next st). split; [exact Hr|]. split; [exact Hreq|]. split; [lia|].
    split; [|split; [exact Hp | split; [|reflexivity]]].
    + intros b. rewrite Hfull. rewrite (dpr_iff_live _ b I'). reflexivity.
    + intros b f H. rewrite <- Hnext. eapply Hlt. exact H.
  - destruct (pow_prefix st keep garb tkeep I) as [m [Hm Hchar]].
    exists l, m. split; [exact Hr|]. split; [exact Hreq|]. split; [exact Hm|].
    split; [|split; [exact Hp | split; [|discriminate]]].
    + intros b. rewrite Hfull. exact (Hchar b).
    + intros b f H. rewrite <- Hnext. eapply Hlt. exact H.
Qed.

Theorem crash_in_recovery_safe : crash_in_recovery_safe_stmt.
Proof.
  intros sigma c cuts ids Hok st Hf k c2 st2.
  assert (I : Inv st) by (apply inv_crash; apply inv_of_trace; exact Hok).
  pose proof (recovery_full_ok st cuts ids I Hf) as Hacc.
  assert (I2 : Inv st2) by (apply inv_run_from; [exact I | apply okb_from_firstn; exact Hacc]).
  destruct (quiet_run (firstn k (recovery_full st cuts ids)) st (forallb_firstn _ _ k (recovery_full_quiet st cuts ids)))
    as [A [B [C D]]].
  fold st2 in A, B, C, D. repeat (split; [assumption|]).
  apply crash_safe_inv. exact I2.
Qed.
