(* Crash/ProtoCheck.v — bounded exhaustive validation of the protocol statements (definitions). *)
From Coq Require Import List Arith Bool.
From SKV Require Import Crash.Proto.
Import ListNotations.

(* a small alphabet that can express two segments, a relog, a partial table, a flush and a
   compaction-like install, unlinks, a torn tail, and both kinds of crash inside the trace *)
Definition alphabet : list pevent :=
  [WalRotate 0; WalRotate 1; WalAppend 0 0; WalAppend 0 1; WalAppend 1 1; WalAppend 1 2; Relog 1 1; WalSync 0; WalSync 1;
   WalPartial 0; Ack 0 true; Ack 1 false; AckSync; TableWrite 1 [(0, true); (1, false)]; TableWrite 2 [(0, true); (1, true)];
   TableSync 1; TableSync 2; ManifestInstall 0 [1]; ManifestInstall 1 [1]; ManifestInstall 1 [2]; WalUnlink 0; TableUnlink 1;
   TornTailDrop 0; Crash CProc; Crash (CPow [(0, 0); (1, 0)] [0] [])].

Definition crashes : list pcrash :=
  [CProc; CPow [] [] []; CPow [(0, 0); (1, 0)] [] []; CPow [(0, 1); (1, 1)] [1] [1; 2]].

(* every ACCEPTED trace over the alphabet of length <= fuel: at every state both theorems
   (`crash_safe_b`) hold for the four crashes *)
Fixpoint explore (fuel : nat) (st : pstate) : bool :=
  forallb (crash_safe_b st) crashes &&
  match fuel with
  | O => true
  | S f => forallb (fun e => if okb st e then explore f (papply st e) else true) alphabet
  end.
