(* Crash/Fs.v — the file-system model of the crash properties (executable definitions only).

   A file is what the last fsync made durable plus the operations issued since; a disk is a finite
   map from paths to files.  A process crash keeps every completed operation.  A power loss keeps,
   per file, the fsynced content, then a prefix of the operations issued since, the last one of
   which may be a torn append; namespace operations (create, rename, unlink) are all kept, in the
   order issued — exactly the crash model the properties C02/C03/C07 state (and the one
   tools/vlib/crash.py implements for the recorded traces). *)
From Coq Require Import List Arith Bool.
Import ListNotations.

Inductive fop := FApp (bytes : list nat) | FTrunc (len : nat).

Record file := mkFile { f_synced : list nat; f_ops : list fop }.

Definition fop_apply (c : list nat) (o : fop) : list nat :=
  match o with
  | FApp b => c ++ b
  | FTrunc n => firstn n c
  end.

Definition content (f : file) : list nat := fold_left fop_apply (f_ops f) (f_synced f).

Definition disk := list (nat * file).

Fixpoint lookup (p : nat) (d : disk) : option file :=
  match d with
  | [] => None
  | (q, f) :: r => if Nat.eqb p q then Some f else lookup p r
  end.

Fixpoint remove (p : nat) (d : disk) : disk :=
  match d with
  | [] => []
  | (q, f) :: r => if Nat.eqb p q then remove p r else (q, f) :: remove p r
  end.

Definition store (p : nat) (f : file) (d : disk) : disk := (p, f) :: remove p d.

Inductive op :=
| Create (p : nat)                  (* open(O_CREAT|O_TRUNC) *)
| Append (p : nat) (b : list nat)
| Truncate (p : nat) (n : nat)
| Fsync (p : nat)
| Rename (p q : nat)
| Unlink (p : nat).

Definition with_file (p : nat) (d : disk) (g : file -> file) : disk :=
  match lookup p d with Some f => store p (g f) d | None => d end.

Definition fs_apply (d : disk) (o : op) : disk :=
  match o with
  | Create p => match lookup p d with
                | Some f => store p (mkFile (f_synced f) (f_ops f ++ [FTrunc 0])) d
                | None => store p (mkFile [] []) d
                end
  | Append p b => with_file p d (fun f => mkFile (f_synced f) (f_ops f ++ [FApp b]))
  | Truncate p n => with_file p d (fun f => mkFile (f_synced f) (f_ops f ++ [FTrunc n]))
  | Fsync p => with_file p d (fun f => mkFile (content f) [])
  | Rename p q => match lookup p d with Some f => store q f (remove p d) | None => d end
  | Unlink p => remove p d
  end.

Definition fs_run (d : disk) (l : list op) : disk := fold_left fs_apply l d.

(* ---- the two crash models *)
Definition fs_crash_proc_file (f : file) : file := mkFile (content f) [].
Definition fs_crash_proc (d : disk) : disk := map (fun pf => (fst pf, fs_crash_proc_file (snd pf))) d.

(* k whole pending operations survive and, if the next one is an append, its first j bytes *)
Definition torn (o : option fop) (j : nat) : list fop :=
  match o with Some (FApp b) => [FApp (firstn j b)] | _ => [] end.

Definition power_file (f : file) (k j : nat) : file :=
  mkFile (fold_left fop_apply (firstn k (f_ops f) ++ torn (nth_error (f_ops f) k) j) (f_synced f)) [].

(* a power-loss image is determined by a choice (k, j) per path *)
Definition fs_crash_power (ch : nat -> nat * nat) (d : disk) : disk :=
  map (fun pf => (fst pf, power_file (snd pf) (fst (ch (fst pf))) (snd (ch (fst pf))))) d.

(* the set of possible power-loss images, as a predicate *)
Definition power_image (d d' : disk) : Prop := exists ch, d' = fs_crash_power ch d.

Definition read (p : nat) (d : disk) : option (list nat) :=
  match lookup p d with Some f => Some (content f) | None => None end.

(* the manifest switch: write a temporary file, fsync it, rename it over the target *)
Definition atomic_replace (tmp target : nat) (new : list nat) : list op :=
  [Create tmp; Append tmp new; Fsync tmp; Rename tmp target; Fsync target].
