(* Crash/Proto.v — the engine's durability protocol at record level (executable definitions only).

   Abstraction.  A transaction batch is its index in the commit order (a nat).  A WAL segment is the
   ordered list of the batches whose COMPLETE record it holds, the number of leading records that
   were fsynced, and the state of the bytes after the last complete record (clean / a record being
   written / garbage left by a crash).  A table file is the list of batches it covers (each fully
   or only partly: `MemTable::add` inserts entry by entry and can stop midway with ArenaFull), with
   "fsynced" and "readable" flags.  The manifest is (log_number, table ids) and is replaced
   atomically (tmp file, fsync, rename — see Crash/Fs.v `atomic_replace_*`).

   `papply` : the effect of one protocol event on the abstract disk (+ ghost bookkeeping);
   `okb`    : the ordering obligations the implementation has to respect when it emits the event;
   `recover`: what `Core::new` reads back: the tables of the manifest, then the complete records of
              the segments >= log_number in order (None = the open fails);
   `Crash c`: a crash is itself an event of the trace (process crash, or power loss with the
              choice of what survives), so traces span any number of sessions. *)
From Coq Require Import List Arith Bool.
Import ListNotations.

Inductive wtail := Clean | Writing | Garbage.

Record seg := mkSeg { recs : list nat; synced : nat; tl : wtail }.
Record tab := mkTab { cov : list (nat * bool); tsynced : bool; tgood : bool }.

Record pstate := mkSt {
  segs : nat -> option seg;       (* WAL segment files by number *)
  seg_hi : nat;                   (* every present segment has a number < seg_hi *)
  tabs : nat -> option tab;       (* table files by id *)
  mlog : nat;                     (* manifest: log_number *)
  mtabs : list nat;               (* manifest: table ids *)
  next : nat;                     (* ghost: number of batches logged so far = id of the next commit *)
  dead : list nat;                (* ghost: batches an earlier power loss destroyed (never acknowledged durably) *)
  need_proc : list nat;           (* ghost: batches that have to survive a process crash *)
  need_pow : list nat             (* ghost: batches that have to survive a power loss *)
}.

(* what survives a power loss: per segment the number of complete records kept (clamped to
   [synced, all]; default all), the segments left with garbage after the last kept record, and the
   not-yet-fsynced table files that happen to be intact (the others are unreadable) *)
Inductive pcrash := CProc | CPow (keep : list (nat * nat)) (garb : list nat) (tkeep : list nat).

Inductive pevent :=
| WalRotate (s : nat)                       (* a new, highest, empty segment s is created *)
| WalPartial (s : nat)                      (* part of a record reaches the file *)
| WalAppend (s b : nat)                     (* the record of the NEW batch b is complete in s *)
| Relog (s b : nat)                         (* an already logged batch is logged again in s *)
| WalSync (s : nat)                         (* fsync of segment s *)
| Ack (b : nat) (durable : bool)            (* commit() of b returned Ok (durable: Durability::Immediate) *)
| AckSync                                   (* flush_wal(true) returned Ok *)
| TableWrite (id : nat) (c : list (nat * bool))
| TableSync (id : nat)
| ManifestInstall (n : nat) (ts : list nat) (* tmp + fsync + rename: log_number n, tables ts *)
| WalUnlink (s : nat)
| TableUnlink (id : nat)
| TornTailDrop (s : nat)                    (* create_writer: set_len(valid prefix) + fsync *)
| Crash (c : pcrash).

(* ------------------------------------------------------------------ small helpers *)
Definition memb (b : nat) (l : list nat) : bool := existsb (Nat.eqb b) l.

Fixpoint assoc (k : nat) (l : list (nat * nat)) : option nat :=
  match l with
  | [] => None
  | (k', v) :: r => if Nat.eqb k k' then Some v else assoc k r
  end.

Definition pupd {A : Type} (f : nat -> option A) (k : nat) (v : option A) : nat -> option A :=
  fun x => if Nat.eqb x k then v else f x.

Definition tail_eqb (a b : wtail) : bool :=
  match a, b with
  | Clean, Clean | Writing, Writing | Garbage, Garbage => true
  | _, _ => false
  end.

Definition alive (st : pstate) (b : nat) : bool := negb (memb b (dead st)).

Definition present (st : pstate) (s : nat) : bool :=
  match segs st s with Some _ => true | None => false end.

(* s is the highest present segment number (or above) *)
Definition is_top (st : pstate) (s : nat) : bool :=
  forallb (fun s' => negb (present st s') || (s' <=? s)) (seq 0 (seg_hi st)).

Definition srecs (sg : seg) : list nat := firstn (synced sg) (recs sg).
Definition urecs (sg : seg) : list nat := skipn (synced sg) (recs sg).

Definition seg_has (f : seg -> list nat) (st : pstate) (s b : nat) : bool :=
  match segs st s with Some sg => memb b (f sg) | None => false end.

(* b has a complete (resp. complete and fsynced) record in a present segment numbered >= n *)
Definition in_seg (st : pstate) (n b : nat) : bool :=
  existsb (fun s => seg_has recs st s b) (seq n (seg_hi st - n)).
Definition in_sseg (st : pstate) (n b : nat) : bool :=
  existsb (fun s => seg_has srecs st s b) (seq n (seg_hi st - n)).

Definition cov_has (full : bool) (c : list (nat * bool)) (b : nat) : bool :=
  existsb (fun p => Nat.eqb (fst p) b && Bool.eqb (snd p) full) c.

Definition tab_full (st : pstate) (id b : nat) : bool :=
  match tabs st id with Some t => tgood t && cov_has true (cov t) b | None => false end.

(* b is covered completely by a readable table among ts *)
Definition cov_full (st : pstate) (ts : list nat) (b : nat) : bool :=
  existsb (fun id => tab_full st id b) ts.

(* recoverable after a process crash / after a power loss, under a manifest (n, ts) *)
Definition dur_proc (st : pstate) (n : nat) (ts : list nat) (b : nat) : bool :=
  in_seg st n b || cov_full st ts b.
Definition dur_pow (st : pstate) (n : nat) (ts : list nat) (b : nat) : bool :=
  in_sseg st n b || cov_full st ts b.

Definition dp (st : pstate) (b : nat) : bool := dur_pow st (mlog st) (mtabs st) b.
Definition dpr (st : pstate) (b : nat) : bool := dur_proc st (mlog st) (mtabs st) b.

(* ------------------------------------------------------------------ recovery *)
Definition tabs_ok (st : pstate) : bool :=
  forallb (fun id => match tabs st id with Some t => tgood t | None => false end) (mtabs st).

Definition tab_cov (st : pstate) (id : nat) : list (nat * bool) :=
  match tabs st id with Some t => cov t | None => [] end.
Definition seg_recs (st : pstate) (s : nat) : list nat :=
  match segs st s with Some sg => recs sg | None => [] end.

(* Some l: the open succeeds; (b, true) in l: every write of batch b is recovered; (b, false):
   some writes of b are recovered from a table that holds only a part of b *)
Definition recover (st : pstate) : option (list (nat * bool)) :=
  if tabs_ok st then
    Some (flat_map (tab_cov st) (mtabs st)
          ++ map (fun b => (b, true)) (flat_map (seg_recs st) (seq (mlog st) (seg_hi st - mlog st))))
  else None.

(* ------------------------------------------------------------------ the two crash models *)
Definition crash_tail (t : wtail) : wtail := match t with Writing => Garbage | x => x end.

Definition crash_proc (st : pstate) : pstate :=
  mkSt (fun s => match segs st s with
                 | Some sg => Some (mkSeg (recs sg) (synced sg) (crash_tail (tl sg)))
                 | None => None end)
       (seg_hi st) (tabs st) (mlog st) (mtabs st) (next st) (dead st) (need_proc st) (need_pow st).

Definition keep_of (keep : list (nat * nat)) (s : nat) (sg : seg) : nat :=
  let k := match assoc s keep with Some k => k | None => length (recs sg) end in
  Nat.max (synced sg) (Nat.min k (length (recs sg))).

Definition pow_segs (st : pstate) (keep : list (nat * nat)) (garb : list nat) : nat -> option seg :=
  fun s => match segs st s with
           | Some sg => let k := keep_of keep s sg in
                        Some (mkSeg (firstn k (recs sg)) k (if memb s garb then Garbage else Clean))
           | None => None end.

Definition pow_tabs (st : pstate) (tkeep : list nat) : nat -> option tab :=
  fun id => match tabs st id with
            | Some t => if tsynced t then Some t
                        else Some (mkTab (cov t) true (tgood t && memb id tkeep))
            | None => None end.

Definition crash_pow (st : pstate) (keep : list (nat * nat)) (garb tkeep : list nat) : pstate :=
  let st1 := mkSt (pow_segs st keep garb) (seg_hi st) (pow_tabs st tkeep) (mlog st) (mtabs st)
                  (next st) (dead st) (need_pow st) (need_pow st) in
  let lost := filter (fun b => alive st b && negb (dpr st1 b)) (seq 0 (next st)) in
  mkSt (segs st1) (seg_hi st1) (tabs st1) (mlog st1) (mtabs st1) (next st1) (dead st ++ lost)
       (need_proc st1) (need_pow st1).

Definition do_crash (st : pstate) (c : pcrash) : pstate :=
  match c with
  | CProc => crash_proc st
  | CPow keep garb tkeep => crash_pow st keep garb tkeep
  end.

(* ------------------------------------------------------------------ effect of an event *)
Definition set_segs (st : pstate) (f : nat -> option seg) (hi : nat) : pstate :=
  mkSt f hi (tabs st) (mlog st) (mtabs st) (next st) (dead st) (need_proc st) (need_pow st).
Definition set_tabs (st : pstate) (f : nat -> option tab) : pstate :=
  mkSt (segs st) (seg_hi st) f (mlog st) (mtabs st) (next st) (dead st) (need_proc st) (need_pow st).

Definition map_seg (st : pstate) (s : nat) (f : seg -> seg) : pstate :=
  match segs st s with
  | Some sg => set_segs st (pupd (segs st) s (Some (f sg))) (seg_hi st)
  | None => st
  end.

Definition papply (st : pstate) (e : pevent) : pstate :=
  match e with
  | WalRotate s => set_segs st (pupd (segs st) s (Some (mkSeg [] 0 Clean))) (Nat.max (seg_hi st) (S s))
  | WalPartial s => map_seg st s (fun sg => mkSeg (recs sg) (synced sg) Writing)
  | WalAppend s b =>
      let st' := map_seg st s (fun sg => mkSeg (recs sg ++ [b]) (synced sg) Clean) in
      mkSt (segs st') (seg_hi st') (tabs st') (mlog st') (mtabs st') (S (next st)) (dead st')
           (need_proc st') (need_pow st')
  | Relog s b => map_seg st s (fun sg => mkSeg (recs sg ++ [b]) (synced sg) Clean)
  | WalSync s => map_seg st s (fun sg => mkSeg (recs sg) (length (recs sg)) (tl sg))
  | TornTailDrop s => map_seg st s (fun sg => mkSeg (recs sg) (length (recs sg)) Clean)
  | Ack b d =>
      mkSt (segs st) (seg_hi st) (tabs st) (mlog st) (mtabs st) (next st) (dead st)
           (b :: need_proc st) (if d then b :: need_pow st else need_pow st)
  | AckSync =>
      mkSt (segs st) (seg_hi st) (tabs st) (mlog st) (mtabs st) (next st) (dead st)
           (need_proc st) (need_proc st ++ need_pow st)
  | TableWrite id c => set_tabs st (pupd (tabs st) id (Some (mkTab c false true)))
  | TableSync id =>
      match tabs st id with
      | Some t => set_tabs st (pupd (tabs st) id (Some (mkTab (cov t) true (tgood t))))
      | None => st
      end
  | ManifestInstall n ts =>
      mkSt (segs st) (seg_hi st) (tabs st) n ts (next st) (dead st) (need_proc st) (need_pow st)
  | WalUnlink s => set_segs st (pupd (segs st) s None) (seg_hi st)
  | TableUnlink id => set_tabs st (pupd (tabs st) id None)
  | Crash c => do_crash st c
  end.

(* ------------------------------------------------------------------ obligations *)
(* every present segment numbered >= log_number is completely fsynced and no record is in progress *)
Definition all_synced (st : pstate) : bool :=
  forallb (fun s => match segs st s with
                    | Some sg => (s <? mlog st) || (Nat.eqb (synced sg) (length (recs sg)) && negb (tail_eqb (tl sg) Writing))
                    | None => true end) (seq 0 (seg_hi st)).

(* P5: the segment appended to exists, is the highest one, is not below log_number, and the bytes
   after its last complete record are not garbage *)
Definition can_append (st : pstate) (s : nat) : bool :=
  match segs st s with
  | Some sg => is_top st s && (mlog st <=? s) && negb (tail_eqb (tl sg) Garbage)
  | None => false
  end.

Definition tab_ready (st : pstate) (id : nat) : bool :=
  match tabs st id with Some t => tsynced t && tgood t | None => false end.

Definition cov_ids_ok (st : pstate) (id : nat) : bool :=
  forallb (fun p => (fst p <? next st) && alive st (fst p)) (tab_cov st id).

Definition batches (st : pstate) : list nat := seq 0 (next st).

(* obligations of ManifestInstall n ts, one by one *)
Definition mi_mono (st : pstate) (n : nat) : bool := mlog st <=? n.
(* P7 *)
Definition mi_p7 (st : pstate) (ts : list nat) : bool := forallb (tab_ready st) ts.
(* P10: installed tables hold only live, logged batches *)
Definition mi_p10 (st : pstate) (ts : list nat) : bool := forallb (cov_ids_ok st) ts.
(* P2 (process crash): every live logged batch has a complete record in a segment >= n or is
   completely in the tables *)
Definition mi_p2 (st : pstate) (n : nat) (ts : list nat) : bool :=
  forallb (fun b => negb (alive st b) || dur_proc st n ts b) (batches st).
(* P2 (power loss): a batch that was power-durable stays power-durable *)
Definition mi_p2s (st : pstate) (n : nat) (ts : list nat) : bool :=
  forallb (fun b => negb (dp st b) || dur_pow st n ts b) (batches st).
(* P8: a batch of which a table holds only a part is power-durable as a whole *)
Definition mi_p8 (st : pstate) (n : nat) (ts : list nat) : bool :=
  forallb (fun id => forallb (fun p => snd p || dur_pow st n ts (fst p)) (tab_cov st id)) ts.
(* P9: the power-durable batches are closed downwards in commit order (memtables are flushed
   oldest first) *)
Definition mi_p9 (st : pstate) (n : nat) (ts : list nat) : bool :=
  forallb (fun b' => negb (dur_pow st n ts b')
                     || forallb (fun b => negb (alive st b) || dur_pow st n ts b) (seq 0 b')) (batches st).

(* obligation codes reported by `viol` *)
Definition first_fail (l : list (bool * nat)) : nat :=
  match find (fun p => negb (fst p)) l with Some p => snd p | None => 0 end.

Definition obligations (st : pstate) (e : pevent) : list (bool * nat) :=
  match e with
  | WalRotate s => [(is_top st s && negb (present st s), 51); (all_synced st, 61)]
  | WalPartial s => [(can_append st s, 5)]
  | WalAppend s b => [(Nat.eqb b (next st), 11); (can_append st s, 5)]
  | Relog s b => [(b <? next st, 12); (dp st b, 13); (can_append st s, 5)]
  | WalSync s => []
  | TornTailDrop s => [(match segs st s with Some sg => negb (tail_eqb (tl sg) Writing) | None => false end, 52)]
  | Ack b d => [(b <? next st, 1); (alive st b, 14); (negb d || dp st b, 15)]
  | AckSync => [(forallb (dp st) (need_proc st), 16)]
  | TableWrite id c => [(negb (memb id (mtabs st)), 72)]   (* a leftover file outside the manifest may be overwritten *)
  | TableSync id => [(negb (memb id (mtabs st)), 73)]
  | ManifestInstall n ts =>
      [(mi_mono st n, 20); (mi_p7 st ts, 7); (mi_p10 st ts, 10); (mi_p2 st n ts, 2); (mi_p2s st n ts, 21);
       (mi_p8 st n ts, 8); (mi_p9 st n ts, 9)]
  | WalUnlink s => [(s <? mlog st, 3)]
  | TableUnlink id => [(negb (memb id (mtabs st)), 4)]
  | Crash c => []
  end.

Definition okb (st : pstate) (e : pevent) : bool := forallb fst (obligations st e).
Definition viol (st : pstate) (e : pevent) : nat := first_fail (obligations st e).

Definition st0 : pstate := mkSt (fun _ => None) 0 (fun _ => None) 0 [] 0 [] [] [].

Definition run_from (st : pstate) (sigma : list pevent) : pstate := fold_left papply sigma st.
Definition prun (sigma : list pevent) : pstate := run_from st0 sigma.

Fixpoint okb_from (st : pstate) (sigma : list pevent) : bool :=
  match sigma with
  | [] => true
  | e :: r => okb st e && okb_from (papply st e) r
  end.
Definition proto_okb (sigma : list pevent) : bool := okb_from st0 sigma.

(* index of the first rejected event and the code of the violated obligation *)
Fixpoint err_from (st : pstate) (i : nat) (sigma : list pevent) : option (nat * nat) :=
  match sigma with
  | [] => None
  | e :: r => if okb st e then err_from (papply st e) (S i) r else Some (i, viol st e)
  end.
Definition proto_err (sigma : list pevent) : option (nat * nat) := err_from st0 0 sigma.

(* ------------------------------------------------------------------ recovery's own events *)
(* what `Core::new` does to the files when no segment has to be split: the WAL writer is reopened
   on the highest segment and drops a torn tail (set_len + fsync) *)
Fixpoint top_of (st : pstate) (n : nat) : option nat :=
  match n with
  | O => None
  | S m => if present st m then Some m else top_of st m
  end.

Definition recovery_plain (st : pstate) : list pevent :=
  match top_of st (seg_hi st) with
  | Some a =>
      match segs st a with
      | Some sg => if (mlog st <=? a) && tail_eqb (tl sg) Garbage then [TornTailDrop a] else []
      | None => []
      end
  | None => []
  end.

(* flushing one piece of a replayed segment: the table with coverage c, then the manifest *)
Definition flush_piece (st : pstate) (id : nat) (c : list (nat * bool)) (n : nat) : list pevent :=
  [TableWrite id c; TableSync id; ManifestInstall n (mtabs st ++ [id])].

(* ------------------------------------------------------------------ recovery with pieces (repaired code) *)
(* `Core::new`: (1) the WAL writer is opened on max(log_number, highest segment) — a new segment when
   every existing one is below log_number, else the highest one, whose torn tail is dropped;
   (2) every segment >= log_number is replayed into memtables, a new memtable ("piece") whenever the
   current one is full — possibly in the middle of a batch, in which case the full memtable keeps the
   entries inserted so far and the next one receives the whole batch; (3) if there is more than one
   piece: every replayed segment is fsynced, then every piece but the last is flushed (table, fsync,
   manifest), with log_number = segment + 1 exactly when the NEXT piece belongs to a later segment,
   else log_number unchanged (never lowered); (4) the last piece is the active memtable. *)
Definition writer_open (st : pstate) : list pevent :=
  match top_of st (seg_hi st) with
  | Some a => if mlog st <=? a then recovery_plain st else [WalRotate (mlog st)]
  | None => [WalRotate (mlog st)]
  end.

Definition piece := (list (nat * bool) * nat)%type.     (* coverage, segment replayed *)

Definition full_part (l : list nat) : list (nat * bool) := map (fun b => (b, true)) l.

(* cuts = where the memtable filled up: (number of whole batches in the piece, did the next batch
   start in it?) — any list of cuts is allowed *)
Fixpoint cut_pieces (l : list nat) (cuts : list (nat * bool)) : list (list (nat * bool)) :=
  match cuts with
  | [] => [full_part l]
  | (n, p) :: cs =>
      let r := skipn n l in
      (full_part (firstn n l) ++ (if p then match r with b :: _ => [(b, false)] | [] => [] end else []))
        :: cut_pieces r cs
  end.

Definition nonempty {A : Type} (l : list A) : bool := match l with [] => false | _ => true end.

Definition seg_pieces (st : pstate) (cuts : nat -> list (nat * bool)) (s : nat) : list piece :=
  map (fun c => (c, s)) (filter nonempty (cut_pieces (seg_recs st s) (cuts s))).

Definition split_pieces (st : pstate) (cuts : nat -> list (nat * bool)) : list piece :=
  flat_map (seg_pieces st cuts) (seq (mlog st) (seg_hi st - mlog st)).

(* flushing all pieces but the last; lg / ts = the manifest as it stands *)
Fixpoint piece_events (lg : nat) (ts : list nat) (ps : list piece) (ids : list nat) : list pevent :=
  match ps, ids with
  | (c, s) :: (((_, s') :: _) as rest), id :: ids' =>
      let n := Nat.max lg (if s <? s' then S s else s) in
      [TableWrite id c; TableSync id; ManifestInstall n (ts ++ [id])] ++ piece_events n (ts ++ [id]) rest ids'
  | _, _ => []
  end.

Definition recovery_pieces (st : pstate) (ps : list piece) (ids : list nat) : list pevent :=
  if 1 <? length ps
  then map WalSync (nodup Nat.eq_dec (map snd ps)) ++ piece_events (mlog st) (mtabs st) ps ids
  else [].

Definition recovery_full (st : pstate) (cuts : nat -> list (nat * bool)) (ids : list nat) : list pevent :=
  writer_open st ++ recovery_pieces st (split_pieces st cuts) ids.

(* ------------------------------------------------------------------ executable test oracles *)
Definition rec_has (full : bool) (r : option (list (nat * bool))) (b : nat) : bool :=
  match r with Some l => cov_has full l b | None => false end.

(* the recovered complete batches are exactly the live batches below m, and nothing partial *)
Definition prefix_okb (st : pstate) (r : option (list (nat * bool))) (m : nat) : bool :=
  match r with
  | None => false
  | Some l =>
      forallb (fun b => Bool.eqb (cov_has true l b) ((b <? m) && alive st b)) (seq 0 (S (next st)))
      && forallb (fun p => snd p || cov_has true l (fst p)) l
      && forallb (fun p => fst p <? next st) l
  end.

Definition prefix_bound (st : pstate) (r : option (list (nat * bool))) : nat :=
  match find (fun b => alive st b && negb (rec_has true r b)) (seq 0 (next st)) with
  | Some m => m
  | None => next st
  end.

(* both theorems for one state and one crash, as a boolean (used for randomised validation) *)
Definition crash_safe_b (st : pstate) (c : pcrash) : bool :=
  let r := recover (do_crash st c) in
  forallb (rec_has true r) (match c with CProc => need_proc st | CPow _ _ _ => need_pow st end)
  && prefix_okb st r (prefix_bound st r)
  && match c with CProc => Nat.eqb (prefix_bound st r) (next st) | CPow _ _ _ => true end.
