(* Crash/FailSpec.v — the C15 statements about the commit-log writer under I/O failures
   (model: Crash/Fail.v; reader, framing and the C12 theorems: Codec/Wal*.v).
   Proved (or refuted with a witness) in Fail_proofs.v / FailInst_proofs.v; restated in Props/C15.v.

   A run = a list of Wal commands executed from the freshly opened segment under ARBITRARY answer
   functions of write(2) and fsync (every pattern of short writes and errors, transient or not).
   `acked` = the payloads whose append returned Ok, `emitted` = those whose fragment loop completed
   (acknowledged ones, and those that failed only in the flush that ends add_record).
   What a crash leaves of the current segment is `cur_file` (the BufWriter buffer is lost). *)
From Coq Require Import List NArith Arith Bool Lia.
From SKV Require Import Codec.Wal Codec.WalSpec Crash.Fail.
Import ListNotations.

Section FailSpec.
Variable B : nat.
Variable C : nat.
Variable crc : N -> list byte -> list byte.
Variable compress : list byte -> list byte.
Variable decompress : list byte -> option (list byte).

Definition fail_geometry : Prop := geometry_ok B crc /\ B <= C.

(* the bytes a fault-free writer produces for a list of records *)
Definition Wf (ps : list (list byte)) : list byte := fst (add_records B crc compress false 0 ps).
Definition run1 (wenv : nat -> wresp) (senv : nat -> bool) (cs : list wcmd) := frun B C crc wenv senv wal0 cs.
Definition delivered (a : wal) : list (list byte) := records B crc decompress (cur_file a).

Definition quiet (r : fres) : bool := is_ok r || fres_eqb FRejected r.

(* ---- the two plain statements of the property (both are refuted on the instance, see FailInst_proofs.v) *)
(* no record of a failed append is ever delivered after a crash *)
Definition failed_invisible_after_crash_stmt : Prop :=
  forall wenv senv cs a rs, no_rotate cs = true -> run1 wenv senv cs = (a, rs) ->
    forall p, In p (delivered a) -> In p (acked cs rs).
(* every acknowledged append is delivered after a crash *)
Definition later_acks_recovered_stmt : Prop :=
  forall wenv senv cs a rs, no_rotate cs = true -> run1 wenv senv cs = (a, rs) ->
    forall p, In p (acked cs rs) -> In p (delivered a).

(* ---- what does hold ---- *)
(* T1: as long as no append failed BETWEEN two writes of one record, file ++ buffer is exactly the
   byte stream of a fault-free writer for the emitted records, and block_offset is in step with it
   — whatever short writes and errors happened *)
Definition fm_stream_wellformed_stmt : Prop :=
  fail_geometry ->
  forall wenv senv cs a rs, no_rotate cs = true -> run1 wenv senv cs = (a, rs) ->
    known_mid_emit_failure rs = false ->
    cur_file a ++ cur_buf a = Wf (emitted cs rs) /\
    r_boff (a_w a) = snd (add_records B crc compress false 0 (emitted cs rs)).

(* T2 (later_acks_recovered, outside the known class): without a mid-record failure, once the buffer
   is drained (any later successful append or flush does it) a crash delivers exactly the emitted
   records, in order, then a clean end of log; the acknowledged ones are a subsequence of them *)
Definition later_acks_recovered_outside_known_stmt : Prop :=
  fail_geometry ->
  forall wenv senv cs a rs, no_rotate cs = true -> run1 wenv senv cs = (a, rs) ->
    known_mid_emit_failure rs = false ->
    cur_buf a = [] ->
    delivered a = emitted cs rs /\ snd (read_all B crc decompress (cur_file a)) = Eof /\
    is_subseq (acked cs rs) (emitted cs rs) = true.

(* a successful append / flush leaves the buffer empty *)
Definition fm_ok_drains_stmt : Prop :=
  fail_geometry ->
  forall wenv senv a c a', fstep B C crc wenv senv a c = (a', FOk) ->
    match c with CAppend (_ :: _) | CFlush => cur_buf a' = [] | _ => True end.

(* T3 (failed_invisible_after_crash, outside the known classes): if the writer is not used again
   after its first failure and no fsync failed, a crash delivers EXACTLY the acknowledged records:
   the failed record is at most a torn tail *)
Definition failed_invisible_after_crash_outside_known_stmt : Prop :=
  fail_geometry ->
  forall wenv senv cs a rs, no_rotate cs = true -> run1 wenv senv cs = (a, rs) ->
    known_used_after_failure rs = false -> known_fsync_failed rs = false ->
    delivered a = acked cs rs.

(* T0: short writes alone never make a command fail *)
Definition env_no_error (wenv : nat -> wresp) (senv : nat -> bool) : Prop :=
  (forall i, wenv i <> WErr /\ wenv i <> WShort 0) /\ (forall i, senv i = true).
Definition short_writes_harmless_stmt : Prop :=
  fail_geometry ->
  forall wenv senv cs a rs, env_no_error wenv senv -> run1 wenv senv cs = (a, rs) ->
    forallb quiet rs = true.


(* ================= the repaired Wal (`failed` flag: xstep / xrun of Crash/Fail.v) ================= *)
Definition xrun1 (wenv : nat -> wresp) (senv : nat -> bool) (cs : list xcmd) := xrun B C crc wenv senv walx0 cs.
Definition xdelivered (x : walx) : list (list byte) := records B crc decompress (cur_file (x_wal x)).
Definition xquiet (r : xres) : bool := match r with XOk | XRejected => true | _ => false end.

(* X1: for EVERY pattern of short writes and errors, every command sequence (close and commands after a
   failure included), a crash delivers exactly the acknowledged appends, in order — no exclusion *)
Definition crash_delivers_exactly_acked_stmt : Prop :=
  fail_geometry ->
  forall wenv senv cs x rs, xno_rotate cs = true -> xrun1 wenv senv cs = (x, rs) ->
    xdelivered x = xacked cs rs.
(* the two plain statements of the property, now theorems *)
Definition xfailed_invisible_after_crash_stmt : Prop :=
  fail_geometry ->
  forall wenv senv cs x rs, xno_rotate cs = true -> xrun1 wenv senv cs = (x, rs) ->
    forall p, In p (xdelivered x) -> In p (xacked cs rs).
Definition xlater_acks_recovered_stmt : Prop :=
  fail_geometry ->
  forall wenv senv cs x rs, xno_rotate cs = true -> xrun1 wenv senv cs = (x, rs) ->
    forall p, In p (xacked cs rs) -> In p (xdelivered x).

(* X2: the failure is sticky: once a command failed or was refused, no append is acknowledged any more
   (any command sequence, rotate included) *)
Definition no_ack_after_failure_stmt : Prop :=
  forall wenv senv cs x rs, xrun1 wenv senv cs = (x, rs) -> xack_after false cs rs = false.

(* X3: short writes alone never make a command fail (before close) *)
Definition xshort_writes_harmless_stmt : Prop :=
  fail_geometry ->
  forall wenv senv cs x rs, env_no_error wenv senv -> xno_close cs = true -> xrun1 wenv senv cs = (x, rs) ->
    forallb xquiet rs = true.

End FailSpec.
