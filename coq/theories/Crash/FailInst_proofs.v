(* Crash/FailInst_proofs.v — REGRESSION RECORD: the two plain C15 statements about the commit-log writer were
   FALSE for the writer as it was before the repair of C15-N1/N2/N10 (`frun`, Crash/Fail.v); the same
   inputs on the repaired Wal (`xrun`) are at the end of this file.  Original header: the statements are FALSE for the
   code as it was (block size and BufWriter capacity 32768, CRC-32): concrete witnesses, evaluated by
   vm_compute on precomputed definitions.  Both witnesses use a single transient EIO, the fault
   `VERIF_SHIM_FAIL=2:eio:wal/` of the engine; tools/vlib/c15.py replays them on the real writer. *)
From Coq Require Import List NArith Arith Bool.
From SKV Require Import Params Base.Crc32 Codec.Wal Codec.WalSpec Codec.WalInst Crash.Fail Crash.FailSpec Crash.FailParams Crash.FailInst.
Import ListNotations.

Definition nod (l : list byte) : option (list byte) := None.
Fixpoint ll_eqb (a b : list (list byte)) : bool :=
  match a, b with [], [] => true | x :: r, y :: q => list_eqb x y && ll_eqb r q | _, _ => false end.

(* the second write(2) on the segment fails once *)
Definition w_wenv := plan_wenv 2 KErr false.
Definition w_senv := plan_senv 2 KErr false.

(* ---- witness 1: three small records; the flush of the second one fails; its bytes stay in the
   BufWriter and reach the file with the third record: the failed record is delivered *)
Definition w1_cmds : list wcmd := [CAppend [1%N]; CAppend [2%N]; CAppend [3%N]].
Definition w1_run : wal * list fres := Eval vm_compute in fi_run w_wenv w_senv wal0 w1_cmds.
Definition w1_delivered : list (list byte) := Eval vm_compute in delivered WB wal_crc nod (fst w1_run).
Definition w1_acked : list (list byte) := Eval vm_compute in acked w1_cmds (snd w1_run).

Lemma w1_run_eq : run1 WB FC wal_crc w_wenv w_senv w1_cmds = w1_run.
Proof. vm_compute. reflexivity. Qed.
Lemma w1_results : snd w1_run = [FOk; FFailFlush; FOk].
Proof. vm_compute. reflexivity. Qed.
Lemma w1_delivered_eq : delivered WB wal_crc nod (fst w1_run) = [[1%N]; [2%N]; [3%N]].
Proof. vm_compute. reflexivity. Qed.
Lemma w1_acked_eq : acked w1_cmds (snd w1_run) = [[1%N]; [3%N]].
Proof. vm_compute. reflexivity. Qed.

Theorem failed_invisible_after_crash_refuted : ~ failed_invisible_after_crash_stmt WB FC wal_crc nod.
Proof.
  intro H.
  specialize (H w_wenv w_senv w1_cmds (fst w1_run) (snd w1_run) eq_refl).
  rewrite w1_run_eq in H. specialize (H (surjective_pairing _) [2%N]).
  rewrite w1_delivered_eq, w1_acked_eq in H.
  assert (Hin : In [2%N] [[1%N]; [2%N]; [3%N]]) by (right; left; reflexivity).
  destruct (H Hin) as [E|[E|[]]]; discriminate.
Qed.

(* the witness is inside both known classes of T3 and outside the class of T2 *)
Lemma w1_classes : known_used_after_failure (snd w1_run) = true /\ known_mid_emit_failure (snd w1_run) = false.
Proof. vm_compute. auto. Qed.

(* ---- witness 2: a record of two fragments (40000 bytes); the first write of that record — the flush
   that makes room for the data of the second fragment — fails: the header of the second fragment
   stays buffered, block_offset does not advance.  The next append succeeds and is acknowledged, and
   the reader stops at the stale header: the acknowledged record is lost *)
Definition w2_cmds : list wcmd := [CAppend [1%N]; CAppend (repeat 7%N 40000); CAppend [3%N]].
(* the final state holds a 40 KB file: only its small projections are normalised *)
Definition w2_state : wal := fst (fi_run w_wenv w_senv wal0 w2_cmds).
Definition w2_results : list fres := Eval vm_compute in snd (fi_run w_wenv w_senv wal0 w2_cmds).
Definition w2_delivered : list (list byte) := Eval vm_compute in delivered WB wal_crc nod w2_state.
Definition w2_acked : list (list byte) := Eval vm_compute in acked w2_cmds w2_results.

Lemma w2_snd : snd (fi_run w_wenv w_senv wal0 w2_cmds) = w2_results.
Proof. vm_compute. reflexivity. Qed.
Lemma w2_run_eq : run1 WB FC wal_crc w_wenv w_senv w2_cmds = (w2_state, w2_results).
Proof.
  rewrite <- w2_snd. unfold w2_state, run1, fi_run. apply surjective_pairing.
Qed.
Lemma w2_results_eq : w2_results = [FOk; FFailEmit; FOk].
Proof. reflexivity. Qed.
Lemma w2_delivered_eq : delivered WB wal_crc nod w2_state = [[1%N]].
Proof. vm_compute. reflexivity. Qed.
Lemma w2_acked_eq : acked w2_cmds w2_results = [[1%N]; [3%N]].
Proof. vm_compute. reflexivity. Qed.
Lemma w2_drained : cur_buf w2_state = [].
Proof. vm_compute. reflexivity. Qed.
(* block_offset is 7 bytes behind the stream after the failed append *)
Lemma w2_desync : (length (cur_file w2_state) mod WB =? r_boff (a_w w2_state) + 7) = true.
Proof. vm_compute. reflexivity. Qed.

Theorem later_acks_recovered_refuted : ~ later_acks_recovered_stmt WB FC wal_crc nod.
Proof.
  intro H.
  specialize (H w_wenv w_senv w2_cmds w2_state w2_results eq_refl w2_run_eq [3%N]).
  rewrite w2_acked_eq, w2_delivered_eq in H.
  destruct (H (or_intror (or_introl eq_refl))) as [E|[]]; discriminate.
Qed.

Lemma w2_classes : known_mid_emit_failure w2_results = true.
Proof. vm_compute. reflexivity. Qed.

(* ================================================================== the same inputs on the repaired Wal *)
Definition x1_cmds : list xcmd := [XC (CAppend [1%N]); XC (CAppend [2%N]); XC (CAppend [3%N]); XClose].
Definition x1_results : list xres := Eval vm_compute in snd (fi_xrun w_wenv w_senv walx0 x1_cmds).
Lemma x1_regression :
  snd (fi_xrun w_wenv w_senv walx0 x1_cmds) = [XOk; XFail FFailFlush; XRefused; XOk] /\
  xdelivered WB wal_crc nod (fst (fi_xrun w_wenv w_senv walx0 x1_cmds)) = [[1%N]] /\
  xacked x1_cmds x1_results = [[1%N]] /\ cur_buf (x_wal (fst (fi_xrun w_wenv w_senv walx0 x1_cmds))) = [].
Proof. repeat split; vm_compute; reflexivity. Qed.

Definition x2_cmds : list xcmd := [XC (CAppend [1%N]); XC (CAppend (repeat 7%N 40000)); XC (CAppend [3%N]); XC CSync; XClose].
Definition x2_results : list xres := Eval vm_compute in snd (fi_xrun w_wenv w_senv walx0 x2_cmds).
Lemma x2_results_eq : x2_results = [XOk; XFail FFailEmit; XRefused; XRefused; XOk].
Proof. reflexivity. Qed.
Lemma x2_delivered : xdelivered WB wal_crc nod (fst (fi_xrun w_wenv w_senv walx0 x2_cmds)) = [[1%N]].
Proof. vm_compute. reflexivity. Qed.
Lemma x2_acked : xacked x2_cmds x2_results = [[1%N]].
Proof. vm_compute. reflexivity. Qed.

(* what remains, at the level of a sync COMMIT (append + sync): the fsync fails when the record is already in the
   file: the commit fails, the record is delivered (store level: C15-N3).  Per append nothing is wrong:
   the append WAS acknowledged. *)
Definition x3_cmds : list xcmd := [XC (CAppend [1%N]); XC CSync; XC (CAppend [2%N])].
Definition x3_wenv := plan_wenv 1 KFsync false.
Definition x3_senv := plan_senv 1 KFsync false.
Definition x3_results : list xres := Eval vm_compute in snd (fi_xrun x3_wenv x3_senv walx0 x3_cmds).
Lemma x3_fsync_failed :
  x3_results = [XOk; XFail FFailFsync; XRefused] /\ xknown_fsync_failed x3_results = true /\
  xdelivered WB wal_crc nod (fst (fi_xrun x3_wenv x3_senv walx0 x3_cmds)) = [[1%N]] /\
  xacked x3_cmds x3_results = [[1%N]].
Proof. repeat split; vm_compute; reflexivity. Qed.

(* ---- the instance meets the hypotheses of the positive theorems ---- *)
Lemma fail_params_side_conditions : fail_params_ok = true.
Proof. vm_compute. reflexivity. Qed.
