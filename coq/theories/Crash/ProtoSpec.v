(* Crash/ProtoSpec.v — statements about the protocol model Crash/Proto.v (no proofs here). *)
From Coq Require Import List Arith Bool.
From SKV Require Import Crash.Proto.
Import ListNotations.

(* batches a crash of kind c has to preserve: everything acknowledged for a process crash; what was
   acknowledged with Durability::Immediate or before a flush_wal(true) for a power loss *)
Definition required (st : pstate) (c : pcrash) : list nat :=
  match c with CProc => need_proc st | CPow _ _ _ => need_pow st end.

(* C02.  For every accepted trace (which may itself contain earlier crashes and the recoveries that
   followed them), every cut point and both crash models: the store opens and every batch whose
   acknowledgement obliges the store for that kind of crash is recovered completely. *)
Definition durable_after_crash_stmt : Prop :=
  forall (sigma : list pevent), proto_okb sigma = true ->
  forall (n : nat) (c : pcrash),
    let st := prun (firstn n sigma) in
    exists l, recover (do_crash st c) = Some l /\
              forall b, In b (required st c) -> In (b, true) l.

(* C03.  ... the recovered batches are exactly the live batches (those no earlier power loss
   destroyed) below some bound m in commit order: whole transactions, no gaps; a batch of which a
   table holds only a part is recovered as a whole from the WAL; after a process crash nothing that
   was logged is missing (m = next). *)
Definition recover_is_prefix_stmt : Prop :=
  forall (sigma : list pevent), proto_okb sigma = true ->
  forall (n : nat) (c : pcrash),
    let st := prun (firstn n sigma) in
    exists l m, recover (do_crash st c) = Some l /\ m <= next st /\
                (forall b, In (b, true) l <-> (b < m /\ alive st b = true)) /\
                (forall b, In (b, false) l -> In (b, true) l) /\
                (c = CProc -> m = next st).

(* C07.  Every crash image of an accepted trace opens; opening it, crashing the process during or
   after the recovery's own file operations and opening again gives the same batches; whatever is
   committed afterwards is numbered after everything recovered. *)
Definition same_batches (l l' : list (nat * bool)) : Prop :=
  forall b, In (b, true) l <-> In (b, true) l'.

Definition reopen_ok_stmt : Prop :=
  forall (sigma : list pevent), proto_okb sigma = true ->
  forall (n : nat) (c : pcrash),
    let st := do_crash (prun (firstn n sigma)) c in
    exists l, recover st = Some l /\
              (forall b f, In (b, f) l -> b < next st) /\
              (* the recovery procedure's own events are accepted, and a process crash after any
                 number of them recovers the same batches *)
              okb_from st (recovery_plain st) = true /\
              forall k, exists l', recover (crash_proc (run_from st (firstn k (recovery_plain st)))) = Some l' /\ same_batches l l'.

(* multi-generation composition: a trace, a crash, the recovery's events and a further accepted
   continuation form again an accepted trace — so the three statements above apply to histories
   with any number of sessions *)
Definition generations_compose_stmt : Prop :=
  forall (sigma : list pevent) (c : pcrash) (sigma2 : list pevent),
    proto_okb sigma = true ->
    let st := do_crash (prun sigma) c in
    okb_from (run_from st (recovery_plain st)) sigma2 = true ->
    proto_okb (sigma ++ Crash c :: recovery_plain st ++ sigma2) = true.

(* accepted traces are prefix closed *)
Definition proto_ok_prefix_stmt : Prop :=
  forall (sigma : list pevent) (n : nat), proto_okb sigma = true -> proto_okb (firstn n sigma) = true.

(* recovery's flush of one piece of a replayed segment (table with coverage c, fsync, manifest with
   the log_number unchanged) is accepted whenever everything the segments >= log_number hold is on
   disk — which is the case right after a power loss — and the piece holds only batches of those
   segments.  (After a PROCESS crash it is not — which is why the repaired recovery fsyncs the replayed segments
   first: recovery_pieces_accepted below; the old recovery: Crash/ProtoRefute.v
   recovery_piece_unsynced_old_recovery_refuted.) *)
Definition on_disk (st : pstate) : Prop :=
  forall s sg, segs st s = Some sg -> mlog st <= s -> synced sg = length (recs sg).

Definition piece_flush_accepted_stmt : Prop :=
  forall (sigma : list pevent) (c : pcrash) (id : nat) (cv : list (nat * bool)),
    proto_okb sigma = true ->
    let st := do_crash (prun sigma) c in
    on_disk st ->
    tabs st id = None -> ~ In id (mtabs st) ->
    (forall b f, In (b, f) cv -> exists s sg, mlog st <= s /\ segs st s = Some sg /\ In b (recs sg)) ->
    okb_from st (flush_piece st id cv (mlog st)) = true.

Definition power_loss_on_disk_stmt : Prop :=
  forall (sigma : list pevent) keep garb tkeep,
    proto_okb sigma = true -> on_disk (do_crash (prun sigma) (CPow keep garb tkeep)).

(* ------------------------------------------------------------------ recovery with pieces (repaired code) *)
(* `recovery_full st cuts ids`: what Core::new does to the files after a crash left the state st, for
   ANY way `cuts` of splitting the replayed segments into memtable-sized pieces (also in the middle
   of a batch) and any supply `ids` of table ids that are pairwise distinct and not in the manifest. *)
Definition fresh_ids (st : pstate) (ids : list nat) : Prop :=
  NoDup ids /\ forall id, In id ids -> ~ In id (mtabs st).

(* after EITHER kind of crash, at any point of an accepted trace, the events of that recovery are
   accepted by the obligations — false for the recovery before c9fa42b / 372cb98, see
   Crash/ProtoRefute.v recovery_piece_unsynced_old_recovery_refuted and
   recovery_nonlast_split_old_recovery_refuted *)
Definition recovery_pieces_accepted_stmt : Prop :=
  forall (sigma : list pevent) (c : pcrash) (cuts : nat -> list (nat * bool)) (ids : list nat),
    proto_okb sigma = true ->
    let st := do_crash (prun sigma) c in
    fresh_ids st ids ->
    okb_from st (recovery_full st cuts ids) = true.

(* hence a trace, a crash, that recovery and an accepted continuation are again an accepted trace:
   durable_after_crash, recover_is_prefix and reopen_ok apply to every cut of it, in particular to
   cuts INSIDE the recovery *)
Definition generations_compose_pieces_stmt : Prop :=
  forall (sigma : list pevent) (c : pcrash) (cuts : nat -> list (nat * bool)) (ids : list nat) (sigma2 : list pevent),
    proto_okb sigma = true ->
    let st := do_crash (prun sigma) c in
    fresh_ids st ids ->
    okb_from (run_from st (recovery_full st cuts ids)) sigma2 = true ->
    proto_okb (sigma ++ Crash c :: recovery_full st cuts ids ++ sigma2) = true.

(* spelled out: a second crash c2, of either kind, after any number k of the recovery's events:
   the store opens; what had to survive the first crash (the recovery acknowledges nothing and
   logs nothing) is recovered completely; the recovered batches are the live ones below a bound, the
   bound is `next` for a process crash; nothing is recovered in part; ids stay below `next` *)
Definition crash_in_recovery_safe_stmt : Prop :=
  forall (sigma : list pevent) (c : pcrash) (cuts : nat -> list (nat * bool)) (ids : list nat),
    proto_okb sigma = true ->
    let st := do_crash (prun sigma) c in
    fresh_ids st ids ->
    forall (k : nat) (c2 : pcrash),
      let st2 := run_from st (firstn k (recovery_full st cuts ids)) in
      need_proc st2 = need_proc st /\ need_pow st2 = need_pow st /\ next st2 = next st /\ dead st2 = dead st /\
      exists l m, recover (do_crash st2 c2) = Some l /\
                  (forall b, In b (required st2 c2) -> In (b, true) l) /\
                  m <= next st2 /\
                  (forall b, In (b, true) l <-> (b < m /\ alive st2 b = true)) /\
                  (forall b, In (b, false) l -> In (b, true) l) /\
                  (forall b f, In (b, f) l -> b < next st2) /\
                  (c2 = CProc -> m = next st2).
