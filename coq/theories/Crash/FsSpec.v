(* Crash/FsSpec.v — statements about the file-system model. *)
From Coq Require Import List Arith Bool.
From SKV Require Import Crash.Fs.
Import ListNotations.

(* an fsynced file reads the same after either crash *)
Definition fsync_durable_stmt : Prop :=
  forall (d : disk) (p : nat) (ch : nat -> nat * nat),
    read p (fs_crash_power ch (fs_apply d (Fsync p))) = read p (fs_apply d (Fsync p)) /\
    read p (fs_crash_proc (fs_apply d (Fsync p))) = read p (fs_apply d (Fsync p)).

(* a process crash loses nothing *)
Definition crash_proc_keeps_stmt : Prop :=
  forall (d : disk) (p : nat), read p (fs_crash_proc d) = read p d.

(* an append-only file (a WAL segment, a table being written) reads after a power loss as its
   fsynced content followed by a prefix of what was appended since *)
Definition appends_only (f : file) : Prop := forall o, In o (f_ops f) -> exists b, o = FApp b.

Definition append_only_prefix_stmt : Prop :=
  forall (f : file) (k j : nat), appends_only f ->
    exists n, length (f_synced f) <= n /\ content (power_file f k j) = firstn n (content f).

(* the manifest switch is atomic under both crash models: at every cut of the five operations the
   target path reads as the old or as the new content *)
Definition atomic_replace_stmt : Prop :=
  forall (d : disk) (tmp target : nat) (old new : list nat) (n : nat) (ch : nat -> nat * nat),
    tmp <> target -> lookup tmp d = None -> lookup target d = Some (mkFile old []) ->
    let d' := fs_run d (firstn n (atomic_replace tmp target new)) in
    (read target (fs_crash_power ch d') = Some old \/ read target (fs_crash_power ch d') = Some new) /\
    (read target (fs_crash_proc d') = Some old \/ read target (fs_crash_proc d') = Some new).
