(* Crash/Fail_proofs.v — proofs of the statements of Crash/FailSpec.v about the model Crash/Fail.v. *)
From Coq Require Import List NArith Arith Bool Lia Sorted.
From SKV Require Import Codec.Wal Codec.WalSpec Codec.Wal_proofs Crash.Fail Crash.FailSpec.
Import ListNotations.

Arguments N.add : simpl never.
Arguments N.sub : simpl never.
Arguments N.eqb : simpl never.
Arguments N.ltb : simpl never.
Arguments N.leb : simpl never.
Arguments N.of_nat : simpl never.
Arguments N.to_nat : simpl never.
Arguments Nat.div : simpl never.
Arguments Nat.modulo : simpl never.

Ltac b2p :=
  repeat match goal with
  | E : (_ <? _) = true |- _ => apply Nat.ltb_lt in E
  | E : (_ <? _) = false |- _ => apply Nat.ltb_ge in E
  | E : (_ <=? _) = true |- _ => apply Nat.leb_le in E
  | E : (_ <=? _) = false |- _ => apply Nat.leb_gt in E
  | E : (_ =? _) = true |- _ => apply Nat.eqb_eq in E
  | E : (_ =? _) = false |- _ => apply Nat.eqb_neq in E
  end.

Section Proofs.
Variable B : nat.
Variable C : nat.
Variable crc : N -> list byte -> list byte.
Variable wenv : nat -> wresp.
Variable senv : nat -> bool.

Notation sys_write := (sys_write wenv).
Notation flush_buf := (flush_buf wenv).
Notation bw_flush := (bw_flush wenv).
Notation write_all := (write_all C wenv).
Notation append := (append C wenv).
Notation maybe_switch := (maybe_switch B C wenv).
Notation emit_phys := (emit_phys C crc wenv).
Notation emit_f := (emit_f B C crc wenv).
Notation add_record_f := (add_record_f B C crc wenv).

Definition bstream (s : bw) : list byte := b_file s ++ b_buf s.
Definition stream (w : wr) : list byte := bstream (r_bw w).
(* the file only grows *)
Definition fext (s s' : bw) : Prop := exists t, b_file s' = b_file s ++ t.

Lemma fext_refl : forall s, fext s s.
Proof. intros s. exists []. now rewrite app_nil_r. Qed.
Lemma fext_trans : forall a b c, fext a b -> fext b c -> fext a c.
Proof. intros a b c [t1 H1] [t2 H2]. exists (t1 ++ t2). rewrite H2, H1. now rewrite app_assoc. Qed.

(* ------------------------------------------------------------------ write(2) *)
Lemma sys_write_spec : forall s data s' w,
  data <> [] ->
  sys_write s data = (s', w) ->
  b_buf s' = b_buf s /\
  match w with
  | None => b_file s' = b_file s
  | Some k => 0 < k /\ k <= length data /\ b_file s' = b_file s ++ firstn k data
  end.
Proof.
  intros s data s' w Hne Hw. unfold Fail.sys_write in Hw.
  destruct (wenv (b_wc s)) as [|k|].
  - inversion Hw; subst; cbn [b_file b_buf]. split; [reflexivity|].
    split. { destruct data; [congruence|cbn; lia]. }
    split; [lia|]. now rewrite firstn_all.
  - destruct (Nat.min k (length data)) as [|k'] eqn:Em.
    + inversion Hw; subst; cbn [b_file b_buf]. auto.
    + inversion Hw; subst; cbn [b_file b_buf]. split; [reflexivity|]. split; [lia|]. split; [lia|reflexivity].
  - inversion Hw; subst; cbn [b_file b_buf]. auto.
Qed.

(* ------------------------------------------------------------------ flush_buf *)
Lemma flush_buf_spec : forall fuel s s' ok,
  flush_buf fuel s = (s', ok) ->
  bstream s' = bstream s /\ fext s s' /\
  (ok = true -> b_buf s' = []) /\
  (ok = false -> length (b_buf s) < fuel -> b_buf s' <> []).
Proof.
  induction fuel as [|f IH]; intros s s' ok Hf.
  - cbn in Hf. destruct (b_buf s) as [|x r] eqn:Eb; inversion Hf; subst.
    + repeat split; auto using fext_refl. intros; congruence.
    + repeat split; auto using fext_refl. congruence. cbn. lia.
  - cbn [Fail.flush_buf] in Hf. destruct (b_buf s) as [|x r] eqn:Eb.
    + inversion Hf; subst. repeat split; auto using fext_refl. congruence.
    + destruct (sys_write s (x :: r)) as [s1 w] eqn:Ew.
      destruct (sys_write_spec s (x :: r) s1 w ltac:(congruence) Ew) as [Hb Hw].
      destruct w as [k|].
      * destruct Hw as [Hk0 [Hk Hfile]].
        specialize (IH _ _ _ Hf). cbn [b_file b_buf] in IH.
        destruct IH as [Hs [Hx [Hok Hnok]]].
        split.
        { rewrite Hs. unfold bstream. cbn [b_file b_buf]. rewrite Hfile, Eb, <- app_assoc. f_equal.
          apply firstn_skipn. }
        split.
        { eapply fext_trans; [|exact Hx]. exists (firstn k (x :: r)). cbn [b_file]. exact Hfile. }
        split. exact Hok.
        intros Hf0 Hlen. apply Hnok; auto. cbn [b_buf]. rewrite skipn_length. cbn [length] in *. lia.
      * inversion Hf; subst. unfold bstream. rewrite Hb, Hw. repeat split; auto.
        { exists []. now rewrite app_nil_r. }
        { congruence. }
        { intros _ _. rewrite Eb. congruence. }
Qed.

Lemma bw_flush_spec : forall s s' ok,
  bw_flush s = (s', ok) ->
  bstream s' = bstream s /\ fext s s' /\
  (ok = true -> b_buf s' = []) /\ (ok = false -> b_buf s' <> []).
Proof.
  intros s s' ok Hf. unfold Fail.bw_flush in Hf.
  destruct (flush_buf_spec _ _ _ _ Hf) as [A [Bx [Cx D]]].
  repeat split; auto.
Qed.

Lemma bw_flush_empty : forall s, b_buf s = [] -> bw_flush s = (s, true).
Proof.
  intros s Hb. unfold Fail.bw_flush. rewrite Hb. cbn [length Fail.flush_buf]. rewrite Hb. reflexivity.
Qed.

(* ------------------------------------------------------------------ write_all, data shorter than the capacity *)
Lemma write_all_spec : forall s data s' ok,
  length data < C ->
  write_all s data = (s', ok) ->
  fext s s' /\
  (ok = true -> bstream s' = bstream s ++ data) /\
  (ok = false -> bstream s' = bstream s /\ data <> [] /\ b_buf s' <> []).
Proof.
  intros s data s' ok Hlen Hw. unfold Fail.write_all in Hw.
  destruct (length data <? C - length (b_buf s)) eqn:E1.
  - inversion Hw; subst. split. { exists []. cbn. now rewrite app_nil_r. }
    split; [|congruence]. intros _. unfold bstream, buffer. cbn. now rewrite app_assoc.
  - destruct (C - length (b_buf s) <? length data) eqn:E2.
    + destruct (bw_flush s) as [s1 ok1] eqn:Ef.
      destruct (bw_flush_spec _ _ _ Ef) as [Hs [Hx [Hok Hnok]]].
      destruct ok1; cbn [negb] in Hw.
      * assert (E3 : (C <=? length data) = false) by (apply Nat.leb_gt; lia).
        rewrite E3 in Hw. inversion Hw; subst.
        split. { destruct Hx as [t Ht]. exists t. exact Ht. }
        split; [|congruence]. intros _. unfold bstream, buffer in *. cbn. rewrite app_assoc, Hs. reflexivity.
      * inversion Hw; subst. split; [exact Hx|]. split; [congruence|]. intros _.
        split; [exact Hs|]. split.
        { b2p. intro E. subst data. cbn in E2. lia. }
        { apply Hnok. reflexivity. }
    + cbn [negb] in Hw.
      assert (E3 : (C <=? length data) = false) by (apply Nat.leb_gt; lia).
      rewrite E3 in Hw. inversion Hw; subst.
      split. { exists []. cbn. now rewrite app_nil_r. }
      split; [|congruence]. intros _. unfold bstream, buffer. cbn. now rewrite app_assoc.
Qed.

Definition wext (w w' : wr) : Prop := fext (r_bw w) (r_bw w').

Lemma append_spec : forall w data w' ok,
  length data < C ->
  append w data = (w', ok) ->
  wext w w' /\ r_boff w' = r_boff w /\
  (ok = true -> stream w' = stream w ++ data) /\
  (ok = false -> stream w' = stream w /\ data <> [] /\ b_buf (r_bw w') <> []).
Proof.
  intros w data w' ok Hlen Ha. unfold Fail.append in Ha.
  destruct (write_all (r_bw w) data) as [s ok'] eqn:Ew. inversion Ha; subst. clear Ha.
  destruct (write_all_spec _ _ _ _ Hlen Ew) as [Hx [H1 H2]].
  unfold wext, stream. cbn [r_bw r_boff]. auto.
Qed.

(* ------------------------------------------------------------------ the writer *)
Hypothesis HB : 7 < B.
Hypothesis HC : B <= C.
Hypothesis Hcrc : forall t d, length (crc t d) = 4.

Lemma header_len : forall ty d, length (header crc ty d) = 7.
Proof. intros. unfold header. rewrite app_length, Hcrc. reflexivity. Qed.

Definition padof (off : nat) : list byte := if B - off <? H then repeat 0%N (B - off) else [].
Definition off1of (off : nat) : nat := if B - off <? H then 0 else off.

Lemma maybe_switch_spec : forall w w' ok,
  maybe_switch w = (w', ok) ->
  wext w w' /\
  (ok = true -> stream w' = stream w ++ padof (r_boff w) /\ r_boff w' = off1of (r_boff w)) /\
  (ok = false -> stream w' = stream w /\ r_boff w' = r_boff w /\ padof (r_boff w) <> [] /\ b_buf (r_bw w') <> []).
Proof.
  intros w w' ok Hm. unfold Fail.maybe_switch in Hm. unfold padof, off1of.
  destruct (B - r_boff w <? H) eqn:E.
  - destruct (append w (repeat 0%N (B - r_boff w))) as [w1 ok1] eqn:Ea.
    assert (Hl : length (repeat 0%N (B - r_boff w)) < C).
    { rewrite repeat_length. unfold H in E. b2p. lia. }
    destruct (append_spec _ _ _ _ Hl Ea) as [Hx [Hb [H1 H2]]].
    destruct ok1; inversion Hm; subst.
    + split. exact Hx. split; [|congruence]. intros _. split. apply H1; reflexivity. reflexivity.
    + split. exact Hx. split; [congruence|]. intros _. destruct (H2 eq_refl) as [A [Bq Cq]]. auto.
  - inversion Hm; subst. split. apply fext_refl. split; [|congruence].
    intros _. now rewrite app_nil_r.
Qed.

Lemma emit_phys_spec : forall w ty d w' ok,
  length d < C ->
  emit_phys w ty d = (w', ok) ->
  wext w w' /\
  (ok = true -> stream w' = stream w ++ phys crc ty d /\ r_boff w' = r_boff w + H + length d) /\
  (ok = false -> r_boff w' = r_boff w /\ b_buf (r_bw w') <> [] /\
                 exists q q2, stream w' = stream w ++ q /\ phys crc ty d = q ++ q2 /\ q2 <> []).
Proof.
  intros w ty d w' ok Hd He. unfold Fail.emit_phys in He.
  destruct (append w (header crc ty d)) as [w1 ok1] eqn:E1.
  assert (Hh : length (header crc ty d) < C) by (rewrite header_len; lia).
  destruct (append_spec _ _ _ _ Hh E1) as [Hx1 [Hb1 [H1a H1b]]].
  destruct ok1; cbn [negb] in He.
  - destruct (append w1 d) as [w2 ok2] eqn:E2.
    destruct (append_spec _ _ _ _ Hd E2) as [Hx2 [Hb2 [H2a H2b]]].
    destruct ok2; cbn [negb] in He; inversion He; subst.
    + split. { eapply fext_trans; eauto. }
      split; [|congruence]. intros _. unfold set_boff, stream in *. cbn [r_bw r_boff].
      rewrite (H2a eq_refl), (H1a eq_refl). unfold phys. rewrite app_assoc. split; [reflexivity|]. lia.
    + split. { eapply fext_trans; eauto. }
      split; [congruence|]. intros _. destruct (H2b eq_refl) as [A [Bq Cq]].
      split. lia. split. exact Cq.
      exists (header crc ty d), d. rewrite A, (H1a eq_refl). auto.
  - inversion He; subst. split. exact Hx1. split; [congruence|]. intros _.
    destruct (H1b eq_refl) as [A [Bq Cq]]. split. exact Hb1. split. exact Cq.
    exists [], (phys crc ty d). rewrite app_nil_r. split. exact A. split. reflexivity.
    unfold phys. intro E. apply app_eq_nil in E. destruct E as [E _]. apply Bq. exact E.
Qed.

Lemma emit_f_spec : forall fuel w p begin w' ok,
  emit_f fuel w p begin = (w', ok) ->
  exists q, stream w' = stream w ++ q /\ wext w w' /\
    (ok = true -> q = fst (emit B crc fuel (r_boff w) p begin) /\ r_boff w' = snd (emit B crc fuel (r_boff w) p begin)) /\
    (ok = false -> b_buf (r_bw w') <> [] /\ exists q2, fst (emit B crc fuel (r_boff w) p begin) = q ++ q2 /\ q2 <> []).
Proof.
  induction fuel as [|f IH]; intros w p begin w' ok He.
  - cbn in He. inversion He; subst. exists []. rewrite app_nil_r. split; [reflexivity|].
    split. apply fext_refl. split. auto. congruence.
  - cbn [Fail.emit_f] in He. cbn [emit].
    destruct (maybe_switch w) as [w1 ok1] eqn:Em.
    destruct (maybe_switch_spec _ _ _ Em) as [Hx1 [Hm1 Hm2]].
    unfold padof, off1of in Hm1, Hm2.
    destruct ok1; cbn [negb] in He.
    2:{ inversion He; subst. destruct (Hm2 eq_refl) as [A [Bq [Cq Dq]]].
        exists []. rewrite app_nil_r. split. exact A. split. exact Hx1. split. congruence.
        intros _. split. exact Dq.
        destruct (B - r_boff w <? H) eqn:E; [|congruence].
        match goal with |- context [if ?c then _ else _] => idtac end.
        eexists. split; [reflexivity|].
        cbv zeta.
        destruct (Nat.min (length p) (B - 0 - H) =? length p);
          [| destruct (emit B crc f _ _ false)]; cbn [fst]; intro E0.
        - apply app_eq_nil in E0. destruct E0 as [E0 _]. auto.
        - apply app_eq_nil in E0. destruct E0 as [E0 _]. apply app_eq_nil in E0. destruct E0 as [E0 _]. auto. }
    destruct (Hm1 eq_refl) as [Hs1 Ho1]. clear Hm1 Hm2.
    set (off1 := if B - r_boff w <? H then 0 else r_boff w) in *.
    set (pad := if B - r_boff w <? H then repeat 0%N (B - r_boff w) else []) in *.
    rewrite Ho1 in He.
    set (n := Nat.min (length p) (B - off1 - H)) in *.
    set (ty := if begin then if n =? length p then T_FULL else T_FIRST else if n =? length p then T_LAST else T_MIDDLE) in *.
    destruct (emit_phys w1 ty (firstn n p)) as [w2 ok2] eqn:Ep.
    assert (Hfl : length (firstn n p) < C).
    { rewrite firstn_length. unfold n, H. lia. }
    destruct (emit_phys_spec _ _ _ _ _ Hfl Ep) as [Hx2 [Hp1 Hp2]].
    destruct ok2; cbn [negb] in He.
    2:{ inversion He; subst. destruct (Hp2 eq_refl) as [Hb [Hbuf [q [q2 [Hs [Hq Hq2]]]]]].
        exists (pad ++ q). split. { rewrite Hs, Hs1. now rewrite app_assoc. }
        split. { eapply fext_trans; eauto. }
        split. congruence. intros _. split. exact Hbuf.
        destruct (n =? length p) eqn:En.
        - exists q2. cbn [fst]. fold ty. rewrite Hq. rewrite <- app_assoc. auto.
        - destruct (emit B crc f (off1 + H + n) (skipn n p) false) as [more off3].
          exists (q2 ++ more). cbn [fst]. fold ty. rewrite Hq. rewrite <- !app_assoc. split; [reflexivity|].
          intro E0. apply app_eq_nil in E0. destruct E0; auto. }
    destruct (Hp1 eq_refl) as [Hs2 Ho2]. clear Hp1 Hp2.
    rewrite firstn_length in Ho2.
    assert (Hmin : Nat.min n (length p) = n) by (unfold n; lia).
    rewrite Hmin in Ho2. rewrite Ho1 in Ho2.
    destruct (n =? length p) eqn:En.
    + inversion He; subst.
      exists (pad ++ phys crc ty (firstn n p)). split. { rewrite Hs2, Hs1. now rewrite app_assoc. }
      split. { eapply fext_trans; eauto. }
      split; [|congruence]. intros _. cbn [fst snd]. fold ty. split; [reflexivity|]. exact Ho2.
    + specialize (IH _ _ _ _ _ He). destruct IH as [q [Hs3 [Hx3 [Hok Hnok]]]].
      rewrite Ho2 in Hok, Hnok.
      destruct (emit B crc f (off1 + H + n) (skipn n p) false) as [more off3] eqn:Ee.
      cbn [fst snd] in Hok, Hnok.
      exists (pad ++ phys crc ty (firstn n p) ++ q).
      split. { rewrite Hs3, Hs2, Hs1. now rewrite !app_assoc. }
      split. { eapply fext_trans; [|exact Hx3]. eapply fext_trans; eauto. }
      split.
      * intros Eok. destruct (Hok Eok) as [A Bq]. subst q. cbn [fst snd]. fold ty.
        split. { now rewrite !app_assoc. } exact Bq.
      * intros Eok. destruct (Hnok Eok) as [A [q2 [Bq Cq]]]. split. exact A.
        exists q2. cbn [fst]. fold ty. rewrite Bq. rewrite !app_assoc. auto.
Qed.

(* ------------------------------------------------------------------ add_record *)
Variable compress : list byte -> list byte.
Variable decompress : list byte -> option (list byte).
Notation addrecs := (add_records B crc compress false).
Notation Wb := (W B crc compress).
Notation readall := (read_all B crc decompress).

Lemma add_record_f_spec : forall w p w' r,
  add_record_f w p = (w', r) ->
  let bytes := fst (add_record B crc compress false (r_boff w) p) in
  wext w w' /\ (r = FOk \/ r = FFailEmit \/ r = FFailFlush) /\
  (is_emitted r = true -> stream w' = stream w ++ bytes /\
                          r_boff w' = snd (add_record B crc compress false (r_boff w) p)) /\
  (r = FOk -> b_buf (r_bw w') = []) /\
  (r <> FOk -> b_buf (r_bw w') <> [] /\
               exists q q2, stream w' = stream w ++ q /\ bytes = q ++ q2).
Proof.
  intros w p w' r Ha. cbv zeta. unfold Fail.add_record_f in Ha. unfold add_record.
  destruct (emit_f (2 * length p + 2) w p true) as [w1 ok] eqn:Ee.
  destruct (emit_f_spec _ _ _ _ _ _ Ee) as [q [Hs [Hx [Hok Hnok]]]].
  destruct ok; cbn [negb] in Ha.
  - destruct (Hok eq_refl) as [Hq Hb]. subst q.
    destruct (bw_flush (r_bw w1)) as [s ok2] eqn:Ef.
    destruct (bw_flush_spec _ _ _ Ef) as [Hs2 [Hx2 [Ho2 Hn2]]].
    inversion Ha; subst. clear Ha.
    split. { unfold wext in *. cbn [set_bw r_bw]. eapply fext_trans; eauto. }
    split. { destruct ok2; auto. }
    assert (Hst : stream (set_bw w1 s) = stream w ++ fst (emit B crc (2 * length p + 2) (r_boff w) p true)).
    { unfold stream, set_bw. cbn [r_bw]. rewrite Hs2. exact Hs. }
    split. { intros _. split. exact Hst. cbn [set_bw r_boff]. exact Hb. }
    split. { intros E. destruct ok2; [|congruence]. cbn [set_bw r_bw]. auto. }
    intros E. destruct ok2; [congruence|]. split. { cbn [set_bw r_bw]. auto. }
    exists (fst (emit B crc (2 * length p + 2) (r_boff w) p true)), []. split. exact Hst. now rewrite app_nil_r.
  - inversion Ha; subst. clear Ha.
    destruct (Hnok eq_refl) as [Hbuf [q2 [Hq Hq2]]].
    split. exact Hx. split. auto. split. { cbn. congruence. }
    split. congruence. intros _. split. exact Hbuf. exists q, q2. auto.
Qed.

(* ------------------------------------------------------------------ one segment: the stream invariant *)
Definition INV (a : wal) (em : list (list byte)) : Prop :=
  stream (a_w a) = Wb em /\ r_boff (a_w a) = snd (addrecs 0 em).

Lemma addrecs_snoc : forall em x p,
  addrecs 0 (em ++ [x :: p]) =
  (fst (addrecs 0 em) ++ fst (add_record B crc compress false (snd (addrecs 0 em)) (x :: p)),
   snd (add_record B crc compress false (snd (addrecs 0 em)) (x :: p))).
Proof.
  intros em x p. rewrite add_records_app.
  destruct (addrecs 0 em) as [a o1]. cbn [fst snd]. cbn [add_records].
  destruct (add_record B crc compress false o1 (x :: p)) as [b o2]. cbn [fst snd].
  now rewrite app_nil_r.
Qed.

Lemma INV0 : INV (wal0) [].
Proof. split; reflexivity. Qed.

Lemma sel_cons_app : forall keep x p r cs rs,
  sel keep (CAppend (x :: p) :: cs) (r :: rs) = (if keep r then [x :: p] else []) ++ sel keep cs rs.
Proof. intros. cbn [sel]. destruct (keep r); reflexivity. Qed.

Lemma frun_length : forall cs a a' rs, frun B C crc wenv senv a cs = (a', rs) -> length rs = length cs.
Proof.
  induction cs as [|c cs IH]; intros a a' rs Hr; cbn [frun] in Hr.
  - inversion Hr; reflexivity.
  - destruct (fstep B C crc wenv senv a c) as [a1 x]. destruct (frun B C crc wenv senv a1 cs) as [a2 xs] eqn:E.
    inversion Hr; subst. cbn [length]. f_equal. eapply IH; eauto.
Qed.

(* flush and sync do not touch the stream *)
Lemma do_flush_spec : forall a a' r, do_flush wenv a = (a', r) ->
  stream (a_w a') = stream (a_w a) /\ r_boff (a_w a') = r_boff (a_w a) /\ wext (a_w a) (a_w a') /\
  (r = FOk \/ r = FFailFlush) /\ (r = FOk -> b_buf (r_bw (a_w a')) = []) /\
  (b_buf (r_bw (a_w a)) = [] -> r = FOk /\ a_w a' = a_w a).
Proof.
  intros a a' r Hf. unfold Fail.do_flush in Hf.
  destruct (bw_flush (r_bw (a_w a))) as [s ok] eqn:Ef.
  destruct (bw_flush_spec _ _ _ Ef) as [Hs [Hx [Ho Hn]]].
  inversion Hf; subst. clear Hf. cbn [set_w a_w set_bw r_bw r_boff]. unfold stream. cbn [r_bw].
  split. exact Hs. split. reflexivity. split. exact Hx.
  split. { destruct ok; auto. } split. { destruct ok; [auto|congruence]. }
  intros Eb. rewrite (bw_flush_empty _ Eb) in Ef. inversion Ef; subst.
  split. reflexivity. destruct (a_w a) as [bwx bo ps]. reflexivity.
Qed.

Lemma do_sync_spec : forall a a' r, do_sync wenv senv a = (a', r) ->
  stream (a_w a') = stream (a_w a) /\ r_boff (a_w a') = r_boff (a_w a) /\ wext (a_w a) (a_w a') /\
  (r = FOk \/ r = FFailFlush \/ r = FFailFsync) /\
  (b_buf (r_bw (a_w a)) = [] -> b_buf (r_bw (a_w a')) = [] /\ b_file (r_bw (a_w a')) = b_file (r_bw (a_w a)) /\ r <> FFailFlush) /\
  a_closed a' = a_closed a.
Proof.
  intros a a' r Hf. unfold Fail.do_sync in Hf.
  destruct (r_psync (a_w a)); cbn [negb] in Hf.
  - destruct (bw_flush (r_bw (a_w a))) as [s ok] eqn:Ef.
    destruct (bw_flush_spec _ _ _ Ef) as [Hs [Hx [Ho Hn]]].
    assert (Hemp : b_buf (r_bw (a_w a)) = [] -> s = r_bw (a_w a) /\ ok = true).
    { intros Eb. rewrite (bw_flush_empty _ Eb) in Ef. inversion Ef; auto. }
    destruct ok; cbn [negb] in Hf.
    + destruct (senv (a_sc a)); inversion Hf; subst; clear Hf; cbn [a_w a_closed set_bw r_bw r_boff]; unfold stream; cbn [r_bw];
        (split; [exact Hs|]); (split; [reflexivity|]); (split; [exact Hx|]); (split; [auto|]);
        (split; [|reflexivity]); intros Eb; destruct (Hemp Eb) as [E1 _]; subst s; rewrite Eb; repeat split; congruence.
    + inversion Hf; subst; clear Hf. cbn [set_w a_w a_closed set_bw r_bw r_boff]. unfold stream. cbn [r_bw].
      split. exact Hs. split. reflexivity. split. exact Hx. split. auto.
      split; [|reflexivity]. intros Eb. destruct (Hemp Eb) as [_ E2]. congruence.
  - inversion Hf; subst. split. reflexivity. split. reflexivity. split. apply fext_refl. split. auto.
    split; [|reflexivity]. intros Eb. repeat split; auto. congruence.
Qed.

(* T1 *)
Lemma run_inv : forall cs a em a' rs,
  no_rotate cs = true -> INV a em ->
  frun B C crc wenv senv a cs = (a', rs) ->
  known_mid_emit_failure rs = false ->
  INV a' (em ++ emitted cs rs).
Proof.
  induction cs as [|c cs IH]; intros a em a' rs Hnr Hinv Hr Hmid; cbn [frun] in Hr.
  - inversion Hr; subst. cbn. now rewrite app_nil_r.
  - destruct (fstep B C crc wenv senv a c) as [a1 x] eqn:Es.
    destruct (frun B C crc wenv senv a1 cs) as [a2 xs] eqn:Er.
    inversion Hr; subst. clear Hr.
    cbn [no_rotate forallb] in Hnr. apply andb_true_iff in Hnr. destruct Hnr as [Hc Hnr].
    unfold known_mid_emit_failure in Hmid. cbn [existsb] in Hmid. apply orb_false_iff in Hmid. destruct Hmid as [Hx Hmid].
    destruct Hinv as [Hst Hbo].
    destruct c as [p| | |]; [| | |discriminate]; cbn [fstep] in Es.
    + destruct p as [|b p].
      * inversion Es; subst. cbn [emitted sel]. apply (IH _ _ _ _ Hnr (conj Hst Hbo) Er Hmid).
      * destruct (add_record_f (a_w a) (b :: p)) as [w r] eqn:Ea. inversion Es; subst. clear Es.
        destruct (add_record_f_spec _ _ _ _ Ea) as [_ [Hr3 [Hem _]]].
        unfold emitted. rewrite sel_cons_app.
        assert (He : is_emitted x = true).
        { destruct Hr3 as [E|[E|E]]; subst x; try reflexivity. discriminate. }
        rewrite He. rewrite app_assoc.
        apply (IH (set_w a w) (em ++ [b :: p]) a' xs Hnr); auto.
        destruct (Hem He) as [H1 H2]. unfold INV, W in *. cbn [set_w a_w]. rewrite !addrecs_snoc. cbn [fst snd].
        split. { rewrite H1, Hst, Hbo. reflexivity. } rewrite H2, Hbo. reflexivity.
    + destruct (do_flush_spec _ _ _ Es) as [H1 [H2 _]]. cbn [emitted sel].
      apply (IH a1 em a' xs Hnr); auto. split; congruence.
    + destruct (do_sync_spec _ _ _ Es) as [H1 [H2 _]]. cbn [emitted sel].
      apply (IH a1 em a' xs Hnr); auto. split; congruence.
Qed.

Lemma sel_nonempty : forall keep cs rs, filter nonempty (sel keep cs rs) = sel keep cs rs.
Proof.
  intros keep. induction cs as [|c cs IH]; intros rs. reflexivity.
  destruct rs as [|r rs]. { destruct c as [[|x p]| | |]; reflexivity. }
  destruct c as [[|x p]| | |]; cbn [sel]; auto.
  destruct (keep r); cbn [filter nonempty]; rewrite IH; reflexivity.
Qed.

(* subsequences *)
Lemma subseq_aux : forall b,
  (forall a y, is_subseq a b = true -> is_subseq a (y :: b) = true) /\
  (forall x a, is_subseq (x :: a) b = true -> is_subseq a b = true).
Proof.
  induction b as [|z b [IH1 IH2]].
  - split. { intros [|x a] y Hs; [reflexivity|discriminate]. } intros x a Hs. discriminate.
  - assert (P2 : forall x a, is_subseq (x :: a) (z :: b) = true -> is_subseq a (z :: b) = true).
    { intros x a Hs. cbn [is_subseq] in Hs. destruct (list_eqb x z).
      - apply IH1. exact Hs.
      - apply IH1. eapply IH2. exact Hs. }
    split; [|exact P2].
    intros [|x a] y Hs. reflexivity.
    cbn [is_subseq]. destruct (list_eqb x y). { eapply P2. exact Hs. } exact Hs.
Qed.

Lemma acked_subseq_emitted : forall cs rs, is_subseq (acked cs rs) (emitted cs rs) = true.
Proof.
  induction cs as [|c cs IH]; intros rs. reflexivity.
  destruct rs as [|r rs]. { destruct c as [[|x p]| | |]; reflexivity. }
  unfold acked, emitted in *. destruct c as [[|x p]| | |]; cbn [sel]; auto.
  destruct r; cbn [is_ok is_emitted]; auto.
  - cbn [is_subseq]. rewrite list_eqb_refl. apply IH.
  - apply (proj1 (subseq_aux _)). apply IH.
Qed.

Lemma run1_T2 : forall cs a rs,
  no_rotate cs = true -> frun B C crc wenv senv wal0 cs = (a, rs) ->
  known_mid_emit_failure rs = false -> cur_buf a = [] ->
  records B crc decompress (cur_file a) = emitted cs rs /\ snd (readall (cur_file a)) = Eof.
Proof.
  intros cs a rs Hnr Hr Hmid Hbuf.
  destruct (run_inv cs wal0 [] a rs Hnr INV0 Hr Hmid) as [Hst _]. cbn [app] in Hst.
  unfold stream, bstream, cur_buf, cur_file in *. rewrite Hbuf, app_nil_r in Hst. rewrite Hst.
  destruct (records_W B crc compress decompress HB Hcrc (emitted cs rs)) as [R1 R2].
  unfold emitted in *. rewrite sel_nonempty in R1. auto.
Qed.

(* ------------------------------------------------------------------ a cut inside the last record *)
Lemma filter_len_le : forall {A} (f : A -> bool) l, length (filter f l) <= length l.
Proof. intros A f. induction l as [|a l IH]; cbn [filter length]. lia. destruct (f a); cbn [length]; lia. Qed.

Lemma filter_length_all : forall {A} (f : A -> bool) l, length (filter f l) = length l -> forall x, In x l -> f x = true.
Proof.
  intros A f. induction l as [|a l IH]; intros Hl x Hin. destruct Hin.
  cbn [filter] in Hl. destruct (f a) eqn:E.
  - cbn [length] in Hl. destruct Hin as [<-|Hin]; auto.
  - exfalso. pose proof (filter_len_le f l). cbn [length] in Hl. lia.
Qed.

Lemma map_fst_snoc : forall (outs : list (list byte * nat)) em (p : list byte),
  map fst outs = em ++ [p] -> exists o1 x, outs = o1 ++ [x] /\ map fst o1 = em /\ fst x = p.
Proof.
  intros outs em p Hm. apply map_eq_app in Hm. destruct Hm as [o1 [o2 [E [H1 H2]]]].
  destruct o2 as [|x [|y o2]]; try discriminate. cbn in H2. inversion H2.
  exists o1, x. auto.
Qed.

Lemma cut_in_last_record : forall em x p n,
  filter nonempty em = em ->
  length (Wb em) <= n -> n < length (Wb (em ++ [x :: p])) ->
  records B crc decompress (firstn n (Wb (em ++ [x :: p]))) = em.
Proof.
  intros em x p n Hne HL Hn.
  set (f := Wb (em ++ [x :: p])) in *. set (g := Wb em) in *.
  destruct (W_app B crc compress em [x :: p]) as [more Hmore]. fold f g in Hmore.
  destruct (read_W B crc compress decompress HB Hcrc (em ++ [x :: p])) as [outs [Hrf [Hff Hlf]]]. fold f in Hrf, Hlf.
  destruct (read_W B crc compress decompress HB Hcrc em) as [og [Hrg [Hfg Hlg]]]. fold g in Hrg, Hlg.
  rewrite filter_app, Hne in Hff. cbn [filter nonempty] in Hff. rewrite Hne in Hfg.
  destruct (map_fst_snoc _ _ _ Hff) as [o1 [z [Eo [Ho1 Hz]]]]. subst outs.
  rewrite map_app in Hlf. cbn [map] in Hlf. rewrite last_last in Hlf.
  (* the records of f that end inside g are the records of g *)
  pose proof (read_prefix_stable B crc decompress HB f g (length g)) as Hps.
  rewrite Hrf, Hrg in Hps. cbn [fst] in Hps.
  assert (Hfg2 : firstn (length g) f = firstn (length g) g).
  { rewrite Hmore, firstn_app, Nat.sub_diag, firstn_O, app_nil_r. reflexivity. }
  specialize (Hps Hfg2).
  assert (Hog : upto (length g) og = og).
  { apply upto_all. pose proof (read_ends_le B crc decompress HB g) as HF. rewrite Hrg in HF. exact HF. }
  rewrite Hog, upto_app in Hps.
  assert (Hz2 : upto (length g) [z] = []).
  { unfold upto. cbn [filter]. rewrite Hlf. destruct (length f <=? length g) eqn:E; [|reflexivity]. b2p. lia. }
  rewrite Hz2, app_nil_r in Hps.
  assert (Hall : forall y, In y o1 -> (snd y <=? length g) = true).
  { apply filter_length_all. unfold upto in Hps. rewrite Hps.
    rewrite <- (map_length fst og), <- (map_length fst o1). congruence. }
  unfold records. rewrite (read_cut B crc decompress HB f n), Hrf. cbn [fst].
  rewrite upto_app.
  assert (Hz3 : upto n [z] = []).
  { unfold upto. cbn [filter]. rewrite Hlf. destruct (length f <=? n) eqn:E; [|reflexivity]. b2p. lia. }
  rewrite Hz3, app_nil_r.
  unfold upto. rewrite filter_all_in. exact Ho1.
  intros y Hy. specialize (Hall y Hy). b2p. apply Nat.leb_le. lia.
Qed.

(* ------------------------------------------------------------------ T3 *)
Definition failure (r : fres) : bool := negb (quiet r).

Lemma step_quiet : forall a em c a1 r,
  INV a em -> cur_buf a = [] ->
  fstep B C crc wenv senv a c = (a1, r) ->
  (match c with CRotate => false | _ => true end) = true ->
  quiet r = true ->
  INV a1 (em ++ acked [c] [r]) /\ cur_buf a1 = [] /\ acked [c] [r] = emitted [c] [r].
Proof.
  intros a em c a1 r [Hst Hbo] Hbuf Hs Hc Hq. unfold cur_buf in *.
  destruct c as [p| | |]; [| | |discriminate]; cbn [fstep] in Hs.
  - destruct p as [|b p].
    + inversion Hs; subst. unfold INV, acked, emitted. cbn [sel]. rewrite app_nil_r. repeat split; auto.
    + destruct (add_record_f (a_w a) (b :: p)) as [w x] eqn:Ea. inversion Hs; subst. clear Hs.
      destruct (add_record_f_spec _ _ _ _ Ea) as [_ [Hr3 [Hem [Hok _]]]].
      assert (r = FOk). { destruct Hr3 as [E|[E|E]]; subst r; auto; discriminate. } subst r.
      destruct (Hem eq_refl) as [H1 H2].
      unfold acked, emitted. cbn [sel is_ok is_emitted set_w a_w].
      split; [|split; [apply Hok; reflexivity|reflexivity]].
      unfold INV, W in *. cbn [set_w a_w]. rewrite !addrecs_snoc. cbn [fst snd].
      split. { rewrite H1, Hst, Hbo. reflexivity. } rewrite H2, Hbo. reflexivity.
  - destruct (do_flush_spec _ _ _ Hs) as [H1 [H2 [_ [_ [_ H6]]]]].
    destruct (H6 Hbuf) as [_ Ew]. unfold INV, acked, emitted. cbn [sel]. rewrite app_nil_r, Ew. repeat split; auto.
  - destruct (do_sync_spec _ _ _ Hs) as [H1 [H2 [_ [_ [H5 _]]]]].
    destruct (H5 Hbuf) as [E1 _]. unfold INV, acked, emitted. cbn [sel]. rewrite app_nil_r. repeat split; auto; congruence.
Qed.

Lemma step_torn : forall a em c a1 r,
  INV a em -> cur_buf a = [] -> filter nonempty em = em ->
  fstep B C crc wenv senv a c = (a1, r) ->
  (match c with CRotate => false | _ => true end) = true ->
  quiet r = false -> r <> FFailFsync ->
  records B crc decompress (cur_file a1) = em.
Proof.
  intros a em c a1 r [Hst Hbo] Hbuf Hne Hs Hc Hq Hnf. unfold cur_buf, cur_file in *.
  assert (Hfile : b_file (r_bw (a_w a)) = Wb em).
  { unfold stream, bstream in Hst. rewrite Hbuf, app_nil_r in Hst. exact Hst. }
  destruct c as [p| | |]; [| | |discriminate]; cbn [fstep] in Hs.
  - destruct p as [|b p]. { inversion Hs; subst. discriminate. }
    destruct (add_record_f (a_w a) (b :: p)) as [w x] eqn:Ea. inversion Hs; subst. clear Hs.
    destruct (add_record_f_spec _ _ _ _ Ea) as [Hx [Hr3 [_ [_ Hfail]]]].
    assert (Hr : r <> FOk) by (intro E; subst r; discriminate).
    destruct (Hfail Hr) as [Hb2 [q [q2 [Hs2 Hq2]]]].
    cbn [set_w a_w].
    destruct Hx as [t Ht]. rewrite Hfile in Ht.
    (* file' ++ buf' = W em ++ q, file' = W em ++ t, buf' <> [] *)
    assert (HW : Wb (em ++ [b :: p]) = Wb em ++ q ++ q2).
    { unfold W. rewrite addrecs_snoc. cbn [fst]. rewrite <- Hbo, Hq2. reflexivity. }
    rewrite Hst in Hs2. unfold stream, bstream in Hs2. rewrite Ht in Hs2.
    rewrite <- app_assoc in Hs2. apply app_inv_head in Hs2.
    assert (Hlt : length t < length q).
    { rewrite <- Hs2, app_length. destruct (b_buf (r_bw w)); [congruence|cbn; lia]. }
    assert (Hcut : b_file (r_bw w) = firstn (length (Wb em) + length t) (Wb (em ++ [b :: p]))).
    { rewrite Ht, HW. rewrite firstn_app, firstn_all2 by lia.
      replace (length (Wb em) + length t - length (Wb em)) with (length t) by lia.
      rewrite <- Hs2. rewrite <- app_assoc, firstn_app, Nat.sub_diag, firstn_O, app_nil_r, firstn_all. reflexivity. }
    rewrite Hcut. apply cut_in_last_record; auto. lia.
    rewrite HW, !app_length. lia.
  - destruct (do_flush_spec _ _ _ Hs) as [_ [_ [_ [_ [_ H6]]]]].
    destruct (H6 Hbuf) as [E _]. subst r. discriminate.
  - destruct (do_sync_spec _ _ _ Hs) as [_ [_ [_ [H4 [H5 _]]]]].
    destruct (H5 Hbuf) as [_ [_ E]]. destruct H4 as [E4|[E4|E4]]; subst r; try discriminate; congruence.
Qed.

Lemma sel_app1 : forall keep c r cs rs, sel keep (c :: cs) (r :: rs) = sel keep [c] [r] ++ sel keep cs rs.
Proof.
  intros keep c r cs rs. destruct c as [[|x p]| | |]; cbn [sel app]; auto.
  destruct (keep r); reflexivity.
Qed.

Lemma run_T3 : forall cs a em a' rs,
  no_rotate cs = true -> INV a em -> cur_buf a = [] -> filter nonempty em = em ->
  frun B C crc wenv senv a cs = (a', rs) ->
  known_used_after_failure rs = false -> known_fsync_failed rs = false ->
  records B crc decompress (cur_file a') = em ++ acked cs rs.
Proof.
  induction cs as [|c cs IH]; intros a em a' rs Hnr Hinv Hbuf Hne Hr Hu Hf; cbn [frun] in Hr.
  - inversion Hr; subst. cbn. rewrite app_nil_r.
    destruct Hinv as [Hst _]. unfold stream, bstream, cur_buf, cur_file in *. rewrite Hbuf, app_nil_r in Hst.
    rewrite Hst. destruct (records_W B crc compress decompress HB Hcrc em) as [R _]. congruence.
  - destruct (fstep B C crc wenv senv a c) as [a1 x] eqn:Es.
    destruct (frun B C crc wenv senv a1 cs) as [a2 xs] eqn:Er.
    inversion Hr; subst. clear Hr.
    cbn [no_rotate forallb] in Hnr. apply andb_true_iff in Hnr. destruct Hnr as [Hc Hnr].
    unfold known_fsync_failed in Hf. cbn [existsb] in Hf. apply orb_false_iff in Hf. destruct Hf as [Hf1 Hf].
    assert (Hc' : (match c with CRotate => false | _ => true end) = true) by (destruct c; auto).
    unfold acked. rewrite sel_app1. fold (acked [c] [x]). fold (acked cs xs).
    destruct (quiet x) eqn:Hq.
    + destruct (step_quiet _ _ _ _ _ Hinv Hbuf Es Hc' Hq) as [Hinv1 [Hbuf1 _]].
      rewrite app_assoc. apply (IH a1); auto.
      * rewrite filter_app, Hne. unfold acked. rewrite sel_nonempty. reflexivity.
      * cbn [known_used_after_failure] in Hu. destruct x; try discriminate; exact Hu.
    + (* the first failure: nothing follows *)
      assert (Hxs : xs = []).
      { cbn [known_used_after_failure] in Hu. destruct x; try discriminate; destruct xs; auto; discriminate. }
      subst xs. pose proof (frun_length _ _ _ _ Er) as Hl. destruct cs; [|discriminate].
      cbn [frun] in Er. inversion Er; subst. clear Er.
      assert (Hack : acked [c] [x] = []).
      { unfold acked. destruct c as [[|b p]| | |]; cbn [sel]; auto. destruct x; try discriminate; reflexivity. }
      rewrite Hack. cbn. rewrite !app_nil_r.
      eapply step_torn; eauto. intro E. subst x. discriminate.
Qed.

Lemma step_ok_drains : forall a c a',
  fstep B C crc wenv senv a c = (a', FOk) ->
  match c with CAppend (_ :: _) | CFlush => cur_buf a' = [] | _ => True end.
Proof.
  intros a c a' Hs. destruct c as [[|b p]| | |]; auto; cbn [fstep] in Hs; unfold cur_buf.
  - destruct (add_record_f (a_w a) (b :: p)) as [w x] eqn:Ea. inversion Hs; subst.
    destruct (add_record_f_spec _ _ _ _ Ea) as [_ [_ [_ [Hok _]]]]. cbn [set_w a_w]. auto.
  - destruct (do_flush_spec _ _ _ Hs) as [_ [_ [_ [_ [H5 _]]]]]. auto.
Qed.

(* ------------------------------------------------------------------ T0: short writes alone never fail *)
(* ------------------------------------------------------------------ the repaired Wal *)
Notation xstep' := (xstep B C crc wenv senv).
Notation xrun' := (xrun B C crc wenv senv).
Definition dead (x : walx) : Prop := x_failed x = true \/ x_shut x = true.
Definition xfile (x : walx) : list byte := cur_file (x_wal x).

Lemma xacked1 : forall c r cs rs, xacked (c :: cs) (r :: rs) = xacked [c] [r] ++ xacked cs rs.
Proof.
  intros c r cs rs. destruct c as [[[|b p]| | |]|]; cbn [xacked app]; auto. destruct r; reflexivity.
Qed.

Lemma abandon_file : forall a, cur_file (abandon a) = cur_file a.
Proof. reflexivity. Qed.

(* a failed or closed Wal: nothing is written any more, nothing is acknowledged *)
Lemma dead_step : forall x c x' r,
  dead x -> (match c with XC CRotate => false | _ => true end) = true ->
  xstep' x c = (x', r) -> xfile x' = xfile x /\ dead x' /\ xacked [c] [r] = [].
Proof.
  intros x c x' r Hd Hc Hs. unfold dead in *.
  destruct c as [[[|b p]| | |]|]; try discriminate; cbn [Fail.xstep] in Hs.
  - inversion Hs; subst. auto.
  - destruct (x_shut x) eqn:E1, (x_failed x) eqn:E2; cbn [orb] in Hs; try (inversion Hs; subst; rewrite ?E1, ?E2; auto; fail).
    destruct Hd; discriminate.
  - destruct (x_shut x) eqn:E1; [inversion Hs; subst; rewrite E1; auto|].
    destruct (x_failed x) eqn:E2; [inversion Hs; subst; rewrite E2; auto|]. destruct Hd; discriminate.
  - destruct (x_shut x) eqn:E1; [inversion Hs; subst; rewrite E1; auto|].
    destruct (x_failed x) eqn:E2; [inversion Hs; subst; rewrite E2; auto|]. destruct Hd; discriminate.
  - destruct (x_shut x) eqn:E1; [inversion Hs; subst; rewrite E1; auto|].
    destruct (x_failed x) eqn:E2; [inversion Hs; subst; cbn; auto|]. destruct Hd; discriminate.
Qed.

Lemma xrun_dead : forall cs x x' rs,
  dead x -> xno_rotate cs = true -> xrun' x cs = (x', rs) -> xfile x' = xfile x /\ xacked cs rs = [].
Proof.
  induction cs as [|c cs IH]; intros x x' rs Hd Hnr Hr; cbn [Fail.xrun] in Hr.
  - inversion Hr; subst. auto.
  - destruct (xstep' x c) as [x1 o] eqn:Es. destruct (xrun' x1 cs) as [x2 os] eqn:Er. inversion Hr; subst. clear Hr.
    cbn [xno_rotate forallb] in Hnr. apply andb_true_iff in Hnr. destruct Hnr as [Hc Hnr].
    assert (Hc' : (match c with XC CRotate => false | _ => true end) = true) by (destruct c as [[| | |]|]; auto).
    destruct (dead_step _ _ _ _ Hd Hc' Es) as [F1 [D1 A1]].
    destruct (IH _ _ _ D1 Hnr Er) as [F2 A2]. rewrite xacked1, A1, A2. split; [congruence|reflexivity].
Qed.

Lemma live_records : forall a em, INV a em -> cur_buf a = [] -> filter nonempty em = em ->
  records B crc decompress (cur_file a) = em.
Proof.
  intros a em [Hst _] Hbuf Hne. unfold stream, bstream, cur_buf, cur_file in *. rewrite Hbuf, app_nil_r in Hst.
  rewrite Hst. destruct (records_W B crc compress decompress HB Hcrc em) as [R _]. congruence.
Qed.

Lemma append_not_fsync : forall a b p a1, fstep B C crc wenv senv a (CAppend (b :: p)) = (a1, FFailFsync) -> False.
Proof.
  intros a b p a1 Hs. cbn [fstep] in Hs. destruct (add_record_f (a_w a) (b :: p)) as [w r] eqn:Ea.
  inversion Hs; subst. destruct (add_record_f_spec _ _ _ _ Ea) as [_ [[E|[E|E]] _]]; discriminate.
Qed.

(* one step of a live Wal in a drained state: it stays live and drained with the acknowledged append added,
   or it dies and the file delivers exactly what was acknowledged before *)
Lemma live_step : forall x em c x' r,
  x_failed x = false -> x_shut x = false ->
  INV (x_wal x) em -> cur_buf (x_wal x) = [] -> filter nonempty em = em ->
  (match c with XC CRotate => false | _ => true end) = true ->
  xstep' x c = (x', r) ->
  (x_failed x' = false /\ x_shut x' = false /\ INV (x_wal x') (em ++ xacked [c] [r]) /\ cur_buf (x_wal x') = []) \/
  (dead x' /\ records B crc decompress (xfile x') = em /\ xacked [c] [r] = []).
Proof.
  intros x em c x' r Hf Hsh Hinv Hbuf Hne Hc Hs. unfold dead, xfile.
  assert (Hrec : forall _ : unit, records B crc decompress (cur_file (x_wal x)) = em) by (intros _; apply live_records; auto).
  destruct c as [[[|b p]| | |]|]; try discriminate; cbn [Fail.xstep] in Hs; rewrite ?Hf, ?Hsh in Hs; cbn [orb] in Hs.
  - inversion Hs; subst. left. cbn [xacked]. rewrite app_nil_r. auto.
  - destruct (fstep B C crc wenv senv (x_wal x) (CAppend (b :: p))) as [a1 o] eqn:Ef. unfold lift in Hs.
    destruct o; inversion Hs; subst; clear Hs; cbn [x_failed x_shut x_wal xacked].
    + left. destruct (step_quiet _ _ _ _ _ Hinv Hbuf Ef eq_refl eq_refl) as [I1 [B1 _]]. auto.
    + left. destruct (step_quiet _ _ _ _ _ Hinv Hbuf Ef eq_refl eq_refl) as [I1 [B1 _]]. cbn in I1. rewrite app_nil_r in *. auto.
    + right. split; [auto|]. split; [|reflexivity]. rewrite abandon_file.
      eapply step_torn; eauto; solve [reflexivity | discriminate].
    + right. split; [auto|]. split; [|reflexivity]. rewrite abandon_file.
      eapply step_torn; eauto; solve [reflexivity | discriminate].
    + exfalso. eapply append_not_fsync; eauto.
  - destruct (do_flush wenv (x_wal x)) as [a1 o] eqn:Ef.
    destruct (do_flush_spec _ _ _ Ef) as [_ [_ [_ [_ [_ H6]]]]]. destruct (H6 Hbuf) as [E Ew]. subst o.
    unfold lift in Hs. inversion Hs; subst; clear Hs. cbn [x_failed x_shut x_wal xacked]. left. rewrite app_nil_r.
    split; [auto|]. split; [auto|]. unfold INV, cur_buf in *. rewrite Ew. auto.
  - destruct (do_sync wenv senv (x_wal x)) as [a1 o] eqn:Ef.
    destruct (do_sync_spec _ _ _ Ef) as [H1 [H2 [_ [H4 [H5 _]]]]]. destruct (H5 Hbuf) as [E1 [E2 E3]].
    unfold lift in Hs.
    destruct o; inversion Hs; subst; clear Hs; cbn [x_failed x_shut x_wal xacked]; try (destruct H4 as [E|[E|E]]; discriminate); try congruence.
    + left. rewrite app_nil_r. split; [auto|]. split; [auto|]. split; [|exact E1]. unfold INV in *. destruct Hinv. split; congruence.
    + right. split; [auto|]. split; [|reflexivity]. rewrite abandon_file. unfold cur_file in *. rewrite E2. exact (Hrec tt).
  - destruct (do_sync wenv senv (x_wal x)) as [a1 o] eqn:Ef.
    destruct (do_sync_spec _ _ _ Ef) as [_ [_ [_ [_ [H5 _]]]]]. destruct (H5 Hbuf) as [_ [E2 _]].
    inversion Hs; subst; clear Hs. cbn [x_failed x_shut x_wal]. right. split; [auto|]. split.
    { unfold cur_file in *. rewrite E2. exact (Hrec tt). } destruct o; reflexivity.
Qed.

Lemma xrun_live : forall cs x em x' rs,
  x_failed x = false -> x_shut x = false ->
  INV (x_wal x) em -> cur_buf (x_wal x) = [] -> filter nonempty em = em ->
  xno_rotate cs = true -> xrun' x cs = (x', rs) ->
  records B crc decompress (xfile x') = em ++ xacked cs rs.
Proof.
  induction cs as [|c cs IH]; intros x em x' rs Hf Hsh Hinv Hbuf Hne Hnr Hr; cbn [Fail.xrun] in Hr.
  - inversion Hr; subst. cbn [xacked]. rewrite app_nil_r. apply live_records; auto.
  - destruct (xstep' x c) as [x1 o] eqn:Es. destruct (xrun' x1 cs) as [x2 os] eqn:Er. inversion Hr; subst. clear Hr.
    cbn [xno_rotate forallb] in Hnr. apply andb_true_iff in Hnr. destruct Hnr as [Hc Hnr].
    assert (Hc' : (match c with XC CRotate => false | _ => true end) = true) by (destruct c as [[| | |]|]; auto).
    rewrite xacked1.
    destruct (live_step _ _ _ _ _ Hf Hsh Hinv Hbuf Hne Hc' Es) as [[F1 [S1 [I1 B1]]]|[D1 [R1 A1]]].
    + rewrite app_assoc. apply (IH x1); auto.
      rewrite filter_app, Hne. f_equal.
      destruct c as [[[|b p]| | |]|]; cbn [xacked]; auto. destruct o; reflexivity.
    + destruct (xrun_dead _ _ _ _ D1 Hnr Er) as [F2 A2]. rewrite A1, A2, app_nil_r. cbn [app]. rewrite F2. exact R1.
Qed.

(* the failure is sticky *)
Lemma sticky_step : forall x c x' r, xstep' x c = (x', r) ->
  (dead x -> dead x' /\ is_xack c r = false) /\ (is_xfail r = true -> dead x').
Proof.
  intros x c x' r Hs. unfold dead.
  destruct c as [[[|b p]| | |]|]; cbn [Fail.xstep] in Hs.
  - inversion Hs; subst. split; [auto|discriminate].
  - destruct (x_shut x) eqn:E1, (x_failed x) eqn:E2; cbn [orb] in Hs;
      try (inversion Hs; subst; rewrite ?E1, ?E2; split; [intros; split; [auto|reflexivity]|auto]; fail).
    destruct (fstep B C crc wenv senv (x_wal x) (CAppend (b :: p))) as [a1 o]. unfold lift in Hs.
    split. { intros [D|D]; discriminate. }
    destruct o; inversion Hs; subst; cbn [is_xfail x_failed]; auto; discriminate.
  - destruct (x_shut x) eqn:E1. { inversion Hs; subst. rewrite E1. split; [auto|discriminate]. }
    destruct (x_failed x) eqn:E2. { inversion Hs; subst. rewrite E2. split; auto. }
    destruct (do_flush wenv (x_wal x)) as [a1 o]. unfold lift in Hs.
    split. { intros [D|D]; discriminate. }
    destruct o; inversion Hs; subst; cbn [is_xfail x_failed]; auto; discriminate.
  - destruct (x_shut x) eqn:E1. { inversion Hs; subst. rewrite E1. split; [auto|discriminate]. }
    destruct (x_failed x) eqn:E2. { inversion Hs; subst. rewrite E2. split; auto. }
    destruct (do_sync wenv senv (x_wal x)) as [a1 o]. unfold lift in Hs.
    split. { intros [D|D]; discriminate. }
    destruct o; inversion Hs; subst; cbn [is_xfail x_failed]; auto; discriminate.
  - destruct (x_failed x) eqn:E2. { inversion Hs; subst. rewrite E2. split; auto. }
    destruct (do_rotate wenv senv (x_wal x)) as [a1 o]. unfold lift in Hs.
    destruct o; inversion Hs; subst; cbn [is_xfail x_failed x_shut is_xack]; (split; [intros [D|D]; [discriminate|auto]|auto; try discriminate]).
  - destruct (x_shut x) eqn:E1. { inversion Hs; subst. rewrite E1. split; [auto|discriminate]. }
    destruct (x_failed x) eqn:E2. { inversion Hs; subst. cbn. split; auto. }
    destruct (do_sync wenv senv (x_wal x)) as [a1 o]. inversion Hs; subst. cbn [x_shut x_failed]. split; auto.
Qed.

Lemma xack_after_run : forall cs x x' rs seen,
  (seen = true -> dead x) -> xrun' x cs = (x', rs) -> xack_after seen cs rs = false.
Proof.
  induction cs as [|c cs IH]; intros x x' rs seen Hseen Hr; cbn [Fail.xrun] in Hr.
  - inversion Hr; reflexivity.
  - destruct (xstep' x c) as [x1 o] eqn:Es. destruct (xrun' x1 cs) as [x2 os] eqn:Er. inversion Hr; subst. clear Hr.
    cbn [xack_after]. destruct (sticky_step _ _ _ _ Es) as [S1 S2].
    apply orb_false_iff. split.
    + destruct seen; [|reflexivity]. cbn [andb]. apply S1. auto.
    + apply (IH x1 x' os); auto. intros E. apply orb_true_iff in E. destruct E as [E|E].
      * apply S1. auto.
      * auto.
Qed.

Section NoError.
Hypothesis Hwe : forall i, wenv i <> WErr /\ wenv i <> WShort 0.
Hypothesis Hse : forall i, senv i = true.

Lemma sys_write_ok : forall s data, data <> [] -> exists s' k, sys_write s data = (s', Some k).
Proof.
  intros s data Hd. unfold Fail.sys_write. destruct (Hwe (b_wc s)) as [H1 H2].
  destruct (wenv (b_wc s)) as [|k|]; [eauto| |congruence].
  destruct k as [|k]; [congruence|]. destruct data as [|x data]; [congruence|].
  cbn [length Nat.min]. eauto.
Qed.

Lemma flush_buf_ok : forall fuel s, length (b_buf s) < fuel -> snd (flush_buf fuel s) = true.
Proof.
  induction fuel as [|f IH]; intros s Hl. lia.
  cbn [Fail.flush_buf]. destruct (b_buf s) as [|x r] eqn:Eb. reflexivity.
  destruct (sys_write_ok s (x :: r) ltac:(congruence)) as [s1 [k Ew]]. rewrite Ew.
  destruct (sys_write_spec s (x :: r) s1 (Some k) ltac:(congruence) Ew) as [_ [Hk0 [Hk _]]].
  apply IH. cbn [b_buf]. rewrite skipn_length. cbn [length] in *. lia.
Qed.

Lemma bw_flush_ok : forall s, snd (bw_flush s) = true.
Proof. intros s. unfold Fail.bw_flush. apply flush_buf_ok. lia. Qed.

Lemma write_all_ok : forall s data, length data < C -> snd (write_all s data) = true.
Proof.
  intros s data Hl. unfold Fail.write_all.
  destruct (length data <? C - length (b_buf s)); [reflexivity|].
  assert (E3 : (C <=? length data) = false) by (apply Nat.leb_gt; lia).
  destruct (C - length (b_buf s) <? length data).
  - pose proof (bw_flush_ok s) as Hf. destruct (bw_flush s) as [s1 ok]. cbn [snd] in Hf. subst ok.
    cbn [negb]. rewrite E3. reflexivity.
  - cbn [negb]. rewrite E3. reflexivity.
Qed.

Lemma append_ok : forall w data, length data < C -> snd (append w data) = true.
Proof.
  intros w data Hl. unfold Fail.append. pose proof (write_all_ok (r_bw w) data Hl) as Hw.
  destruct (write_all (r_bw w) data) as [s ok]. exact Hw.
Qed.

Lemma maybe_switch_ok : forall w, snd (maybe_switch w) = true.
Proof.
  intros w. unfold Fail.maybe_switch. destruct (B - r_boff w <? H) eqn:E; [|reflexivity].
  assert (Hl : length (repeat 0%N (B - r_boff w)) < C) by (rewrite repeat_length; unfold H in E; b2p; lia).
  pose proof (append_ok w _ Hl) as Ha. destruct (append w (repeat 0%N (B - r_boff w))) as [w1 ok].
  cbn [snd] in Ha. subst ok. reflexivity.
Qed.

Lemma emit_phys_ok : forall w ty d, length d < C -> snd (emit_phys w ty d) = true.
Proof.
  intros w ty d Hl. unfold Fail.emit_phys.
  assert (Hh : length (header crc ty d) < C) by (rewrite header_len; lia).
  pose proof (append_ok w _ Hh) as H1. destruct (append w (header crc ty d)) as [w1 ok1]. cbn [snd] in H1. subst ok1.
  cbn [negb]. pose proof (append_ok w1 d Hl) as H2. destruct (append w1 d) as [w2 ok2]. cbn [snd] in H2. subst ok2.
  reflexivity.
Qed.

Lemma emit_f_ok : forall fuel w p begin, snd (emit_f fuel w p begin) = true.
Proof.
  induction fuel as [|f IH]; intros w p begin. reflexivity.
  cbn [Fail.emit_f]. pose proof (maybe_switch_ok w) as H1. destruct (maybe_switch w) as [w1 ok1]. cbn [snd] in H1. subst ok1.
  cbn [negb].
  match goal with |- context [emit_phys w1 ?ty ?d] =>
    assert (Hl : length d < C) by (rewrite firstn_length; unfold H; lia);
    pose proof (emit_phys_ok w1 ty d Hl) as H2; destruct (emit_phys w1 ty d) as [w2 ok2] end.
  cbn [snd] in H2. subst ok2. cbn [negb].
  destruct (Nat.min (length p) (B - r_boff w1 - H) =? length p); [reflexivity|apply IH].
Qed.

Lemma step_quiet_noerr : forall a c, quiet (snd (fstep B C crc wenv senv a c)) = true.
Proof.
  intros a c. destruct c as [[|b p]| | |]; cbn [fstep].
  - reflexivity.
  - unfold Fail.add_record_f. pose proof (emit_f_ok (2 * length (b :: p) + 2) (a_w a) (b :: p) true) as H1.
    destruct (emit_f (2 * length (b :: p) + 2) (a_w a) (b :: p) true) as [w1 ok]. cbn [snd] in H1. subst ok. cbn [negb].
    pose proof (bw_flush_ok (r_bw w1)) as H2. destruct (bw_flush (r_bw w1)) as [s ok2]. cbn [snd] in H2. subst ok2. reflexivity.
  - unfold Fail.do_flush. pose proof (bw_flush_ok (r_bw (a_w a))) as H2. destruct (bw_flush (r_bw (a_w a))) as [s ok2].
    cbn [snd] in H2. subst ok2. reflexivity.
  - unfold Fail.do_sync. destruct (r_psync (a_w a)); cbn [negb]; [|reflexivity].
    pose proof (bw_flush_ok (r_bw (a_w a))) as H2. destruct (bw_flush (r_bw (a_w a))) as [s ok2].
    cbn [snd] in H2. subst ok2. cbn [negb]. rewrite Hse. reflexivity.
  - unfold Fail.do_rotate, Fail.do_sync. destruct (r_psync (a_w a)); cbn [negb].
    + pose proof (bw_flush_ok (r_bw (a_w a))) as H2. destruct (bw_flush (r_bw (a_w a))) as [s ok2].
      cbn [snd] in H2. subst ok2. cbn [negb]. rewrite Hse. cbn [a_w r_bw].
      destruct (bw_flush s). reflexivity.
    + destruct (bw_flush (r_bw (a_w a))). reflexivity.
Qed.

Lemma run_quiet_noerr : forall cs a, forallb quiet (snd (frun B C crc wenv senv a cs)) = true.
Proof.
  induction cs as [|c cs IH]; intros a. reflexivity.
  cbn [frun]. pose proof (step_quiet_noerr a c) as H1. destruct (fstep B C crc wenv senv a c) as [a1 x]. cbn [snd] in H1.
  specialize (IH a1). destruct (frun B C crc wenv senv a1 cs) as [a2 xs]. cbn [snd forallb] in *. rewrite H1, IH. reflexivity.
Qed.
(* the repaired Wal under short writes only: nothing fails, the flag is never set *)
Lemma xrun_quiet_noerr : forall cs x,
  x_failed x = false -> x_shut x = false -> xno_close cs = true ->
  forallb xquiet (snd (xrun' x cs)) = true.
Proof.
  induction cs as [|c cs IH]; intros x Hf Hsh Hnc. reflexivity.
  cbn [xno_close forallb] in Hnc. apply andb_true_iff in Hnc. destruct Hnc as [Hc Hnc].
  cbn [Fail.xrun].
  assert (Hstep : exists x1 o, xstep' x c = (x1, o) /\ xquiet o = true /\ x_failed x1 = false /\ x_shut x1 = false).
  { destruct c as [c0|]; [|discriminate].
    assert (Hl : forall o0 : wal * fres, quiet (snd o0) = true ->
              exists x1 o, lift x o0 = (x1, o) /\ xquiet o = true /\ x_failed x1 = false /\ x_shut x1 = false).
    { intros [a1 r] Hq. cbn [snd] in Hq. unfold lift. destruct r; try discriminate; eexists _, _; (split; [reflexivity|]); cbn; auto. }
    destruct c0 as [[|b p]| | |]; cbn [Fail.xstep]; rewrite ?Hf, ?Hsh; cbn [orb].
    - exists x, XRejected. auto.
    - apply Hl. apply (step_quiet_noerr (x_wal x) (CAppend (b :: p))).
    - apply Hl. apply (step_quiet_noerr (x_wal x) CFlush).
    - apply Hl. apply (step_quiet_noerr (x_wal x) CSync).
    - apply Hl. apply (step_quiet_noerr (x_wal x) CRotate). }
  destruct Hstep as [x1 [o [Es [Hq [F1 S1]]]]]. rewrite Es.
  specialize (IH x1 F1 S1 Hnc). destruct (xrun' x1 cs) as [x2 os]. cbn [snd forallb] in *. rewrite Hq, IH. reflexivity.
Qed.
End NoError.

End Proofs.

(* ================================================================== C15 statements (writer level) *)
Theorem fm_stream_wellformed : forall B C crc compress, fm_stream_wellformed_stmt B C crc compress.
Proof.
  intros B C crc compress [[HB [_ Hcrc]] HC] wenv senv cs a rs Hnr Hr Hmid.
  destruct (run_inv B C crc wenv senv HB HC Hcrc compress cs wal0 [] a rs Hnr (INV0 B crc compress) Hr Hmid) as [H1 H2].
  cbn [app] in *. split; [exact H1|exact H2].
Qed.

Definition idc (l : list byte) : list byte := l.

Theorem later_acks_recovered_outside_known : forall B C crc decompress,
  later_acks_recovered_outside_known_stmt B C crc decompress.
Proof.
  intros B C crc decompress [[HB [_ Hcrc]] HC] wenv senv cs a rs Hnr Hr Hmid Hbuf.
  destruct (run1_T2 B C crc wenv senv HB HC Hcrc idc decompress cs a rs Hnr Hr Hmid Hbuf) as [H1 H2].
  split. exact H1. split. exact H2. apply acked_subseq_emitted.
Qed.

Theorem fm_ok_drains : forall B C crc, fm_ok_drains_stmt B C crc.
Proof.
  intros B C crc [[HB [_ Hcrc]] HC] wenv senv a c a' Hs.
  exact (step_ok_drains B C crc wenv senv HB HC Hcrc idc a c a' Hs).
Qed.

Theorem failed_invisible_after_crash_outside_known : forall B C crc decompress,
  failed_invisible_after_crash_outside_known_stmt B C crc decompress.
Proof.
  intros B C crc decompress [[HB [_ Hcrc]] HC] wenv senv cs a rs Hnr Hr Hu Hf.
  exact (run_T3 B C crc wenv senv HB HC Hcrc idc decompress cs wal0 [] a rs Hnr (INV0 B crc idc) eq_refl eq_refl Hr Hu Hf).
Qed.

Theorem short_writes_harmless : forall B C crc, short_writes_harmless_stmt B C crc.
Proof.
  intros B C crc [[HB [_ Hcrc]] HC] wenv senv cs a rs [Hwe Hse] Hr. unfold run1 in Hr.
  pose proof (run_quiet_noerr B C crc wenv senv HB HC Hcrc Hwe Hse cs wal0) as H. rewrite Hr in H. exact H.
Qed.

(* ================================================================== the repaired Wal *)
Theorem crash_delivers_exactly_acked : forall B C crc decompress, crash_delivers_exactly_acked_stmt B C crc decompress.
Proof.
  intros B C crc decompress [[HB [_ Hcrc]] HC] wenv senv cs x rs Hnr Hr.
  exact (xrun_live B C crc wenv senv HB HC Hcrc idc decompress cs walx0 [] x rs eq_refl eq_refl (INV0 B crc idc) eq_refl eq_refl Hnr Hr).
Qed.

Theorem xfailed_invisible_after_crash : forall B C crc decompress, xfailed_invisible_after_crash_stmt B C crc decompress.
Proof.
  intros B C crc decompress Hg wenv senv cs x rs Hnr Hr p Hin.
  rewrite (crash_delivers_exactly_acked B C crc decompress Hg wenv senv cs x rs Hnr Hr) in Hin. exact Hin.
Qed.

Theorem xlater_acks_recovered : forall B C crc decompress, xlater_acks_recovered_stmt B C crc decompress.
Proof.
  intros B C crc decompress Hg wenv senv cs x rs Hnr Hr p Hin.
  rewrite (crash_delivers_exactly_acked B C crc decompress Hg wenv senv cs x rs Hnr Hr). exact Hin.
Qed.

Theorem no_ack_after_failure : forall B C crc, no_ack_after_failure_stmt B C crc.
Proof.
  intros B C crc wenv senv cs x rs Hr.
  apply (xack_after_run B C crc wenv senv cs walx0 x rs false); [discriminate|exact Hr].
Qed.

Theorem xshort_writes_harmless : forall B C crc, xshort_writes_harmless_stmt B C crc.
Proof.
  intros B C crc [[HB [_ Hcrc]] HC] wenv senv cs x rs [Hwe Hse] Hnc Hr. unfold xrun1 in Hr.
  pose proof (xrun_quiet_noerr B C crc wenv senv HB HC Hcrc Hwe Hse cs walx0 eq_refl eq_refl Hnc) as H. rewrite Hr in H. exact H.
Qed.
