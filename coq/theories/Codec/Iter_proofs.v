(* Codec/Iter_proofs.v — the index iterator and the two-level table iterator of Codec/Table.v as
   cursors over the entry list: proofs of the iteration statements of TableSpec.v. *)
From Coq Require Import List NArith Bool Arith Lia Sorted.
From SKV Require Import Params Base.Lex Codec.IKey Codec.Separator Codec.SeparatorSpec Codec.Separator_proofs
  Codec.Table Codec.TableSpec Codec.Block_proofs Codec.Table_proofs.
Import ListNotations.
Arguments Nat.div : simpl never. Arguments Nat.modulo : simpl never.

(* ---------- positions in a list of chunks ---------- *)
Definition offs {A} (ls : list (list A)) (j : nat) : nat := length (concat (firstn j ls)).
Lemma offs_0 : forall A (ls : list (list A)), offs ls 0 = 0.
Proof. reflexivity. Qed.
Lemma offs_S : forall A (ls : list (list A)) j l, nth_error ls j = Some l -> offs ls (S j) = offs ls j + length l.
Proof.
  intros A ls. induction ls as [|x r IH]; intros j l H. destruct j; discriminate.
  destruct j as [|j]; simpl in H.
  - inversion H. subst. unfold offs. simpl. rewrite app_nil_r. lia.
  - unfold offs in *. simpl. rewrite !app_length. specialize (IH j l H). simpl in IH. lia.
Qed.
Lemma offs_all : forall A (ls : list (list A)), offs ls (length ls) = length (concat ls).
Proof. intros. unfold offs. rewrite firstn_all. reflexivity. Qed.
Lemma nth_concat : forall A (ls : list (list A)) j l o x, nth_error ls j = Some l -> nth_error l o = Some x ->
  nth_error (concat ls) (offs ls j + o) = Some x.
Proof.
  intros A ls. induction ls as [|y r IH]; intros j l o x H1 H2. destruct j; discriminate.
  destruct j as [|j]; simpl in H1.
  - inversion H1. subst. unfold offs. simpl. rewrite nth_error_app1. exact H2. apply nth_error_Some. congruence.
  - unfold offs in *. simpl. rewrite app_length. rewrite <- Nat.add_assoc. rewrite nth_error_app2 by lia.
    replace (length y + (length (concat (firstn j r)) + o) - length y) with (length (concat (firstn j r)) + o) by lia.
    eapply IH; eauto.
Qed.
Lemma offs_mono_lt : forall A (ls : list (list A)) j l o, nth_error ls j = Some l -> o < length l ->
  offs ls j + o < length (concat ls).
Proof.
  intros A ls j l o H Ho. apply nth_error_Some. destruct (nth_error l o) as [x|] eqn:E.
  - rewrite (nth_concat _ _ _ _ _ _ H E). discriminate.
  - apply nth_error_None in E. lia.
Qed.

Lemma pp_unique : forall A (P : A -> bool) pre x post, (forall y, In y pre -> P y = true) -> P x = false ->
  partition_point P (pre ++ x :: post) = length pre.
Proof.
  intros A P pre. induction pre as [|y r IH]; intros x post H Hx; simpl.
  - rewrite Hx. reflexivity.
  - rewrite (H y) by (simpl; auto). f_equal. apply IH; auto. intros z Hz. apply H. simpl. auto.
Qed.
Lemma pp_all_true : forall A (P : A -> bool) l, (forall y, In y l -> P y = true) -> partition_point P l = length l.
Proof.
  intros A P l. induction l as [|y r IH]; intros H; simpl; auto.
  rewrite (H y) by (simpl; auto). f_equal. apply IH. intros z Hz. apply H. simpl. auto.
Qed.

Lemma top_entries_at : forall ps j k part, nth_error ps k = Some part ->
  nth_error (top_entries j ps) k = Some (last_key part, j + k).
Proof.
  induction ps as [|p r IH]; intros j k part H. destruct k; discriminate.
  destruct k as [|k]; simpl in *.
  - inversion H. subst. f_equal. f_equal. lia.
  - rewrite (IH (S j) k part H). f_equal. f_equal. lia.
Qed.
Lemma index_entries_at : forall bl i k blk, nth_error bl k = Some blk ->
  exists key, nth_error (index_entries i bl) k = Some (key, i + k).
Proof.
  induction bl as [|b r IH]; intros i k blk H. destruct k; discriminate.
  destruct k as [|k]; simpl in *.
  - eexists. f_equal. f_equal. lia.
  - destruct (IH (S i) k blk H) as [key Hk]. exists key. rewrite Hk. f_equal. f_equal. lia.
Qed.

Fixpoint take_while {A} (p : A -> bool) (l : list A) : list A :=
  match l with [] => [] | a :: r => if p a then a :: take_while p r else [] end.
Lemma find_pp : forall A (P : A -> bool) l, find (fun e => negb (P e)) l = nth_error l (partition_point P l).
Proof. intros A P l. induction l as [|x r IH]; simpl; auto. destruct (P x); simpl; auto. Qed.
Lemma skipn_nth_cons : forall A (l : list A) i e, nth_error l i = Some e -> skipn i l = e :: skipn (S i) l.
Proof.
  intros A l. induction l as [|x r IH]; intros i e H. destruct i; discriminate.
  destruct i as [|i]; simpl in H. inversion H. reflexivity. simpl. apply IH. exact H.
Qed.
Lemma upper_antitone : forall hi a b, lex_le a b -> upper_ok hi b = true -> upper_ok hi a = true.
Proof.
  intros hi a b Hab H. destruct hi as [|e|e]; simpl in *; auto.
  - apply lex_leb_le. apply lex_leb_le in H. eapply lex_le_trans; eauto.
  - apply lex_ltb_lt. apply lex_ltb_lt in H. eapply lex_le_lt_trans; eauto.
Qed.
Lemma filter_none : forall A (p : A -> bool) l, (forall b, In b l -> p b = false) -> filter p l = [].
Proof.
  intros A p l. induction l as [|a r IH]; intros H; simpl; auto. rewrite (H a) by (simpl; auto).
  apply IH. intros b Hb. apply H. simpl. auto.
Qed.
Lemma filter_all : forall A (p : A -> bool) l, (forall b, In b l -> p b = true) -> filter p l = l.
Proof.
  intros A p l. induction l as [|a r IH]; intros H; simpl; auto. rewrite (H a) by (simpl; auto).
  f_equal. apply IH. intros b Hb. apply H. simpl. auto.
Qed.
Lemma filter_take_while : forall hi (l : list (ikey * bytes)), ksorted l ->
  filter (fun e => upper_ok hi (ik_uk (fst e))) l = take_while (fun e => upper_ok hi (ik_uk (fst e))) l.
Proof.
  intros hi l. induction l as [|a r IH]; intros Hs; simpl; auto.
  inversion Hs as [|? ? Hs' Hall]. subst. destruct (upper_ok hi (ik_uk (fst a))) eqn:E.
  - f_equal. apply IH. exact Hs'.
  - rewrite Forall_forall in Hall. apply filter_none. intros b Hb.
    destruct (upper_ok hi (ik_uk (fst b))) eqn:Eb; auto.
    assert (upper_ok hi (ik_uk (fst a)) = true).
    { eapply upper_antitone. 2: exact Eb. apply ik_lt_uk_le. apply Hall. exact Hb. }
    congruence.
Qed.
Lemma ksorted_skipn : forall V (l : list (ikey * V)) n, ksorted l -> ksorted (skipn n l).
Proof.
  intros V l n Hs. rewrite <- (firstn_skipn n l) in Hs. apply ksorted_app in Hs. tauto.
Qed.

Notation lower_okb := lower_ok (only parsing).
Lemma lower_monotone : forall lo a b, lex_le a b -> lower_okb lo a = true -> lower_okb lo b = true.
Proof.
  intros lo a b Hab H. destruct lo as [|s|s]; simpl in *; auto.
  - apply lex_leb_le. apply lex_leb_le in H. eapply lex_le_trans; eauto.
  - apply lex_ltb_lt. apply lex_ltb_lt in H. eapply lex_lt_le_trans; eauto.
Qed.
Lemma in_boundsb_split : forall lo hi u, in_boundsb lo hi u = lower_okb lo u && upper_ok hi u.
Proof. intros lo hi u. destruct lo, hi; reflexivity. Qed.
Lemma pp_ext_in : forall A (P Q : A -> bool) l, (forall e, In e l -> P e = Q e) -> partition_point P l = partition_point Q l.
Proof.
  intros A P Q l. induction l as [|a r IH]; intros H; simpl; auto. rewrite <- (H a) by (simpl; auto).
  destruct (P a); auto. f_equal. apply IH. intros e He. apply H. simpl. auto.
Qed.
Lemma filter_app' : forall A (p : A -> bool) a b, filter p (a ++ b) = filter p a ++ filter p b.
Proof. intros A p a. induction a as [|x r IH]; intros b; simpl; auto. destruct (p x); simpl; rewrite IH; auto. Qed.
Lemma nth_error_firstn_lt : forall A (l : list A) g i, i < g -> nth_error (firstn g l) i = nth_error l i.
Proof.
  intros A l. induction l as [|x r IH]; intros g i H. rewrite firstn_nil. reflexivity.
  destruct g as [|g]. lia. destruct i as [|i]; simpl. reflexivity. apply IH. lia.
Qed.
Lemma skipn_head : forall A (l : list A) i h r, skipn i l = h :: r -> nth_error l i = Some h.
Proof.
  intros A l. induction l as [|x q IH]; intros i h r E. destruct i; discriminate.
  destruct i as [|i]; simpl in *. inversion E. reflexivity. eapply IH. exact E.
Qed.
(* the window of a sorted list = the entries from the first one inside the lower bound, up to the upper bound *)
Lemma window_take_while : forall lo hi (l : list (ikey * bytes)), ksorted l ->
  let G0 := partition_point (fun e => negb (lower_okb lo (ik_uk (fst e)))) l in
  window lo hi l = take_while (fun e => upper_ok hi (ik_uk (fst e))) (skipn G0 l).
Proof.
  intros lo hi l Hs G0. unfold window. rewrite <- (firstn_skipn G0 l) at 1. rewrite filter_app'.
  rewrite filter_none.
  2: { intros b Hb. destruct (In_nth_error _ _ Hb) as [j Hj].
       assert (Hjl : j < G0). { assert (j < length (firstn G0 l)) by (apply nth_error_Some; congruence). rewrite firstn_length in H. lia. }
       assert (Hjn : nth_error l j = Some b) by (rewrite <- Hj; symmetry; apply nth_error_firstn_lt; exact Hjl).
       pose proof (pp_before _ l j b Hjl Hjn) as Hp. simpl in Hp. apply negb_true_iff in Hp.
       rewrite in_boundsb_split, Hp. reflexivity. }
  simpl app. rewrite <- filter_take_while by (apply ksorted_skipn; exact Hs).
  apply filter_ext_in. intros b Hb. rewrite in_boundsb_split.
  replace (lower_okb lo (ik_uk (fst b))) with true. reflexivity. symmetry.
  (* the head of the suffix is inside the lower bound, and the bound is monotone *)
  destruct (skipn G0 l) as [|h r] eqn:Esk. contradiction.
  assert (Hh : nth_error l G0 = Some h) by (eapply skipn_head; eauto).
  pose proof (pp_at _ l h Hh) as Hp. simpl in Hp. apply negb_false_iff in Hp.
  destruct Hb as [<-|Hb]. exact Hp.
  eapply lower_monotone. 2: exact Hp. apply ik_lt_uk_le.
  pose proof (ksorted_skipn _ l G0 Hs) as Hss. rewrite Esk in Hss. inversion Hss. subst. rewrite Forall_forall in H2. apply H2. exact Hb.
Qed.

(* descending lists (reversed sorted lists) *)
Definition kdesc {V} (l : list (ikey * V)) : Prop := StronglySorted (fun a b => ik_lt (fst b) (fst a)) l.
Lemma kdesc_snoc : forall V (r : list (ikey * V)) a, kdesc r -> (forall x, In x r -> ik_lt (fst a) (fst x)) -> kdesc (r ++ [a]).
Proof.
  intros V r a. induction r as [|y q IH]; intros Hd Ha; simpl. constructor; constructor.
  inversion Hd as [|? ? Hd' Hall]. subst. constructor. apply IH; auto. intros x Hx. apply Ha. simpl. auto.
  rewrite Forall_forall in *. intros x Hx. apply in_app_or in Hx. destruct Hx as [Hx|[<-|[]]]. apply Hall. exact Hx.
  apply Ha. simpl. auto.
Qed.
Lemma ksorted_rev : forall V (l : list (ikey * V)), ksorted l -> kdesc (rev l).
Proof.
  intros V l. induction l as [|a r IH]; intros Hs; simpl. constructor.
  inversion Hs as [|? ? Hs' Hall]. subst. apply kdesc_snoc. apply IH. exact Hs'.
  rewrite Forall_forall in Hall. intros x Hx. apply Hall. apply in_rev. exact Hx.
Qed.
Lemma filter_rev' : forall A (p : A -> bool) l, filter p (rev l) = rev (filter p l).
Proof.
  intros A p l. induction l as [|a r IH]; simpl; auto. rewrite filter_app', IH. simpl.
  destruct (p a); simpl; auto. rewrite app_nil_r. reflexivity.
Qed.
Lemma filter_take_while_desc : forall lo (l : list (ikey * bytes)), kdesc l ->
  filter (fun e => lower_okb lo (ik_uk (fst e))) l = take_while (fun e => lower_okb lo (ik_uk (fst e))) l.
Proof.
  intros lo l. induction l as [|a r IH]; intros Hd; simpl; auto.
  inversion Hd as [|? ? Hd' Hall]. subst. destruct (lower_okb lo (ik_uk (fst a))) eqn:E.
  - f_equal. apply IH. exact Hd'.
  - rewrite Forall_forall in Hall. apply filter_none. intros b Hb.
    destruct (lower_okb lo (ik_uk (fst b))) eqn:Eb; auto.
    assert (lower_okb lo (ik_uk (fst a)) = true).
    { eapply lower_monotone. 2: exact Eb. apply ik_lt_uk_le. apply Hall. exact Hb. }
    congruence.
Qed.
Lemma ksorted_firstn : forall V (l : list (ikey * V)) n, ksorted l -> ksorted (firstn n l).
Proof. intros V l n Hs. rewrite <- (firstn_skipn n l) in Hs. apply ksorted_app in Hs. tauto. Qed.
Lemma firstn_S_nth : forall A (l : list A) i e, nth_error l i = Some e -> firstn (S i) l = firstn i l ++ [e].
Proof.
  intros A l. induction l as [|x r IH]; intros i e H. destruct i; discriminate.
  destruct i as [|i]; simpl in H. inversion H. reflexivity. simpl. f_equal. apply IH. exact H.
Qed.

(* the reversed window = the entries below the upper bound, read downwards while inside the lower bound *)
Lemma window_rev_take_while : forall lo hi (l : list (ikey * bytes)), ksorted l ->
  let U := partition_point (fun e => upper_ok hi (ik_uk (fst e))) l in
  rev (window lo hi l) = take_while (fun e => lower_okb lo (ik_uk (fst e))) (rev (firstn U l)).
Proof.
  intros lo hi l Hs U. unfold window. rewrite <- (firstn_skipn U l) at 1. rewrite filter_app'.
  rewrite (filter_none _ _ (skipn U l)).
  2: { intros b Hb. rewrite in_boundsb_split. apply andb_false_iff. right.
       destruct (skipn U l) as [|h r] eqn:Esk. contradiction.
       assert (Hh : nth_error l U = Some h) by (eapply skipn_head; eauto).
       pose proof (pp_at _ l h Hh) as Hp. simpl in Hp.
       destruct Hb as [<-|Hb]. exact Hp.
       destruct (upper_ok hi (ik_uk (fst b))) eqn:Eb; auto.
       assert (upper_ok hi (ik_uk (fst h)) = true).
       { eapply upper_antitone. 2: exact Eb. apply ik_lt_uk_le.
         pose proof (ksorted_skipn _ l U Hs) as Hss. rewrite Esk in Hss. inversion Hss. subst. rewrite Forall_forall in H2. apply H2. exact Hb. }
       congruence. }
  rewrite app_nil_r. rewrite <- filter_take_while_desc by (apply ksorted_rev; apply ksorted_firstn; exact Hs).
  rewrite filter_rev'. f_equal. apply filter_ext_in. intros b Hb. rewrite in_boundsb_split.
  replace (upper_ok hi (ik_uk (fst b))) with true. apply andb_true_r. symmetry.
  destruct (In_nth_error _ _ Hb) as [j Hj].
  assert (Hjl : j < U). { assert (j < length (firstn U l)) by (apply nth_error_Some; congruence). rewrite firstn_length in H. lia. }
  rewrite nth_error_firstn_lt in Hj by exact Hjl. apply (pp_before _ l j b Hjl Hj).
Qed.

Section Iter.
Variable ri : nat.
Hypothesis Hri : 0 < ri.
Variable blocks : list (list entry).
Hypothesis Hnb : nonempty_all blocks.
Hypothesis Hsb : ksorted (concat blocks).
Hypothesis Hblocks_ne : blocks <> [].
Variable parts : list (list ientry).
Hypothesis Hcp : concat parts = index_entries 0 blocks.
Hypothesis Hnp : nonempty_all parts.
Variables sm lg : option ikey.
Let ix := index_entries 0 blocks.
Let T := {| t_ri := ri; t_blocks := blocks; t_parts := parts; t_top := top_entries 0 parts;
            t_smallest := sm; t_largest := lg |}.
Let es := concat blocks.
Let m := length blocks.

Lemma ix_len : length ix = m.
Proof. apply index_entries_length. Qed.
Lemma ix_sorted : ksorted ix.
Proof. apply index_entries_sorted; auto. Qed.
Lemma parts_total : offs parts (length parts) = m.
Proof. rewrite offs_all, Hcp. apply ix_len. Qed.
Lemma part_nonempty : forall j part, nth_error parts j = Some part -> 0 < length part.
Proof.
  intros j part H. unfold nonempty_all in Hnp. rewrite Forall_forall in Hnp.
  specialize (Hnp part (nth_error_In _ _ H)). destruct part. contradiction. simpl. lia.
Qed.
Lemma block_nonempty : forall g blk, nth_error blocks g = Some blk -> 0 < length blk.
Proof.
  intros g blk H. unfold nonempty_all in Hnb. rewrite Forall_forall in Hnb.
  specialize (Hnb blk (nth_error_In _ _ H)). destruct blk. contradiction. simpl. lia.
Qed.
Lemma top_part_eq : forall j part, nth_error parts j = Some part -> top_part T j = part.
Proof.
  intros j part H. unfold top_part. simpl. rewrite (top_entries_at _ 0 _ _ H). simpl.
  unfold tb_part. simpl. apply nth_error_nth'. exact H.
Qed.
Lemma top_part_none : forall j, length parts <= j -> top_part T j = [].
Proof.
  intros j H. unfold top_part. simpl.
  destruct (nth_error (top_entries 0 parts) j) as [[k h]|] eqn:E; auto.
  exfalso. assert (j < length (top_entries 0 parts)) by (apply nth_error_Some; congruence).
  rewrite top_entries_length in H0. lia.
Qed.
Lemma nparts_eq : nparts T = length parts.
Proof. unfold nparts. simpl. apply top_entries_length. Qed.

(* ---------- IndexIterator ---------- *)
(* positioned on index entry number g (= data block g) *)
Definition ipos (x : iiter) (g : nat) : Prop :=
  exists part it o, nth_error parts (i_pidx x) = Some part /\ i_it x = Some it /\
    at_pos nat ri part it o /\ g = offs parts (i_pidx x) + o.

Lemma ipos_lt : forall x g, ipos x g -> g < m.
Proof.
  intros x g [part [it [o [H1 [H2 [H3 H4]]]]]]. destruct H3 as [_ [_ [_ [_ Ho]]]]. subst g.
  rewrite <- ix_len. unfold ix. rewrite <- Hcp. eapply offs_mono_lt; eauto.
Qed.
Lemma ipos_valid : forall x g, ipos x g -> i_valid x = true.
Proof. intros x g [part [it [o [H1 [H2 [[H3 _] H4]]]]]]. unfold i_valid, b_valid. rewrite H2, H3. reflexivity. Qed.
Lemma ipos_handle : forall x g, ipos x g -> i_handle T x = Some g.
Proof.
  intros x g [part [it [o [H1 [H2 [[H3 [_ [_ [_ Ho]]]] H4]]]]]]. unfold i_handle. rewrite H2.
  rewrite (top_part_eq _ _ H1). unfold b_entry. rewrite H3.
  destruct (nth_error part o) as [[k h]|] eqn:E; [|apply nth_error_None in E; lia].
  pose proof (nth_concat _ _ _ _ _ _ H1 E) as Hc. rewrite Hcp, <- H4 in Hc.
  destruct (index_entries_nth _ _ _ _ _ Hc) as [Hh _]. simpl in Hh. congruence.
Qed.

Lemma i_seek_first_spec : forall x, ipos (i_seek_first T x) 0.
Proof.
  intros x. unfold i_seek_first.
  destruct (nth_error parts 0) as [p0|] eqn:H0.
  2: { exfalso. apply nth_error_None in H0. assert (Hl : length parts = 0) by lia. apply length_zero_iff_nil in Hl.
       pose proof parts_total as Ht. rewrite Hl in Ht. unfold offs in Ht. simpl in Ht. unfold m in Ht.
       apply Hblocks_ne. apply length_zero_iff_nil. lia. }
  rewrite (top_part_eq _ _ H0).
  pose proof (b_seek_first_spec nat ri Hri p0 b_new (part_nonempty _ _ H0)) as Hat.
  assert (Hv : i_valid {| i_pidx := 0; i_it := Some (b_seek_first ri p0 b_new) |} = true).
  { unfold i_valid, b_valid. simpl. destruct Hat as [Hc _]. rewrite Hc. reflexivity. }
  simpl t_ri. rewrite Hv. exists p0, (b_seek_first ri p0 b_new), 0. simpl. repeat split; auto; apply Hat.
Qed.

Lemma i_next_spec : forall x g, ipos x g ->
  if S g <? m then ipos (i_next T x) (S g) else i_valid (i_next T x) = false.
Proof.
  intros x g [part [it [o [H1 [H2 [H3 H4]]]]]]. unfold i_next. rewrite H2, (top_part_eq _ _ H1).
  pose proof (b_advance_spec nat ri Hri part it o H3) as Hadv.
  destruct (b_advance part it) as [it' ok] eqn:Ea. simpl in Hadv.
  pose proof (offs_S _ parts _ _ H1) as HoS.
  destruct (S o <? length part) eqn:Eo.
  - destruct Hadv as [Hok Hat]. subst ok. apply Nat.ltb_lt in Eo.
    assert (Hlt : S g < m).
    { rewrite <- ix_len. unfold ix. rewrite <- Hcp. subst g. rewrite <- Nat.add_succ_r. eapply offs_mono_lt; eauto. }
    apply Nat.ltb_lt in Hlt. rewrite Hlt. exists part, it', (S o). simpl. repeat split; auto; try apply Hat. lia.
  - destruct Hadv as [Hok Hcur]. subst ok. apply Nat.ltb_ge in Eo.
    destruct H3 as [_ [_ [_ [_ Ho]]]]. assert (Hol : S o = length part) by lia.
    cbn [i_next_loop]. rewrite nparts_eq.
    destruct (length parts <=? S (i_pidx x)) eqn:El.
    + apply Nat.leb_le in El. assert (Hj : S (i_pidx x) = length parts).
      { assert (i_pidx x < length parts) by (apply nth_error_Some; congruence). lia. }
      assert (HSg : S g = m). { rewrite <- parts_total, <- Hj, HoS. lia. }
      replace (S g <? m) with false by (symmetry; apply Nat.ltb_ge; lia). reflexivity.
    + apply Nat.leb_gt in El.
      destruct (nth_error parts (S (i_pidx x))) as [p'|] eqn:Ep; [|apply nth_error_None in Ep; lia].
      rewrite (top_part_eq _ _ Ep). simpl t_ri.
      pose proof (b_seek_first_spec nat ri Hri p' b_new (part_nonempty _ _ Ep)) as Hat.
      assert (Hv : b_valid (b_seek_first ri p' b_new) = true). { unfold b_valid. destruct Hat as [Hc _]. rewrite Hc. reflexivity. }
      rewrite Hv.
      assert (Hlt : S g < m).
      { rewrite <- ix_len. unfold ix. rewrite <- Hcp. replace (S g) with (offs parts (S (i_pidx x)) + 0) by lia.
        eapply offs_mono_lt; eauto. eapply part_nonempty; eauto. }
      apply Nat.ltb_lt in Hlt. rewrite Hlt. exists p', (b_seek_first ri p' b_new), 0. simpl. repeat split; auto; try apply Hat. lia.
Qed.

Lemma i_seek_spec : forall t x,
  let g := partition_point (ltk t) ix in
  if g <? m then ipos (i_seek T t x) g else i_valid (i_seek T t x) = false.
Proof.
  intros t x g. unfold i_seek. simpl t_top.
  destruct (find_partition (top_entries 0 parts) t) as [[idx e0]|] eqn:Ef.
  - destruct (locate_some ix parts ix_sorted Hcp Hnp t idx e0 Ef) as [part [Hpart [Hsnd Hloc]]]. cbv zeta in Hloc.
    destruct Hloc as [y [pre [post [Hy [Eix [Hpre [Hyge Hlen]]]]]]].
    assert (Hg : g = length pre).
    { unfold g. rewrite Eix. apply pp_unique. intros z Hz. apply ik_ltb_lt. apply Hpre. exact Hz.
      apply ik_ltb_false. exact Hyge. }
    assert (Hgm : g < m). { rewrite <- ix_len, Eix, app_length. simpl. lia. }
    apply Nat.ltb_lt in Hgm. rewrite Hgm.
    rewrite (top_part_eq _ _ Hpart). simpl t_ri.
    pose proof (b_seek_spec nat ri Hri part (part_sorted ix parts ix_sorted Hcp _ _ Hpart) t b_new) as Hseek. cbv zeta in Hseek.
    match type of Hseek with (if ?c then _ else _) =>
      assert (Hc : c = true) by (apply Nat.ltb_lt; apply nth_error_Some; rewrite Hy; discriminate) end.
    rewrite Hc in Hseek.
    assert (Hv : i_valid {| i_pidx := idx; i_it := Some (b_seek ri part t b_new) |} = true).
    { unfold i_valid, b_valid. simpl. destruct Hseek as [Hcur _]. rewrite Hcur. reflexivity. }
    rewrite Hv. exists part, (b_seek ri part t b_new), (partition_point (ltk t) part). simpl.
    repeat split; auto; try apply Hseek. rewrite Hg, Hlen. reflexivity.
  - pose proof (locate_none ix parts ix_sorted Hcp t Ef) as Hall.
    assert (Hg : g = m). { unfold g. rewrite <- ix_len. apply pp_all_true. intros y Hy. apply ik_ltb_lt. apply Hall. exact Hy. }
    replace (g <? m) with false by (symmetry; apply Nat.ltb_ge; lia). reflexivity.
Qed.

(* ---------- TableIterator: forward ---------- *)
Definition tpos (x : titer) (g i : nat) : Prop :=
  ipos (t_first x) g /\ exists blk it, nth_error blocks g = Some blk /\ t_second x = Some (g, it) /\
    at_pos bytes ri blk it i.

Lemma tb_block_eq : forall g blk, nth_error blocks g = Some blk -> tb_block T g = blk.
Proof. intros g blk H. unfold tb_block. simpl. apply nth_error_nth'. exact H. Qed.
Lemma tpos_valid : forall x g i, tpos x g i -> second_valid (t_second x) = true.
Proof.
  intros x g i [_ [blk [it [_ [H2 [H3 _]]]]]]. unfold second_valid, b_valid. rewrite H2, H3. reflexivity.
Qed.
Lemma tpos_entry : forall x g i, tpos x g i ->
  offs blocks g + i < length es /\ t_entry T x = nth_error es (offs blocks g + i).
Proof.
  intros x g i [_ [blk [it [H1 [H2 [H3 [_ [_ [_ Hi]]]]]]]]]. split. eapply offs_mono_lt; eauto.
  unfold t_entry. rewrite H2, (tb_block_eq _ _ H1). unfold b_entry. rewrite H3.
  destruct (nth_error blk i) as [e|] eqn:E; [|apply nth_error_None in E; lia].
  symmetry. eapply nth_concat; eauto.
Qed.

Lemma init_block_spec : forall x g, ipos (t_first x) g ->
  init_data_block T x = {| t_first := t_first x; t_second := Some (g, b_new); t_exh := t_exh x |}.
Proof.
  intros x g H. unfold init_data_block. rewrite (ipos_valid _ _ H), (ipos_handle _ _ H). reflexivity.
Qed.
Lemma init_block_invalid : forall x, i_valid (t_first x) = false ->
  init_data_block T x = {| t_first := t_first x; t_second := None; t_exh := t_exh x |}.
Proof. intros x H. unfold init_data_block. rewrite H. reflexivity. Qed.

Lemma adv_valid : forall f x, second_valid (t_second x) = true -> advance_to_valid T (S f) x = x.
Proof. intros f x H. simpl. rewrite H. reflexivity. Qed.
Lemma adv_invalid_first : forall f x, second_valid (t_second x) = false -> i_valid (t_first x) = false ->
  second_valid (t_second (advance_to_valid T (S f) x)) = false /\ t_exh (advance_to_valid T (S f) x) = t_exh x.
Proof. intros f x H1 H2. simpl. rewrite H1, H2. simpl. auto. Qed.

Lemma adv_step : forall f x, second_valid (t_second x) = false -> i_valid (t_first x) = true ->
  advance_to_valid T (S f) x =
  advance_to_valid T f (on_second T (b_seek_first (t_ri T))
    (init_data_block T {| t_first := i_next T (t_first x); t_second := t_second x; t_exh := t_exh x |})).
Proof. intros f x H1 H2. simpl. rewrite H1, H2. reflexivity. Qed.

Lemma adv_end : forall x g, ipos (t_first x) g -> second_valid (t_second x) = false ->
  let y := advance_to_valid T (FUEL T) x in
  t_exh y = t_exh x /\ if S g <? m then tpos y (S g) 0 else second_valid (t_second y) = false.
Proof.
  intros x g Hp Hs y. unfold y, FUEL. rewrite (adv_step _ _ Hs (ipos_valid _ _ Hp)).
  pose proof (i_next_spec _ _ Hp) as Hn.
  set (x1 := {| t_first := i_next T (t_first x); t_second := t_second x; t_exh := t_exh x |}).
  destruct (S g <? m) eqn:E.
  - rewrite (init_block_spec x1 (S g) Hn). unfold on_second. cbn [t_second t_first t_exh x1].
    apply Nat.ltb_lt in E.
    destruct (nth_error blocks (S g)) as [blk|] eqn:Eb; [|apply nth_error_None in Eb; unfold m in E; lia].
    rewrite (tb_block_eq _ _ Eb). simpl t_ri.
    pose proof (b_seek_first_spec bytes ri Hri blk b_new (block_nonempty _ _ Eb)) as Hat.
    rewrite adv_valid.
    + cbn [t_exh]. split. reflexivity. split. exact Hn. exists blk, (b_seek_first ri blk b_new). auto.
    + cbn [t_second]. unfold second_valid, b_valid. destruct Hat as [Hc _]. rewrite Hc. reflexivity.
  - rewrite (init_block_invalid x1 Hn). unfold on_second. cbn [t_second t_first t_exh x1].
    pose proof (adv_invalid_first (nblocks T) {| t_first := i_next T (t_first x); t_second := None; t_exh := t_exh x |} eq_refl Hn) as [A1 A2].
    split. exact A2. exact A1.
Qed.

(* decomposition of the entry list around entry i of block g *)
Lemma list_split_at : forall A (l : list A) i e, nth_error l i = Some e -> l = firstn i l ++ e :: skipn (S i) l.
Proof.
  intros A l. induction l as [|x r IH]; intros i e H. destruct i; discriminate.
  destruct i as [|i]; simpl in H.
  - inversion H. reflexivity.
  - simpl. f_equal. apply IH. exact H.
Qed.
Lemma blocks_split : forall g blk, nth_error blocks g = Some blk ->
  blocks = firstn g blocks ++ blk :: skipn (S g) blocks.
Proof. intros g blk H. apply list_split_at. exact H. Qed.
Lemma es_split : forall g blk i e, nth_error blocks g = Some blk -> nth_error blk i = Some e ->
  es = (concat (firstn g blocks) ++ firstn i blk) ++ e :: (skipn (S i) blk ++ concat (skipn (S g) blocks)) /\
  length (concat (firstn g blocks) ++ firstn i blk) = offs blocks g + i.
Proof.
  intros g blk i e Hb He. split.
  - unfold es. rewrite (blocks_split _ _ Hb) at 1. rewrite concat_app. simpl.
    rewrite (list_split_at _ _ _ _ He) at 1. rewrite <- !app_assoc. reflexivity.
  - rewrite app_length, firstn_length. unfold offs.
    assert (i < length blk) by (apply nth_error_Some; congruence). lia.
Qed.
Lemma in_firstn_blocks : forall g e, In e (concat (firstn g blocks)) ->
  exists i blk, i < g /\ nth_error blocks i = Some blk /\ In e blk.
Proof.
  intros g e H. destruct (in_concat_nth _ _ _ H) as [i [blk [Hi Hin]]].
  assert (Hlt : i < length (firstn g blocks)) by (apply nth_error_Some; congruence).
  rewrite firstn_length in Hlt. exists i, blk. split. lia. split; auto.
  rewrite <- Hi. symmetry. apply nth_error_firstn_lt. lia.
Qed.

(* blocks whose index key is below t hold only entries below t *)
Lemma block_below : forall t i blk e, i < partition_point (ltk t) ix -> nth_error blocks i = Some blk -> In e blk ->
  ik_lt (fst e) t.
Proof.
  intros t i blk e Hi Hb Hin.
  destruct (index_entries_at blocks 0 i blk Hb) as [key Hk]. fold ix in Hk.
  pose proof (pp_before (ltk t) ix i _ Hi Hk) as Hlt. unfold ltk in Hlt. simpl in Hlt. apply ik_ltb_lt in Hlt.
  destruct (index_entries_nth _ _ _ _ _ Hk) as [_ [blk' [Hb' [Hle _]]]]. rewrite Hb in Hb'. inversion Hb'. subst blk'.
  eapply ik_le_lt_trans. 2: exact Hlt. eapply ik_le_trans. 2: exact Hle.
  apply le_last_key; auto. eapply chunk_sorted; eauto.
Qed.

Lemma sep_lt_next : forall g key h nb, nth_error ix g = Some (key, h) -> nth_error blocks (S g) = Some nb ->
  ik_lt key (first_key nb).
Proof.
  intros g key h nb Hk Hn. destruct (index_entries_nth _ _ _ _ _ Hk) as [_ [blk [Hb [_ Hsep]]]].
  rewrite (Hsep _ Hn). apply ik_separator_between.
  pose proof Hsb as Hs. rewrite (blocks_split _ _ Hb) in Hs at 1. rewrite concat_app, concat_cons in Hs.
  apply ksorted_app in Hs. destruct Hs as [_ [Hs _]]. apply ksorted_app in Hs. destruct Hs as [_ [_ Hc]].
  assert (Hblk : blk <> []). { pose proof (block_nonempty _ _ Hb). destruct blk; simpl in *; [lia|discriminate]. }
  assert (Hnbne : nb <> []). { pose proof (block_nonempty _ _ Hn). destruct nb; simpl in *; [lia|discriminate]. }
  destruct (last_key_in _ blk Hblk) as [v1 L1]. destruct (first_key_in _ nb Hnbne) as [v2 F2].
  apply (Hc (last_key blk, v1) (first_key nb, v2) L1).
  assert (Hsk : skipn (S g) blocks = nb :: skipn (S (S g)) blocks).
  { rewrite (list_split_at _ _ _ _ Hn) at 1. rewrite skipn_app. rewrite skipn_all2 by (rewrite firstn_length; lia).
    rewrite firstn_length. assert (S g < length blocks) by (apply nth_error_Some; congruence).
    replace (S g - Nat.min (S g) (length blocks)) with 0 by lia. reflexivity. }
  rewrite Hsk. simpl. apply in_or_app. left. exact F2.
Qed.

Lemma in_blocks_lt : forall e, In e es -> exists i blk, i < m /\ nth_error blocks i = Some blk /\ In e blk.
Proof.
  intros e H. destruct (in_concat_nth _ _ _ H) as [i [blk [Hi Hin]]]. exists i, blk. split; auto.
  unfold m. apply nth_error_Some. congruence.
Qed.

Lemma seek_internal_spec : forall t x,
  let y := seek_internal T t x in
  let G := partition_point (ltk t) es in
  t_exh y = t_exh x /\
  if G <? length es then exists g i, tpos y g i /\ offs blocks g + i = G
  else second_valid (t_second y) = false.
Proof.
  intros t x y G. unfold y, seek_internal.
  set (x1 := {| t_first := i_seek T t (t_first x); t_second := t_second x; t_exh := t_exh x |}).
  pose proof (i_seek_spec t (t_first x)) as Hi. cbv zeta in Hi.
  set (g0 := partition_point (ltk t) ix) in *.
  destruct (g0 <? m) eqn:Eg.
  - apply Nat.ltb_lt in Eg. rewrite (init_block_spec x1 g0 Hi). unfold on_second. cbn [t_second t_first t_exh x1].
    destruct (nth_error blocks g0) as [blk|] eqn:Eb; [|apply nth_error_None in Eb; unfold m in Eg; lia].
    rewrite (tb_block_eq _ _ Eb). simpl t_ri.
    assert (Sblk : ksorted blk) by (eapply chunk_sorted; eauto).
    pose proof (b_seek_spec bytes ri Hri blk Sblk t b_new) as Hseek. cbv zeta in Hseek.
    set (p := partition_point (ltk t) blk) in *.
    assert (Hbelow : forall e, In e (concat (firstn g0 blocks)) -> ltk t e = true).
    { intros e Hin. destruct (in_firstn_blocks _ _ Hin) as [i [bi [Hlt [Hbi Hine]]]].
      apply ik_ltb_lt. eapply block_below; eauto. }
    destruct (p <? length blk) eqn:Ep.
    + (* the block holds the first entry >= t *)
      apply Nat.ltb_lt in Ep.
      set (x2 := {| t_first := i_seek T t (t_first x); t_second := Some (g0, b_seek ri blk t b_new); t_exh := t_exh x |}).
      assert (Hv : second_valid (t_second x2) = true).
      { unfold x2, second_valid, b_valid. cbn [t_second]. destruct Hseek as [Hc _]. rewrite Hc. reflexivity. }
      unfold FUEL. rewrite (adv_valid _ x2 Hv). split. reflexivity.
      destruct (nth_error blk p) as [e|] eqn:Ee; [|apply nth_error_None in Ee; lia].
      destruct (es_split _ _ _ _ Eb Ee) as [Hes Hlen].
      assert (HG : G = offs blocks g0 + p).
      { unfold G. rewrite Hes. rewrite <- Hlen. apply pp_unique.
        - intros z Hz. apply in_app_or in Hz. destruct Hz as [Hz|Hz]. apply Hbelow. exact Hz.
          destruct (In_nth_error _ _ Hz) as [j Hj].
          assert (Hjl : j < p). { assert (j < length (firstn p blk)) by (apply nth_error_Some; congruence). rewrite firstn_length in H. lia. }
          rewrite nth_error_firstn_lt in Hj by exact Hjl. apply (pp_before (ltk t) blk j z Hjl Hj).
        - apply (pp_at (ltk t) blk e Ee). }
      assert (HGl : G < length es). { rewrite HG. eapply offs_mono_lt; eauto. }
      apply Nat.ltb_lt in HGl. rewrite HGl. exists g0, p. split; auto.
      split. exact Hi. exists blk, (b_seek ri blk t b_new). auto.
    + (* gap: every entry of the block is below t <= its index key *)
      apply Nat.ltb_ge in Ep. pose proof (pp_le (ltk t) blk) as Hple. fold p in Hple.
      assert (Hallblk : forall e, In e blk -> ltk t e = true). { intros e Hin. apply (pp_all (ltk t) blk); auto. fold p. lia. }
      set (x2 := {| t_first := i_seek T t (t_first x); t_second := Some (g0, b_seek ri blk t b_new); t_exh := t_exh x |}).
      assert (Hv : second_valid (t_second x2) = false).
      { unfold x2, second_valid, b_valid. cbn [t_second]. rewrite Hseek. reflexivity. }
      pose proof (adv_end x2 g0 Hi Hv) as [A1 A2]. split. exact A1.
      assert (Hbelow' : forall e, In e (concat (firstn (S g0) blocks)) -> ltk t e = true).
      { intros e Hin. destruct (in_firstn_blocks _ _ Hin) as [i [bi [Hlt [Hbi Hine]]]].
        destruct (Nat.eq_dec i g0) as [->|Hne]. rewrite Eb in Hbi. inversion Hbi. subst bi. apply Hallblk. exact Hine.
        apply ik_ltb_lt. apply (block_below t i bi e); auto. fold g0. lia. }
      destruct (S g0 <? m) eqn:Es.
      * apply Nat.ltb_lt in Es.
        destruct (nth_error blocks (S g0)) as [nb|] eqn:En; [|apply nth_error_None in En; unfold m in Es; lia].
        pose proof (block_nonempty _ _ En) as Hnbl.
        destruct (nth_error nb 0) as [e0|] eqn:E0; [|apply nth_error_None in E0; lia].
        destruct (es_split _ _ _ _ En E0) as [Hes Hlen]. simpl firstn in Hes, Hlen. rewrite app_nil_r in Hes, Hlen.
        assert (HG : G = offs blocks (S g0) + 0).
        { unfold G. rewrite Hes. rewrite <- Hlen. apply pp_unique. exact Hbelow'.
          destruct (index_entries_at blocks 0 g0 blk Eb) as [key Hk]. fold ix in Hk. simpl in Hk.
          pose proof (pp_at (ltk t) ix _ Hk) as Hge. unfold ltk in Hge. simpl in Hge. apply ik_ltb_false in Hge.
          pose proof (sep_lt_next _ _ _ _ Hk En) as Hlt.
          assert (Hfk : first_key nb = fst e0). { destruct nb as [|[k0 v0] r0]; simpl in E0. discriminate. inversion E0. reflexivity. }
          unfold ltk. apply ik_ltb_false. rewrite <- Hfk. apply ik_lt_le. eapply ik_le_lt_trans; eauto. }
        assert (HGl : G < length es). { rewrite HG. eapply offs_mono_lt; eauto. }
        apply Nat.ltb_lt in HGl. rewrite HGl. exists (S g0), 0. auto.
      * apply Nat.ltb_ge in Es.
        assert (HG : G = length es).
        { unfold G. apply pp_all_true. intros e Hin. destruct (in_blocks_lt _ Hin) as [i [bi [Hlt [Hbi Hine]]]].
          apply Hbelow'. apply in_concat. exists bi. split; auto.
          apply nth_error_In with i. rewrite nth_error_firstn_lt by lia. exact Hbi. }
        replace (G <? length es) with false by (symmetry; apply Nat.ltb_ge; lia). exact A2.
  - (* every index key is below t *)
    apply Nat.ltb_ge in Eg. rewrite (init_block_invalid x1 Hi). unfold on_second. cbn [t_second t_first t_exh x1].
    unfold FUEL.
    pose proof (adv_invalid_first (S (nblocks T)) {| t_first := i_seek T t (t_first x); t_second := None; t_exh := t_exh x |} eq_refl Hi) as [A1 A2].
    split. exact A2.
    assert (HG : G = length es).
    { unfold G. apply pp_all_true. intros e Hin. destruct (in_blocks_lt _ Hin) as [i [bi [Hlt [Hbi Hine]]]].
      apply ik_ltb_lt. apply (block_below t i bi e); auto. fold g0. lia. }
    replace (G <? length es) with false by (symmetry; apply Nat.ltb_ge; lia). exact A1.
Qed.

Lemma sat_upper_eq : forall hi u, sat_upper hi u = upper_ok hi u.
Proof. intros hi u. destruct hi; reflexivity. Qed.
Lemma tpos_cur_uk : forall x g i e, tpos x g i -> nth_error es (offs blocks g + i) = Some e -> t_cur_uk T x = ik_uk (fst e).
Proof.
  intros x g i e Hp He. unfold t_cur_uk. destruct (tpos_entry _ _ _ Hp) as [_ Hen]. rewrite Hen, He.
  destruct e. reflexivity.
Qed.
Lemma tpos_t_valid : forall x g i, tpos x g i -> t_valid x = negb (t_exh x).
Proof. intros x g i H. unfold t_valid. rewrite (tpos_valid _ _ _ H). apply andb_true_r. Qed.

Theorem t_seek_spec : forall hi t x,
  let y := t_seek T hi t x in
  (if t_valid y then t_entry T y else None) =
  match first_ge t es with
  | Some e => if upper_ok hi (ik_uk (fst e)) then Some e else None
  | None => None
  end.
Proof.
  intros hi t x y. unfold first_ge. change (fun e : ikey * bytes => negb (ik_ltb (fst e) t)) with (fun e : ikey * bytes => negb (ltk t e)).
  rewrite find_pp. unfold y, t_seek.
  set (x0 := {| t_first := t_first x; t_second := t_second x; t_exh := false |}).
  pose proof (seek_internal_spec t x0) as [Hex Hs]. cbn [t_exh x0] in Hex.
  set (z := seek_internal T t x0) in *. set (G := partition_point (ltk t) es) in *.
  destruct (G <? length es) eqn:EG.
  - destruct Hs as [g [i [Hp HG]]]. destruct (tpos_entry _ _ _ Hp) as [Hlt Hen]. rewrite HG in Hen, Hlt.
    destruct (nth_error es G) as [e|] eqn:Ee; [|apply nth_error_None in Ee; lia].
    assert (Hv : t_valid z = true) by (rewrite (tpos_t_valid _ _ _ Hp), Hex; reflexivity).
    rewrite Hv. simpl andb. rewrite <- HG in Ee. rewrite (tpos_cur_uk _ _ _ _ Hp Ee), sat_upper_eq.
    destruct (upper_ok hi (ik_uk (fst e))); simpl.
    + rewrite Hv. exact Hen.
    + reflexivity.
  - assert (Hv : t_valid z = false). { unfold t_valid. rewrite Hs. apply andb_false_r. }
    rewrite Hv. simpl. rewrite Hv.
    apply Nat.ltb_ge in EG. destruct (nth_error es G) eqn:Ee; auto.
    assert (G < length es) by (apply nth_error_Some; congruence). lia.
Qed.

Lemma advance_internal_spec : forall x g i, tpos x g i ->
  let y := advance_internal T x in
  t_exh y = t_exh x /\
  if S (offs blocks g + i) <? length es then exists g' i', tpos y g' i' /\ offs blocks g' + i' = S (offs blocks g + i)
  else second_valid (t_second y) = false.
Proof.
  intros x g i Hp y. destruct Hp as [Hip [blk [it [Hb [H2 Hat]]]]]. unfold y, advance_internal. rewrite H2, (tb_block_eq _ _ Hb).
  pose proof (b_advance_spec bytes ri Hri blk it i Hat) as Hadv.
  destruct (b_advance blk it) as [it' ok] eqn:Ea. simpl in Hadv.
  pose proof (offs_S _ blocks _ _ Hb) as HoS.
  destruct (S i <? length blk) eqn:Ei.
  - destruct Hadv as [Hok Hat']. subst ok. split. reflexivity. apply Nat.ltb_lt in Ei.
    assert (Hlt : S (offs blocks g + i) < length es).
    { rewrite <- Nat.add_succ_r. eapply offs_mono_lt; eauto. }
    apply Nat.ltb_lt in Hlt. rewrite Hlt. exists g, (S i). split. 2: lia.
    split. exact Hip. exists blk, it'. auto.
  - destruct Hadv as [Hok Hcur]. subst ok. apply Nat.ltb_ge in Ei.
    destruct Hat as [_ [_ [_ [_ Hi]]]]. assert (Hil : S i = length blk) by lia.
    set (x2 := {| t_first := t_first x; t_second := Some (g, it'); t_exh := t_exh x |}).
    assert (Hv : second_valid (t_second x2) = false). { unfold x2, second_valid, b_valid. cbn [t_second]. rewrite Hcur. reflexivity. }
    pose proof (adv_end x2 g Hip Hv) as [A1 A2]. split. exact A1.
    destruct (S g <? m) eqn:Eg.
    + apply Nat.ltb_lt in Eg.
      destruct (nth_error blocks (S g)) as [nb|] eqn:En; [|apply nth_error_None in En; unfold m in Eg; lia].
      assert (Hlt : S (offs blocks g + i) < length es).
      { replace (S (offs blocks g + i)) with (offs blocks (S g) + 0) by lia. eapply offs_mono_lt; eauto. eapply block_nonempty; eauto. }
      apply Nat.ltb_lt in Hlt. rewrite Hlt. exists (S g), 0. split. exact A2. lia.
    + apply Nat.ltb_ge in Eg. assert (HSg : S g = m). { assert (g < m) by (unfold m; apply nth_error_Some; congruence). lia. }
      assert (Hend : S (offs blocks g + i) = length es). { unfold es. rewrite <- offs_all. fold m. rewrite <- HSg, HoS. lia. }
      replace (S (offs blocks g + i) <? length es) with false by (symmetry; apply Nat.ltb_ge; lia). exact A2.
Qed.

(* next .. next from an entry inside the upper bound delivers the entries up to that bound *)
Lemma drain_forward : forall lo hi fuel x g i,
  tpos x g i -> t_exh x = false -> length es - (offs blocks g + i) < fuel ->
  (forall e, nth_error es (offs blocks g + i) = Some e -> upper_ok hi (ik_uk (fst e)) = true) ->
  drain (t_next T lo hi) T fuel x = take_while (fun e => upper_ok hi (ik_uk (fst e))) (skipn (offs blocks g + i) es).
Proof.
  intros lo hi. induction fuel as [|f IH]; intros x g i Hp Hex Hf Hup. lia.
  destruct (tpos_entry _ _ _ Hp) as [Hlt Hen].
  destruct (nth_error es (offs blocks g + i)) as [e|] eqn:Ee; [|apply nth_error_None in Ee; lia].
  cbn [drain]. rewrite (tpos_t_valid _ _ _ Hp), Hex. cbn [negb]. rewrite Hen.
  rewrite (skipn_nth_cons _ _ _ _ Ee). cbn [take_while]. rewrite (Hup e eq_refl). f_equal.
  (* one step *)
  unfold t_next. rewrite (tpos_t_valid _ _ _ Hp), Hex. cbn [negb andb].
  pose proof (advance_internal_spec _ _ _ Hp) as [A1 A2]. set (y := advance_internal T x) in *.
  destruct (S (offs blocks g + i) <? length es) eqn:En.
  - destruct A2 as [g' [i' [Hp' HG']]]. apply Nat.ltb_lt in En.
    destruct (nth_error es (S (offs blocks g + i))) as [e'|] eqn:Ee'; [|apply nth_error_None in Ee'; lia].
    assert (Hv : t_valid y = true) by (rewrite (tpos_t_valid _ _ _ Hp'), A1, Hex; reflexivity).
    rewrite Hv. cbn [negb orb]. rewrite <- HG' in Ee'. rewrite (tpos_cur_uk _ _ _ _ Hp' Ee'), sat_upper_eq.
    destruct (upper_ok hi (ik_uk (fst e'))) eqn:Eu; cbn [negb].
    + rewrite <- HG'. apply IH; auto. congruence. lia. intros e2 He2. rewrite Ee' in He2. inversion He2. subst. exact Eu.
    + rewrite HG' in Ee'. rewrite (skipn_nth_cons _ _ _ _ Ee'). cbn [take_while]. rewrite Eu.
      destruct f; reflexivity.
  - assert (Hv : t_valid y = false). { unfold t_valid. rewrite A2. apply andb_false_r. }
    rewrite Hv. cbn [negb orb]. apply Nat.ltb_ge in En. rewrite skipn_all2 by lia.
    destruct f; reflexivity.
Qed.

Lemma drain_invalid : forall step fuel x, t_valid x = false -> drain step T fuel x = [].
Proof. intros step fuel x H. destruct fuel; simpl; auto. rewrite H. reflexivity. Qed.

Theorem t_seek_scan : forall lo hi t,
  drain (t_next T lo hi) T (S (length es)) (t_seek T hi t t_new) =
  filter (fun e => upper_ok hi (ik_uk (fst e))) (filter (fun e => negb (ik_ltb (fst e) t)) es).
Proof.
  intros lo hi t. unfold t_seek.
  set (x0 := {| t_first := t_first t_new; t_second := t_second t_new; t_exh := false |}).
  pose proof (seek_internal_spec t x0) as [Hex Hs]. cbn [t_exh x0] in Hex.
  set (z := seek_internal T t x0) in *. set (G := partition_point (ltk t) es) in *.
  (* entries >= t are the suffix starting at G *)
  assert (Hsuffix : filter (fun e : ikey * bytes => negb (ik_ltb (fst e) t)) es = skipn G es).
  { unfold G. clear -Hsb. fold es in Hsb. induction es as [|a r IH]; simpl; auto.
    inversion Hsb as [|? ? Hs' Hall]. subst. unfold ltk at 1. destruct (ik_ltb (fst a) t) eqn:E; simpl.
    - apply IH. exact Hs'.
    - f_equal. rewrite Forall_forall in Hall. apply filter_all. intros b Hb. apply negb_true_iff.
      apply ik_ltb_false. apply ik_ltb_false in E. eapply ik_le_trans. exact E. apply ik_lt_le. apply Hall. exact Hb. }
  rewrite Hsuffix. rewrite filter_take_while by (apply ksorted_skipn; exact Hsb).
  destruct (G <? length es) eqn:EG.
  - destruct Hs as [g [i [Hp HG]]]. destruct (tpos_entry _ _ _ Hp) as [Hlt Hen]. rewrite HG in Hlt.
    destruct (nth_error es G) as [e|] eqn:Ee; [|apply nth_error_None in Ee; lia].
    assert (Hv : t_valid z = true) by (rewrite (tpos_t_valid _ _ _ Hp), Hex; reflexivity).
    rewrite Hv. cbn [andb]. rewrite <- HG in Ee. rewrite (tpos_cur_uk _ _ _ _ Hp Ee), sat_upper_eq.
    destruct (upper_ok hi (ik_uk (fst e))) eqn:Eu; cbn [negb].
    + rewrite <- HG. apply drain_forward; auto. lia. intros e2 He2. rewrite Ee in He2. inversion He2. subst. exact Eu.
    + rewrite drain_invalid by reflexivity. rewrite HG in Ee. rewrite (skipn_nth_cons _ _ _ _ Ee). cbn [take_while]. rewrite Eu. reflexivity.
  - assert (Hv : t_valid z = false). { unfold t_valid. rewrite Hs. apply andb_false_r. }
    rewrite Hv. cbn [andb]. rewrite drain_invalid by exact Hv. apply Nat.ltb_ge in EG. rewrite skipn_all2 by lia. reflexivity.
Qed.

(* from a positioned (or invalid) state: the final upper-bound check, then next .. next *)
Lemma finish_forward : forall lo hi z G, t_exh z = false ->
  (if G <? length es then exists g i, tpos z g i /\ offs blocks g + i = G else second_valid (t_second z) = false) ->
  drain (t_next T lo hi) T (S (length es))
        (if t_valid z && negb (sat_upper hi (t_cur_uk T z)) then mark_exhausted z else z) =
  take_while (fun e => upper_ok hi (ik_uk (fst e))) (skipn G es).
Proof.
  intros lo hi z G Hex Hs.
  destruct (G <? length es) eqn:EG.
  - destruct Hs as [g [i [Hp HG]]]. destruct (tpos_entry _ _ _ Hp) as [Hlt Hen]. rewrite HG in Hlt.
    destruct (nth_error es G) as [e|] eqn:Ee; [|apply nth_error_None in Ee; lia].
    assert (Hv : t_valid z = true) by (rewrite (tpos_t_valid _ _ _ Hp), Hex; reflexivity).
    rewrite Hv. cbn [andb]. rewrite <- HG in Ee. rewrite (tpos_cur_uk _ _ _ _ Hp Ee), sat_upper_eq.
    destruct (upper_ok hi (ik_uk (fst e))) eqn:Eu; cbn [negb].
    + rewrite <- HG. apply drain_forward; auto. lia. intros e2 He2. rewrite Ee in He2. inversion He2. subst. exact Eu.
    + rewrite drain_invalid by reflexivity. rewrite HG in Ee. rewrite (skipn_nth_cons _ _ _ _ Ee). cbn [take_while]. rewrite Eu. reflexivity.
  - assert (Hv : t_valid z = false). { unfold t_valid. rewrite Hs. apply andb_false_r. }
    rewrite Hv. cbn [andb]. rewrite drain_invalid by exact Hv. apply Nat.ltb_ge in EG. rewrite skipn_all2 by lia. reflexivity.
Qed.

Lemma es_nonempty : 0 < length es.
Proof.
  destruct (nth_error blocks 0) as [b0|] eqn:H.
  - pose proof (block_nonempty _ _ H). pose proof (offs_mono_lt _ blocks 0 b0 0 H H0). simpl in H1. exact H1.
  - apply nth_error_None in H. exfalso. apply Hblocks_ne. apply length_zero_iff_nil. lia.
Qed.

(* where seek_to_first leaves the cursor before its upper-bound check *)
Lemma seek_first_position : forall lo x,
  (forall e, In e es -> (ik_seq (fst e) <= IK_SEQ_NUM_MAX)%N) ->
  let x0 := {| t_first := t_first x; t_second := t_second x; t_exh := false |} in
  let z := match lo with
           | BUnb => advance_to_valid T (FUEL T) (on_second T (b_seek_first (t_ri T))
                      (init_data_block T {| t_first := i_seek_first T (t_first x0); t_second := t_second x0; t_exh := t_exh x0 |}))
           | BInc s => seek_internal T (ik_max_of s) x0
           | BExc s => let y := seek_internal T (ik_min_of s) x0 in
                      if t_valid y && bytes_eqb (t_cur_uk T y) s then advance_internal T y else y
           end in
  let G0 := partition_point (fun e => negb (lower_okb lo (ik_uk (fst e)))) es in
  t_exh z = false /\
  (if G0 <? length es then exists g i, tpos z g i /\ offs blocks g + i = G0 else second_valid (t_second z) = false).
Proof.
  intros lo x Hseq x0 z G0. destruct lo as [|s|s].
  - (* unbounded: first entry of the first block *)
    unfold z. pose proof (i_seek_first_spec (t_first x0)) as Hi.
    set (x1 := {| t_first := i_seek_first T (t_first x0); t_second := t_second x0; t_exh := t_exh x0 |}).
    rewrite (init_block_spec x1 0 Hi). unfold on_second. cbn [t_second t_first t_exh x1 x0].
    pose proof es_nonempty as Hne.
    destruct (nth_error blocks 0) as [b0|] eqn:E0.
    2: { apply nth_error_None in E0. exfalso. apply Hblocks_ne. apply length_zero_iff_nil. lia. }
    rewrite (tb_block_eq _ _ E0). simpl t_ri.
    pose proof (b_seek_first_spec bytes ri Hri b0 b_new (block_nonempty _ _ E0)) as Hat.
    unfold FUEL. rewrite adv_valid.
    2: { cbn [t_second]. unfold second_valid, b_valid. destruct Hat as [Hc _]. rewrite Hc. reflexivity. }
    cbn [t_exh]. split. reflexivity.
    assert (HG : G0 = 0).
    { unfold G0. destruct es as [|e0 r]. simpl in Hne. lia. reflexivity. }
    rewrite HG. replace (0 <? length es) with true by (symmetry; apply Nat.ltb_lt; exact Hne).
    exists 0, 0. split. 2: reflexivity. split. exact Hi. exists b0, (b_seek_first ri b0 b_new). auto.
  - (* included: seek to (s, SEQ_MAX), the smallest key of user key s *)
    unfold z. pose proof (seek_internal_spec (ik_max_of s) x0) as [Hex Hs]. cbn [t_exh x0] in Hex.
    assert (HG : partition_point (ltk (ik_max_of s)) es = G0).
    { unfold G0. apply pp_ext_in. intros e Hin. unfold ltk. simpl lower_okb.
      destruct (lex_leb s (ik_uk (fst e))) eqn:El; simpl.
      - apply ik_ltb_false. apply lex_leb_le in El. unfold ik_le, ik_cmp. simpl.
        unfold lex_le in El. destruct (lex_cmp s (ik_uk (fst e))) eqn:Ec; try congruence.
        intros C. apply N.compare_gt_iff in C. specialize (Hseq e Hin). lia.
      - apply ik_ltb_lt. apply uk_lt_ik_lt. simpl. apply lex_leb_false. exact El. }
    rewrite HG in Hs. split; assumption.
  - (* excluded: seek to (s, 0), the largest key of user key s; step over it if it exists *)
    unfold z. pose proof (seek_internal_spec (ik_min_of s) x0) as [Hex Hs]. cbn [t_exh x0] in Hex.
    set (y := seek_internal T (ik_min_of s) x0) in *. set (G1 := partition_point (ltk (ik_min_of s)) es) in *.
    (* entries below (s,0) are outside the bound; entries above an entry (s,0) are inside *)
    assert (Hbelow : forall e : ikey * bytes, ltk (ik_min_of s) e = true -> negb (lower_okb (BExc s) (ik_uk (fst e))) = true).
    { intros e H. unfold ltk in H. apply ik_ltb_lt in H. apply ik_lt_uk_le in H. simpl in H.
      apply negb_true_iff. simpl. apply lex_ltb_false. exact H. }
    pose proof Hsb as Hses. fold es in Hses.
    destruct (G1 <? length es) eqn:EG.
    + destruct Hs as [g [i [Hp HG]]]. destruct (tpos_entry _ _ _ Hp) as [Hlt Hen]. rewrite HG in Hlt.
      destruct (nth_error es G1) as [e1|] eqn:Ee; [|apply nth_error_None in Ee; lia].
      assert (Hv : t_valid y = true) by (rewrite (tpos_t_valid _ _ _ Hp), Hex; reflexivity).
      rewrite Hv. cbn [andb]. rewrite <- HG in Ee. rewrite (tpos_cur_uk _ _ _ _ Hp Ee). rewrite HG in Ee.
      pose proof (pp_at (ltk (ik_min_of s)) es e1 Ee) as Hge. unfold ltk in Hge. apply ik_ltb_false in Hge.
      assert (Hpre : forall b, In b (firstn G1 es) -> negb (lower_okb (BExc s) (ik_uk (fst b))) = true).
      { intros b Hb. apply Hbelow. destruct (In_nth_error _ _ Hb) as [j Hj].
        assert (Hjl : j < G1). { assert (j < length (firstn G1 es)) by (apply nth_error_Some; congruence). rewrite firstn_length in H. lia. }
        rewrite nth_error_firstn_lt in Hj by exact Hjl. apply (pp_before (ltk (ik_min_of s)) es j b Hjl Hj). }
      destruct (bytes_eqb (ik_uk (fst e1)) s) eqn:Eu.
      * (* landed on (s, 0): advance *)
        apply beqb_eq in Eu.
        pose proof (advance_internal_spec _ _ _ Hp) as [A1 A2]. rewrite HG in A2. split. congruence.
        assert (HG0 : G0 = S G1).
        { unfold G0. rewrite (list_split_at _ _ _ _ Ee).
          destruct (skipn (S G1) es) as [|h r] eqn:Esk.
          - rewrite pp_all_true. rewrite app_length, firstn_length. simpl. lia.
            intros b Hb. apply in_app_or in Hb. destruct Hb as [Hb|[<-|[]]]. apply Hpre. exact Hb.
            apply negb_true_iff. simpl. rewrite Eu. unfold lex_ltb. rewrite lexc_refl. reflexivity.
          - replace (firstn G1 es ++ e1 :: h :: r) with ((firstn G1 es ++ [e1]) ++ h :: r) by (rewrite <- app_assoc; reflexivity).
            rewrite pp_unique. rewrite app_length, firstn_length. simpl. lia.
            + intros b Hb. apply in_app_or in Hb. destruct Hb as [Hb|[<-|[]]]. apply Hpre. exact Hb.
              apply negb_true_iff. simpl. rewrite Eu. unfold lex_ltb. rewrite lexc_refl. reflexivity.
            + (* h > e1 = (s, 0): its user key is above s *)
              apply negb_false_iff. simpl. apply lex_ltb_lt.
              assert (Hh : nth_error es (S G1) = Some h) by (eapply skipn_head; eauto).
              assert (Hlt1 : ik_lt (fst e1) (fst h)) by (apply (ksorted_nth_lt _ es G1 (S G1) e1 h Hses); auto).
              pose proof (ik_lt_uk_le _ _ Hlt1) as Hle. rewrite Eu in Hle.
              unfold lex_le in Hle. unfold lex_lt. destruct (lex_cmp s (ik_uk (fst h))) eqn:Ec; try congruence.
              exfalso. apply lexc_eq in Ec.
              (* same user key: seq h < seq e1 <= 0 *)
              assert (Hs0 : (ik_seq (fst e1) <= 0)%N).
              { apply (le_same_uk_seq _ _ Hge). simpl. congruence. }
              unfold ik_lt, ik_cmp in Hlt1. rewrite Eu, Ec, lexc_refl in Hlt1. change (ik_seq (fst h) < ik_seq (fst e1))%N in Hlt1. lia. }
        rewrite HG0. exact A2.
      * (* landed above s *)
        split. exact Hex.
        assert (HG0 : G0 = G1).
        { unfold G0. rewrite (list_split_at _ _ _ _ Ee). rewrite pp_unique. apply firstn_length_le. lia. exact Hpre.
          apply negb_false_iff. simpl. apply lex_ltb_lt.
          pose proof (ik_le_uk_le _ _ Hge) as Hle. simpl in Hle. unfold lex_le in Hle. unfold lex_lt.
          destruct (lex_cmp s (ik_uk (fst e1))) eqn:Ec; try congruence. apply lexc_eq in Ec.
          assert (bytes_eqb (ik_uk (fst e1)) s = true) by (apply beqb_eq; congruence). congruence. }
        rewrite HG0. replace (G1 <? length es) with true by (symmetry; apply Nat.ltb_lt; lia). exists g, i. auto.
    + assert (Hv : t_valid y = false). { unfold t_valid. rewrite Hs. apply andb_false_r. }
      rewrite Hv. cbn [andb]. split. exact Hex. apply Nat.ltb_ge in EG.
      assert (HG0 : G0 = length es).
      { unfold G0. apply pp_all_true. intros b Hb. apply Hbelow.
        apply (pp_all (ltk (ik_min_of s)) es); auto. pose proof (pp_le (ltk (ik_min_of s)) es). fold G1 in H. lia. }
      rewrite HG0. rewrite Nat.ltb_irrefl. exact Hs.
Qed.

Theorem scan_forward_complete : forall lo hi,
  (forall e, In e es -> (ik_seq (fst e) <= IK_SEQ_NUM_MAX)%N) ->
  scan_forward T lo hi (S (length es)) = window lo hi es.
Proof.
  intros lo hi Hseq. unfold scan_forward. rewrite (window_take_while lo hi es Hsb).
  pose proof (seek_first_position lo t_new Hseq) as Hpos. cbv zeta in Hpos. destruct Hpos as [Hex Hs].
  unfold t_seek_first. destruct lo as [|s|s]; apply finish_forward; assumption.
Qed.

(* ---------- backward ---------- *)
Lemma i_prev_spec : forall x g, ipos x g ->
  if g =? 0 then i_valid (i_prev T x) = false else ipos (i_prev T x) (g - 1).
Proof.
  intros x g [part [it [o [H1 [H2 [H3 H4]]]]]]. unfold i_prev. rewrite H2, (top_part_eq _ _ H1). simpl t_ri.
  pose proof (b_prev_spec nat ri Hri part it o H3) as Hpv.
  destruct (b_prev ri part it) as [it' ok] eqn:Ea. cbn [fst snd] in Hpv.
  destruct (o =? 0) eqn:Eo.
  - destruct Hpv as [Hok Hcur]. subst ok. apply Nat.eqb_eq in Eo. subst o. rewrite Nat.add_0_r in H4.
    cbn [i_prev_loop]. destruct (i_pidx x =? 0) eqn:Ej.
    + apply Nat.eqb_eq in Ej. rewrite Ej in H4. rewrite offs_0 in H4. subst g. reflexivity.
    + apply Nat.eqb_neq in Ej.
      destruct (nth_error parts (i_pidx x - 1)) as [p'|] eqn:Ep.
      2: { apply nth_error_None in Ep. assert (i_pidx x < length parts) by (apply nth_error_Some; congruence). lia. }
      rewrite (top_part_eq _ _ Ep). simpl t_ri.
      pose proof (part_nonempty _ _ Ep) as Hne.
      pose proof (b_seek_last_spec nat ri Hri p' b_new Hne) as Hat.
      assert (Hv : b_valid (b_seek_last ri p' b_new) = true). { unfold b_valid. destruct Hat as [Hc _]. rewrite Hc. reflexivity. }
      rewrite Hv.
      pose proof (offs_S _ parts _ _ Ep) as HoS. replace (S (i_pidx x - 1)) with (i_pidx x) in HoS by lia.
      assert (Hg0 : g <> 0) by lia. apply Nat.eqb_neq in Hg0. rewrite Hg0.
      exists p', (b_seek_last ri p' b_new), (length p' - 1). cbn [i_pidx i_it]. repeat split; auto; try apply Hat. lia.
  - destruct Hpv as [Hok Hat]. subst ok. apply Nat.eqb_neq in Eo.
    assert (Hg0 : g <> 0) by lia. apply Nat.eqb_neq in Hg0. rewrite Hg0.
    exists part, it', (o - 1). cbn [i_pidx i_it]. repeat split; auto; try apply Hat. lia.
Qed.

Lemma i_seek_last_spec : forall x, ipos (i_seek_last T x) (m - 1).
Proof.
  intros x. unfold i_seek_last. rewrite nparts_eq.
  assert (Hlp : 0 < length parts).
  { destruct (Nat.eq_dec (length parts) 0) as [E|E]; [|lia]. exfalso.
    pose proof parts_total as Ht. rewrite E in Ht. rewrite offs_0 in Ht. apply Hblocks_ne. apply length_zero_iff_nil. unfold m in Ht. lia. }
  destruct (nth_error parts (length parts - 1)) as [p'|] eqn:Ep; [|apply nth_error_None in Ep; lia].
  rewrite (top_part_eq _ _ Ep). simpl t_ri.
  pose proof (part_nonempty _ _ Ep) as Hne.
  pose proof (b_seek_last_spec nat ri Hri p' b_new Hne) as Hat.
  assert (Hv : i_valid {| i_pidx := length parts - 1; i_it := Some (b_seek_last ri p' b_new) |} = true).
  { unfold i_valid, b_valid. cbn [i_it]. destruct Hat as [Hc _]. rewrite Hc. reflexivity. }
  rewrite Hv.
  pose proof (offs_S _ parts _ _ Ep) as HoS. replace (S (length parts - 1)) with (length parts) in HoS by lia.
  rewrite parts_total in HoS.
  exists p', (b_seek_last ri p' b_new), (length p' - 1). cbn [i_pidx i_it]. repeat split; auto; try apply Hat. lia.
Qed.

Lemma ret_valid : forall f x, second_valid (t_second x) = true -> retreat_to_valid T (S f) x = x.
Proof. intros f x H. simpl. rewrite H. reflexivity. Qed.
Lemma ret_invalid_first : forall f x, second_valid (t_second x) = false -> i_valid (t_first x) = false ->
  second_valid (t_second (retreat_to_valid T (S f) x)) = false /\ t_exh (retreat_to_valid T (S f) x) = t_exh x.
Proof. intros f x H1 H2. simpl. rewrite H1, H2. simpl. auto. Qed.
Lemma ret_step : forall f x, second_valid (t_second x) = false -> i_valid (t_first x) = true ->
  retreat_to_valid T (S f) x =
  retreat_to_valid T f (on_second T (b_seek_last (t_ri T))
    (init_data_block T {| t_first := i_prev T (t_first x); t_second := t_second x; t_exh := t_exh x |})).
Proof. intros f x H1 H2. simpl. rewrite H1, H2. reflexivity. Qed.

Lemma ret_end : forall x g, ipos (t_first x) g -> second_valid (t_second x) = false ->
  let y := retreat_to_valid T (FUEL T) x in
  t_exh y = t_exh x /\
  if g =? 0 then second_valid (t_second y) = false
  else exists blk, nth_error blocks (g - 1) = Some blk /\ tpos y (g - 1) (length blk - 1).
Proof.
  intros x g Hp Hs y. unfold y, FUEL. rewrite (ret_step _ _ Hs (ipos_valid _ _ Hp)).
  pose proof (i_prev_spec _ _ Hp) as Hn.
  set (x1 := {| t_first := i_prev T (t_first x); t_second := t_second x; t_exh := t_exh x |}).
  destruct (g =? 0) eqn:E.
  - rewrite (init_block_invalid x1 Hn). unfold on_second. cbn [t_second t_first t_exh x1].
    pose proof (ret_invalid_first (nblocks T) {| t_first := i_prev T (t_first x); t_second := None; t_exh := t_exh x |} eq_refl Hn) as [A1 A2].
    split. exact A2. exact A1.
  - rewrite (init_block_spec x1 (g - 1) Hn). unfold on_second. cbn [t_second t_first t_exh x1].
    apply Nat.eqb_neq in E. pose proof (ipos_lt _ _ Hp) as Hgm.
    destruct (nth_error blocks (g - 1)) as [blk|] eqn:Eb; [|apply nth_error_None in Eb; unfold m in Hgm; lia].
    rewrite (tb_block_eq _ _ Eb). simpl t_ri.
    pose proof (b_seek_last_spec bytes ri Hri blk b_new (block_nonempty _ _ Eb)) as Hat.
    rewrite ret_valid.
    + cbn [t_exh]. split. reflexivity. exists blk. split. reflexivity. split. exact Hn. exists blk, (b_seek_last ri blk b_new). auto.
    + cbn [t_second]. unfold second_valid, b_valid. destruct Hat as [Hc _]. rewrite Hc. reflexivity.
Qed.

Lemma prev_internal_spec : forall x g i, tpos x g i ->
  let y := prev_internal T x in
  t_exh y = t_exh x /\
  if offs blocks g + i =? 0 then second_valid (t_second y) = false
  else exists g' i', tpos y g' i' /\ offs blocks g' + i' = offs blocks g + i - 1.
Proof.
  intros x g i Hp y. destruct Hp as [Hip [blk [it [Hb [H2 Hat]]]]]. unfold y, prev_internal. rewrite H2, (tb_block_eq _ _ Hb). simpl t_ri.
  pose proof (b_prev_spec bytes ri Hri blk it i Hat) as Hpv.
  destruct (b_prev ri blk it) as [it' ok] eqn:Ea. cbn [fst snd] in Hpv.
  destruct (i =? 0) eqn:Ei.
  - destruct Hpv as [Hok Hcur]. subst ok. apply Nat.eqb_eq in Ei. subst i. rewrite Nat.add_0_r.
    set (x2 := {| t_first := t_first x; t_second := Some (g, it'); t_exh := t_exh x |}).
    assert (Hv : second_valid (t_second x2) = false). { unfold x2, second_valid, b_valid. cbn [t_second]. rewrite Hcur. reflexivity. }
    pose proof (ret_end x2 g Hip Hv) as [A1 A2]. split. exact A1.
    destruct (g =? 0) eqn:Eg.
    + apply Nat.eqb_eq in Eg. subst g. rewrite offs_0. simpl. exact A2.
    + apply Nat.eqb_neq in Eg. destruct A2 as [pb [Hpb Htp]].
      pose proof (offs_S _ blocks _ _ Hpb) as HoS. replace (S (g - 1)) with g in HoS by lia.
      pose proof (block_nonempty _ _ Hpb) as Hne.
      assert (Hnz : offs blocks g <> 0) by lia. apply Nat.eqb_neq in Hnz. rewrite Hnz.
      exists (g - 1), (length pb - 1). split. exact Htp. lia.
  - destruct Hpv as [Hok Hat']. subst ok. apply Nat.eqb_neq in Ei. split. reflexivity.
    assert (Hnz : offs blocks g + i <> 0) by lia. apply Nat.eqb_neq in Hnz. rewrite Hnz.
    exists g, (i - 1). split. 2: lia. split. exact Hip. exists blk, it'. auto.
Qed.

Lemma absolute_last_spec : forall x,
  let y := position_to_absolute_last T x in
  t_exh y = t_exh x /\ exists g i, tpos y g i /\ offs blocks g + i = length es - 1.
Proof.
  intros x y. unfold y, position_to_absolute_last.
  pose proof (i_seek_last_spec (t_first x)) as Hi.
  set (x1 := {| t_first := i_seek_last T (t_first x); t_second := t_second x; t_exh := t_exh x |}).
  rewrite (init_block_spec x1 (m - 1) Hi). unfold on_second. cbn [t_second t_first t_exh x1].
  pose proof (ipos_lt _ _ Hi) as Hm.
  destruct (nth_error blocks (m - 1)) as [blk|] eqn:Eb; [|apply nth_error_None in Eb; unfold m in *; lia].
  rewrite (tb_block_eq _ _ Eb). simpl t_ri.
  pose proof (block_nonempty _ _ Eb) as Hne.
  pose proof (b_seek_last_spec bytes ri Hri blk b_new Hne) as Hat.
  unfold FUEL. rewrite ret_valid.
  2: { cbn [t_second]. unfold second_valid, b_valid. destruct Hat as [Hc _]. rewrite Hc. reflexivity. }
  cbn [t_exh]. split. reflexivity. exists (m - 1), (length blk - 1). split.
  - split. exact Hi. exists blk, (b_seek_last ri blk b_new). auto.
  - pose proof (offs_S _ blocks _ _ Eb) as HoS. replace (S (m - 1)) with m in HoS by lia.
    unfold m in HoS at 1. rewrite offs_all in HoS. fold es in HoS. lia.
Qed.

Lemma sat_lower_eq : forall lo u, sat_lower lo u = lower_okb lo u.
Proof.
  intros lo u. destruct lo as [|s|s]; simpl; auto.
  destruct (lex_leb s u) eqn:E.
  - apply negb_true_iff. apply lex_ltb_false. apply lex_leb_le. exact E.
  - apply negb_false_iff. apply lex_ltb_lt. apply lex_leb_false. exact E.
Qed.

Lemma drain_backward : forall lo hi fuel x g i,
  tpos x g i -> t_exh x = false -> offs blocks g + i < fuel ->
  (forall e, nth_error es (offs blocks g + i) = Some e -> lower_okb lo (ik_uk (fst e)) = true) ->
  drain (t_prev T lo hi) T fuel x =
  take_while (fun e => lower_okb lo (ik_uk (fst e))) (rev (firstn (S (offs blocks g + i)) es)).
Proof.
  intros lo hi. induction fuel as [|f IH]; intros x g i Hp Hex Hf Hlo. lia.
  destruct (tpos_entry _ _ _ Hp) as [Hlt Hen].
  destruct (nth_error es (offs blocks g + i)) as [e|] eqn:Ee; [|apply nth_error_None in Ee; lia].
  cbn [drain]. rewrite (tpos_t_valid _ _ _ Hp), Hex. cbn [negb]. rewrite Hen.
  rewrite (firstn_S_nth _ _ _ _ Ee), rev_app_distr. cbn [rev app take_while]. rewrite (Hlo e eq_refl). f_equal.
  unfold t_prev. rewrite (tpos_t_valid _ _ _ Hp), Hex. cbn [negb andb].
  pose proof (prev_internal_spec _ _ _ Hp) as [A1 A2]. set (y := prev_internal T x) in *.
  destruct (offs blocks g + i =? 0) eqn:E0.
  - assert (Hv : t_valid y = false). { unfold t_valid. rewrite A2. apply andb_false_r. }
    rewrite Hv. cbn [negb orb]. apply Nat.eqb_eq in E0. rewrite E0. simpl. destruct f; reflexivity.
  - apply Nat.eqb_neq in E0. destruct A2 as [g' [i' [Hp' HG']]].
    destruct (tpos_entry _ _ _ Hp') as [Hlt' _].
    destruct (nth_error es (offs blocks g' + i')) as [e'|] eqn:Ee'; [|apply nth_error_None in Ee'; lia].
    assert (Hv : t_valid y = true) by (rewrite (tpos_t_valid _ _ _ Hp'), A1, Hex; reflexivity).
    rewrite Hv. cbn [negb orb]. rewrite (tpos_cur_uk _ _ _ _ Hp' Ee'), sat_lower_eq.
    replace (offs blocks g + i) with (S (offs blocks g' + i')) by lia.
    destruct (lower_okb lo (ik_uk (fst e'))) eqn:El; cbn [negb].
    + apply IH; auto. congruence. lia. intros e2 He2. rewrite Ee' in He2. inversion He2. subst. exact El.
    + rewrite (firstn_S_nth _ _ _ _ Ee'), rev_app_distr. cbn [rev app take_while]. rewrite El. destruct f; reflexivity.
Qed.

Lemma finish_backward : forall lo hi z U, t_exh z = false ->
  (if U =? 0 then second_valid (t_second z) = false else exists g i, tpos z g i /\ offs blocks g + i = U - 1) ->
  drain (t_prev T lo hi) T (S (length es))
        (if t_valid z && negb (sat_lower lo (t_cur_uk T z)) then mark_exhausted z else z) =
  take_while (fun e => lower_okb lo (ik_uk (fst e))) (rev (firstn U es)).
Proof.
  intros lo hi z U Hex Hs.
  destruct (U =? 0) eqn:EU.
  - assert (Hv : t_valid z = false). { unfold t_valid. rewrite Hs. apply andb_false_r. }
    rewrite Hv. cbn [andb]. rewrite drain_invalid by exact Hv. apply Nat.eqb_eq in EU. rewrite EU. reflexivity.
  - apply Nat.eqb_neq in EU. destruct Hs as [g [i [Hp HG]]]. destruct (tpos_entry _ _ _ Hp) as [Hlt Hen].
    destruct (nth_error es (offs blocks g + i)) as [e|] eqn:Ee; [|apply nth_error_None in Ee; lia].
    assert (Hv : t_valid z = true) by (rewrite (tpos_t_valid _ _ _ Hp), Hex; reflexivity).
    rewrite Hv. cbn [andb]. rewrite (tpos_cur_uk _ _ _ _ Hp Ee), sat_lower_eq.
    replace U with (S (offs blocks g + i)) by lia.
    destruct (lower_okb lo (ik_uk (fst e))) eqn:El; cbn [negb].
    + apply drain_backward; auto; try lia. intros e2 He2. rewrite Ee in He2. inversion He2. subst. exact El.
    + rewrite drain_invalid by reflexivity. rewrite (firstn_S_nth _ _ _ _ Ee), rev_app_distr. cbn [rev app take_while]. rewrite El. reflexivity.
Qed.

(* where seek_to_last leaves the cursor before its lower-bound check *)
Lemma seek_last_position : forall hi x,
  (forall e, In e es -> (ik_seq (fst e) <= IK_SEQ_NUM_MAX)%N) ->
  let x0 := {| t_first := t_first x; t_second := t_second x; t_exh := false |} in
  let z := match hi with
           | BUnb => position_to_absolute_last T x0
           | BInc e =>
             let y := seek_internal T (ik_min_of e) x0 in
             if negb (t_valid y) then position_to_absolute_last T y
             else if lex_ltb e (t_cur_uk T y) then prev_internal T y else y
           | BExc e =>
             let y := seek_internal T (ik_max_of e) x0 in
             let y := if negb (t_valid y) then position_to_absolute_last T y else y in
             if t_valid y then
               if negb (lex_ltb (t_cur_uk T y) e) then prev_internal T y else y
             else y
           end in
  let U := partition_point (fun e => upper_ok hi (ik_uk (fst e))) es in
  t_exh z = false /\
  (if U =? 0 then second_valid (t_second z) = false else exists g i, tpos z g i /\ offs blocks g + i = U - 1).
Proof.
  intros hi x Hseq x0 z U. pose proof es_nonempty as Hne. pose proof Hsb as Hses. fold es in Hses.
  destruct hi as [|e|e].
  - (* unbounded: the last entry *)
    unfold z. pose proof (absolute_last_spec x0) as [A1 A2]. split. exact A1.
    assert (HU : U = length es). { unfold U. apply pp_all_true. reflexivity. }
    rewrite HU. assert (Hz : length es <> 0) by lia. apply Nat.eqb_neq in Hz. rewrite Hz. exact A2.
  - (* included: seek to (e, 0), the largest key of user key e *)
    unfold z. pose proof (seek_internal_spec (ik_min_of e) x0) as [Hex Hs]. cbn [t_exh x0] in Hex.
    set (y := seek_internal T (ik_min_of e) x0) in *. set (G1 := partition_point (ltk (ik_min_of e)) es) in *.
    assert (Hbelow : forall b : ikey * bytes, ltk (ik_min_of e) b = true -> upper_ok (BInc e) (ik_uk (fst b)) = true).
    { intros b H. unfold ltk in H. apply ik_ltb_lt in H. apply ik_lt_uk_le in H. simpl in H. simpl. apply lex_leb_le. exact H. }
    assert (Hpre : forall b, In b (firstn G1 es) -> upper_ok (BInc e) (ik_uk (fst b)) = true).
    { intros b Hb. apply Hbelow. destruct (In_nth_error _ _ Hb) as [j Hj].
      assert (Hjl : j < G1). { assert (j < length (firstn G1 es)) by (apply nth_error_Some; congruence). rewrite firstn_length in H. lia. }
      rewrite nth_error_firstn_lt in Hj by exact Hjl. apply (pp_before (ltk (ik_min_of e)) es j b Hjl Hj). }
    destruct (G1 <? length es) eqn:EG.
    + destruct Hs as [g [i [Hp HG]]]. destruct (tpos_entry _ _ _ Hp) as [Hlt Hen]. rewrite HG in Hlt.
      destruct (nth_error es G1) as [e1|] eqn:Ee; [|apply nth_error_None in Ee; lia].
      assert (Hv : t_valid y = true) by (rewrite (tpos_t_valid _ _ _ Hp), Hex; reflexivity).
      rewrite Hv. cbn [negb]. rewrite <- HG in Ee. rewrite (tpos_cur_uk _ _ _ _ Hp Ee). rewrite HG in Ee.
      pose proof (pp_at (ltk (ik_min_of e)) es e1 Ee) as Hge. unfold ltk in Hge. apply ik_ltb_false in Hge.
      destruct (lex_ltb e (ik_uk (fst e1))) eqn:Eu.
      * (* landed above e: step back *)
        pose proof (prev_internal_spec _ _ _ Hp) as [A1 A2]. rewrite HG in A2. split. congruence.
        assert (HU : U = G1).
        { unfold U. rewrite (list_split_at _ _ _ _ Ee). rewrite pp_unique. apply firstn_length_le. lia. exact Hpre.
          simpl. apply lex_leb_false. apply lex_ltb_lt. exact Eu. }
        rewrite HU. destruct (G1 =? 0); auto.
      * (* landed on (e, 0) itself *)
        split. exact Hex.
        assert (Hue : ik_uk (fst e1) = e).
        { apply lex_le_antisym. apply lex_ltb_false. exact Eu. pose proof (ik_le_uk_le _ _ Hge) as H. simpl in H. exact H. }
        assert (HU : U = S G1).
        { unfold U. rewrite (list_split_at _ _ _ _ Ee).
          assert (He1 : upper_ok (BInc e) (ik_uk (fst e1)) = true). { simpl. rewrite Hue. unfold lex_leb. rewrite lexc_refl. reflexivity. }
          destruct (skipn (S G1) es) as [|h r] eqn:Esk.
          - rewrite pp_all_true. rewrite app_length, firstn_length. simpl. lia.
            intros b Hb. apply in_app_or in Hb. destruct Hb as [Hb|[<-|[]]]. apply Hpre. exact Hb. exact He1.
          - replace (firstn G1 es ++ e1 :: h :: r) with ((firstn G1 es ++ [e1]) ++ h :: r) by (rewrite <- app_assoc; reflexivity).
            rewrite pp_unique. rewrite app_length, firstn_length. simpl. lia.
            + intros b Hb. apply in_app_or in Hb. destruct Hb as [Hb|[<-|[]]]. apply Hpre. exact Hb. exact He1.
            + simpl. apply lex_leb_false.
              assert (Hh : nth_error es (S G1) = Some h) by (eapply skipn_head; eauto).
              assert (Hlt1 : ik_lt (fst e1) (fst h)) by (apply (ksorted_nth_lt _ es G1 (S G1) e1 h Hses); auto).
              pose proof (ik_lt_uk_le _ _ Hlt1) as Hle. rewrite Hue in Hle.
              unfold lex_le in Hle. unfold lex_lt. destruct (lex_cmp e (ik_uk (fst h))) eqn:Ec; try congruence.
              exfalso. apply lexc_eq in Ec.
              assert (Hs0 : (ik_seq (fst e1) <= 0)%N). { apply (le_same_uk_seq _ _ Hge). simpl. congruence. }
              unfold ik_lt, ik_cmp in Hlt1. rewrite Hue, Ec, lexc_refl in Hlt1. change (ik_seq (fst h) < ik_seq (fst e1))%N in Hlt1. lia. }
        rewrite HU. cbn [Nat.eqb]. exists g, i. split. exact Hp. lia.
    + (* every entry is below (e, 0): the last entry *)
      assert (Hv : t_valid y = false). { unfold t_valid. rewrite Hs. apply andb_false_r. }
      rewrite Hv. cbn [negb]. pose proof (absolute_last_spec y) as [A1 A2]. split. congruence.
      apply Nat.ltb_ge in EG.
      assert (HU : U = length es).
      { unfold U. apply pp_all_true. intros b Hb. apply Hbelow.
        apply (pp_all (ltk (ik_min_of e)) es); auto. pose proof (pp_le (ltk (ik_min_of e)) es). fold G1 in H. lia. }
      rewrite HU. assert (Hz : length es <> 0) by lia. apply Nat.eqb_neq in Hz. rewrite Hz. exact A2.
  - (* excluded: seek to (e, SEQ_MAX), the smallest key of user key e, then step back *)
    unfold z. pose proof (seek_internal_spec (ik_max_of e) x0) as [Hex Hs]. cbn [t_exh x0] in Hex.
    set (y := seek_internal T (ik_max_of e) x0) in *.
    assert (HG : partition_point (ltk (ik_max_of e)) es = U).
    { unfold U. apply pp_ext_in. intros b Hin. unfold ltk. simpl upper_ok.
      destruct (lex_ltb (ik_uk (fst b)) e) eqn:El.
      - apply ik_ltb_lt. apply uk_lt_ik_lt. simpl. apply lex_ltb_lt. exact El.
      - apply ik_ltb_false. apply lex_ltb_false in El. unfold ik_le, ik_cmp. simpl.
        unfold lex_le in El. destruct (lex_cmp e (ik_uk (fst b))) eqn:Ec; try congruence.
        intros C. apply N.compare_gt_iff in C. specialize (Hseq b Hin). lia. }
    rewrite HG in Hs.
    destruct (U <? length es) eqn:EU.
    + destruct Hs as [g [i [Hp HGi]]]. destruct (tpos_entry _ _ _ Hp) as [Hlt Hen]. rewrite HGi in Hlt.
      destruct (nth_error es U) as [e1|] eqn:Ee; [|apply nth_error_None in Ee; lia].
      assert (Hv : t_valid y = true) by (rewrite (tpos_t_valid _ _ _ Hp), Hex; reflexivity).
      rewrite Hv. cbn [negb]. rewrite Hv. rewrite <- HGi in Ee. rewrite (tpos_cur_uk _ _ _ _ Hp Ee). rewrite HGi in Ee.
      pose proof (pp_at _ es e1 Ee) as Hup. simpl in Hup. rewrite Hup. cbn [negb].
      pose proof (prev_internal_spec _ _ _ Hp) as [A1 A2]. rewrite HGi in A2. split. congruence.
      destruct (U =? 0); auto.
    + assert (Hv : t_valid y = false). { unfold t_valid. rewrite Hs. apply andb_false_r. }
      rewrite Hv. cbn [negb]. pose proof (absolute_last_spec y) as [A1 A2]. destruct A2 as [g [i [Hp HGi]]].
      set (w := position_to_absolute_last T y) in *.
      assert (Hvw : t_valid w = true) by (rewrite (tpos_t_valid _ _ _ Hp), A1, Hex; reflexivity).
      rewrite Hvw. apply Nat.ltb_ge in EU. pose proof (pp_le (fun b : ikey * bytes => upper_ok (BExc e) (ik_uk (fst b))) es) as HUl. fold U in HUl.
      assert (HU : U = length es) by lia.
      destruct (tpos_entry _ _ _ Hp) as [Hlt Hen].
      destruct (nth_error es (offs blocks g + i)) as [e1|] eqn:Ee; [|apply nth_error_None in Ee; lia].
      rewrite (tpos_cur_uk _ _ _ _ Hp Ee).
      assert (Hup : upper_ok (BExc e) (ik_uk (fst e1)) = true).
      { apply (pp_before (fun b : ikey * bytes => upper_ok (BExc e) (ik_uk (fst b))) es (offs blocks g + i) e1); auto. fold U. lia. }
      simpl in Hup. rewrite Hup. cbn [negb]. split. congruence.
      rewrite HU. assert (Hz : length es <> 0) by lia. apply Nat.eqb_neq in Hz. rewrite Hz. exists g, i. auto.
Qed.

Theorem scan_backward_complete : forall lo hi,
  (forall e, In e es -> (ik_seq (fst e) <= IK_SEQ_NUM_MAX)%N) ->
  scan_backward T lo hi (S (length es)) = rev (window lo hi es).
Proof.
  intros lo hi Hseq. unfold scan_backward. rewrite (window_rev_take_while lo hi es Hsb).
  pose proof (seek_last_position hi t_new Hseq) as Hpos. cbv zeta in Hpos. destruct Hpos as [Hex Hs].
  unfold t_seek_last. destruct hi as [|e|e]; apply finish_backward; assumption.
Qed.

(* ---------- arbitrary walks ---------- *)
Definition Inv (x : titer) (r : rcur) : Prop :=
  match r with
  | RFresh => t_valid x = false /\ t_exh x = false
  | RAt p => t_exh x = false /\ exists g i, tpos x g i /\ offs blocks g + i = p
  | RInvalid => t_valid x = false
  end.
Lemma obs_inv : forall x r, Inv x r -> observe T x = match r with RAt p => nth_error es p | _ => None end.
Proof.
  intros x r H. unfold observe. destruct r as [|p|]; simpl in H.
  - destruct H as [H _]. rewrite H. reflexivity.
  - destruct H as [Hex [g [i [Hp HG]]]]. rewrite (tpos_t_valid _ _ _ Hp), Hex. simpl.
    destruct (tpos_entry _ _ _ Hp) as [_ He]. rewrite He, HG. reflexivity.
  - rewrite H. reflexivity.
Qed.
Lemma mark_invalid : forall z, t_valid (mark_exhausted z) = false.
Proof. reflexivity. Qed.

Lemma check_upper : forall hi z G, t_exh z = false ->
  (if G <? length es then exists g i, tpos z g i /\ offs blocks g + i = G else second_valid (t_second z) = false) ->
  Inv (if t_valid z && negb (sat_upper hi (t_cur_uk T z)) then mark_exhausted z else z) (chk (upper_ok hi) es G).
Proof.
  intros hi z G Hex Hs. unfold chk. destruct (G <? length es) eqn:EG.
  - destruct Hs as [g [i [Hp HG]]]. destruct (tpos_entry _ _ _ Hp) as [Hlt Hen]. rewrite HG in Hlt.
    destruct (nth_error es G) as [e|] eqn:Ee; [|apply nth_error_None in Ee; lia].
    assert (Hv : t_valid z = true) by (rewrite (tpos_t_valid _ _ _ Hp), Hex; reflexivity).
    rewrite Hv. cbn [andb]. rewrite <- HG in Ee. rewrite (tpos_cur_uk _ _ _ _ Hp Ee), sat_upper_eq.
    destruct (upper_ok hi (ik_uk (fst e))); cbn [negb Inv]. split; eauto. reflexivity.
  - assert (Hv : t_valid z = false). { unfold t_valid. rewrite Hs. apply andb_false_r. }
    rewrite Hv. cbn [andb]. apply Nat.ltb_ge in EG.
    destruct (nth_error es G) eqn:Ee. assert (G < length es) by (apply nth_error_Some; congruence). lia. exact Hv.
Qed.
Lemma check_lower : forall lo z U, t_exh z = false ->
  (if U =? 0 then second_valid (t_second z) = false else exists g i, tpos z g i /\ offs blocks g + i = U - 1) ->
  Inv (if t_valid z && negb (sat_lower lo (t_cur_uk T z)) then mark_exhausted z else z)
      (match U with O => RInvalid | S p => chk (lower_ok lo) es p end).
Proof.
  intros lo z U Hex Hs. destruct U as [|p].
  - simpl in Hs. assert (Hv : t_valid z = false). { unfold t_valid. rewrite Hs. apply andb_false_r. }
    rewrite Hv. exact Hv.
  - cbn [Nat.eqb] in Hs. destruct Hs as [g [i [Hp HG]]]. replace (S p - 1) with p in HG by lia.
    unfold chk. destruct (tpos_entry _ _ _ Hp) as [Hlt Hen]. rewrite HG in Hlt.
    destruct (nth_error es p) as [e|] eqn:Ee; [|apply nth_error_None in Ee; lia].
    assert (Hv : t_valid z = true) by (rewrite (tpos_t_valid _ _ _ Hp), Hex; reflexivity).
    rewrite Hv. cbn [andb]. rewrite <- HG in Ee. rewrite (tpos_cur_uk _ _ _ _ Hp Ee), sat_lower_eq.
    destruct (lower_ok lo (ik_uk (fst e))); cbn [negb Inv]. split; eauto. reflexivity.
Qed.

Section Walk.
Hypothesis Hseq : forall e, In e es -> (ik_seq (fst e) <= IK_SEQ_NUM_MAX)%N.
Variables lo hi : bound.

Lemma first_step : forall x, Inv (t_seek_first T lo hi x) (ref_first lo hi es).
Proof.
  intros x. pose proof (seek_first_position lo x Hseq) as Hpos. cbv zeta in Hpos. destruct Hpos as [Hex Hs].
  unfold t_seek_first, ref_first. destruct lo as [|s|s]; apply check_upper; assumption.
Qed.
Lemma last_step : forall x, Inv (t_seek_last T lo hi x) (ref_last lo hi es).
Proof.
  intros x. pose proof (seek_last_position hi x Hseq) as Hpos. cbv zeta in Hpos. destruct Hpos as [Hex Hs].
  unfold t_seek_last, ref_last. destruct hi as [|e|e]; apply check_lower; assumption.
Qed.
Lemma seek_step : forall t x, Inv (t_seek T hi t x) (chk (upper_ok hi) es (partition_point (fun e => ik_ltb (fst e) t) es)).
Proof.
  intros t x. unfold t_seek.
  set (x0 := {| t_first := t_first x; t_second := t_second x; t_exh := false |}).
  pose proof (seek_internal_spec t x0) as [Hex Hs]. cbn [t_exh x0] in Hex.
  apply check_upper; assumption.
Qed.
Lemma next_step : forall x p, Inv x (RAt p) -> Inv (t_next T lo hi x) (chk (upper_ok hi) es (S p)).
Proof.
  intros x p [Hex [g [i [Hp HG]]]]. unfold t_next. rewrite (tpos_t_valid _ _ _ Hp), Hex. cbn [negb andb].
  pose proof (advance_internal_spec _ _ _ Hp) as [A1 A2]. rewrite HG in A2. set (y := advance_internal T x) in *.
  unfold chk. destruct (S p <? length es) eqn:En.
  - destruct A2 as [g' [i' [Hp' HG']]]. apply Nat.ltb_lt in En.
    destruct (nth_error es (S p)) as [e'|] eqn:Ee'; [|apply nth_error_None in Ee'; lia].
    assert (Hv : t_valid y = true) by (rewrite (tpos_t_valid _ _ _ Hp'), A1, Hex; reflexivity).
    rewrite Hv. cbn [negb orb]. rewrite <- HG' in Ee'. rewrite (tpos_cur_uk _ _ _ _ Hp' Ee'), sat_upper_eq.
    destruct (upper_ok hi (ik_uk (fst e'))); cbn [negb Inv]. split. congruence. eauto. reflexivity.
  - assert (Hv : t_valid y = false). { unfold t_valid. rewrite A2. apply andb_false_r. }
    rewrite Hv. cbn [negb orb]. apply Nat.ltb_ge in En.
    destruct (nth_error es (S p)) eqn:Ee. assert (S p < length es) by (apply nth_error_Some; congruence). lia. reflexivity.
Qed.
Lemma prev_step : forall x p, Inv x (RAt p) ->
  Inv (t_prev T lo hi x) (match p with O => RInvalid | S q => chk (lower_ok lo) es q end).
Proof.
  intros x p [Hex [g [i [Hp HG]]]]. unfold t_prev. rewrite (tpos_t_valid _ _ _ Hp), Hex. cbn [negb andb].
  pose proof (prev_internal_spec _ _ _ Hp) as [A1 A2]. rewrite HG in A2. set (y := prev_internal T x) in *.
  destruct p as [|q].
  - simpl in A2. assert (Hv : t_valid y = false). { unfold t_valid. rewrite A2. apply andb_false_r. }
    rewrite Hv. reflexivity.
  - cbn [Nat.eqb] in A2. destruct A2 as [g' [i' [Hp' HG']]]. replace (S q - 1) with q in HG' by lia.
    unfold chk. destruct (tpos_entry _ _ _ Hp') as [Hlt' _]. rewrite HG' in Hlt'.
    destruct (nth_error es q) as [e'|] eqn:Ee'; [|apply nth_error_None in Ee'; lia].
    assert (Hv : t_valid y = true) by (rewrite (tpos_t_valid _ _ _ Hp'), A1, Hex; reflexivity).
    rewrite Hv. cbn [negb orb]. rewrite <- HG' in Ee'. rewrite (tpos_cur_uk _ _ _ _ Hp' Ee'), sat_lower_eq.
    destruct (lower_ok lo (ik_uk (fst e'))); cbn [negb Inv]. split. congruence. eauto. reflexivity.
Qed.

Lemma step_inv : forall o x r r', Inv x r -> ref_step lo hi es o r = Some r' -> Inv (cop_run T lo hi o x) r'.
Proof.
  intros o x r r' Hi Hr. destruct o as [| |t| |]; simpl in Hr; cbn [cop_run].
  - inversion Hr. apply first_step.
  - inversion Hr. apply last_step.
  - inversion Hr. apply seek_step.
  - destruct r as [|p|]; inversion Hr.
    + destruct Hi as [H1 H2]. unfold t_next. rewrite H1, H2. cbn [negb andb]. apply first_step.
    + apply next_step. exact Hi.
  - destruct r as [|p|]; try discriminate.
    + inversion Hr. destruct Hi as [H1 H2]. unfold t_prev. rewrite H1, H2. cbn [negb andb]. apply last_step.
    + destruct p as [|q]; inversion Hr; apply (prev_step _ _ Hi).
Qed.

Theorem walk_inv : forall ops x r r', Inv x r -> ref_run lo hi es ops r = Some r' ->
  Inv (fold_left (fun x o => cop_run T lo hi o x) ops x) r'.
Proof.
  induction ops as [|o q IH]; intros x r r' Hi Hr; simpl in *.
  - inversion Hr. subst. exact Hi.
  - destruct (ref_step lo hi es o r) as [r1|] eqn:E; [|discriminate].
    eapply IH. eapply step_inv; eauto. exact Hr.
Qed.
Theorem walk_observe : forall ops r, ref_run lo hi es ops RFresh = Some r ->
  observe T (fold_left (fun x o => cop_run T lo hi o x) ops t_new) =
  match r with RAt p => nth_error es p | _ => None end.
Proof.
  intros ops r Hr. apply obs_inv. eapply walk_inv. 2: exact Hr. simpl. auto.
Qed.
End Walk.
End Iter.

(* ---------- the statements of TableSpec.v ---------- *)
Lemma blocks_nonempty_of : forall ri es bc pc T, build_table ri es bc pc = Some T -> chunk es bc <> [].
Proof.
  intros ri es bc pc T H. destruct (build_table_inv _ _ _ _ _ H) as [_ [_ [Hne [Hc _]]]].
  intros E. rewrite E in Hc. simpl in Hc. congruence.
Qed.

Theorem iter_seek : iter_seek_stmt.
Proof.
  unfold iter_seek_stmt. intros ri es bc pc T hi t x Hs Hb.
  pose proof (blocks_nonempty_of _ _ _ _ _ Hb) as Hbn.
  destruct (build_table_inv _ _ _ _ _ Hb) as [HT [Hri [Hne [Hcb [Hnb [Hcp Hnp]]]]]].
  assert (Hsb : ksorted (concat (chunk es bc))) by (rewrite Hcb; exact Hs).
  pose proof (t_seek_spec ri Hri (chunk es bc) Hnb Hsb _ Hcp Hnp (Some (first_key es)) (Some (last_key es)) hi t x) as H.
  cbv zeta in H. rewrite Hcb in H. rewrite HT. exact H.
Qed.

Theorem iter_seek_scan : iter_seek_scan_stmt.
Proof.
  unfold iter_seek_scan_stmt. intros ri es bc pc T lo hi t Hs Hb.
  pose proof (blocks_nonempty_of _ _ _ _ _ Hb) as Hbn.
  destruct (build_table_inv _ _ _ _ _ Hb) as [HT [Hri [Hne [Hcb [Hnb [Hcp Hnp]]]]]].
  assert (Hsb : ksorted (concat (chunk es bc))) by (rewrite Hcb; exact Hs).
  pose proof (t_seek_scan ri Hri (chunk es bc) Hnb Hsb _ Hcp Hnp (Some (first_key es)) (Some (last_key es)) lo hi t) as H.
  rewrite Hcb in H. rewrite HT. exact H.
Qed.

Theorem iter_forward_complete : iter_forward_complete_stmt.
Proof.
  unfold iter_forward_complete_stmt. intros ri es bc pc T lo hi Hs Hq Hb.
  pose proof (blocks_nonempty_of _ _ _ _ _ Hb) as Hbn.
  destruct (build_table_inv _ _ _ _ _ Hb) as [HT [Hri [Hne [Hcb [Hnb [Hcp Hnp]]]]]].
  assert (Hsb : ksorted (concat (chunk es bc))) by (rewrite Hcb; exact Hs).
  pose proof (scan_forward_complete ri Hri (chunk es bc) Hnb Hsb Hbn _ Hcp Hnp (Some (first_key es)) (Some (last_key es)) lo hi) as H.
  rewrite Hcb in H. rewrite HT. apply H. exact Hq.
Qed.

Theorem iter_backward_complete : iter_backward_complete_stmt.
Proof.
  unfold iter_backward_complete_stmt. intros ri es bc pc T lo hi Hs Hq Hb.
  pose proof (blocks_nonempty_of _ _ _ _ _ Hb) as Hbn.
  destruct (build_table_inv _ _ _ _ _ Hb) as [HT [Hri [Hne [Hcb [Hnb [Hcp Hnp]]]]]].
  assert (Hsb : ksorted (concat (chunk es bc))) by (rewrite Hcb; exact Hs).
  pose proof (scan_backward_complete ri Hri (chunk es bc) Hnb Hsb Hbn _ Hcp Hnp (Some (first_key es)) (Some (last_key es)) lo hi) as H.
  rewrite Hcb in H. rewrite HT. apply H. exact Hq.
Qed.

Theorem iter_walk : iter_walk_stmt.
Proof.
  unfold iter_walk_stmt. intros ri es bc pc T lo hi ops r Hs Hq Hb Hr.
  pose proof (blocks_nonempty_of _ _ _ _ _ Hb) as Hbn.
  destruct (build_table_inv _ _ _ _ _ Hb) as [HT [Hri [Hne [Hcb [Hnb [Hcp Hnp]]]]]].
  assert (Hsb : ksorted (concat (chunk es bc))) by (rewrite Hcb; exact Hs).
  assert (Hq' : forall e, In e (concat (chunk es bc)) -> (ik_seq (fst e) <= IK_SEQ_NUM_MAX)%N) by (rewrite Hcb; exact Hq).
  rewrite <- Hcb in Hr.
  pose proof (walk_observe ri Hri (chunk es bc) Hnb Hsb Hbn _ Hcp Hnp (Some (first_key es)) (Some (last_key es)) Hq' lo hi
                ops r Hr) as Hinv.
  rewrite Hcb in Hinv. rewrite HT. exact Hinv.
Qed.
