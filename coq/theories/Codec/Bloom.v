(* Codec/Bloom.v — LevelDBBloomFilter (src/sstable/bloom.rs): create_filter / may_contain with the
   hash function as a parameter, and the transcription of the hash itself (used by the driver).
   A filter is its byte list: `bytes` bytes of bits followed by one byte holding k.
   Definitions only. *)
From Coq Require Import List NArith Bool.
From SKV Require Import Params Base.Lex.
Import ListNotations.
Local Open Scope N_scope.

Definition U32 : N := 4294967296.
Definition rotl32 (x : N) (r : N) : N := ((N.shiftl x r) mod U32) + N.shiftr x (32 - r).

Section WithHash.
Variable bloom_hash : bytes -> N.        (* 32-bit hash of a key *)

(* the k probe positions of hash value h in a filter of `bits` bits:
   hash, hash+delta, hash+2*delta ... (wrapping u32), each taken mod bits *)
Fixpoint probes (k : nat) (bits h delta : N) : list N :=
  match k with
  | O => []
  | S k' => (h mod bits) :: probes k' bits ((h + delta) mod U32) delta
  end.
Definition key_probes (k : nat) (bits : N) (key : bytes) : list N :=
  let h := bloom_hash key in probes k bits h (rotl32 h 15).

(* bit array as a byte list, bit p = bit (p mod 8) of byte (p / 8) *)
Fixpoint set_bit (l : bytes) (p : N) : bytes :=
  match l with
  | [] => []
  | x :: r => if p <? 8 then N.lor x (N.shiftl 1 p) :: r else x :: set_bit r (p - 8)
  end.
Fixpoint get_bit (l : bytes) (p : N) : bool :=
  match l with
  | [] => false
  | x :: r => if p <? 8 then N.testbit x p else get_bit r (p - 8)
  end.

(* create_filter(keys) for a policy with bits_per_key = bpk and k probes *)
Definition bloom_create (bpk : N) (k : nat) (keys : list bytes) : bytes :=
  match keys with
  | [] => []
  | _ =>
    let n := N.of_nat (length keys) in
    let nbytes := (n * bpk + 7) / 8 in
    let bits := nbytes * 8 in
    let arr := fold_left (fun a key => fold_left set_bit (key_probes k (bits mod U32) key) a)
                         keys (repeat 0 (N.to_nat nbytes)) in
    arr ++ [N.of_nat k]
  end.

(* may_contain(filter, key) *)
Definition bloom_may_contain (filter : bytes) (key : bytes) : bool :=
  let len := length filter in
  if Nat.ltb len 2 then false else
  let k := last filter 0 in
  if 30 <? k then true else
  let bits := N.of_nat (len - 1) * 8 in
  forallb (get_bit (firstn (len - 1) filter)) (key_probes (N.to_nat k) (bits mod U32) key).
End WithHash.

(* hash(data, seed) of src/sstable/bloom.rs: 4-byte words, then the 1..3 tail bytes *)
Definition M32 (x : N) : N := x mod U32.
Fixpoint hash_words (fuel : nat) (h : N) (d : bytes) : N * bytes :=
  match fuel with
  | O => (h, d)
  | S f =>
    match d with
    | b0 :: b1 :: b2 :: b3 :: r =>
      let w := b3 + 256 * b2 + 65536 * b1 + 16777216 * b0 in   (* read_unaligned().to_be(): big-endian word on a little-endian target *)
      let h := M32 (h + w) in
      let h := M32 (h * BLOOM_HASH_M) in
      let h := N.lxor h (N.shiftr h 16) in
      hash_words f h r
    | _ => (h, d)
    end
  end.
Definition hash32 (data : bytes) (seed : N) : N :=
  let h := N.lxor seed (M32 (N.of_nat (length data) * BLOOM_HASH_M)) in
  let '(h, rest) := hash_words (length data) h data in
  let h := match rest with
           | [a; b; c] => M32 (M32 (M32 (h + c * 65536) + b * 256) + a)
           | [a; b] => M32 (M32 (h + b * 256) + a)
           | [a] => M32 (h + a)
           | _ => h
           end in
  let h := M32 (h * BLOOM_HASH_M) in
  N.lxor h (N.shiftr h BLOOM_HASH_R).
Definition bloom_hash32 (key : bytes) : N := hash32 key BLOOM_SEED.
