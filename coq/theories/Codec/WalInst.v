(* Codec/WalInst.v — the WAL model instantiated with the generated parameters and the
   concrete CRC-32; compression stays a parameter (passed by the driver). *)
From Coq Require Import List NArith Arith Bool.
From SKV Require Import Params Base.Crc32 Codec.Wal.
Import ListNotations.

Definition WB : nat := N.to_nat WAL_BLOCK_SIZE.

Section Inst.
Variable compress : list byte -> list byte.
Variable decompress : list byte -> option (list byte).
Definition wal_sessions := sessions WB wal_crc compress decompress.
Definition wal_read_all := read_all WB wal_crc decompress.
Definition wal_repair := repair WB wal_crc compress decompress.
Definition wal_known_unparsed_tail := known_unparsed_tail WB wal_crc decompress.
End Inst.

(* side conditions tying the generated parameters to the model's fixed layout *)
Definition wal_params_ok : bool :=
  N.eqb WAL_HEADER_SIZE 7 && N.ltb WAL_HEADER_SIZE WAL_BLOCK_SIZE && N.leb WAL_BLOCK_SIZE 65543 &&
  N.eqb WAL_RT_EMPTY 0 && N.eqb WAL_RT_FULL 1 && N.eqb WAL_RT_FIRST 2 && N.eqb WAL_RT_MIDDLE 3 &&
  N.eqb WAL_RT_LAST 4 && N.eqb WAL_RT_SETCOMPRESSIONTYPE 9 &&
  list_eqb WAL_RT_FROM_U8 [0;1;2;3;4;9]%N && WAL_RT_FROM_U8_CONSISTENT &&
  N.eqb WAL_CT_NONE 0 && N.eqb WAL_CT_LZ4 1.
