(* Codec/VlogPtr.v — value pointers, value locations, value-log entry framing and file header, the
   reader `VLog::get`, and the inline-or-pointer decision of a memtable flush (property C11).
   Definitions only; statements in VlogPtrSpec.v, proofs in VlogPtr_proofs.v.

   Transcribed from /repo/src/vlog.rs and /repo/src/memtable/mod.rs:
     * ValuePointer::encode / decode   : version(1) file_id(4) offset(8) key_size(4) value_size(4)
                                         checksum(4), big endian; decode refuses any other length;
     * ValueLocation::encode / decode  : meta(1) version(1) value(rest); decode needs two bytes;
       is_value_pointer = (meta & BIT_VALUE_POINTER) != 0;
     * VLogWriter::append              : key_len(4) value_len(4) key value crc32(key ++ value)(4), big
                                         endian, written at the writer's current offset; the pointer
                                         returned carries that offset, the two lengths (`as u32`) and the crc;
     * VLogFileHeader::encode          : magic(4) version(2) file_id(4) created_at(8) max_file_size(8)
                                         compression(1) reserved(4);
     * VLog::get (after the block-cache lookup, modelled in Lsm/Vlog.v): read total_entry_size bytes at
       the offset (a short read leaves zeros: the count returned by read_at is ignored), compare the two
       length fields with the pointer, then — unless the level is Disabled — the stored crc with the
       pointer's, then — when the level is Full — the recomputed crc with the pointer's;
     * maybe_separate_to_vlog          : empty value -> unchanged; undecodable -> error; already a
                                         pointer -> unchanged; value log present and
                                         `value.len() > threshold` (operator generated) -> append.
   Field widths, tags, versions and the comparison operator come from Codec/VlogParams.v and Params.v
   (generated from the sources). *)
From Coq Require Import List NArith Arith Bool.
From SKV Require Import Params Codec.VlogParams Codec.Wal.
Import ListNotations.

Definition nlen (l : list byte) : N := N.of_nat (length l).

(* to_be_bytes of an unsigned integer of n bytes; a wider value is truncated like an `as uN` cast *)
Fixpoint be_enc (n : nat) (x : N) : list byte :=
  match n with
  | O => []
  | S m => be_enc m (N.div x 256) ++ [N.modulo x 256]
  end.
Definition be_dec (l : list byte) : N := fold_left (fun a b => (a * 256 + b)%N) l 0%N.
Definition fits (w : nat) (v : N) : bool := N.ltb v (N.pow 256 (N.of_nat w)).

(* consecutive big-endian fields *)
Definition enc_fields (fs : list (nat * N)) : list byte := flat_map (fun f => be_enc (fst f) (snd f)) fs.
Fixpoint dec_fields (ws : list nat) (l : list byte) : option (list N) :=
  match ws with
  | [] => match l with [] => Some [] | _ => None end
  | w :: r =>
    if length l <? w then None else
    match dec_fields r (skipn w l) with
    | Some vs => Some (be_dec (firstn w l) :: vs)
    | None => None
    end
  end.
Fixpoint fields_fit (fs : list (nat * N)) : bool :=
  match fs with [] => true | (w, v) :: r => fits w v && fields_fit r end.

(* ------------------------------------------------------------------------------ ValuePointer *)
Record vpointer := { vpt_version : N; vpt_file : N; vpt_offset : N; vpt_ksize : N; vpt_vsize : N; vpt_crc : N }.
Definition VPW : list nat := map N.to_nat VP_FIELDS.
Definition vpointer_fields (p : vpointer) : list (nat * N) :=
  combine VPW [vpt_version p; vpt_file p; vpt_offset p; vpt_ksize p; vpt_vsize p; vpt_crc p].
Definition vpointer_encode (p : vpointer) : list byte := enc_fields (vpointer_fields p).
Definition vpointer_decode (l : list byte) : option vpointer :=
  if negb (N.eqb (nlen l) VP_SIZE) then None else
  match dec_fields VPW l with
  | Some [a; b; c; d; e; f] =>
    Some {| vpt_version := a; vpt_file := b; vpt_offset := c; vpt_ksize := d; vpt_vsize := e; vpt_crc := f |}
  | _ => None
  end.
Definition vpointer_in_range (p : vpointer) : bool := fields_fit (vpointer_fields p).
Definition vpointer_eqb (p q : vpointer) : bool :=
  N.eqb (vpt_version p) (vpt_version q) && N.eqb (vpt_file p) (vpt_file q) && N.eqb (vpt_offset p) (vpt_offset q) &&
  N.eqb (vpt_ksize p) (vpt_ksize q) && N.eqb (vpt_vsize p) (vpt_vsize q) && N.eqb (vpt_crc p) (vpt_crc q).

(* ------------------------------------------------------------------------------ ValueLocation *)
Record vloc := { vlc_meta : N; vlc_version : N; vlc_value : list byte }.
Definition vloc_encode (l : vloc) : list byte := be_enc 1 (vlc_meta l) ++ be_enc 1 (vlc_version l) ++ vlc_value l.
Definition vloc_decode (d : list byte) : option vloc :=
  match d with
  | m :: v :: r => Some {| vlc_meta := m; vlc_version := v; vlc_value := r |}
  | _ => None
  end.
Definition vloc_in_range (l : vloc) : bool := fits 1 (vlc_meta l) && fits 1 (vlc_version l).
Definition vloc_is_pointer (l : vloc) : bool := negb (N.eqb (N.land (vlc_meta l) VL_BIT_VALUE_POINTER) 0).
Definition vloc_with_pointer (p : vpointer) : vloc :=
  {| vlc_meta := VL_BIT_VALUE_POINTER; vlc_version := VL_VERSION; vlc_value := vpointer_encode p |}.
Definition vloc_inline (v : list byte) : vloc := {| vlc_meta := 0; vlc_version := VL_VERSION; vlc_value := v |}.
(* the pointer a stored value holds, as TableWriter::add / cleanup_stale_versioned_index / resolve_value find it *)
Definition vloc_pointer_of (enc : list byte) : option vpointer :=
  match vloc_decode enc with
  | Some l => if vloc_is_pointer l then vpointer_decode (vlc_value l) else None
  | None => None
  end.

(* ------------------------------------------------------------------------------ entries, header, reader *)
Definition ELF : nat := N.to_nat VLOG_ENTRY_LEN_FIELD.
Definition ECL : nat := N.to_nat VLOG_ENTRY_CRC_LEN.
Definition VHW : list nat := map N.to_nat VLOG_HEADER_FIELDS.
Definition vslice (f : list byte) (o n : nat) : list byte :=
  let s := firstn n (skipn o f) in s ++ repeat 0%N (n - length s).

Section VlogCodec.
Variable crc : list byte -> N.            (* crc32fast::Hasher over key then value *)
Definition crc32u (d : list byte) : N := N.modulo (crc d) (N.pow 256 (N.of_nat ECL)).

Definition ventry_bytes (k v : list byte) : list byte :=
  be_enc ELF (nlen k) ++ be_enc ELF (nlen v) ++ k ++ v ++ be_enc ECL (crc (k ++ v)).
Definition ventry_size (k v : list byte) : N := N.of_nat (ELF + ELF + length k + length v + ECL).

Definition vheader_bytes (id created maxsize : N) : list byte :=
  enc_fields (combine VHW [VLOG_MAGIC; VLOG_FORMAT_VERSION; id; created; maxsize; VLOG_COMPRESSION_NONE; 0%N]).

(* VLogWriter::append on a file whose current content is `f` *)
Definition vwriter_append (id : N) (f k v : list byte) : list byte * vpointer :=
  (f ++ ventry_bytes k v,
   {| vpt_version := VP_VERSION; vpt_file := id; vpt_offset := nlen f;
      vpt_ksize := N.modulo (nlen k) (N.pow 256 (N.of_nat ELF));
      vpt_vsize := N.modulo (nlen v) (N.pow 256 (N.of_nat ELF));
      vpt_crc := crc32u (k ++ v) |}).

(* VLog::get below the cache *)
Definition vlog_read (level : N) (f : list byte) (p : vpointer) : option (list byte) :=
  let k := N.to_nat (vpt_ksize p) in
  let v := N.to_nat (vpt_vsize p) in
  let e := vslice f (N.to_nat (vpt_offset p)) (ELF + ELF + k + v + ECL) in
  if negb (N.eqb (be_dec (firstn ELF e)) (vpt_ksize p)) || negb (N.eqb (be_dec (firstn ELF (skipn ELF e))) (vpt_vsize p)) then None else
  let key := firstn k (skipn (ELF + ELF) e) in
  let value := firstn v (skipn (ELF + ELF + k) e) in
  let stored := be_dec (firstn ECL (skipn (ELF + ELF + k + v) e)) in
  if negb (N.eqb level VLOG_CK_DISABLED) && negb (N.eqb stored (vpt_crc p)) then None else
  if N.eqb level VLOG_CK_FULL && negb (N.eqb (crc32u (key ++ value)) (vpt_crc p)) then None else
  Some value.
End VlogCodec.

(* ------------------------------------------------------------------------------ inline or pointer *)
Inductive vsep := VSepPass | VSepAppend (value : list byte) | VSepErr.
(* arguments of the generated operator: (value length, threshold) *)
Definition separate_dec (threshold : N) (len : N) : bool := VLOG_SEPARATE_CMP len threshold.
Definition maybe_separate (have_vlog : bool) (threshold : N) (enc : list byte) : vsep :=
  match enc with
  | [] => VSepPass
  | _ =>
    match vloc_decode enc with
    | None => VSepErr
    | Some l =>
      if vloc_is_pointer l then VSepPass
      else if have_vlog && separate_dec threshold (nlen (vlc_value l)) then VSepAppend (vlc_value l)
      else VSepPass
    end
  end.

(* side conditions tying the generated parameters to the layout of the model *)
Definition vlog_params_ok : bool :=
  VLOG_ANCHORS_OK && C16_ANCHORS_OK &&
  Nat.eqb (length VP_FIELDS) 6 && N.eqb (fold_right N.add 0%N VP_FIELDS) VP_SIZE &&
  Nat.eqb (length VLOG_HEADER_FIELDS) 7 && N.eqb (fold_right N.add 0%N VLOG_HEADER_FIELDS) VLOG_HEADER_SIZE &&
  N.eqb VLOG_ENTRY_LEN_FIELD 4 && N.eqb VLOG_ENTRY_CRC_LEN 4 &&
  fits 1 VL_VERSION && fits 1 VL_BIT_VALUE_POINTER && negb (N.eqb VL_BIT_VALUE_POINTER 0) &&
  fits 1 VP_VERSION && negb (N.eqb VLOG_CK_DISABLED VLOG_CK_FULL) &&
  N.ltb VLOG_NO_REF VLOG_FIRST_FILE_ID && N.eqb VLOG_NO_ACTIVE VLOG_NO_REF.
