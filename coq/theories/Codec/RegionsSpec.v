(* Codec/RegionsSpec.v — the C16 theorem statements about Codec/Regions.v, as Props.
   Proved in Regions_proofs.v; restated in Props/C16.v. *)
From Coq Require Import List NArith Arith Bool Lia.
From SKV Require Import Params Codec.Wal Codec.WalSpec Codec.Regions.
Import ListNotations.

(* a region list tiles [0, n): every offset below n lies in exactly one region, every other offset in none *)
Definition tiles (rs : list region) (n : nat) : Prop :=
  forall x, (x < n -> count_in x rs = 1) /\ (n <= x -> count_in x rs = 0).

(* T1: the region map of a table description tiles the file, whatever the block sizes *)
Definition table_regions_cover_stmt : Prop :=
  forall d : table_descr, tiles (table_regions d) (table_len d).

(* T1': a description whose footer handles fit has the fixed footer length, i.e. the file length is
   body + TABLE_FULL_FOOTER_LENGTH (this is what ties `table_len` to a real file's size) *)
Definition table_len_footer_stmt : Prop :=
  forall d : table_descr, table_descr_ok d = true ->
    table_len d = total (body_fields d) + FULL_FOOTER_LEN.

(* T2: the region map computed from ANY bytes of a commit-log segment tiles exactly those bytes *)
Definition wal_regions_cover_stmt : Prop :=
  forall (B : nat) (file : list byte), 0 < B -> tiles (wal_regions B file) (length file).

(* T3: same for a value-log file (any bytes) *)
Definition vlog_regions_cover_stmt : Prop :=
  forall file : list byte, tiles (vlog_regions file) (length file).

Section Readers.
Variable crcm : list byte -> list byte.
Variable decompress : list byte -> option (list byte).
Variable vcrc : list byte -> list byte.

(* a block (payload n bytes at o, then type byte, then checksum) that lies inside the file and verifies *)
Definition block_ok (f : list byte) (o n : nat) : Prop :=
  o + n + CTL + CKL <= length f /\
  crcm (firstn (n + CTL) (skipn o f)) = firstn CKL (skipn (o + n + CTL) f).

(* T4: altering one byte of a block that verified makes read_table_block fail — unconditionally when
   the byte is in the stored checksum, and for a byte of payload / type GIVEN that the checksum of the
   altered content differs from the checksum of the original content (no CRC collision) *)
Definition block_damage_detected_stmt : Prop :=
  (forall d, length (crcm d) = CKL) ->
  forall (f : list byte) (o n x : nat) (v : byte),
    block_ok f o n ->
    o <= x < o + n + CTL + CKL ->
    v <> nth x f 0%N ->
    (x < o + n + CTL ->
       crcm (firstn (n + CTL) (skipn o (alter f x v))) <> crcm (firstn (n + CTL) (skipn o f))) ->
    read_block crcm decompress (alter f x v) o n = None.

(* T5: a read of a block depends only on the bytes of that block: altering a byte elsewhere does not
   change its result (so reads that do not touch the damaged region still return the written data) *)
Definition block_read_local_stmt : Prop :=
  forall (f : list byte) (o n x : nat) (v : byte),
    o + n + CTL + CKL <= length f ->
    (x < o \/ o + n + CTL + CKL <= x) ->
    read_block crcm decompress (alter f x v) o n = read_block crcm decompress f o n.

(* T6: footer — an altered magic / format / checksum-type byte makes the footer check fail; an altered
   padding byte changes nothing that is decoded (unconditional) *)
Definition footer_fixed_fields_detected_stmt : Prop :=
  forall (f : list byte) (x : nat) (v : byte) (hs : list byte),
    footer_check f = Some hs ->
    v <> nth x f 0%N ->
    (length f - FULL_FOOTER_LEN <= x < length f - FULL_FOOTER_LEN + HANDLES_AT \/ length f - MAGIC_LEN <= x < length f) ->
    footer_check (alter f x v) = None.

(* T7: value log under Full verification — a pointer that resolved; any single altered byte inside its
   entry makes the read fail: unconditionally for the length fields and the stored checksum, for key /
   value bytes GIVEN that the checksum of the altered key ++ value differs *)
Definition vlog_entry_ok (f : list byte) (p : vptr) : Prop :=
  vp_off p + (2 * VLF + vp_k p + vp_v p + VCL) <= length f /\
  exists val, vlog_get vcrc f p = Some val.
Definition vlog_full_detected_stmt : Prop :=
  forall (f : list byte) (p : vptr) (x : nat) (v : byte),
    (forall b, In b f -> (b < 256)%N) -> (v < 256)%N ->
    vlog_entry_ok f p ->
    vp_off p <= x < vp_off p + (2 * VLF + vp_k p + vp_v p + VCL) ->
    v <> nth x f 0%N ->
    (vp_off p + 2 * VLF <= x < vp_off p + 2 * VLF + vp_k p + vp_v p ->
       vcrc (firstn (vp_k p + vp_v p) (skipn (vp_off p + 2 * VLF) (alter f x v))) <>
       vcrc (firstn (vp_k p + vp_v p) (skipn (vp_off p + 2 * VLF) f))) ->
    vlog_get vcrc (alter f x v) p = None.

(* T8: the decoders of the model are total functions: on ANY bytes and ANY handle / pointer they return
   an error or a value (the statement is trivial in Gallina; the corresponding obligation on the Rust
   side — no indexing panic, no unbounded allocation, no hang on arbitrary bytes — is what E6 watches;
   see the list of indexing sites in tools/vlib/c16.py WATCHED_SITES) *)
Definition reader_total_stmt : Prop :=
  forall (f : list byte) (o n : nat) (p : vptr),
    (read_block crcm decompress f o n = None \/ exists b, read_block crcm decompress f o n = Some b) /\
    (footer_check f = None \/ exists h, footer_check f = Some h) /\
    (vlog_get vcrc f p = None \/ exists b, vlog_get vcrc f p = Some b).
End Readers.

(* T9 (corollary of C12 wal_prefix_stable): altering one byte of a segment, or cutting it, at position x
   never changes the records that end at or before x — what recovery keeps is at least the prefix of
   the commit order written wholly before the damage *)
Definition wal_damage_prefix_stmt : Prop :=
  forall (B : nat) (crc : N -> list byte -> list byte) (decompress : list byte -> option (list byte)),
  7 < B -> forall (f : list byte) (x : nat) (v : byte),
    filter (fun r => snd r <=? x) (fst (read_all B crc decompress (alter f x v))) =
    filter (fun r => snd r <=? x) (fst (read_all B crc decompress f)) /\
    filter (fun r => snd r <=? x) (fst (read_all B crc decompress (firstn x f))) =
    filter (fun r => snd r <=? x) (fst (read_all B crc decompress f)).

(* NOT PROVED (kept as a statement; checked dynamically by E6 on every generated segment and by the
   Example C16_wal_example): on a segment that the reader accepts up to a clean end of log, the ends of
   the Full / Last records in the scanned description are exactly the record ends the reader reports *)
Definition wal_descr_ends_stmt : Prop :=
  forall (B : nat) (crc : N -> list byte -> list byte) (decompress : list byte -> option (list byte)) (f : list byte),
    7 < B -> snd (read_all B crc decompress f) = Eof ->
    wal_rec_ends 0 (wal_descr B f) = map snd (fst (read_all B crc decompress f)).
