(* Codec/WalSpec.v — the C12 theorem statements about the model of Codec/Wal.v, as Props.
   Proved in Wal_proofs.v; restated (instantiated) in Props/C12.v. *)
From Coq Require Import List NArith Arith Bool Lia Sorted.
From SKV Require Import Codec.Wal.
Import ListNotations.

Definition nonempty (p : list byte) : bool := match p with [] => false | _ => true end.

Section WalSpec.
Variable B : nat.
Variable crc : N -> list byte -> list byte.
(* uncompressed segments: the compression functions are irrelevant *)
Variable compress : list byte -> list byte.
Variable decompress : list byte -> option (list byte).

Definition geometry_ok : Prop := 7 < B /\ (N.of_nat B <= 65542)%N /\ (forall t d, length (crc t d) = 4).

Let sessions' := sessions B crc compress decompress false.
Let read' := read_all B crc decompress.
Let records' := records B crc decompress.

(* S1: records of any size, over any split into sessions, read back exactly, in order, then end of log *)
Definition wal_roundtrip_stmt : Prop :=
  geometry_ok ->
  forall ss : list (list (list byte)),
    exists f, sessions' [] ss = Some f /\
              records' f = filter nonempty (concat ss) /\
              snd (read' f) = Eof.

(* end offsets reported by the reader are strictly increasing and inside the file (any bytes) *)
Definition wal_ends_increasing_stmt : Prop :=
  7 < B -> forall f : list byte,
    StronglySorted lt (map snd (fst (read' f))) /\ Forall (fun e => e <= length f) (map snd (fst (read' f))).

(* S3: what lies wholly inside a common prefix is delivered identically (ANY two byte strings):
   damage or truncation at position p never affects the records that end at or before p *)
Definition wal_prefix_stable_stmt : Prop :=
  7 < B -> forall (f f' : list byte) (p : nat),
    firstn p f = firstn p f' ->
    filter (fun r => snd r <=? p) (fst (read' f)) = filter (fun r => snd r <=? p) (fst (read' f')).

(* S2: a segment cut at ANY byte yields exactly the records that end inside the cut — a prefix of
   what was appended containing every record lying wholly before the cut; nothing else *)
Definition wal_truncation_prefix_stmt : Prop :=
  geometry_ok ->
  forall (ss : list (list (list byte))) (f : list byte) (n : nat),
    sessions' [] ss = Some f ->
    fst (read' (firstn n f)) = filter (fun r => snd r <=? n) (fst (read' f)) /\
    exists k, map fst (fst (read' (firstn n f))) = firstn k (filter nonempty (concat ss)).

(* S4: repair keeps exactly the delivered records (for ANY byte string as the damaged segment) *)
Definition wal_repair_stmt : Prop :=
  geometry_ok ->
  forall file : list byte,
    forallb nonempty (records' file) = true ->
    match repair B crc compress decompress file with
    | None => records' file = []
    | Some g => records' g = records' file /\ snd (read' g) = Eof
    end.

(* the recovery flow of Core::new: replay; on a corruption report repair (or delete) the segment *)
Definition recover_file (t : list byte) : list byte :=
  match snd (read' t) with
  | Eof => t
  | Corrupt _ _ => match repair B crc compress decompress t with None => [] | Some g => g end
  end.

(* S5: records appended after opening a segment are read back at the next open — for every
   segment the writer produced, cut at ANY byte (the writer drops a torn tail before appending) *)
Definition wal_append_after_recovery_stmt : Prop :=
  geometry_ok ->
  forall (ss : list (list (list byte))) (f : list byte) (n : nat) (new : list (list byte)),
    sessions' [] ss = Some f ->
    exists g, session B crc compress decompress false (recover_file (firstn n f)) new = Some g /\
              records' g = records' (firstn n f) ++ filter nonempty new /\
              snd (read' g) = Eof.

End WalSpec.
